(* C44 (c): proofs.  Shape-independent: identities of rational functions by `field`, linear facts by `lra`. *)
From Coq Require Import Reals List Lra Lia.
Import ListNotations.
From C44 Require Import C44PS_gen C44PSStatements.
Local Open Scope R_scope.

Ltac red_lists := cbv beta iota zeta delta [c nth app row5 Nat.mul Nat.add ps_fz ps_jac ps_sig ps_axial tri_fz tri_sig pstrain_fz pstrain_sig gps_fz gps_sig axis_fz axis_sig ops_fz ops_jac ops_sig].
Ltac red_lists_in H := cbv beta iota zeta delta [c nth app row5 Nat.mul Nat.add ps_fz ps_jac ps_sig ps_axial tri_fz tri_sig pstrain_fz pstrain_sig gps_fz gps_sig axis_fz axis_sig ops_fz ops_jac ops_sig] in H.
Ltac nz := repeat split; first [lra | nra | (intro; nra)].
Ltac rat := timeout 300 (field; nz).

(* sigma_zz (final) = young * fetozz, as rational functions *)
Lemma ps_szz_is_young_fetozz :
  forall eel0 eel1 eel2 eel3 deto0 deto1 deto2 deto3 etozz young nu z0 z1 z2 z3 z4 : R,
    0 < young -> -1 < nu < 1/2 ->
    c (ps_sig eel0 eel1 eel2 eel3 deto0 deto1 deto2 deto3 etozz young nu z0 z1 z2 z3 z4) 2 =
    young * c (ps_fz eel0 eel1 eel2 eel3 deto0 deto1 deto2 deto3 etozz young nu z0 z1 z2 z3 z4) 4.
Proof. intros. red_lists. rat. Qed.

Lemma ps_axial_root_iff_szz_zero_proof : ps_axial_root_iff_szz_zero_ok.
Proof.
  intros eel0 eel1 eel2 eel3 deto0 deto1 deto2 deto3 etozz young nu z0 z1 z2 z3 z4 Hy Hn.
  rewrite (ps_szz_is_young_fetozz eel0 eel1 eel2 eel3 deto0 deto1 deto2 deto3 etozz young nu z0 z1 z2 z3 z4 Hy Hn).
  split; intro H.
  - rewrite H. ring.
  - apply Rmult_integral in H. destruct H as [H | H]; [lra | exact H].
Qed.

(* the sigma_zz of the final stress in closed form *)
Lemma ps_szz_closed :
  forall eel0 eel1 eel2 eel3 deto0 deto1 deto2 deto3 etozz young nu z0 z1 z2 z3 z4 : R,
    0 < young -> -1 < nu < 1/2 ->
    c (ps_sig eel0 eel1 eel2 eel3 deto0 deto1 deto2 deto3 etozz young nu z0 z1 z2 z3 z4) 2 =
    young / ((1 + nu) * (1 - 2 * nu)) * ((1 - nu) * (eel2 + z2) + nu * ((eel0 + z0) + (eel1 + z1))).
Proof. intros. red_lists. rat. Qed.

Lemma ps_root_is_3D_response_proof : ps_root_is_3D_response_ok.
Proof.
  intros eel0 eel1 eel2 eel3 deto0 deto1 deto2 deto3 etozz young nu z0 z1 z2 z3 z4 Hy Hn Hroot s.
  assert (Hz : c s 2 = 0).
  { subst s. apply (proj1 (ps_axial_root_iff_szz_zero_proof eel0 eel1 eel2 eel3 deto0 deto1 deto2 deto3 etozz young nu z0 z1 z2 z3 z4 Hy Hn)).
    unfold c. rewrite Hroot. reflexivity. }
  red_lists_in Hroot. injection Hroot as R0 R1 R2 R3 R4. clear R4.
  split; [| split; [| split]].
  - red_lists. repeat (apply (f_equal2 (@cons R)); [lra |]). reflexivity.
  - (* the two classes compute the same rational functions of (eel + deel) *)
    assert (E0 : c (tri_sig eel0 eel1 eel2 eel3 0 0 deto0 deto1 (deto2 + z4) deto3 0 0 young nu z0 z1 z2 z3 0 0) 0 = c s 0) by (subst s; red_lists; rat).
    assert (E1 : c (tri_sig eel0 eel1 eel2 eel3 0 0 deto0 deto1 (deto2 + z4) deto3 0 0 young nu z0 z1 z2 z3 0 0) 1 = c s 1) by (subst s; red_lists; rat).
    assert (E2 : c (tri_sig eel0 eel1 eel2 eel3 0 0 deto0 deto1 (deto2 + z4) deto3 0 0 young nu z0 z1 z2 z3 0 0) 2 = c s 2) by (subst s; red_lists; rat).
    assert (E3 : c (tri_sig eel0 eel1 eel2 eel3 0 0 deto0 deto1 (deto2 + z4) deto3 0 0 young nu z0 z1 z2 z3 0 0) 3 = c s 3) by (subst s; red_lists; rat).
    assert (E4 : c (tri_sig eel0 eel1 eel2 eel3 0 0 deto0 deto1 (deto2 + z4) deto3 0 0 young nu z0 z1 z2 z3 0 0) 4 = 0) by (red_lists; rat).
    assert (E5 : c (tri_sig eel0 eel1 eel2 eel3 0 0 deto0 deto1 (deto2 + z4) deto3 0 0 young nu z0 z1 z2 z3 0 0) 5 = 0) by (red_lists; rat).
    rewrite Hz in E2. rewrite <- E0, <- E1, <- E3.
    (* a list of six components is determined by its components *)
    remember (tri_sig eel0 eel1 eel2 eel3 0 0 deto0 deto1 (deto2 + z4) deto3 0 0 young nu z0 z1 z2 z3 0 0) as t eqn:Ht.
    assert (L : length t = 6%nat) by (rewrite Ht; reflexivity).
    clear Ht. unfold c in *.
    destruct t as [| t0 [| t1 [| t2 [| t3 [| t4 [| t5 [| ? ?]]]]]]]; try discriminate L.
    simpl in *. subst. reflexivity.
  - exact Hz.
  - red_lists. reflexivity.
Qed.

Lemma ps_root_is_plane_stress_hooke_proof : ps_root_is_plane_stress_hooke_ok.
Proof.
  intros eel0 eel1 eel2 eel3 deto0 deto1 deto2 deto3 etozz young nu z0 z1 z2 z3 z4 Hy Hn Hroot exx eyy exy.
  assert (Hz : c (ps_sig eel0 eel1 eel2 eel3 deto0 deto1 deto2 deto3 etozz young nu z0 z1 z2 z3 z4) 2 = 0).
  { apply (proj1 (ps_axial_root_iff_szz_zero_proof eel0 eel1 eel2 eel3 deto0 deto1 deto2 deto3 etozz young nu z0 z1 z2 z3 z4 Hy Hn)).
    unfold c. rewrite Hroot. reflexivity. }
  red_lists_in Hroot. injection Hroot as R0 R1 R2 R3 R4. clear R4 R2.
  assert (Z0 : z0 = deto0) by lra. assert (Z1 : z1 = deto1) by lra. assert (Z3 : z3 = deto3) by lra.
  (* the axial elastic strain from sigma_zz = 0 *)
  rewrite (ps_szz_closed eel0 eel1 eel2 eel3 deto0 deto1 deto2 deto3 etozz young nu z0 z1 z2 z3 z4 Hy Hn) in Hz.
  apply Rmult_integral in Hz. destruct Hz as [Hz | Hz].
  { exfalso. assert (0 < young / ((1 + nu) * (1 - 2 * nu))) by (apply Rdiv_lt_0_compat; [lra | apply Rmult_lt_0_compat; lra]). lra. }
  assert (A2 : eel2 + z2 = - nu / (1 - nu) * (exx + eyy)).
  { subst exx eyy. apply Rmult_eq_reg_l with (1 - nu); [| lra]. field_simplify_eq; [| lra]. rewrite <- Z0, <- Z1. lra. }
  split; [| exact A2].
  assert (Z2 : z2 = - nu / (1 - nu) * (exx + eyy) - eel2) by lra.
  subst exx eyy exy. rewrite Z2. rewrite Z0, Z1, Z3.
  red_lists. repeat (apply (f_equal2 (@cons R)); [rat |]). reflexivity.
Qed.

Ltac list_eq := repeat (apply (f_equal2 (@cons R)); [rat |]); reflexivity.

Lemma generated_classes_hypothesis_consistency_proof : generated_classes_hypothesis_consistency_ok.
Proof.
  unfold generated_classes_hypothesis_consistency_ok, class2D_is_restriction_of_3D.
  repeat split; red_lists; list_eq.
Qed.

Lemma ps_jac_is_derivative_proof : ps_jac_is_derivative_ok.
Proof.
  intros eel0 eel1 eel2 eel3 deto0 deto1 deto2 deto3 etozz young nu z0 z1 z2 z3 z4 h0 h1 h2 h3 h4 Hy Hn i Hi.
  do 5 (destruct i as [| i]; [red_lists; rat |]). lia.
Qed.

Lemma ops_szz_is_D22_fetozz :
  forall eel0 eel1 eel2 eel3 deto0 deto1 deto2 deto3 etozz D00 D01 D02 D10 D11 D12 D20 D21 D22 D33 z0 z1 z2 z3 z4 : R,
    D22 <> 0 ->
    c (ops_sig eel0 eel1 eel2 eel3 deto0 deto1 deto2 deto3 etozz D00 D01 D02 D10 D11 D12 D20 D21 D22 D33 z0 z1 z2 z3 z4) 2 = D22 * c (ops_fz eel0 eel1 eel2 eel3 deto0 deto1 deto2 deto3 etozz D00 D01 D02 D10 D11 D12 D20 D21 D22 D33 z0 z1 z2 z3 z4) 4.
Proof. intros. red_lists. timeout 300 (field; assumption). Qed.

Lemma ops_axial_root_iff_szz_zero_proof : ops_axial_root_iff_szz_zero_ok.
Proof.
  intros eel0 eel1 eel2 eel3 deto0 deto1 deto2 deto3 etozz D00 D01 D02 D10 D11 D12 D20 D21 D22 D33 z0 z1 z2 z3 z4 HD.
  rewrite (ops_szz_is_D22_fetozz eel0 eel1 eel2 eel3 deto0 deto1 deto2 deto3 etozz D00 D01 D02 D10 D11 D12 D20 D21 D22 D33 z0 z1 z2 z3 z4 HD).
  split; intro H.
  - rewrite H. ring.
  - apply Rmult_integral in H. destruct H as [H | H]; [contradiction | exact H].
Qed.

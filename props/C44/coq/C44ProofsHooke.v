(* C44: proofs (skeleton written by mkcoq.py; shape-independent tactics of C44Tactics.v) *)
From Coq Require Import Reals List Lra.
From VLib Require Import RealExtra.
From C44 Require Import C44Spec C44_gen C44Statements C44Tactics.
Import ListNotations.
Local Open Scope R_scope.

Lemma isoD_tri_meaning_proof : isoD_tri_meaning_ok.
Proof. unfold isoD_tri_meaning_ok. prove isoD_tri. Qed.

Lemma isosig_tri_meaning_proof : isosig_tri_meaning_ok.
Proof. unfold isosig_tri_meaning_ok. prove isosig_tri. Qed.

Lemma isosig_pstrain_is_3D_restricted_proof : isosig_pstrain_is_3D_restricted_ok.
Proof. unfold isosig_pstrain_is_3D_restricted_ok. intros; unfold isosig_tri, isosig_pstrain; spec_red; list_eq. Qed.

Lemma isosig_gps_is_3D_restricted_proof : isosig_gps_is_3D_restricted_ok.
Proof. unfold isosig_gps_is_3D_restricted_ok. intros; unfold isosig_tri, isosig_gps; spec_red; list_eq. Qed.

Lemma isosig_axis_is_3D_restricted_proof : isosig_axis_is_3D_restricted_ok.
Proof. unfold isosig_axis_is_3D_restricted_ok. intros; unfold isosig_tri, isosig_axis; spec_red; list_eq. Qed.

Lemma isosig_pstress_is_3D_restricted_proof : isosig_pstress_is_3D_restricted_ok.
Proof. unfold isosig_pstress_is_3D_restricted_ok. intros; unfold isosig_tri, isosig_pstress; spec_red; list_eq. Qed.

Lemma isosig_agpstrain_is_3D_restricted_proof : isosig_agpstrain_is_3D_restricted_ok.
Proof. unfold isosig_agpstrain_is_3D_restricted_ok. intros; unfold isosig_tri, isosig_agpstrain; spec_red; list_eq. Qed.

Lemma isosig_pstress_alt_szz_proof : isosig_pstress_alt_szz_ok.
Proof. unfold isosig_pstress_alt_szz_ok. intros; unfold isosig_pstress_alt; spec_red; comp. Qed.

Lemma isosig_pstress_alt_is_3D_condensed_proof : isosig_pstress_alt_is_3D_condensed_ok.
Proof. unfold isosig_pstress_alt_is_3D_condensed_ok. intros; unfold isosig_tri, isosig_pstress_alt; spec_red; list_eq. Qed.

Lemma ortsig_pstrain_is_3D_restricted_proof : ortsig_pstrain_is_3D_restricted_ok.
Proof. unfold ortsig_pstrain_is_3D_restricted_ok. intros; unfold ortsig_tri, ortsig_pstrain; spec_red; list_eq. Qed.

Lemma ortsig_gps_is_3D_restricted_proof : ortsig_gps_is_3D_restricted_ok.
Proof. unfold ortsig_gps_is_3D_restricted_ok. intros; unfold ortsig_tri, ortsig_gps; spec_red; list_eq. Qed.

Lemma ortsig_axis_is_3D_restricted_proof : ortsig_axis_is_3D_restricted_ok.
Proof. unfold ortsig_axis_is_3D_restricted_ok. intros; unfold ortsig_tri, ortsig_axis; spec_red; list_eq. Qed.

Lemma ortsig_agpstrain_is_3D_restricted_proof : ortsig_agpstrain_is_3D_restricted_ok.
Proof. unfold ortsig_agpstrain_is_3D_restricted_ok. intros; unfold ortsig_tri, ortsig_agpstrain; spec_red; list_eq. Qed.

Lemma ortsig_pstress_alt_szz_proof : ortsig_pstress_alt_szz_ok.
Proof. unfold ortsig_pstress_alt_szz_ok. intros; unfold ortsig_pstress_alt; spec_red; comp. Qed.

Lemma ortsig_pstress_alt_pipe_szz_proof : ortsig_pstress_alt_pipe_szz_ok.
Proof. unfold ortsig_pstress_alt_pipe_szz_ok. intros; unfold ortsig_pstress_alt_pipe; spec_red; comp. Qed.


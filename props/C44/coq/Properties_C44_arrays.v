(* C44: property statements -- conjunctions of the obligations of C44Statements.v, `exact` of proved lemmas,
   Print Assumptions *)
From Coq Require Import Reals List.
From VLib Require Import RealExtra.
From C44 Require Import C44Spec C44_gen C44Statements C44ProofsArr2.

Theorem C44_emitted_rotations_arrays_two_gradients :
  tg_arrg_pstrain_meaning_ok /\
  tg_arrf_pstrain_meaning_ok.
Proof.
  exact (conj tg_arrg_pstrain_meaning_proof tg_arrf_pstrain_meaning_proof).
Qed.
Print Assumptions C44_emitted_rotations_arrays_two_gradients.


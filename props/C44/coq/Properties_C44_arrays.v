(* C44: property statements -- only `exact` of proved lemmas and Print Assumptions *)
From Coq Require Import Reals List.
From VLib Require Import RealExtra.
From C44 Require Import C44Spec C44_gen C44Statements C44ProofsArr2.

Theorem C44_tg_arrg_pstrain_meaning : tg_arrg_pstrain_meaning_ok.
Proof. exact tg_arrg_pstrain_meaning_proof. Qed.
Print Assumptions C44_tg_arrg_pstrain_meaning.

Theorem C44_tg_arrf_pstrain_meaning : tg_arrf_pstrain_meaning_ok.
Proof. exact tg_arrf_pstrain_meaning_proof. Qed.
Print Assumptions C44_tg_arrf_pstrain_meaning.

Theorem C44_tg_arrk_pstrain_index : tg_arrk_pstrain_index_ok.
Proof. exact tg_arrk_pstrain_index_proof. Qed.
Print Assumptions C44_tg_arrk_pstrain_index.


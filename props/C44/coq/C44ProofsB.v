(* C44: proofs (skeleton written by mkcoq.py; shape-independent tactics of C44Tactics.v) *)
From Coq Require Import Reals List Lra.
From VLib Require Import RealExtra.
From C44 Require Import C44Spec C44_gen C44Statements C44Tactics.
Import ListNotations.
Local Open Scope R_scope.

Lemma gen_rotg_tri_meaning_proof : gen_rotg_tri_meaning_ok.
Proof. unfold gen_rotg_tri_meaning_ok. prove gen_rotg_tri. Qed.

Lemma gen_rotf_tri_meaning_proof : gen_rotf_tri_meaning_ok.
Proof. unfold gen_rotf_tri_meaning_ok. prove gen_rotf_tri. Qed.

Lemma gen_rotk_tri_is_change_basis_proof : gen_rotk_tri_is_change_basis_ok.
Proof. unfold gen_rotk_tri_is_change_basis_ok. intros; unfold gen_rotk_tri, cb4_3; spec_red; list_eq. Qed.

Lemma gen_rotg_pstrain_meaning_proof : gen_rotg_pstrain_meaning_ok.
Proof. unfold gen_rotg_pstrain_meaning_ok. prove gen_rotg_pstrain. Qed.

Lemma gen_rotf_pstrain_meaning_proof : gen_rotf_pstrain_meaning_ok.
Proof. unfold gen_rotf_pstrain_meaning_ok. prove gen_rotf_pstrain. Qed.

Lemma gen_rotk_pstrain_index_proof : gen_rotk_pstrain_index_ok.
Proof. unfold gen_rotk_pstrain_index_ok. prove gen_rotk_pstrain. Qed.

Lemma gen_rotg_gps_meaning_proof : gen_rotg_gps_meaning_ok.
Proof. unfold gen_rotg_gps_meaning_ok. prove gen_rotg_gps. Qed.

Lemma gen_rotf_gps_meaning_proof : gen_rotf_gps_meaning_ok.
Proof. unfold gen_rotf_gps_meaning_ok. prove gen_rotf_gps. Qed.

Lemma gen_rotk_gps_same_as_pstrain_proof : gen_rotk_gps_same_as_pstrain_ok.
Proof. unfold gen_rotk_gps_same_as_pstrain_ok. intros; unfold gen_rotk_gps, gen_rotk_pstrain; spec_red; list_eq. Qed.

Lemma gen_rotg_axis_meaning_proof : gen_rotg_axis_meaning_ok.
Proof. unfold gen_rotg_axis_meaning_ok. prove gen_rotg_axis. Qed.

Lemma gen_rotf_axis_meaning_proof : gen_rotf_axis_meaning_ok.
Proof. unfold gen_rotf_axis_meaning_ok. prove gen_rotf_axis. Qed.

Lemma gen_rotk_axis_same_as_pstrain_proof : gen_rotk_axis_same_as_pstrain_ok.
Proof. unfold gen_rotk_axis_same_as_pstrain_ok. intros; unfold gen_rotk_axis, gen_rotk_pstrain; spec_red; list_eq. Qed.

Lemma gen_rotg_pstress_meaning_proof : gen_rotg_pstress_meaning_ok.
Proof. unfold gen_rotg_pstress_meaning_ok. prove gen_rotg_pstress. Qed.

Lemma gen_rotf_pstress_meaning_proof : gen_rotf_pstress_meaning_ok.
Proof. unfold gen_rotf_pstress_meaning_ok. prove gen_rotf_pstress. Qed.

Lemma gen_rotk_pstress_same_as_pstrain_proof : gen_rotk_pstress_same_as_pstrain_ok.
Proof. unfold gen_rotk_pstress_same_as_pstrain_ok. intros; unfold gen_rotk_pstress, gen_rotk_pstrain; spec_red; list_eq. Qed.

Lemma gen_rotg_agpstrain_meaning_proof : gen_rotg_agpstrain_meaning_ok.
Proof. unfold gen_rotg_agpstrain_meaning_ok. prove gen_rotg_agpstrain. Qed.

Lemma gen_rotf_agpstrain_meaning_proof : gen_rotf_agpstrain_meaning_ok.
Proof. unfold gen_rotf_agpstrain_meaning_ok. prove gen_rotf_agpstrain. Qed.

Lemma gen_rotk_agpstrain_index_proof : gen_rotk_agpstrain_index_ok.
Proof. unfold gen_rotk_agpstrain_index_ok. prove gen_rotk_agpstrain. Qed.

Lemma gen_pstrain_global_response_proof : gen_pstrain_global_response_ok.
Proof. unfold gen_pstrain_global_response_ok. intros; unfold gen_rotg_pstrain, gen_rotf_pstrain, gen_rotk_pstrain, app_2; spec_red; list_eq. Qed.

Lemma gen_axis_global_response_proof : gen_axis_global_response_ok.
Proof. unfold gen_axis_global_response_ok. intros; unfold gen_rotg_axis, gen_rotf_axis, gen_rotk_axis, app_2; spec_red; list_eq. Qed.

Lemma gen_agpstrain_global_response_proof : gen_agpstrain_global_response_ok.
Proof. unfold gen_agpstrain_global_response_ok. intros; unfold gen_rotg_agpstrain, gen_rotf_agpstrain, gen_rotk_agpstrain, app_1; spec_red; list_eq. Qed.

Lemma gen_arrg_pstrain_meaning_proof : gen_arrg_pstrain_meaning_ok.
Proof. unfold gen_arrg_pstrain_meaning_ok. prove gen_arrg_pstrain. Qed.

Lemma gen_arrf_pstrain_meaning_proof : gen_arrf_pstrain_meaning_ok.
Proof. unfold gen_arrf_pstrain_meaning_ok. prove gen_arrf_pstrain. Qed.

Lemma gen_arrk_pstrain_index_proof : gen_arrk_pstrain_index_ok.
Proof. unfold gen_arrk_pstrain_index_ok. prove gen_arrk_pstrain. Qed.

Lemma tg_rotg_pstrain_meaning_proof : tg_rotg_pstrain_meaning_ok.
Proof. unfold tg_rotg_pstrain_meaning_ok. prove tg_rotg_pstrain. Qed.

Lemma tg_rotf_pstrain_meaning_proof : tg_rotf_pstrain_meaning_ok.
Proof. unfold tg_rotf_pstrain_meaning_ok. prove tg_rotf_pstrain. Qed.


(* C44: statements of the obligations (written by mkcoq.py, a typing aid; committed).  Each `<name>_ok` is a Prop about
   the definitions regenerated from /repo (C44_gen.v) and the specification (C44Spec.v). *)
From Coq Require Import Reals List.
From VLib Require Import RealExtra.
From C44 Require Import C44Spec C44_gen.
Import ListNotations.
Local Open Scope R_scope.

Definition fromrot_1_index_ok : Prop :=
  forall r0 r1 r2 r3 r4 r5 r6 r7 r8 : R,
  fromrot_1 r0 r1 r2 r3 r4 r5 r6 r7 r8 = flat_A 1 (Rot4s (full_r 1 [r0; r1; r2; r3; r4; r5; r6; r7; r8])).

Definition fromrot_1_acts_ok : Prop :=
  forall r0 r1 r2 r3 r4 r5 r6 r7 r8 s0 s1 s2 : R,
  let m := fromrot_1 r0 r1 r2 r3 r4 r5 r6 r7 r8 in
  (app_1 (nthR m 0) (nthR m 1) (nthR m 2) (nthR m 3) (nthR m 4) (nthR m 5) (nthR m 6) (nthR m 7) (nthR m 8) s0 s1 s2) = flat_s 1 (rot2 (full_r 1 [r0; r1; r2; r3; r4; r5; r6; r7; r8]) (full_s 1 [s0; s1; s2])).

Definition cb2_1_meaning_ok : Prop :=
  forall s0 s1 s2 r0 r1 r2 r3 r4 r5 r6 r7 r8 : R,
  (cb2_1 s0 s1 s2 r0 r1 r2 r3 r4 r5 r6 r7 r8) = flat_s 1 (rot2 (full_r 1 [r0; r1; r2; r3; r4; r5; r6; r7; r8]) (full_s 1 [s0; s1; s2])).

Definition cb4_1_index_ok : Prop :=
  forall c0 c1 c2 c3 c4 c5 c6 c7 c8 r0 r1 r2 r3 r4 r5 r6 r7 r8 : R,
  (cb4_1 c0 c1 c2 c3 c4 c5 c6 c7 c8 r0 r1 r2 r3 r4 r5 r6 r7 r8) = flat_A 1 (rot4 (full_r 1 [r0; r1; r2; r3; r4; r5; r6; r7; r8]) (full_A 1 [c0; c1; c2; c3; c4; c5; c6; c7; c8])).

Definition app_1_meaning_ok : Prop :=
  forall c0 c1 c2 c3 c4 c5 c6 c7 c8 s0 s1 s2 : R,
  (app_1 c0 c1 c2 c3 c4 c5 c6 c7 c8 s0 s1 s2) = flat_s 1 (mul42 (full_A 1 [c0; c1; c2; c3; c4; c5; c6; c7; c8]) (full_s 1 [s0; s1; s2])).

Definition fromrot_2_index_ok : Prop :=
  forall r0 r1 r2 r3 r4 r5 r6 r7 r8 : R,
  fromrot_2 r0 r1 r2 r3 r4 r5 r6 r7 r8 = flat_A 2 (Rot4s (full_r 2 [r0; r1; r2; r3; r4; r5; r6; r7; r8])).

Definition fromrot_2_acts_ok : Prop :=
  forall r0 r1 r2 r3 r4 r5 r6 r7 r8 s0 s1 s2 s3 : R,
  let m := fromrot_2 r0 r1 r2 r3 r4 r5 r6 r7 r8 in
  (app_2 (nthR m 0) (nthR m 1) (nthR m 2) (nthR m 3) (nthR m 4) (nthR m 5) (nthR m 6) (nthR m 7) (nthR m 8) (nthR m 9) (nthR m 10) (nthR m 11) (nthR m 12) (nthR m 13) (nthR m 14) (nthR m 15) s0 s1 s2 s3) = flat_s 2 (rot2 (full_r 2 [r0; r1; r2; r3; r4; r5; r6; r7; r8]) (full_s 2 [s0; s1; s2; s3])).

Definition cb2_2_meaning_ok : Prop :=
  forall s0 s1 s2 s3 r0 r1 r2 r3 r4 r5 r6 r7 r8 : R,
  (cb2_2 s0 s1 s2 s3 r0 r1 r2 r3 r4 r5 r6 r7 r8) = flat_s 2 (rot2 (full_r 2 [r0; r1; r2; r3; r4; r5; r6; r7; r8]) (full_s 2 [s0; s1; s2; s3])).

Definition cb4_2_index_ok : Prop :=
  forall c0 c1 c2 c3 c4 c5 c6 c7 c8 c9 c10 c11 c12 c13 c14 c15 r0 r1 r2 r3 r4 r5 r6 r7 r8 : R,
  (cb4_2 c0 c1 c2 c3 c4 c5 c6 c7 c8 c9 c10 c11 c12 c13 c14 c15 r0 r1 r2 r3 r4 r5 r6 r7 r8) = flat_A 2 (rot4 (full_r 2 [r0; r1; r2; r3; r4; r5; r6; r7; r8]) (full_A 2 [c0; c1; c2; c3; c4; c5; c6; c7; c8; c9; c10; c11; c12; c13; c14; c15])).

Definition app_2_meaning_ok : Prop :=
  forall c0 c1 c2 c3 c4 c5 c6 c7 c8 c9 c10 c11 c12 c13 c14 c15 s0 s1 s2 s3 : R,
  (app_2 c0 c1 c2 c3 c4 c5 c6 c7 c8 c9 c10 c11 c12 c13 c14 c15 s0 s1 s2 s3) = flat_s 2 (mul42 (full_A 2 [c0; c1; c2; c3; c4; c5; c6; c7; c8; c9; c10; c11; c12; c13; c14; c15]) (full_s 2 [s0; s1; s2; s3])).

Definition fromrot_3_index_ok : Prop :=
  forall r0 r1 r2 r3 r4 r5 r6 r7 r8 : R,
  fromrot_3 r0 r1 r2 r3 r4 r5 r6 r7 r8 = flat_A 3 (Rot4s (full_r 3 [r0; r1; r2; r3; r4; r5; r6; r7; r8])).

Definition fromrot_3_acts_ok : Prop :=
  forall r0 r1 r2 r3 r4 r5 r6 r7 r8 s0 s1 s2 s3 s4 s5 : R,
  let m := fromrot_3 r0 r1 r2 r3 r4 r5 r6 r7 r8 in
  (app_3 (nthR m 0) (nthR m 1) (nthR m 2) (nthR m 3) (nthR m 4) (nthR m 5) (nthR m 6) (nthR m 7) (nthR m 8) (nthR m 9) (nthR m 10) (nthR m 11) (nthR m 12) (nthR m 13) (nthR m 14) (nthR m 15) (nthR m 16) (nthR m 17) (nthR m 18) (nthR m 19) (nthR m 20) (nthR m 21) (nthR m 22) (nthR m 23) (nthR m 24) (nthR m 25) (nthR m 26) (nthR m 27) (nthR m 28) (nthR m 29) (nthR m 30) (nthR m 31) (nthR m 32) (nthR m 33) (nthR m 34) (nthR m 35) s0 s1 s2 s3 s4 s5) = flat_s 3 (rot2 (full_r 3 [r0; r1; r2; r3; r4; r5; r6; r7; r8]) (full_s 3 [s0; s1; s2; s3; s4; s5])).

Definition cb2_3_meaning_ok : Prop :=
  forall s0 s1 s2 s3 s4 s5 r0 r1 r2 r3 r4 r5 r6 r7 r8 : R,
  (cb2_3 s0 s1 s2 s3 s4 s5 r0 r1 r2 r3 r4 r5 r6 r7 r8) = flat_s 3 (rot2 (full_r 3 [r0; r1; r2; r3; r4; r5; r6; r7; r8]) (full_s 3 [s0; s1; s2; s3; s4; s5])).

Definition cb4_3_index_ok : Prop :=
  forall c0 c1 c2 c3 c4 c5 c6 c7 c8 c9 c10 c11 c12 c13 c14 c15 c16 c17 c18 c19 c20 c21 c22 c23 c24 c25 c26 c27 c28 c29 c30 c31 c32 c33 c34 c35 r0 r1 r2 r3 r4 r5 r6 r7 r8 : R,
  (cb4_3 c0 c1 c2 c3 c4 c5 c6 c7 c8 c9 c10 c11 c12 c13 c14 c15 c16 c17 c18 c19 c20 c21 c22 c23 c24 c25 c26 c27 c28 c29 c30 c31 c32 c33 c34 c35 r0 r1 r2 r3 r4 r5 r6 r7 r8) = flat_A 3 (rot4 (full_r 3 [r0; r1; r2; r3; r4; r5; r6; r7; r8]) (full_A 3 [c0; c1; c2; c3; c4; c5; c6; c7; c8; c9; c10; c11; c12; c13; c14; c15; c16; c17; c18; c19; c20; c21; c22; c23; c24; c25; c26; c27; c28; c29; c30; c31; c32; c33; c34; c35])).

Definition app_3_meaning_ok : Prop :=
  forall c0 c1 c2 c3 c4 c5 c6 c7 c8 c9 c10 c11 c12 c13 c14 c15 c16 c17 c18 c19 c20 c21 c22 c23 c24 c25 c26 c27 c28 c29 c30 c31 c32 c33 c34 c35 s0 s1 s2 s3 s4 s5 : R,
  (app_3 c0 c1 c2 c3 c4 c5 c6 c7 c8 c9 c10 c11 c12 c13 c14 c15 c16 c17 c18 c19 c20 c21 c22 c23 c24 c25 c26 c27 c28 c29 c30 c31 c32 c33 c34 c35 s0 s1 s2 s3 s4 s5) = flat_s 3 (mul42 (full_A 3 [c0; c1; c2; c3; c4; c5; c6; c7; c8; c9; c10; c11; c12; c13; c14; c15; c16; c17; c18; c19; c20; c21; c22; c23; c24; c25; c26; c27; c28; c29; c30; c31; c32; c33; c34; c35]) (full_s 3 [s0; s1; s2; s3; s4; s5])).

Definition gen_rotg_tri_meaning_ok : Prop :=
  forall s0 s1 s2 s3 s4 s5 r0 r1 r2 r3 r4 r5 r6 r7 r8 : R,
  (gen_rotg_tri s0 s1 s2 s3 s4 s5 r0 r1 r2 r3 r4 r5 r6 r7 r8) = flat_s 3 (rot2 (full_r 3 [r0; r1; r2; r3; r4; r5; r6; r7; r8]) (full_s 3 [s0; s1; s2; s3; s4; s5])).

Definition gen_rotf_tri_meaning_ok : Prop :=
  forall s0 s1 s2 s3 s4 s5 r0 r1 r2 r3 r4 r5 r6 r7 r8 : R,
  (gen_rotf_tri s0 s1 s2 s3 s4 s5 r0 r1 r2 r3 r4 r5 r6 r7 r8) = flat_s 3 (rot2 (tr2 (full_r 3 [r0; r1; r2; r3; r4; r5; r6; r7; r8])) (full_s 3 [s0; s1; s2; s3; s4; s5])).

Definition gen_rotk_tri_is_change_basis_ok : Prop :=
  forall c0 c1 c2 c3 c4 c5 c6 c7 c8 c9 c10 c11 c12 c13 c14 c15 c16 c17 c18 c19 c20 c21 c22 c23 c24 c25 c26 c27 c28 c29 c30 c31 c32 c33 c34 c35 r0 r1 r2 r3 r4 r5 r6 r7 r8 : R,
  (gen_rotk_tri c0 c1 c2 c3 c4 c5 c6 c7 c8 c9 c10 c11 c12 c13 c14 c15 c16 c17 c18 c19 c20 c21 c22 c23 c24 c25 c26 c27 c28 c29 c30 c31 c32 c33 c34 c35 r0 r1 r2 r3 r4 r5 r6 r7 r8) = (cb4_3 c0 c1 c2 c3 c4 c5 c6 c7 c8 c9 c10 c11 c12 c13 c14 c15 c16 c17 c18 c19 c20 c21 c22 c23 c24 c25 c26 c27 c28 c29 c30 c31 c32 c33 c34 c35 r0 r3 r6 r1 r4 r7 r2 r5 r8).

Definition gen_rotk_tri_index_ok : Prop :=
  forall c0 c1 c2 c3 c4 c5 c6 c7 c8 c9 c10 c11 c12 c13 c14 c15 c16 c17 c18 c19 c20 c21 c22 c23 c24 c25 c26 c27 c28 c29 c30 c31 c32 c33 c34 c35 r0 r1 r2 r3 r4 r5 r6 r7 r8 : R,
  (gen_rotk_tri c0 c1 c2 c3 c4 c5 c6 c7 c8 c9 c10 c11 c12 c13 c14 c15 c16 c17 c18 c19 c20 c21 c22 c23 c24 c25 c26 c27 c28 c29 c30 c31 c32 c33 c34 c35 r0 r1 r2 r3 r4 r5 r6 r7 r8) = flat_A 3 (rot4 (tr2 (full_r 3 [r0; r1; r2; r3; r4; r5; r6; r7; r8])) (full_A 3 [c0; c1; c2; c3; c4; c5; c6; c7; c8; c9; c10; c11; c12; c13; c14; c15; c16; c17; c18; c19; c20; c21; c22; c23; c24; c25; c26; c27; c28; c29; c30; c31; c32; c33; c34; c35])).

Definition gen_rotg_pstrain_meaning_ok : Prop :=
  forall s0 s1 s2 s3 r0 r1 r2 r3 r4 r5 r6 r7 r8 : R,
  (gen_rotg_pstrain s0 s1 s2 s3 r0 r1 r2 r3 r4 r5 r6 r7 r8) = flat_s 2 (rot2 (full_r 2 [r0; r1; r2; r3; r4; r5; r6; r7; r8]) (full_s 2 [s0; s1; s2; s3])).

Definition gen_rotf_pstrain_meaning_ok : Prop :=
  forall s0 s1 s2 s3 r0 r1 r2 r3 r4 r5 r6 r7 r8 : R,
  (gen_rotf_pstrain s0 s1 s2 s3 r0 r1 r2 r3 r4 r5 r6 r7 r8) = flat_s 2 (rot2 (tr2 (full_r 2 [r0; r1; r2; r3; r4; r5; r6; r7; r8])) (full_s 2 [s0; s1; s2; s3])).

Definition gen_rotk_pstrain_index_ok : Prop :=
  forall c0 c1 c2 c3 c4 c5 c6 c7 c8 c9 c10 c11 c12 c13 c14 c15 r0 r1 r2 r3 r4 r5 r6 r7 r8 : R,
  (gen_rotk_pstrain c0 c1 c2 c3 c4 c5 c6 c7 c8 c9 c10 c11 c12 c13 c14 c15 r0 r1 r2 r3 r4 r5 r6 r7 r8) = flat_A 2 (rot4 (tr2 (full_r 2 [r0; r1; r2; r3; r4; r5; r6; r7; r8])) (full_A 2 [c0; c1; c2; c3; c4; c5; c6; c7; c8; c9; c10; c11; c12; c13; c14; c15])).

Definition gen_rotg_gps_meaning_ok : Prop :=
  forall s0 s1 s2 s3 r0 r1 r2 r3 r4 r5 r6 r7 r8 : R,
  (gen_rotg_gps s0 s1 s2 s3 r0 r1 r2 r3 r4 r5 r6 r7 r8) = flat_s 2 (rot2 (full_r 2 [r0; r1; r2; r3; r4; r5; r6; r7; r8]) (full_s 2 [s0; s1; s2; s3])).

Definition gen_rotf_gps_meaning_ok : Prop :=
  forall s0 s1 s2 s3 r0 r1 r2 r3 r4 r5 r6 r7 r8 : R,
  (gen_rotf_gps s0 s1 s2 s3 r0 r1 r2 r3 r4 r5 r6 r7 r8) = flat_s 2 (rot2 (tr2 (full_r 2 [r0; r1; r2; r3; r4; r5; r6; r7; r8])) (full_s 2 [s0; s1; s2; s3])).

Definition gen_rotk_gps_same_as_pstrain_ok : Prop :=
  forall c0 c1 c2 c3 c4 c5 c6 c7 c8 c9 c10 c11 c12 c13 c14 c15 r0 r1 r2 r3 r4 r5 r6 r7 r8 : R,
  (gen_rotk_gps c0 c1 c2 c3 c4 c5 c6 c7 c8 c9 c10 c11 c12 c13 c14 c15 r0 r1 r2 r3 r4 r5 r6 r7 r8) = (gen_rotk_pstrain c0 c1 c2 c3 c4 c5 c6 c7 c8 c9 c10 c11 c12 c13 c14 c15 r0 r1 r2 r3 r4 r5 r6 r7 r8).

Definition gen_rotg_axis_meaning_ok : Prop :=
  forall s0 s1 s2 s3 r0 r1 r2 r3 r4 r5 r6 r7 r8 : R,
  (gen_rotg_axis s0 s1 s2 s3 r0 r1 r2 r3 r4 r5 r6 r7 r8) = flat_s 2 (rot2 (full_r 2 [r0; r1; r2; r3; r4; r5; r6; r7; r8]) (full_s 2 [s0; s1; s2; s3])).

Definition gen_rotf_axis_meaning_ok : Prop :=
  forall s0 s1 s2 s3 r0 r1 r2 r3 r4 r5 r6 r7 r8 : R,
  (gen_rotf_axis s0 s1 s2 s3 r0 r1 r2 r3 r4 r5 r6 r7 r8) = flat_s 2 (rot2 (tr2 (full_r 2 [r0; r1; r2; r3; r4; r5; r6; r7; r8])) (full_s 2 [s0; s1; s2; s3])).

Definition gen_rotk_axis_same_as_pstrain_ok : Prop :=
  forall c0 c1 c2 c3 c4 c5 c6 c7 c8 c9 c10 c11 c12 c13 c14 c15 r0 r1 r2 r3 r4 r5 r6 r7 r8 : R,
  (gen_rotk_axis c0 c1 c2 c3 c4 c5 c6 c7 c8 c9 c10 c11 c12 c13 c14 c15 r0 r1 r2 r3 r4 r5 r6 r7 r8) = (gen_rotk_pstrain c0 c1 c2 c3 c4 c5 c6 c7 c8 c9 c10 c11 c12 c13 c14 c15 r0 r1 r2 r3 r4 r5 r6 r7 r8).

Definition gen_rotg_pstress_meaning_ok : Prop :=
  forall s0 s1 s2 s3 r0 r1 r2 r3 r4 r5 r6 r7 r8 : R,
  (gen_rotg_pstress s0 s1 s2 s3 r0 r1 r2 r3 r4 r5 r6 r7 r8) = flat_s 2 (rot2 (full_r 2 [r0; r1; r2; r3; r4; r5; r6; r7; r8]) (full_s 2 [s0; s1; s2; s3])).

Definition gen_rotf_pstress_meaning_ok : Prop :=
  forall s0 s1 s2 s3 r0 r1 r2 r3 r4 r5 r6 r7 r8 : R,
  (gen_rotf_pstress s0 s1 s2 s3 r0 r1 r2 r3 r4 r5 r6 r7 r8) = flat_s 2 (rot2 (tr2 (full_r 2 [r0; r1; r2; r3; r4; r5; r6; r7; r8])) (full_s 2 [s0; s1; s2; s3])).

Definition gen_rotk_pstress_same_as_pstrain_ok : Prop :=
  forall c0 c1 c2 c3 c4 c5 c6 c7 c8 c9 c10 c11 c12 c13 c14 c15 r0 r1 r2 r3 r4 r5 r6 r7 r8 : R,
  (gen_rotk_pstress c0 c1 c2 c3 c4 c5 c6 c7 c8 c9 c10 c11 c12 c13 c14 c15 r0 r1 r2 r3 r4 r5 r6 r7 r8) = (gen_rotk_pstrain c0 c1 c2 c3 c4 c5 c6 c7 c8 c9 c10 c11 c12 c13 c14 c15 r0 r1 r2 r3 r4 r5 r6 r7 r8).

Definition gen_rotg_agpstrain_meaning_ok : Prop :=
  forall s0 s1 s2 r0 r1 r2 r3 r4 r5 r6 r7 r8 : R,
  (gen_rotg_agpstrain s0 s1 s2 r0 r1 r2 r3 r4 r5 r6 r7 r8) = flat_s 1 (rot2 (full_r 1 [r0; r1; r2; r3; r4; r5; r6; r7; r8]) (full_s 1 [s0; s1; s2])).

Definition gen_rotf_agpstrain_meaning_ok : Prop :=
  forall s0 s1 s2 r0 r1 r2 r3 r4 r5 r6 r7 r8 : R,
  (gen_rotf_agpstrain s0 s1 s2 r0 r1 r2 r3 r4 r5 r6 r7 r8) = flat_s 1 (rot2 (tr2 (full_r 1 [r0; r1; r2; r3; r4; r5; r6; r7; r8])) (full_s 1 [s0; s1; s2])).

Definition gen_rotk_agpstrain_index_ok : Prop :=
  forall c0 c1 c2 c3 c4 c5 c6 c7 c8 r0 r1 r2 r3 r4 r5 r6 r7 r8 : R,
  (gen_rotk_agpstrain c0 c1 c2 c3 c4 c5 c6 c7 c8 r0 r1 r2 r3 r4 r5 r6 r7 r8) = flat_A 1 (rot4 (tr2 (full_r 1 [r0; r1; r2; r3; r4; r5; r6; r7; r8])) (full_A 1 [c0; c1; c2; c3; c4; c5; c6; c7; c8])).

Definition gen_pstrain_global_response_ok : Prop :=
  forall c0 c1 c2 c3 c4 c5 c6 c7 c8 c9 c10 c11 c12 c13 c14 c15 e0 e1 e2 e3 r0 r1 r2 r3 r4 r5 r6 r7 r8 : R,
  let em := (gen_rotg_pstrain e0 e1 e2 e3 r0 r1 r2 r3 r4 r5 r6 r7 r8) in
  let sm := (app_2 c0 c1 c2 c3 c4 c5 c6 c7 c8 c9 c10 c11 c12 c13 c14 c15 (nthR em 0) (nthR em 1) (nthR em 2) (nthR em 3)) in
  let cg := (gen_rotk_pstrain c0 c1 c2 c3 c4 c5 c6 c7 c8 c9 c10 c11 c12 c13 c14 c15 r0 r1 r2 r3 r4 r5 r6 r7 r8) in
  (gen_rotf_pstrain (nthR sm 0) (nthR sm 1) (nthR sm 2) (nthR sm 3) r0 r1 r2 r3 r4 r5 r6 r7 r8) = (app_2 (nthR cg 0) (nthR cg 1) (nthR cg 2) (nthR cg 3) (nthR cg 4) (nthR cg 5) (nthR cg 6) (nthR cg 7) (nthR cg 8) (nthR cg 9) (nthR cg 10) (nthR cg 11) (nthR cg 12) (nthR cg 13) (nthR cg 14) (nthR cg 15) e0 e1 e2 e3).

Definition gen_axis_global_response_ok : Prop :=
  forall c0 c1 c2 c3 c4 c5 c6 c7 c8 c9 c10 c11 c12 c13 c14 c15 e0 e1 e2 e3 r0 r1 r2 r3 r4 r5 r6 r7 r8 : R,
  let em := (gen_rotg_axis e0 e1 e2 e3 r0 r1 r2 r3 r4 r5 r6 r7 r8) in
  let sm := (app_2 c0 c1 c2 c3 c4 c5 c6 c7 c8 c9 c10 c11 c12 c13 c14 c15 (nthR em 0) (nthR em 1) (nthR em 2) (nthR em 3)) in
  let cg := (gen_rotk_axis c0 c1 c2 c3 c4 c5 c6 c7 c8 c9 c10 c11 c12 c13 c14 c15 r0 r1 r2 r3 r4 r5 r6 r7 r8) in
  (gen_rotf_axis (nthR sm 0) (nthR sm 1) (nthR sm 2) (nthR sm 3) r0 r1 r2 r3 r4 r5 r6 r7 r8) = (app_2 (nthR cg 0) (nthR cg 1) (nthR cg 2) (nthR cg 3) (nthR cg 4) (nthR cg 5) (nthR cg 6) (nthR cg 7) (nthR cg 8) (nthR cg 9) (nthR cg 10) (nthR cg 11) (nthR cg 12) (nthR cg 13) (nthR cg 14) (nthR cg 15) e0 e1 e2 e3).

Definition gen_agpstrain_global_response_ok : Prop :=
  forall c0 c1 c2 c3 c4 c5 c6 c7 c8 e0 e1 e2 r0 r1 r2 r3 r4 r5 r6 r7 r8 : R,
  let em := (gen_rotg_agpstrain e0 e1 e2 r0 r1 r2 r3 r4 r5 r6 r7 r8) in
  let sm := (app_1 c0 c1 c2 c3 c4 c5 c6 c7 c8 (nthR em 0) (nthR em 1) (nthR em 2)) in
  let cg := (gen_rotk_agpstrain c0 c1 c2 c3 c4 c5 c6 c7 c8 r0 r1 r2 r3 r4 r5 r6 r7 r8) in
  (gen_rotf_agpstrain (nthR sm 0) (nthR sm 1) (nthR sm 2) r0 r1 r2 r3 r4 r5 r6 r7 r8) = (app_1 (nthR cg 0) (nthR cg 1) (nthR cg 2) (nthR cg 3) (nthR cg 4) (nthR cg 5) (nthR cg 6) (nthR cg 7) (nthR cg 8) e0 e1 e2).

Definition gen_tri_round_trip_ok : Prop :=
  forall e0 e1 e2 e3 e4 e5 r0 r1 r2 r3 r4 r5 r6 r7 r8 : R,
  orth (full_r 3 [r0; r1; r2; r3; r4; r5; r6; r7; r8]) ->
  let em := (gen_rotg_tri e0 e1 e2 e3 e4 e5 r0 r1 r2 r3 r4 r5 r6 r7 r8) in
  (gen_rotf_tri (nthR em 0) (nthR em 1) (nthR em 2) (nthR em 3) (nthR em 4) (nthR em 5) r0 r1 r2 r3 r4 r5 r6 r7 r8) = [e0; e1; e2; e3; e4; e5].

Definition gen_pstrain_round_trip_ok : Prop :=
  forall e0 e1 e2 e3 r0 r1 r2 r3 r4 r5 r6 r7 r8 : R,
  orth (full_r 2 [r0; r1; r2; r3; r4; r5; r6; r7; r8]) ->
  let em := (gen_rotg_pstrain e0 e1 e2 e3 r0 r1 r2 r3 r4 r5 r6 r7 r8) in
  (gen_rotf_pstrain (nthR em 0) (nthR em 1) (nthR em 2) (nthR em 3) r0 r1 r2 r3 r4 r5 r6 r7 r8) = [e0; e1; e2; e3].

Definition gen_arrg_pstrain_meaning_ok : Prop :=
  forall s0 s1 s2 s3 s4 s5 s6 s7 r0 r1 r2 r3 r4 r5 r6 r7 r8 : R,
  (gen_arrg_pstrain s0 s1 s2 s3 s4 s5 s6 s7 r0 r1 r2 r3 r4 r5 r6 r7 r8) = concat (map (fun o => flat_s 2 (rot2 (full_r 2 [r0; r1; r2; r3; r4; r5; r6; r7; r8]) (full_s 2 (slice [s0; s1; s2; s3; s4; s5; s6; s7] o 4)))) [0%nat; 4%nat]).

Definition gen_arrf_pstrain_meaning_ok : Prop :=
  forall s0 s1 s2 s3 s4 s5 s6 s7 r0 r1 r2 r3 r4 r5 r6 r7 r8 : R,
  (gen_arrf_pstrain s0 s1 s2 s3 s4 s5 s6 s7 r0 r1 r2 r3 r4 r5 r6 r7 r8) = concat (map (fun o => flat_s 2 (rot2 (tr2 (full_r 2 [r0; r1; r2; r3; r4; r5; r6; r7; r8])) (full_s 2 (slice [s0; s1; s2; s3; s4; s5; s6; s7] o 4)))) [0%nat; 4%nat]).

Definition gen_arrk_pstrain_index_ok : Prop :=
  forall c0 c1 c2 c3 c4 c5 c6 c7 c8 c9 c10 c11 c12 c13 c14 c15 c16 c17 c18 c19 c20 c21 c22 c23 c24 c25 c26 c27 c28 c29 c30 c31 r0 r1 r2 r3 r4 r5 r6 r7 r8 : R,
  (gen_arrk_pstrain c0 c1 c2 c3 c4 c5 c6 c7 c8 c9 c10 c11 c12 c13 c14 c15 c16 c17 c18 c19 c20 c21 c22 c23 c24 c25 c26 c27 c28 c29 c30 c31 r0 r1 r2 r3 r4 r5 r6 r7 r8) = concat (map (fun o => flat_A 2 (rot4 (tr2 (full_r 2 [r0; r1; r2; r3; r4; r5; r6; r7; r8])) (full_A 2 (slice [c0; c1; c2; c3; c4; c5; c6; c7; c8; c9; c10; c11; c12; c13; c14; c15; c16; c17; c18; c19; c20; c21; c22; c23; c24; c25; c26; c27; c28; c29; c30; c31] o 16)))) [0%nat; 16%nat]).

Definition tg_rotg_pstrain_meaning_ok : Prop :=
  forall s0 s1 s2 s3 s4 s5 s6 s7 r0 r1 r2 r3 r4 r5 r6 r7 r8 : R,
  (tg_rotg_pstrain s0 s1 s2 s3 s4 s5 s6 s7 r0 r1 r2 r3 r4 r5 r6 r7 r8) = concat (map (fun o => flat_s 2 (rot2 (full_r 2 [r0; r1; r2; r3; r4; r5; r6; r7; r8]) (full_s 2 (slice [s0; s1; s2; s3; s4; s5; s6; s7] o 4)))) [0%nat; 4%nat]).

Definition tg_rotf_pstrain_meaning_ok : Prop :=
  forall s0 s1 s2 s3 s4 s5 s6 s7 r0 r1 r2 r3 r4 r5 r6 r7 r8 : R,
  (tg_rotf_pstrain s0 s1 s2 s3 s4 s5 s6 s7 r0 r1 r2 r3 r4 r5 r6 r7 r8) = concat (map (fun o => flat_s 2 (rot2 (tr2 (full_r 2 [r0; r1; r2; r3; r4; r5; r6; r7; r8])) (full_s 2 (slice [s0; s1; s2; s3; s4; s5; s6; s7] o 4)))) [0%nat; 4%nat]).

Definition tg_rotk_pstrain_index_ok : Prop :=
  forall c0 c1 c2 c3 c4 c5 c6 c7 c8 c9 c10 c11 c12 c13 c14 c15 c16 c17 c18 c19 c20 c21 c22 c23 c24 c25 c26 c27 c28 c29 c30 c31 r0 r1 r2 r3 r4 r5 r6 r7 r8 : R,
  (tg_rotk_pstrain c0 c1 c2 c3 c4 c5 c6 c7 c8 c9 c10 c11 c12 c13 c14 c15 c16 c17 c18 c19 c20 c21 c22 c23 c24 c25 c26 c27 c28 c29 c30 c31 r0 r1 r2 r3 r4 r5 r6 r7 r8) = concat (map (fun o => flat_A 2 (rot4 (tr2 (full_r 2 [r0; r1; r2; r3; r4; r5; r6; r7; r8])) (full_A 2 (slice [c0; c1; c2; c3; c4; c5; c6; c7; c8; c9; c10; c11; c12; c13; c14; c15; c16; c17; c18; c19; c20; c21; c22; c23; c24; c25; c26; c27; c28; c29; c30; c31] o 16)))) [0%nat; 16%nat]).

Definition tg_arrg_pstrain_meaning_ok : Prop :=
  forall s0 s1 s2 s3 s4 s5 s6 s7 s8 s9 s10 s11 s12 s13 s14 s15 r0 r1 r2 r3 r4 r5 r6 r7 r8 : R,
  (tg_arrg_pstrain s0 s1 s2 s3 s4 s5 s6 s7 s8 s9 s10 s11 s12 s13 s14 s15 r0 r1 r2 r3 r4 r5 r6 r7 r8) = concat (map (fun o => flat_s 2 (rot2 (full_r 2 [r0; r1; r2; r3; r4; r5; r6; r7; r8]) (full_s 2 (slice [s0; s1; s2; s3; s4; s5; s6; s7; s8; s9; s10; s11; s12; s13; s14; s15] o 4)))) [0%nat; 4%nat; 8%nat; 12%nat]).

Definition tg_arrf_pstrain_meaning_ok : Prop :=
  forall s0 s1 s2 s3 s4 s5 s6 s7 s8 s9 s10 s11 s12 s13 s14 s15 r0 r1 r2 r3 r4 r5 r6 r7 r8 : R,
  (tg_arrf_pstrain s0 s1 s2 s3 s4 s5 s6 s7 s8 s9 s10 s11 s12 s13 s14 s15 r0 r1 r2 r3 r4 r5 r6 r7 r8) = concat (map (fun o => flat_s 2 (rot2 (tr2 (full_r 2 [r0; r1; r2; r3; r4; r5; r6; r7; r8])) (full_s 2 (slice [s0; s1; s2; s3; s4; s5; s6; s7; s8; s9; s10; s11; s12; s13; s14; s15] o 4)))) [0%nat; 4%nat; 8%nat; 12%nat]).

Definition tg_arrk_pstrain_index_ok : Prop :=
  forall c0 c1 c2 c3 c4 c5 c6 c7 c8 c9 c10 c11 c12 c13 c14 c15 c16 c17 c18 c19 c20 c21 c22 c23 c24 c25 c26 c27 c28 c29 c30 c31 c32 c33 c34 c35 c36 c37 c38 c39 c40 c41 c42 c43 c44 c45 c46 c47 c48 c49 c50 c51 c52 c53 c54 c55 c56 c57 c58 c59 c60 c61 c62 c63 r0 r1 r2 r3 r4 r5 r6 r7 r8 : R,
  (tg_arrk_pstrain c0 c1 c2 c3 c4 c5 c6 c7 c8 c9 c10 c11 c12 c13 c14 c15 c16 c17 c18 c19 c20 c21 c22 c23 c24 c25 c26 c27 c28 c29 c30 c31 c32 c33 c34 c35 c36 c37 c38 c39 c40 c41 c42 c43 c44 c45 c46 c47 c48 c49 c50 c51 c52 c53 c54 c55 c56 c57 c58 c59 c60 c61 c62 c63 r0 r1 r2 r3 r4 r5 r6 r7 r8) = concat (map (fun o => flat_A 2 (rot4 (tr2 (full_r 2 [r0; r1; r2; r3; r4; r5; r6; r7; r8])) (full_A 2 (slice [c0; c1; c2; c3; c4; c5; c6; c7; c8; c9; c10; c11; c12; c13; c14; c15; c16; c17; c18; c19; c20; c21; c22; c23; c24; c25; c26; c27; c28; c29; c30; c31; c32; c33; c34; c35; c36; c37; c38; c39; c40; c41; c42; c43; c44; c45; c46; c47; c48; c49; c50; c51; c52; c53; c54; c55; c56; c57; c58; c59; c60; c61; c62; c63] o 16)))) [0%nat; 16%nat; 32%nat; 48%nat]).

Definition isoD_tri_meaning_ok : Prop :=
  forall young nu : R,
  1 + nu <> 0 -> 1 - 2 * nu <> 0 ->
  isoD_tri young nu = flat_A 3 (hooke4 (lame_lambda young nu) (lame_mu young nu)).

Definition isosig_tri_meaning_ok : Prop :=
  forall young nu e0 e1 e2 e3 e4 e5 : R,
  1 + nu <> 0 -> 1 - 2 * nu <> 0 ->
  (isosig_tri young nu e0 e1 e2 e3 e4 e5) = flat_s 3 (hooke (lame_lambda young nu) (lame_mu young nu) (full_s 3 [e0; e1; e2; e3; e4; e5])).

Definition isosig_pstrain_is_3D_restricted_ok : Prop :=
  forall young nu e0 e1 e2 e3 : R,
  1 + nu <> 0 -> 1 - 2 * nu <> 0 ->
  (isosig_tri young nu e0 e1 e2 e3 0 0) = (isosig_pstrain young nu e0 e1 e2 e3) ++ [0; 0].

Definition isosig_gps_is_3D_restricted_ok : Prop :=
  forall young nu e0 e1 e2 e3 : R,
  1 + nu <> 0 -> 1 - 2 * nu <> 0 ->
  (isosig_tri young nu e0 e1 e2 e3 0 0) = (isosig_gps young nu e0 e1 e2 e3) ++ [0; 0].

Definition isosig_axis_is_3D_restricted_ok : Prop :=
  forall young nu e0 e1 e2 e3 : R,
  1 + nu <> 0 -> 1 - 2 * nu <> 0 ->
  (isosig_tri young nu e0 e1 e2 e3 0 0) = (isosig_axis young nu e0 e1 e2 e3) ++ [0; 0].

Definition isosig_pstress_is_3D_restricted_ok : Prop :=
  forall young nu e0 e1 e2 e3 : R,
  1 + nu <> 0 -> 1 - 2 * nu <> 0 ->
  (isosig_tri young nu e0 e1 e2 e3 0 0) = (isosig_pstress young nu e0 e1 e2 e3) ++ [0; 0].

Definition isosig_agpstrain_is_3D_restricted_ok : Prop :=
  forall young nu e0 e1 e2 : R,
  1 + nu <> 0 -> 1 - 2 * nu <> 0 ->
  (isosig_tri young nu e0 e1 e2 0 0 0) = (isosig_agpstrain young nu e0 e1 e2) ++ [0; 0; 0].

Definition isosig_pstress_alt_szz_ok : Prop :=
  forall young nu e0 e1 e2 e3 : R,
  nthR (isosig_pstress_alt young nu e0 e1 e2 e3) 2 = 0.

Definition isosig_pstress_alt_is_3D_condensed_ok : Prop :=
  forall young nu e0 e1 e2 e3 : R,
  1 + nu <> 0 -> 1 - 2 * nu <> 0 ->
  1 - nu <> 0 ->
  let sg := (isosig_pstress_alt young nu e0 e1 e2 e3) in
  let ezz := - nu / (1 - nu) * (e0 + e1) in
  (isosig_tri young nu e0 e1 ezz e3 0 0) = [nthR sg 0; nthR sg 1; 0; nthR sg 3; 0; 0].

Definition hooke_tri_isotropic_ok : Prop :=
  forall young nu e0 e1 e2 e3 e4 e5 r0 r1 r2 r3 r4 r5 r6 r7 r8 : R,
  1 + nu <> 0 -> 1 - 2 * nu <> 0 ->
  orth (full_r 3 [r0; r1; r2; r3; r4; r5; r6; r7; r8]) ->
  let sg := (isosig_tri young nu e0 e1 e2 e3 e4 e5) in
  let er := (cb2_3 e0 e1 e2 e3 e4 e5 r0 r1 r2 r3 r4 r5 r6 r7 r8) in
  (cb2_3 (nthR sg 0) (nthR sg 1) (nthR sg 2) (nthR sg 3) (nthR sg 4) (nthR sg 5) r0 r1 r2 r3 r4 r5 r6 r7 r8) = (isosig_tri young nu (nthR er 0) (nthR er 1) (nthR er 2) (nthR er 3) (nthR er 4) (nthR er 5)).

Definition hooke_pstrain_isotropic_in_plane_ok : Prop :=
  forall young nu e0 e1 e2 e3 r0 r1 r2 r3 r4 r5 r6 r7 r8 : R,
  1 + nu <> 0 -> 1 - 2 * nu <> 0 ->
  orth (full_r 2 [r0; r1; r2; r3; r4; r5; r6; r7; r8]) ->
  let sg := (isosig_pstrain young nu e0 e1 e2 e3) in
  let er := (cb2_2 e0 e1 e2 e3 r0 r1 r2 r3 r4 r5 r6 r7 r8) in
  (cb2_2 (nthR sg 0) (nthR sg 1) (nthR sg 2) (nthR sg 3) r0 r1 r2 r3 r4 r5 r6 r7 r8) = (isosig_pstrain young nu (nthR er 0) (nthR er 1) (nthR er 2) (nthR er 3)).

Definition ortsig_pstrain_is_3D_restricted_ok : Prop :=
  forall E0 E1 E2 n0 n1 n2 G0 G1 G2 e0 e1 e2 e3 : R,
  (ortsig_tri E0 E1 E2 n0 n1 n2 G0 G1 G2 e0 e1 e2 e3 0 0) = (ortsig_pstrain E0 E1 E2 n0 n1 n2 G0 G1 G2 e0 e1 e2 e3) ++ [0; 0].

Definition ortsig_gps_is_3D_restricted_ok : Prop :=
  forall E0 E1 E2 n0 n1 n2 G0 G1 G2 e0 e1 e2 e3 : R,
  (ortsig_tri E0 E1 E2 n0 n1 n2 G0 G1 G2 e0 e1 e2 e3 0 0) = (ortsig_gps E0 E1 E2 n0 n1 n2 G0 G1 G2 e0 e1 e2 e3) ++ [0; 0].

Definition ortsig_axis_is_3D_restricted_ok : Prop :=
  forall E0 E1 E2 n0 n1 n2 G0 G1 G2 e0 e1 e2 e3 : R,
  (ortsig_tri E0 E1 E2 n0 n1 n2 G0 G1 G2 e0 e1 e2 e3 0 0) = (ortsig_axis E0 E1 E2 n0 n1 n2 G0 G1 G2 e0 e1 e2 e3) ++ [0; 0].

Definition ortsig_agpstrain_is_3D_restricted_ok : Prop :=
  forall E0 E1 E2 n0 n1 n2 G0 G1 G2 e0 e1 e2 : R,
  (ortsig_tri E0 E1 E2 n0 n1 n2 G0 G1 G2 e0 e1 e2 0 0 0) = (ortsig_agpstrain E0 E1 E2 n0 n1 n2 G0 G1 G2 e0 e1 e2) ++ [0; 0; 0].

Definition ortsig_pstress_alt_szz_ok : Prop :=
  forall E0 E1 E2 n0 n1 n2 G0 G1 G2 e0 e1 e2 e3 : R,
  nthR (ortsig_pstress_alt E0 E1 E2 n0 n1 n2 G0 G1 G2 e0 e1 e2 e3) 2 = 0.

Definition ortsig_pstress_alt_pipe_szz_ok : Prop :=
  forall E0 E1 E2 n0 n1 n2 G0 G1 G2 e0 e1 e2 e3 : R,
  nthR (ortsig_pstress_alt_pipe E0 E1 E2 n0 n1 n2 G0 G1 G2 e0 e1 e2 e3) 2 = 0.


(* C44: property statements -- only `exact` of proved lemmas and Print Assumptions *)
From Coq Require Import Reals List.
From VLib Require Import RealExtra.
From C44 Require Import C44Spec C44_gen C44Statements C44ProofsRot C44ProofsGen C44ProofsOrth C44ProofsHooke.

Theorem C44_fromrot_1_index : fromrot_1_index_ok.
Proof. exact fromrot_1_index_proof. Qed.
Print Assumptions C44_fromrot_1_index.

Theorem C44_fromrot_1_acts : fromrot_1_acts_ok.
Proof. exact fromrot_1_acts_proof. Qed.
Print Assumptions C44_fromrot_1_acts.

Theorem C44_cb2_1_meaning : cb2_1_meaning_ok.
Proof. exact cb2_1_meaning_proof. Qed.
Print Assumptions C44_cb2_1_meaning.

Theorem C44_cb4_1_index : cb4_1_index_ok.
Proof. exact cb4_1_index_proof. Qed.
Print Assumptions C44_cb4_1_index.

Theorem C44_app_1_meaning : app_1_meaning_ok.
Proof. exact app_1_meaning_proof. Qed.
Print Assumptions C44_app_1_meaning.

Theorem C44_fromrot_2_index : fromrot_2_index_ok.
Proof. exact fromrot_2_index_proof. Qed.
Print Assumptions C44_fromrot_2_index.

Theorem C44_fromrot_2_acts : fromrot_2_acts_ok.
Proof. exact fromrot_2_acts_proof. Qed.
Print Assumptions C44_fromrot_2_acts.

Theorem C44_cb2_2_meaning : cb2_2_meaning_ok.
Proof. exact cb2_2_meaning_proof. Qed.
Print Assumptions C44_cb2_2_meaning.

Theorem C44_cb4_2_index : cb4_2_index_ok.
Proof. exact cb4_2_index_proof. Qed.
Print Assumptions C44_cb4_2_index.

Theorem C44_app_2_meaning : app_2_meaning_ok.
Proof. exact app_2_meaning_proof. Qed.
Print Assumptions C44_app_2_meaning.

Theorem C44_fromrot_3_index : fromrot_3_index_ok.
Proof. exact fromrot_3_index_proof. Qed.
Print Assumptions C44_fromrot_3_index.

Theorem C44_fromrot_3_acts : fromrot_3_acts_ok.
Proof. exact fromrot_3_acts_proof. Qed.
Print Assumptions C44_fromrot_3_acts.

Theorem C44_cb2_3_meaning : cb2_3_meaning_ok.
Proof. exact cb2_3_meaning_proof. Qed.
Print Assumptions C44_cb2_3_meaning.

Theorem C44_app_3_meaning : app_3_meaning_ok.
Proof. exact app_3_meaning_proof. Qed.
Print Assumptions C44_app_3_meaning.

Theorem C44_gen_rotg_tri_meaning : gen_rotg_tri_meaning_ok.
Proof. exact gen_rotg_tri_meaning_proof. Qed.
Print Assumptions C44_gen_rotg_tri_meaning.

Theorem C44_gen_rotf_tri_meaning : gen_rotf_tri_meaning_ok.
Proof. exact gen_rotf_tri_meaning_proof. Qed.
Print Assumptions C44_gen_rotf_tri_meaning.

Theorem C44_gen_rotk_tri_is_change_basis : gen_rotk_tri_is_change_basis_ok.
Proof. exact gen_rotk_tri_is_change_basis_proof. Qed.
Print Assumptions C44_gen_rotk_tri_is_change_basis.

Theorem C44_gen_rotg_pstrain_meaning : gen_rotg_pstrain_meaning_ok.
Proof. exact gen_rotg_pstrain_meaning_proof. Qed.
Print Assumptions C44_gen_rotg_pstrain_meaning.

Theorem C44_gen_rotf_pstrain_meaning : gen_rotf_pstrain_meaning_ok.
Proof. exact gen_rotf_pstrain_meaning_proof. Qed.
Print Assumptions C44_gen_rotf_pstrain_meaning.

Theorem C44_gen_rotk_pstrain_index : gen_rotk_pstrain_index_ok.
Proof. exact gen_rotk_pstrain_index_proof. Qed.
Print Assumptions C44_gen_rotk_pstrain_index.

Theorem C44_gen_rotg_gps_meaning : gen_rotg_gps_meaning_ok.
Proof. exact gen_rotg_gps_meaning_proof. Qed.
Print Assumptions C44_gen_rotg_gps_meaning.

Theorem C44_gen_rotf_gps_meaning : gen_rotf_gps_meaning_ok.
Proof. exact gen_rotf_gps_meaning_proof. Qed.
Print Assumptions C44_gen_rotf_gps_meaning.

Theorem C44_gen_rotk_gps_index : gen_rotk_gps_index_ok.
Proof. exact gen_rotk_gps_index_proof. Qed.
Print Assumptions C44_gen_rotk_gps_index.

Theorem C44_gen_rotg_axis_meaning : gen_rotg_axis_meaning_ok.
Proof. exact gen_rotg_axis_meaning_proof. Qed.
Print Assumptions C44_gen_rotg_axis_meaning.

Theorem C44_gen_rotf_axis_meaning : gen_rotf_axis_meaning_ok.
Proof. exact gen_rotf_axis_meaning_proof. Qed.
Print Assumptions C44_gen_rotf_axis_meaning.

Theorem C44_gen_rotk_axis_index : gen_rotk_axis_index_ok.
Proof. exact gen_rotk_axis_index_proof. Qed.
Print Assumptions C44_gen_rotk_axis_index.

Theorem C44_gen_rotg_pstress_meaning : gen_rotg_pstress_meaning_ok.
Proof. exact gen_rotg_pstress_meaning_proof. Qed.
Print Assumptions C44_gen_rotg_pstress_meaning.

Theorem C44_gen_rotf_pstress_meaning : gen_rotf_pstress_meaning_ok.
Proof. exact gen_rotf_pstress_meaning_proof. Qed.
Print Assumptions C44_gen_rotf_pstress_meaning.

Theorem C44_gen_rotk_pstress_index : gen_rotk_pstress_index_ok.
Proof. exact gen_rotk_pstress_index_proof. Qed.
Print Assumptions C44_gen_rotk_pstress_index.

Theorem C44_gen_rotg_agpstrain_meaning : gen_rotg_agpstrain_meaning_ok.
Proof. exact gen_rotg_agpstrain_meaning_proof. Qed.
Print Assumptions C44_gen_rotg_agpstrain_meaning.

Theorem C44_gen_rotf_agpstrain_meaning : gen_rotf_agpstrain_meaning_ok.
Proof. exact gen_rotf_agpstrain_meaning_proof. Qed.
Print Assumptions C44_gen_rotf_agpstrain_meaning.

Theorem C44_gen_rotk_agpstrain_index : gen_rotk_agpstrain_index_ok.
Proof. exact gen_rotk_agpstrain_index_proof. Qed.
Print Assumptions C44_gen_rotk_agpstrain_index.

Theorem C44_gen_pstrain_global_response : gen_pstrain_global_response_ok.
Proof. exact gen_pstrain_global_response_proof. Qed.
Print Assumptions C44_gen_pstrain_global_response.

Theorem C44_gen_axis_global_response : gen_axis_global_response_ok.
Proof. exact gen_axis_global_response_proof. Qed.
Print Assumptions C44_gen_axis_global_response.

Theorem C44_gen_agpstrain_global_response : gen_agpstrain_global_response_ok.
Proof. exact gen_agpstrain_global_response_proof. Qed.
Print Assumptions C44_gen_agpstrain_global_response.

Theorem C44_gen_arrg_pstrain_meaning : gen_arrg_pstrain_meaning_ok.
Proof. exact gen_arrg_pstrain_meaning_proof. Qed.
Print Assumptions C44_gen_arrg_pstrain_meaning.

Theorem C44_gen_arrf_pstrain_meaning : gen_arrf_pstrain_meaning_ok.
Proof. exact gen_arrf_pstrain_meaning_proof. Qed.
Print Assumptions C44_gen_arrf_pstrain_meaning.

Theorem C44_gen_arrk_pstrain_index : gen_arrk_pstrain_index_ok.
Proof. exact gen_arrk_pstrain_index_proof. Qed.
Print Assumptions C44_gen_arrk_pstrain_index.

Theorem C44_tg_rotg_pstrain_meaning : tg_rotg_pstrain_meaning_ok.
Proof. exact tg_rotg_pstrain_meaning_proof. Qed.
Print Assumptions C44_tg_rotg_pstrain_meaning.

Theorem C44_tg_rotf_pstrain_meaning : tg_rotf_pstrain_meaning_ok.
Proof. exact tg_rotf_pstrain_meaning_proof. Qed.
Print Assumptions C44_tg_rotf_pstrain_meaning.

Theorem C44_tg_rotk_pstrain_index : tg_rotk_pstrain_index_ok.
Proof. exact tg_rotk_pstrain_index_proof. Qed.
Print Assumptions C44_tg_rotk_pstrain_index.

Theorem C44_gen_tri_round_trip : gen_tri_round_trip_ok.
Proof. exact gen_tri_round_trip_proof. Qed.
Print Assumptions C44_gen_tri_round_trip.

Theorem C44_gen_pstrain_round_trip : gen_pstrain_round_trip_ok.
Proof. exact gen_pstrain_round_trip_proof. Qed.
Print Assumptions C44_gen_pstrain_round_trip.

Theorem C44_hooke_tri_isotropic : hooke_tri_isotropic_ok.
Proof. exact hooke_tri_isotropic_proof. Qed.
Print Assumptions C44_hooke_tri_isotropic.

Theorem C44_hooke_pstrain_isotropic_in_plane : hooke_pstrain_isotropic_in_plane_ok.
Proof. exact hooke_pstrain_isotropic_in_plane_proof. Qed.
Print Assumptions C44_hooke_pstrain_isotropic_in_plane.

Theorem C44_hooke_pstress_alt_isotropic_in_plane : hooke_pstress_alt_isotropic_in_plane_ok.
Proof. exact hooke_pstress_alt_isotropic_in_plane_proof. Qed.
Print Assumptions C44_hooke_pstress_alt_isotropic_in_plane.

Theorem C44_isoD_tri_meaning : isoD_tri_meaning_ok.
Proof. exact isoD_tri_meaning_proof. Qed.
Print Assumptions C44_isoD_tri_meaning.

Theorem C44_isosig_tri_meaning : isosig_tri_meaning_ok.
Proof. exact isosig_tri_meaning_proof. Qed.
Print Assumptions C44_isosig_tri_meaning.

Theorem C44_isosig_pstrain_is_3D_restricted : isosig_pstrain_is_3D_restricted_ok.
Proof. exact isosig_pstrain_is_3D_restricted_proof. Qed.
Print Assumptions C44_isosig_pstrain_is_3D_restricted.

Theorem C44_isosig_gps_is_3D_restricted : isosig_gps_is_3D_restricted_ok.
Proof. exact isosig_gps_is_3D_restricted_proof. Qed.
Print Assumptions C44_isosig_gps_is_3D_restricted.

Theorem C44_isosig_axis_is_3D_restricted : isosig_axis_is_3D_restricted_ok.
Proof. exact isosig_axis_is_3D_restricted_proof. Qed.
Print Assumptions C44_isosig_axis_is_3D_restricted.

Theorem C44_isosig_pstress_is_3D_restricted : isosig_pstress_is_3D_restricted_ok.
Proof. exact isosig_pstress_is_3D_restricted_proof. Qed.
Print Assumptions C44_isosig_pstress_is_3D_restricted.

Theorem C44_isosig_agpstrain_is_3D_restricted : isosig_agpstrain_is_3D_restricted_ok.
Proof. exact isosig_agpstrain_is_3D_restricted_proof. Qed.
Print Assumptions C44_isosig_agpstrain_is_3D_restricted.

Theorem C44_isosig_pstress_alt_szz : isosig_pstress_alt_szz_ok.
Proof. exact isosig_pstress_alt_szz_proof. Qed.
Print Assumptions C44_isosig_pstress_alt_szz.

Theorem C44_isosig_pstress_alt_is_3D_condensed : isosig_pstress_alt_is_3D_condensed_ok.
Proof. exact isosig_pstress_alt_is_3D_condensed_proof. Qed.
Print Assumptions C44_isosig_pstress_alt_is_3D_condensed.

Theorem C44_ortsig_pstrain_is_3D_restricted : ortsig_pstrain_is_3D_restricted_ok.
Proof. exact ortsig_pstrain_is_3D_restricted_proof. Qed.
Print Assumptions C44_ortsig_pstrain_is_3D_restricted.

Theorem C44_ortsig_gps_is_3D_restricted : ortsig_gps_is_3D_restricted_ok.
Proof. exact ortsig_gps_is_3D_restricted_proof. Qed.
Print Assumptions C44_ortsig_gps_is_3D_restricted.

Theorem C44_ortsig_axis_is_3D_restricted : ortsig_axis_is_3D_restricted_ok.
Proof. exact ortsig_axis_is_3D_restricted_proof. Qed.
Print Assumptions C44_ortsig_axis_is_3D_restricted.

Theorem C44_ortsig_agpstrain_is_3D_restricted : ortsig_agpstrain_is_3D_restricted_ok.
Proof. exact ortsig_agpstrain_is_3D_restricted_proof. Qed.
Print Assumptions C44_ortsig_agpstrain_is_3D_restricted.

Theorem C44_ortsig_pstress_alt_szz : ortsig_pstress_alt_szz_ok.
Proof. exact ortsig_pstress_alt_szz_proof. Qed.
Print Assumptions C44_ortsig_pstress_alt_szz.

Theorem C44_ortsig_pstress_alt_pipe_szz : ortsig_pstress_alt_pipe_szz_ok.
Proof. exact ortsig_pstress_alt_pipe_szz_proof. Qed.
Print Assumptions C44_ortsig_pstress_alt_pipe_szz.


(* C44: property statements -- conjunctions of the obligations of C44Statements.v, `exact` of proved lemmas,
   Print Assumptions *)
From Coq Require Import Reals List.
From VLib Require Import RealExtra.
From C44 Require Import C44Spec C44_gen C44Statements C44ProofsA C44ProofsB C44ProofsOrth.

Theorem C44_fromRotationMatrix_is_the_rotation_operator :
  fromrot_1_index_ok /\
  fromrot_1_acts_ok /\
  fromrot_2_index_ok /\
  fromrot_2_acts_ok /\
  fromrot_3_index_ok /\
  fromrot_3_acts_ok.
Proof.
  exact (conj fromrot_1_index_proof (conj fromrot_1_acts_proof (conj fromrot_2_index_proof (conj fromrot_2_acts_proof (conj fromrot_3_index_proof fromrot_3_acts_proof))))).
Qed.
Print Assumptions C44_fromRotationMatrix_is_the_rotation_operator.

Theorem C44_change_basis_stensor_is_QtSQ :
  cb2_1_meaning_ok /\
  app_1_meaning_ok /\
  cb2_2_meaning_ok /\
  app_2_meaning_ok /\
  cb2_3_meaning_ok /\
  app_3_meaning_ok.
Proof.
  exact (conj cb2_1_meaning_proof (conj app_1_meaning_proof (conj cb2_2_meaning_proof (conj app_2_meaning_proof (conj cb2_3_meaning_proof app_3_meaning_proof))))).
Qed.
Print Assumptions C44_change_basis_stensor_is_QtSQ.

Theorem C44_change_basis_st2tost2_index_notation :
  cb4_1_index_ok /\
  cb4_2_index_ok.
Proof.
  exact (conj cb4_1_index_proof cb4_2_index_proof).
Qed.
Print Assumptions C44_change_basis_st2tost2_index_notation.

Theorem C44_emitted_rotateGradients_is_QtEQ :
  gen_rotg_tri_meaning_ok /\
  gen_rotg_pstrain_meaning_ok /\
  gen_rotg_gps_meaning_ok /\
  gen_rotg_axis_meaning_ok /\
  gen_rotg_pstress_meaning_ok /\
  gen_rotg_agpstrain_meaning_ok.
Proof.
  exact (conj gen_rotg_tri_meaning_proof (conj gen_rotg_pstrain_meaning_proof (conj gen_rotg_gps_meaning_proof (conj gen_rotg_axis_meaning_proof (conj gen_rotg_pstress_meaning_proof gen_rotg_agpstrain_meaning_proof))))).
Qed.
Print Assumptions C44_emitted_rotateGradients_is_QtEQ.

Theorem C44_emitted_rotateThermodynamicForces_is_QSQt :
  gen_rotf_tri_meaning_ok /\
  gen_rotf_pstrain_meaning_ok /\
  gen_rotf_gps_meaning_ok /\
  gen_rotf_axis_meaning_ok /\
  gen_rotf_pstress_meaning_ok /\
  gen_rotf_agpstrain_meaning_ok.
Proof.
  exact (conj gen_rotf_tri_meaning_proof (conj gen_rotf_pstrain_meaning_proof (conj gen_rotf_gps_meaning_proof (conj gen_rotf_axis_meaning_proof (conj gen_rotf_pstress_meaning_proof gen_rotf_agpstrain_meaning_proof))))).
Qed.
Print Assumptions C44_emitted_rotateThermodynamicForces_is_QSQt.

Theorem C44_emitted_rotateTangentOperatorBlocks_index_notation :
  gen_rotk_tri_is_change_basis_ok /\
  gen_rotk_pstrain_index_ok /\
  gen_rotk_gps_same_as_pstrain_ok /\
  gen_rotk_axis_same_as_pstrain_ok /\
  gen_rotk_pstress_same_as_pstrain_ok /\
  gen_rotk_agpstrain_index_ok.
Proof.
  exact (conj gen_rotk_tri_is_change_basis_proof (conj gen_rotk_pstrain_index_proof (conj gen_rotk_gps_same_as_pstrain_proof (conj gen_rotk_axis_same_as_pstrain_proof (conj gen_rotk_pstress_same_as_pstrain_proof gen_rotk_agpstrain_index_proof))))).
Qed.
Print Assumptions C44_emitted_rotateTangentOperatorBlocks_index_notation.

Theorem C44_emitted_rotations_give_the_global_response :
  gen_pstrain_global_response_ok /\
  gen_axis_global_response_ok /\
  gen_agpstrain_global_response_ok.
Proof.
  exact (conj gen_pstrain_global_response_proof (conj gen_axis_global_response_proof gen_agpstrain_global_response_proof)).
Qed.
Print Assumptions C44_emitted_rotations_give_the_global_response.

Theorem C44_emitted_rotations_round_trip :
  gen_pstrain_round_trip_ok.
Proof.
  exact gen_pstrain_round_trip_proof.
Qed.
Print Assumptions C44_emitted_rotations_round_trip.

Theorem C44_emitted_rotations_offsets_single_gradient_arrays :
  gen_arrg_pstrain_meaning_ok /\
  gen_arrf_pstrain_meaning_ok /\
  gen_arrk_pstrain_index_ok /\
  tg_rotg_pstrain_meaning_ok /\
  tg_rotf_pstrain_meaning_ok.
Proof.
  exact (conj gen_arrg_pstrain_meaning_proof (conj gen_arrf_pstrain_meaning_proof (conj gen_arrk_pstrain_index_proof (conj tg_rotg_pstrain_meaning_proof tg_rotf_pstrain_meaning_proof)))).
Qed.
Print Assumptions C44_emitted_rotations_offsets_single_gradient_arrays.

Theorem C44_isotropic_stiffness_is_hooke :
  isoD_tri_meaning_ok /\
  isosig_tri_meaning_ok.
Proof.
  exact (conj isoD_tri_meaning_proof isosig_tri_meaning_proof).
Qed.
Print Assumptions C44_isotropic_stiffness_is_hooke.

Theorem C44_hooke_hypothesis_consistency :
  isosig_pstrain_is_3D_restricted_ok /\
  isosig_gps_is_3D_restricted_ok /\
  isosig_axis_is_3D_restricted_ok /\
  isosig_pstress_is_3D_restricted_ok /\
  isosig_agpstrain_is_3D_restricted_ok /\
  ortsig_pstrain_is_3D_restricted_ok /\
  ortsig_gps_is_3D_restricted_ok /\
  ortsig_axis_is_3D_restricted_ok /\
  ortsig_agpstrain_is_3D_restricted_ok.
Proof.
  exact (conj isosig_pstrain_is_3D_restricted_proof (conj isosig_gps_is_3D_restricted_proof (conj isosig_axis_is_3D_restricted_proof (conj isosig_pstress_is_3D_restricted_proof (conj isosig_agpstrain_is_3D_restricted_proof (conj ortsig_pstrain_is_3D_restricted_proof (conj ortsig_gps_is_3D_restricted_proof (conj ortsig_axis_is_3D_restricted_proof ortsig_agpstrain_is_3D_restricted_proof)))))))).
Qed.
Print Assumptions C44_hooke_hypothesis_consistency.

Theorem C44_plane_stress_szz_zero_and_condensation :
  isosig_pstress_alt_szz_ok /\
  isosig_pstress_alt_is_3D_condensed_ok /\
  ortsig_pstress_alt_szz_ok /\
  ortsig_pstress_alt_pipe_szz_ok.
Proof.
  exact (conj isosig_pstress_alt_szz_proof (conj isosig_pstress_alt_is_3D_condensed_proof (conj ortsig_pstress_alt_szz_proof ortsig_pstress_alt_pipe_szz_proof))).
Qed.
Print Assumptions C44_plane_stress_szz_zero_and_condensation.

Theorem C44_hooke_response_commutes_with_rotations :
  hooke_tri_isotropic_ok /\
  hooke_pstrain_isotropic_in_plane_ok.
Proof.
  exact (conj hooke_tri_isotropic_proof hooke_pstrain_isotropic_in_plane_proof).
Qed.
Print Assumptions C44_hooke_response_commutes_with_rotations.


(* C44: obligations that hold for ORTHOGONAL rotation matrices only (round trip global -> material -> global,
   isotropy of the Hooke response).  Method (independent of the shape of the traced terms): each side is first shown,
   by a pure ring/field identity without hypotheses, to equal its index-notation form written with the Gram matrices
   gram r = r^T r and gram (tr2 r) = r r^T kept folded; the hypotheses gram = delta are then rewritten. *)
From Coq Require Import Reals List Lra Lia.
From VLib Require Import RealExtra.
From C44 Require Import C44Spec C44_gen C44Statements C44Tactics.
Import ListNotations.
Local Open Scope R_scope.

Ltac grams H :=
  cbv [flat_s map firstn ssize pairs6 fst snd sum3 trace2];
  repeat match goal with
         | |- context [gram ?r ?i ?j] => rewrite (proj1 (H i j ltac:(lia) ltac:(lia)))
         | |- context [gram (tr2 ?r) ?i ?j] => rewrite (proj2 (H i j ltac:(lia) ltac:(lia)))
         end.
Ltac nz3 :=
  try match goal with
  | H1 : ?a <> 0, H2 : ?b <> 0 |- _ =>
      assert (a * b <> 0) by (apply Rmult_integral_contrapositive_currified; assumption)
  end.

(* r (r^T e r) r^T = (r r^T) e (r r^T) *)
Definition round_trip_form (N : nat) (r e : M2) : list R :=
  flat_s N (fun i j => sum3 (fun p => sum3 (fun q => gram (tr2 r) i p * gram (tr2 r) j q * e p q))).

Lemma gen_pstrain_round_trip_proof : gen_pstrain_round_trip_ok.
Proof.
  unfold gen_pstrain_round_trip_ok. intros e0 e1 e2 e3 r0 r1 r2 r3 r4 r5 r6 r7 r8 H. cbv zeta.
  transitivity (round_trip_form 2 (full_r 2 [r0; r1; r2; r3; r4; r5; r6; r7; r8]) (full_s 2 [e0; e1; e2; e3])).
  - unfold gen_rotg_pstrain, gen_rotf_pstrain, round_trip_form. spec_red. list_eq.
  - unfold round_trip_form. grams H. spec_red. list_eq.
Qed.

(* r^T (la tr(e) I + 2 mu e) r = la tr(e) (r^T r) + 2 mu r^T e r  and
   la tr(r^T e r) I + 2 mu r^T e r = la (r r^T : e) I + 2 mu r^T e r *)
Definition iso_lhs_form (N : nat) (la mu : R) (r e : M2) : list R :=
  flat_s N (fun i j => la * trace2 e * gram r i j + 2 * mu * rot2 r e i j).
Definition iso_rhs_form (N : nat) (la mu : R) (r e : M2) : list R :=
  flat_s N (fun i j => la * sum3 (fun m => sum3 (fun n => gram (tr2 r) m n * e m n)) * delta i j + 2 * mu * rot2 r e i j).

Lemma hooke_tri_isotropic_proof : hooke_tri_isotropic_ok.
Proof.
  unfold hooke_tri_isotropic_ok. intros young nu e0 e1 e2 e3 e4 e5 r0 r1 r2 r3 r4 r5 r6 r7 r8 Hn1 Hn2 H. cbv zeta. nz3.
  transitivity (iso_lhs_form 3 (lame_lambda young nu) (lame_mu young nu)
                  (full_r 3 [r0; r1; r2; r3; r4; r5; r6; r7; r8]) (full_s 3 [e0; e1; e2; e3; e4; e5])).
  - unfold isosig_tri, cb2_3, iso_lhs_form. spec_red. list_eq.
  - transitivity (iso_rhs_form 3 (lame_lambda young nu) (lame_mu young nu)
                    (full_r 3 [r0; r1; r2; r3; r4; r5; r6; r7; r8]) (full_s 3 [e0; e1; e2; e3; e4; e5])).
    + unfold iso_lhs_form, iso_rhs_form. grams H. spec_red. list_eq.
    + unfold isosig_tri, cb2_3, iso_rhs_form. spec_red. list_eq.
Qed.

Lemma hooke_pstrain_isotropic_in_plane_proof : hooke_pstrain_isotropic_in_plane_ok.
Proof.
  unfold hooke_pstrain_isotropic_in_plane_ok. intros young nu e0 e1 e2 e3 r0 r1 r2 r3 r4 r5 r6 r7 r8 Hn1 Hn2 H. cbv zeta. nz3.
  transitivity (iso_lhs_form 2 (lame_lambda young nu) (lame_mu young nu)
                  (full_r 2 [r0; r1; r2; r3; r4; r5; r6; r7; r8]) (full_s 2 [e0; e1; e2; e3])).
  - unfold isosig_pstrain, cb2_2, iso_lhs_form. spec_red. list_eq.
  - transitivity (iso_rhs_form 2 (lame_lambda young nu) (lame_mu young nu)
                    (full_r 2 [r0; r1; r2; r3; r4; r5; r6; r7; r8]) (full_s 2 [e0; e1; e2; e3])).
    + unfold iso_lhs_form, iso_rhs_form. grams H. spec_red. list_eq.
    + unfold isosig_pstrain, cb2_2, iso_rhs_form. spec_red. list_eq.
Qed.

(* C44: proofs (skeleton written by mkcoq.py; shape-independent tactics of C44Tactics.v) *)
From Coq Require Import Reals List Lra.
From VLib Require Import RealExtra.
From C44 Require Import C44Spec C44_gen C44Statements C44Tactics.
Import ListNotations.
Local Open Scope R_scope.

Lemma gen_tri_round_trip_proof : gen_tri_round_trip_ok.
Proof. unfold gen_tri_round_trip_ok. intros until 0; intro H; orth_hyps H; unfold gen_rotg_tri, gen_rotf_tri; spec_red; list_eq_orth. Qed.

Lemma gen_pstrain_round_trip_proof : gen_pstrain_round_trip_ok.
Proof. unfold gen_pstrain_round_trip_ok. intros until 0; intro H; orth_hyps H; unfold gen_rotg_pstrain, gen_rotf_pstrain; spec_red; list_eq_orth. Qed.

Lemma hooke_tri_isotropic_proof : hooke_tri_isotropic_ok.
Proof. unfold hooke_tri_isotropic_ok. intros until 0; intro H; orth_hyps H; unfold isosig_tri, cb2_3; spec_red; list_eq_orth. Qed.

Lemma hooke_pstrain_isotropic_in_plane_proof : hooke_pstrain_isotropic_in_plane_ok.
Proof. unfold hooke_pstrain_isotropic_in_plane_ok. intros until 0; intro H; orth_hyps H; unfold isosig_pstrain, cb2_2; spec_red; list_eq_orth. Qed.

Lemma hooke_pstress_alt_isotropic_in_plane_proof : hooke_pstress_alt_isotropic_in_plane_ok.
Proof. unfold hooke_pstress_alt_isotropic_in_plane_ok. intros until 0; intro H; orth_hyps H; unfold isosig_pstress_alt, cb2_2; spec_red; list_eq_orth. Qed.


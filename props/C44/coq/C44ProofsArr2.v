(* C44: proofs (skeleton written by mkcoq.py; shape-independent tactics of C44Tactics.v) *)
From Coq Require Import Reals List Lra.
From VLib Require Import RealExtra.
From C44 Require Import C44Spec C44_gen C44Statements C44Tactics.
Import ListNotations.
Local Open Scope R_scope.

Lemma tg_arrg_pstrain_meaning_proof : tg_arrg_pstrain_meaning_ok.
Proof. unfold tg_arrg_pstrain_meaning_ok. prove tg_arrg_pstrain. Qed.

Lemma tg_arrf_pstrain_meaning_proof : tg_arrf_pstrain_meaning_ok.
Proof. unfold tg_arrf_pstrain_meaning_ok. prove tg_arrf_pstrain. Qed.


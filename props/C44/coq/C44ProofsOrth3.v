(* C44: obligations that hold for ORTHOGONAL rotation matrices only (round trip global -> material -> global,
   isotropy of the Hooke response).  Method (independent of the shape of the traced terms): each side is first shown,
   by a pure ring/field identity without hypotheses, to equal its index-notation form written with the Gram matrices
   gram r = r^T r and gram (tr2 r) = r r^T kept folded; the hypotheses gram = delta are then rewritten. *)
From Coq Require Import Reals List Lra Lia.
From VLib Require Import RealExtra.
From C44 Require Import C44Spec C44_gen C44Statements C44Tactics C44ProofsOrth.
Import ListNotations.
Local Open Scope R_scope.

Lemma gen_tri_round_trip_proof : gen_tri_round_trip_ok.
Proof.
  unfold gen_tri_round_trip_ok. intros e0 e1 e2 e3 e4 e5 r0 r1 r2 r3 r4 r5 r6 r7 r8 H. cbv zeta.
  transitivity (round_trip_form 3 (full_r 3 [r0; r1; r2; r3; r4; r5; r6; r7; r8]) (full_s 3 [e0; e1; e2; e3; e4; e5])).
  - unfold gen_rotg_tri, gen_rotf_tri, round_trip_form. spec_red. list_eq.
  - unfold round_trip_form. grams H. spec_red. list_eq.
Qed.


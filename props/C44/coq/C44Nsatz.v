(* nsatz behind a plain tactic name: importing Nsatz rebinds notations, which must not leak into files stating things over R *)
From Coq Require Import Reals Nsatz.
Ltac nsatz_tac := nsatz.

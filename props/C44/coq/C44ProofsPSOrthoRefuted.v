(* C44 (c): refutation, by a witness, of "the jacobian of the orthotropic plane-stress class is the derivative of its residual"
   (defect F-C44b of the pinned tree: dfetozz_ddeel is filled with D(1,0)/D(1,1), D(2,0)/D(1,1) instead of D(2,0)/D(2,2), D(2,1)/D(2,2)).
   Selected by check.py while the execution stage observes the defect (key exec:pstress-tangent:ortho). *)
From Coq Require Import Reals List Lra Lia.
Import ListNotations.
From C44 Require Import C44PS_gen C44PSStatements C44ProofsPS.
Local Open Scope R_scope.

(* witness: D = [[1 0 0] [0 1 0] [1 0 2]], D33 = 1, h = (1, 0, 0, 0, 0): d fetozz / d deel_xx = D20/D22 = 1/2, the code says D10/D11 = 0 *)
Lemma ops_jac_is_derivative_refuted_proof : ~ ops_jac_is_derivative_ok.
Proof.
  intro H.
  assert (K := H 0 0 0 0 0 0 0 0 0  1 0 0 0 1 0 1 0 2 1  0 0 0 0 0  1 0 0 0 0
                 ltac:(lra) ltac:(lra) 4%nat ltac:(lia)).
  red_lists_in K. lra.
Qed.

(* C44: property statements -- only `exact` of proved lemmas and Print Assumptions *)
From Coq Require Import Reals List.
From VLib Require Import RealExtra.
From C44 Require Import C44Spec C44_gen C44Statements C44ProofsRot4.

Theorem C44_cb4_3_index : cb4_3_index_ok.
Proof. exact cb4_3_index_proof. Qed.
Print Assumptions C44_cb4_3_index.

Theorem C44_gen_rotk_tri_index : gen_rotk_tri_index_ok.
Proof. exact gen_rotk_tri_index_proof. Qed.
Print Assumptions C44_gen_rotk_tri_index.


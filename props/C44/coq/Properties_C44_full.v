(* C44: property statements -- conjunctions of the obligations of C44Statements.v, `exact` of proved lemmas,
   Print Assumptions *)
From Coq Require Import Reals List.
From VLib Require Import RealExtra.
From C44 Require Import C44Spec C44_gen C44Statements C44ProofsOrth3 C44ProofsRot4.

Theorem C44_fourth_order_rotation_3D_and_block_offsets :
  cb4_3_index_ok /\
  gen_rotk_tri_index_ok /\
  tg_rotk_pstrain_index_ok /\
  tg_arrk_pstrain_index_ok.
Proof.
  exact (conj cb4_3_index_proof (conj gen_rotk_tri_index_proof (conj tg_rotk_pstrain_index_proof tg_arrk_pstrain_index_proof))).
Qed.
Print Assumptions C44_fourth_order_rotation_3D_and_block_offsets.

Theorem C44_emitted_rotations_round_trip :
  gen_tri_round_trip_ok.
Proof.
  exact gen_tri_round_trip_proof.
Qed.
Print Assumptions C44_emitted_rotations_round_trip.


(* C44: the emitted <f>_rotateArrayOfGradients / <f>_rotateArrayOfThermodynamicForces of a behaviour with TWO tensorial
   gradients (fluxes) do NOT rotate the array point by point: the second variable of every integration point is written to
   the slot of point 0 (dest + 4 instead of dest + idx*8 + 4 in plane strain), see known_findings.json.  This file is
   selected by the check while that defect is observed on the emitted code; Properties_C44_arrays.v otherwise. *)
From Coq Require Import Reals List Lra.
From VLib Require Import RealExtra.
From C44 Require Import C44Spec C44_gen C44Statements C44Tactics.
Import ListNotations.
Local Open Scope R_scope.

Theorem C44_tg_arrg_pstrain_meaning_refuted : ~ tg_arrg_pstrain_meaning_ok.
Proof.
  unfold tg_arrg_pstrain_meaning_ok. intro H.
  specialize (H 1 2 3 4 5 6 7 8 9 10 11 12 13 14 15 16 1 0 0 0 1 0 0 0 1).
  apply (f_equal (fun l => nthR l 12)) in H. unfold tg_arrg_pstrain in H. spec_red_in H. lra.
Qed.
Print Assumptions C44_tg_arrg_pstrain_meaning_refuted.

Theorem C44_tg_arrf_pstrain_meaning_refuted : ~ tg_arrf_pstrain_meaning_ok.
Proof.
  unfold tg_arrf_pstrain_meaning_ok. intro H.
  specialize (H 1 2 3 4 5 6 7 8 9 10 11 12 13 14 15 16 1 0 0 0 1 0 0 0 1).
  apply (f_equal (fun l => nthR l 12)) in H. unfold tg_arrf_pstrain in H. spec_red_in H. lra.
Qed.
Print Assumptions C44_tg_arrf_pstrain_meaning_refuted.

(* C44 -- specification, written from the mathematical meaning and not from the code.

   Second-order tensors of R^3 are functions i j |-> t_ij (i, j in {0,1,2}), fourth-order tensors functions
   i j k l |-> c_ijkl.  TFEL stores a symmetric tensor of space dimension N as the "Mandel" vector
       (s00 s11 s22 | V2 s01 | V2 s02  V2 s12)          3 / 4 / 6 values in 1D / 2D / 3D      (V2 = sqrt 2)
   and a fourth-order tensor mapping symmetric tensors to symmetric tensors (st2tost2<N>) as the matrix C(I,J) on that
   storage, row-major.  `full_*` is the meaning of a storage vector (components outside the 1D/2D pattern are 0),
   `flat_*` stores a full object.  A rotation matrix is stored row-major (9 values): r_ij = rv[3i+j]; in 2D only its
   in-plane block acts, in 1D nothing does (the material frame of a 1D hypothesis is the global frame). *)
From Coq Require Import Reals List Bool Arith Lra.
From VLib Require Import RealExtra.
Import ListNotations.
Local Open Scope R_scope.

Definition M2 := nat -> nat -> R.
Definition M4 := nat -> nat -> nat -> nat -> R.

Definition sum3 (f : nat -> R) : R := f 0%nat + f 1%nat + f 2%nat.
Definition delta (i j : nat) : R := if Nat.eqb i j then 1 else 0.
Definition ssize (N : nat) : nat := match N with 1 => 3 | 2 => 4 | _ => 6 end%nat.
(* position of component (i,j) in the Mandel storage *)
Definition idx6 (i j : nat) : nat :=
  match i, j with
  | 0, 0 => 0 | 1, 1 => 1 | 2, 2 => 2
  | 0, 1 | 1, 0 => 3 | 0, 2 | 2, 0 => 4 | 1, 2 | 2, 1 => 5
  | _, _ => 99
  end%nat.
Definition w (i j : nat) : R := if Nat.eqb i j then 1 else sqrt 2.
Definition iw (i j : nat) : R := if Nat.eqb i j then 1 else sqrt 2 / 2.
Definition pairs6 : list (nat * nat) := [(0,0); (1,1); (2,2); (0,1); (0,2); (1,2)]%nat.

Definition full_s (N : nat) (v : list R) : M2 :=
  fun i j => if Nat.ltb (idx6 i j) (ssize N) then nthR v (idx6 i j) * iw i j else 0.
Definition flat_s (N : nat) (m : M2) : list R :=
  map (fun p => m (fst p) (snd p) * w (fst p) (snd p)) (firstn (ssize N) pairs6).
Definition full_r (N : nat) (v : list R) : M2 :=
  match N with
  | 1%nat => delta
  | 2%nat => fun i j => if Nat.ltb i 2 && Nat.ltb j 2 then nthR v (3 * i + j)%nat else delta i j
  | _ => fun i j => nthR v (3 * i + j)%nat
  end.
Definition full_A (N : nat) (v : list R) : M4 :=
  fun i j k l => if Nat.ltb (idx6 i j) (ssize N) && Nat.ltb (idx6 k l) (ssize N)
                 then nthR v (idx6 i j * ssize N + idx6 k l)%nat * (iw i j * iw k l) else 0.
Definition flat_A (N : nat) (c : M4) : list R :=
  flat_map (fun p => map (fun q => c (fst p) (snd p) (fst q) (snd q) * (w (fst p) (snd p) * w (fst q) (snd q)))
                         (firstn (ssize N) pairs6)) (firstn (ssize N) pairs6).

Definition tr2 (a : M2) : M2 := fun i j => a j i.
Definition trace2 (a : M2) : R := sum3 (fun i => a i i).
(* r^T a r : components of a in the basis whose vectors are the columns of r *)
Definition rot2 (r a : M2) : M2 := fun i j => sum3 (fun m => sum3 (fun n => r m i * r n j * a m n)).
(* c'_ijkl = r_mi r_nj r_pk r_ql c_mnpq *)
Definition rot4 (r : M2) (c : M4) : M4 :=
  fun i j k l => sum3 (fun m => sum3 (fun n => sum3 (fun p => sum3 (fun q =>
    r m i * r n j * r p k * r q l * c m n p q)))).
(* the linear map x |-> r^T x r on symmetric x, as a fourth-order tensor with both minor symmetries *)
Definition Rot4s (r : M2) : M4 := fun i j k l => (r k i * r l j + r l i * r k j) / 2.
Definition mul42 (c : M4) (e : M2) : M2 := fun i j => sum3 (fun k => sum3 (fun l => c i j k l * e k l)).

(* isotropic linear elasticity *)
Definition hooke (la mu : R) (e : M2) : M2 := fun i j => la * trace2 e * delta i j + 2 * mu * e i j.
Definition lame_lambda (E nu : R) : R := nu * E / ((1 + nu) * (1 - 2 * nu)).
Definition lame_mu (E nu : R) : R := E / (2 * (1 + nu)).
Definition hooke4 (la mu : R) : M4 :=
  fun i j k l => la * delta i j * delta k l + mu * (delta i k * delta j l + delta i l * delta j k).

(* orthogonal matrices: r^T r = I and r r^T = I (each implies the other; both are stated) *)
Definition gram (r : M2) : M2 := fun i j => sum3 (fun k => r k i * r k j).   (* r^T r *)
Definition orth (r : M2) : Prop :=
  forall i j, (i < 3)%nat -> (j < 3)%nat -> gram r i j = delta i j /\ gram (tr2 r) i j = delta i j.

(* orthotropic compliance in the material frame (E1 E2 E3, nu12 nu23 nu13, G12 G23 G13), axes (1,2,3) = storage (0,1,2):
   strain = S : stress *)
Definition ortho_compliance_apply (E1 E2 E3 n12 n23 n13 G12 G23 G13 : R) (s : M2) : M2 :=
  let s00 := s 0%nat 0%nat in let s11 := s 1%nat 1%nat in let s22 := s 2%nat 2%nat in
  let s01 := s 0%nat 1%nat in let s02 := s 0%nat 2%nat in let s12 := s 1%nat 2%nat in
  fun i j => match idx6 i j with
  | 0%nat => s00 / E1 - n12 / E1 * s11 - n13 / E1 * s22
  | 1%nat => - n12 / E1 * s00 + s11 / E2 - n23 / E2 * s22
  | 2%nat => - n13 / E1 * s00 - n23 / E2 * s11 + s22 / E3
  | 3%nat => s01 / (2 * G12)
  | 4%nat => s02 / (2 * G13)
  | 5%nat => s12 / (2 * G23)
  | _ => 0
  end.

(* slices of arrays of integration-point data *)
Definition slice (l : list R) (o n : nat) : list R := firstn n (skipn o l).

(* C44 (c): the jacobian of the orthotropic plane-stress class is the derivative of its residual (true once F-C44b is fixed) *)
From Coq Require Import Reals List Lra Lia.
Import ListNotations.
From C44 Require Import C44PS_gen C44PSStatements C44ProofsPS.
Local Open Scope R_scope.

Lemma ops_jac_is_derivative_proof : ops_jac_is_derivative_ok.
Proof.
  intros eel0 eel1 eel2 eel3 deto0 deto1 deto2 deto3 etozz D00 D01 D02 D10 D11 D12 D20 D21 D22 D33 z0 z1 z2 z3 z4 h0 h1 h2 h3 h4 H1 H2 i Hi.
  do 5 (destruct i as [| i]; [red_lists; timeout 300 (field; repeat split; assumption) |]). lia.
Qed.

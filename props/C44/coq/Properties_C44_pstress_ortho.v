(* C44 (c): orthotropic plane-stress class, positive statement (used when defect F-C44b is not observed) *)
From Coq Require Import Reals List.
From C44 Require Import C44PS_gen C44PSStatements C44ProofsPS C44ProofsPSOrtho.

Theorem C44_generated_orthotropic_plane_stress_jacobian_is_the_derivative_of_the_residual : ops_jac_is_derivative_ok.
Proof. exact ops_jac_is_derivative_proof. Qed.
Print Assumptions C44_generated_orthotropic_plane_stress_jacobian_is_the_derivative_of_the_residual.

(* C44: proofs (skeleton written by mkcoq.py; shape-independent tactics of C44Tactics.v) *)
From Coq Require Import Reals List Lra.
From VLib Require Import RealExtra.
From C44 Require Import C44Spec C44_gen C44Statements C44Tactics.
Import ListNotations.
Local Open Scope R_scope.

Lemma fromrot_1_index_proof : fromrot_1_index_ok.
Proof. unfold fromrot_1_index_ok. prove fromrot_1. Qed.

Lemma fromrot_1_acts_proof : fromrot_1_acts_ok.
Proof. unfold fromrot_1_acts_ok. intros; unfold app_1, fromrot_1; spec_red; list_eq. Qed.

Lemma cb2_1_meaning_proof : cb2_1_meaning_ok.
Proof. unfold cb2_1_meaning_ok. prove cb2_1. Qed.

Lemma cb4_1_index_proof : cb4_1_index_ok.
Proof. unfold cb4_1_index_ok. prove cb4_1. Qed.

Lemma app_1_meaning_proof : app_1_meaning_ok.
Proof. unfold app_1_meaning_ok. prove app_1. Qed.

Lemma fromrot_2_index_proof : fromrot_2_index_ok.
Proof. unfold fromrot_2_index_ok. prove fromrot_2. Qed.

Lemma fromrot_2_acts_proof : fromrot_2_acts_ok.
Proof. unfold fromrot_2_acts_ok. intros; unfold app_2, fromrot_2; spec_red; list_eq. Qed.

Lemma cb2_2_meaning_proof : cb2_2_meaning_ok.
Proof. unfold cb2_2_meaning_ok. prove cb2_2. Qed.

Lemma cb4_2_index_proof : cb4_2_index_ok.
Proof. unfold cb4_2_index_ok. prove cb4_2. Qed.

Lemma app_2_meaning_proof : app_2_meaning_ok.
Proof. unfold app_2_meaning_ok. prove app_2. Qed.

Lemma fromrot_3_index_proof : fromrot_3_index_ok.
Proof. unfold fromrot_3_index_ok. prove fromrot_3. Qed.

Lemma fromrot_3_acts_proof : fromrot_3_acts_ok.
Proof. unfold fromrot_3_acts_ok. intros; unfold app_3, fromrot_3; spec_red; list_eq. Qed.

Lemma cb2_3_meaning_proof : cb2_3_meaning_ok.
Proof. unfold cb2_3_meaning_ok. prove cb2_3. Qed.

Lemma app_3_meaning_proof : app_3_meaning_ok.
Proof. unfold app_3_meaning_ok. prove app_3. Qed.


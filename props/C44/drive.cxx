// C44, EXECUTION stage (not a proof): driver calling the extern "C" entry points <Name>_<Hypothesis>(mfront_gb_BehaviourData*)
// that /repo's mfront generates (generic interface) for the four reference programs props/C44/mfront/C44{IsoElastic,Norton,
// Plastic,OrthoElastic}.mfront, and the generated <Name>_<Hypothesis>_rotate{Gradients,ThermodynamicForces,TangentOperatorBlocks}
// of the orthotropic one.  No judgement here: every output is judged by props/C44/exec.py (independent Python statements).
// stdin, one command per line:
//   P <beh> <hyp> <K0> <nsteps> <dt> e_1[S] .. e_n[S]     strain path from the virgin state; per step prints
//        R <rc> sig[S] | isv[nisv] | K[S*S]               (state carried from step to step by the driver, as a solver does)
//   O <hyp> <K0> e_glob[S] rv[9]                           orthotropic behaviour, one step from the virgin state:
//        e_mat = rotateGradients(e_glob, rv); integrate in the material frame; rotateThermodynamicForces, rotateTangentOperatorBlocks
//        prints  O <rc> e_mat[S] | sig_mat[S] | K_mat[S*S] | sig_glob[S] | K_glob[S*S] | isv[nisv]
// hyp: tri pstrain gps axis pstress.  beh: iso norton plastic ortho.
#include <cmath>
#include <cstdio>
#include <cstring>
#include <iostream>
#include <map>
#include <sstream>
#include <string>
#include <vector>
#include "MFront/GenericBehaviour/BehaviourData.h"
#include "MFront/GenericBehaviour/C44IsoElastic-generic.hxx"
#include "MFront/GenericBehaviour/C44Norton-generic.hxx"
#include "MFront/GenericBehaviour/C44Plastic-generic.hxx"
#include "MFront/GenericBehaviour/C44OrthoElastic-generic.hxx"

using Fn = int (*)(mfront_gb_BehaviourData*);
using Rot = void (*)(double*, const double*, const double*);

extern "C" {
#define DECL(B)                                                  \
  extern unsigned short B##_nInternalStateVariables;             \
  extern unsigned short B##_PlaneStress_nInternalStateVariables; \
  extern unsigned short B##_nMaterialProperties;                 \
  extern unsigned short B##_nExternalStateVariables;
DECL(C44IsoElastic)
DECL(C44Norton)
DECL(C44Plastic)
DECL(C44OrthoElastic)
}

struct Entry {
  Fn f = nullptr;
  int S = 0, nisv = 0;
  Rot rg = nullptr, rf = nullptr, rk = nullptr;
};

static std::map<std::string, Entry> table;

// nt: number of symmetric tensors among the internal state variables, ns: number of scalars (without AxialStrain)
#define REG(tag, B, nt, ns)                                                               \
  table[tag ":tri"] = Entry{B##_Tridimensional, 6, 6 * nt + ns};                          \
  table[tag ":pstrain"] = Entry{B##_PlaneStrain, 4, 4 * nt + ns};                         \
  table[tag ":gps"] = Entry{B##_GeneralisedPlaneStrain, 4, 4 * nt + ns};                  \
  table[tag ":axis"] = Entry{B##_Axisymmetrical, 4, 4 * nt + ns};                         \
  table[tag ":pstress"] = Entry{B##_PlaneStress, 4, 4 * nt + ns + 1};                     \
  if (B##_nInternalStateVariables != nt + ns || B##_PlaneStress_nInternalStateVariables != nt + ns + 1 || \
      B##_nMaterialProperties != 0 || B##_nExternalStateVariables != 0) {                 \
    std::fprintf(stderr, "unexpected layout of " #B "\n");                                \
    return 4;                                                                             \
  }
#define ROTS(tag, B, H)                                          \
  table[tag].rg = B##_##H##_rotateGradients;                     \
  table[tag].rf = B##_##H##_rotateThermodynamicForces;           \
  table[tag].rk = B##_##H##_rotateTangentOperatorBlocks;

struct Point {
  const Entry& e;
  std::vector<double> e0, sig0, isv0, e1, sig1, isv1, K;
  double rho = 1., rdt = 1., sos = 0., se0 = 0, se1 = 0, de0 = 0, de1 = 0, dummy[2] = {0, 0};
  char err[512];
  explicit Point(const Entry& en)
      : e(en), e0(en.S, 0.), sig0(en.S, 0.), isv0(en.nisv, 0.), e1(en.S, 0.), sig1(en.S, 0.), isv1(en.nisv, 0.), K(en.S * en.S + 8, 0.) {}
  int step(const std::vector<double>& enew, const double dt, const double K0) {
    e1 = enew;
    sig1 = sig0;
    isv1 = isv0;
    for (auto& k : K) k = std::nan("");
    K[0] = K0;
    K[1] = 0;
    K[2] = 0;
    err[0] = 0;
    mfront_gb_BehaviourData d;
    std::memset(&d, 0, sizeof d);
    d.error_message = err;
    d.dt = dt;
    d.K = K.data();
    rdt = 1.;
    d.rdt = &rdt;
    d.speed_of_sound = &sos;
    d.s0.gradients = e0.data();
    d.s1.gradients = e1.data();
    d.s0.thermodynamic_forces = sig0.data();
    d.s1.thermodynamic_forces = sig1.data();
    d.s0.mass_density = d.s1.mass_density = &rho;
    d.s0.material_properties = d.s1.material_properties = dummy;
    d.s0.internal_state_variables = isv0.data();
    d.s1.internal_state_variables = isv1.data();
    d.s0.stored_energy = &se0;
    d.s1.stored_energy = &se1;
    d.s0.dissipated_energy = &de0;
    d.s1.dissipated_energy = &de1;
    d.s0.external_state_variables = d.s1.external_state_variables = dummy;
    int rc = -2;
    try {
      rc = e.f(&d);
    } catch (std::exception& ex) {
      std::snprintf(err, sizeof err, "exception: %s", ex.what());
      rc = -3;
    }
    return rc;
  }
  void accept() {
    e0 = e1;
    sig0 = sig1;
    isv0 = isv1;
  }
};

static void pr(const double* v, const int n) {
  for (int i = 0; i != n; ++i) std::printf(" %.17g", v[i]);
}

int main() {
  REG("iso", C44IsoElastic, 1, 0)
  REG("norton", C44Norton, 1, 1)
  REG("plastic", C44Plastic, 1, 1)
  REG("ortho", C44OrthoElastic, 1, 0)
  ROTS("ortho:tri", C44OrthoElastic, Tridimensional)
  ROTS("ortho:pstrain", C44OrthoElastic, PlaneStrain)
  ROTS("ortho:gps", C44OrthoElastic, GeneralisedPlaneStrain)
  ROTS("ortho:axis", C44OrthoElastic, Axisymmetrical)
  ROTS("ortho:pstress", C44OrthoElastic, PlaneStress)
  std::string line;
  while (std::getline(std::cin, line)) {
    std::istringstream in(line);
    std::string cmd;
    if (!(in >> cmd)) continue;
    if (cmd == "P") {
      std::string beh, hyp;
      double K0, dt;
      int n;
      in >> beh >> hyp >> K0 >> n >> dt;
      auto it = table.find(beh + ":" + hyp);
      if (it == table.end() || !in) return 3;
      Point p(it->second);
      const int S = p.e.S;
      bool dead = false;
      for (int k = 0; k != n; ++k) {
        std::vector<double> e(S);
        for (auto& x : e) in >> x;
        if (!in) return 3;
        if (dead) {
          std::printf("R -9\n");
          continue;
        }
        const int rc = p.step(e, dt, K0);
        std::printf("R %d", rc);
        pr(p.sig1.data(), S);
        std::printf(" |");
        pr(p.isv1.data(), p.e.nisv);
        std::printf(" |");
        pr(p.K.data(), S * S);
        if (rc < 0) {
          for (auto& ch : p.err)
            if (ch == ' ' || ch == '\n') ch = '_';
          std::printf(" ERR:%s", p.err);
          dead = true;
        }
        std::printf("\n");
        p.accept();
      }
    } else if (cmd == "O") {
      std::string hyp;
      double K0;
      in >> hyp >> K0;
      auto it = table.find("ortho:" + hyp);
      if (it == table.end() || !in) return 3;
      Point p(it->second);
      const int S = p.e.S;
      std::vector<double> eg(S), rv(9), em(S, std::nan("")), sg(S, std::nan("")), Kg(S * S, std::nan(""));
      for (auto& x : eg) in >> x;
      for (auto& x : rv) in >> x;
      if (!in) return 3;
      p.e.rg(em.data(), eg.data(), rv.data());
      const int rc = p.step(em, 1., K0);
      p.e.rf(sg.data(), p.sig1.data(), rv.data());
      p.e.rk(Kg.data(), p.K.data(), rv.data());
      std::printf("O %d", rc);
      pr(em.data(), S);
      std::printf(" |");
      pr(p.sig1.data(), S);
      std::printf(" |");
      pr(p.K.data(), S * S);
      std::printf(" |");
      pr(sg.data(), S);
      std::printf(" |");
      pr(Kg.data(), S * S);
      std::printf(" |");
      pr(p.isv1.data(), p.e.nisv);
      std::printf("\n");
    } else {
      return 3;
    }
  }
  return 0;
}

"""C44: small tensor algebra in plain Python (Mandel storage xx yy zz xy xz yz with sqrt(2) on the shear components) used by the
independent statements of check.py and exec.py."""
import math

SS = {1: 3, 2: 4, 3: 6}
PAIRS = [(0, 0), (1, 1), (2, 2), (0, 1), (0, 2), (1, 2)]
R2 = math.sqrt(2.0)


# ------------------------------------------------------------------ independent numerical statements (plain Python)
def full_s(N, v):
    m = [[0.0] * 3 for _ in range(3)]
    for k in range(SS[N]):
        i, j = PAIRS[k]
        x = v[k] if i == j else v[k] / R2
        m[i][j] = m[j][i] = x
    return m


def flat_s(N, m):
    return [m[i][j] * (1.0 if i == j else R2) for (i, j) in PAIRS[:SS[N]]]


def full_r(N, v):
    I = [[1.0 if i == j else 0.0 for j in range(3)] for i in range(3)]
    if N == 1:
        return I
    if N == 2:
        for i in range(2):
            for j in range(2):
                I[i][j] = v[3 * i + j]
        return I
    return [[v[3 * i + j] for j in range(3)] for i in range(3)]


def tr(r):
    return [[r[j][i] for j in range(3)] for i in range(3)]


def rot2(r, a):  # r^T a r
    return [[sum(r[m][i] * r[n][j] * a[m][n] for m in range(3) for n in range(3)) for j in range(3)] for i in range(3)]


def full_A(N, v):
    n = SS[N]
    c = [[[[0.0] * 3 for _ in range(3)] for _ in range(3)] for _ in range(3)]
    for I in range(n):
        for J in range(n):
            i, j = PAIRS[I]
            k, l = PAIRS[J]
            x = v[I * n + J] / ((1.0 if i == j else R2) * (1.0 if k == l else R2))
            for (a, b) in {(i, j), (j, i)}:
                for (p, q) in {(k, l), (l, k)}:
                    c[a][b][p][q] = x
    return c


def flat_A(N, c):
    n = SS[N]
    out = []
    for I in range(n):
        for J in range(n):
            i, j = PAIRS[I]
            k, l = PAIRS[J]
            out.append(c[i][j][k][l] * (1.0 if i == j else R2) * (1.0 if k == l else R2))
    return out


def rot4(r, c):
    rg = range(3)
    return [[[[sum(r[m][i] * r[n][j] * r[p][k] * r[q][l] * c[m][n][p][q] for m in rg for n in rg for p in rg for q in rg)
               for l in rg] for k in rg] for j in rg] for i in rg]


def mul42(c, e):
    return [[sum(c[i][j][k][l] * e[k][l] for k in range(3) for l in range(3)) for j in range(3)] for i in range(3)]


def hooke(E, nu, e):
    la = nu * E / ((1 + nu) * (1 - 2 * nu))
    mu = E / (2 * (1 + nu))
    t = e[0][0] + e[1][1] + e[2][2]
    return [[la * t * (1.0 if i == j else 0.0) + 2 * mu * e[i][j] for j in range(3)] for i in range(3)]


def ortho_compliance_inverse(p, e6):
    """sigma (Mandel, 6) with S(p) : sigma = e, material axes = storage axes"""
    E1, E2, E3, n12, n23, n13, G12, G23, G13 = p
    S = [[1 / E1, -n12 / E1, -n13 / E1], [-n12 / E1, 1 / E2, -n23 / E2], [-n13 / E1, -n23 / E2, 1 / E3]]
    # solve the 3x3 system by Cramer
    def det(m):
        return (m[0][0] * (m[1][1] * m[2][2] - m[1][2] * m[2][1]) - m[0][1] * (m[1][0] * m[2][2] - m[1][2] * m[2][0])
                + m[0][2] * (m[1][0] * m[2][1] - m[1][1] * m[2][0]))
    d = det(S)
    sig = []
    for k in range(3):
        M = [row[:] for row in S]
        for i in range(3):
            M[i][k] = e6[i]
        sig.append(det(M) / d)
    return sig + [2 * G12 * e6[3], 2 * G13 * e6[4], 2 * G23 * e6[5]]

// C44 (engine S): tracer + driver of the rotation helpers used by the generic behaviour interface and of the
// Hooke-type responses (stiffness tensors of tfel::material applied to a strain) in every modelling hypothesis.
//   trace gen <out.v> <seed> <ncases> [ops-prefix-filter]
// Every operation is written ONCE, generically in the scalar type, and instantiated with symv::Sym (trace ->
// Coq definition `<op> (params : R) : list R`) and with double (the real code).  stdout:
//   AGREE <op> n=<cases> bad=<n> worst=<rel>      long-double evaluation of the traced DAG vs double instantiation
//   RUN <op> in <...> out <...>                    double executions for the independent Python statement
// When the file "emitted.hxx" is given through -DC44_EMITTED (text of the <f>_rotate* functions cut out of the
// source emitted by mfront's generic interface for our orthotropic reference behaviour) those functions are traced
// too, verbatim, with mfront::gb::real := Sym, and compared with the same text compiled with double.
#include "symtfel.hxx"
#include "TFEL/FSAlgorithm/FSAlgorithm.hxx"
#include "TFEL/Math/tmatrix.hxx"
#include "TFEL/Math/stensor.hxx"
#include "TFEL/Math/tensor.hxx"
#include "TFEL/Math/st2tost2.hxx"
#include "TFEL/Math/t2tost2.hxx"
#include "TFEL/Math/st2tot2.hxx"
#include "TFEL/Math/t2tot2.hxx"
#include "TFEL/Math/Array/View.hxx"
#include "TFEL/Material/ModellingHypothesis.hxx"
#include "TFEL/Material/OrthotropicAxesConvention.hxx"
#include "TFEL/Material/StiffnessTensor.hxx"
#include <cstring>
#include <functional>
#include <iostream>
#include <sstream>

using namespace symv;
namespace tm_ = tfel::material;
namespace tmath = tfel::math;
using MH = tm_::ModellingHypothesis;
using Hyp = MH::Hypothesis;
using Conv = tm_::OrthotropicAxesConvention;
using Alt = tm_::StiffnessTensorAlterationCharacteristic;
template <typename T>
using V = std::vector<T>;

constexpr int ssz(int N) { return N == 1 ? 3 : (N == 2 ? 4 : 6); }

template <unsigned short N, typename T>
tmath::stensor<N, T> mk_s(const V<T>& v, int o = 0) {
  tmath::stensor<N, T> s;
  for (unsigned short i = 0; i < ssz(N); ++i) s[i] = v[o + i];
  return s;
}
template <unsigned short N, typename T>
tmath::st2tost2<N, T> mk_A(const V<T>& v, int o = 0) {
  tmath::st2tost2<N, T> s;
  for (unsigned short i = 0; i < ssz(N); ++i)
    for (unsigned short j = 0; j < ssz(N); ++j) s(i, j) = v[o + i * ssz(N) + j];
  return s;
}
template <typename T>
tmath::tmatrix<3, 3, T> mk_r(const V<T>& v, int o = 0) {
  tmath::tmatrix<3, 3, T> r;
  for (unsigned short i = 0; i < 3; ++i)
    for (unsigned short j = 0; j < 3; ++j) r(i, j) = v[o + 3 * i + j];
  return r;
}
template <unsigned short N, typename T>
V<T> fl(const tmath::stensor<N, T>& s) {
  V<T> r;
  for (unsigned short i = 0; i < ssz(N); ++i) r.push_back(s[i]);
  return r;
}
template <unsigned short N, typename T>
V<T> fl(const tmath::st2tost2<N, T>& s) {
  V<T> r;
  for (unsigned short i = 0; i < ssz(N); ++i)
    for (unsigned short j = 0; j < ssz(N); ++j) r.push_back(s(i, j));
  return r;
}

// ------------------------------------------------------------------ registry
struct Group {
  std::string name;
  int size;  // 0: scalar
  char gen;  // 's' strain-like, 'r' 3x3 matrix, 'A' fourth-order entries, 'E' young, 'n' poisson, 'G' shear modulus, 'v' generic
};
struct Oper {
  std::string name;
  std::vector<Group> groups;
  std::function<V<Sym>(const V<Sym>&)> fs;
  std::function<V<double>(const V<double>&)> fd;
};
static std::vector<Oper> ops;
template <typename F>
void add(const std::string& name, std::vector<Group> g, F f) {
  ops.push_back({name, g, [f](const V<Sym>& x) { return f(x); }, [f](const V<double>& x) { return f(x); }});
}
template <typename I>
using scalar_of = typename std::decay_t<I>::value_type;

// ------------------------------------------------------------------ (a) rotation helpers of /repo
template <unsigned short N>
void rotation_ops() {
  const std::string n = std::to_string(N);
  constexpr int S = ssz(N);
  // st2tost2<N>::fromRotationMatrix  (include/TFEL/Math/ST2toST2/BuildFromRotationMatrix.hxx)
  add("fromrot_" + n, {{"r", 9, 'r'}}, [](const auto& in) {
    using T = scalar_of<decltype(in)>;
    return fl<N, T>(tmath::st2tost2<N, T>::fromRotationMatrix(mk_r<T>(in)));
  });
  // change_basis(stensor<N>, r)  -- what _rotateGradients emits (r = rv) and _rotateThermodynamicForces (r = rv^T)
  add("cb2_" + n, {{"s", S, 's'}, {"r", 9, 'r'}}, [](const auto& in) {
    using T = scalar_of<decltype(in)>;
    return fl<N, T>(tmath::stensor<N, T>(tmath::change_basis(mk_s<N, T>(in), mk_r<T>(in, S))));
  });
  // change_basis(st2tost2<N>, r) -- what _rotateTangentOperatorBlocks emits for a stensor/stensor block
  add("cb4_" + n, {{"c", S * S, 'A'}, {"r", 9, 'r'}}, [](const auto& in) {
    using T = scalar_of<decltype(in)>;
    return fl<N, T>(tmath::st2tost2<N, T>(tmath::change_basis(mk_A<N, T>(in), mk_r<T>(in, S * S))));
  });
  // st2tost2 * stensor (the contraction the responses are built with)
  add("app_" + n, {{"c", S * S, 'A'}, {"s", S, 's'}}, [](const auto& in) {
    using T = scalar_of<decltype(in)>;
    return fl<N, T>(tmath::stensor<N, T>(mk_A<N, T>(in) * mk_s<N, T>(in, S * S)));
  });
}

// ------------------------------------------------------------------ (b) Hooke-type responses
static const char* hshort(Hyp h) {
  switch (h) {
    case MH::AXISYMMETRICALGENERALISEDPLANESTRAIN: return "agpstrain";
    case MH::AXISYMMETRICALGENERALISEDPLANESTRESS: return "agpstress";
    case MH::AXISYMMETRICAL: return "axis";
    case MH::PLANESTRESS: return "pstress";
    case MH::PLANESTRAIN: return "pstrain";
    case MH::GENERALISEDPLANESTRAIN: return "gps";
    case MH::TRIDIMENSIONAL: return "tri";
    default: return "undefined";
  }
}
// sigma = D * e with D from computeIsotropicStiffnessTensor<H, a> (the call emitted by mfront for
// @ComputeStiffnessTensor / the Hooke stress potential), and D itself
template <Hyp H, Alt a>
void iso_ops() {
  constexpr unsigned short N = tm_::ModellingHypothesisToSpaceDimension<H>::value;
  constexpr int S = ssz(N);
  const std::string tag = std::string(hshort(H)) + (a == Alt::ALTERED ? "_alt" : "");
  add("isoD_" + tag, {{"young", 0, 'E'}, {"nu", 0, 'n'}}, [](const auto& in) {
    using T = scalar_of<decltype(in)>;
    tmath::st2tost2<N, T> D;
    for (auto& x : D) x = T(0);
    tm_::computeIsotropicStiffnessTensor<H, a, T, T>(D, in[0], in[1]);
    return fl<N, T>(D);
  });
  add("isosig_" + tag, {{"young", 0, 'E'}, {"nu", 0, 'n'}, {"e", S, 's'}}, [](const auto& in) {
    using T = scalar_of<decltype(in)>;
    tmath::st2tost2<N, T> D;
    for (auto& x : D) x = T(0);
    tm_::computeIsotropicStiffnessTensor<H, a, T, T>(D, in[0], in[1]);
    const auto e = mk_s<N, T>(in, 2);
    return fl<N, T>(tmath::stensor<N, T>(D * e));
  });
}
template <Hyp H, Alt a, Conv c>
void ortho_ops() {
  constexpr unsigned short N = tm_::ModellingHypothesisToSpaceDimension<H>::value;
  constexpr int S = ssz(N);
  const std::string tag =
      std::string(hshort(H)) + (a == Alt::ALTERED ? "_alt" : "") + (c == Conv::PIPE ? "_pipe" : (c == Conv::PLATE ? "_plate" : ""));
  add("ortsig_" + tag, {{"E", 3, 'E'}, {"n", 3, 'n'}, {"G", 3, 'G'}, {"e", S, 's'}}, [](const auto& in) {
    using T = scalar_of<decltype(in)>;
    tmath::st2tost2<N, T> D;
    for (auto& x : D) x = T(0);
    tm_::computeOrthotropicStiffnessTensor<H, a, c, T, T>(D, in[0], in[1], in[2], in[3], in[4], in[5], in[6], in[7], in[8]);
    const auto e = mk_s<N, T>(in, 9);
    return fl<N, T>(tmath::stensor<N, T>(D * e));
  });
}

// ------------------------------------------------------------------ emitted rotation functions of the generic interface
#ifdef C44_EMITTED
using mfront_gb_size_type = size_t;
#include <iostream>
#include <cstdlib>
namespace symgen {
  namespace mfront::gb {
    using real = symv::Sym;
  }
#define mfront_gb_real symv::Sym
#include C44_EMITTED
#undef mfront_gb_real
}  // namespace symgen
namespace dblgen {
  namespace mfront::gb {
    using real = double;
  }
#define mfront_gb_real double
#include C44_EMITTED
#undef mfront_gb_real
}  // namespace dblgen
// wrappers: fn(dest, src, rv) and fn(dest, src, rv, npoints); dest is zero-initialised (an entry the emitted code
// does not write shows as 0)
#define C44_EM1(fn, opname, nin, kind)                                                   \
  add(opname, {{(kind == 'A' ? "c" : "s"), nin, kind}, {"r", 9, 'r'}}, [](const auto& in) { \
    using T = scalar_of<decltype(in)>;                                                   \
    V<T> out(nin, T(0));                                                                 \
    if constexpr (std::is_same_v<T, double>)                                             \
      dblgen::fn(out.data(), in.data(), in.data() + nin);                                \
    else                                                                                 \
      symgen::fn(out.data(), in.data(), in.data() + nin);                                \
    return out;                                                                          \
  });
#define C44_EMA(fn, opname, nin, kind, npts)                                             \
  add(opname, {{(kind == 'A' ? "c" : "s"), nin, kind}, {"r", 9, 'r'}}, [](const auto& in) { \
    using T = scalar_of<decltype(in)>;                                                   \
    V<T> out(nin, T(0));                                                                 \
    if constexpr (std::is_same_v<T, double>)                                             \
      dblgen::fn(out.data(), in.data(), in.data() + nin, npts);                          \
    else                                                                                 \
      symgen::fn(out.data(), in.data(), in.data() + nin, npts);                          \
    return out;                                                                          \
  });
#define C44_EM_H(Hname, tag, n)                                                          \
  C44_EM1(C44Ortho_##Hname##_rotateGradients, "gen_rotg_" tag, n, 's')                   \
  C44_EM1(C44Ortho_##Hname##_rotateThermodynamicForces, "gen_rotf_" tag, n, 's')         \
  C44_EM1(C44Ortho_##Hname##_rotateTangentOperatorBlocks, "gen_rotk_" tag, n* n, 'A')
#endif

// ------------------------------------------------------------------ seeded inputs
static V<double> rotation(Rng& g, bool inplane) {
  // random rotation: product of elementary rotations (in-plane: about z only)
  auto mul = [](const V<double>& a, const V<double>& b) {
    V<double> c(9, 0.);
    for (int i = 0; i < 3; ++i)
      for (int j = 0; j < 3; ++j)
        for (int k = 0; k < 3; ++k) c[3 * i + j] += a[3 * i + k] * b[3 * k + j];
    return c;
  };
  auto el = [](int ax, double t) {
    V<double> m{1, 0, 0, 0, 1, 0, 0, 0, 1};
    const int i = (ax + 1) % 3, j = (ax + 2) % 3;
    m[3 * i + i] = std::cos(t);
    m[3 * j + j] = std::cos(t);
    m[3 * i + j] = -std::sin(t);
    m[3 * j + i] = std::sin(t);
    return m;
  };
  V<double> r = el(2, g.range(-3.1, 3.1));
  if (!inplane) r = mul(mul(el(0, g.range(-3.1, 3.1)), r), el(1, g.range(-3.1, 3.1)));
  return r;
}
static V<double> input(const Oper& op, Rng& g, int kase) {
  V<double> in;
  const bool twod = op.name.find("_2") != std::string::npos || op.name.find("2d") != std::string::npos;
  const double sc = std::pow(10., g.range(-4, 1));
  for (auto& gr : op.groups) {
    const int n = gr.size == 0 ? 1 : gr.size;
    if (gr.gen == 'r') {
      if (kase % 3 == 0) {
        for (int i = 0; i < 9; ++i) in.push_back(g.range(-2, 2));  // any matrix
      } else {
        auto r = rotation(g, twod || kase % 3 == 1);
        in.insert(in.end(), r.begin(), r.end());
      }
      continue;
    }
    for (int i = 0; i < n; ++i) {
      switch (gr.gen) {
        case 'E': in.push_back(g.range(50., 250.)); break;
        case 'n': in.push_back(g.range(0.05, 0.3)); break;
        case 'G': in.push_back(g.range(20., 90.)); break;
        case 's': in.push_back(g.range(-1, 1) * sc * ((kase % 5 == 4 && i % 2) ? 0. : 1.)); break;
        default: in.push_back(g.range(-3, 3)); break;
      }
    }
  }
  return in;
}

static void register_all() {
  rotation_ops<1>();
  rotation_ops<2>();
  rotation_ops<3>();
  iso_ops<MH::TRIDIMENSIONAL, Alt::UNALTERED>();
  iso_ops<MH::PLANESTRAIN, Alt::UNALTERED>();
  iso_ops<MH::GENERALISEDPLANESTRAIN, Alt::UNALTERED>();
  iso_ops<MH::AXISYMMETRICAL, Alt::UNALTERED>();
  iso_ops<MH::AXISYMMETRICALGENERALISEDPLANESTRAIN, Alt::UNALTERED>();
  iso_ops<MH::PLANESTRESS, Alt::UNALTERED>();
  iso_ops<MH::PLANESTRESS, Alt::ALTERED>();
  ortho_ops<MH::TRIDIMENSIONAL, Alt::UNALTERED, Conv::DEFAULT>();
  ortho_ops<MH::PLANESTRAIN, Alt::UNALTERED, Conv::DEFAULT>();
  ortho_ops<MH::GENERALISEDPLANESTRAIN, Alt::UNALTERED, Conv::DEFAULT>();
  ortho_ops<MH::AXISYMMETRICAL, Alt::UNALTERED, Conv::DEFAULT>();
  ortho_ops<MH::AXISYMMETRICALGENERALISEDPLANESTRAIN, Alt::UNALTERED, Conv::DEFAULT>();
  ortho_ops<MH::PLANESTRESS, Alt::ALTERED, Conv::DEFAULT>();
  ortho_ops<MH::PLANESTRAIN, Alt::UNALTERED, Conv::PIPE>();
  ortho_ops<MH::PLANESTRESS, Alt::ALTERED, Conv::PIPE>();
#ifdef C44_EMITTED
  C44_EM_H(Tridimensional, "tri", 6)
  C44_EM_H(PlaneStrain, "pstrain", 4)
  C44_EM_H(GeneralisedPlaneStrain, "gps", 4)
  C44_EM_H(Axisymmetrical, "axis", 4)
  C44_EM_H(PlaneStress, "pstress", 4)
  C44_EM_H(AxisymmetricalGeneralisedPlaneStrain, "agpstrain", 3)
  // arrays of two integration points (plane strain)
  C44_EMA(C44Ortho_PlaneStrain_rotateArrayOfGradients, "gen_arrg_pstrain", 8, 's', 2)
  C44_EMA(C44Ortho_PlaneStrain_rotateArrayOfThermodynamicForces, "gen_arrf_pstrain", 8, 's', 2)
  C44_EMA(C44Ortho_PlaneStrain_rotateArrayOfTangentOperatorBlocks, "gen_arrk_pstrain", 32, 'A', 2)
  // behaviour with two gradients / two fluxes / two tangent operator blocks
  C44_EM1(C44TwoGradients_PlaneStrain_rotateGradients, "tg_rotg_pstrain", 8, 's')
  C44_EM1(C44TwoGradients_PlaneStrain_rotateThermodynamicForces, "tg_rotf_pstrain", 8, 's')
  C44_EM1(C44TwoGradients_PlaneStrain_rotateTangentOperatorBlocks, "tg_rotk_pstrain", 32, 'A')
  C44_EMA(C44TwoGradients_PlaneStrain_rotateArrayOfGradients, "tg_arrg_pstrain", 16, 's', 2)
  C44_EMA(C44TwoGradients_PlaneStrain_rotateArrayOfThermodynamicForces, "tg_arrf_pstrain", 16, 's', 2)
  C44_EMA(C44TwoGradients_PlaneStrain_rotateArrayOfTangentOperatorBlocks, "tg_arrk_pstrain", 64, 'A', 2)
#endif
}

int main(int argc, char** argv) {
  if (argc < 5 || std::strcmp(argv[1], "gen")) {
    std::fprintf(stderr, "usage: trace gen <out.v> <seed> <ncases> [nrun]\n");
    return 2;
  }
  const uint64_t seed = std::strtoull(argv[3], nullptr, 10);
  const int ncases = std::atoi(argv[4]);
  const int nrun = argc > 5 ? std::atoi(argv[5]) : 12;
  register_all();
  Trace tr("C44_gen");
  int rc = 0;
  for (auto& op : ops) {
    V<Sym> ps;
    std::vector<std::string> names;
    for (auto& g : op.groups) {
      if (g.size == 0) {
        names.push_back(g.name);
      } else {
        for (int i = 0; i < g.size; ++i) names.push_back(g.name + std::to_string(i));
      }
    }
    for (auto& n : names) ps.push_back(var(n));
    V<Sym> out;
    try {
      out = op.fs(ps);
    } catch (std::exception& e) {
      std::printf("TRACE-FAIL %s %s\n", op.name.c_str(), e.what());
      rc = 1;
      continue;
    }
    tr.def(op.name, ps, out);
    Rng g(seed * 1315423911ULL + std::hash<std::string>{}(op.name) % 1000003);
    long bad = 0;
    long double worst = 0;
    for (int k = 0; k < ncases; ++k) {
      auto in = input(op, g, k);
      Env env;
      for (size_t i = 0; i < names.size(); ++i) env[names[i]] = in[i];
      auto d = op.fd(in);
      long double scale = 1e-300L;
      for (double x : d) scale = std::max<long double>(scale, std::fabs(x));
      bool ok = d.size() == out.size();
      for (size_t i = 0; ok && i < d.size(); ++i) {
        const long double s = eval(out[i], env);
        const long double e = std::fabs(s - d[i]) / scale;
        if (!(e <= 1e-11L)) ok = false;
        if (e > worst || e != e) worst = e;
      }
      if (!ok) ++bad;
      if (k < nrun) {
        std::printf("RUN %s in", op.name.c_str());
        for (double x : in) std::printf(" %.17g", x);
        std::printf(" out");
        for (double x : d) std::printf(" %.17g", x);
        std::printf("\n");
      }
    }
    std::printf("AGREE %s n=%d bad=%ld worst=%.3Lg\n", op.name.c_str(), ncases, bad, worst);
  }
  tr.write(argv[2]);
  return rc;
}

"""C44, EXECUTION stage (NOT a proof): frame indifference and hypothesis consistency of mfront-generated behaviours, observed
through the generic interface.  /repo's mfront generates C++ for props/C44/mfront/C44{IsoElastic,Norton,Plastic,OrthoElastic}.mfront;
drive.cxx calls the generated extern "C" entry points <Name>_<Hypothesis>(mfront_gb_BehaviourData*) and the generated
<Name>_<Hypothesis>_rotate* functions; every output is judged here by independent statements written in plain Python:
  (a) frame indifference: response(Q e Q^T) = Q response(e) Q^T along seeded strain paths (Q: any rotation in 3D, about z in the
      plane hypotheses), stresses after every step, elastic strain rotated, scalar internal variables equal, tangent operator rotated;
      orthotropic behaviour: global <-> material frame through the GENERATED rotate functions, compared with rotations computed here;
  (b) hypothesis consistency: loadings representable in several hypotheses give the same in-plane results in Tridimensional /
      PlaneStrain / GeneralisedPlaneStrain / Axisymmetrical; PlaneStress gives sigma_zz = 0 and, when the axial strain it reports
      (state variable AxialStrain) is imposed as e_zz, GeneralisedPlaneStrain and Tridimensional reproduce it (sigma_zz ~ 0)."""
import math, os, re
from tens import full_s, flat_s, tr, rot2, full_A, flat_A, rot4, ortho_compliance_inverse

HERE = os.path.dirname(os.path.abspath(__file__))
PROGRAMS = ["C44IsoElastic", "C44Norton", "C44Plastic", "C44OrthoElastic"]
SUPPORT = ["src/Material/BoundsCheck.cxx", "src/Exception/ContractViolation.cxx", "src/Exception/TFELException.cxx",
           "src/Material/MaterialException.cxx", "src/Math/LUException.cxx", "src/Math/MathException.cxx",
           "src/Utilities/GenTypeCastError.cxx", "src/Material/ModellingHypothesis.cxx"]
SIZE = {"tri": 6, "pstrain": 4, "gps": 4, "axis": 4, "pstress": 4}
NDIM = {"tri": 3, "pstrain": 2, "gps": 2, "axis": 2, "pstress": 2}
YOUNG = 150e3
# behaviour: number of scalar state variables (without AxialStrain), steps, time increment, strain amplitude, tolerances
#   tol: relative to the magnitude of the compared quantity along the path (the implicit systems are solved to @Epsilon 1e-14 on
#   strains ~1e-3, i.e. ~1e-11 relative; the elastic ones are linear)
BEH = {
    "iso": dict(nscal=0, nsteps=2, dt=1.0, amp=1e-3, tol=1e-10, tolK=1e-10),
    "norton": dict(nscal=1, nsteps=4, dt=5.0, amp=1.5e-3, tol=1e-8, tolK=1e-6),
    "plastic": dict(nscal=1, nsteps=4, dt=1.0, amp=4e-3, tol=1e-8, tolK=1e-6),
    "ortho": dict(nscal=0, nsteps=2, dt=1.0, amp=1e-3, tol=1e-10, tolK=1e-10),
}
# material axes (1,2,3) seen from the storage axes under @OrthotropicBehaviour<Pipe> (see props/C41): storage i <-> material PERM[i]
ORTHO_PERM = {"tri": (0, 1, 2), "axis": (0, 1, 2), "pstrain": (0, 2, 1), "gps": (0, 2, 1)}


# ------------------------------------------------------------------ rotations
def rand_rotation(rng, N):
    if N == 2:
        a = rng.uniform(-math.pi, math.pi)
        c, s = math.cos(a), math.sin(a)
        return [[c, -s, 0.0], [s, c, 0.0], [0.0, 0.0, 1.0]]
    while True:
        q = [rng.gauss(0, 1) for _ in range(4)]
        n = math.sqrt(sum(x * x for x in q))
        if n > 0.1:
            break
    w, x, y, z = [v / n for v in q]
    return [[1 - 2 * (y * y + z * z), 2 * (x * y - z * w), 2 * (x * z + y * w)],
            [2 * (x * y + z * w), 1 - 2 * (x * x + z * z), 2 * (y * z - x * w)],
            [2 * (x * z - y * w), 2 * (y * z + x * w), 1 - 2 * (x * x + y * y)]]


def matmul(a, b):
    return [[sum(a[i][k] * b[k][j] for k in range(3)) for j in range(3)] for i in range(3)]


def push2(Q, v, N):
    """Q v Q^T for a symmetric tensor in TFEL storage"""
    return flat_s(N, rot2(tr(Q), full_s(N, v)))


def push4(Q, K, N):
    """Q_im Q_jn Q_kp Q_lq K_mnpq for a fourth order tensor (row major S x S, Mandel)"""
    return flat_A(N, rot4(tr(Q), full_A(N, K)))


def rv_of(R):
    return [R[i][j] for i in range(3) for j in range(3)]


# ------------------------------------------------------------------ batches of driver commands
class Batch:
    def __init__(self):
        self.cmds = []  # (kind, text, meta)

    def path(self, beh, hyp, strains, K0=4):
        S = SIZE[hyp]
        assert all(len(e) == S for e in strains)
        txt = "P %s %s %d %d %.17g " % (beh, hyp, K0, len(strains), BEH[beh]["dt"]) + " ".join("%.17g" % x for e in strains for x in e)
        self.cmds.append(("P", txt, dict(beh=beh, hyp=hyp, n=len(strains), strains=strains)))
        return len(self.cmds) - 1

    def ortho(self, hyp, e, R, K0=4):
        txt = "O %s %d " % (hyp, K0) + " ".join("%.17g" % x for x in list(e) + rv_of(R))
        self.cmds.append(("O", txt, dict(hyp=hyp, e=list(e), R=R)))
        return len(self.cmds) - 1

    def run(self, c, drv):
        """-> list (one entry per command): P: list of steps {rc, sig, eel, p, etozz, K, err}; O: dict"""
        if not self.cmds:
            return []
        rc, out, err = c.run([drv], input="\n".join(t for (_, t, _) in self.cmds) + "\n", timeout=900)
        if rc != 0:
            raise RuntimeError("driver failed rc=%s: %s" % (rc, err[-800:]))
        lines = out.splitlines()
        res, k = [], 0
        for kind, _, m in self.cmds:
            if kind == "P":
                S, nsc, ps = SIZE[m["hyp"]], BEH[m["beh"]]["nscal"], m["hyp"] == "pstress"
                steps = []
                for _ in range(m["n"]):
                    t = lines[k].split()
                    k += 1
                    assert t[0] == "R"
                    st = dict(rc=int(t[1]), err=None)
                    if st["rc"] < 0:
                        st["err"] = t[-1] if t[-1].startswith("ERR:") else "previous step failed"
                        steps.append(st)
                        continue
                    parts = " ".join(t[2:]).split("|")
                    sig, isv, K = ([float(x) for x in p.split()] for p in parts)
                    assert len(sig) == S and len(K) == S * S and len(isv) == S + nsc + (1 if ps else 0)
                    st.update(sig=sig, eel=isv[:S], p=isv[S] if nsc else None, etozz=isv[-1] if ps else None, K=K)
                    steps.append(st)
                res.append(steps)
            else:
                t = lines[k].split()
                k += 1
                assert t[0] == "O"
                parts = [[float(x) for x in p.split()] for p in " ".join(t[2:]).split("|")]
                res.append(dict(rc=int(t[1]), e_mat=parts[0], sig_mat=parts[1], K_mat=parts[2], sig_glob=parts[3], K_glob=parts[4], isv=parts[5]))
        assert k == len(lines), "driver printed %d lines, %d consumed" % (len(lines), k)
        return res


# ------------------------------------------------------------------ loadings
def base_strain(rng, hyp, amp, kind="random", ezz=None):
    """a strain (TFEL storage of the hypothesis) of magnitude ~amp.  ezz: None -> the natural choice of the hypothesis
    (0 in plane strain / plane stress where the caller passes 0, random elsewhere)"""
    S = SIZE[hyp]
    u = lambda: rng.uniform(-1, 1)
    if kind == "uniaxial":
        e = [rng.choice([-1, 1]) * rng.uniform(0.5, 1), 0.0, 0.0, 0.0]
    elif kind == "equibiaxial":
        a = rng.choice([-1, 1]) * rng.uniform(0.4, 0.9)
        e = [a, a, 0.0, 0.0]
    elif kind == "shear":
        e = [0.0, 0.0, 0.0, rng.choice([-1, 1]) * rng.uniform(0.5, 1) * math.sqrt(2)]
    elif kind == "inplane":
        e = [u(), u(), 0.0, u()]
    elif kind == "withezz":
        e = [u(), u(), u(), u()]
    else:
        e = [u(), u(), u() if hyp in ("tri", "gps", "axis") else 0.0, u()]
    if ezz is not None:
        e[2] = ezz
    e = [amp * x for x in e]
    if S == 6:
        e += [amp * u(), amp * u()] if kind == "random" else [0.0, 0.0]
    return e


def make_path(rng, beh, base, perturb=True):
    """strain path: multiples of `base` (loading then partial unloading) with a small non-proportional perturbation that keeps
    the zero components of `base` zero"""
    n = BEH[beh]["nsteps"]
    mult = {1: [1.0], 2: [0.6, 1.0], 4: [0.35, 0.7, 1.0, 0.8]}[n]
    out = []
    for m in mult:
        e = [m * x * ((1 + 0.15 * rng.uniform(-1, 1)) if perturb else 1.0) for x in base]
        out.append(e)
    return out


def embed(hyp, e4):
    """a strain given as (xx, yy, zz, xy) in the storage of hypothesis hyp (Axisymmetrical: (rr, zz, tt, rz), i.e. x->r, y->z, z->theta)"""
    return list(e4) + [0.0, 0.0] if hyp == "tri" else list(e4)


def vmax(*vs):
    return max([abs(x) for v in vs for x in v] + [0.0])


class Judge:
    """compares, counts and reports (first failure per key)"""

    def __init__(self, c):
        self.c = c
        self.seen = set()
        self.n = 0
        self.worst = {}

    def fail(self, key, what, replay):
        if key in self.seen:
            return
        self.seen.add(key)
        replay = dict(replay)
        replay["how"] = "props/C44/drive.cxx fed with the command line(s) `cmd` (generic interface entry points of the code generated by /repo's mfront)"
        self.c.report(key, what, replay, True)

    def close(self, key, label, a, b, scale, tol, replay, cls):
        """|a-b| <= tol*scale componentwise"""
        self.n += 1
        if len(a) != len(b):
            self.fail(key, "%s: sizes differ" % label, replay)
            return False
        d = max([abs(x - y) for x, y in zip(a, b)] + [0.0])
        rel = d / scale if scale > 0 else 0.0
        if rel <= tol:
            self.worst[cls] = max(self.worst.get(cls, 0.0), rel / tol)  # margin of the comparisons that pass
        if not rel <= 1.0 * tol:
            k = max(range(len(a)), key=lambda i: abs(a[i] - b[i]))
            self.fail(key, "%s: component %d is %.17g, expected %.17g (difference %.3g relative to the magnitude %.6g, tolerance %.1g)" % (
                label, k, a[k], b[k], rel, scale, tol), replay)
            return False
        return True


def ok_steps(J, key, steps, txt, what):
    bad = [i for i, s in enumerate(steps) if s["rc"] < 0]
    if bad:
        J.fail(key, "%s: the behaviour integration failed at step %d (%s)" % (what, bad[0], steps[bad[0]]["err"]), {"cmd": txt})
        return False
    return True


def mat_constants():
    s = open(os.path.join(HERE, "mfront", "C44OrthoElastic.mfront")).read()
    g = lambda n: float(re.search(n + r"\s*:\s*([0-9.eE+-]+)", s).group(1))
    return [g("young_modulus1"), g("young_modulus2"), g("young_modulus3"), g("poisson_ratio12"), g("poisson_ratio23"), g("poisson_ratio13"),
            g("shear_modulus12"), g("shear_modulus23"), g("shear_modulus13")]


# ------------------------------------------------------------------ the stage
def run(c, drv, behs, nrep):
    """behs: behaviours run in this tier; nrep: seeded repetitions per (behaviour, hypothesis, loading)"""
    rng = c.rng
    J = Judge(c)
    B = Batch()
    plan = []  # (kind, data)

    # ---- (a) frame indifference, isotropic behaviours
    for beh in [b for b in behs if b != "ortho"]:
        for hyp in ("tri", "pstrain", "gps", "pstress"):
            N = NDIM[hyp]
            for r in range(nrep):
                base = base_strain(rng, hyp, BEH[beh]["amp"], "random")
                path = make_path(rng, beh, base)
                Q = rand_rotation(rng, N)
                rpath = [push2(Q, e, N) for e in path]
                plan.append(("frame", beh, hyp, Q, B.path(beh, hyp, path), B.path(beh, hyp, rpath)))
    # ---- (a) orthotropic behaviour: generated rotate functions
    if "ortho" in behs:
        for hyp in ("tri", "pstrain", "gps", "pstress", "axis"):
            N = NDIM[hyp]
            for r in range(nrep):
                e = base_strain(rng, hyp, 1e-3, "random")
                R = rand_rotation(rng, N)
                Q = rand_rotation(rng, N)
                e_mat = flat_s(N, rot2(R, full_s(N, e)))  # R^T e R, computed here
                plan.append(("orot", hyp, e, R, Q, B.ortho(hyp, e, R), B.ortho(hyp, push2(Q, e, N), matmul(Q, R)), B.path("ortho", hyp, [e_mat])))
    # ---- (b) hypothesis consistency
    for beh in behs:
        kinds = ["uniaxial", "equibiaxial", "shear", "inplane", "withezz"]
        for kind in kinds:
            for r in range(nrep if kind in ("inplane", "withezz") else 1):
                base = base_strain(rng, "gps", BEH[beh]["amp"], kind)
                path = make_path(rng, beh, base, perturb=(kind in ("inplane", "withezz")))
                hyps = ["tri", "gps", "axis"] + (["pstrain"] if kind != "withezz" else [])
                ids = {h: B.path(beh, h, [embed(h, e) for e in path]) for h in hyps}
                plan.append(("hyp", beh, kind, path, ids))
                if kind != "withezz":
                    plan.append(("pstress", beh, kind, path, B.path(beh, "pstress", path)))
    res = B.run(c, drv)
    cmd = lambda i: B.cmds[i][1]

    # ---------------- judge round 1, prepare round 2 (plane stress axial strain imposed in GPS / 3D)
    B2 = Batch()
    plan2 = []
    consts = mat_constants()
    nplastic = 0
    for item in plan:
        if item[0] == "frame":
            _, beh, hyp, Q, i0, i1 = item
            N, t = NDIM[hyp], BEH[beh]
            a, b = res[i0], res[i1]
            key = "exec:frame:%s:%s" % (beh, hyp)
            rep = {"cmd": [cmd(i0), cmd(i1)], "Q": Q}
            if not (ok_steps(J, key, a, cmd(i0), "frame indifference") and ok_steps(J, key, b, cmd(i1), "frame indifference (rotated path)")):
                continue
            ssc = max(vmax(*[s["sig"] for s in a]), 1e-9 * YOUNG)
            esc = vmax(*B.cmds[i0][2]["strains"])
            Ksc = vmax(a[0]["K"])
            for k, (sa, sb) in enumerate(zip(a, b)):
                lab = "%s %s step %d, rotated loading Q e Q^T: " % (beh, hyp, k)
                good = J.close(key, lab + "stress vs Q sig Q^T", sb["sig"], push2(Q, sa["sig"], N), ssc, t["tol"], rep, "frame-sig")
                good &= J.close(key, lab + "elastic strain vs Q eel Q^T", sb["eel"], push2(Q, sa["eel"], N), esc, t["tol"], rep, "frame-isv")
                if sa["p"] is not None:
                    good &= J.close(key, lab + "equivalent (visco)plastic strain", [sb["p"]], [sa["p"]], esc, t["tol"], rep, "frame-isv")
                if sa["etozz"] is not None:
                    good &= J.close(key, lab + "axial strain", [sb["etozz"]], [sa["etozz"]], esc, t["tol"], rep, "frame-isv")
                    good &= J.close(key, lab + "sigma_zz = 0 in plane stress", [sb["sig"][2], sa["sig"][2]], [0.0, 0.0], ssc, t["tol"], rep, "pstress-szz")
                good &= J.close(key, lab + "tangent operator vs rotated tangent operator", sb["K"], push4(Q, sa["K"], N), Ksc, t["tolK"], rep, "frame-K")
                nt = sa["p"] is None or sa["p"] > 1e-6
                nplastic += 1 if (beh == "plastic" and sa["p"] > 1e-6) else 0
                c.count(1, ("frame", beh, hyp, tuple(B.cmds[i0][2]["strains"][k])), nt)
                if not good:
                    break
            if J.n % 211 < 6:
                c.sample({"stage": "execution/frame", "behaviour": beh, "hypothesis": hyp, "Q": Q, "strain_path": B.cmds[i0][2]["strains"],
                          "stress_last_step": a[-1]["sig"], "stress_rotated_path": b[-1]["sig"], "p": a[-1]["p"]}, limit=20)
        elif item[0] == "orot":
            _, hyp, e, R, Q, i0, i1, i2 = item
            N = NDIM[hyp]
            o, oq, direct = res[i0], res[i1], res[i2]
            key = "exec:ortho-rotation:%s" % hyp
            rep = {"cmd": [cmd(i0), cmd(i1), cmd(i2)], "R": R, "Q": Q}
            if o["rc"] < 0 or oq["rc"] < 0 or not ok_steps(J, key, direct, cmd(i2), "orthotropic behaviour"):
                J.fail(key, "orthotropic behaviour: integration failed", rep)
                continue
            d = direct[0]
            ssc, esc, Ksc = vmax(o["sig_mat"]), vmax(e), vmax(o["K_mat"])
            lab = "orthotropic %s, material axes R: " % hyp
            J.close(key, lab + "generated rotateGradients vs R^T e R", o["e_mat"], flat_s(N, rot2(R, full_s(N, e))), esc, 1e-12, rep, "ortho-rot")
            J.close(key, lab + "material response reached through rotateGradients vs direct call with R^T e R", o["sig_mat"], d["sig"], ssc, 1e-11, rep, "ortho-rot")
            J.close(key, lab + "generated rotateThermodynamicForces vs R sig_mat R^T", o["sig_glob"], push2(R, d["sig"], N), ssc, 1e-11, rep, "ortho-rot")
            J.close(key, lab + "generated rotateTangentOperatorBlocks vs the rotated material tangent", o["K_glob"], push4(R, d["K"], N), Ksc, 1e-11, rep, "ortho-rot")
            # the same body rotated by Q (axes Q R, loading Q e Q^T)
            J.close(key, lab + "body and loading rotated by Q: global stress vs Q sig Q^T", oq["sig_glob"], push2(Q, o["sig_glob"], N), ssc, 1e-10, rep, "ortho-frame")
            J.close(key, lab + "body and loading rotated by Q: global tangent vs rotated tangent", oq["K_glob"], push4(Q, o["K_glob"], N), Ksc, 1e-10, rep, "ortho-frame")
            # linear law from the virgin state: the global response is the rotated tangent applied to the global strain
            J.close("exec:pstress-tangent:ortho" if hyp == "pstress" else key, lab + "global response = rotated tangent operator : e", o["sig_glob"],
                    flat_s(N, _mul42(N, o["K_glob"], e)), ssc, 1e-10, rep, "ortho-frame")
            if hyp == "pstress":
                J.close(key, lab + "sigma_zz = 0 in plane stress", [o["sig_mat"][2], o["sig_glob"][2]], [0.0, 0.0], ssc, 1e-10, rep, "pstress-szz")
            if hyp in ORTHO_PERM:
                pm = ORTHO_PERM[hyp]
                pc = perm_constants(consts, pm)
                em = list(o["e_mat"]) + [0.0] * (6 - SIZE[hyp])
                ref = ortho_compliance_inverse(pc, em)[:SIZE[hyp]]
                J.close(key, lab + "material response vs the inverse of the documented compliance (Pipe convention)", o["sig_mat"], ref, ssc, 1e-10, rep, "ortho-law")
            c.count(1, ("orot", hyp, tuple(e), tuple(rv_of(R))), True)
            if J.n % 97 < 8:
                c.sample({"stage": "execution/orthotropic rotation", "hypothesis": hyp, "e_global": e, "rv": rv_of(R), "sig_global": o["sig_glob"]}, limit=20)
        elif item[0] == "hyp":
            _, beh, kind, path, ids = item
            t = BEH[beh]
            groups = [("tri", [h for h in ids if h != "tri"])] if beh != "ortho" else [("tri", ["axis"])] + ([("gps", ["pstrain"])] if "pstrain" in ids else [])
            for ref_h, others in groups:
                a = res[ids[ref_h]]
                key0 = "exec:hyp:%s:%s" % (beh, ref_h)
                if not ok_steps(J, key0, a, cmd(ids[ref_h]), "hypothesis consistency"):
                    continue
                ssc = max(vmax(*[s["sig"] for s in a]), 1e-9 * YOUNG)
                esc = vmax(*path)
                Sa = SIZE[ref_h]
                for h in others:
                    b = res[ids[h]]
                    key = "exec:hyp:%s:%s-vs-%s" % (beh, h, ref_h)
                    rep = {"cmd": [cmd(ids[ref_h]), cmd(ids[h])], "loading": kind}
                    if not ok_steps(J, key, b, cmd(ids[h]), "hypothesis consistency"):
                        continue
                    for k, (sa, sb) in enumerate(zip(a, b)):
                        lab = "%s, %s loading, step %d, %s vs %s: " % (beh, kind, k, h, ref_h)
                        good = J.close(key, lab + "stress (xx yy zz xy)", sb["sig"], sa["sig"][:4], ssc, t["tol"], rep, "hyp-sig")
                        if Sa == 6:
                            good &= J.close(key, lab + "out-of-plane shear stresses of the 3D response", sa["sig"][4:], [0.0, 0.0], ssc, t["tol"], rep, "hyp-sig")
                        good &= J.close(key, lab + "elastic strain", sb["eel"], sa["eel"][:4], esc, t["tol"], rep, "hyp-isv")
                        if sa["p"] is not None:
                            good &= J.close(key, lab + "equivalent (visco)plastic strain", [sb["p"]], [sa["p"]], esc, t["tol"], rep, "hyp-isv")
                        Ka = [sa["K"][i * Sa + j] for i in range(4) for j in range(4)]
                        good &= J.close(key, lab + "in-plane block of the tangent operator", sb["K"], Ka, vmax(Ka), t["tolK"], rep, "hyp-K")
                        nplastic += 1 if (beh == "plastic" and sa["p"] > 1e-6) else 0
                        c.count(1, ("hyp", beh, h, ref_h, kind, tuple(path[k])), sa["p"] is None or sa["p"] > 1e-6)
                        if not good:
                            break
            if J.n % 173 < 10:
                a = res[ids["tri"]]
                c.sample({"stage": "execution/hypotheses", "behaviour": beh, "loading": kind, "strain_path_xx_yy_zz_xy": path, "stress_3D_last_step": a[-1].get("sig"),
                          "p": a[-1].get("p")}, limit=20)
        elif item[0] == "pstress":
            _, beh, kind, path, i0 = item
            a = res[i0]
            key = "exec:pstress:%s" % beh
            if not ok_steps(J, key, a, cmd(i0), "plane stress"):
                continue
            ssc = max(vmax(*[s["sig"] for s in a]), 1e-9 * YOUNG)
            for k, sa in enumerate(a):
                J.close(key, "%s, %s loading, step %d, plane stress: sigma_zz = 0" % (beh, kind, k), [sa["sig"][2]], [0.0], ssc, BEH[beh]["tol"],
                        {"cmd": cmd(i0), "loading": kind}, "pstress-szz")
                # d sigma_zz / d eps = 0 (sigma_zz is identically 0); linear laws from the virgin state: sig = K : e
                Ksc = vmax(sa["K"])
                J.close("exec:pstress-tangent:%s" % beh, "%s, %s loading, step %d, plane stress: the zz row of the tangent operator (d sigma_zz / d eps) is 0" % (
                    beh, kind, k), sa["K"][8:12], [0.0] * 4, Ksc, BEH[beh]["tolK"], {"cmd": cmd(i0), "loading": kind}, "pstress-K")
                if beh in ("iso", "ortho"):
                    J.close("exec:pstress-tangent:%s" % beh, "%s, %s loading, step %d, plane stress (linear law): stress = tangent operator : strain" % (beh, kind, k),
                            sa["sig"], flat_s(2, _mul42(2, sa["K"], path[k])), ssc, 1e-10, {"cmd": cmd(i0), "loading": kind}, "pstress-K")
            # impose the reported axial strain
            path2 = [[e[0], e[1], s["etozz"], e[3]] for e, s in zip(path, a)]
            ids = {h: B2.path(beh, h, [embed(h, e) for e in path2]) for h in (("gps", "tri") if beh != "ortho" else ("gps",))}
            plan2.append((beh, kind, path, i0, ids))
    res2 = B2.run(c, drv)
    for beh, kind, path, i0, ids in plan2:
        a = res[i0]
        t = BEH[beh]
        ssc = max(vmax(*[s["sig"] for s in a]), 1e-9 * YOUNG)
        esc = max(vmax(*path), vmax([s["etozz"] for s in a]))
        for h, i1 in ids.items():
            b = res2[i1]
            key = "exec:pstress:%s:%s-with-reported-axial-strain" % (beh, h)
            rep = {"cmd": [cmd(i0), B2.cmds[i1][1]], "loading": kind}
            if not ok_steps(J, key, b, B2.cmds[i1][1], "plane stress axial strain imposed in " + h):
                continue
            for k, (sa, sb) in enumerate(zip(a, b)):
                lab = "%s, %s loading, step %d: %s with e_zz = AxialStrain reported by PlaneStress: " % (beh, kind, k, h)
                good = J.close(key, lab + "stress (xx yy zz xy) vs the plane stress result (sigma_zz must vanish)", sb["sig"][:4],
                               [sa["sig"][0], sa["sig"][1], 0.0, sa["sig"][3]], ssc, t["tol"], rep, "pstress-3D")
                good &= J.close(key, lab + "elastic strain", sb["eel"][:4], sa["eel"], esc, t["tol"], rep, "pstress-3D")
                if sa["p"] is not None:
                    good &= J.close(key, lab + "equivalent (visco)plastic strain", [sb["p"]], [sa["p"]], esc, t["tol"], rep, "pstress-3D")
                if h == "gps":
                    # implicit function theorem: the plane stress tangent is the static condensation of the generalised plane strain tangent
                    # at the same state (sigma_zz eliminated), for the consistent tangent of the implicit scheme as well
                    Kg, Kp = sb["K"], sa["K"]
                    idx = (0, 1, 3)
                    cond = [Kg[4 * i + j] - Kg[4 * i + 2] * Kg[4 * 2 + j] / Kg[4 * 2 + 2] for i in idx for j in idx]
                    good &= J.close("exec:pstress-tangent:%s" % beh, lab + "plane stress tangent operator (in-plane block) vs the static condensation K_ij - K_iz K_zj / K_zz "
                                    "of the generalised plane strain tangent", [Kp[4 * i + j] for i in idx for j in idx], cond, vmax(cond), t["tolK"], rep, "pstress-K")
                nplastic += 1 if (beh == "plastic" and sa["p"] > 1e-6) else 0
                c.count(1, ("pstress", beh, h, kind, tuple(path[k])), sa["p"] is None or sa["p"] > 1e-6)
                if not good:
                    break
        if J.n % 131 < 12:
            c.sample({"stage": "execution/plane stress", "behaviour": beh, "loading": kind, "strain_path": path, "stress_last_step": a[-1]["sig"],
                      "axial_strain_reported": [s["etozz"] for s in a], "p": a[-1]["p"]}, limit=20)
    if "plastic" in behs and nplastic == 0:
        c.report("exec:coverage", "execution stage: no plastic step was exercised by the seeded paths", {}, False)
    return dict(comparisons=J.n, worst_over_tolerance=J.worst, paths=len(B.cmds) + len(B2.cmds), plastic_steps=nplastic)


def _mul42(N, K, e):
    c4, e2 = full_A(N, K), full_s(N, e)
    return [[sum(c4[i][j][k][l] * e2[k][l] for k in range(3) for l in range(3)) for j in range(3)] for i in range(3)]


def perm_constants(p, pm):
    """the nine orthotropic constants seen from the storage axes when storage axis i is the material axis pm[i]"""
    E = (p[0], p[1], p[2])
    nu = {(0, 1): p[3], (1, 2): p[4], (0, 2): p[5]}
    G = {(0, 1): p[6], (1, 2): p[7], (0, 2): p[8]}

    def nu_(a, b):  # nu_ab with -nu_ab/E_a = S_ab
        return nu[(a, b)] if (a, b) in nu else nu[(b, a)] * E[a] / E[b]

    def G_(a, b):
        return G[(min(a, b), max(a, b))]
    a, b, cc = pm
    return [E[a], E[b], E[cc], nu_(a, b), nu_(b, cc), nu_(a, cc), G_(a, b), G_(b, cc), G_(a, cc)]

"""C44 -- behaviour responses are frame- and hypothesis-consistent (partial: rotation helpers of the generic interface and
Hooke-type responses; see manifest.json / NOTES.md for what is not covered).
Engine S (+G for the emitted rotation functions): /repo's mfront generates two orthotropic reference behaviours through the
generic interface; the text of the emitted <f>_rotate* functions is cut out and traced verbatim with mfront::gb::real := Sym,
together with st2tost2::fromRotationMatrix, change_basis (stensor, st2tost2) and the responses D*e built with
computeIsotropicStiffnessTensor / computeOrthotropicStiffnessTensor in every modelling hypothesis.  Coq proves that they are
Q^T e Q, Q s Q^T, the fourth-order rotation in index notation, hypothesis consistency, sigma_zz = 0 in plane stress, isotropy.
The same code instantiated with double is compared with the traced DAG (agreement) and with an independent Python statement
of each property (failing-input search).
(c) PROOF on a generated behaviour class: the PLANESTRESS and TRIDIMENSIONAL classes generated for mfront/C44IsoElastic.mfront
(StandardElasticity brick, @DSL Implicit) are instantiated with Sym (trace_ps.cxx): residual (feel, fetozz), jacobian, final stress;
Coq: root of the axial residual <-> sigma_zz = 0, the root is the 3D response at the reported axial strain and the plane-stress Hooke law.
(a)(b) EXECUTION stage (not a proof, gbexec.py + drive.cxx): four generated behaviours (isotropic elastic, Norton, J2 plasticity,
orthotropic elastic) called through the extern "C" entry points of the generic interface: frame indifference along strain paths,
generated rotate functions of the orthotropic behaviour, hypothesis consistency, plane stress."""
import math, os, re, sys
from concurrent.futures import ThreadPoolExecutor
import vlib
from vlib import guarded_main

HERE = os.path.dirname(os.path.abspath(__file__))
sys.path.insert(0, HERE)
from emit import extract_rotation_functions  # noqa: E402
import gbexec  # noqa: E402

SUPPORT = ["src/Exception/ContractViolation.cxx"]
SS = {1: 3, 2: 4, 3: 6}
PAIRS = [(0, 0), (1, 1), (2, 2), (0, 1), (0, 2), (1, 2)]
HYPN = {"tri": 3, "pstrain": 2, "gps": 2, "axis": 2, "pstress": 2, "agpstrain": 1}
R2 = math.sqrt(2.0)
ARRAY_FINDING_KEYS = ("emitted:tg_arrg_pstrain", "emitted:tg_arrf_pstrain")
ORTHO_PS_KEY = "exec:pstress-tangent:ortho"


from tens import full_s, flat_s, full_r, tr, rot2, full_A, flat_A, rot4, mul42, hooke, ortho_compliance_inverse  # noqa: E402,F401


def expected(op, x):
    """the value the operation must return on input x (None: no independent statement for this operation)"""
    m = re.match(r"(fromrot|cb2|cb4|app)_(\d)$", op)
    if m:
        k, N = m.group(1), int(m.group(2))
        n = SS[N]
        if k == "fromrot":
            r = full_r(N, x)
            c = [[[[(r[kk][i] * r[l][j] + r[l][i] * r[kk][j]) / 2 for l in range(3)] for kk in range(3)] for j in range(3)] for i in range(3)]
            return flat_A(N, c)
        if k == "cb2":
            return flat_s(N, rot2(full_r(N, x[n:]), full_s(N, x[:n])))
        if k == "cb4":
            return flat_A(N, rot4(full_r(N, x[n * n:]), full_A(N, x[:n * n])))
        return flat_s(N, mul42(full_A(N, x[:n * n]), full_s(N, x[n * n:])))
    m = re.match(r"gen_rot([gfk])_(\w+)$", op)
    if m:
        k, N = m.group(1), HYPN[m.group(2)]
        n = SS[N]
        if k == "g":
            return flat_s(N, rot2(full_r(N, x[n:]), full_s(N, x[:n])))
        if k == "f":
            return flat_s(N, rot2(tr(full_r(N, x[n:])), full_s(N, x[:n])))
        return flat_A(N, rot4(tr(full_r(N, x[n * n:])), full_A(N, x[:n * n])))
    m = re.match(r"(gen|tg)_(arr|rot)([gfk])_pstrain$", op)
    if m:
        k = m.group(3)
        size = 16 if k == "k" else 4
        nin = len(x) - 9
        r = full_r(2, x[nin:])
        out = []
        for o in range(0, nin, size):
            if k == "g":
                out += flat_s(2, rot2(r, full_s(2, x[o:o + 4])))
            elif k == "f":
                out += flat_s(2, rot2(tr(r), full_s(2, x[o:o + 4])))
            else:
                out += flat_A(2, rot4(tr(r), full_A(2, x[o:o + 16])))
        return out
    m = re.match(r"isosig_(\w+)$", op)
    if m:
        tag = m.group(1)
        E, nu, e = x[0], x[1], x[2:]
        if tag == "pstress_alt":
            ezz = -nu / (1 - nu) * (e[0] + e[1])
            s = flat_s(3, hooke(E, nu, full_s(3, [e[0], e[1], ezz, e[3], 0, 0])))
            return [s[0], s[1], 0.0, s[3]]
        N = HYPN[tag]
        return flat_s(3, hooke(E, nu, full_s(3, list(e) + [0.0] * (6 - SS[N]))))[:SS[N]]
    m = re.match(r"ortsig_(tri|pstrain|gps|axis|agpstrain)$", op)
    if m:
        N = HYPN[m.group(1)]
        return ortho_compliance_inverse(x[:9], list(x[9:]) + [0.0] * (6 - SS[N]))[:SS[N]]
    return None


def extra_checks(op, x, y):
    """properties that are not `output = closed form`: sigma_zz = 0 in plane stress"""
    if op in ("isosig_pstress_alt", "ortsig_pstress_alt", "ortsig_pstress_alt_pipe"):
        scale = max(abs(v) for v in y) or 1.0
        if abs(y[2]) > 1e-12 * scale:
            return "sigma_zz = %g is not 0 in plane stress" % y[2]
    return None


# ------------------------------------------------------------------ mfront
def mfront_generate(c, files, outdir):
    """run /repo's mfront (generic interface).  mfront increments the named semaphore /dev/shm/sem.mfront-<uid> (C46/F13):
    the run is isolated in a private mount namespace when possible, else the semaphore file is saved and restored."""
    c.repo_build(["mfront"])
    exe = os.path.join(vlib.REPO_BUILD, "mfront", "src", "mfront")
    os.makedirs(outdir, exist_ok=True)
    cmd = [exe, "--interface=generic"] + list(files)
    import shlex
    inner = "mount -t tmpfs tmpfs /dev/shm && exec " + " ".join(shlex.quote(x) for x in cmd)
    rc, out, err = c.run(["unshare", "-m", "sh", "-c", inner], cwd=outdir, timeout=300)
    if rc != 0 and ("unshare" in err or "mount" in err or "Operation not permitted" in err):
        # no private namespace available: plain run (vlib.run); the shared semaphore file is never rewritten
        rc, out, err = c.run(cmd, cwd=outdir, timeout=300)
    if rc != 0:
        raise vlib.BuildError("mfront failed on %s:\n%s" % (files, (out + err)[-3000:]))


def stable_dir(tag, files):
    """content-addressed copy of generated text under .cache/C44-gen/: the object cache of vlib is keyed by the compiler flags, which
    contain the include path of the generated code; the per-run scratch directory would defeat it.  files: {relative path: text}"""
    import hashlib, shutil, uuid
    h = hashlib.sha256()
    for k in sorted(files):
        h.update(k.encode() + b"\0" + files[k].encode() + b"\0")
    root = os.path.join(vlib.CACHE, "C44-gen")
    d = os.path.join(root, tag + "-" + h.hexdigest()[:20])
    if not os.path.isdir(d):
        tmp = d + ".tmp" + uuid.uuid4().hex[:8]
        for k, t in files.items():
            os.makedirs(os.path.dirname(os.path.join(tmp, k)), exist_ok=True)
            with open(os.path.join(tmp, k), "w") as f:
                f.write(t)
        try:
            os.rename(tmp, d)
        except OSError:
            shutil.rmtree(tmp, ignore_errors=True)
    return d


def generated_behaviour_sources(c, gdir):
    """the C++ generated for the four reference behaviours of the execution stage / plane-stress trace, with the two TESTING switches"""
    files = {}
    for p in gbexec.PROGRAMS:
        for rel in ("include/TFEL/Material/%s.hxx" % p, "include/TFEL/Material/%sBehaviourData.hxx" % p,
                    "include/TFEL/Material/%sIntegrationData.hxx" % p, "include/MFront/GenericBehaviour/%s-generic.hxx" % p,
                    "src/%s.cxx" % p, "src/%s-generic.cxx" % p):
            files[rel] = open(os.path.join(gdir, rel)).read()
    if os.environ.get("VERIF_C44_SIMULATE_FIX_PSJAC"):
        # what mfront emits with fix_ortho_plane_stress_jacobian.diff (mfront/src/HookeStressPotentialBase.cxx)
        k = "include/TFEL/Material/C44OrthoElastic.hxx"
        t = files[k]
        t2 = re.sub(r"dfetozz_ddeel\(0\)\s*=\s*\(this->(\w+)\(1,0\)\)/\(this->\w+\(1,1\)\);", r"dfetozz_ddeel(0)  = (this->\1(2,0))/(this->\1(2,2));", t)
        t2 = re.sub(r"dfetozz_ddeel\(1\)\s*=\s*\(this->(\w+)\(2,0\)\)/\(this->\w+\(1,1\)\);", r"dfetozz_ddeel(1)  = (this->\1(2,1))/(this->\1(2,2));", t2)
        if t2 != t:
            c.notes.append("TESTING AID ACTIVE: generated C44OrthoElastic.hxx patched as fix_ortho_plane_stress_jacobian.diff would make mfront emit it")
        files[k] = t2
    mut = os.environ.get("VERIF_C44_GEN_MUTATION", "")
    if mut:
        # '<Behaviour>:<old>=><new>': first occurrence of <old> in the generated header of <Behaviour> (simulated generator defect)
        name, rest = mut.split(":", 1)
        old, new = rest.split("=>", 1)
        k = "include/TFEL/Material/%s.hxx" % name
        if k not in files or old not in files[k]:
            raise vlib.BuildError("generated-code mutation: pattern not found in %s" % k)
        files[k] = files[k].replace(old, new, 1)
        c.notes.append("TESTING AID ACTIVE: generated header mutated (%s)" % mut)
    return files


def build_driver(c, sdir, flags):
    """objects of the generated sources (vlib's object cache), 2 compile jobs at a time (shared machine), then the link"""
    order = ["C44IsoElastic", "C44OrthoElastic", "C44Plastic", "C44Norton"]  # the first two are also linked into trace_ps
    assert sorted(order) == sorted(gbexec.PROGRAMS)
    srcs = [os.path.join(sdir, "src", p + ".cxx") for p in order] + [os.path.join(sdir, "src", p + "-generic.cxx") for p in order]
    fl = c.cxx_flags() + ["-O1"] + flags
    with ThreadPoolExecutor(max_workers=2) as ex:
        objs = list(ex.map(lambda f: c._obj(f, fl), srcs + [os.path.join(HERE, "drive.cxx")] + [os.path.join(vlib.REPO, f) for f in gbexec.SUPPORT]))
    exe = os.path.join(c.work, "drive")
    rc, out, err = vlib.sh(["g++"] + objs + ["-o", exe, "-lpthread"], timeout=600)
    if rc != 0:
        raise vlib.BuildError("link of drive failed:\n%s" % err[-4000:])
    return exe


def run_ps_tracer(c, sdir, flags):
    exe = c.cxx("trace_ps", ["trace_ps.cxx", os.path.join(sdir, "src", "C44IsoElastic.cxx"), os.path.join(sdir, "src", "C44OrthoElastic.cxx")],
                gbexec.SUPPORT, flags=flags)
    gen = os.path.join(c.work, "coq", "C44PS_gen.v")
    os.makedirs(os.path.dirname(gen), exist_ok=True)
    rc, out, err = c.run([exe, "gen", gen, str(c.seed % 1000003), str(c.pick(200, 3000))], timeout=600)
    return rc, out, err, gen


def main(c):
    gdir = os.path.join(c.work, "gen")
    progs = ["C44Ortho", "C44TwoGradients"]
    mfront_generate(c, [os.path.join(HERE, "mfront", p + ".mfront") for p in progs + gbexec.PROGRAMS], gdir)
    sdir = stable_dir("beh", generated_behaviour_sources(c, gdir))
    bflags = ["-I" + os.path.join(sdir, "include"), "-I" + os.path.join(os.path.dirname(HERE), "C41")]  # C41: gsym.hxx (prelude of generated-class tracers)
    texts = []
    nfun = 0
    for p in progs:
        fs = extract_rotation_functions(os.path.join(gdir, "src", p + "-generic.cxx"))
        nfun += len(fs)
        texts += [t for (_, t) in fs]
    emitted = "\n".join(texts)
    if os.environ.get("VERIF_C44_SIMULATE_FIX"):
        # what mfront emits with fix_rotate_array_offset.diff: dest + <array offset> + <variable offset>
        emitted2 = re.sub(r"(\{src \+ (idx \* \d+) \+ (\d+)\};\s*auto \w+ = tfel::math::\w+<\d,mfront::gb::real>\(dest \+ )(\d+)\)",
                          lambda m: m.group(1) + m.group(2) + " + " + m.group(4) + ")", emitted)
        if emitted2 != emitted:
            c.notes.append("TESTING AID ACTIVE: emitted text patched as fix_rotate_array_offset.diff would make mfront emit it")
        emitted = emitted2
    mut = os.environ.get("VERIF_C44_EMIT_MUTATION", "")
    if mut:
        old, new = mut.split("=>", 1)
        if old not in emitted:
            raise vlib.BuildError("emit mutation: pattern not found")
        emitted = emitted.replace(old, new, 1)
        c.notes.append("TESTING AID ACTIVE: emitted text mutated (%s)" % mut)
    epath = os.path.join(stable_dir("emitted", {"emitted.hxx": emitted}), "emitted.hxx")
    c.log("mfront emitted %d rotation functions for %s" % (nfun, progs))

    # builds: at most 4 compile jobs at a time (1 + 2 + 1)
    with ThreadPoolExecutor(max_workers=3) as ex:
        f_tr = ex.submit(lambda: c.cxx("trace", ["trace.cxx"], SUPPORT, flags=['-DC44_EMITTED="%s"' % epath]))
        f_drv = ex.submit(build_driver, c, sdir, bflags)
        f_ps = ex.submit(run_ps_tracer, c, sdir, bflags)
        exe, drv, (ps_rc, ps_out, ps_err, ps_gen) = f_tr.result(), f_drv.result(), f_ps.result()
    c.log("tracers and driver built")
    gen = os.path.join(c.work, "coq", "C44_gen.v")
    os.makedirs(os.path.dirname(gen), exist_ok=True)
    ncases = c.pick(120, 2000)
    nrun = c.pick(40, 400)
    rc, out, err = c.run([exe, "gen", gen, str(c.seed % 1000003), str(ncases), str(nrun)], timeout=900)
    if rc != 0:
        c.report("trace", "tracer failed on /repo's headers / emitted code: " + (out[-300:] + err[-500:]), {"stderr": err[-3000:]}, False)
        return
    c.trusted("engine S tracer (cxx/sym/sym.hxx, symtfel.hxx), g++ template instantiation with symv::Sym",
              "textual extraction of the emitted <f>_rotate* functions (props/C44/emit.py) and the substitution mfront::gb::real := Sym",
              "the mfront executable of /repo/_build (rebuilt incrementally from the working tree) for the emitted code")
    # ---- agreement Sym vs double, and the independent statement on the double executions
    bad_ops = {}
    nspec = 0
    for l in out.splitlines():
        t = l.split()
        if t[0] == "AGREE":
            kv = dict(x.split("=") for x in t[2:])
            c.count(int(kv["n"]), ("agree", t[1]))
            if int(kv["bad"]) != 0:
                c.report("agree:" + t[1], "traced DAG and double instantiation disagree: " + l, {"line": l, "seed": c.seed}, False)
        elif t[0] == "RUN":
            op = t[1]
            io = t.index("out")
            x = [float(v) for v in t[3:io]]
            y = [float(v) for v in t[io + 1:]]
            ex = expected(op, x)
            msg = extra_checks(op, x, y)
            if ex is not None:
                nspec += 1
                c.count(1, ("spec", op, tuple(x)))
                scale = max([abs(v) for v in ex] + [abs(v) for v in y] + [1e-300])
                if len(ex) != len(y):
                    msg = "result has %d components, expected %d" % (len(y), len(ex))
                else:
                    for k, (a, b) in enumerate(zip(y, ex)):
                        if not abs(a - b) <= 1e-9 * scale:
                            msg = "component %d is %.17g, expected %.17g" % (k, a, b)
                            break
                if nspec % 97 == 1:
                    c.sample({"op": op, "in": x[:12], "out": y[:6]})
            if msg and op not in bad_ops:
                bad_ops[op] = msg
                fam = "emitted:" if op.startswith(("gen_", "tg_")) else "spec:"
                c.report(fam + op, "%s on the double instantiation: %s (input %s)" % (op, msg, " ".join("%.6g" % v for v in x)),
                         {"op": op, "input": x, "observed": y, "expected": ex, "how": "props/C44/trace.cxx RUN line, statement check.py:expected"},
                         True)
    c.coverage["rule"] = ("seeded inputs per operation: strains at scales 1e-4..10 (some with zeroed components), rotation matrices "
                          "(1/3 arbitrary 3x3, 1/3 in-plane rotations, 1/3 general rotations), admissible elastic constants; "
                          "every RUN compared with a closed-form Python statement (Q^T e Q, Q s Q^T, index-notation rotation, Hooke, inverse of the documented compliance)")

    c.log("tracer of the rotation functions / Hooke responses judged")
    # ---- (c) tracer of the generated plane-stress class: agreement Sym vs double
    ps_ok = ps_rc == 0
    if not ps_ok:
        c.report("trace:pstress-class", "tracer of the generated C44IsoElastic classes failed (the generated class no longer instantiates / runs with Sym): "
                 + ps_err[-600:], {"stderr": ps_err[-3000:]}, False)
    else:
        for l in ps_out.splitlines():
            t = l.split()
            if t and t[0] == "AGREE":
                kv = dict(x.split("=") for x in t[3:])
                c.count(int(kv["n"]), ("agree", "ps", t[2]))
                if int(kv["bad"]) != 0 or int(kv["n"]) == 0:
                    ps_ok = False
                    c.report("agree:ps:" + t[2], "traced DAG and double instantiation of the generated class disagree (or no case ran): " + l, {"line": l, "seed": c.seed}, False)
        c.trusted("props/C41/gsym.hxx prelude (std::is_arithmetic<Sym> etc.) and `#define private public` around the generated header (trace_ps.cxx)")

    # ---- (a)(b) EXECUTION stage through the generic interface (not a proof)
    try:
        st = gbexec.run(c, drv, ["iso", "norton", "plastic", "ortho"], c.pick(2, 12))
        c.notes.append("EXECUTION stage (not a proof): %d paths / calls of the generated extern \"C\" entry points (C44IsoElastic, C44Norton, C44Plastic, "
                       "C44OrthoElastic in Tridimensional, PlaneStrain, GeneralisedPlaneStrain, Axisymmetrical, PlaneStress), %d comparisons with independent "
                       "Python statements, %d steps with plastic flow; worst difference / tolerance among the passing comparisons, per class: %s" % (
                           st["paths"], st["comparisons"], st["plastic_steps"], {k: float("%.2g" % v) for k, v in st["worst_over_tolerance"].items()}))
    except (RuntimeError, AssertionError, IndexError, ValueError) as e:
        c.report("exec:driver", "execution driver failed or printed something unexpected: %s" % (str(e)[-600:],), {"error": str(e)[-3000:]}, False)
    c.trusted("g++ -O1 on the generated sources, props/C44/drive.cxx (fills mfront_gb_BehaviourData, carries the state from step to step)")
    c.coverage["rule"] += ("; EXECUTION stage: seeded strain paths (elastic 2 steps, Norton 4 steps of 5 s, plasticity 4 steps up to 0.4% with partial unloading) "
                           "x seeded rotations (quaternion in 3D, angle about z in plane hypotheses); loadings uniaxial x, equibiaxial, shear xy, random in-plane, random "
                           "with e_zz in every hypothesis that can represent them; plane stress axial strain re-imposed in generalised plane strain and 3D")

    c.log("execution stage done")
    # ---- Coq
    # defect F-C44b (orthotropic plane-stress jacobian) observed by the execution stage -> the refutation is compiled instead of the positive theorem
    ps_finding = ORTHO_PS_KEY in c.known_hits or any(v[0] == ORTHO_PS_KEY for v in c.violations)
    ps_chain = [ps_gen, "C44PSStatements.v", "C44ProofsPS.v", "Properties_C44_pstress.v"] + (
        ["C44ProofsPSOrthoRefuted.v", "Properties_C44_pstress_ortho_refuted.v"] if ps_finding else ["C44ProofsPSOrtho.v", "Properties_C44_pstress_ortho.v"])
    if ps_finding:
        c.notes.append("orthotropic plane-stress jacobian defect (F-C44b) observed by the execution stage: Properties_C44_pstress_ortho_refuted.v selected (see known_findings.json)")
    finding = all(k.split(":", 1)[1] in bad_ops for k in ARRAY_FINDING_KEYS)
    common = [gen, "C44Spec.v", "C44Nsatz.v", "C44Tactics.v", "C44Statements.v"]
    # the plane-stress chain is independent of the first-round files: it is compiled alongside the common files (2 coqc at a time),
    # the four proof files afterwards (4 at a time)
    with ThreadPoolExecutor(max_workers=1) as ex_ps:
        f_ps = ex_ps.submit(lambda: c.coq(ps_chain, timeout=900)) if ps_rc == 0 else None
        r0 = c.coq(common, timeout=900)
        r_ps = f_ps.result() if f_ps else None
    c.log("coq: common files and plane-stress chain done; seconds per file: %s" % (
        [(os.path.basename(str(f[0])), round(f[2])) for r in (r0, r_ps) if r is not None for f in r.files],))
    results = [r0]
    if r0.ok:
        par = ["C44ProofsA.v", "C44ProofsB.v", "C44ProofsOrth.v"]
        if not finding:
            par.append("C44ProofsArr2.v")
        with ThreadPoolExecutor(max_workers=4) as ex:
            rs = list(ex.map(lambda f: c.coq([f], timeout=1500), par))
        c.log("coq: proof files done")
        results += rs
        if all(r.ok for r in rs):
            last = ["Properties_C44.v", "Properties_C44_arrays_refuted.v" if finding else "Properties_C44_arrays.v"]
            results.append(c.coq(last, timeout=900))
            if not c.quick() and results[-1].ok:
                with ThreadPoolExecutor(max_workers=2) as ex:
                    rs = list(ex.map(lambda f: c.coq([f], timeout=3000), ["C44ProofsRot4.v", "C44ProofsOrth3.v"]))
                results += rs
                if all(r.ok for r in rs):
                    results.append(c.coq(["Properties_C44_full.v"], timeout=900))
        else:
            # the Properties files cannot be compiled: their theorems are undischarged obligations
            txt = open(os.path.join(HERE, "coq", "Properties_C44.v")).read()
            c.coverage["obligations"] += len(re.findall(r"^Theorem ", txt, flags=re.M))
    if r_ps is None:
        for f in ps_chain:
            if str(f).startswith("Properties"):
                c.coverage["obligations"] += len(re.findall(r"^Theorem ", open(os.path.join(HERE, "coq", f)).read(), flags=re.M))
    elif not r_ps.ok:
        # the chain stops at the first failing file: the theorems of the Properties files after it are undischarged obligations
        names = [os.path.basename(str(f)) for f in ps_chain]
        first = min([names.index(os.path.basename(f[0])) for f in r_ps.failed if os.path.basename(f[0]) in names] or [0])
        for f in names[first + 1:]:
            if f.startswith("Properties"):
                c.coverage["obligations"] += len(re.findall(r"^Theorem ", open(os.path.join(HERE, "coq", f)).read(), flags=re.M))
        # failing-input search for the plane-stress theorems: the execution stage above runs the very same generated class
        # (keys exec:pstress:iso*, exec:hyp:iso*); if it reported nothing, the broken obligation itself is reported
        if any(v[0].startswith(("exec:pstress:iso", "exec:pstress-tangent:iso", "exec:frame:iso:pstress")) for v in c.violations):
            c.notes.append("plane-stress proof obligations failed: %s; concrete failing inputs reported by the execution stage" % [(f[0], f[2]) for f in r_ps.failed])
            for f in r_ps.failed:
                c.notes.append("failed: %s line %s %s: %s" % (f[0], f[1], f[2], f[3][-300:]))
        else:
            c.coq_failures(r_ps, None)
    if finding:
        c.notes.append("array-rotation defect observed: Properties_C44_arrays_refuted.v selected (see known_findings.json)")
    for r in results:
        if not r.ok:
            if c.violations and any(v[3] for v in c.violations):
                c.notes.append("proof obligations failed: %s; concrete failing inputs reported above" % [(f[0], f[2]) for f in r.failed])
                # still make the failed obligation visible in the evidence
                for f in r.failed:
                    c.notes.append("failed: %s line %s %s: %s" % (f[0], f[1], f[2], f[3][-300:]))
            else:
                c.coq_failures(r, None)


guarded_main("C44", main)

"""C44 -- behaviour responses are frame- and hypothesis-consistent (partial: rotation helpers of the generic interface and
Hooke-type responses; see manifest.json / NOTES.md for what is not covered).
Engine S (+G for the emitted rotation functions): /repo's mfront generates two orthotropic reference behaviours through the
generic interface; the text of the emitted <f>_rotate* functions is cut out and traced verbatim with mfront::gb::real := Sym,
together with st2tost2::fromRotationMatrix, change_basis (stensor, st2tost2) and the responses D*e built with
computeIsotropicStiffnessTensor / computeOrthotropicStiffnessTensor in every modelling hypothesis.  Coq proves that they are
Q^T e Q, Q s Q^T, the fourth-order rotation in index notation, hypothesis consistency, sigma_zz = 0 in plane stress, isotropy.
The same code instantiated with double is compared with the traced DAG (agreement) and with an independent Python statement
of each property (failing-input search)."""
import math, os, re, sys
from concurrent.futures import ThreadPoolExecutor
import vlib
from vlib import guarded_main

HERE = os.path.dirname(os.path.abspath(__file__))
sys.path.insert(0, HERE)
from emit import extract_rotation_functions  # noqa: E402

SUPPORT = ["src/Exception/ContractViolation.cxx"]
SS = {1: 3, 2: 4, 3: 6}
PAIRS = [(0, 0), (1, 1), (2, 2), (0, 1), (0, 2), (1, 2)]
HYPN = {"tri": 3, "pstrain": 2, "gps": 2, "axis": 2, "pstress": 2, "agpstrain": 1}
R2 = math.sqrt(2.0)
ARRAY_FINDING_KEYS = ("emitted:tg_arrg_pstrain", "emitted:tg_arrf_pstrain")


# ------------------------------------------------------------------ independent numerical statements (plain Python)
def full_s(N, v):
    m = [[0.0] * 3 for _ in range(3)]
    for k in range(SS[N]):
        i, j = PAIRS[k]
        x = v[k] if i == j else v[k] / R2
        m[i][j] = m[j][i] = x
    return m


def flat_s(N, m):
    return [m[i][j] * (1.0 if i == j else R2) for (i, j) in PAIRS[:SS[N]]]


def full_r(N, v):
    I = [[1.0 if i == j else 0.0 for j in range(3)] for i in range(3)]
    if N == 1:
        return I
    if N == 2:
        for i in range(2):
            for j in range(2):
                I[i][j] = v[3 * i + j]
        return I
    return [[v[3 * i + j] for j in range(3)] for i in range(3)]


def tr(r):
    return [[r[j][i] for j in range(3)] for i in range(3)]


def rot2(r, a):  # r^T a r
    return [[sum(r[m][i] * r[n][j] * a[m][n] for m in range(3) for n in range(3)) for j in range(3)] for i in range(3)]


def full_A(N, v):
    n = SS[N]
    c = [[[[0.0] * 3 for _ in range(3)] for _ in range(3)] for _ in range(3)]
    for I in range(n):
        for J in range(n):
            i, j = PAIRS[I]
            k, l = PAIRS[J]
            x = v[I * n + J] / ((1.0 if i == j else R2) * (1.0 if k == l else R2))
            for (a, b) in {(i, j), (j, i)}:
                for (p, q) in {(k, l), (l, k)}:
                    c[a][b][p][q] = x
    return c


def flat_A(N, c):
    n = SS[N]
    out = []
    for I in range(n):
        for J in range(n):
            i, j = PAIRS[I]
            k, l = PAIRS[J]
            out.append(c[i][j][k][l] * (1.0 if i == j else R2) * (1.0 if k == l else R2))
    return out


def rot4(r, c):
    rg = range(3)
    return [[[[sum(r[m][i] * r[n][j] * r[p][k] * r[q][l] * c[m][n][p][q] for m in rg for n in rg for p in rg for q in rg)
               for l in rg] for k in rg] for j in rg] for i in rg]


def mul42(c, e):
    return [[sum(c[i][j][k][l] * e[k][l] for k in range(3) for l in range(3)) for j in range(3)] for i in range(3)]


def hooke(E, nu, e):
    la = nu * E / ((1 + nu) * (1 - 2 * nu))
    mu = E / (2 * (1 + nu))
    t = e[0][0] + e[1][1] + e[2][2]
    return [[la * t * (1.0 if i == j else 0.0) + 2 * mu * e[i][j] for j in range(3)] for i in range(3)]


def ortho_compliance_inverse(p, e6):
    """sigma (Mandel, 6) with S(p) : sigma = e, material axes = storage axes"""
    E1, E2, E3, n12, n23, n13, G12, G23, G13 = p
    S = [[1 / E1, -n12 / E1, -n13 / E1], [-n12 / E1, 1 / E2, -n23 / E2], [-n13 / E1, -n23 / E2, 1 / E3]]
    # solve the 3x3 system by Cramer
    def det(m):
        return (m[0][0] * (m[1][1] * m[2][2] - m[1][2] * m[2][1]) - m[0][1] * (m[1][0] * m[2][2] - m[1][2] * m[2][0])
                + m[0][2] * (m[1][0] * m[2][1] - m[1][1] * m[2][0]))
    d = det(S)
    sig = []
    for k in range(3):
        M = [row[:] for row in S]
        for i in range(3):
            M[i][k] = e6[i]
        sig.append(det(M) / d)
    return sig + [2 * G12 * e6[3], 2 * G13 * e6[4], 2 * G23 * e6[5]]


def expected(op, x):
    """the value the operation must return on input x (None: no independent statement for this operation)"""
    m = re.match(r"(fromrot|cb2|cb4|app)_(\d)$", op)
    if m:
        k, N = m.group(1), int(m.group(2))
        n = SS[N]
        if k == "fromrot":
            r = full_r(N, x)
            c = [[[[(r[kk][i] * r[l][j] + r[l][i] * r[kk][j]) / 2 for l in range(3)] for kk in range(3)] for j in range(3)] for i in range(3)]
            return flat_A(N, c)
        if k == "cb2":
            return flat_s(N, rot2(full_r(N, x[n:]), full_s(N, x[:n])))
        if k == "cb4":
            return flat_A(N, rot4(full_r(N, x[n * n:]), full_A(N, x[:n * n])))
        return flat_s(N, mul42(full_A(N, x[:n * n]), full_s(N, x[n * n:])))
    m = re.match(r"gen_rot([gfk])_(\w+)$", op)
    if m:
        k, N = m.group(1), HYPN[m.group(2)]
        n = SS[N]
        if k == "g":
            return flat_s(N, rot2(full_r(N, x[n:]), full_s(N, x[:n])))
        if k == "f":
            return flat_s(N, rot2(tr(full_r(N, x[n:])), full_s(N, x[:n])))
        return flat_A(N, rot4(tr(full_r(N, x[n * n:])), full_A(N, x[:n * n])))
    m = re.match(r"(gen|tg)_(arr|rot)([gfk])_pstrain$", op)
    if m:
        k = m.group(3)
        size = 16 if k == "k" else 4
        nin = len(x) - 9
        r = full_r(2, x[nin:])
        out = []
        for o in range(0, nin, size):
            if k == "g":
                out += flat_s(2, rot2(r, full_s(2, x[o:o + 4])))
            elif k == "f":
                out += flat_s(2, rot2(tr(r), full_s(2, x[o:o + 4])))
            else:
                out += flat_A(2, rot4(tr(r), full_A(2, x[o:o + 16])))
        return out
    m = re.match(r"isosig_(\w+)$", op)
    if m:
        tag = m.group(1)
        E, nu, e = x[0], x[1], x[2:]
        if tag == "pstress_alt":
            ezz = -nu / (1 - nu) * (e[0] + e[1])
            s = flat_s(3, hooke(E, nu, full_s(3, [e[0], e[1], ezz, e[3], 0, 0])))
            return [s[0], s[1], 0.0, s[3]]
        N = HYPN[tag]
        return flat_s(3, hooke(E, nu, full_s(3, list(e) + [0.0] * (6 - SS[N]))))[:SS[N]]
    m = re.match(r"ortsig_(tri|pstrain|gps|axis|agpstrain)$", op)
    if m:
        N = HYPN[m.group(1)]
        return ortho_compliance_inverse(x[:9], list(x[9:]) + [0.0] * (6 - SS[N]))[:SS[N]]
    return None


def extra_checks(op, x, y):
    """properties that are not `output = closed form`: sigma_zz = 0 in plane stress"""
    if op in ("isosig_pstress_alt", "ortsig_pstress_alt", "ortsig_pstress_alt_pipe"):
        scale = max(abs(v) for v in y) or 1.0
        if abs(y[2]) > 1e-12 * scale:
            return "sigma_zz = %g is not 0 in plane stress" % y[2]
    return None


# ------------------------------------------------------------------ mfront
def mfront_generate(c, files, outdir):
    """run /repo's mfront (generic interface).  mfront increments the named semaphore /dev/shm/sem.mfront-<uid> (C46/F13):
    the run is isolated in a private mount namespace when possible, else the semaphore file is saved and restored."""
    c.repo_build(["mfront"])
    exe = os.path.join(vlib.REPO_BUILD, "mfront", "src", "mfront")
    os.makedirs(outdir, exist_ok=True)
    cmd = [exe, "--interface=generic"] + list(files)
    import shlex
    inner = "mount -t tmpfs tmpfs /dev/shm && exec " + " ".join(shlex.quote(x) for x in cmd)
    rc, out, err = c.run(["unshare", "-m", "sh", "-c", inner], cwd=outdir, timeout=300)
    if rc != 0 and ("unshare" in err or "mount" in err or "Operation not permitted" in err):
        # no private namespace available: plain run (vlib.run); the shared semaphore file is never rewritten
        rc, out, err = c.run(cmd, cwd=outdir, timeout=300)
    if rc != 0:
        raise vlib.BuildError("mfront failed on %s:\n%s" % (files, (out + err)[-3000:]))


def main(c):
    gdir = os.path.join(c.work, "gen")
    progs = ["C44Ortho", "C44TwoGradients"]
    mfront_generate(c, [os.path.join(HERE, "mfront", p + ".mfront") for p in progs], gdir)
    texts = []
    nfun = 0
    for p in progs:
        fs = extract_rotation_functions(os.path.join(gdir, "src", p + "-generic.cxx"))
        nfun += len(fs)
        texts += [t for (_, t) in fs]
    emitted = "\n".join(texts)
    if os.environ.get("VERIF_C44_SIMULATE_FIX"):
        # what mfront emits with fix_rotate_array_offset.diff: dest + <array offset> + <variable offset>
        emitted2 = re.sub(r"(\{src \+ (idx \* \d+) \+ (\d+)\};\s*auto \w+ = tfel::math::\w+<\d,mfront::gb::real>\(dest \+ )(\d+)\)",
                          lambda m: m.group(1) + m.group(2) + " + " + m.group(4) + ")", emitted)
        if emitted2 != emitted:
            c.notes.append("TESTING AID ACTIVE: emitted text patched as fix_rotate_array_offset.diff would make mfront emit it")
        emitted = emitted2
    mut = os.environ.get("VERIF_C44_EMIT_MUTATION", "")
    if mut:
        old, new = mut.split("=>", 1)
        if old not in emitted:
            raise vlib.BuildError("emit mutation: pattern not found")
        emitted = emitted.replace(old, new, 1)
        c.notes.append("TESTING AID ACTIVE: emitted text mutated (%s)" % mut)
    epath = os.path.join(c.work, "emitted.hxx")
    with open(epath, "w") as f:
        f.write(emitted)
    c.log("mfront emitted %d rotation functions for %s" % (nfun, progs))

    exe = c.cxx("trace", ["trace.cxx"], SUPPORT, flags=['-DC44_EMITTED="%s"' % epath])
    gen = os.path.join(c.work, "coq", "C44_gen.v")
    os.makedirs(os.path.dirname(gen), exist_ok=True)
    ncases = c.pick(120, 2000)
    nrun = c.pick(40, 400)
    rc, out, err = c.run([exe, "gen", gen, str(c.seed % 1000003), str(ncases), str(nrun)], timeout=900)
    if rc != 0:
        c.report("trace", "tracer failed on /repo's headers / emitted code: " + (out[-300:] + err[-500:]), {"stderr": err[-3000:]}, False)
        return
    c.trusted("engine S tracer (cxx/sym/sym.hxx, symtfel.hxx), g++ template instantiation with symv::Sym",
              "textual extraction of the emitted <f>_rotate* functions (props/C44/emit.py) and the substitution mfront::gb::real := Sym",
              "the mfront executable of /repo/_build (rebuilt incrementally from the working tree) for the emitted code")
    # ---- agreement Sym vs double, and the independent statement on the double executions
    bad_ops = {}
    nspec = 0
    for l in out.splitlines():
        t = l.split()
        if t[0] == "AGREE":
            kv = dict(x.split("=") for x in t[2:])
            c.count(int(kv["n"]), ("agree", t[1]))
            if int(kv["bad"]) != 0:
                c.report("agree:" + t[1], "traced DAG and double instantiation disagree: " + l, {"line": l, "seed": c.seed}, False)
        elif t[0] == "RUN":
            op = t[1]
            io = t.index("out")
            x = [float(v) for v in t[3:io]]
            y = [float(v) for v in t[io + 1:]]
            ex = expected(op, x)
            msg = extra_checks(op, x, y)
            if ex is not None:
                nspec += 1
                c.count(1, ("spec", op, tuple(x)))
                scale = max([abs(v) for v in ex] + [abs(v) for v in y] + [1e-300])
                if len(ex) != len(y):
                    msg = "result has %d components, expected %d" % (len(y), len(ex))
                else:
                    for k, (a, b) in enumerate(zip(y, ex)):
                        if not abs(a - b) <= 1e-9 * scale:
                            msg = "component %d is %.17g, expected %.17g" % (k, a, b)
                            break
                if nspec % 97 == 1:
                    c.sample({"op": op, "in": x[:12], "out": y[:6]})
            if msg and op not in bad_ops:
                bad_ops[op] = msg
                fam = "emitted:" if op.startswith(("gen_", "tg_")) else "spec:"
                c.report(fam + op, "%s on the double instantiation: %s (input %s)" % (op, msg, " ".join("%.6g" % v for v in x)),
                         {"op": op, "input": x, "observed": y, "expected": ex, "how": "props/C44/trace.cxx RUN line, statement check.py:expected"},
                         True)
    c.coverage["rule"] = ("seeded inputs per operation: strains at scales 1e-4..10 (some with zeroed components), rotation matrices "
                          "(1/3 arbitrary 3x3, 1/3 in-plane rotations, 1/3 general rotations), admissible elastic constants; "
                          "every RUN compared with a closed-form Python statement (Q^T e Q, Q s Q^T, index-notation rotation, Hooke, inverse of the documented compliance)")

    # ---- Coq
    finding = all(k.split(":", 1)[1] in bad_ops for k in ARRAY_FINDING_KEYS)
    common = [gen, "C44Spec.v", "C44Nsatz.v", "C44Tactics.v", "C44Statements.v"]
    r0 = c.coq(common, timeout=900)
    results = [r0]
    if r0.ok:
        par = ["C44ProofsA.v", "C44ProofsB.v", "C44ProofsOrth.v"]
        if not finding:
            par.append("C44ProofsArr2.v")
        with ThreadPoolExecutor(max_workers=len(par)) as ex:
            rs = list(ex.map(lambda f: c.coq([f], timeout=1500), par))
        results += rs
        if all(r.ok for r in rs):
            last = ["Properties_C44.v", "Properties_C44_arrays_refuted.v" if finding else "Properties_C44_arrays.v"]
            results.append(c.coq(last, timeout=900))
            if not c.quick() and results[-1].ok:
                with ThreadPoolExecutor(max_workers=2) as ex:
                    rs = list(ex.map(lambda f: c.coq([f], timeout=3000), ["C44ProofsRot4.v", "C44ProofsOrth3.v"]))
                results += rs
                if all(r.ok for r in rs):
                    results.append(c.coq(["Properties_C44_full.v"], timeout=900))
        else:
            # the Properties files cannot be compiled: their theorems are undischarged obligations
            txt = open(os.path.join(HERE, "coq", "Properties_C44.v")).read()
            c.coverage["obligations"] += len(re.findall(r"^Theorem ", txt, flags=re.M))
    if finding:
        c.notes.append("array-rotation defect observed: Properties_C44_arrays_refuted.v selected (see known_findings.json)")
    for r in results:
        if not r.ok:
            if c.violations and any(v[3] for v in c.violations):
                c.notes.append("proof obligations failed: %s; concrete failing inputs reported above" % [(f[0], f[2]) for f in r.failed])
                # still make the failed obligation visible in the evidence
                for f in r.failed:
                    c.notes.append("failed: %s line %s %s: %s" % (f[0], f[1], f[2], f[3][-300:]))
            else:
                c.coq_failures(r, None)


guarded_main("C44", main)

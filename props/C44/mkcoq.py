#!/usr/bin/env python3
"""Typing aid (NOT run by the check): writes coq/C44Statements.v, coq/C44Proofs*.v, coq/Properties_C44*.v.
The statements quantify over the individual reals that are the parameters of the traced definitions."""
import os

HERE = os.path.dirname(os.path.abspath(__file__))
S = {1: 3, 2: 4, 3: 6}
HYP = {"tri": 3, "pstrain": 2, "gps": 2, "axis": 2, "pstress": 2, "agpstrain": 1}


def vs(p, n):
    return ["%s%d" % (p, i) for i in range(n)]


def lst(xs):
    return "[" + "; ".join(xs) + "]"


def app(f, *groups):
    return "(" + f + " " + " ".join(" ".join(g) for g in groups) + ")"


def nths(name, n):
    return ["(nthR %s %d)" % (name, i) for i in range(n)]


stmts = []   # (name, file, tier, statement text, proof text)


def st(name, grp, text, proof, tier="quick"):
    stmts.append((name, grp, tier, text, proof))


def fa(*groups):
    v = [x for g in groups for x in g]
    return "forall %s : R,\n  " % " ".join(v)


ORTH_PROOF = None

# ---------------------------------------------------------------- (a) rotation helpers
for N in (1, 2, 3):
    n = S[N]
    r, s, c = vs("r", 9), vs("s", n), vs("c", n * n)
    R = "(full_r %d %s)" % (N, lst(r))
    st("fromrot_%d_index" % N, "rot", fa(r) + "fromrot_%d %s = flat_A %d (Rot4s %s)" % (N, " ".join(r), N, R),
       "prove fromrot_%d." % N)
    st("fromrot_%d_acts" % N, "rot",
       fa(r, s) + "let m := fromrot_%d %s in\n  %s = flat_s %d (rot2 %s (full_s %d %s))" % (
           N, " ".join(r), app("app_%d" % N, nths("m", n * n), s), N, R, N, lst(s)),
       "intros; unfold app_%d, fromrot_%d; spec_red; list_eq." % (N, N))
    st("cb2_%d_meaning" % N, "rot", fa(s, r) + "%s = flat_s %d (rot2 %s (full_s %d %s))" % (app("cb2_%d" % N, s, r), N, R, N, lst(s)),
       "prove cb2_%d." % N)
    st("cb4_%d_index" % N, "rot4_%d" % N, fa(c, r) + "%s = flat_A %d (rot4 %s (full_A %d %s))" % (app("cb4_%d" % N, c, r), N, R, N, lst(c)),
       "prove cb4_%d." % N, "thorough" if N == 3 else "quick")
    st("app_%d_meaning" % N, "rot", fa(c, s) + "%s = flat_s %d (mul42 (full_A %d %s) (full_s %d %s))" % (
        app("app_%d" % N, c, s), N, N, lst(c), N, lst(s)), "prove app_%d." % N)

# ---------------------------------------------------------------- emitted rotation functions (generic interface)
TR = lambda r: [r[3 * j + i] for i in range(3) for j in range(3)]
for h in ("tri", "pstrain", "gps", "axis", "pstress", "agpstrain"):
    N = HYP[h]
    n = S[N]
    r, s, c = vs("r", 9), vs("s", n), vs("c", n * n)
    R = "(full_r %d %s)" % (N, lst(r))
    st("gen_rotg_%s_meaning" % h, "gen", fa(s, r) + "%s = flat_s %d (rot2 %s (full_s %d %s))" % (
        app("gen_rotg_" + h, s, r), N, R, N, lst(s)), "prove gen_rotg_%s." % h)
    st("gen_rotf_%s_meaning" % h, "gen", fa(s, r) + "%s = flat_s %d (rot2 (tr2 %s) (full_s %d %s))" % (
        app("gen_rotf_" + h, s, r), N, R, N, lst(s)), "prove gen_rotf_%s." % h)
    if h in ("gps", "axis", "pstress"):
        st("gen_rotk_%s_same_as_pstrain" % h, "gen", fa(c, r) + "%s = %s" % (app("gen_rotk_" + h, c, r), app("gen_rotk_pstrain", c, r)),
           "intros; unfold gen_rotk_%s, gen_rotk_pstrain; spec_red; list_eq." % h)
    elif N < 3:
        st("gen_rotk_%s_index" % h, "gen", fa(c, r) + "%s = flat_A %d (rot4 (tr2 %s) (full_A %d %s))" % (
            app("gen_rotk_" + h, c, r), N, R, N, lst(c)), "prove gen_rotk_%s." % h)
    else:
        st("gen_rotk_%s_is_change_basis" % h, "gen", fa(c, r) + "%s = %s" % (app("gen_rotk_" + h, c, r), app("cb4_3", c, TR(r))),
           "intros; unfold gen_rotk_%s, cb4_3; spec_red; list_eq." % h)
        st("gen_rotk_%s_index" % h, "rot4_3", fa(c, r) + "%s = flat_A %d (rot4 (tr2 %s) (full_A %d %s))" % (
            app("gen_rotk_" + h, c, r), N, R, N, lst(c)), "prove gen_rotk_%s." % h, "thorough")
# frame consistency of the three emitted functions (any matrix rv): forces(C : gradients(e)) = blocks(C) : e
for h in ("pstrain", "axis", "agpstrain"):
    N = HYP[h]
    n = S[N]
    r, e, c = vs("r", 9), vs("e", n), vs("c", n * n)
    st("gen_%s_global_response" % h, "gen",
       fa(c, e, r) + "let em := %s in\n  let sm := %s in\n  let cg := %s in\n  %s = %s" % (
           app("gen_rotg_" + h, e, r), app("app_%d" % N, c, nths("em", n)), app("gen_rotk_" + h, c, r),
           app("gen_rotf_" + h, nths("sm", n), r), app("app_%d" % N, nths("cg", n * n), e)),
       "intros; unfold gen_rotg_%s, gen_rotf_%s, gen_rotk_%s, app_%d; spec_red; list_eq." % (h, h, h, N))
# round trip for orthogonal rv (2D: in-plane rotation)
for h in ("tri", "pstrain"):
    N = HYP[h]
    n = S[N]
    r, e = vs("r", 9), vs("e", n)
    st("gen_%s_round_trip" % h, "orth" if h == "pstrain" else "orth3",
       fa(e, r) + "orth (full_r %d %s) ->\n  let em := %s in\n  %s = %s" % (
           N, lst(r), app("gen_rotg_" + h, e, r), app("gen_rotf_" + h, nths("em", n), r), lst(e)),
       "intros until 0; intro H; orth_hyps H; unfold gen_rotg_%s, gen_rotf_%s; spec_red; list_eq_orth." % (h, h))

# arrays of integration points (two points), PlaneStrain: C44Ortho (one gradient) and C44TwoGradients (two)
def arr_spec2(N, R, src, offs, n):
    return "concat (map (fun o => flat_s %d (rot2 %s (full_s %d (slice %s o %d)))) %s)" % (N, R, N, src, n, lst([str(o) + "%nat" for o in offs]))


def arr_spec4(N, R, src, offs, n):
    return "concat (map (fun o => flat_A %d (rot4 %s (full_A %d (slice %s o %d)))) %s)" % (N, R, N, src, n, lst([str(o) + "%nat" for o in offs]))


r = vs("r", 9)
R2 = "(full_r 2 %s)" % lst(r)
for (pre, ng, grp) in (("gen", 1, "arr"), ("tg", 2, "arr2")):
    # single point, all variables of the behaviour
    if ng == 2:
        s, c = vs("s", 8), vs("c", 32)
        st("tg_rotg_pstrain_meaning", "arr", fa(s, r) + "%s = %s" % (app("tg_rotg_pstrain", s, r), arr_spec2(2, R2, lst(s), [0, 4], 4)),
           "prove tg_rotg_pstrain.")
        st("tg_rotf_pstrain_meaning", "arr", fa(s, r) + "%s = %s" % (app("tg_rotf_pstrain", s, r), arr_spec2(2, "(tr2 %s)" % R2, lst(s), [0, 4], 4)),
           "prove tg_rotf_pstrain.")
        st("tg_rotk_pstrain_index", "rot4_3", fa(c, r) + "%s = %s" % (app("tg_rotk_pstrain", c, r), arr_spec4(2, "(tr2 %s)" % R2, lst(c), [0, 16], 16)),
           "prove tg_rotk_pstrain.")
    s, c = vs("s", 8 * ng), vs("c", 32 * ng)
    offs2 = [4 * k for k in range(2 * ng)]
    offs4 = [16 * k for k in range(2 * ng)]
    st("%s_arrg_pstrain_meaning" % pre, grp, fa(s, r) + "%s = %s" % (app(pre + "_arrg_pstrain", s, r), arr_spec2(2, R2, lst(s), offs2, 4)),
       "prove %s_arrg_pstrain." % pre)
    st("%s_arrf_pstrain_meaning" % pre, grp, fa(s, r) + "%s = %s" % (app(pre + "_arrf_pstrain", s, r), arr_spec2(2, "(tr2 %s)" % R2, lst(s), offs2, 4)),
       "prove %s_arrf_pstrain." % pre)
    st("%s_arrk_pstrain_index" % pre, "arr" if ng == 1 else "rot4_3", fa(c, r) + "%s = %s" % (app(pre + "_arrk_pstrain", c, r), arr_spec4(2, "(tr2 %s)" % R2, lst(c), offs4, 16)),
       "prove %s_arrk_pstrain." % pre)

# ---------------------------------------------------------------- (b) Hooke-type responses
E, nu = ["young"], ["nu"]
ISO_H = "1 + nu <> 0 -> 1 - 2 * nu <> 0 ->\n  "
LA, MU = "(lame_lambda young nu)", "(lame_mu young nu)"
e6 = vs("e", 6)
st("isoD_tri_meaning", "iso", fa(E, nu) + ISO_H + "isoD_tri young nu = flat_A 3 (hooke4 %s %s)" % (LA, MU), "prove isoD_tri.")
st("isosig_tri_meaning", "iso", fa(E, nu, e6) + ISO_H + "%s = flat_s 3 (hooke %s %s (full_s 3 %s))" % (
    app("isosig_tri", E, nu, e6), LA, MU, lst(e6)), "prove isosig_tri.")
for h in ("pstrain", "gps", "axis", "pstress", "agpstrain"):
    n = S[HYP[h]]
    e = vs("e", n)
    pad = e + ["0"] * (6 - n)
    st("isosig_%s_is_3D_restricted" % h, "iso",
       fa(E, nu, e) + ISO_H + "%s = %s ++ %s" % (app("isosig_tri", E, nu, pad), app("isosig_" + h, E, nu, e), lst(["0"] * (6 - n))),
       "intros; unfold isosig_tri, isosig_%s; spec_red; list_eq." % h)
e4 = vs("e", 4)
st("isosig_pstress_alt_szz", "iso", fa(E, nu, e4) + "nthR %s 2 = 0" % app("isosig_pstress_alt", E, nu, e4),
   "intros; unfold isosig_pstress_alt; spec_red; comp.")
st("isosig_pstress_alt_is_3D_condensed", "iso",
   fa(E, nu, e4) + ISO_H + "1 - nu <> 0 ->\n  let sg := %s in\n  let ezz := - nu / (1 - nu) * (e0 + e1) in\n  %s = [nthR sg 0; nthR sg 1; 0; nthR sg 3; 0; 0]" % (
       app("isosig_pstress_alt", E, nu, e4), app("isosig_tri", E, nu, ["e0", "e1", "ezz", "e3", "0", "0"])),
   "intros; nzprod; unfold isosig_tri, isosig_pstress_alt; spec_red; list_eq.")
# isotropy: the response commutes with rotations
r = vs("r", 9)
st("hooke_tri_isotropic", "orth",
   fa(E, nu, e6, r) + ISO_H + "orth (full_r 3 %s) ->\n  let sg := %s in\n  let er := %s in\n  %s = %s" % (
       lst(r), app("isosig_tri", E, nu, e6), app("cb2_3", e6, r),
       app("cb2_3", nths("sg", 6), r), app("isosig_tri", E, nu, nths("er", 6))),
   "intros until 0; intro H; orth_hyps H; unfold isosig_tri, cb2_3; spec_red; list_eq_orth.")
for h in ("pstrain",):
    st("hooke_%s_isotropic_in_plane" % h, "orth",
       fa(E, nu, e4, r) + ISO_H + "orth (full_r 2 %s) ->\n  let sg := %s in\n  let er := %s in\n  %s = %s" % (
           lst(r), app("isosig_" + h, E, nu, e4), app("cb2_2", e4, r),
           app("cb2_2", nths("sg", 4), r), app("isosig_" + h, E, nu, nths("er", 4))),
       "intros until 0; intro H; orth_hyps H; unfold isosig_%s, cb2_2; spec_red; list_eq_orth." % h)
# orthotropic: hypothesis consistency in the default axes convention, plane stress condensation
P = vs("E", 3) + vs("n", 3) + vs("G", 3)
for h in ("pstrain", "gps", "axis", "agpstrain"):
    n = S[HYP[h]]
    e = vs("e", n)
    pad = e + ["0"] * (6 - n)
    st("ortsig_%s_is_3D_restricted" % h, "ort",
       fa(P, e) + "%s = %s ++ %s" % (app("ortsig_tri", P, pad), app("ortsig_" + h, P, e), lst(["0"] * (6 - n))),
       "intros; unfold ortsig_tri, ortsig_%s; spec_red; list_eq." % h)
st("ortsig_pstress_alt_szz", "ort", fa(P, e4) + "nthR %s 2 = 0" % app("ortsig_pstress_alt", P, e4),
   "intros; unfold ortsig_pstress_alt; spec_red; comp.")
st("ortsig_pstress_alt_pipe_szz", "ort", fa(P, e4) + "nthR %s 2 = 0" % app("ortsig_pstress_alt_pipe", P, e4),
   "intros; unfold ortsig_pstress_alt_pipe; spec_red; comp.")

# ---------------------------------------------------------------- write files
groups = {}
for (name, grp, tier, text, proof) in stmts:
    groups.setdefault(grp, []).append((name, tier, text, proof))

with open(os.path.join(HERE, "coq", "C44Statements.v"), "w") as f:
    f.write("(* C44: statements of the obligations (written by mkcoq.py, a typing aid; committed).  Each `<name>_ok` is a Prop about\n"
            "   the definitions regenerated from /repo (C44_gen.v) and the specification (C44Spec.v). *)\n"
            "From Coq Require Import Reals List.\nFrom VLib Require Import RealExtra.\nFrom C44 Require Import C44Spec C44_gen.\n"
            "Import ListNotations.\nLocal Open Scope R_scope.\n\n")
    for (name, grp, tier, text, proof) in stmts:
        f.write("Definition %s_ok : Prop :=\n  %s.\n\n" % (name, text))

HEAD = ("From Coq Require Import Reals List Lra.\nFrom VLib Require Import RealExtra.\n"
        "From C44 Require Import C44Spec C44_gen C44Statements C44Tactics.\nImport ListNotations.\nLocal Open Scope R_scope.\n\n")
FILES = {"rot": "C44ProofsA.v", "rot4_1": "C44ProofsA.v", "rot4_2": "C44ProofsA.v", "rot4_3": "C44ProofsRot4.v",
         "gen": "C44ProofsB.v", "arr": "C44ProofsB.v", "arr2": "C44ProofsArr2.v", "orth": "C44ProofsOrth.v", "orth3": "C44ProofsOrth3.v",
         "iso": "C44ProofsA.v", "ort": "C44ProofsA.v"}
PROPS = {"C44ProofsA.v": "Properties_C44.v", "C44ProofsB.v": "Properties_C44.v", "C44ProofsOrth.v": "Properties_C44.v",
         "C44ProofsRot4.v": "Properties_C44_full.v", "C44ProofsOrth3.v": "Properties_C44_full.v", "C44ProofsArr2.v": "Properties_C44_arrays.v"}
byfile = {}
for (name, grp, tier, text, proof) in stmts:
    byfile.setdefault(FILES[grp], []).append((name, proof))
for fn, items in byfile.items():
    if fn in ("C44ProofsOrth.v", "C44ProofsOrth3.v"):
        continue  # hand-written
    with open(os.path.join(HERE, "coq", fn), "w") as f:
        f.write("(* C44: proofs (skeleton written by mkcoq.py; shape-independent tactics of C44Tactics.v) *)\n" + HEAD)
        for (name, proof) in items:
            f.write("Lemma %s_proof : %s_ok.\nProof. unfold %s_ok. %s Qed.\n\n" % (name, name, name, proof))
def bundle_of(name):
    import re
    rules = [(r"fromrot_", "fromRotationMatrix_is_the_rotation_operator"),
             (r"cb2_|app_", "change_basis_stensor_is_QtSQ"),
             (r"cb4_[12]_", "change_basis_st2tost2_index_notation"),
             (r"cb4_3_|gen_rotk_tri_index|tg_rotk|tg_arrk", "fourth_order_rotation_3D_and_block_offsets"),
             (r"gen_rotg_", "emitted_rotateGradients_is_QtEQ"),
             (r"gen_rotf_", "emitted_rotateThermodynamicForces_is_QSQt"),
             (r"gen_rotk_", "emitted_rotateTangentOperatorBlocks_index_notation"),
             (r"gen_\w+_global_response", "emitted_rotations_give_the_global_response"),
             (r"gen_arr|tg_rot[gf]", "emitted_rotations_offsets_single_gradient_arrays"),
             (r"tg_arr[gf]", "emitted_rotations_arrays_two_gradients"),
             (r"round_trip", "emitted_rotations_round_trip"),
             (r"isotropic", "hooke_response_commutes_with_rotations"),
             (r"isoD_tri|isosig_tri_meaning", "isotropic_stiffness_is_hooke"),
             (r"is_3D_restricted", "hooke_hypothesis_consistency"),
             (r"pstress", "plane_stress_szz_zero_and_condensation")]
    for pat, b in rules:
        if re.match(pat, name) or re.search(pat, name) and pat in ("round_trip", "isotropic", "is_3D_restricted", "pstress"):
            return b
    raise SystemExit("no bundle for " + name)


bundles = {}
for (name, grp, tier, text, proof) in stmts:
    pf = PROPS[FILES[grp]]
    bundles.setdefault((pf, bundle_of(name)), []).append((name, FILES[grp]))
for pf in sorted(set(k[0] for k in bundles)):
    with open(os.path.join(HERE, "coq", pf), "w") as f:
        files = sorted(set(fn[:-2] for k, v in bundles.items() if k[0] == pf for (_, fn) in v))
        f.write("(* C44: property statements -- conjunctions of the obligations of C44Statements.v, `exact` of proved lemmas,\n"
                "   Print Assumptions *)\n"
                "From Coq Require Import Reals List.\nFrom VLib Require Import RealExtra.\n"
                "From C44 Require Import C44Spec C44_gen C44Statements %s.\n\n" % " ".join(files))
        for (p, b), items in bundles.items():
            if p != pf:
                continue
            f.write("Theorem C44_%s :\n  %s.\nProof.\n  exact %s.\nQed.\nPrint Assumptions C44_%s.\n\n" % (
                b, " /\\\n  ".join(n + "_ok" for n, _ in items),
                "".join("(conj %s_proof " % n for n, _ in items[:-1]) + items[-1][0] + "_proof" + ")" * (len(items) - 1), b))
print("wrote", len(stmts), "statements in", len(bundles), "theorems")

(* C33 -- general (token-level) theorems: strings over any alphabet [A]; a supported character is ONE symbol [u];
   its mangled name is a list [m] of symbols.  Uses the model and specification of replace_all of C32. *)
From Coq Require Import List Arith Bool Lia.
From C33 Require Import C32Spec C32Model C32Proofs.
Import ListNotations.

Section General.
Variable A : Type.
Variable eqb : A -> A -> bool.
Hypothesis eqb_eq : forall a b, eqb a b = true <-> a = b.
Notation str := (list A).

(* the first symbol of the mangled name occurs nowhere else in it (true of "tfel_unicode_mangling_XXXX": a single 't') *)
Definition head_unique (m : str) : Prop := match m with [] => False | p0 :: mt => ~ In p0 mt end.

Lemma occurs_cons_inv (m : str) a s : occurs m s -> occurs m (a :: s).
Proof. intros [x [y ->]]. now exists (a :: x), y. Qed.

(* an occurrence of m at the very beginning of  (a :: x) ++ m ++ v  lies inside a :: x *)
Lemma no_straddle (m x v y : str) a : head_unique m -> m ++ y = (a :: x) ++ m ++ v -> occurs m (a :: x).
Proof.
  intros HU E. apply app_eq_app in E. destruct E as [l [[E1 E2]|[E1 E2]]].
  - destruct l as [|b l].
    + rewrite app_nil_r in E1. exists [], []. now rewrite app_nil_r, E1.
    + exfalso. destruct m as [|p0 mt]; [exact HU|]. simpl in E1, E2, HU.
      injection E2 as -> _. injection E1 as -> E1. apply HU. rewrite E1. apply in_or_app; right; now left.
  - exists [], l. simpl. now rewrite E1.
Qed.

Lemma leftmost_cons (m x v : str) a : head_unique m -> ~ occurs m (a :: x) -> leftmost m x v -> leftmost m (a :: x) v.
Proof.
  intros HU NO L x' y E. destruct x' as [|a' x'].
  - exfalso. apply NO. simpl in E. symmetry in E. eapply no_straddle; eauto.
  - simpl in E. injection E as _ E. apply L in E. simpl; lia.
Qed.

(* mangling ONE character then demangling it gives the string back, for every string that does not contain the
   mangled name *)
Lemma mangle1_Repl (u : A) (m s : str) : head_unique m -> ~ occurs m s ->
  Repl m [u] (replace_char_str eqb s u m) s.
Proof.
  intros HU. induction s as [|a s IH]; intros NO; simpl.
  - now apply Repl_done.
  - assert (NO' : ~ occurs m s) by (intros H; apply NO; now apply occurs_cons_inv).
    specialize (IH NO'). destruct (eqb a u) eqn:E.
    + apply eqb_eq in E; subst a.
      change (Repl m [u] ([] ++ m ++ replace_char_str eqb s u m) ([] ++ [u] ++ s)).
      apply Repl_step; auto. intros x y _; simpl; lia.
    + simpl. remember (replace_char_str eqb s u m) as w eqn:W. clear W.
      inversion IH as [r N E1 E2|x v w' L H' E1 E2].
      * subst. now apply Repl_done.
      * subst. change (Repl m [u] ((a :: x) ++ m ++ v) ((a :: x) ++ [u] ++ w')). apply Repl_step; auto.
        apply leftmost_cons; auto. intros O. apply NO. destruct O as [p [q O]].
        exists p, (q ++ [u] ++ w'). rewrite !app_comm_cons, O. now rewrite <- !app_assoc.
Qed.

Theorem roundtrip_one (u : A) (m s : str) fx : head_unique m -> ~ occurs m s ->
  replace_all eqb fx (replace_char_str eqb s u m) m [u] 0 = Ok s.
Proof.
  intros HU NO. assert (Hm : m <> []) by (destruct m; [contradiction|discriminate]).
  destruct (replace_all_0 A eqb eqb_eq fx (replace_char_str eqb s u m) m [u] Hm) as [w [E R]].
  rewrite E. f_equal. eapply Repl_unique; eauto. now apply mangle1_Repl.
Qed.

(* mangling all the characters of a table, one after the other: what is left are the symbols that were neither
   supported characters nor ... : if every symbol of s is [ok] or a character of the table, and the names are [ok],
   the result is [ok] everywhere (ok = "is ASCII") *)
Variable ok : A -> Prop.

Definition mangle_tokens (T : list (A * str)) (s : str) : str :=
  fold_left (fun r e => replace_char_str eqb r (fst e) (snd e)) T s.

Lemma mangle1_ok (u : A) (m s : str) (rest : list A) : Forall ok m ->
  Forall (fun x => ok x \/ x = u \/ In x rest) s -> Forall (fun x => ok x \/ In x rest) (replace_char_str eqb s u m).
Proof.
  intros Hm. induction 1 as [|a s Ha Hs IH]; simpl; [constructor|].
  apply Forall_app. split; auto. destruct (eqb a u) eqn:E.
  - eapply Forall_impl; [|exact Hm]. intros; now left.
  - constructor; [|constructor]. destruct Ha as [H|[H|H]]; auto. subst. rewrite (proj2 (eqb_eq u u) eq_refl) in E. discriminate.
Qed.

Theorem mangle_tokens_ok (T : list (A * str)) : Forall (fun e => Forall ok (snd e)) T -> forall s,
  Forall (fun x => ok x \/ In x (map fst T)) s -> Forall ok (mangle_tokens T s).
Proof.
  induction 1 as [|e T He HT IH]; intros s Hs; simpl.
  - eapply Forall_impl; [|exact Hs]. intros a [H|[]]; auto.
  - apply IH. apply mangle1_ok; auto. eapply Forall_impl; [|exact Hs]. simpl. intros a [H|[H|H]]; auto.
Qed.

End General.

(* C33 -- byte-level model of getMangledString / tfel-unicode-filt over a table of (UTF-8 bytes, mangled name), using
   the model of replace_all of C32, and the boolean checks evaluated on the table dumped from the code. *)
From Coq Require Import List Bool Arith NArith Ascii String.
From C33 Require Import C32Model.
Import ListNotations.

Definition bytes := list ascii.
Definition table_t := list (bytes * bytes).

Definition rep (r s1 s2 : bytes) : bytes :=
  match replace_all Ascii.eqb false r s1 s2 0 with Ok w => w | _ => r end.

(* getMangledString: for every description, in table order, replace_all(r, uc, m) *)
Definition mangle (T : table_t) (s : bytes) : bytes := fold_left (fun r e => rep r (fst e) (snd e)) T s.
(* tfel-unicode-filt process(): for every description, in table order, replace_all(r, m, uc) *)
Definition demangle (T : table_t) (s : bytes) : bytes := fold_left (fun r e => rep r (snd e) (fst e)) T s.

Definition prefix : bytes := list_ascii_of_string "tfel_unicode_mangling_".

Definition byte (a : ascii) : N := N_of_ascii a.
Definition is_ascii (a : ascii) : bool := (byte a <? 128)%N.
Definition cont (a : ascii) : option N := let n := byte a in if (128 <=? n)%N && (n <? 192)%N then Some (n - 128)%N else None.

(* UTF-8 decoding of exactly one code point (2, 3 or 4 bytes; shortest form required) *)
Definition decode_utf8 (b : bytes) : option N :=
  match b with
  | [a; c1] =>
    match cont c1 with
    | Some x1 => let n := byte a in
                 if (192 <=? n)%N && (n <? 224)%N then let cp := ((n - 192) * 64 + x1)%N in if (128 <=? cp)%N then Some cp else None else None
    | None => None
    end
  | [a; c1; c2] =>
    match cont c1, cont c2 with
    | Some x1, Some x2 => let n := byte a in
                          if (224 <=? n)%N && (n <? 240)%N then let cp := (((n - 224) * 64 + x1) * 64 + x2)%N in if (2048 <=? cp)%N then Some cp else None else None
    | _, _ => None
    end
  | [a; c1; c2; c3] =>
    match cont c1, cont c2, cont c3 with
    | Some x1, Some x2, Some x3 => let n := byte a in
                                   if (240 <=? n)%N && (n <? 248)%N then let cp := ((((n - 240) * 64 + x1) * 64 + x2) * 64 + x3)%N in if (65536 <=? cp)%N then Some cp else None else None
    | _, _, _ => None
    end
  | _ => None
  end.

Definition hexdigit (n : N) : ascii := ascii_of_N (if (n <? 10)%N then 48 + n else 55 + n)%N.   (* upper case *)
Definition hex4 (n : N) : bytes :=
  [hexdigit ((n / 4096) mod 16); hexdigit ((n / 256) mod 16); hexdigit ((n / 16) mod 16); hexdigit (n mod 16)]%N.

Fixpoint beqb (a b : bytes) : bool :=
  match a, b with
  | [], [] => true
  | x :: a', y :: b' => Ascii.eqb x y && beqb a' b'
  | _, _ => false
  end.

Fixpoint nodupb (l : list bytes) : bool :=
  match l with [] => true | a :: r => negb (existsb (beqb a) r) && nodupb r end.

(* no element is a prefix of another one *)
Definition prefix_freeb (l : list bytes) : bool :=
  forallb (fun a => Nat.eqb (List.length (filter (fun b => starts_with Ascii.eqb b a) l)) 1) l.

(* ---- checks *)
Definition faithful_entry (e : bytes * bytes) : bool :=
  match decode_utf8 (fst e) with
  | Some cp => (128 <=? cp)%N && (cp <? 65536)%N && beqb (snd e) (prefix ++ hex4 cp)
  | None => false
  end.
Definition ascii_entry (e : bytes * bytes) : bool :=
  forallb is_ascii (snd e) && forallb (fun a => negb (is_ascii a)) (fst e) &&
  match snd e with p0 :: mt => negb (existsb (Ascii.eqb p0) mt) | [] => false end.
Definition roundtrip_entry (T : table_t) (e : bytes * bytes) : bool :=
  beqb (mangle T (fst e)) (snd e) && beqb (demangle T (snd e)) (fst e).

Definition ctx_l : bytes := list_ascii_of_string "a_".
Definition ctx_r : bytes := list_ascii_of_string "_t9".
Definition roundtrip_pair (T : table_t) (e1 e2 : bytes * bytes) : bool :=
  let s := ctx_l ++ fst e1 ++ fst e2 ++ ctx_r ++ fst e1 in
  let w := ctx_l ++ snd e1 ++ snd e2 ++ ctx_r ++ snd e1 in
  beqb (mangle T s) w && beqb (demangle T w) s.
Fixpoint adjacent {X} (l : list X) : list (X * X) :=
  match l with a :: ((b :: _) as r) => (a, b) :: (b, a) :: (a, a) :: adjacent r | _ => [] end.

Definition check_table (T : table_t) : bool :=
  forallb faithful_entry T && forallb ascii_entry T && nodupb (map fst T) && nodupb (map snd T) &&
  prefix_freeb (map fst T) && prefix_freeb (map snd T).
Definition check_roundtrip (T : table_t) : bool :=
  forallb (roundtrip_entry T) T && forallb (fun p => roundtrip_pair T (fst p) (snd p)) (adjacent T).

(* C33 -- general, byte-level round trip of the Unicode mangling.
   Alphabet [A] with two classes of bytes ([asc]: ASCII byte, [cnt]: UTF-8 continuation byte), a table [T] of
   (bytes of the character, mangled name) and the common prefix [P] of the names.  Under the decidable side condition
   [general_ok T] (characters = lead byte + continuation bytes, prefix-free; names = P ++ ..., ASCII, first byte not
   repeated, prefix-free):
     - for EVERY string s that does not contain P:  demangle T (mangle T s) = s
     - a string made of ASCII bytes and of characters of the table is mangled to an ASCII string.
   mangle / demangle are the successive replace_all of C33Model (model of replace_all: C32). *)
From Coq Require Import List Arith Bool Lia NArith Ascii.
From C33 Require Import C32Spec C32Model C32Proofs C33Model.
Import ListNotations.

Section Gen.
Variable A : Type.
Variable eqb : A -> A -> bool.
Hypothesis eqb_eq : forall a b, eqb a b = true <-> a = b.
Variables asc cnt : A -> bool.
Variable P : list A.
Notation str := (list A).
Notation table := (list (str * str)).

(* the definitions of C33Model over [A] *)
Definition grep (r s1 s2 : str) : str := match replace_all eqb false r s1 s2 0 with Ok w => w | _ => r end.
Definition gmangle (T : table) (s : str) : str := fold_left (fun r e => grep r (fst e) (snd e)) T s.
Definition gdemangle (T : table) (s : str) : str := fold_left (fun r e => grep r (snd e) (fst e)) T s.

Definition gchr (T : table) (i : nat) : str := fst (nth i T ([], [])).
Definition gnam (T : table) (i : nat) : str := snd (nth i T ([], [])).

(* ---------- the decidable side condition *)
(* T1: lead byte followed by continuation bytes *)
Definition char_ok (u : str) : bool :=
  match u with
  | [] => false
  | h :: cs => negb (asc h) && negb (cnt h) && forallb (fun c => cnt c && negb (asc c)) cs
  end.
(* T3: Q ++ ..., ASCII bytes, the first byte occurs only once *)
Definition name_ok (Q m : str) : bool :=
  starts_with eqb m Q && forallb (fun x => asc x && negb (cnt x)) m &&
  match m with [] => false | q :: mt => negb (existsb (eqb q) mt) end.
(* T2, T4: no element is a prefix of an element at another position *)
Fixpoint pfree (l : list str) : bool :=
  match l with
  | [] => true
  | a :: r => forallb (fun b => negb (starts_with eqb b a) && negb (starts_with eqb a b)) r && pfree r
  end.
Definition general_ok (T : table) : bool :=
  match P with [] => false | _ :: _ => true end &&
  forallb (fun e => char_ok (fst e) && name_ok P (snd e)) T && pfree (map fst T) && pfree (map snd T).

Definition T1_prop (T : table) : Prop := forall i, i < length T ->
  exists h cs, gchr T i = h :: cs /\ asc h = false /\ cnt h = false /\ Forall (fun c => cnt c = true /\ asc c = false) cs.
Definition T2_prop (T : table) : Prop := forall i j, i < length T -> j < length T -> i <> j -> ~ is_prefix (gchr T i) (gchr T j).
Definition T3_prop (T : table) (p0 : A) (pt : str) : Prop := forall j, j < length T ->
  exists z, gnam T j = p0 :: pt ++ z /\ ~ In p0 (pt ++ z) /\ Forall (fun x => asc x = true /\ cnt x = false) (gnam T j).
Definition T4_prop (T : table) : Prop := forall i j, i < length T -> j < length T -> i <> j -> ~ is_prefix (gnam T i) (gnam T j).

Lemma char_ok_sound (u : str) : char_ok u = true ->
  exists h cs, u = h :: cs /\ asc h = false /\ cnt h = false /\ Forall (fun c => cnt c = true /\ asc c = false) cs.
Proof.
  destruct u as [|h cs]; simpl; [discriminate|]. intros H.
  apply andb_prop in H. destruct H as [H H3]. apply andb_prop in H. destruct H as [H1 H2].
  apply negb_true_iff in H1. apply negb_true_iff in H2. exists h, cs. repeat split; auto.
  apply Forall_forall. intros c Ic. rewrite forallb_forall in H3. apply H3 in Ic.
  apply andb_prop in Ic. destruct Ic as [X1 X2]. apply negb_true_iff in X2. auto.
Qed.

Lemma name_ok_sound (p0 : A) (pt m : str) : name_ok (p0 :: pt) m = true ->
  exists z, m = p0 :: pt ++ z /\ ~ In p0 (pt ++ z) /\ Forall (fun x => asc x = true /\ cnt x = false) m.
Proof.
  unfold name_ok. intros H.
  apply andb_prop in H. destruct H as [H H3]. apply andb_prop in H. destruct H as [H1 H2].
  apply (starts_with_spec A eqb eqb_eq) in H1. destruct H1 as [z E]. exists z. split; [exact E|]. split.
  - intros I. rewrite E in H3. simpl in H3. apply negb_true_iff in H3.
    assert (X : existsb (eqb p0) (pt ++ z) = true) by (apply existsb_exists; exists p0; split; [exact I|now apply eqb_eq]).
    congruence.
  - apply Forall_forall. intros x Ix. rewrite forallb_forall in H2. apply H2 in Ix.
    apply andb_prop in Ix. destruct Ix as [X1 X2]. apply negb_true_iff in X2. auto.
Qed.

Lemma pfree_sound (l : list str) : pfree l = true -> forall i j, i < length l -> j < length l -> i <> j ->
  ~ is_prefix (nth i l []) (nth j l []).
Proof.
  induction l as [|a r IH]; simpl; intros H i j Hi Hj Hij; [lia|].
  apply andb_prop in H. destruct H as [H1 H2]. rewrite forallb_forall in H1.
  destruct i as [|i]; destruct j as [|j]; try lia.
  - intros Q. apply (starts_with_spec A eqb eqb_eq) in Q.
    assert (I : In (nth j r []) r) by (apply nth_In; lia). apply H1 in I.
    apply andb_prop in I. destruct I as [I _]. rewrite Q in I. discriminate.
  - intros Q. apply (starts_with_spec A eqb eqb_eq) in Q.
    assert (I : In (nth i r []) r) by (apply nth_In; lia). apply H1 in I.
    apply andb_prop in I. destruct I as [_ I]. rewrite Q in I. discriminate.
  - apply IH; auto; lia.
Qed.

Lemma nth_map_fst (T : table) i : nth i (map fst T) [] = gchr T i.
Proof. unfold gchr. exact (map_nth fst T ([], []) i). Qed.
Lemma nth_map_snd (T : table) i : nth i (map snd T) [] = gnam T i.
Proof. unfold gnam. exact (map_nth snd T ([], []) i). Qed.

Lemma general_ok_sound (T : table) : general_ok T = true ->
  exists p0 pt, P = p0 :: pt /\ T1_prop T /\ T2_prop T /\ T3_prop T p0 pt /\ T4_prop T.
Proof.
  unfold general_ok. destruct P as [|p0 pt]; [discriminate|]. rewrite andb_true_l. intros H.
  apply andb_prop in H. destruct H as [H H4]. apply andb_prop in H. destruct H as [H H2].
  rewrite forallb_forall in H. exists p0, pt. split; [reflexivity|].
  assert (E : forall i, i < length T -> char_ok (gchr T i) = true /\ name_ok (p0 :: pt) (gnam T i) = true).
  { intros i Hi. apply andb_prop. apply (H (nth i T ([], []))). now apply nth_In. }
  split; [|split; [|split]].
  - intros i Hi. apply char_ok_sound. now apply E.
  - intros i j Hi Hj Hij. rewrite <- !nth_map_fst. apply pfree_sound; auto; now rewrite map_length.
  - intros i Hi. apply name_ok_sound. now apply E.
  - intros i j Hi Hj Hij. rewrite <- !nth_map_snd. apply pfree_sound; auto; now rewrite map_length.
Qed.

(* ---------- lists *)
Lemma grep_Repl (r s1 s2 w : str) : s1 <> [] -> Repl s1 s2 r w -> grep r s1 s2 = w.
Proof.
  intros H R. unfold grep. destruct (replace_all_0 A eqb eqb_eq false r s1 s2 H) as [w' [E R']].
  rewrite E. eapply Repl_unique; eauto.
Qed.

Lemma app_split_len (b S x z : str) : b ++ S = x ++ z -> length b <= length x -> exists x', x = b ++ x' /\ S = x' ++ z.
Proof.
  revert x. induction b as [|b0 b IH]; intros x E L.
  - exists x. split; auto.
  - destruct x as [|x0 x]; [simpl in L; lia|]. simpl in E. injection E as -> E. simpl in L.
    destruct (IH x E ltac:(lia)) as [x' [-> ->]]. exists x'. split; reflexivity.
Qed.

(* an occurrence of d that starts inside b: the first byte of d is a byte of b *)
Lemma inside_split (b S x d y : str) : b ++ S = x ++ d ++ y -> length x < length b -> d <> [] ->
  exists h l dt, b = x ++ h :: l /\ d = h :: dt /\ dt ++ y = l ++ S.
Proof.
  revert b. induction x as [|x0 x IH]; intros b E L Hd.
  - destruct b as [|h l]; [simpl in L; lia|]. destruct d as [|h' dt]; [contradiction|].
    simpl in E. injection E as -> E. exists h', l, dt. repeat split; auto.
  - destruct b as [|b0 b]; [simpl in L; lia|]. simpl in E. injection E as -> E. simpl in L.
    destruct (IH b E ltac:(lia) Hd) as [h [l [dt [E1 [E2 E3]]]]]. exists h, l, dt. subst b. repeat split; auto.
Qed.

Lemma prefix_cmp (u v z1 z2 : str) : u ++ z1 = v ++ z2 -> is_prefix u v \/ is_prefix v u.
Proof.
  intros E. apply app_eq_app in E. destruct E as [l [[E _]|[E _]]].
  - right. exists l. exact E.
  - left. exists l. exact E.
Qed.

(* no occurrence of d starts inside b: the replacement goes through b *)
Lemma Repl_app_left (d d' b S R : str) : (forall x y, b ++ S = x ++ d ++ y -> length b <= length x) ->
  Repl d d' S R -> Repl d d' (b ++ S) (b ++ R).
Proof.
  intros Hb H. inversion H as [r N E1 E2|u v w L H' E1 E2]; subst.
  - apply Repl_done. intros [x [y E]]. pose proof (Hb x y E) as Lx.
    destruct (app_split_len _ _ _ _ E Lx) as [x' [_ E']]. apply N. now exists x', y.
  - rewrite !(app_assoc b u). apply Repl_step; auto. intros x y E. rewrite <- app_assoc in E.
    pose proof (Hb x y E) as Lx. destruct (app_split_len _ _ _ _ E Lx) as [x' [-> E']].
    apply L in E'. rewrite !app_length. lia.
Qed.

(* ---------- tokens *)
Section Core.
Variable T : table.
Variable p0 : A.
Variable pt : str.
Hypothesis HC : T1_prop T.
Hypothesis HCF : T2_prop T.
Hypothesis HN : T3_prop T p0 pt.
Hypothesis HNF : T4_prop T.
Notation chr := (gchr T).
Notation nam := (gnam T).

(* a byte, or the character of index i of the table *)
Inductive tk : Type := B (a : A) | C (i : nat).

(* [f i] = the character i is currently in mangled form *)
Definition rtk (f : nat -> bool) (t : tk) : str :=
  match t with B a => [a] | C i => if f i then nam i else chr i end.
Definition rend (f : nat -> bool) (ts : list tk) : str := concat (map (rtk f) ts).
Notation src := (rend (fun _ => false)).
Notation tgt := (rend (fun _ => true)).

Lemma rend_cons f t r : rend f (t :: r) = rtk f t ++ rend f r.
Proof. reflexivity. Qed.

(* greedy reading: a byte token is used only where no character of the table starts *)
Fixpoint wf (ts : list tk) : Prop :=
  match ts with
  | [] => True
  | t :: r => match t with
              | B a => forall j, j < length T -> ~ is_prefix (chr j) (a :: src r)
              | C i => i < length T
              end /\ wf r
  end.

Lemma tk_eq_dec (t : tk) k : t = C k \/ t <> C k.
Proof.
  destruct t as [a|i]; [right; discriminate|].
  destruct (Nat.eq_dec i k) as [->|N]; [left; reflexivity|right; congruence].
Qed.

Lemma rend_ext f g ts : wf ts -> (forall i, i < length T -> f i = g i) -> rend f ts = rend g ts.
Proof.
  intros W E. induction ts as [|t r IH]; [reflexivity|]. destruct W as [Wt Wr].
  rewrite !rend_cons, (IH Wr). f_equal. destruct t as [a|i]; [reflexivity|]. simpl. now rewrite (E i Wt).
Qed.

Lemma chr_nonasc j : j < length T -> Forall (fun c => asc c = false) (chr j).
Proof.
  intros Hj. destruct (HC j Hj) as [h [cs [E [Ah [_ F]]]]]. rewrite E. constructor; auto.
  eapply Forall_impl; [|exact F]. intros c [_ X]; exact X.
Qed.

Lemma nam_head j : j < length T -> exists t, nam j = p0 :: t /\ asc p0 = true /\ cnt p0 = false.
Proof.
  intros Hj. destruct (HN j Hj) as [z [E [_ F]]]. exists (pt ++ z). split; auto.
  rewrite E in F. inversion F as [|? ? X _]. exact X.
Qed.

(* every character token is rendered as a non-empty string whose first byte is outside the class okb *)
Lemma head_okb (okb : A -> bool) f : (asc p0 = true -> cnt p0 = false -> okb p0 = false) ->
  (forall h, asc h = false -> cnt h = false -> okb h = false) ->
  forall i, i < length T -> exists h t, rtk f (C i) = h :: t /\ okb h = false.
Proof.
  intros H1 H2 i Hi. simpl. destruct (f i).
  - destruct (nam_head i Hi) as [t [E [X1 X2]]]. exists p0, t. auto.
  - destruct (HC i Hi) as [h [cs [E [X1 [X2 _]]]]]. exists h, cs. auto.
Qed.

(* prefix transfer: a prefix made of okb bytes is read on byte tokens only, which are the same in every rendering *)
Lemma ptransfer (okb : A -> bool) f : (forall i, i < length T -> exists h t, rtk f (C i) = h :: t /\ okb h = false) ->
  forall ts, wf ts -> forall ps, Forall (fun x => okb x = true) ps -> is_prefix ps (rend f ts) -> is_prefix ps (src ts).
Proof.
  intros Hf. induction ts as [|t r IH]; intros W ps Hps [z E].
  - destruct ps; [exists []; reflexivity|discriminate].
  - destruct ps as [|p ps]; [eexists; reflexivity|]. destruct W as [Wt Wr].
    inversion Hps as [|? ? Op Ops]; subst. rewrite rend_cons in E. destruct t as [a|i].
    + simpl in E. injection E as -> E. destruct (IH Wr ps Ops (ex_intro _ z E)) as [z' E'].
      exists z'. rewrite rend_cons, E'. reflexivity.
    + destruct (Hf i Wt) as [h [t' [Eh Oh]]]. rewrite Eh in E. simpl in E. injection E as -> _. congruence.
Qed.

(* ---------- one replacement pass: the tokens C k are replaced, nothing else *)
Fixpoint noinside (d : str) (f : nat -> bool) (k : nat) (ts : list tk) : Prop :=
  match ts with
  | [] => True
  | t :: r => (t <> C k -> forall x y, rtk f t ++ rend f r = x ++ d ++ y -> length (rtk f t) <= length x) /\
              noinside d f k r
  end.

Lemma pass_generic (d d' : str) f f' k : d <> [] -> rtk f (C k) = d -> rtk f' (C k) = d' ->
  (forall t, t <> C k -> rtk f' t = rtk f t) -> forall ts, noinside d f k ts -> Repl d d' (rend f ts) (rend f' ts).
Proof.
  intros Hd E1 E2 E3. induction ts as [|t r IH]; intros N.
  - apply Repl_done. now apply no_occ_nil.
  - destruct N as [Nt Nr]. specialize (IH Nr). rewrite !rend_cons. destruct (tk_eq_dec t k) as [->|Ne].
    + rewrite E1, E2. change (Repl d d' ([] ++ d ++ rend f r) ([] ++ d' ++ rend f' r)).
      apply Repl_step; auto. intros x y _. simpl. lia.
    + rewrite (E3 t Ne). apply Repl_app_left; [exact (Nt Ne)|exact IH].
Qed.

(* mangling pass: no occurrence of the character k starts inside another token *)
Lemma noinside_m k f : k < length T -> forall ts, wf ts -> noinside (chr k) f k ts.
Proof.
  intros Hk. destruct (HC k Hk) as [hk [ck [Ek [Ak [Ck Fk]]]]].
  assert (Hd : chr k <> []) by (rewrite Ek; discriminate).
  induction ts as [|t r IH]; intros W; [exact I|]. destruct W as [Wt Wr]. split; [|now apply IH].
  intros Nt x y E. destruct (le_lt_dec (length (rtk f t)) (length x)) as [|L]; [assumption|exfalso].
  destruct (inside_split _ _ _ _ _ E L Hd) as [h [l [dt [E1 [E2 E3]]]]].
  rewrite Ek in E2. injection E2 as <- <-. destruct t as [a|j].
  - (* a byte: the character k would start here in the source *)
    destruct x as [|x0 x]; [|simpl in L; lia]. simpl in E1. injection E1 as -> <-. simpl in E3.
    apply (Wt k Hk). assert (Q : is_prefix ck (src r)).
    { apply (ptransfer cnt f); auto.
      - apply head_okb; auto.
      - eapply Forall_impl; [|exact Fk]. intros c [X _]; exact X.
      - exists y. now symmetry. }
    destruct Q as [z Ez]. exists z. rewrite Ek, Ez. reflexivity.
  - assert (Njk : j <> k) by congruence. cbn [rtk] in E, E1, L. destruct (f j).
    + (* a name: ASCII bytes only *)
      destruct (HN j Wt) as [z [_ [_ Fn]]]. rewrite E1 in Fn. apply Forall_app in Fn. destruct Fn as [_ Fn].
      inversion Fn as [|? ? [X _] _]. congruence.
    + (* another character *)
      destruct x as [|x0 x].
      * simpl in E. apply prefix_cmp in E. destruct E as [E|E]; [apply (HCF j k)|apply (HCF k j)]; auto.
      * destruct (HC j Wt) as [hj [cj [Ej [_ [_ Fj]]]]]. rewrite Ej in E1. simpl in E1. injection E1 as _ E1.
        rewrite E1 in Fj. apply Forall_app in Fj. destruct Fj as [_ Fj]. inversion Fj as [|? ? [X _] _]. congruence.
Qed.

Lemma pass_m k f ts : k < length T -> f k = false -> wf ts ->
  Repl (chr k) (nam k) (rend f ts) (rend (fun i => f i || (i =? k)) ts).
Proof.
  intros Hk Fk W. apply pass_generic with (k := k).
  - destruct (HC k Hk) as [h [cs [E _]]]. rewrite E. discriminate.
  - simpl. now rewrite Fk.
  - simpl. now rewrite Nat.eqb_refl, orb_true_r.
  - intros [a|i] Ne; [reflexivity|]. simpl. assert (X : i <> k) by congruence.
    apply Nat.eqb_neq in X. now rewrite X, orb_false_r.
  - now apply noinside_m.
Qed.

(* demangling pass: no occurrence of the name k starts inside another token, when P is not in the source *)
Lemma noinside_d k f : k < length T -> forall ts, wf ts -> ~ occurs (p0 :: pt) (src ts) -> noinside (nam k) f k ts.
Proof.
  intros Hk. destruct (HN k Hk) as [zk [Ek [Uk Fk]]].
  assert (Hd : nam k <> []) by (rewrite Ek; discriminate).
  induction ts as [|t r IH]; intros W NO; [exact I|]. destruct W as [Wt Wr]. split.
  2:{ apply IH; auto. intros [u [v O]]. apply NO. exists (rtk (fun _ => false) t ++ u), v.
      rewrite rend_cons, O, app_assoc. reflexivity. }
  intros Nt x y E. destruct (le_lt_dec (length (rtk f t)) (length x)) as [|L]; [assumption|exfalso].
  destruct (inside_split _ _ _ _ _ E L Hd) as [h [l [dt [E1 [E2 E3]]]]].
  rewrite Ek in E2. injection E2 as <- <-. rewrite Ek in Fk. destruct t as [a|j].
  - (* a byte: P would start here in the source *)
    destruct x as [|x0 x]; [|simpl in L; lia]. simpl in E1. injection E1 as -> <-. simpl in E3.
    assert (Q : is_prefix pt (src r)).
    { apply (ptransfer (fun x => asc x && negb (eqb x p0)) f); auto.
      - apply head_okb.
        + intros _ _. now rewrite (proj2 (eqb_eq p0 p0) eq_refl), andb_false_r.
        + intros h Ah _. now rewrite Ah.
      - apply Forall_forall. intros x Ix. inversion Fk as [|? ? _ Fk']. rewrite Forall_forall in Fk'.
        assert (Ix' : In x (pt ++ zk)) by (apply in_or_app; now left).
        destruct (Fk' x Ix') as [-> _]. simpl. apply negb_true_iff.
        destruct (eqb x p0) eqn:X; [|reflexivity]. apply eqb_eq in X. subst x. contradiction.
      - exists (zk ++ y). now rewrite <- E3, app_assoc. }
    destruct Q as [z Ez]. apply NO. exists [], z. rewrite rend_cons, Ez. reflexivity.
  - assert (Njk : j <> k) by congruence. cbn [rtk] in E, E1, L. destruct (f j).
    + (* another name *)
      destruct (HN j Wt) as [zj [Ej [Uj _]]]. destruct x as [|x0 x].
      * simpl in E. apply prefix_cmp in E. destruct E as [E|E]; [apply (HNF j k)|apply (HNF k j)]; auto.
      * rewrite Ej in E1. simpl in E1. injection E1 as _ E1. apply Uj. rewrite E1.
        apply in_or_app. right. now left.
    + (* a character: no ASCII byte *)
      pose proof (chr_nonasc j Wt) as Fj. rewrite E1 in Fj. apply Forall_app in Fj. destruct Fj as [_ Fj].
      inversion Fj as [|? ? X _]. inversion Fk as [|? ? [Y _] _]. congruence.
Qed.

Lemma pass_d k f ts : k < length T -> f k = true -> wf ts -> ~ occurs (p0 :: pt) (src ts) ->
  Repl (nam k) (chr k) (rend f ts) (rend (fun i => f i && negb (i =? k)) ts).
Proof.
  intros Hk Fk W NO. apply pass_generic with (k := k).
  - destruct (HN k Hk) as [z [E _]]. rewrite E. discriminate.
  - simpl. now rewrite Fk.
  - simpl. now rewrite Nat.eqb_refl, andb_false_r.
  - intros [a|i] Ne; [reflexivity|]. simpl. assert (X : i <> k) by congruence.
    apply Nat.eqb_neq in X. now rewrite X, andb_true_r.
  - now apply noinside_d.
Qed.

(* ---------- all the passes, in table order *)
Lemma nth_split_eq (T1 T2 : table) e : T = T1 ++ e :: T2 ->
  length T1 < length T /\ chr (length T1) = fst e /\ nam (length T1) = snd e.
Proof.
  intros ET. split; [rewrite ET, app_length; simpl; lia|].
  unfold gchr, gnam. rewrite ET, nth_middle. split; reflexivity.
Qed.

Lemma mangle_fold ts : wf ts -> forall T2 T1, T = T1 ++ T2 ->
  fold_left (fun r e => grep r (fst e) (snd e)) T2 (rend (fun i => i <? length T1) ts) = tgt ts.
Proof.
  intros W. induction T2 as [|e T2 IH]; intros T1 ET.
  - simpl. apply rend_ext; auto. intros i Hi. rewrite ET, app_nil_r in Hi. now apply Nat.ltb_lt.
  - simpl. destruct (nth_split_eq _ _ _ ET) as [Hk [Ec En]].
    assert (R := pass_m (length T1) (fun i => i <? length T1) ts Hk (Nat.ltb_irrefl _) W).
    assert (Hd : chr (length T1) <> []) by (destruct (HC _ Hk) as [h [cs [E _]]]; rewrite E; discriminate).
    rewrite <- Ec, <- En, (grep_Repl _ _ _ _ Hd R).
    rewrite (rend_ext _ (fun i => i <? length (T1 ++ [e])) ts W).
    + apply IH. rewrite ET, <- app_assoc. reflexivity.
    + intros i _. rewrite app_length. simpl.
      destruct (Nat.ltb_spec i (length T1)), (Nat.eqb_spec i (length T1)), (Nat.ltb_spec i (length T1 + 1));
        simpl; try reflexivity; lia.
Qed.

Lemma demangle_fold ts : wf ts -> ~ occurs (p0 :: pt) (src ts) -> forall T2 T1, T = T1 ++ T2 ->
  fold_left (fun r e => grep r (snd e) (fst e)) T2 (rend (fun i => negb (i <? length T1)) ts) = src ts.
Proof.
  intros W NO. induction T2 as [|e T2 IH]; intros T1 ET.
  - simpl. apply rend_ext; auto. intros i Hi. rewrite ET, app_nil_r in Hi. apply negb_false_iff. now apply Nat.ltb_lt.
  - simpl. destruct (nth_split_eq _ _ _ ET) as [Hk [Ec En]].
    assert (Fk : negb (length T1 <? length T1) = true) by now rewrite Nat.ltb_irrefl.
    assert (R := pass_d (length T1) (fun i => negb (i <? length T1)) ts Hk Fk W NO).
    assert (Hd : nam (length T1) <> []) by (destruct (HN _ Hk) as [z [E _]]; rewrite E; discriminate).
    rewrite <- Ec, <- En, (grep_Repl _ _ _ _ Hd R).
    rewrite (rend_ext _ (fun i => negb (i <? length (T1 ++ [e]))) ts W).
    + apply IH. rewrite ET, <- app_assoc. reflexivity.
    + intros i _. rewrite app_length. simpl.
      destruct (Nat.ltb_spec i (length T1)), (Nat.eqb_spec i (length T1)), (Nat.ltb_spec i (length T1 + 1));
        simpl; try reflexivity; lia.
Qed.

Lemma core_mangle ts : wf ts -> gmangle T (src ts) = tgt ts.
Proof. intros W. exact (mangle_fold ts W T [] eq_refl). Qed.

Lemma core_demangle ts : wf ts -> ~ occurs (p0 :: pt) (src ts) -> gdemangle T (tgt ts) = src ts.
Proof. intros W NO. exact (demangle_fold ts W NO T [] eq_refl). Qed.

(* ---------- every string has a greedy reading *)
Lemma tokenize (s : str) : exists ts, wf ts /\ src ts = s.
Proof.
  remember (length s) as n eqn:Hn. assert (L : length s <= n) by lia. clear Hn. revert s L.
  induction n as [|n IH]; intros s L.
  - destruct s; [|simpl in L; lia]. exists []. split; [exact I|reflexivity].
  - destruct (existsb (fun e => starts_with eqb s (fst e)) T) eqn:E.
    + apply existsb_exists in E. destruct E as [e [Ie Se]].
      apply (In_nth _ _ ([], [])) in Ie. destruct Ie as [j [Hj Ej]].
      apply (starts_with_spec A eqb eqb_eq) in Se. destruct Se as [s' Es].
      assert (Ec : fst e = chr j) by (unfold gchr; now rewrite Ej). rewrite Ec in Es.
      destruct (HC j Hj) as [h [cs [Eh _]]].
      destruct (IH s') as [ts [W S]].
      { rewrite Es, Eh in L. simpl in L. rewrite app_length in L. lia. }
      exists (C j :: ts). split; [split; assumption|]. rewrite rend_cons, S. simpl. now rewrite Es.
    + destruct s as [|a s]; [exists []; split; [exact I|reflexivity]|].
      destruct (IH s) as [ts [W S]]; [simpl in L; lia|]. exists (B a :: ts). split; [split; auto|].
      * intros j Hj Q. rewrite S in Q. apply (starts_with_spec A eqb eqb_eq) in Q.
        assert (X : existsb (fun e => starts_with eqb (a :: s) (fst e)) T = true).
        { apply existsb_exists. exists (nth j T ([], [])). split; [now apply nth_In|exact Q]. }
        congruence.
      * rewrite rend_cons, S. reflexivity.
Qed.

Lemma core_roundtrip (s : str) : ~ occurs (p0 :: pt) s -> gdemangle T (gmangle T s) = s.
Proof.
  destruct (tokenize s) as [ts [W <-]]. intros NO. rewrite (core_mangle ts W). now apply core_demangle.
Qed.

Definition asc_tk (t : tk) : Prop := match t with B a => asc a = true | C _ => True end.

Lemma tokenize_pieces (pieces : list str) :
  Forall (fun p => (exists a, p = [a] /\ asc a = true) \/ In p (map fst T)) pieces ->
  exists ts, wf ts /\ src ts = concat pieces /\ Forall asc_tk ts.
Proof.
  induction 1 as [|p pieces Hp _ IH]; [exists []; repeat split; constructor|].
  destruct IH as [ts [W [S F]]]. destruct Hp as [[a [-> Aa]]|Ip].
  - exists (B a :: ts). split; [split; auto|split].
    + intros j Hj [z Q]. destruct (HC j Hj) as [h [cs [Eh [Ah _]]]]. rewrite Eh in Q. simpl in Q.
      injection Q as -> _. congruence.
    + rewrite rend_cons, S. reflexivity.
    + constructor; auto.
  - apply in_map_iff in Ip. destruct Ip as [e [Ee Ie]].
    apply (In_nth _ _ ([], [])) in Ie. destruct Ie as [j [Hj Ej]].
    exists (C j :: ts). split; [split; auto|split].
    + rewrite rend_cons, S. simpl. unfold gchr. now rewrite Ej, Ee.
    + constructor; simpl; auto.
Qed.

Lemma tgt_ascii ts : wf ts -> Forall asc_tk ts -> Forall (fun a => asc a = true) (tgt ts).
Proof.
  intros W F. induction F as [|t r Ht _ IH]; [constructor|]. destruct W as [Wt Wr].
  rewrite rend_cons. apply Forall_app. split; [|now apply IH]. destruct t as [a|i]; simpl.
  - constructor; auto.
  - destruct (HN i Wt) as [z [_ [_ Fn]]]. eapply Forall_impl; [|exact Fn]. intros x [X _]; exact X.
Qed.

Lemma core_ascii (pieces : list str) :
  Forall (fun p => (exists a, p = [a] /\ asc a = true) \/ In p (map fst T)) pieces ->
  Forall (fun a => asc a = true) (gmangle T (concat pieces)).
Proof.
  intros H. destruct (tokenize_pieces pieces H) as [ts [W [<- F]]]. rewrite (core_mangle ts W). now apply tgt_ascii.
Qed.

End Core.

(* ---------- the theorems *)
Theorem mangle_demangle_general (T : table) : general_ok T = true ->
  forall s, ~ occurs P s -> gdemangle T (gmangle T s) = s.
Proof.
  intros H. destruct (general_ok_sound T H) as [p0 [pt [EP [H1 [H2 [H3 H4]]]]]]. rewrite EP.
  exact (core_roundtrip T p0 pt H1 H2 H3 H4).
Qed.

Theorem mangle_ascii_general (T : table) : general_ok T = true -> forall pieces,
  Forall (fun p => (exists a, p = [a] /\ asc a = true) \/ In p (map fst T)) pieces ->
  Forall (fun a => asc a = true) (gmangle T (concat pieces)).
Proof.
  intros H. destruct (general_ok_sound T H) as [p0 [pt [EP [H1 [H2 [H3 H4]]]]]].
  exact (core_ascii T p0 pt H1 H2 H3).
Qed.

End Gen.

(* ---------- bytes: the definitions of C33Model *)
Definition is_cont (a : ascii) : bool := match cont a with Some _ => true | None => false end.
Definition general_okb (T : table_t) : bool := general_ok ascii Ascii.eqb is_ascii is_cont prefix T.

Lemma grep_rep (r s1 s2 : bytes) : grep ascii Ascii.eqb r s1 s2 = rep r s1 s2.
Proof. reflexivity. Qed.
Lemma gmangle_mangle (T : table_t) (s : bytes) : gmangle ascii Ascii.eqb T s = mangle T s.
Proof. reflexivity. Qed.
Lemma gdemangle_demangle (T : table_t) (s : bytes) : gdemangle ascii Ascii.eqb T s = demangle T s.
Proof. reflexivity. Qed.

Theorem roundtrip_bytes (T : table_t) : general_okb T = true ->
  forall s : bytes, ~ occurs prefix s -> demangle T (mangle T s) = s.
Proof. exact (mangle_demangle_general ascii Ascii.eqb Ascii.eqb_eq is_ascii is_cont prefix T). Qed.

Theorem mangled_ascii_bytes (T : table_t) : general_okb T = true -> forall pieces : list bytes,
  Forall (fun p => (exists a, p = [a] /\ is_ascii a = true) \/ In p (map fst T)) pieces ->
  Forall (fun a => is_ascii a = true) (mangle T (concat pieces)).
Proof. exact (mangle_ascii_general ascii Ascii.eqb Ascii.eqb_eq is_ascii is_cont prefix T). Qed.

Print Assumptions roundtrip_bytes.
Print Assumptions mangled_ascii_bytes.

(* C33 -- Prop-level reading of the boolean checks *)
From Coq Require Import List Bool Arith NArith Ascii String.
From C33 Require Import C32Spec C32Model C32Proofs C33Model C33General C33_gen C33TableOk.
Import ListNotations.

Lemma beqb_eq a b : beqb a b = true -> a = b.
Proof.
  revert b; induction a as [|x a IH]; intros [|y b]; simpl; try discriminate; auto.
  intros H. apply andb_prop in H. destruct H as [H1 H2]. apply Ascii.eqb_eq in H1. f_equal; auto.
Qed.

Lemma check_table_parts (T : table_t) : check_table T = true ->
  forallb faithful_entry T = true /\ forallb ascii_entry T = true /\ nodupb (map fst T) = true /\
  nodupb (map snd T) = true /\ prefix_freeb (map fst T) = true /\ prefix_freeb (map snd T) = true.
Proof.
  unfold check_table. intros H.
  apply andb_prop in H; destruct H as [H H6]. apply andb_prop in H; destruct H as [H H5].
  apply andb_prop in H; destruct H as [H H4]. apply andb_prop in H; destruct H as [H H3].
  apply andb_prop in H; destruct H as [H1 H2]. exact (conj H1 (conj H2 (conj H3 (conj H4 (conj H5 H6))))).
Qed.

Definition table_parts := check_table_parts table table_ok.

Lemma forallb_in {X} (f : X -> bool) (l : list X) : forallb f l = true -> forall x, In x l -> f x = true.
Proof. intros H. now apply forallb_forall. Qed.

Lemma faithful_sound (e : bytes * bytes) : faithful_entry e = true ->
  exists cp, decode_utf8 (fst e) = Some cp /\ (128 <= cp < 65536)%N /\ snd e = prefix ++ hex4 cp.
Proof.
  destruct e as [u m]. unfold faithful_entry. cbn [fst snd]. destruct (decode_utf8 u) as [cp|]; [|discriminate].
  intros F. apply andb_prop in F. destruct F as [F F2]. apply andb_prop in F. destruct F as [F0 F1].
  exists cp. split; [reflexivity|]. split; [|now apply beqb_eq]. apply N.ltb_lt in F1. apply N.leb_le in F0. split; auto.
Qed.

Lemma faithful_table (T : table_t) : check_table T = true -> forall e : bytes * bytes, In e T ->
  exists cp, decode_utf8 (fst e) = Some cp /\ (128 <= cp < 65536)%N /\ snd e = prefix ++ hex4 cp.
Proof. intros H e I. apply faithful_sound. exact (forallb_in _ _ (proj1 (check_table_parts T H)) e I). Qed.

Definition faithful := faithful_table table table_ok.

Lemma ascii_entry_sound (e : bytes * bytes) : ascii_entry e = true ->
  head_unique ascii (snd e) /\ Forall (fun a => is_ascii a = true) (snd e) /\ Forall (fun a => is_ascii a = false) (fst e).
Proof.
  destruct e as [u m]. unfold ascii_entry. cbn [fst snd]. intros F.
  apply andb_prop in F. destruct F as [F F3]. apply andb_prop in F. destruct F as [F1 F2]. split; [|split].
  - destruct m as [|p0 mt]; [discriminate F3|]. cbn [head_unique]. intros J. apply negb_true_iff in F3.
    assert (existsb (Ascii.eqb p0) mt = true) by (apply existsb_exists; exists p0; split; auto; apply Ascii.eqb_refl). congruence.
  - apply Forall_forall. rewrite forallb_forall in F1. auto.
  - apply Forall_forall. rewrite forallb_forall in F2. intros a J. apply F2 in J. now apply negb_true_iff in J.
Qed.

Lemma head_unique_table (T : table_t) : check_table T = true -> forall e : bytes * bytes, In e T ->
  head_unique ascii (snd e) /\ Forall (fun a => is_ascii a = true) (snd e) /\ Forall (fun a => is_ascii a = false) (fst e).
Proof. intros H e I. apply ascii_entry_sound. exact (forallb_in _ _ (proj1 (proj2 (check_table_parts T H))) e I). Qed.

Definition head_unique_entry := head_unique_table table table_ok.

Lemma roundtrip_sound (T : table_t) : check_roundtrip T = true -> forall e : bytes * bytes, In e T ->
  mangle T (fst e) = snd e /\ demangle T (snd e) = fst e.
Proof.
  unfold check_roundtrip. intros H e I. apply andb_prop in H. destruct H as [H _].
  pose proof (forallb_in _ _ H e I) as R. unfold roundtrip_entry in R. apply andb_prop in R. destruct R as [H1 H2].
  exact (conj (beqb_eq _ _ H1) (beqb_eq _ _ H2)).
Qed.

Definition roundtrip_char := roundtrip_sound table roundtrip_ok.

(* C33 -- Prop-level reading of the boolean checks *)
From Coq Require Import List Bool Arith NArith Ascii String.
From C33 Require Import C32Spec C32Model C32Proofs C33Model C33General C33_gen C33TableOk.
Import ListNotations.

Lemma beqb_eq a b : beqb a b = true -> a = b.
Proof.
  revert b; induction a as [|x a IH]; intros [|y b]; simpl; try discriminate; auto.
  intros H. apply andb_prop in H. destruct H as [H1 H2]. apply Ascii.eqb_eq in H1. f_equal; auto.
Qed.

Lemma table_parts :
  forallb faithful_entry table = true /\ forallb ascii_entry table = true /\ nodupb (map fst table) = true /\
  nodupb (map snd table) = true /\ prefix_freeb (map fst table) = true /\ prefix_freeb (map snd table) = true.
Proof.
  pose proof table_ok as H. unfold check_table in H.
  repeat (apply andb_prop in H; destruct H as [H ?]). repeat split; assumption.
Qed.

Lemma faithful_sound (e : bytes * bytes) : faithful_entry e = true ->
  exists cp, decode_utf8 (fst e) = Some cp /\ (128 <= cp < 65536)%N /\ snd e = prefix ++ hex4 cp.
Proof.
  destruct e as [u m]. unfold faithful_entry. cbn [fst snd]. destruct (decode_utf8 u) as [cp|]; [|discriminate].
  intros F. apply andb_prop in F. destruct F as [F F2]. apply andb_prop in F. destruct F as [F0 F1].
  exists cp. split; [reflexivity|]. split; [|now apply beqb_eq]. apply N.ltb_lt in F1. apply N.leb_le in F0. split; auto.
Qed.

Lemma faithful e : In e table -> exists cp, decode_utf8 (fst e) = Some cp /\ (128 <= cp < 65536)%N /\ snd e = prefix ++ hex4 cp.
Proof.
  intros I. destruct table_parts as [F _]. rewrite forallb_forall in F. exact (faithful_sound e (F e I)).
Qed.

Lemma ascii_entry_sound (e : bytes * bytes) : ascii_entry e = true ->
  head_unique ascii (snd e) /\ Forall (fun a => is_ascii a = true) (snd e) /\ Forall (fun a => is_ascii a = false) (fst e).
Proof.
  destruct e as [u m]. unfold ascii_entry. cbn [fst snd]. intros F.
  apply andb_prop in F. destruct F as [F F3]. apply andb_prop in F. destruct F as [F1 F2]. split; [|split].
  - destruct m as [|p0 mt]; [discriminate F3|]. cbn [head_unique]. intros J. apply negb_true_iff in F3.
    assert (existsb (Ascii.eqb p0) mt = true) by (apply existsb_exists; exists p0; split; auto; apply Ascii.eqb_refl). congruence.
  - apply Forall_forall. rewrite forallb_forall in F1. auto.
  - apply Forall_forall. rewrite forallb_forall in F2. intros a J. apply F2 in J. now apply negb_true_iff in J.
Qed.

Lemma head_unique_entry e : In e table -> head_unique ascii (snd e) /\ Forall (fun a => is_ascii a = true) (snd e) /\
  Forall (fun a => is_ascii a = false) (fst e).
Proof.
  intros I. destruct table_parts as [_ [F _]]. rewrite forallb_forall in F. exact (ascii_entry_sound e (F e I)).
Qed.

Lemma roundtrip_char e : In e table -> mangle table (fst e) = snd e /\ demangle table (snd e) = fst e.
Proof.
  intros I. pose proof roundtrip_ok as H. unfold check_roundtrip in H. apply andb_prop in H. destruct H as [H _].
  rewrite forallb_forall in H. specialize (H e I). unfold roundtrip_entry in H. apply andb_prop in H.
  destruct H as [H1 H2]. split; now apply beqb_eq.
Qed.

(* C33 -- property theorems.  [table] is the list of (UTF-8 bytes, mangled name) dumped from
   getSupportedUnicodeCharactersDescriptions() in this run (C33_gen.v, regenerated every run). *)
From Coq Require Import List Bool Arith NArith Ascii String.
From C33 Require Import C32Spec C32Model C32Proofs C33Model C33General C33Roundtrip C33_gen C33TableOk C33Proofs.
Import ListNotations.

(* the mangled name encodes the code point: prefix + four upper-case hexadecimal digits of the UTF-8 decoding *)
Theorem C33_mangled_name_is_code_point : forall e : bytes * bytes, In e table ->
  exists cp, decode_utf8 (fst e) = Some cp /\ (128 <= cp < 65536)%N /\ snd e = prefix ++ hex4 cp.
Proof. exact faithful. Qed.
Print Assumptions C33_mangled_name_is_code_point.

(* characters and names pairwise distinct and prefix-free (boolean checks on the table), names ASCII with a first
   symbol that does not occur again, characters made of non-ASCII bytes only *)
Theorem C33_table_distinct_prefix_free :
  nodupb (map fst table) = true /\ nodupb (map snd table) = true /\
  prefix_freeb (map fst table) = true /\ prefix_freeb (map snd table) = true.
Proof. destruct table_parts as [_ [_ [A [B [C D]]]]]. exact (conj A (conj B (conj C D))). Qed.
Print Assumptions C33_table_distinct_prefix_free.

Theorem C33_names_ascii_head_unique : forall e : bytes * bytes, In e table ->
  head_unique ascii (snd e) /\ Forall (fun a => is_ascii a = true) (snd e) /\ Forall (fun a => is_ascii a = false) (fst e).
Proof. exact head_unique_entry. Qed.
Print Assumptions C33_names_ascii_head_unique.

(* every supported character is mangled to its name by the whole sequence of replacements and comes back *)
Theorem C33_roundtrip_each_character : forall e : bytes * bytes, In e table ->
  mangle table (fst e) = snd e /\ demangle table (snd e) = fst e.
Proof. exact roundtrip_char. Qed.
Print Assumptions C33_roundtrip_each_character.

(* adjacent characters in ASCII context (both orders, doubled): mangled to the concatenation of names and back *)
Theorem C33_roundtrip_adjacent_characters : check_roundtrip table = true.
Proof. exact roundtrip_ok. Qed.
Print Assumptions C33_roundtrip_adjacent_characters.

(* general, token level (a supported character = one symbol u, any alphabet): for EVERY string s that does not contain
   the mangled name m, whose first symbol is not repeated in it, replacing u by m and then m by u gives s back *)
Theorem C33_roundtrip_one_character_any_string : forall A eqb, (forall a b : A, eqb a b = true <-> a = b) ->
  forall (u : A) (m s : list A) fx, head_unique A m -> ~ occurs m s ->
  replace_all eqb fx (replace_char_str eqb s u m) m [u] 0 = Ok s.
Proof. exact roundtrip_one. Qed.
Print Assumptions C33_roundtrip_one_character_any_string.

(* general, token level: after the successive replacement of all the characters of a table whose names are [ok]
   (ASCII), a string whose other symbols are [ok] is [ok] everywhere *)
Theorem C33_mangled_output_ascii : forall A eqb, (forall a b : A, eqb a b = true <-> a = b) ->
  forall (ok : A -> Prop) (T : list (A * list A)), Forall (fun e => Forall ok (snd e)) T ->
  forall s, Forall (fun x => ok x \/ In x (map fst T)) s -> Forall ok (mangle_tokens A eqb T s).
Proof. exact mangle_tokens_ok. Qed.
Print Assumptions C33_mangled_output_ascii.

(* GENERAL, byte level, the whole table: for EVERY byte string that does not contain the mangling prefix, the 136
   successive replace_all passes of getMangledString followed by the 136 reverse passes of tfel-unicode-filt give the
   string back (ill-formed UTF-8, unsupported characters and fragments of supported characters included) *)
Theorem C33_roundtrip_any_string : forall s : bytes, ~ occurs prefix s -> demangle table (mangle table s) = s.
Proof. exact (roundtrip_bytes table general_table_ok). Qed.
Print Assumptions C33_roundtrip_any_string.

(* GENERAL: a string made of ASCII bytes and of characters of the table is mangled to an ASCII string *)
Theorem C33_mangled_ascii_any_string : forall pieces : list bytes,
  Forall (fun p => (exists a, p = [a] /\ is_ascii a = true) \/ In p (map fst table)) pieces ->
  Forall (fun a => is_ascii a = true) (mangle table (List.concat pieces)).
Proof. exact (mangled_ascii_bytes table general_table_ok). Qed.
Print Assumptions C33_mangled_ascii_any_string.

(* the same for ANY table that satisfies the decidable side conditions [general_okb] (characters: a lead byte followed by
   continuation bytes, none a prefix of another; names: the mangling prefix followed by anything, ASCII, first byte not
   repeated, none a prefix of another) *)
Theorem C33_roundtrip_any_table : forall T : table_t, general_okb T = true ->
  forall s : bytes, ~ occurs prefix s -> demangle T (mangle T s) = s.
Proof. exact roundtrip_bytes. Qed.
Print Assumptions C33_roundtrip_any_table.

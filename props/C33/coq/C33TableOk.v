(* C33 -- the boolean checks evaluated (vm_compute) on the table dumped from the code in this run *)
From Coq Require Import List Bool Arith NArith Ascii String.
From C33 Require Import C32Spec C32Model C32Proofs C33Model C33General C33_gen.
Import ListNotations.

Lemma table_ok : check_table table = true.
Proof. vm_compute. reflexivity. Qed.
Lemma roundtrip_ok : check_roundtrip table = true.
Proof. vm_compute. reflexivity. Qed.


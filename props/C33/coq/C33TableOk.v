(* C33 -- the boolean checks evaluated (vm_compute) on the table dumped from the code in this run *)
From Coq Require Import List Bool Arith NArith Ascii String.
From C33 Require Import C32Spec C32Model C32Proofs C33Model C33General C33Roundtrip C33_gen.
Import ListNotations.

Lemma table_ok : check_table table = true.
Proof. vm_compute. reflexivity. Qed.
Lemma roundtrip_ok : check_roundtrip table = true.
Proof. vm_compute. reflexivity. Qed.

(* the side conditions of the general round-trip theorem (C33Roundtrip.v): characters = lead byte + continuation bytes,
   prefix-free; names = mangling prefix ++ ..., ASCII, first byte not repeated, prefix-free *)
Lemma general_table_ok : general_okb table = true.
Proof. vm_compute. reflexivity. Qed.

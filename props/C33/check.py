"""C33 -- Unicode mangling is faithful and reversible (src/UnicodeSupport/UnicodeSupport.cxx, tfel-unicode-filt).
Engine D: the table of supported characters is dumped from the code built from REPO into Gallina data every run;
vm_compute theorems on the table (name = prefix + code point of the UTF-8 decoding, distinct, prefix-free, ASCII names with a
non-repeated first symbol, round trip of every character and of adjacent characters through the byte-level model = folds of
C32's replace_all); general theorems: byte-level round trip of ANY string without the mangling prefix through all the passes, for any
table satisfying decidable side conditions (C33Roundtrip.v), instantiated on the dumped table; ASCII output; one character / any string.
Tie: real getMangledString and the real tfel-unicode-filt (both compiled from REPO) on the whole table and on random mixed
strings, against the expectation known by construction and against the Gallina model (vm_compute)."""
import os, re
from vlib import guarded_main, VERIF

PREFIX = "tfel_unicode_mangling_"


def hx(b):
    return b.hex() if b else "-"


def unhx(h):
    return b"" if h == "-" else bytes.fromhex(h)


def coq_bytes(b):
    return "(map ascii_of_nat [%s])" % "; ".join(str(x) for x in b)


def main(c):
    exe = c.cxx("driver", ["driver.cxx"], ["src/UnicodeSupport/UnicodeSupport.cxx"])
    filt = c.cxx("filt", [], ["tfel-unicode-filt/src/tfel-unicode-filt.cxx", "src/UnicodeSupport/UnicodeSupport.cxx", "src/Utilities/StringAlgorithms.cxx"])
    rc, out, err = c.run([exe, "dump"])
    if rc != 0:
        c.report("dump", "table dump failed: " + err[-400:], {"stderr": err[-2000:]}, False)
        return
    table = [(unhx(t[1]), unhx(t[2])) for t in (l.split() for l in out.splitlines()) if t and t[0] == "E"]
    c.trusted("props/C33/driver.cxx (dump of getSupportedUnicodeCharactersDescriptions(), calls of getMangledString) and the Python printer of C33_gen.v",
              "the byte-level model of replace_all is the one of C32 (tied to StringAlgorithms.cxx there); the replace_all lambda of getMangledString is tied "
              "to it by execution (whole table, random strings, model vs code on a sample)")
    nfail = 0
    # ---------------- independent statement on the table
    seen_u, seen_m = {}, {}
    for i, (u, m) in enumerate(table):
        c.count(1, ("entry", u), True)
        try:
            ch = u.decode("utf-8")
            ok = len(ch) == 1 and ord(ch) >= 128 and m == (PREFIX + "%04X" % ord(ch)).encode()
        except UnicodeDecodeError:
            ok = False
        if not ok:
            nfail += 1
            c.report("entry:%s" % u.hex(), "table entry %d: character bytes %s (%r) has mangled name %r: not prefix + code point" % (i, u.hex(), u.decode("utf-8", "replace"), m),
                     {"index": i, "uc": u.hex(), "mangled": m.decode("latin-1")}, True)
        if u in seen_u or m in seen_m:
            nfail += 1
            c.report("dup:%s" % u.hex(), "table entry %d duplicates character or name of entry %d" % (i, seen_u.get(u, seen_m.get(m))), {"index": i}, True)
        seen_u[u], seen_m[m] = i, i
    # ---------------- strings: expectation known by construction
    rng = c.rng
    others = ["é".encode(), "€".encode(), "日".encode(), "𝐀".encode(), b"\xff", b"\xce", b"\x91"]
    chunks = [b"", b"a", b"x_1", b" + ", b"t", b"tfel", b"tfel_unicode_mangling", b"_", b"0391", b"sig(", b")", b"\t", b"T", b"d/dt"]
    # independent statement of the expected value, from the FULL dumped table: one left-to-right scan of the bytes; where a
    # supported character begins (it is unique: the characters are prefix-free) its name is written, otherwise the byte is
    # copied.  (That the successive replace_all passes of the code compute exactly this, for every byte string, is the
    # content of the general theorem C33_roundtrip_any_string / its lemma core_mangle.)
    by_lead = {}
    for u, m in table:
        by_lead.setdefault(u[:1], []).append((u, m))

    def expected(s):
        w, i = bytearray(), 0
        while i < len(s):
            for u, m in by_lead.get(s[i:i + 1], ()):
                if s.startswith(u, i):
                    w += m
                    i += len(u)
                    break
            else:
                w.append(s[i])
                i += 1
        return bytes(w)

    cases = []  # (original, expected mangled, reversible?)
    for u, m in table:
        cases.append((u, m, True))
        cases.append((b"a" + u + u + b"b", b"a" + m + m + b"b", True))

    def piece():
        r = rng.random()
        if r < 0.45:
            return rng.choice(table)[0]
        if r < 0.9:
            return rng.choice(chunks) if rng.random() < 0.6 else bytes(rng.choice(b"abcxyzt_019 +-*/()") for _ in range(rng.randint(1, 6)))
        # unsupported characters and raw bytes, fragments of supported characters included (they may combine into one)
        return rng.choice(others)

    for k in range(c.pick(1500, 20000)):
        # every fourth string is long (up to 400 pieces): many occurrences of many characters, all the passes matter
        npieces = rng.randint(1, 12) if k % 4 else rng.randint(40, 400)
        s = b"".join(piece() for _ in range(npieces))
        if b"\n" in s or PREFIX.encode() in s:
            continue
        cases.append((s, expected(s), True))
    qf = os.path.join(c.work, "strings.txt")
    open(qf, "w").write("\n".join(hx(s) for s, _, _ in cases) + "\n")
    rc, out, err = c.run([exe, "mangle", qf])
    real = [unhx(x) for x in out.split()]
    if rc != 0 or len(real) != len(cases):
        c.report("mangle", "driver failed: " + err[-400:], {"stderr": err[-2000:]}, False)
        return
    rc, out, err = c.run([filt], input=None, timeout=300, env=None) if False else (0, "", "")
    import subprocess
    p = subprocess.run([filt], input=b"\n".join(real) + b"\n", stdout=subprocess.PIPE, stderr=subprocess.PIPE, timeout=300)
    back = p.stdout.split(b"\n")[:-1]
    if p.returncode != 0 or len(back) != len(cases):
        c.report("filt", "tfel-unicode-filt failed (rc=%d, %d lines for %d)" % (p.returncode, len(back), len(cases)), {"stderr": p.stderr[-2000:].decode("latin-1")}, False)
        return
    shown = 0
    for (s, w, rev), r, b in zip(cases, real, back):
        nt = any(u in s for u, _ in table[:200])
        c.count(1, ("s", s), nt)
        msg = None
        if r != w:
            msg = "getMangledString(%r) = %r, expected %r" % (s.decode("utf-8", "replace"), r.decode("latin-1"), w.decode("latin-1"))
        elif any(x >= 128 for x in r) and all(x < 128 for x in w):
            msg = "getMangledString(%r) is not ASCII" % s
        elif b != s:
            msg = "tfel-unicode-filt(%r) = %r, expected the original %r" % (r.decode("latin-1"), b.decode("utf-8", "replace"), s.decode("utf-8", "replace"))
        if msg:
            nfail += 1
            shown += 1
            if shown <= 4:
                c.report("string:" + s.hex(), msg, {"original_hex": s.hex(), "mangled_hex": r.hex(), "demangled_hex": b.hex()}, True)
    c.sample({"table_entries": len(table), "strings": len(cases), "example": cases[len(table) * 2 + 3][0].decode("utf-8", "replace"),
              "mangled": real[len(table) * 2 + 3].decode("latin-1")})
    c.coverage["exhaustive"] = True
    c.coverage["traces_validated_against_impl"] = len(cases)
    c.coverage["rule"] = ("exhaustive: the %d table entries (each alone and doubled in ASCII context) through getMangledString and tfel-unicode-filt; %d random strings "
                          "of 1..12 pieces, every fourth of 40..400 pieces (45%% supported characters, 45%% ASCII chunks incl. proper prefixes of the mangling prefix, 10%% "
                          "unsupported non-ASCII characters and raw bytes 0xff 0xce 0x91, which may combine into a supported character); expected value = one left-to-right "
                          "scan with the full dumped table; non-trivial = contains a supported character" % (len(table), len(cases) - 2 * len(table)))
    # ---------------- Gallina: regenerated table, model vs real on a sample, theorems
    gen = os.path.join(c.work, "coq", "C33_gen.v")
    os.makedirs(os.path.dirname(gen), exist_ok=True)
    with open(gen, "w") as f:
        f.write("(* generated by props/C33/check.py from getSupportedUnicodeCharactersDescriptions() of the working tree -- do not edit *)\n"
                "From Coq Require Import List Ascii.\nImport ListNotations.\n\nDefinition table : list (list ascii * list ascii) :=\n  [ "
                + ";\n    ".join("(%s, %s)" % (coq_bytes(u), coq_bytes(m)) for u, m in table) + " ].\n")
    deps = []
    gdir = os.path.join(c.work, "gen")
    os.makedirs(gdir, exist_ok=True)
    for n in ("C32Spec.v", "C32Model.v", "C32Proofs.v"):  # C32's development under this check's logical prefix
        txt = open(os.path.join(VERIF, "props", "C32", "coq", n)).read().replace("From C32 Require", "From C33 Require")
        open(os.path.join(gdir, n), "w").write(txt)
        deps.append(os.path.join(gdir, n))
    rnd = cases[2 * len(table):]
    # the Gallina model is evaluated (vm_compute, 136 passes each way) on short strings and on two long ones
    sample = cases[:2 * len(table):17] + [x for x in rnd if len(x[0]) <= 120][:c.pick(60, 400)] + [x for x in rnd if len(x[0]) > 120][:2]
    idx = [cases.index(x) for x in sample]
    ev = ("From Coq Require Import List Ascii Bool.\nFrom C33 Require Import C32Model C33Model C33_gen.\nImport ListNotations.\n"
          "Definition cases : list (list ascii * list ascii) := [\n  " +
          ";\n  ".join("(%s, %s)" % (coq_bytes(cases[i][0]), coq_bytes(real[i])) for i in idx) +
          "].\nEval vm_compute in (map (fun p => beqb (mangle table (fst p)) (snd p) && beqb (demangle table (snd p)) (fst p)) cases).\n")
    rc, mout, merr = c.coq_eval(deps[:2] + ["C33Model.v", gen], ev)
    if rc != 0:
        raise RuntimeError("model evaluation failed: " + merr[-800:])
    flags = re.findall(r"\b(true|false)\b", mout.split("=", 1)[1] if "=" in mout else mout)
    if len(flags) != len(idx):
        raise RuntimeError("model evaluation: %d results for %d cases" % (len(flags), len(idx)))
    for i, fl in zip(idx, flags):
        c.count(1)
        if fl != "true" and nfail == 0:
            c.report("model:" + cases[i][0].hex(), "the Gallina model (folds of replace_all over the table) disagrees with getMangledString/tfel-unicode-filt on %r"
                     % cases[i][0].decode("utf-8", "replace"), {"original_hex": cases[i][0].hex(), "real_mangled_hex": real[i].hex()}, False)
    res = c.coq(deps + ["C33Model.v", "C33General.v", "C33Roundtrip.v", gen, "C33TableOk.v", "C33Proofs.v", "Properties_C33.v"], timeout=900)
    if not res.ok:
        if nfail:
            c.notes.append("proof obligations failed: %s; concrete failing inputs reported above" % [f[2] or f[0] for f in res.failed])
        else:
            c.coq_failures(res)


guarded_main("C33", main)

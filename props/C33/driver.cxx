// C33 driver: dumps the table of supported characters and runs the REAL getMangledString (src/UnicodeSupport/UnicodeSupport.cxx from REPO)
//   driver dump            -> "E <hex utf-8 bytes> <hex mangled name> <category>" per description
//   driver mangle <file>   -> hex of getMangledString(s) for every hex-encoded line of <file>
#include <fstream>
#include <iostream>
#include <string>
#include "TFEL/UnicodeSupport/UnicodeSupport.hxx"

static std::string hex(const std::string& s) {
  if (s.empty()) return "-";
  static const char* d = "0123456789abcdef";
  std::string r;
  for (unsigned char c : s) {
    r.push_back(d[c >> 4]);
    r.push_back(d[c & 15]);
  }
  return r;
}
static std::string unhex(const std::string& h) {
  std::string r;
  if (h == "-") return r;
  for (std::size_t i = 0; i + 1 < h.size(); i += 2) r.push_back(static_cast<char>(std::stoi(h.substr(i, 2), nullptr, 16)));
  return r;
}

int main(int argc, char** argv) {
  const std::string mode = argc > 1 ? argv[1] : "dump";
  if (mode == "dump") {
    for (const auto& d : tfel::unicode::getSupportedUnicodeCharactersDescriptions()) {
      std::cout << "E " << hex(d.uc ? d.uc : "") << " " << hex(d.m ? d.m : "") << " " << static_cast<int>(d.c) << "\n";
    }
    return 0;
  }
  std::ifstream in(argv[2]);
  std::string h;
  while (in >> h) std::cout << hex(tfel::unicode::getMangledString(unhex(h))) << "\n";
  return 0;
}

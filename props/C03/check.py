"""C03 -- symmetric eigen-solvers return a valid spectral decomposition.
Engine S: the non-iterative pieces (characteristic polynomial of the default solver with the cubic solver abstracted, 2D
closed forms, cross-product helper, Harari's eigenvalue formulas) are regenerated from /repo as Coq definitions and the
theorems re-checked.  Execution (tie + failing-input search): all 8 solvers of stensor<N,double>, N=2,3, are run on a
structured generator and the property predicate (residual, orthonormality, reconstruction, values-only API, finiteness;
tolerances relative to the norm, per solver family and conditioning class) is evaluated in Python on the real outputs."""
import os, sys, json
from concurrent.futures import ThreadPoolExecutor
sys.path.insert(0, os.path.dirname(os.path.abspath(__file__)))
from vlib import guarded_main
import gen

SUPPORT = ["src/Exception/ContractViolation.cxx"]
tolerance = gen.tolerance


def main(c):
    with ThreadPoolExecutor(max_workers=2) as ex:
        f1 = ex.submit(c.cxx, "trace", ["trace.cxx"], SUPPORT, ["-DNDEBUG"])
        f2 = ex.submit(c.cxx, "driver", ["driver.cxx"], SUPPORT, ["-DNDEBUG"])
        tracer, driver = f1.result(), f2.result()
    gen_v = os.path.join(c.work, "coq", "C03_gen.v")
    os.makedirs(os.path.dirname(gen_v), exist_ok=True)
    rc, out, err = c.run([tracer, "gen", gen_v, str(c.seed % 1000003), str(c.pick(400, 5000))])
    if rc != 0:
        c.report("trace", "tracer failed on /repo's eigen-solver headers: " + err[-500:], {"stderr": err[-3000:]}, False)
        return
    nag = 0
    for l in out.splitlines():
        if l.startswith("AGREE"):
            t = l.split()
            ok, fail = int(t[2].split("=")[1]), int(t[3].split("=")[1])
            nag += ok + fail
            c.count(ok + fail)
            if fail:
                c.report("agree:" + t[1], "traced definition %s and the double instantiation disagree: %s" % (t[1], l), {"line": l}, True)
    c.coverage["traces_validated_against_impl"] = nag
    c.trusted("engine S tracer (cxx/sym/sym.hxx: operator overloads, path oracle, printer) and g++ template instantiation with Sym",
              "substitution of tfel::math::CubicRoots for T=Sym only (props/C03/trace.cxx): roots are abstracted, the polynomial handed over is recorded",
              "#define private public to reach the private helper cross_product",
              "Python evaluation of the property predicate in binary64 (props/C03/gen.py), Python reference Jacobi for the values-only API",
              "drivers compiled with -DNDEBUG as every build type of /repo's CMake configuration does")

    # ---- the real code on the structured generator (runs while Coq compiles)
    cases = gen.cases(c.rng, c.pick(300, 5000))
    inp = "\n".join("%s %d %s" % (cs[0], cs[2], " ".join(float.hex(x) for x in cs[3])) for cs in cases) + "\n"
    with ThreadPoolExecutor(max_workers=3) as ex:
        frun = ex.submit(c.run, [driver], 900, inp)
        res = c.coq([gen_v, "C03Spec.v", "C03Statements.v", "C03Proofs.v", "Properties_C03.v"], timeout=900)
        res_h = c.coq(["C03ProofsHarari.v", "Properties_C03_harari.v"], timeout=600) if res.files and res.files[0][1] else None
        rc, out, err = frun.result()
    if rc != 0:
        c.report("run", "driver failed (rc=%d): %s" % (rc, err[-500:]), {"stderr": err[-3000:]}, False)
        return
    byid = {cs[0]: cs for cs in cases}
    worst = {}
    failing = {}     # solver -> list of keys
    nres = 0
    for l in out.splitlines():
        t = l.split()
        if not t or t[0] != "R":
            continue
        cid, n, solver, status = t[1], int(t[2]), t[3], t[4]
        cs = byid[cid]
        cat, s = cs[1], cs[3]
        nres += 1
        c.count(1, (solver, n, cid), cat != "random")
        bad = []
        vals = [float.fromhex(x) for x in t[5:17]]
        ev = [float.fromhex(x) for x in t[18:21]]
        vp, m = vals[:3], [vals[3:6], vals[6:9], vals[9:12]]
        mt = None
        if status != "ok":
            bad.append(("throw", status))
        else:
            mt = gen.metrics(s, vp, m, ev)
            if not mt["finite"]:
                bad.append(("nonfinite", "non-finite output"))
            else:
                for k in ("residual", "orth", "recon", "values", "vpvalues"):
                    w = worst.setdefault((solver, n, cat), {})
                    w[k] = max(w.get(k, 0.0), mt[k])
                    if mt[k] > tolerance(solver, n, cat, k):
                        bad.append(("inaccurate", "%s=%.3g > %.1g" % (k, mt[k], tolerance(solver, n, cat, k))))
        if nres % 1499 == 1:
            c.sample({"solver": solver, "N": n, "class": cat, "tensor": s, "eigenvalues": vp,
                      "metrics": {k: v for k, v in (mt or {}).items() if k != "finite"}})
        if len(bad) > 1:
            bad = [(bad[0][0], "; ".join(b[1] for b in bad))]
        for kind, txt in bad:
            key = "%s:%d:%s:%s" % (solver, n, cat, kind)
            failing.setdefault(solver, []).append(key)
            c.report(key, "stensor<%d,double>::computeEigenVectors/Values<%s> on the %s tensor %s returns eigenvalues %s, vectors(row major) %s, values-only %s: %s "
                     "(tolerances relative to the norm)" % (n, solver, cat, s, vp, vals[3:], ev, txt),
                     {"solver": solver, "N": n, "class": cat, "tensor_mandel": s, "tensor_hex": [float.hex(x) for x in s],
                      "eigenvalues": vp, "eigenvectors_row_major": vals[3:], "values_only": ev, "metrics": mt,
                      "how": "echo '<id> %d <hex components>' | props/C03/driver (built by the check)" % n}, True)
    c.coverage["rule"] = ("seeded structured generator (props/C03/gen.py): diagonal (fixed corpus incl. diag(a,0,0), ties, zero tensor), repeated, "
                          "nearly repeated (relative gaps 1e-1..1e-15), badly scaled (1e-150..1e150, spreads 1e3..1e12), nearly diagonal, random rotations; "
                          "N=2,3; 8 solvers; non-trivial = every class but `random`")
    c.coverage["worst_observed"] = {"%s:%d:%s" % k: {kk: float("%.3g" % vv) for kk, vv in v.items()} for k, v in sorted(worst.items())}
    c.notes.append("NOT proved (execution only): convergence/tolerance of Jacobi, QL, Cuppen, hybrid, Gte and Harari iterations/trigonometric forms, eigenvector "
                   "construction of the default solver beyond the cross-product facts, finite-in => finite-out, rounding")

    # ---- broken obligations: explained by concrete failing inputs when execution found some for the same solver
    def explain(r, solvers):
        if r is None or r.ok:
            return
        hits = [k for s in solvers for k in failing.get(s, [])]
        if hits:
            c.notes.append("proof obligations %s no longer check; concrete failing inputs reported: %s" % ([f[2] for f in r.failed], sorted(set(hits))[:6]))
        else:
            c.coq_failures(r, None)
    if res_h is not None and not res_h.ok and not res_h.theorems:
        c.coverage["obligations"] += 1   # Properties_C03_harari.v was not reached: its theorem is an undischarged obligation
    explain(res, ["TFEL"])
    explain(res_h, ["HARARI"])


guarded_main("C03", main)

"""C03 -- symmetric eigen-solvers return a valid spectral decomposition.
Engine S: the non-iterative pieces (characteristic polynomial of the default solver with the cubic solver abstracted, 2D
closed forms, cross-product helper, computeEigenVector and find_perpendicular_vector of the default solver, Harari's eigenvalue
formulas, the Householder reduction sytrd3, and ONE rotation of the cyclic Jacobi method syevj3 from a general state) are
regenerated from /repo as Coq definitions and the theorems re-checked; the Jacobi rotation is lifted to any number of sweeps by
induction in a small hand model (C03Jacobi.v).  Execution (tie + failing-input search): all 8 solvers of stensor<N,double>,
N=2,3, are run on a structured generator and the property predicate (residual, orthonormality, reconstruction, values-only API,
finiteness; tolerances relative to the norm, per solver family and conditioning class) is evaluated in Python on the real
outputs; find_perpendicular_vector and computeEigenVector are also run directly."""
import os, sys, math, re
from concurrent.futures import ThreadPoolExecutor
sys.path.insert(0, os.path.dirname(os.path.abspath(__file__)))
from vlib import guarded_main
import gen

SUPPORT = ["src/Exception/ContractViolation.cxx"]
tolerance = gen.tolerance
PREFIX = ["C03Spec.v", "C03Tactics.v", "C03Jacobi.v", "C03Statements.v", "C03StatementsB.v"]
# chains compiled side by side after the common prefix; solvers / helper runs whose concrete failures explain a broken chain
CHAINS = [
    ("default", ["C03Proofs.v", "Properties_C03.v"], ["TFEL"]),
    ("jacobi", ["C03ProofsJacobi.v", "Properties_C03_jacobi.v"], ["FSESJACOBI"]),
    ("evec", ["C03ProofsEvec.v", "Properties_C03_evec.v"], ["TFEL", "perp", "evec"]),
    ("householder+harari", ["C03ProofsHouseholder.v", "Properties_C03_householder.v", "C03ProofsHarari.v", "Properties_C03_harari.v"],
     ["FSESQL", "FSESCUPPEN", "FSESHYBRID", "HARARI"]),
]


def bucket(dev):
    """magnitude class of a deviation (relative to the norm): known findings are listed per class AND magnitude, so that a larger
    deviation inside an already failing class is a new violation.  Classes: <= 1e-6, <= 1e-4, <= 1e-2, above (`gt1e-2`)."""
    for e in (-6, -4, -2):
        if dev <= 10.0 ** e:
            return "le1e%d" % e
    return "gt1e-2"


def helper_inputs(rng, n):
    """vectors for find_perpendicular_vector (every branch: each component smallest, ties, zeros) and (tensor, eigenvalue) pairs
    with a well separated spectrum for computeEigenVector"""
    P, V = [], []
    fixed = [(3, 2, 6), (2, 3, 6), (6, 3, 2), (6, 2, 3), (2, 6, 3), (3, 6, 2), (1, 0, 0), (0, 1, 0), (0, 0, 1), (1, 1, 0), (0, 1, 1), (1, 0, 1),
             (1, 1, 1), (-1, 2, -2), (2, -1, 2), (2, 2, -1), (0.5, -0.25, 0.125), (1e-3, 1.0, 1e3), (1e3, 1e-3, 1.0), (1.0, 1e3, 1e-3)]
    for v in fixed:
        nv = math.sqrt(sum(x * x for x in v))
        P.append(("fix:perp(%s)" % ",".join("%g" % x for x in v), [x / nv for x in v]))
    for k in range(n):
        sc = 10.0 ** rng.uniform(-3, 3) if k % 3 == 0 else 1.0
        P.append(("perp_%d" % k, [sc * rng.uniform(-1, 1) for _ in range(3)]))
    for k in range(n):
        lmb = sorted(rng.sample([-3.0, -2.0, -1.0, 0.5, 1.5, 2.5, 4.0], 3))
        lmb = [x + rng.uniform(-0.2, 0.2) for x in lmb]
        q = gen.rot_from_quat(rng) if k % 4 else [[1.0, 0, 0], [0, 1.0, 0], [0, 0, 1.0]]
        s = gen.to_mandel(gen.sym_from(lmb, q), 3)
        V.append(("evec_%d" % k, s, lmb[k % 3]))
    return P, V


def main(c):
    with ThreadPoolExecutor(max_workers=2) as ex:
        f1 = ex.submit(c.cxx, "trace", ["trace.cxx"], SUPPORT, ["-DNDEBUG"])
        f2 = ex.submit(c.cxx, "driver", ["driver.cxx"], SUPPORT, ["-DNDEBUG"])
        tracer, driver = f1.result(), f2.result()
    gen_v = os.path.join(c.work, "coq", "C03_gen.v")
    os.makedirs(os.path.dirname(gen_v), exist_ok=True)
    rc, out, err = c.run([tracer, "gen", gen_v, str(c.seed % 1000003), str(c.pick(400, 5000))])
    if rc != 0:
        c.report("trace", "tracer failed on /repo's eigen-solver headers: " + err[-500:], {"stderr": err[-3000:]}, False)
        return
    nag = 0
    for l in out.splitlines():
        if l.startswith("AGREE"):
            t = l.split()
            ok, fail = int(t[2].split("=")[1]), int(t[3].split("=")[1])
            nag += ok + fail
            c.count(ok + fail)
            if fail:
                c.report("agree:" + t[1], "traced definition %s and the double instantiation disagree: %s" % (t[1], l), {"line": l}, True)
    c.coverage["traces_validated_against_impl"] = nag
    c.trusted("engine S tracer (cxx/sym/sym.hxx: operator overloads, path oracle, printer incl. the elision of tests whose two branches are identical) and g++ template instantiation with Sym",
              "substitution of tfel::math::CubicRoots for T=Sym only (props/C03/trace.cxx): roots are abstracted, the polynomial handed over is recorded",
              "#define private public to reach the private helpers cross_product, find_perpendicular_vector, computeEigenVector (tracer and driver)",
              "matrix wrappers of props/C03/trace.cxx that start fses::syevj3 on a general state and stop it after its first rotation (first access to A after Q was updated); std::fpclassify(Sym) = FP_ZERO only for the constant 0",
              "Python evaluation of the property predicate in binary64 (props/C03/gen.py), Python reference Jacobi for the values-only API",
              "drivers compiled with -DNDEBUG as every build type of /repo's CMake configuration does")

    # ---- the real code on the structured generator (runs while Coq compiles)
    cases = gen.cases(c.rng, c.pick(300, 5000))
    P, V = helper_inputs(c.rng, c.pick(300, 3000))
    inp = "\n".join("%s %d %s" % (cs[0], cs[2], " ".join(float.hex(x) for x in cs[3])) for cs in cases) + "\n"
    inp += "".join("P %s %s\n" % (i, " ".join(float.hex(x) for x in v)) for (i, v) in P)
    inp += "".join("V %s %s %s\n" % (i, " ".join(float.hex(x) for x in s), float.hex(l)) for (i, s, l) in V)
    results = {}
    with ThreadPoolExecutor(max_workers=4) as ex:
        frun = ex.submit(c.run, [driver], 900, inp)
        pre = c.coq([gen_v] + PREFIX, timeout=900)
        if pre.ok:
            futs = [(name, files, ex.submit(c.coq, files, 900)) for (name, files, _s) in CHAINS]
            for (name, files, f) in futs:
                results[name] = f.result()
        rc, out, err = frun.result()
    if not pre.ok:
        # nothing could be stated: every theorem of every chain is an undischarged obligation
        for (_n, files, _s) in CHAINS:
            for fn in files:
                if fn.startswith("Properties"):
                    c.coverage["obligations"] += len(re.findall(r"^Theorem ", open(os.path.join(c.dir, "coq", fn)).read(), flags=re.M))
    for (name, files, _s) in CHAINS:
        r = results.get(name)
        if r is None:
            continue
        reached = [x[0] for x in r.files]
        for fn in files:
            if fn.startswith("Properties") and fn not in reached:   # a proofs file broke before this property file was reached
                c.coverage["obligations"] += len(re.findall(r"^Theorem ", open(os.path.join(c.dir, "coq", fn)).read(), flags=re.M))
    if rc != 0:
        c.report("run", "driver failed (rc=%d): %s" % (rc, err[-500:]), {"stderr": err[-3000:]}, False)
        return
    byid = {cs[0]: cs for cs in cases}
    pby = dict(P)
    vby = {i: (s, l) for (i, s, l) in V}
    worst = {}
    failing = {}     # solver / helper -> keys of NEW violations (not of known findings)
    nres = 0
    for l in out.splitlines():
        t = l.split()
        if not t:
            continue
        if t[0] == "P":
            # find_perpendicular_vector: unit and orthogonal to its (non null) argument
            x = pby[t[1]]
            y = [float.fromhex(v) for v in t[2:5]]
            c.count(1, ("perp", t[1]), True)
            nx = math.sqrt(sum(v * v for v in x))
            bad = None
            if not all(math.isfinite(v) for v in y):
                bad = "non-finite result"
            else:
                un = abs(math.sqrt(sum(v * v for v in y)) - 1.0)
                ort = abs(sum(a * b for a, b in zip(x, y))) / nx if nx > 0 else 0.0
                if un > 1e-12 or ort > 1e-12:
                    bad = "| |y| - 1 | = %.3g, |x.y|/|x| = %.3g (tolerance 1e-12)" % (un, ort)
            if bad:
                ax = [abs(v) for v in x]
                br = "x%d-smallest" % ax.index(min(ax))
                key = "perp:%s" % (t[1] if t[1].startswith("fix:") else br)
                new = c.report(key, "StensorComputeEigenVectors<3>::find_perpendicular_vector(x) with x = %s returns y = %s: %s" % (x, y, bad),
                         {"x": x, "x_hex": [float.hex(v) for v in x], "y": y, "how": "echo 'P id <hex x0 x1 x2>' | props/C03/driver"}, True)
                if new:
                    failing.setdefault("perp", []).append(key)
            continue
        if t[0] == "V":
            s, lam = vby[t[1]]
            v = [float.fromhex(z) for z in t[3:6]]
            c.count(1, ("evec", t[1]), True)
            a = gen.from_mandel(s)
            nrm = max(abs(z) for r_ in a for z in r_)
            bad = None
            if t[2] != "ok":
                bad = "status %s on a tensor with a well separated spectrum" % t[2]
            elif not all(math.isfinite(z) for z in v):
                bad = "non-finite result"
            else:
                un = abs(math.sqrt(sum(z * z for z in v)) - 1.0)
                res = math.sqrt(sum((sum(a[i][k] * v[k] for k in range(3)) - lam * v[i]) ** 2 for i in range(3))) / nrm
                if un > 1e-12 or res > 1e-8:
                    bad = "| |v| - 1 | = %.3g, |A v - l v|/|A| = %.3g (tolerances 1e-12, 1e-8)" % (un, res)
            if bad:
                key = "evec:%s" % ("status" if t[2] != "ok" else "inaccurate")
                new = c.report(key, "StensorComputeEigenVectors<3>::computeEigenVector(s, vp) with s = %s, vp = %r returns %s: %s" % (s, lam, v, bad),
                         {"tensor_mandel": s, "vp": lam, "v": v, "how": "echo 'V id <hex s0..s5 vp>' | props/C03/driver"}, True)
                if new:
                    failing.setdefault("evec", []).append(key)
            continue
        if t[0] != "R":
            continue
        cid, n, solver, status = t[1], int(t[2]), t[3], t[4]
        cs = byid[cid]
        cat, s = cs[1], cs[3]
        nres += 1
        c.count(1, (solver, n, cid), cat != "random")
        bad = []
        vals = [float.fromhex(x) for x in t[5:17]]
        ev = [float.fromhex(x) for x in t[18:21]]
        vp, m = vals[:3], [vals[3:6], vals[6:9], vals[9:12]]
        mt = None
        dev = 0.0
        if status != "ok":
            bad.append(("throw", status))
        else:
            mt = gen.metrics(s, vp, m, ev)
            if not mt["finite"]:
                bad.append(("nonfinite", "non-finite output"))
            else:
                for k in ("residual", "orth", "recon", "values", "vpvalues"):
                    w = worst.setdefault((solver, n, cat), {})
                    w[k] = max(w.get(k, 0.0), mt[k])
                    if mt[k] > tolerance(solver, n, cat, k):
                        dev = max(dev, mt[k])
                        bad.append(("inaccurate", "%s=%.3g > %.1g" % (k, mt[k], tolerance(solver, n, cat, k))))
        if nres % 1499 == 1:
            c.sample({"solver": solver, "N": n, "class": cat, "tensor": s, "eigenvalues": vp,
                      "metrics": {k: v for k, v in (mt or {}).items() if k != "finite"}})
        if len(bad) > 1:
            bad = [(bad[0][0], "; ".join(b[1] for b in bad))]
        for kind, txt in bad:
            # fixed corpus entries are identified by their content, seeded ones by their class; deviations by their magnitude
            where = cid if cid.startswith("fix:") else cat
            key = "%s:%d:%s:%s" % (solver, n, where, kind)
            if kind == "inaccurate":
                key += ":" + bucket(dev)
            new = c.report(key, "stensor<%d,double>::computeEigenVectors/Values<%s> on the %s tensor %s returns eigenvalues %s, vectors(row major) %s, values-only %s: %s "
                     "(tolerances relative to the norm)" % (n, solver, cat, s, vp, vals[3:], ev, txt),
                     {"solver": solver, "N": n, "class": cat, "tensor_mandel": s, "tensor_hex": [float.hex(x) for x in s],
                      "eigenvalues": vp, "eigenvectors_row_major": vals[3:], "values_only": ev, "metrics": mt,
                      "how": "echo '<id> %d <hex components>' | props/C03/driver (built by the check)" % n}, True)
            if new:   # known findings explain nothing: only new concrete failures may stand for a broken obligation
                failing.setdefault(solver, []).append(key)
    c.coverage["rule"] = ("seeded structured generator (props/C03/gen.py): diagonal (fixed corpus incl. diag(a,0,0), ties, zero tensor), exactly double eigenvalue with "
                          "rational eigenvectors (fixed corpus, 76 tensors), repeated, nearly repeated (relative gaps 1e-1..1e-15), badly scaled (1e-150..1e150, spreads "
                          "1e3..1e12), nearly diagonal, random rotations; N=2,3; 8 solvers; non-trivial = every class but `random`; plus direct runs of "
                          "find_perpendicular_vector (%d vectors) and computeEigenVector (%d tensor/eigenvalue pairs)" % (len(P), len(V)))
    c.coverage["worst_observed"] = {"%s:%d:%s" % k: {kk: float("%.3g" % vv) for kk, vv in v.items()} for k, v in sorted(worst.items())}
    c.notes.append("NOT proved (execution only): convergence/tolerance of Jacobi, QL, Cuppen, hybrid, Gte and Harari iterations/trigonometric forms, the selection "
                   "logic of StensorComputeEigenVectors<3>::computeEigenVectors around the proved helpers, the steps of syevj3 that set a negligible A(p,q) to zero, "
                   "finite-in => finite-out, rounding")

    # ---- broken obligations: explained by concrete failing inputs when execution found some for the same piece of code
    def explain(r, solvers):
        if r is None or r.ok:
            return
        hits = [k for s in solvers for k in failing.get(s, [])]
        if hits:
            c.notes.append("proof obligations %s no longer check; concrete failing inputs reported: %s" % ([f[2] for f in r.failed], sorted(set(hits))[:6]))
        else:
            c.coq_failures(r, None)
    if not pre.ok:
        c.coq_failures(pre, None)
    for (name, _files, solvers) in CHAINS:
        explain(results.get(name), solvers)


guarded_main("C03", main)

"""C03/C05 shared: structured generator of symmetric tensors (Mandel storage as in tfel::math::stensor) and the
property predicate of a spectral decomposition, written independently of the code under test (plain Python floats)."""
import math

SQ2 = math.sqrt(2.0)
ITERATIVE = {"FSESJACOBI", "FSESQL", "FSESCUPPEN", "GTE"}
ILL = {"repeated", "near", "spread", "double"}   # classes where analytical solvers are documented/expected to lose accuracy


def tolerance(solver, n, cat, metric):
    """alarm thresholds, relative to the norm of the tensor.  Documented accuracies (docs/web/release-notes-3.1.md and
    release-notes-5.0.md, max residual on 1e6 random tensors in [-1,1], double): Jacobi 1e-15, GTE 2e-15, QL 3e-15,
    Cuppen 6e-15, TFEL 8e-14, Harari 2e-14, hybrid 3.5e-10, analytical 1.1e-9; the analytical families lose about half
    of the digits on (nearly) repeated eigenvalues (1e-8 on the values is normal).  Thresholds are far above those."""
    if n == 2:
        return 1e-10          # closed forms
    if solver in ITERATIVE:
        return 1e-8 if cat in ILL else 1e-10
    if cat in ILL:
        return 1e-6 if metric in ("values", "vpvalues") else 1e-3
    return 1e-6





def rot_from_quat(rng):
    while True:
        q = [rng.gauss(0, 1) for _ in range(4)]
        n = math.sqrt(sum(x * x for x in q))
        if n > 1e-3:
            break
    w, x, y, z = [c / n for c in q]
    return [[1 - 2 * (y * y + z * z), 2 * (x * y - z * w), 2 * (x * z + y * w)],
            [2 * (x * y + z * w), 1 - 2 * (x * x + z * z), 2 * (y * z - x * w)],
            [2 * (x * z - y * w), 2 * (y * z + x * w), 1 - 2 * (x * x + y * y)]]


def rot_z(a):
    c, s = math.cos(a), math.sin(a)
    return [[c, -s, 0.0], [s, c, 0.0], [0.0, 0.0, 1.0]]


def small_rot(rng, mag):
    """rotation close to the identity (first order + re-orthonormalisation by one Gram-Schmidt pass)"""
    a, b, c = [mag * rng.uniform(-1, 1) for _ in range(3)]
    m = [[1.0, -c, b], [c, 1.0, -a], [-b, a, 1.0]]
    # Gram-Schmidt on columns
    cols = [[m[i][j] for i in range(3)] for j in range(3)]
    out = []
    for v in cols:
        for u in out:
            d = sum(v[i] * u[i] for i in range(3))
            v = [v[i] - d * u[i] for i in range(3)]
        n = math.sqrt(sum(x * x for x in v))
        out.append([x / n for x in v])
    return [[out[j][i] for j in range(3)] for i in range(3)]


def sym_from(lmb, q):
    """Q diag(lmb) Q^T as a full symmetric 3x3"""
    a = [[0.0] * 3 for _ in range(3)]
    for i in range(3):
        for j in range(i, 3):
            v = sum(q[i][k] * lmb[k] * q[j][k] for k in range(3))
            a[i][j] = a[j][i] = v
    return a


def to_mandel(a, n):
    if n == 2:
        return [a[0][0], a[1][1], a[2][2], a[0][1] * SQ2]
    return [a[0][0], a[1][1], a[2][2], a[0][1] * SQ2, a[0][2] * SQ2, a[1][2] * SQ2]


def from_mandel(s):
    a = [[s[0], 0.0, 0.0], [0.0, s[1], 0.0], [0.0, 0.0, s[2]]]
    a[0][1] = a[1][0] = s[3] / SQ2
    if len(s) == 6:
        a[0][2] = a[2][0] = s[4] / SQ2
        a[1][2] = a[2][1] = s[5] / SQ2
    return a


def cases(rng, n_random, dims=(2, 3)):
    """list of (id, category, N, mandel vector).  Every category of the property's quantifier is present:
    diagonal, repeated, nearly repeated (gaps 1e-1..1e-15), badly scaled (`scaled` 1e+-8, 1e+-30; `extreme` 1e+-100, 1e+-150;
    `spread` = eigenvalues of very different magnitude), nearly diagonal, random rotations."""
    out = []

    def add(cat, n, lmb, q, fixed=None):
        a = sym_from(lmb, q)
        if n == 2:
            # plane tensor: rotation about z only was used by the caller
            a[0][2] = a[2][0] = a[1][2] = a[2][1] = 0.0
        # fixed corpus entries (the same tensor on every run, whatever the seed) are named after their content
        out.append(("fix:%s" % fixed if fixed else "%s%d_%d" % (cat, n, len(out)), cat, n, to_mandel(a, n)))

    ident = [[1.0, 0, 0], [0, 1.0, 0], [0, 0, 1.0]]
    base = [(1.5, 7.0, 4.25), (1.0, 0.0, 0.0), (0.0, 0.0, 0.0), (2.0, 2.0, 2.0), (5.0, 5.0, 1.0), (1.0, 5.0, 5.0),
            (5.0, 1.0, 5.0), (-3.0, 2.0, 1.0), (-1.0, -1.0, 4.0), (3.0, -3.0, 0.0), (0.0, 0.0, 7.0), (0.0, 2.5, 0.0),
            (1.0, 2.0, 3.0), (-2.0, -2.0, -2.0), (1e-3, 1.0, 1e3), (1.0, 1.0 + 1e-9, 2.0), (0.1, 0.2, 0.3)]
    for n in dims:
        # diagonal tensors (all permutations are in `base`; plus seeded ones)
        for l in base:
            add("diag", n, l, ident, fixed="diag%d(%s)" % (n, ",".join("%.12g" % x for x in l)))
        if n == 3:
            # exactly double eigenvalue with rational eigenvectors: b I + (a - b) u u^T, u a Pythagorean quadruple / its norm
            # (the Cardano step of the default solver detects part of them as exactly double, which sends the eigenvector
            # construction through find_perpendicular_vector; the three orders of |u_i| reach its three branches)
            for (a_, b_) in ((-5.0, 1.0), (2.0, -1.0), (7.0, 3.0), (1.0, 4.0)):
                for u in ((3, 2, 6), (2, 3, 6), (6, 3, 2), (2, 6, 3), (6, 2, 3), (3, 6, 2), (1, 2, 2), (2, 1, 2), (2, 2, 1),
                          (1, 4, 8), (4, 1, 8), (8, 4, 1), (4, 4, 7), (7, 4, 4), (2, 6, 9), (9, 2, 6), (6, 9, 2), (-3, 2, 6), (3, -6, 2)):
                    nu = math.sqrt(sum(x * x for x in u))
                    m = [[b_ * (1.0 if i == j else 0.0) + (a_ - b_) * u[i] * u[j] / (nu * nu) for j in range(3)] for i in range(3)]
                    out.append(("fix:double3(a=%g,b=%g,u=%d/%d/%d)" % ((a_, b_) + u), "double", 3, to_mandel(m, 3)))
        for _ in range(max(4, n_random // 20)):
            add("diag", n, [rng.uniform(-10, 10) for _ in range(3)], ident)

        def rq():
            return rot_z(rng.uniform(-math.pi, math.pi)) if n == 2 else rot_from_quat(rng)
        # repeated eigenvalues, rotated
        for _ in range(max(6, n_random // 8)):
            a, b = rng.uniform(-5, 5), rng.uniform(-5, 5)
            pat = rng.choice([(a, a, b), (a, b, a), (b, a, a), (a, a, a)])
            add("repeated", n, pat, rq())
        # nearly repeated: gap 1e-k relative
        for k in range(1, 16):
            for _ in range(max(1, n_random // 60)):
                a, b = rng.uniform(0.5, 5) * rng.choice([-1, 1]), rng.uniform(-5, 5)
                g = a * (1 + 10.0 ** (-k))
                pat = rng.choice([(a, g, b), (a, b, g), (b, a, g), (a, g, a * (1 - 10.0 ** (-k)))])
                add("near", n, pat, rq())
        # badly scaled: global scale and spread of magnitudes
        for k in (-150, -100, -30, -8, 8, 30, 100, 150):
            for _ in range(max(1, n_random // 80)):
                sc = 10.0 ** k
                add("scaled" if abs(k) <= 30 else "extreme", n, [sc * rng.uniform(-2, 2) for _ in range(3)], rq())
        for k in (3, 6, 9, 12):
            for _ in range(max(1, n_random // 60)):
                l = [rng.uniform(0.5, 2), rng.uniform(0.5, 2) * 10.0 ** k, rng.uniform(0.5, 2) * 10.0 ** (-k)]
                rng.shuffle(l)
                add("spread", n, l, rq())
        # nearly diagonal (tiny off-diagonal terms)
        for k in (4, 8, 12, 16):
            for _ in range(max(1, n_random // 60)):
                q = small_rot(rng, 10.0 ** (-k)) if n == 3 else rot_z(10.0 ** (-k) * rng.uniform(-1, 1))
                add("neardiag", n, [rng.uniform(-5, 5) for _ in range(3)], q)
        # generic random rotations
        for _ in range(n_random):
            add("random", n, [rng.uniform(-1, 1) for _ in range(3)], rq())
    return out


def jacobi_eigvals(a):
    """independent reference: cyclic Jacobi on a full symmetric 3x3, returns sorted eigenvalues"""
    a = [row[:] for row in a]
    for _ in range(60):
        off = abs(a[0][1]) + abs(a[0][2]) + abs(a[1][2])
        if off == 0.0:
            break
        for p, q in ((0, 1), (0, 2), (1, 2)):
            if a[p][q] == 0.0:
                continue
            th = (a[q][q] - a[p][p]) / (2.0 * a[p][q])
            t = (1.0 if th >= 0 else -1.0) / (abs(th) + math.sqrt(th * th + 1.0)) if abs(th) < 1e150 else 0.5 / th
            c = 1.0 / math.sqrt(t * t + 1.0)
            s = t * c
            for k in range(3):
                akp, akq = a[k][p], a[k][q]
                a[k][p] = c * akp - s * akq
                a[k][q] = s * akp + c * akq
            for k in range(3):
                apk, aqk = a[p][k], a[q][k]
                a[p][k] = c * apk - s * aqk
                a[q][k] = s * apk + c * aqk
    return sorted(a[i][i] for i in range(3))


def metrics(s, vp, m, ev):
    """property predicate of a spectral decomposition, all relative to the norm of the tensor:
    residual max_i ||A v_i - l_i v_i|| / ||A||, orthonormality ||V^T V - I||_max, reconstruction ||V L V^T - A||_max/||A||,
    distance of the values-only API to the reference spectrum, finiteness."""
    a = from_mandel(s)
    finite = all(math.isfinite(x) for x in list(vp) + [x for r in m for x in r] + list(ev))
    # scale to avoid overflow/underflow in the predicate itself
    nrm = max(abs(x) for r in a for x in r)
    if not finite:
        return {"finite": False, "norm": nrm}
    res = {"finite": True, "norm": nrm}
    if nrm == 0.0:
        sc = 1.0
    else:
        sc = 1.0 / nrm
    an = [[x * sc for x in r] for r in a]
    vpn = [x * sc for x in vp]
    evn = [x * sc for x in ev]
    r_max = 0.0
    for j in range(3):
        v = [m[i][j] for i in range(3)]
        av = [sum(an[i][k] * v[k] for k in range(3)) - vpn[j] * v[i] for i in range(3)]
        r_max = max(r_max, math.sqrt(sum(x * x for x in av)))
    orth = 0.0
    for i in range(3):
        for j in range(3):
            d = sum(m[k][i] * m[k][j] for k in range(3)) - (1.0 if i == j else 0.0)
            orth = max(orth, abs(d))
    rec = 0.0
    for i in range(3):
        for j in range(3):
            d = sum(m[i][k] * vpn[k] * m[j][k] for k in range(3)) - an[i][j]
            rec = max(rec, abs(d))
    ref = jacobi_eigvals(an)
    dv = max(abs(x - y) for x, y in zip(sorted(evn), ref))
    dvp = max(abs(x - y) for x, y in zip(sorted(vpn), ref))
    res.update({"residual": r_max, "orth": orth, "recon": rec, "values": dv, "vpvalues": dvp})
    return res

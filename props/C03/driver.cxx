// C03 driver: runs the REAL eigen solvers of /repo (stensor<N,double>) on tensors read from stdin.
// input lines :  P <id> x0 x1 x2                 -> P <id> y0 y1 y2          (find_perpendicular_vector)
//                V <id> s0 .. s5 vp              -> V <id> ok|false v0 v1 v2 (computeEigenVector(src, vp))
// input lines :  <id> <N> <s0> ... <s(k-1)>      (Mandel/TFEL storage, k = 4 (N=2) or 6 (N=3); hex or decimal floats)
// output lines:  R <id> <N> <solver> <status> vp0 vp1 vp2 m00 m01 m02 m10 ... m22 | ev0 ev1 ev2
//                (m(i,j) row major: column j is the j-th eigenvector; ev = computeEigenValues<es>() values-only API)
//                status = ok | throw:<what>
#include <cstdio>
#include <cstdlib>
#include <cstring>
#include <iostream>
#include <sstream>
#include <string>
#include <cmath>
#include <algorithm>
#include <type_traits>
#include <limits>
// the private helpers find_perpendicular_vector / computeEigenVector of StensorComputeEigenVectors<3> are run directly
// (lines P and V below); standard headers are included above, so only the TFEL classes are opened
#define private public
#include "TFEL/Math/stensor.hxx"
#include "TFEL/Math/tmatrix.hxx"
#include "TFEL/Math/tvector.hxx"
#include "TFEL/Math/Stensor/Internals/StensorComputeEigenVectors.hxx"
#undef private

using tfel::math::stensor;
using tfel::math::stensor_common;
using tfel::math::tmatrix;
using tfel::math::tvector;

template <unsigned short N, stensor_common::EigenSolver es>
static void one(const char* solver, const std::string& id, const stensor<N, double>& s) {
  tvector<3u, double> vp(0.), ev(0.);
  tmatrix<3u, 3u, double> m(0.);
  std::string status = "ok";
  try {
    s.template computeEigenVectors<es>(vp, m);
  } catch (std::exception& e) {
    status = std::string("throw:") + e.what();
    for (auto& c : status)
      if (c == ' ' || c == '\n') c = '_';
  }
  try {
    s.template computeEigenValues<es>(ev);
  } catch (std::exception& e) {
    status += std::string("|throwv:") + e.what();
    for (auto& c : status)
      if (c == ' ' || c == '\n') c = '_';
  }
  std::printf("R %s %d %s %s", id.c_str(), int(N), solver, status.c_str());
  for (int i = 0; i < 3; ++i) std::printf(" %a", vp[i]);
  for (unsigned short i = 0; i < 3; ++i)
    for (unsigned short j = 0; j < 3; ++j) std::printf(" %a", m(i, j));
  std::printf(" |");
  for (int i = 0; i < 3; ++i) std::printf(" %a", ev[i]);
  std::printf("\n");
}

template <unsigned short N>
static void all(const std::string& id, const double* v) {
  stensor<N, double> s(0.);
  for (unsigned short i = 0; i < s.size(); ++i) s[i] = v[i];
  one<N, stensor_common::TFELEIGENSOLVER>("TFEL", id, s);
  one<N, stensor_common::FSESJACOBIEIGENSOLVER>("FSESJACOBI", id, s);
  one<N, stensor_common::FSESQLEIGENSOLVER>("FSESQL", id, s);
  one<N, stensor_common::FSESCUPPENEIGENSOLVER>("FSESCUPPEN", id, s);
  one<N, stensor_common::FSESANALYTICALEIGENSOLVER>("FSESANALYTICAL", id, s);
  one<N, stensor_common::FSESHYBRIDEIGENSOLVER>("FSESHYBRID", id, s);
  one<N, stensor_common::GTESYMMETRICQREIGENSOLVER>("GTE", id, s);
  one<N, stensor_common::HARARIEIGENSOLVER>("HARARI", id, s);
}

int main() {
  std::string line;
  while (std::getline(std::cin, line)) {
    if (line.empty() || line[0] == '#') continue;
    std::istringstream is(line);
    std::string id;
    int n = 0;
    if (line[0] == 'P' || line[0] == 'V') {
      namespace ti = tfel::math::internals;
      std::string kind, tok;
      is >> kind >> id;
      double x[7] = {0, 0, 0, 0, 0, 0, 0};
      const int k = (kind == "P") ? 3 : 7;
      for (int i = 0; i < k; ++i) {
        is >> tok;
        x[i] = std::strtod(tok.c_str(), nullptr);
      }
      double y0 = 0, y1 = 0, y2 = 0;
      if (kind == "P") {
        ti::StensorComputeEigenVectors<3u>::find_perpendicular_vector(y0, y1, y2, x[0], x[1], x[2]);
        std::printf("P %s %a %a %a\n", id.c_str(), y0, y1, y2);
      } else {
        bool ok = false;
        std::string status = "ok";
        try {
          ok = ti::StensorComputeEigenVectors<3u>::computeEigenVector(x, x[6], y0, y1, y2);
          if (!ok) status = "false";
        } catch (std::exception& e) {
          status = "throw";
        }
        std::printf("V %s %s %a %a %a\n", id.c_str(), status.c_str(), y0, y1, y2);
      }
      continue;
    }
    is >> id >> n;
    double v[6] = {0, 0, 0, 0, 0, 0};
    const int k = (n == 2) ? 4 : 6;
    bool ok = (n == 2 || n == 3);
    for (int i = 0; ok && i < k; ++i) {
      std::string tok;
      if (!(is >> tok)) {
        ok = false;
        break;
      }
      v[i] = std::strtod(tok.c_str(), nullptr);
    }
    if (!ok) {
      std::fprintf(stderr, "bad input line: %s\n", line.c_str());
      return 2;
    }
    if (n == 2) all<2u>(id, v);
    else all<3u>(id, v);
  }
  return 0;
}

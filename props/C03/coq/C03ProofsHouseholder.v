(* C03 -- fses::sytrd3 (regenerated tree sytrd of C03_gen.v): Q is orthogonal and Q^T A Q is tridiagonal, on every path *)
From Coq Require Import Reals List Lra Psatz Nsatz.
From VLib Require Import RealExtra.
From C03 Require Import C03Spec C03Jacobi C03_gen C03StatementsB C03Tactics.
Import ListNotations.
Local Open Scope R_scope.
(* omega <= 0 happens only when the first row is already in the desired form: a01 = a02 = 0 (then e0 = +-sqrt 0 = 0) *)
Ltac degenerate a01 a02 :=
  let Hz := fresh "Hz" in
  assert (Hz : a01 = 0 /\ a02 = 0) by
    (match goal with Hq : ?r * ?r = _, Hp : 0 <= ?r |- _ =>
       assert (r = 0) by nra; subst r; split; nra end);
  destruct Hz; subst a01 a02;
  match goal with Hq : ?r * ?r = _, Hp : 0 <= ?r |- _ => assert (r = 0) by nra; subst r end;
  split; f_equal; ring.

Lemma sytrd_correct a00 a01 a02 a11 a12 a22 : sytrd_ok a00 a01 a02 a11 a12 a22.
Proof.
  unfold sytrd_ok, sytrd. cbv zeta. split_tests.
  all: unfold orth; cbv [mmul mtr mI msym m00 m01 m02 m10 m11 m12 m20 m21 m22].
  all: flatten.
  all: first [ degenerate a01 a02 | (split; f_equal; poly_close_nz) ].
Qed.

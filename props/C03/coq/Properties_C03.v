(* C03 -- property theorems (statements; proofs in C03Proofs.v).  The definitions cev3, ev2, fses2, cross are regenerated
   from /repo's working tree on every run (C03_gen.v). *)
From Coq Require Import Reals List.
From C03 Require Import C03Spec C03_gen C03Statements C03Proofs.
Import ListNotations.
Local Open Scope R_scope.

(* Default solver, 3D (StensorComputeEigenValues<3>::exe with the cubic solver abstracted): on every path the code hands
   the cubic q3 x^3+q2 x^2+q1 x+q0 to the cubic solver and maps a root r to vpA = v r + t with v <> 0, and
   det (M(s) - vpA I) = v^3 (q3 r^3 + q2 r^2 + q1 r + q0): roots of the cubic are exactly the eigenvalues, multiplicities included. *)
Theorem C03_default_solver_eigenvalues_3D : forall s0 s1 s2 s3 s4 s5 r, cev3_ok s0 s1 s2 s3 s4 s5 r.
Proof. exact cev3_correct. Qed.
Print Assumptions C03_default_solver_eigenvalues_3D.

Theorem C03_roots_to_spectrum : forall (chi : R -> R) v t q3 q2 q1 q0 r1 r2 r3,
  v <> 0 ->
  (forall r, chi (v * r + t) = v * v * v * (q3 * (r * r * r) + q2 * (r * r) + q1 * r + q0)) ->
  (forall r, q3 * (r * r * r) + q2 * (r * r) + q1 * r + q0 = (r1 - r) * (r2 - r) * (r3 - r)) ->
  forall l, chi l = (v * r1 + t - l) * (v * r2 + t - l) * (v * r3 + t - l).
Proof. exact roots_to_spectrum. Qed.
Print Assumptions C03_roots_to_spectrum.

(* Default solver, 2D closed form: the two in-plane values are the spectrum of [[s0 s3/sqrt2] [s3/sqrt2 s1]], third is s2 *)
Theorem C03_default_solver_2D : forall s0 s1 s2 s3, ev2_ok s0 s1 s2 s3.
Proof. exact ev2_correct. Qed.
Print Assumptions C03_default_solver_2D.

(* FSES analytical 2x2 (2D fallback of all FSES solvers), every branch: the returned values are the spectrum of [[A B] [B C]] *)
Theorem C03_fses_2D_eigenvalues : forall A B C, fses2_ok A B C.
Proof. exact fses2_correct. Qed.
Print Assumptions C03_fses_2D_eigenvalues.

(* cross_product helper: orthogonal to both arguments, Lagrange identity (unit for orthonormal arguments) *)
Theorem C03_cross_product : forall x0 x1 x2 y0 y1 y2,
  match cross x0 x1 x2 y0 y1 y2 with
  | [z0; z1; z2] =>
      dot3 x0 x1 x2 z0 z1 z2 = 0 /\ dot3 y0 y1 y2 z0 z1 z2 = 0 /\
      dot3 z0 z1 z2 z0 z1 z2 = dot3 x0 x1 x2 x0 x1 x2 * dot3 y0 y1 y2 y0 y1 y2 - dot3 x0 x1 x2 y0 y1 y2 * dot3 x0 x1 x2 y0 y1 y2
  | _ => False
  end.
Proof. exact cross_correct. Qed.
Print Assumptions C03_cross_product.

(* the fact the eigenvector construction rests on: the cross product of two rows of A - l I is mapped by A - l I to
   det(A - l I) e_k, hence lies in the kernel when l is an eigenvalue *)
Theorem C03_cross_rows_kernel : forall a00 a01 a02 a11 a12 a22 l,
  let a := a00 - l in let d := a11 - l in let f := a22 - l in
  let w0 := a01 * a12 - a02 * d in let w1 := a02 * a01 - a * a12 in let w2 := a * d - a01 * a01 in
  a * w0 + a01 * w1 + a02 * w2 = 0 /\ a01 * w0 + d * w1 + a12 * w2 = 0 /\
  a02 * w0 + a12 * w1 + f * w2 = chi_full a00 a01 a02 a11 a12 a22 l.
Proof. exact cross_rows_kernel. Qed.
Print Assumptions C03_cross_rows_kernel.

(* C03 -- proofs over the definitions regenerated from /repo (C03_gen.v).  Tactics are shape independent: every test of a
   decision tree is split, equalities are closed by ring/field modulo sqrt2^2 = 2 and q^2 = a for q = sqrt a. *)
From Coq Require Import Reals List Lra Lia.
From VLib Require Import RealExtra.
From C03 Require Import C03Spec C03_gen C03Statements.
Import ListNotations.
Local Open Scope R_scope.

Lemma pos_thr_nz c e x : 0 < c -> 0 < e -> c < Rabs x * e -> x <> 0.
Proof. intros Hc He H Hx. subst x. rewrite Rabs_R0 in H. lra. Qed.

Ltac pos_const := first [ lra | apply Rdiv_lt_0_compat; [lra | apply pow_lt; lra] ].

Ltac split_tests :=
  repeat match goal with
         | |- context [if ?c then _ else _] => destruct c
         end.


(* the statement of one leaf, given that the scaling factor v is non-zero: proved once per distinct leaf content *)
Definition cev3_leaf (s0 s1 s2 s3 s4 s5 r : R) (l : list R) : Prop :=
  match l with
  | [q3; q2; q1; q0; vpA; vpB; vpC] =>
      let v := vpC - vpB in
      v <> 0 -> vpA = v * r + vpB /\
      chi_mandel s0 s1 s2 s3 s4 s5 vpA = v * v * v * (q3 * (r * r * r) + q2 * (r * r) + q1 * r + q0)
  | _ => False
  end.

Ltac prove_leaf :=
  let Hv := fresh "Hv" in
  cbv beta iota zeta delta [cev3_leaf chi_mandel chi_full det_sym]; intro Hv;
  split; [ ring | field_simplify_eq; [ ring [sqrt2_sq] | repeat split; first [ apply sqrt2_neq0 | intro Hc; apply Hv; lra ] ] ].

Ltac collect_leaves s0 s1 s2 s3 s4 s5 r :=
  repeat match goal with
         | |- context [Some ?l] =>
             lazymatch goal with
             | _ : cev3_leaf s0 s1 s2 s3 s4 s5 r l |- _ => fail
             | _ => let H := fresh "Hleaf" in assert (H : cev3_leaf s0 s1 s2 s3 s4 s5 r l) by prove_leaf
             end
         end.

Ltac leaf_cev3 :=
  cbv beta iota zeta;
  match goal with
  | |- ?v <> 0 /\ _ =>
      let Hv := fresh "Hv" in
      assert (Hv : v <> 0) by
        first [ match goal with
                | H : _ < Rabs ?x * _ |- _ =>
                    let Hx := fresh "Hx" in
                    assert (Hx : x <> 0) by (refine (pos_thr_nz _ _ _ _ _ H); pos_const);
                    intro Hz; apply Hx; lra
                end
              | lra ];
      split; [ exact Hv | ];
      match goal with Hl : cev3_leaf _ _ _ _ _ _ _ _ |- _ => exact (Hl Hv) end
  end.

Lemma cev3_correct s0 s1 s2 s3 s4 s5 r : cev3_ok s0 s1 s2 s3 s4 s5 r.
Proof.
  unfold cev3_ok, cev3. cbv zeta.
  collect_leaves s0 s1 s2 s3 s4 s5 r.
  split_tests.
  all: leaf_cev3.
Qed.

(* code independent: if chi (v r + t) = v^3 c(r) for all r and c factorises, chi factorises over the images of the roots *)
Lemma roots_to_spectrum (chi : R -> R) v t q3 q2 q1 q0 r1 r2 r3 :
  v <> 0 ->
  (forall r, chi (v * r + t) = v * v * v * (q3 * (r * r * r) + q2 * (r * r) + q1 * r + q0)) ->
  (forall r, q3 * (r * r * r) + q2 * (r * r) + q1 * r + q0 = (r1 - r) * (r2 - r) * (r3 - r)) ->
  forall l, chi l = (v * r1 + t - l) * (v * r2 + t - l) * (v * r3 + t - l).
Proof.
  intros Hv H1 H2 l. replace l with (v * ((l - t) / v) + t) at 1 by (field; exact Hv).
  rewrite H1, H2. field. exact Hv.
Qed.

Ltac add_sq x :=
  lazymatch goal with
  | _ : 0 <= x * x |- _ => fail
  | _ => let H := fresh "Hsq" in pose proof (Rle_0_sqr x) as H; unfold Rsqr in H
  end.
Ltac sq_hints :=
  repeat match goal with
         | _ : context [?x * ?x] |- _ => add_sq x
         | |- context [?x * ?x] => add_sq x
         end.

(* replace the (unique) non-constant square root of the goal by a variable q with q*q = its argument, 0 <= q *)
Ltac gen_sqrt :=
  match goal with
  | |- context [sqrt ?a] =>
      tryif constr_eq a 2 then fail else
      (let Ha := fresh "Ha" in
       assert (Ha : 0 <= a) by (sq_hints; nra);
       let Hq := fresh "Hq" in let Hp := fresh "Hp" in
       pose proof (sqrt_sqrt a Ha) as Hq; pose proof (sqrt_pos a) as Hp;
       generalize dependent (sqrt a); intros)
  end.

Lemma spectrum2_mandel s0 s1 s3 l1 l2 :
  l1 + l2 = s0 + s1 -> l1 * l2 = s0 * s1 - s3 * s3 / 2 -> spectrum2 s0 (s3 / sqrt 2) s1 l1 l2.
Proof.
  intros H1 H2. split; [exact H1|]. rewrite H2. field_simplify_eq; [ ring [sqrt2_sq] | apply sqrt2_neq0 ].
Qed.

(* ---- 2D closed form of the default solver *)
Lemma ev2_correct s0 s1 s2 s3 : ev2_ok s0 s1 s2 s3.
Proof.
  unfold ev2_ok, ev2. cbv zeta. split_tests; cbv beta iota delta [spectrum2].
  - exfalso. sq_hints. nra.
  - gen_sqrt. split; [apply spectrum2_mandel|reflexivity]; nra.
Qed.

(* ---- FSES analytical 2x2 (used in 2D by every FSES solver): eigenvalues *)
Lemma fses2_correct A B C : fses2_ok A B C.
Proof.
  unfold fses2_ok, fses2. cbv zeta. split_tests; cbv beta iota delta [spectrum2].
  all: gen_sqrt.
  all: split; solve [ lra | nra | (field_simplify_eq; [ nra | repeat split; lra ]) ].
Qed.

(* ---- cross product helper and the fact behind the eigenvector construction *)
Lemma cross_correct x0 x1 x2 y0 y1 y2 :
  match cross x0 x1 x2 y0 y1 y2 with
  | [z0; z1; z2] =>
      dot3 x0 x1 x2 z0 z1 z2 = 0 /\ dot3 y0 y1 y2 z0 z1 z2 = 0 /\
      dot3 z0 z1 z2 z0 z1 z2 = dot3 x0 x1 x2 x0 x1 x2 * dot3 y0 y1 y2 y0 y1 y2 - dot3 x0 x1 x2 y0 y1 y2 * dot3 x0 x1 x2 y0 y1 y2
  | _ => False
  end.
Proof. unfold cross, dot3. repeat split; ring. Qed.

(* rows r0 r1 of A - l I (A symmetric): (A - l I)(r0 x r1) = det(A - l I) e2 *)
Lemma cross_rows_kernel a00 a01 a02 a11 a12 a22 l :
  let a := a00 - l in let d := a11 - l in let f := a22 - l in
  let w0 := a01 * a12 - a02 * d in let w1 := a02 * a01 - a * a12 in let w2 := a * d - a01 * a01 in
  a * w0 + a01 * w1 + a02 * w2 = 0 /\ a01 * w0 + d * w1 + a12 * w2 = 0 /\
  a02 * w0 + a12 * w1 + f * w2 = chi_full a00 a01 a02 a11 a12 a22 l.
Proof. cbv zeta. unfold chi_full, det_sym. repeat split; ring. Qed.

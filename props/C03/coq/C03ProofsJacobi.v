(* C03 -- one rotation of fses::syevj3 (regenerated tree jac1 of C03_gen.v) is a step of the hand model of C03Jacobi.v.
   Nothing depends on the shape of the traced terms: square roots and quotients are replaced by variables with their defining
   equations (C03Tactics.flatten), the rest is ring / nsatz; facts such as A(p,q) <> 0 come from the tests of the path. *)
From Coq Require Import Reals List Lra Psatz Nsatz.
From VLib Require Import RealExtra.
From C03 Require Import C03Spec C03Jacobi C03_gen C03StatementsB C03Tactics.
Import ListNotations.
Local Open Scope R_scope.

Ltac clear_all := repeat match goal with H : _ |- _ => clear H end.
(* |100 |a|| <= ||h|| eps  in the words of the specification: |z| = z where z is non negative whatever its variables are *)
Ltac abs_norm_in H :=
  repeat match type of H with
         | context [Rabs ?z] =>
             let P := fresh "P" in
             assert (P : 0 <= z) by (clear_all; abs_hints; lra);
             rewrite (Rabs_pos_eq z P) in H; clear P
         end.

Ltac neg_cond :=
  match goal with
  | H : _ <= _ * (2220446049250313 / 10 ^ 31) |- _ <= _ * eps_d => unfold eps_d; abs_norm_in H; exact H
  end.

(* h <> 0 on the branch taken when A(p,q) is negligible against h *)
Ltac nz_h :=
  let E := fresh "E" in intro E;
  match goal with
  | H : _ <= _ * (2220446049250313 / 10 ^ 31) |- _ => rewrite E in H; rewrite ?Rabs_R0 in H; abs_norm_in H; abs_hints;
      repeat match goal with Hn : ?x <> 0 |- _ => pose proof (Rabs_pos_lt x Hn); clear Hn end; lra
  end.

Ltac rec_eq := f_equal; try (match goal with |- M3 _ _ _ _ _ _ _ _ _ = M3 _ _ _ _ _ _ _ _ _ => f_equal end).

Ltac nzj := first [ assumption | lra | nz_h | (let E := fresh "E" in intro E; sq_hints; nra) ].

Ltac rot_body :=
  cbv [apq hpq cJ sJ dq_of jstep qrot exact_t ja01 ja02 ja12 jd0 jd1 jd2 jq m00 m01 m02 m10 m11 m12 m20 m21 m22];
  split; [ assumption | ];
  match goal with
  | |- _ /\ _ /\ _ /\ (_ \/ (?cond /\ _)) =>
      first [ assert (Hneg : cond) by neg_cond | idtac ]
  end;
  flatten_with ltac:(idtac; nzj);
  split; [ poly_close_nz | split; [ poly_close_nz | split; [ rec_eq; poly_close_nz | ] ] ];
  first [ left; poly_close_nz | right; split; [ assumption | poly_close_nz ] ].

Ltac rot_leaf a01 a02 a12 :=
  right; split; [ reflexivity | ];
  first [ nz_from_path a01; exists P01; rot_body
        | nz_from_path a02; exists P02; rot_body
        | nz_from_path a12; exists P12; rot_body ].

Ltac norot_leaf :=
  left; cbv [ja01 ja02 ja12 jd0 jd1 jd2 jq]; repeat split; first [ reflexivity | left; reflexivity | right; reflexivity ].

Lemma jac1_correct a01 a02 a12 d0 d1 d2 q00 q01 q02 q10 q11 q12 q20 q21 q22 :
  jac1_ok a01 a02 a12 d0 d1 d2 q00 q01 q02 q10 q11 q12 q20 q21 q22.
Proof.
  unfold jac1_ok, jac1. cbv zeta.
  split_tests.
  all: lazymatch goal with
       | |- (0 = 0 /\ _) \/ _ => norot_leaf
       | |- _ => rot_leaf a01 a02 a12
       end.
Qed.

(* consequence in the words of the property: the first rotation carried out by the code keeps the columns of Q orthonormal and,
   unless A(p,q) was negligible against the gap of the diagonal, leaves Q A Q^T unchanged *)
Lemma jac1_invariants a01 a02 a12 d0 d1 d2 q00 q01 q02 q10 q11 q12 q20 q21 q22 :
  jac1_inv a01 a02 a12 d0 d1 d2 q00 q01 q02 q10 q11 q12 q20 q21 q22.
Proof.
  pose proof (jac1_correct a01 a02 a12 d0 d1 d2 q00 q01 q02 q10 q11 q12 q20 q21 q22) as H.
  unfold jac1_ok in H. unfold jac1_inv.
  destruct (jac1 a01 a02 a12 d0 d1 d2 q00 q01 q02 q10 q11 q12 q20 q21 q22) as [l|]; [|exact I].
  repeat (destruct l as [|? l]; try exact I).
  destruct (jac1 a01 a02 a12 d0 d1 d2 1 0 0 0 1 0 0 0 1) as [lj|]; [|contradiction].
  repeat (destruct lj as [|? lj]; try contradiction).
  cbv zeta in H. cbv zeta. intros Htag Ho.
  destruct H as [[H0 _]|[_ (p & Hnz & Hc & Hs & Hy & He)]]; [lra|].
  split.
  - match goal with |- orth (jq ?y) => change y with (JS (ja01 y) (ja02 y) (ja12 y) (jd0 y) (jd1 y) (jd2 y) (jq y)) end.
    rewrite Hy. apply jstep_orth; [exact Hc | exact Ho].
  - destruct He as [He|[He _]].
    + left. rewrite Hy. apply jstep_similar. repeat split; assumption.
    + right. exists p. exact He.
Qed.

(* C03 -- specification of "a valid spectral decomposition" for symmetric 3x3 / 2x2 matrices, written independently
   of the code.  Symmetric tensors are stored by TFEL as (s0 s1 s2 s3 s4 s5) = (a00 a11 a22 sqrt2*a01 sqrt2*a02 sqrt2*a12). *)
From Coq Require Import Reals List Lra.
Import ListNotations.
Local Open Scope R_scope.

(* determinant of the symmetric matrix [[a00 a01 a02] [a01 a11 a12] [a02 a12 a22]] *)
Definition det_sym (a00 a01 a02 a11 a12 a22 : R) : R :=
  a00 * (a11 * a22 - a12 * a12) - a01 * (a01 * a22 - a12 * a02) + a02 * (a01 * a12 - a11 * a02).

(* characteristic polynomial  det (A - l I)  of a full symmetric matrix *)
Definition chi_full (a00 a01 a02 a11 a12 a22 l : R) : R :=
  det_sym (a00 - l) a01 a02 (a11 - l) a12 (a22 - l).

(* the same for a tensor in TFEL (Mandel) storage *)
Definition chi_mandel (s0 s1 s2 s3 s4 s5 l : R) : R :=
  chi_full s0 (s3 / sqrt 2) (s4 / sqrt 2) s1 (s5 / sqrt 2) s2 l.

(* l is an eigenvalue iff the characteristic polynomial vanishes *)
Definition eigenvalue_mandel (s0 s1 s2 s3 s4 s5 l : R) : Prop := chi_mandel s0 s1 s2 s3 s4 s5 l = 0.

(* (l1,l2,l3) is the whole spectrum with multiplicities iff chi factorises *)
Definition spectrum_mandel (s0 s1 s2 s3 s4 s5 l1 l2 l3 : R) : Prop :=
  forall l, chi_mandel s0 s1 s2 s3 s4 s5 l = (l1 - l) * (l2 - l) * (l3 - l).

(* 2x2 block [[a b] [b c]]: (l1,l2) is its spectrum iff trace and determinant agree (Vieta) *)
Definition spectrum2 (a b c l1 l2 : R) : Prop := l1 + l2 = a + c /\ l1 * l2 = a * c - b * b.

Lemma spectrum2_char a b c l1 l2 : spectrum2 a b c l1 l2 ->
  forall l, (a - l) * (c - l) - b * b = (l1 - l) * (l2 - l).
Proof. intros [H1 H2] l. replace ((l1 - l) * (l2 - l)) with (l1 * l2 - (l1 + l2) * l + l * l) by ring. rewrite H1, H2. ring. Qed.

(* A v = l v  for a full symmetric matrix and a vector *)
Definition eigvec_full (a00 a01 a02 a11 a12 a22 l v0 v1 v2 : R) : Prop :=
  (a00 - l) * v0 + a01 * v1 + a02 * v2 = 0 /\
  a01 * v0 + (a11 - l) * v1 + a12 * v2 = 0 /\
  a02 * v0 + a12 * v1 + (a22 - l) * v2 = 0.

Definition dot3 (x0 x1 x2 y0 y1 y2 : R) : R := x0 * y0 + x1 * y1 + x2 * y2.
Definition unit3 (x0 x1 x2 : R) : Prop := dot3 x0 x1 x2 x0 x1 x2 = 1.

(* 3x3 matrices as row-major lists of 9 reals *)
Definition mat_get (m : list R) (i j : nat) : R := nth (3 * i + j) m 0.
Definition orthogonal (q : list R) : Prop :=
  forall i j, (i < 3)%nat -> (j < 3)%nat ->
    mat_get q 0 i * mat_get q 0 j + mat_get q 1 i * mat_get q 1 j + mat_get q 2 i * mat_get q 2 j = if Nat.eqb i j then 1 else 0.

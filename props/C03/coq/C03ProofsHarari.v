(* C03 -- Harari solver: invariant of the returned eigenvalues on every branch (trace), over the regenerated tree *)
From Coq Require Import Reals List Lra.
From VLib Require Import RealExtra.
From C03 Require Import C03Spec C03_gen C03Statements.
Import ListNotations.
Local Open Scope R_scope.

Ltac split_tests :=
  repeat match goal with
         | |- context [if ?c then _ else _] => destruct c
         end.

(* ---- Harari: the three returned values always sum to the trace (necessary for being the spectrum) *)
Lemma harari_trace A B C D E F : harari_ok A B C D E F.
Proof.
  unfold harari_ok, harari. cbv zeta. split_tests; cbv beta iota.
  all: first [ lra | ring | field | (field_simplify_eq; [ring [sqrt3_sq]|..]) ].
Qed.


(* C03 -- eigenvector construction of the default solver (regenerated trees evec3, perp of C03_gen.v) *)
From Coq Require Import Reals List Lra Psatz Nsatz.
From VLib Require Import RealExtra.
From C03 Require Import C03Spec C03Jacobi C03_gen C03StatementsB C03Tactics.
Import ListNotations.
Local Open Scope R_scope.

Lemma abs_lt_sq a b : Rabs a < Rabs b -> a * a < b * b.
Proof. intros H. apply Rsqr_lt_abs_1 in H. exact H. Qed.
Lemma abs_nlt_sq a b : ~ Rabs a < Rabs b -> b * b <= a * a.
Proof. intros H. apply Rnot_lt_le in H. apply Rsqr_le_abs_1 in H. exact H. Qed.

Ltac abs_sq_hints :=
  repeat match goal with
         | H : Rabs ?a < Rabs ?b |- _ => apply abs_lt_sq in H
         | H : ~ Rabs ?a < Rabs ?b |- _ => apply abs_nlt_sq in H
         end.

(* r <> 0 for r = sqrt (sum of squares): if r = 0 every square vanishes; then arithmetic *)
Ltac nz_norm :=
  let E := fresh "E" in intro E;
  match goal with
  | Hq : ?r * ?r = _ |- _ =>
      match type of E with r = 0 => idtac end;
      rewrite E in Hq;
      repeat match type of Hq with
             | context [?a * ?a] =>
                 lazymatch goal with
                 | _ : a = 0 |- _ => fail
                 | _ => assert (a = 0) by (clear - Hq; nra)
                 end
             end;
      abs_sq_hints; nra
  end.

Ltac nzp := first [ assumption | lra | nz_path | (let E := fresh "E" in intro E; sq_hints; nra) | nz_norm ].



(* one lemma per distinct leaf content, under the hypothesis that its (polynomial) denominators do not vanish *)
Ltac evec_leaf_proof :=
  let Hp := fresh "Hprem" in intro Hp; decompose [and] Hp; clear Hp;
  cbv [evec3_leaf unit3 dot3 eigenvalue_mandel chi_mandel chi_full det_sym eigvec_full];
  flatten_with ltac:(idtac; nzp);
  split; [ poly_close_nz | let Hc := fresh "Hchi" in intro Hc; repeat split; poly_close_nz ].

Ltac collect_evec a0 a1 a2 a3 a4 a5 vp :=
  repeat match goal with
         | |- context [Some ?l] =>
             lazymatch goal with
             | _ : _ -> evec3_leaf a0 a1 a2 a3 a4 a5 vp l |- _ => fail
             | _ => let P := denoms_of l in
                    let H := fresh "Hleaf" in
                    assert (H : P -> evec3_leaf a0 a1 a2 a3 a4 a5 vp l) by evec_leaf_proof
             end
         end.

Lemma evec3_correct a0 a1 a2 a3 a4 a5 vp : evec3_ok a0 a1 a2 a3 a4 a5 vp.
Proof.
  unfold evec3_ok, evec3. cbv zeta.
  collect_evec a0 a1 a2 a3 a4 a5 vp.
  split_tests.
  all: cbv beta iota.
  all: try exact I.
  all: match goal with HL : _ -> evec3_leaf _ _ _ _ _ _ _ ?l |- evec3_leaf _ _ _ _ _ _ _ ?l => apply HL; repeat split; nz_path end.
Qed.

Lemma perp_correct x0 x1 x2 : perp_ok x0 x1 x2.
Proof.
  unfold perp_ok, perp. cbv zeta. split_tests.
  all: cbv [unit3 dot3].
  1: { split; [ ring | right; unfold tiny_d; lra ]. }
  all: flatten_with ltac:(idtac; nzp).
  all: (split; [ poly_close_nz | left; poly_close_nz ]).
Qed.

(* C03 -- Householder reduction fses::sytrd3 (design item e), over the tree regenerated from /repo: on every path the returned Q
   is orthogonal (Q^T Q = I) and Q^T A Q is the tridiagonal matrix with diagonal d and off-diagonal e. *)
From Coq Require Import Reals List.
From C03 Require Import C03Spec C03Jacobi C03_gen C03StatementsB C03ProofsHouseholder.
Import ListNotations.
Local Open Scope R_scope.

Theorem C03_householder_tridiagonalisation : forall a00 a01 a02 a11 a12 a22, sytrd_ok a00 a01 a02 a11 a12 a22.
Proof. exact sytrd_correct. Qed.
Print Assumptions C03_householder_tridiagonalisation.

(* C03 -- statements about the regenerated definitions (C03_gen.v), in terms of the independent specification C03Spec.v *)
From Coq Require Import Reals List.
From C03 Require Import C03Spec C03_gen.
Import ListNotations.
Local Open Scope R_scope.

(* Default solver, 3D (StensorComputeEigenValues<3>::exe with the cubic solver abstracted): on every path the code hands the
   cubic q3 x^3+q2 x^2+q1 x+q0 to the cubic solver and maps a root r to vpA = v r + vpB with v <> 0, and
   det (M(s) - vpA I) = v^3 (q3 r^3 + q2 r^2 + q1 r + q0). *)
Definition cev3_ok (s0 s1 s2 s3 s4 s5 r : R) : Prop :=
  match cev3 s0 s1 s2 s3 s4 s5 r with
  | Some [q3; q2; q1; q0; vpA; vpB; vpC] =>
      let v := vpC - vpB in
      v <> 0 /\ vpA = v * r + vpB /\
      chi_mandel s0 s1 s2 s3 s4 s5 vpA = v * v * v * (q3 * (r * r * r) + q2 * (r * r) + q1 * r + q0)
  | _ => False
  end.

(* Default solver, 2D closed form: the in-plane values are the spectrum of [[s0 s3/sqrt2] [s3/sqrt2 s1]], the third is s2 *)
Definition ev2_ok (s0 s1 s2 s3 : R) : Prop :=
  match ev2 s0 s1 s2 s3 with
  | Some [l1; l2; l3] => spectrum2 s0 (s3 / sqrt 2) s1 l1 l2 /\ l3 = s2
  | _ => False
  end.

(* FSES analytical 2x2 (2D fallback of all FSES solvers), every branch: the values are the spectrum of [[A B] [B C]] *)
Definition fses2_ok (A B C : R) : Prop :=
  match fses2 A B C with
  | Some (l0 :: l1 :: _) => spectrum2 A B C l0 l1
  | _ => False
  end.

(* Harari: on every branch the three returned values sum to the trace *)
Definition harari_ok (A B C D E F : R) : Prop :=
  match harari A B C D E F with
  | Some [v0; v1; v2] => v0 + v1 + v2 = A + B + C
  | _ => False
  end.

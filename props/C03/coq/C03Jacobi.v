(* C03 -- cyclic Jacobi method (fses::syevj3), code independent part.
   (1) 3x3 real matrices, products, orthogonality (specification);
   (2) a small hand model of what one rotation of syevj3 does to its state (upper off-diagonal terms of A, diagonal kept in w,
       eigenvector matrix Q), written after include/FSES/syevj3.ixx ("Apply Jacobi transformation", "Update eigenvectors");
   (3) the invariants of one step and, by induction over a list of rotations of any length, of any number of sweeps:
       Q^T Q = I  and  Q A_k Q^T = A_0.
   The tie of the model step to the code is C03ProofsJacobi.v (over the tree regenerated from /repo). *)
From Coq Require Import Reals List Lra Nsatz.
Import ListNotations.
Local Open Scope R_scope.

(* ---------------------------------------------------------------- (1) matrices *)
Record mat3 : Type := M3 { m00 : R; m01 : R; m02 : R; m10 : R; m11 : R; m12 : R; m20 : R; m21 : R; m22 : R }.

Definition mI : mat3 := M3 1 0 0 0 1 0 0 0 1.
Definition mtr (a : mat3) : mat3 := M3 (m00 a) (m10 a) (m20 a) (m01 a) (m11 a) (m21 a) (m02 a) (m12 a) (m22 a).
Definition mmul (a b : mat3) : mat3 :=
  M3 (m00 a * m00 b + m01 a * m10 b + m02 a * m20 b) (m00 a * m01 b + m01 a * m11 b + m02 a * m21 b) (m00 a * m02 b + m01 a * m12 b + m02 a * m22 b)
     (m10 a * m00 b + m11 a * m10 b + m12 a * m20 b) (m10 a * m01 b + m11 a * m11 b + m12 a * m21 b) (m10 a * m02 b + m11 a * m12 b + m12 a * m22 b)
     (m20 a * m00 b + m21 a * m10 b + m22 a * m20 b) (m20 a * m01 b + m21 a * m11 b + m22 a * m21 b) (m20 a * m02 b + m21 a * m12 b + m22 a * m22 b).
(* the symmetric matrix with the given upper triangle *)
Definition msym (a00 a01 a02 a11 a12 a22 : R) : mat3 := M3 a00 a01 a02 a01 a11 a12 a02 a12 a22.

(* the columns of q are orthonormal *)
Definition orth (q : mat3) : Prop := mmul (mtr q) q = mI.
(* q a q^T *)
Definition conj_by (q a : mat3) : mat3 := mmul (mmul q a) (mtr q).

Ltac mat_eq := cbv [mmul mtr mI msym m00 m01 m02 m10 m11 m12 m20 m21 m22]; f_equal; ring.

Lemma mmul_assoc a b c : mmul (mmul a b) c = mmul a (mmul b c).
Proof. destruct a, b, c. mat_eq. Qed.
Lemma mtr_mmul a b : mtr (mmul a b) = mmul (mtr b) (mtr a).
Proof. destruct a, b. mat_eq. Qed.
Lemma mmul_I_l a : mmul mI a = a.
Proof. destruct a. mat_eq. Qed.
Lemma mmul_I_r a : mmul a mI = a.
Proof. destruct a. mat_eq. Qed.
Lemma mtr_mtr a : mtr (mtr a) = a.
Proof. destruct a. reflexivity. Qed.
Lemma orth_I : orth mI.
Proof. unfold orth. mat_eq. Qed.

(* right multiplication by j with j^T j = I keeps the columns orthonormal *)
Lemma orth_mmul q j : orth q -> orth j -> orth (mmul q j).
Proof.
  unfold orth. intros Hq Hj. rewrite mtr_mmul, mmul_assoc, <- (mmul_assoc (mtr q) q j), Hq, mmul_I_l. exact Hj.
Qed.
(* (q j) (j^T a j) (q j)^T = q a q^T  when  j j^T = I *)
Lemma conj_by_step q j a : mmul j (mtr j) = mI -> conj_by (mmul q j) (mmul (mmul (mtr j) a) j) = conj_by q a.
Proof.
  intros Hj. unfold conj_by. rewrite mtr_mmul.
  rewrite !mmul_assoc. rewrite <- (mmul_assoc j (mtr j) (mtr q)), Hj, mmul_I_l.
  rewrite <- (mmul_assoc j (mtr j) (mmul a (mtr q))), Hj, mmul_I_l. reflexivity.
Qed.

(* ---------------------------------------------------------------- (2) the hand model of one rotation *)
Inductive plane : Type := P01 | P02 | P12.

(* rotation in the plane (p,q) as a matrix: column p = c e_p - s e_q, column q = s e_p + c e_q *)
Definition rotm (p : plane) (c s : R) : mat3 :=
  match p with
  | P01 => M3 c s 0 (- s) c 0 0 0 1
  | P02 => M3 c 0 s 0 1 0 (- s) 0 c
  | P12 => M3 1 0 0 0 c s 0 (- s) c
  end.

Lemma rotm_orth p c s : c * c + s * s = 1 -> orth (rotm p c s).
Proof. intros H. unfold orth. destruct p; cbv [rotm mmul mtr mI m00 m01 m02 m10 m11 m12 m20 m21 m22]; f_equal; first [ring | (rewrite <- H; ring)]. Qed.
Lemma rotm_orth_r p c s : c * c + s * s = 1 -> mmul (rotm p c s) (mtr (rotm p c s)) = mI.
Proof. intros H. destruct p; cbv [rotm mmul mtr mI m00 m01 m02 m10 m11 m12 m20 m21 m22]; f_equal; first [ring | (rewrite <- H; ring)]. Qed.

(* state of syevj3: strict upper triangle of A, the diagonal (kept in w by the code), Q *)
Record jstate : Type := JS { ja01 : R; ja02 : R; ja12 : R; jd0 : R; jd1 : R; jd2 : R; jq : mat3 }.
Definition jfull (x : jstate) : mat3 := msym (jd0 x) (ja01 x) (ja02 x) (jd1 x) (ja12 x) (jd2 x).
Definition apq (p : plane) (x : jstate) : R := match p with P01 => ja01 x | P02 => ja02 x | P12 => ja12 x end.
Definition hpq (p : plane) (x : jstate) : R :=
  match p with P01 => jd1 x - jd0 x | P02 => jd2 x - jd0 x | P12 => jd2 x - jd1 x end.

(* "Update eigenvectors": columns p and q of Q *)
Definition qrot (p : plane) (c s : R) (q : mat3) : mat3 :=
  match p with
  | P01 => M3 (c * m00 q - s * m01 q) (s * m00 q + c * m01 q) (m02 q)
              (c * m10 q - s * m11 q) (s * m10 q + c * m11 q) (m12 q)
              (c * m20 q - s * m21 q) (s * m20 q + c * m21 q) (m22 q)
  | P02 => M3 (c * m00 q - s * m02 q) (m01 q) (s * m00 q + c * m02 q)
              (c * m10 q - s * m12 q) (m11 q) (s * m10 q + c * m12 q)
              (c * m20 q - s * m22 q) (m21 q) (s * m20 q + c * m22 q)
  | P12 => M3 (m00 q) (c * m01 q - s * m02 q) (s * m01 q + c * m02 q)
              (m10 q) (c * m11 q - s * m12 q) (s * m11 q + c * m12 q)
              (m20 q) (c * m21 q - s * m22 q) (s * m21 q + c * m22 q)
  end.

(* "Apply Jacobi transformation": A(p,q) = 0, w(p) -= t A(p,q), w(q) += t A(p,q), the two other off-diagonal terms rotated *)
Definition jstep (p : plane) (c s t : R) (x : jstate) : jstate :=
  match p with
  | P01 => JS 0 (c * ja02 x - s * ja12 x) (s * ja02 x + c * ja12 x)
              (jd0 x - t * ja01 x) (jd1 x + t * ja01 x) (jd2 x) (qrot P01 c s (jq x))
  | P02 => JS (c * ja01 x - s * ja12 x) 0 (s * ja01 x + c * ja12 x)
              (jd0 x - t * ja02 x) (jd1 x) (jd2 x + t * ja02 x) (qrot P02 c s (jq x))
  | P12 => JS (c * ja01 x - s * ja02 x) (s * ja01 x + c * ja02 x) 0
              (jd0 x) (jd1 x - t * ja12 x) (jd2 x + t * ja12 x) (qrot P12 c s (jq x))
  end.

(* the rotation annihilates A(p,q) exactly:  t is a root of  a_pq t^2 + (a_qq - a_pp) t - a_pq *)
Definition exact_t (p : plane) (t : R) (x : jstate) : Prop := apq p x * t * t + hpq p x * t - apq p x = 0.
Definition rot_ok (p : plane) (c s t : R) (x : jstate) : Prop := c * c + s * s = 1 /\ s = t * c /\ exact_t p t x.

Lemma qrot_mmul p c s q : qrot p c s q = mmul q (rotm p c s).
Proof. destruct q, p; cbv [qrot rotm mmul m00 m01 m02 m10 m11 m12 m20 m21 m22]; f_equal; ring. Qed.

(* ---------------------------------------------------------------- (3) invariants *)
Lemma jstep_orth p c s t x : c * c + s * s = 1 -> orth (jq x) -> orth (jq (jstep p c s t x)).
Proof.
  intros H Hq. replace (jq (jstep p c s t x)) with (qrot p c s (jq x)) by (destruct p; reflexivity).
  rewrite qrot_mmul. apply orth_mmul; [exact Hq | apply rotm_orth; exact H].
Qed.

(* with an exact t the new (A, w) is J^T A J *)
Lemma jstep_full p c s t x : rot_ok p c s t x -> jfull (jstep p c s t x) = mmul (mmul (mtr (rotm p c s)) (jfull x)) (rotm p c s).
Proof.
  intros (H1 & H2 & H3). destruct x as [a01 a02 a12 d0 d1 d2 q]. subst s.
  destruct p; cbv [exact_t apq hpq ja01 ja02 ja12 jd0 jd1 jd2] in H3;
    cbv [jstep jfull msym rotm mmul mtr ja01 ja02 ja12 jd0 jd1 jd2 jq m00 m01 m02 m10 m11 m12 m20 m21 m22]; f_equal;
    try ring.
  (* the entries (p,p), (p,q), (q,p), (q,q) need c^2 (1 + t^2) = 1 and the equation of t *)
  all: nsatz.
Qed.

(* one exact rotation is a similarity transformation seen through Q:  Q' A' Q'^T = Q A Q^T *)
Lemma jstep_similar p c s t x :
  rot_ok p c s t x -> conj_by (jq (jstep p c s t x)) (jfull (jstep p c s t x)) = conj_by (jq x) (jfull x).
Proof.
  intros H. rewrite (jstep_full _ _ _ _ _ H).
  replace (jq (jstep p c s t x)) with (qrot p c s (jq x)) by (destruct p; reflexivity).
  rewrite qrot_mmul. apply conj_by_step. apply rotm_orth_r. exact (proj1 H).
Qed.

(* any number of rotations (any number of sweeps, any order of the planes) *)
Record rotation : Type := Rot { rp : plane; rc : R; rs : R; rt : R }.
Definition jstep_r (r : rotation) (x : jstate) : jstate := jstep (rp r) (rc r) (rs r) (rt r) x.
Fixpoint jrun (l : list rotation) (x : jstate) : jstate :=
  match l with [] => x | r :: l' => jrun l' (jstep_r r x) end.
(* every rotation of the list is exact for the state it is applied to *)
Fixpoint jvalid (l : list rotation) (x : jstate) : Prop :=
  match l with [] => True | r :: l' => rot_ok (rp r) (rc r) (rs r) (rt r) x /\ jvalid l' (jstep_r r x) end.
(* only c^2 + s^2 = 1 (covers the rotations with the approximate t = A(p,q)/h taken when A(p,q) is negligible) *)
Fixpoint junit (l : list rotation) : Prop :=
  match l with [] => True | r :: l' => rc r * rc r + rs r * rs r = 1 /\ junit l' end.

Lemma jrun_orth l : forall x, junit l -> orth (jq x) -> orth (jq (jrun l x)).
Proof.
  induction l as [|r l IH]; intros x Hu Hq; simpl; [exact Hq|].
  destruct Hu as [H1 H2]. apply IH; [exact H2|]. apply jstep_orth; assumption.
Qed.

Lemma jvalid_junit l : forall x, jvalid l x -> junit l.
Proof. induction l as [|r l IH]; intros x H; simpl; [exact I|]. destruct H as [(H1 & _) H2]. split; [exact H1 | exact (IH _ H2)]. Qed.

Lemma jrun_invariant l : forall x, jvalid l x -> orth (jq x) ->
  orth (jq (jrun l x)) /\ conj_by (jq (jrun l x)) (jfull (jrun l x)) = conj_by (jq x) (jfull x).
Proof.
  induction l as [|r l IH]; intros x Hv Hq; simpl; [split; [exact Hq | reflexivity]|].
  destruct Hv as [H1 H2].
  destruct (IH (jstep_r r x) H2 (jstep_orth _ _ _ _ _ (proj1 H1) Hq)) as [Ho Hs].
  split; [exact Ho|]. rewrite Hs. apply jstep_similar. exact H1.
Qed.

(* from the initial state of syevj3 (Q = I): Q^T Q = I and Q A_k Q^T = A_0 after any list of exact rotations *)
Lemma jrun_from_identity l a01 a02 a12 d0 d1 d2 :
  let x0 := JS a01 a02 a12 d0 d1 d2 mI in
  jvalid l x0 -> orth (jq (jrun l x0)) /\ conj_by (jq (jrun l x0)) (jfull (jrun l x0)) = msym d0 a01 a02 d1 a12 d2.
Proof.
  intros x0 Hv. destruct (jrun_invariant l x0 Hv orth_I) as [H1 H2]. split; [exact H1|]. rewrite H2.
  unfold conj_by, x0. cbv [jq jfull ja01 ja02 ja12 jd0 jd1 jd2]. rewrite mmul_I_l. change (mtr mI) with mI. apply mmul_I_r.
Qed.

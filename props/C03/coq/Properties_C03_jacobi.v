(* C03 -- cyclic Jacobi method fses::syevj3 (design item d).  jac1 is regenerated from /repo on every run: the real syevj3 run on
   a general state and stopped after the first rotation it carries out.  Statements: C03StatementsB.v, C03Jacobi.v. *)
From Coq Require Import Reals List.
From C03 Require Import C03Spec C03Jacobi C03_gen C03StatementsB C03ProofsJacobi.
Import ListNotations.
Local Open Scope R_scope.

(* every path of the code: either no rotation is carried out (Q and the diagonal untouched), or the new state is the step of
   the hand model for a plane p with A(p,q) <> 0, c^2 + s^2 = 1, s = t c and t the exact root (or t = A(p,q)/h when A(p,q) is
   negligible against h) *)
Theorem C03_jacobi_rotation_is_model_step :
  forall a01 a02 a12 d0 d1 d2 q00 q01 q02 q10 q11 q12 q20 q21 q22,
    jac1_ok a01 a02 a12 d0 d1 d2 q00 q01 q02 q10 q11 q12 q20 q21 q22.
Proof. exact jac1_correct. Qed.
Print Assumptions C03_jacobi_rotation_is_model_step.

(* in the words of the property: the rotation of the code keeps Q^T Q = I and (exact branches) Q A Q^T *)
Theorem C03_jacobi_rotation_invariants :
  forall a01 a02 a12 d0 d1 d2 q00 q01 q02 q10 q11 q12 q20 q21 q22,
    jac1_inv a01 a02 a12 d0 d1 d2 q00 q01 q02 q10 q11 q12 q20 q21 q22.
Proof. exact jac1_invariants. Qed.
Print Assumptions C03_jacobi_rotation_invariants.

(* model, one step: c^2 + s^2 = 1 keeps the columns of Q orthonormal *)
Theorem C03_jacobi_step_orthogonal :
  forall p c s t x, c * c + s * s = 1 -> orth (jq x) -> orth (jq (jstep p c s t x)).
Proof. exact jstep_orth. Qed.
Print Assumptions C03_jacobi_step_orthogonal.

(* model, one step with the exact t: Q' A' Q'^T = Q A Q^T *)
Theorem C03_jacobi_step_similarity :
  forall p c s t x, rot_ok p c s t x ->
    conj_by (jq (jstep p c s t x)) (jfull (jstep p c s t x)) = conj_by (jq x) (jfull x).
Proof. exact jstep_similar. Qed.
Print Assumptions C03_jacobi_step_similarity.

(* any number of sweeps: after any list of exact rotations started from Q = I,  Q^T Q = I  and  Q A_k Q^T = A_0 *)
Theorem C03_jacobi_any_number_of_sweeps :
  forall l a01 a02 a12 d0 d1 d2,
    let x0 := JS a01 a02 a12 d0 d1 d2 mI in
    jvalid l x0 -> orth (jq (jrun l x0)) /\ conj_by (jq (jrun l x0)) (jfull (jrun l x0)) = msym d0 a01 a02 d1 a12 d2.
Proof. exact jrun_from_identity. Qed.
Print Assumptions C03_jacobi_any_number_of_sweeps.

(* orthonormality alone needs only c^2 + s^2 = 1 for every rotation (covers the approximate t) *)
Theorem C03_jacobi_orthonormal_after_any_rotations :
  forall l x, junit l -> orth (jq x) -> orth (jq (jrun l x)).
Proof. exact jrun_orth. Qed.
Print Assumptions C03_jacobi_orthonormal_after_any_rotations.

(* C03 -- statements about the regenerated definitions jac1 (one rotation of fses::syevj3), sytrd (fses::sytrd3),
   evec3 (StensorComputeEigenVectors<3>::computeEigenVector) and perp (find_perpendicular_vector) of C03_gen.v, in terms of the
   code independent specification (C03Spec.v, C03Jacobi.v). *)
From Coq Require Import Reals List.
From C03 Require Import C03Spec C03Jacobi C03_gen.
Import ListNotations.
Local Open Scope R_scope.

(* std::numeric_limits<double>::epsilon() and min() as the tracer prints them *)
Definition eps_d : R := 2220446049250313 / 10 ^ 31.
Definition tiny_d : R := 22250738585072014 / 10 ^ 322.   (* 100 min *)

(* ---------------------------------------------------------------- (d) one rotation of syevj3
   jac1 is the real syevj3 started on a general state x = (strict upper triangle of A, diagonal, Q) and stopped after the first
   rotation it carries out (tag 1), or run to its end when it carries out none (tag 0).  J is the same trace with Q = I, i.e. the
   rotation matrix itself.  On every path with a rotation there is a plane p with A(p,q) <> 0 such that, with c = J(p,p),
   s = J(p,q) and t = (w'(q) - w(q)) / A(p,q):  c^2 + s^2 = 1, s = t c, the new state is the model step jstep p c s t x (in
   particular Q' = Q J), and t annihilates A(p,q) exactly -- except on the branch taken when A(p,q) is negligible against
   h = w(q) - w(p) (100 |A(p,q)| <= |h| eps), where the code takes t = A(p,q) / h. *)
Definition cJ (p : plane) (j : mat3) : R := match p with P01 => m00 j | P02 => m00 j | P12 => m11 j end.
Definition sJ (p : plane) (j : mat3) : R := match p with P01 => m01 j | P02 => m02 j | P12 => m12 j end.
Definition dq_of (p : plane) (x : jstate) : R := match p with P01 => jd1 x | P02 => jd2 x | P12 => jd2 x end.

Definition jac1_ok (a01 a02 a12 d0 d1 d2 q00 q01 q02 q10 q11 q12 q20 q21 q22 : R) : Prop :=
  match jac1 a01 a02 a12 d0 d1 d2 q00 q01 q02 q10 q11 q12 q20 q21 q22, jac1 a01 a02 a12 d0 d1 d2 1 0 0 0 1 0 0 0 1 with
  | Some [tag; b01; b02; b12; w0; w1; w2; r00; r01; r02; r10; r11; r12; r20; r21; r22],
    Some [_; _; _; _; _; _; _; j00; j01; j02; j10; j11; j12; j20; j21; j22] =>
      let x := JS a01 a02 a12 d0 d1 d2 (M3 q00 q01 q02 q10 q11 q12 q20 q21 q22) in
      let y := JS b01 b02 b12 w0 w1 w2 (M3 r00 r01 r02 r10 r11 r12 r20 r21 r22) in
      let J := M3 j00 j01 j02 j10 j11 j12 j20 j21 j22 in
      (* no rotation carried out: Q and the diagonal are untouched, off-diagonal terms are kept or set to zero *)
      (tag = 0 /\ jq y = jq x /\ jd0 y = jd0 x /\ jd1 y = jd1 x /\ jd2 y = jd2 x /\
       (ja01 y = ja01 x \/ ja01 y = 0) /\ (ja02 y = ja02 x \/ ja02 y = 0) /\ (ja12 y = ja12 x \/ ja12 y = 0)) \/
      (tag = 1 /\ exists p : plane,
          apq p x <> 0 /\
          let c := cJ p J in let s := sJ p J in let t := (dq_of p y - dq_of p x) / apq p x in
          c * c + s * s = 1 /\ s = t * c /\ y = jstep p c s t x /\
          (exact_t p t x \/ (100 * Rabs (apq p x) <= Rabs (hpq p x) * eps_d /\ t * hpq p x = apq p x)))
  | _, _ => False
  end.

(* the same in the words of the property: the first rotation carried out by the code keeps the columns of Q orthonormal and leaves
   Q A Q^T unchanged, unless A(p,q) was negligible against the gap of the diagonal (then t = A(p,q)/h is not the exact root) *)
Definition jac1_inv (a01 a02 a12 d0 d1 d2 q00 q01 q02 q10 q11 q12 q20 q21 q22 : R) : Prop :=
  match jac1 a01 a02 a12 d0 d1 d2 q00 q01 q02 q10 q11 q12 q20 q21 q22 with
  | Some [tag; b01; b02; b12; w0; w1; w2; r00; r01; r02; r10; r11; r12; r20; r21; r22] =>
      let x := JS a01 a02 a12 d0 d1 d2 (M3 q00 q01 q02 q10 q11 q12 q20 q21 q22) in
      let y := JS b01 b02 b12 w0 w1 w2 (M3 r00 r01 r02 r10 r11 r12 r20 r21 r22) in
      tag = 1 -> orth (jq x) ->
      orth (jq y) /\
      (conj_by (jq y) (jfull y) = conj_by (jq x) (jfull x) \/ exists p : plane, 100 * Rabs (apq p x) <= Rabs (hpq p x) * eps_d)
  | _ => True
  end.

(* ---------------------------------------------------------------- (e) Householder reduction sytrd3
   outputs: Q (row major), d0 d1 d2, e0 e1.  Q is orthogonal and Q^T A Q is the tridiagonal matrix (d, e), on every path. *)
Definition sytrd_ok (a00 a01 a02 a11 a12 a22 : R) : Prop :=
  match sytrd a00 a01 a02 a11 a12 a22 with
  | Some [q00; q01; q02; q10; q11; q12; q20; q21; q22; d0; d1; d2; e0; e1] =>
      let Q := M3 q00 q01 q02 q10 q11 q12 q20 q21 q22 in
      orth Q /\ mmul (mmul (mtr Q) (msym a00 a01 a02 a11 a12 a22)) Q = msym d0 e0 0 d1 e1 d2
  | _ => False
  end.

(* ---------------------------------------------------------------- eigenvector of the default solver
   computeEigenVector(src, vp): on every path that returns a vector (the others delegate to the full solver), the vector has
   norm one and, when vp is an eigenvalue of the tensor (det (A - vp I) = 0), it is an eigenvector for vp. *)
Definition evec3_leaf (a0 a1 a2 a3 a4 a5 vp : R) (l : list R) : Prop :=
  match l with
  | [v0; v1; v2] =>
      unit3 v0 v1 v2 /\
      (eigenvalue_mandel a0 a1 a2 a3 a4 a5 vp -> eigvec_full a0 (a3 / sqrt 2) (a4 / sqrt 2) a1 (a5 / sqrt 2) a2 vp v0 v1 v2)
  | _ => False
  end.
Definition evec3_ok (a0 a1 a2 a3 a4 a5 vp : R) : Prop :=
  match evec3 a0 a1 a2 a3 a4 a5 vp with
  | Some l => evec3_leaf a0 a1 a2 a3 a4 a5 vp l
  | None => True
  end.

(* find_perpendicular_vector(x): the result has norm one on every path and is orthogonal to x, unless x is taken for null
   (|x|^2 < 100 min) where (1,0,0) is returned *)
Definition perp_ok (x0 x1 x2 : R) : Prop :=
  match perp x0 x1 x2 with
  | Some [y0; y1; y2] =>
      unit3 y0 y1 y2 /\ (dot3 x0 x1 x2 y0 y1 y2 = 0 \/ dot3 x0 x1 x2 x0 x1 x2 < tiny_d)
  | _ => False
  end.

(* C03 -- Harari solver (HarariEigensolver3x3::computeEigenValues), every branch of the regenerated tree:
   the three returned values sum to the trace of the matrix (necessary for being its spectrum). *)
From Coq Require Import Reals List.
From C03 Require Import C03Spec C03_gen C03Statements C03ProofsHarari.
Import ListNotations.
Local Open Scope R_scope.

Theorem C03_harari_values_sum_to_trace : forall A B C D E F, harari_ok A B C D E F.
Proof. exact harari_trace. Qed.
Print Assumptions C03_harari_values_sum_to_trace.

(* C03 -- eigenvector construction of the default solver, over the trees regenerated from /repo. *)
From Coq Require Import Reals List.
From C03 Require Import C03Spec C03Jacobi C03_gen C03StatementsB C03ProofsEvec.
Import ListNotations.
Local Open Scope R_scope.

(* StensorComputeEigenVectors<3>::computeEigenVector(src, vp): every path that returns a vector returns a unit vector, and an
   eigenvector for vp when vp is an eigenvalue (the other paths delegate to the full solver: nothing is claimed there) *)
Theorem C03_compute_eigenvector : forall a0 a1 a2 a3 a4 a5 vp, evec3_ok a0 a1 a2 a3 a4 a5 vp.
Proof. exact evec3_correct. Qed.
Print Assumptions C03_compute_eigenvector.

(* find_perpendicular_vector(x): unit on every path, orthogonal to x unless x is taken for null (|x|^2 < 100 min) *)
Theorem C03_find_perpendicular_vector : forall x0 x1 x2, perp_ok x0 x1 x2.
Proof. exact perp_correct. Qed.
Print Assumptions C03_find_perpendicular_vector.

(* C03 -- tactics that do not depend on the shape of the traced terms.
   flatten: every non-constant square root and every quotient with a non-constant denominator of the goal is replaced, innermost
   first, by a variable with its defining polynomial equation (q*q = a, 0 <= q;  v*y = x), so that what remains is polynomial
   arithmetic for ring / nsatz / nra. *)
From Coq Require Import Reals List Lra Psatz Nsatz.
From VLib Require Import RealExtra.
Local Open Scope R_scope.

Ltac split_tests :=
  repeat match goal with
         | |- context [if ?c then _ else _] => destruct c
         end.

Ltac has_var t := match t with context [?z] => is_var z end.

(* some square root of t is not sqrt 2 *)
Ltac has_radical t := match t with context [sqrt ?a] => lazymatch a with 2 => fail | _ => idtac end end.
(* t is polynomial over its variables and sqrt 2: no other square root, no quotient (nsatz does not read constants such as 1/2) *)
Ltac is_poly t :=
  lazymatch t with
  | context [Rdiv _ _] => fail
  | _ => tryif has_radical t then fail else idtac
  end.
(* the same, quotients by constants allowed *)
Ltac is_poly_c t :=
  tryif has_radical t then fail
  else tryif (match t with context [Rdiv _ ?y] => has_var y end) then fail else idtac.

Ltac add_sq x :=
  lazymatch goal with
  | _ : 0 <= x * x |- _ => fail
  | _ => let H := fresh "Hsq" in pose proof (Rle_0_sqr x) as H; unfold Rsqr in H
  end.
Ltac sq_hints :=
  repeat match goal with
         | _ : context [?x * ?x] |- _ => add_sq x
         | |- context [?x * ?x] => add_sq x
         end.
Ltac add_abs x :=
  lazymatch goal with
  | _ : 0 <= Rabs x |- _ => fail
  | _ => pose proof (Rabs_pos x)
  end.
Ltac abs_hints :=
  repeat match goal with
         | _ : context [Rabs ?x] |- _ => add_abs x
         | |- context [Rabs ?x] => add_abs x
         end.

Lemma div_to_mul x y v : y <> 0 -> v = x / y -> v * y = x.
Proof. intros Hy ->. field. exact Hy. Qed.

(* a denominator or a radicand side condition *)
Ltac nz_tac := first [ assumption | lra | (let E := fresh "E" in intro E; sq_hints; nra) ].

Ltac flat_sqrt2 :=
  match goal with
  | |- context [sqrt 2] =>
      let H1 := fresh "Hr2" in let H2 := fresh "Hr2p" in
      pose proof sqrt2_sq as H1; pose proof sqrt2_pos as H2; generalize dependent (sqrt 2); intros
  end.

Ltac flat1 nz :=
  match goal with
  | |- context [sqrt ?a] =>
      lazymatch a with 2 => fail | _ => idtac end;
      is_poly a;
      let Ha := fresh "Hrad" in
      assert (Ha : 0 <= a) by (sq_hints; nra);
      let Hq := fresh "Hq" in let Hp := fresh "Hqp" in
      pose proof (sqrt_sqrt a Ha) as Hq; pose proof (sqrt_pos a) as Hp;
      generalize dependent (sqrt a); intros
  | |- context [Rdiv ?x ?y] =>
      is_poly x; is_poly y;
      let Hy := fresh "Hnz" in
      assert (Hy : y <> 0) by nz;
      let v := fresh "v" in let Hv := fresh "Hv" in
      remember (Rdiv x y) as v eqn:Hv in *;
      apply (div_to_mul x y v Hy) in Hv;
      (* keep one fact y <> 0 per non-constant denominator *)
      first [ (has_var y; lazymatch goal with H1 : y <> 0, H2 : y <> 0 |- _ => clear Hy | _ => idtac end) | clear Hy ]
  end.
Ltac flatten_with nz := try flat_sqrt2; repeat flat1 nz.
Ltac flatten := flatten_with ltac:(idtac; nz_tac).

(* polynomial identity from the polynomial equalities of the context (nsatz is confused by other hypotheses) *)
Ltac poly_close :=
  repeat match goal with
         | H : _ <> _ |- _ => clear H
         | H : _ <= _ |- _ => clear H
         | H : _ < _ |- _ => clear H
         | H : ~ _ |- _ => clear H
         end;
  first [ ring | solve [ timeout 60 nsatz ] ].

(* x <> 0 from the tests of the path: replace x by 0 everywhere, |0| = 0, absolute values are non negative *)
Ltac nz_from_path x :=
  let E := fresh "E" in
  destruct (Req_dec x 0) as [E|E]; [ exfalso; first [ subst x | rewrite E in * ]; rewrite ?Rabs_R0 in *; abs_hints; lra | ].
(* the same after multiplication by every quantity known to be non zero, or by their squares (cancellation is not an ideal
   membership); no search: each hypothesis x <> 0 is used once *)
Lemma sq_neq0 x : x <> 0 -> x * x <> 0.
Proof. intros H E. apply H. destruct (Rmult_integral _ _ E); assumption. Qed.
Ltac mul_all :=
  repeat match goal with
         | H : ?x <> 0 |- _ = _ => apply (Rmult_eq_reg_l x); [ clear H | exact H ]
         end.
Ltac mul_all_sq :=
  repeat match goal with
         | H : ?x <> 0 |- _ = _ => apply (Rmult_eq_reg_l (x * x)); [ clear H | exact (sq_neq0 x H) ]
         end.
Ltac poly_close_nz := first [ poly_close | (mul_all; poly_close) | (mul_all_sq; poly_close) ].

(* y <> 0 from the tests of the path: with y = 0 the tests compare |0| = 0 *)
Ltac nz_path :=
  let E := fresh "E" in intro E; rewrite E in *; rewrite ?Rabs_R0 in *; abs_hints; lra.

(* the conjunction of  y <> 0  over the polynomial, non-constant denominators y occurring in the term t *)
Ltac denoms_of t :=
  let rec go acc :=
    match t with
    | context [Rdiv _ ?y] =>
        let _ := match goal with _ => is_poly_c y; has_var y; lazymatch acc with context [y] => fail | _ => idtac end end in
        go constr:(y <> 0 /\ acc)
    | _ => acc
    end in
  go constr:(True).

// C03 tracer (engine S): non-iterative pieces of the symmetric eigen solvers of /repo, instantiated with symv::Sym.
//   trace gen <out.v> [seed] [nagree] : prints the Coq definitions and the Sym-vs-double agreement lines
#include "symtfel.hxx"
#include <array>
#include <cstring>
#include <iostream>
#include <stdexcept>
#include <algorithm>
#include <numeric>
#include <numbers>
#include <cmath>
// fses::syevj3 tests convergence with std::fpclassify(so) == FP_ZERO: for the symbolic scalar only an exact constant zero is zero
namespace std {
  inline int fpclassify(const symv::Sym& s) noexcept { return (s.isconst() && s.iszero()) ? FP_ZERO : FP_NORMAL; }
}  // namespace std
// (must be declared before the first inclusion of FSES/syevj3.ixx, which TFEL/Math/stensor.hxx pulls in)
// private helpers of StensorComputeEigenVectors<3> (computeEigenVector, cross_product, find_perpendicular_vector)
// are traced directly: open the classes of the TFEL headers (standard headers are all included above)
#define private public
#define protected public
// The cubic solver called by StensorComputeEigenValues<3>::exe is substituted for T = Sym (and only for Sym): the real
// header is compiled under the name CubicRootsReal and tfel::math::CubicRoots forwards every other scalar type to it.
#define CubicRoots CubicRootsReal
#include "TFEL/Math/General/CubicRoots.hxx"
#undef CubicRoots

// ---- stub of the cubic solver for T = Sym: records the polynomial the caller hands over and returns chosen
// "roots" (x1 = symbolic r, x2 = 0, x3 = 1) so that the map root -> eigenvalue applied by the caller is observable.
namespace c03 {
  static bool stub_throws = false;
  static symv::Sym coef[4];
  static bool coef_set = false;
}  // namespace c03
namespace tfel::math {
  struct CubicRoots {
    template <typename T>
    static unsigned short exe(T& x1, T& x2, T& x3, const T a3, const T a2, const T a1, const T a0, const bool b = false) {
      if constexpr (std::is_same_v<T, symv::Sym>) {
        if (c03::stub_throws) throw std::runtime_error("delegates to the full eigen solver (degenerate minors)");
        c03::coef[0] = a3;
        c03::coef[1] = a2;
        c03::coef[2] = a1;
        c03::coef[3] = a0;
        c03::coef_set = true;
        x1 = symv::var("r");
        x2 = symv::Sym(0);
        x3 = symv::Sym(1);
        return 3u;
      } else {
        return CubicRootsReal::exe(x1, x2, x3, a3, a2, a1, a0, b);
      }
    }
  };
}  // namespace tfel::math

#include "TFEL/Math/stensor.hxx"
#include "TFEL/Math/tmatrix.hxx"
#include "TFEL/Math/Stensor/Internals/StensorComputeEigenValues.hxx"
#include "TFEL/Math/Stensor/Internals/StensorComputeEigenVectors.hxx"
#include "TFEL/Math/Stensor/Internals/StensorEigenSolver.hxx"
#include "FSES/sytrd3.hxx"
#include "FSES/syevj3.hxx"
#undef private
#undef protected

using namespace symv;
using tfel::math::stensor;
using tfel::math::tmatrix;
using tfel::math::tvector;
namespace ti = tfel::math::internals;

// ---------------------------------------------------------------- the traced functions, generic in the scalar
template <typename T>
std::vector<T> f_ev2(const std::vector<T>& s) {
  T v[4] = {s[0], s[1], s[2], s[3]};
  T a, b, c;
  ti::StensorComputeEigenValues<2u>::exe(v, a, b, c, false);
  return {a, b, c};
}
template <typename T>
std::vector<T> f_fses2(const std::vector<T>& s) {
  tvector<3u, T> vp;
  tmatrix<3u, 3u, T> m;
  ti::FSESAnalyticalSymmetricEigensolver2x2<T>::computeEigenVectors(vp, m, s[0], s[1], s[2]);
  return {vp[0], vp[1], m(0, 0), m(1, 0), m(0, 1), m(1, 1)};
}
template <typename T>
std::vector<T> f_evec3(const std::vector<T>& s) {
  T src[6] = {s[0], s[1], s[2], s[3], s[4], s[5]};
  T v0, v1, v2;
  const bool ok = ti::StensorComputeEigenVectors<3u>::computeEigenVector(src, s[6], v0, v1, v2);
  if (!ok) throw std::runtime_error("computeEigenVector returned false");
  return {v0, v1, v2};
}
template <typename T>
std::vector<T> f_cross(const std::vector<T>& s) {
  T z0, z1, z2;
  ti::StensorComputeEigenVectors<3u>::cross_product(z0, z1, z2, s[0], s[1], s[2], s[3], s[4], s[5]);
  return {z0, z1, z2};
}
template <typename T>
std::vector<T> f_perp(const std::vector<T>& s) {
  T y0, y1, y2;
  ti::StensorComputeEigenVectors<3u>::find_perpendicular_vector(y0, y1, y2, s[0], s[1], s[2]);
  return {y0, y1, y2};
}
template <typename T>
std::vector<T> f_sytrd(const std::vector<T>& s) {
  // s = a00 a01 a02 a11 a12 a22
  tmatrix<3u, 3u, T> A, Q;
  A(0, 0) = s[0]; A(0, 1) = A(1, 0) = s[1]; A(0, 2) = A(2, 0) = s[2];
  A(1, 1) = s[3]; A(1, 2) = A(2, 1) = s[4]; A(2, 2) = s[5];
  for (unsigned short i = 0; i < 3; ++i)
    for (unsigned short j = 0; j < 3; ++j) Q(i, j) = T(0);
  tvector<3u, T> d;
  T e[3] = {T(0), T(0), T(0)};
  fses::sytrd3(Q, d, e, A);
  std::vector<T> r;
  for (unsigned short i = 0; i < 3; ++i)
    for (unsigned short j = 0; j < 3; ++j) r.push_back(Q(i, j));
  for (unsigned short i = 0; i < 3; ++i) r.push_back(d[i]);
  r.push_back(e[0]);
  r.push_back(e[1]);
  return r;
}
template <typename T>
std::vector<T> f_harari(const std::vector<T>& s) {
  tvector<3u, T> vp;
  ti::HarariEigensolver3x3<T>::computeEigenValues(vp, s[0], s[1], s[2], s[3], s[4], s[5]);
  return {vp[0], vp[1], vp[2]};
}

// ---- (d) one Jacobi rotation of fses::syevj3 from a general state.
// syevj3 initialises Q to the identity and w to diag(A) itself, then loops.  The matrix wrappers below let the REAL function run
// on a general state and stop it after its first rotation, without counting anything:
//   phase 0: the code initialises Q;  first read of A (w = diag A): Q is replaced by the symbols q00..q22 (general orthogonal
//   matrix of the preceding sweeps), phase 1;  first access to Q afterwards ("Update eigenvectors" of the first rotation that is
//   carried out): phase 2;  next access to A (the rotation is complete, the sweep goes on): JacCut is thrown.
// If no rotation is ever carried out the function runs to its end (tag 0).
namespace c03 {
  struct JacCut {};
  struct JacState {
    int phase = 0;
    std::vector<symv::Sym> qsym;
  };
  template <typename T>
  struct JacQ {
    T q[3][3];
    JacState* st = nullptr;
    T& operator()(int i, int j) {
      if (st != nullptr && st->phase == 1) st->phase = 2;
      return q[i][j];
    }
    const T& operator()(int i, int j) const { return q[i][j]; }
  };
  template <typename T>
  struct JacA {
    T a[3][3];
    JacState* st = nullptr;
    JacQ<T>* Q = nullptr;
    std::vector<T> qinit;
    T& operator()(int i, int j) {
      if (st != nullptr) {
        if (st->phase == 0) {
          st->phase = 1;
          for (int r = 0; r < 3; ++r)
            for (int c = 0; c < 3; ++c) Q->q[r][c] = qinit[3 * r + c];
        } else if (st->phase == 2) {
          throw JacCut();
        }
      }
      return a[i][j];
    }
    const T& operator()(int i, int j) const { return a[i][j]; }
  };
  template <typename T>
  struct JacW {
    T w[3];
    T& operator()(int i) { return w[i]; }
    const T& operator()(int i) const { return w[i]; }
  };
}  // namespace c03
// ps = a01 a02 a12 d0 d1 d2 q00 .. q22  ->  tag a01' a02' a12' w0 w1 w2 Q'(row major); tag 1: stopped after the first rotation
template <typename T>
std::vector<T> f_jac(const std::vector<T>& ps) {
  c03::JacState st;
  c03::JacQ<T> Q;
  c03::JacA<T> A;
  c03::JacW<T> w;
  Q.st = &st;
  A.st = &st;
  A.Q = &Q;
  A.qinit.assign(ps.begin() + 6, ps.end());
  A.a[0][1] = A.a[1][0] = ps[0];
  A.a[0][2] = A.a[2][0] = ps[1];
  A.a[1][2] = A.a[2][1] = ps[2];
  A.a[0][0] = ps[3];
  A.a[1][1] = ps[4];
  A.a[2][2] = ps[5];
  for (int i = 0; i < 3; ++i) {
    w.w[i] = T(0);
    for (int j = 0; j < 3; ++j) Q.q[i][j] = T(0);
  }
  T tag(0);
  try {
    fses::syevj3(Q, w, A);
  } catch (c03::JacCut&) {
    tag = T(1);
  }
  std::vector<T> r{tag, A.a[0][1], A.a[0][2], A.a[1][2], w.w[0], w.w[1], w.w[2]};
  for (int i = 0; i < 3; ++i)
    for (int j = 0; j < 3; ++j) r.push_back(Q.q[i][j]);
  return r;
}

// ---------------------------------------------------------------- agreement Sym tree vs double instantiation
struct Agree {
  int ok = 0, fail = 0, skip = 0;
};
template <typename FD>
static void agree(const char* name, const std::vector<Leaf>& leaves, const std::vector<Sym>& ps, Rng& rng, int n, FD fd,
                  const std::function<std::vector<double>(Rng&)>& gen, double tol = 1e-9) {
  Agree a;
  std::string firstbad;
  for (int it = 0; it < n; ++it) {
    auto x = gen(rng);
    Env env;
    for (size_t k = 0; k < ps.size(); ++k) env[Store::get().nodes[node_of(ps[k])].name] = x[k];
    std::vector<long double> r;
    std::string err;
    std::vector<double> d;
    bool threw = false;
    try {
      d = fd(x);
    } catch (std::exception&) {
      threw = true;
    }
    if (!eval_leaves(leaves, env, r, &err)) {
      ++a.skip;
      continue;
    }
    if (!err.empty() || threw) {
      if (!err.empty() && threw) ++a.ok;
      else ++a.skip;  // a comparison at rounding distance may select different leaves
      continue;
    }
    long double scale = 0;
    for (double v : x) scale = std::max<long double>(scale, std::fabs(v));
    bool good = d.size() == r.size();
    for (size_t k = 0; good && k < d.size(); ++k) {
      long double sc = std::max<long double>(1.0L, std::fabs(r[k]));
      good = close(d[k], r[k], sc * 0 + std::max<long double>(std::fabs(r[k]), 1e-30L), tol) ||
             std::fabs(d[k] - r[k]) <= tol * std::max<long double>(scale, 1.0L);
    }
    if (good) ++a.ok;
    else {
      ++a.fail;
      if (firstbad.empty()) {
        std::ostringstream o;
        o.precision(17);
        for (double v : x) o << v << ",";
        o << " double:";
        for (double v : d) o << v << ",";
        o << " tree:";
        for (auto v : r) o << static_cast<double>(v) << ",";
        firstbad = o.str();
      }
    }
  }
  std::printf("AGREE %s ok=%d fail=%d skip=%d %s\n", name, a.ok, a.fail, a.skip, firstbad.c_str());
}

static std::function<std::vector<double>(Rng&)> uniform_gen(int n, double lo, double hi) {
  return [=](Rng& r) {
    std::vector<double> x;
    for (int i = 0; i < n; ++i) x.push_back(r.range(lo, hi));
    return x;
  };
}

int main(int argc, char** argv) {
  if (argc < 3 || std::strcmp(argv[1], "gen")) {
    std::fprintf(stderr, "usage: trace gen <out.v> [seed] [nagree]\n");
    return 2;
  }
  const uint64_t seed = argc > 3 ? std::strtoull(argv[3], nullptr, 10) : 1;
  const int nag = argc > 4 ? std::atoi(argv[4]) : 300;
  Rng rng(seed);
  Trace tr("C03_gen");

  // (a) default solver: StensorComputeEigenValues<3>::exe with the cubic solver stubbed
  {
    auto s = vars("s", 6);
    std::vector<Sym> ps = s;
    ps.push_back(var("r"));
    auto leaves = tr.def_paths("cev3", ps, [&] {
      Sym v[6] = {s[0], s[1], s[2], s[3], s[4], s[5]};
      Sym a, b, c;
      c03::coef_set = false;
      ti::StensorComputeEigenValues<3u>::exe(v, a, b, c, false);
      if (!c03::coef_set) throw SymError("cubic solver stub was not reached");
      return std::vector<Sym>{c03::coef[0], c03::coef[1], c03::coef[2], c03::coef[3], a, b, c};
    });
    std::printf("LEAVES cev3 %zu\n", leaves.size());
    // agreement: the eigenvalues returned by the double instantiation (real cubic solver), mapped back through the
    // traced affine map, must be roots of the traced cubic
    int ok = 0, fail = 0, skip = 0;
    std::string firstbad;
    for (int it = 0; it < nag; ++it) {
      std::vector<double> x;
      const double sc = std::pow(10.0, rng.range(-3, 3));
      for (int i = 0; i < 6; ++i) x.push_back(sc * rng.range(-1, 1));
      if (it % 7 == 0) x[3] = x[4] = x[5] = 0;  // diagonal
      Env env{{"r", 0.0L}};
      for (int i = 0; i < 6; ++i) env["s" + std::to_string(i)] = x[i];
      std::vector<long double> r;
      std::string err;
      if (!eval_leaves(leaves, env, r, &err) || !err.empty()) {
        ++skip;
        continue;
      }
      double v[6], e0, e1, e2;
      for (int i = 0; i < 6; ++i) v[i] = x[i];
      ti::StensorComputeEigenValues<3u>::exe(v, e0, e1, e2, false);
      const long double t = r[5], vv = r[6] - r[5];
      bool good = vv != 0;
      long double worst = 0;
      for (double ev : {e0, e1, e2}) {
        const long double rr = (ev - t) / vv;
        const long double c = r[0] * rr * rr * rr + r[1] * rr * rr + r[2] * rr + r[3];
        const long double m = std::fabs(r[0] * rr * rr * rr) + std::fabs(r[1] * rr * rr) + std::fabs(r[2] * rr) + std::fabs(r[3]) + 1e-300L;
        worst = std::max(worst, std::fabs(c) / m);
      }
      good = good && worst < 1e-6L;
      if (good) ++ok;
      else {
        ++fail;
        if (firstbad.empty()) {
          std::ostringstream o;
          o.precision(17);
          for (double q : x) o << q << ",";
          o << " eig:" << e0 << "," << e1 << "," << e2 << " relres:" << static_cast<double>(worst);
          firstbad = o.str();
        }
      }
    }
    std::printf("AGREE cev3 ok=%d fail=%d skip=%d %s\n", ok, fail, skip, firstbad.c_str());
  }
  // (b) 2D closed forms
  {
    auto s = vars("s", 4);
    auto leaves = tr.def_paths("ev2", s, [&] { return f_ev2<Sym>(s); });
    agree("ev2", leaves, s, rng, nag, [](const std::vector<double>& x) { return f_ev2<double>(x); }, uniform_gen(4, -3, 3));
    std::vector<Sym> p{var("A"), var("B"), var("C")};
    auto l2 = tr.def_paths("fses2", p, [&] { return f_fses2<Sym>(p); });
    std::printf("LEAVES fses2 %zu\n", l2.size());
    agree("fses2", l2, p, rng, nag, [](const std::vector<double>& x) { return f_fses2<double>(x); }, uniform_gen(3, -3, 3));
  }
  // (c) eigenvector construction of the default solver
  {
    auto a = vars("a", 6);
    std::vector<Sym> ps = a;
    ps.push_back(var("vp"));
    c03::stub_throws = true;
    tr.merge_equal_branches = true;  // many sibling sub-trees are identical (delegation to the full solver): print them once
    auto leaves = tr.def_paths("evec3", ps, [&] { return f_evec3<Sym>(ps); });
    tr.merge_equal_branches = false;
    c03::stub_throws = false;
    std::printf("LEAVES evec3 %zu\n", leaves.size());
    agree("evec3", leaves, ps, rng, nag, [](const std::vector<double>& x) { return f_evec3<double>(x); },
          [](Rng& r) {
            std::vector<double> x;
            for (int i = 0; i < 6; ++i) x.push_back(r.range(-2, 2));
            // half of the cases: vp is an eigenvalue of the tensor (computed by the real default solver)
            if (r.below(2)) {
              double e0, e1, e2;
              ti::StensorComputeEigenValues<3u>::exe(x.data(), e0, e1, e2, true);
              x.push_back(r.below(3) == 0 ? e0 : (r.below(2) ? e1 : e2));
            } else x.push_back(r.range(-2, 2));
            return x;
          });
    auto xy = vars("x", 3);
    auto yy = vars("y", 3);
    std::vector<Sym> both = xy;
    both.insert(both.end(), yy.begin(), yy.end());
    tr.def("cross", both, f_cross<Sym>(both));
    auto lp = tr.def_paths("perp", xy, [&] { return f_perp<Sym>(xy); });
    std::printf("LEAVES perp %zu\n", lp.size());
    agree("perp", lp, xy, rng, nag, [](const std::vector<double>& x) { return f_perp<double>(x); }, uniform_gen(3, -2, 2));
  }
  // (d) one rotation of the cyclic Jacobi method from a general state
  {
    std::vector<Sym> p{var("a01"), var("a02"), var("a12"), var("d0"), var("d1"), var("d2")};
    for (int i = 0; i < 3; ++i)
      for (int j = 0; j < 3; ++j) p.push_back(var("q" + std::to_string(i) + std::to_string(j)));
    tr.merge_equal_branches = true;
    auto leaves = tr.def_paths("jac1", p, [&] { return f_jac<Sym>(p); });
    tr.merge_equal_branches = false;
    std::printf("LEAVES jac1 %zu\n", leaves.size());
    agree("jac1", leaves, p, rng, nag, [](const std::vector<double>& x) { return f_jac<double>(x); },
          [](Rng& r) {
            std::vector<double> x;
            const int kind = r.below(4);
            for (int i = 0; i < 3; ++i) x.push_back(kind == 1 && r.below(2) ? 0. : r.range(-2, 2) * (kind == 2 ? 1e-17 : 1.));
            for (int i = 0; i < 3; ++i) x.push_back(r.range(-2, 2));
            for (int i = 0; i < 9; ++i) x.push_back(r.range(-1, 1));
            return x;
          });
  }
  // (e) Householder reduction to tridiagonal form
  {
    std::vector<Sym> p{var("a00"), var("a01"), var("a02"), var("a11"), var("a12"), var("a22")};
    auto leaves = tr.def_paths("sytrd", p, [&] { return f_sytrd<Sym>(p); });
    std::printf("LEAVES sytrd %zu\n", leaves.size());
    agree("sytrd", leaves, p, rng, nag, [](const std::vector<double>& x) { return f_sytrd<double>(x); }, uniform_gen(6, -2, 2));
  }
  // Harari: eigenvalues (all branches; trigonometric functions stay symbolic)
  {
    std::vector<Sym> p{var("A"), var("B"), var("C"), var("D"), var("E"), var("F")};
    auto leaves = tr.def_paths("harari", p, [&] { return f_harari<Sym>(p); });
    std::printf("LEAVES harari %zu\n", leaves.size());
    agree("harari", leaves, p, rng, nag, [](const std::vector<double>& x) { return f_harari<double>(x); },
          [](Rng& r) {
            std::vector<double> x;
            for (int i = 0; i < 6; ++i) x.push_back(r.range(-2, 2));
            if (r.below(3) == 0) x[3] = x[4] = x[5] = 0;  // diagonal: exercises the early-return branches
            if (r.below(9) == 0) x[1] = x[0], x[2] = x[0];
            return x;
          });
  }
  tr.write(argv[2]);
  return 0;
}

(* C06 -- proofs: `jac` (C06Tactics.v) = one auto_derive + field per entry of the Jacobian; nothing depends on the
   shape of the traced terms. *)
From Coq Require Import Reals List.
From Coquelicot Require Import Coquelicot.
From VLib Require Import RealExtra.
From Coq Require Import Lra.
From C06 Require Import C06Spec C06_gen C06Tactics C06Statements.
Import ListNotations.
Local Open Scope R_scope.

Lemma pk1_from_pk2_ok3 : pk1_from_pk2_stmt3.
Proof. unfold pk1_from_pk2_stmt3. jac_t 3000 ltac:(lazy beta iota zeta delta [upd nthR List.firstn List.skipn List.app List.nth Nat.mul Nat.add f_pk1_from_pk23_l f_pk1_from_pk23 D_pk1_from_pk23_l D_pk1_from_pk23]) ltac:(unfold f_tensor_det3). Qed.

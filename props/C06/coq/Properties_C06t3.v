(* C06 -- property theorems (statements: C06Statements.v / C06Spec.v; proofs: C06ProofsT3.v) *)
From Coq Require Import Reals List.
From Coquelicot Require Import Coquelicot.
From VLib Require Import RealExtra.
From C06 Require Import C06Spec C06_gen C06Statements C06ProofsT3.
Import ListNotations.
Local Open Scope R_scope.


(* st2tost2::dsquare(s(x), C) is the Jacobian of x |-> square(s(x)), s(x) = s0 + C.x -- 3D *)
Theorem C06_dsquare_chain_3D : dsquare_chain_stmt3.
Proof. exact dsquare_chain_ok3. Qed.
Print Assumptions C06_dsquare_chain_3D.

(* t2tot2::tpld(W, C) is the Jacobian of x |-> V(x)*W, V(x) = V0 + C.x -- 3D *)
Theorem C06_tpld_chain_3D : tpld_chain_stmt3.
Proof. exact tpld_chain_ok3. Qed.
Print Assumptions C06_tpld_chain_3D.

(* C06 -- property theorems (statements: C06Statements.v / C06Spec.v; proofs: C06ProofsT5.v) *)
From Coq Require Import Reals List.
From Coquelicot Require Import Coquelicot.
From VLib Require Import RealExtra.
From C06 Require Import C06Spec C06_gen C06Statements C06ProofsT5.
Import ListNotations.
Local Open Scope R_scope.


(* computeCauchyStressDerivativeFromKirchhoffStressDerivative(dtau, tau(F)/det F, F) is the Jacobian of F |-> tau(F)/det(F), tau(F) = t0 + X.F (det F <> 0) -- 3D *)
Theorem C06_cauchy_from_kirchhoff_3D : cauchy_from_kirchhoff_stmt3.
Proof. exact cauchy_from_kirchhoff_ok3. Qed.
Print Assumptions C06_cauchy_from_kirchhoff_3D.

(* C06 -- property theorems (statements: C06Statements.v / C06Spec.v; proofs: C06ProofsI.v) *)
From Coq Require Import Reals List.
From Coquelicot Require Import Coquelicot.
From VLib Require Import RealExtra.
From C06 Require Import C06Spec C06_gen C06Statements C06ProofsI.
Import ListNotations.
Local Open Scope R_scope.


(* computePushForwardDerivative(st2tost2&, F) is the Jacobian of S |-> push_forward(S, F) = F.S.F^T *)
Theorem C06_push_forward_dS : push_forward_dS_stmt1 /\ push_forward_dS_stmt2 /\ push_forward_dS_stmt3.
Proof. exact (conj push_forward_dS_ok1 (conj push_forward_dS_ok2 push_forward_dS_ok3)). Qed.
Print Assumptions C06_push_forward_dS.

(* computePushForwardDerivativeWithRespectToDeformationGradient(S, F) is the Jacobian of F |-> F.S.F^T *)
Theorem C06_push_forward_dF : push_forward_dF_stmt1 /\ push_forward_dF_stmt2 /\ push_forward_dF_stmt3.
Proof. exact (conj push_forward_dF_ok1 (conj push_forward_dF_ok2 push_forward_dF_ok3)). Qed.
Print Assumptions C06_push_forward_dF.

(* computePushForwardDerivative(dS/dF, S(F), F) is the Jacobian of F |-> F.S(F).F^T, S(F) = S0 + X.F *)
Theorem C06_push_forward_chain : push_forward_chain_stmt1 /\ push_forward_chain_stmt2 /\ push_forward_chain_stmt3.
Proof. exact (conj push_forward_chain_ok1 (conj push_forward_chain_ok2 push_forward_chain_ok3)). Qed.
Print Assumptions C06_push_forward_chain.

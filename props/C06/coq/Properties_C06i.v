(* C06 -- property theorems (statements: C06Statements.v / C06Spec.v; proofs: C06ProofsI.v) *)
From Coq Require Import Reals List.
From Coquelicot Require Import Coquelicot.
From VLib Require Import RealExtra.
From C06 Require Import C06Spec C06_gen C06Statements C06ProofsI.
Import ListNotations.
Local Open Scope R_scope.


(* computePushForwardDerivative(st2tost2&, F) is the Jacobian of S |-> push_forward(S, F) = F.S.F^T *)
Theorem C06_push_forward_dS : push_forward_dS_stmt1 /\ push_forward_dS_stmt2 /\ push_forward_dS_stmt3.
Proof. exact (conj push_forward_dS_ok1 (conj push_forward_dS_ok2 push_forward_dS_ok3)). Qed.
Print Assumptions C06_push_forward_dS.

(* computePushForwardDerivativeWithRespectToDeformationGradient(S, F) is the Jacobian of F |-> F.S.F^T *)
Theorem C06_push_forward_dF : push_forward_dF_stmt1 /\ push_forward_dF_stmt2 /\ push_forward_dF_stmt3.
Proof. exact (conj push_forward_dF_ok1 (conj push_forward_dF_ok2 push_forward_dF_ok3)). Qed.
Print Assumptions C06_push_forward_dF.

(* computePushForwardDerivative(dS/dF, S(F), F) is the Jacobian of F |-> F.S(F).F^T, S(F) = S0 + X.F -- 1D and 2D (3D: Properties_C06t2.v, thorough tier) *)
Theorem C06_push_forward_chain_1D_2D : push_forward_chain_stmt1 /\ push_forward_chain_stmt2.
Proof. exact (conj push_forward_chain_ok1 push_forward_chain_ok2). Qed.
Print Assumptions C06_push_forward_chain_1D_2D.

(* computeKirchhoffStressDerivativeFromCauchyStressDerivative(ds, s(F), F) is the Jacobian of F |-> det(F) s(F), s(F) = s0 + X.F -- 1D and 2D (3D: Properties_C06t4.v, thorough tier) *)
Theorem C06_kirchhoff_from_cauchy_1D_2D : kirchhoff_from_cauchy_stmt1 /\ kirchhoff_from_cauchy_stmt2.
Proof. exact (conj kirchhoff_from_cauchy_ok1 kirchhoff_from_cauchy_ok2). Qed.
Print Assumptions C06_kirchhoff_from_cauchy_1D_2D.

(* computeCauchyStressDerivativeFromKirchhoffStressDerivative(dtau, tau(F)/det F, F) is the Jacobian of F |-> tau(F)/det(F), tau(F) = t0 + X.F (det F <> 0) -- 1D and 2D (3D: Properties_C06t5.v, thorough tier) *)
Theorem C06_cauchy_from_kirchhoff_1D_2D : cauchy_from_kirchhoff_stmt1 /\ cauchy_from_kirchhoff_stmt2.
Proof. exact (conj cauchy_from_kirchhoff_ok1 cauchy_from_kirchhoff_ok2). Qed.
Print Assumptions C06_cauchy_from_kirchhoff_1D_2D.

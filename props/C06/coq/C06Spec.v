(* C06 -- specification: what "D is the derivative of f" means, independently of any code.
   f : R^nin -> R^nout and D : R^nin -> R^(nout x nin) (row major) are given as functions on lists of reals;
   D is the Jacobian of f at p when every partial function x |-> f_i(p with component j replaced by x) is
   differentiable at p_j with derivative D_ij(p)  (Coquelicot's is_derive). *)
From Coq Require Import Reals List.
From Coquelicot Require Import Coquelicot.
From VLib Require Import RealExtra.
Import ListNotations.
Local Open Scope R_scope.

(* p with its j-th component replaced by x *)
Definition upd (p : list R) (j : nat) (x : R) : list R := firstn j p ++ x :: skipn (S j) p.

Fixpoint all_upto (n : nat) (P : nat -> Prop) : Prop :=
  match n with O => True | S k => all_upto k P /\ P k end.

Lemma all_upto_spec n P : all_upto n P <-> forall k, (k < n)%nat -> P k.
Proof.
  induction n as [|n IH]; simpl.
  - split; [intros _ k Hk; inversion Hk | trivial].
  - rewrite IH. split.
    + intros [H1 H2] k Hk. inversion Hk; subst; auto.
    + intros H. split; auto.
Qed.

Definition is_jacobian (nin nout : nat) (F D : list R -> list R) (p : list R) : Prop :=
  all_upto nout (fun i => all_upto nin (fun j =>
    is_derive (fun x => nthR (F (upd p j x)) i) (nthR p j) (nthR (D p) (i * nin + j)))).

(* the same, in the usual words *)
Lemma is_jacobian_spec nin nout F D p :
  is_jacobian nin nout F D p <->
  forall i j, (i < nout)%nat -> (j < nin)%nat ->
    is_derive (fun x => nthR (F (upd p j x)) i) (nthR p j) (nthR (D p) (i * nin + j)).
Proof.
  unfold is_jacobian. rewrite all_upto_spec. split.
  - intros H i j Hi Hj. specialize (H i Hi). rewrite all_upto_spec in H. auto.
  - intros H i Hi. rewrite all_upto_spec. auto.
Qed.

(* C06 -- used only while the finding on computeDeterminantSecondDerivative(tensor) is present in /repo (check.py selects
   this file when the real code fails the finite-difference test; otherwise C06ProofsF.v, the positive theorem, is used).
   On the pinned tree the 2D and 3D results are NOT the Jacobian of computeDeterminantDerivative(tensor): the rows of the
   components (01,10), (02,20), (12,21) are exchanged (the code returns the derivative of the adjugate det(F) F^-1, the
   transpose of dJ/dF).  Witness: entry (row 3 = component 01, column 2 = component 22) at a point with F_01 <> F_10. *)
From Coq Require Import Reals List Lra Lia.
From Coquelicot Require Import Coquelicot.
From VLib Require Import RealExtra.
From C06 Require Import C06Spec C06_gen C06Tactics C06Statements.
Import ListNotations.
Local Open Scope R_scope.

Lemma tensor_det2_ok1 : tensor_det2_stmt1.
Proof. unfold tensor_det2_stmt1. jac ltac:(unfold f_tensor_det21_l, f_tensor_det21, D_tensor_det21_l, D_tensor_det21) ltac:(idtac). Qed.

(* the entry (3,2) claimed by the code is -F_01 = -2, the derivative is -F_10 = -3 *)
Ltac refute_entry H unf :=
  let H32 := fresh "H32" in
  pose proof (proj1 (is_jacobian_spec _ _ _ _ _) H 3%nat 2%nat ltac:(lia) ltac:(lia)) as H32;
  unf H32; cbv [upd nthR List.firstn List.skipn List.app List.nth Nat.mul Nat.add] in H32;
  match type of H32 with
  | is_derive ?f ?x ?l =>
      let G := fresh "G" in
      assert (G : is_derive f x (-3)) by (auto_derive; [ exact I | ring ]);
      assert (l = -3) by (rewrite <- (is_derive_unique f x _ H32); apply is_derive_unique; exact G);
      lra
  end.

Lemma tensor_det2_refuted2 :
  exists p0 p1 p2 p3 p4 : R,
    ~ is_jacobian 5 5 (fun p => f_tensor_det22_l p []) (fun p => D_tensor_det22_l p []) [p0; p1; p2; p3; p4].
Proof.
  exists 1, 1, 1, 2, 3. intro H.
  refute_entry H ltac:(fun h => unfold f_tensor_det22_l, f_tensor_det22, D_tensor_det22_l, D_tensor_det22 in h).
Qed.

Lemma tensor_det2_refuted3 :
  exists p0 p1 p2 p3 p4 p5 p6 p7 p8 : R,
    ~ is_jacobian 9 9 (fun p => f_tensor_det23_l p []) (fun p => D_tensor_det23_l p []) [p0; p1; p2; p3; p4; p5; p6; p7; p8].
Proof.
  exists 1, 1, 1, 2, 3, 1, 1, 1, 1. intro H.
  refute_entry H ltac:(fun h => unfold f_tensor_det23_l, f_tensor_det23, D_tensor_det23_l, D_tensor_det23 in h).
Qed.

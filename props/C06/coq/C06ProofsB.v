(* C06 -- proofs: `jac` (C06Tactics.v) = one auto_derive + field per entry of the Jacobian; nothing depends on the
   shape of the traced terms. *)
From Coq Require Import Reals List.
From Coquelicot Require Import Coquelicot.
From VLib Require Import RealExtra.
From Coq Require Import Lra.
From C06 Require Import C06Spec C06_gen C06Tactics C06Statements.
Import ListNotations.
Local Open Scope R_scope.

Lemma tensor_det_ok1 : tensor_det_stmt1.
Proof. unfold tensor_det_stmt1. jac ltac:(unfold f_tensor_det1_l, f_tensor_det1, D_tensor_det1_l, D_tensor_det1) ltac:(idtac). Qed.
Lemma tensor_det_ok2 : tensor_det_stmt2.
Proof. unfold tensor_det_stmt2. jac ltac:(unfold f_tensor_det2_l, f_tensor_det2, D_tensor_det2_l, D_tensor_det2) ltac:(idtac). Qed.
Lemma tensor_det_ok3 : tensor_det_stmt3.
Proof. unfold tensor_det_stmt3. jac ltac:(unfold f_tensor_det3_l, f_tensor_det3, D_tensor_det3_l, D_tensor_det3) ltac:(idtac). Qed.
Lemma dCdF_ok1 : dCdF_stmt1.
Proof. unfold dCdF_stmt1. jac ltac:(unfold f_dCdF1_l, f_dCdF1, D_dCdF1_l, D_dCdF1) ltac:(idtac). Qed.
Lemma dCdF_ok2 : dCdF_stmt2.
Proof. unfold dCdF_stmt2. jac ltac:(unfold f_dCdF2_l, f_dCdF2, D_dCdF2_l, D_dCdF2) ltac:(idtac). Qed.
Lemma dCdF_ok3 : dCdF_stmt3.
Proof. unfold dCdF_stmt3. jac ltac:(unfold f_dCdF3_l, f_dCdF3, D_dCdF3_l, D_dCdF3) ltac:(idtac). Qed.
Lemma dBdF_ok1 : dBdF_stmt1.
Proof. unfold dBdF_stmt1. jac ltac:(unfold f_dBdF1_l, f_dBdF1, D_dBdF1_l, D_dBdF1) ltac:(idtac). Qed.
Lemma dBdF_ok2 : dBdF_stmt2.
Proof. unfold dBdF_stmt2. jac ltac:(unfold f_dBdF2_l, f_dBdF2, D_dBdF2_l, D_dBdF2) ltac:(idtac). Qed.
Lemma dBdF_ok3 : dBdF_stmt3.
Proof. unfold dBdF_stmt3. jac ltac:(unfold f_dBdF3_l, f_dBdF3, D_dBdF3_l, D_dBdF3) ltac:(idtac). Qed.
Lemma tpld_ok1 : tpld_stmt1.
Proof. unfold tpld_stmt1. jac ltac:(unfold f_tpld1_l, f_tpld1, D_tpld1_l, D_tpld1) ltac:(idtac). Qed.
Lemma tpld_ok2 : tpld_stmt2.
Proof. unfold tpld_stmt2. jac ltac:(unfold f_tpld2_l, f_tpld2, D_tpld2_l, D_tpld2) ltac:(idtac). Qed.
Lemma tpld_ok3 : tpld_stmt3.
Proof. unfold tpld_stmt3. jac ltac:(unfold f_tpld3_l, f_tpld3, D_tpld3_l, D_tpld3) ltac:(idtac). Qed.
Lemma tprd_ok1 : tprd_stmt1.
Proof. unfold tprd_stmt1. jac ltac:(unfold f_tprd1_l, f_tprd1, D_tprd1_l, D_tprd1) ltac:(idtac). Qed.
Lemma tprd_ok2 : tprd_stmt2.
Proof. unfold tprd_stmt2. jac ltac:(unfold f_tprd2_l, f_tprd2, D_tprd2_l, D_tprd2) ltac:(idtac). Qed.
Lemma tprd_ok3 : tprd_stmt3.
Proof. unfold tprd_stmt3. jac ltac:(unfold f_tprd3_l, f_tprd3, D_tprd3_l, D_tprd3) ltac:(idtac). Qed.
Lemma transpose_derivative_ok1 : transpose_derivative_stmt1.
Proof. unfold transpose_derivative_stmt1. jac ltac:(unfold f_transpose_derivative1_l, f_transpose_derivative1, D_transpose_derivative1_l, D_transpose_derivative1) ltac:(idtac). Qed.
Lemma transpose_derivative_ok2 : transpose_derivative_stmt2.
Proof. unfold transpose_derivative_stmt2. jac ltac:(unfold f_transpose_derivative2_l, f_transpose_derivative2, D_transpose_derivative2_l, D_transpose_derivative2) ltac:(idtac). Qed.
Lemma transpose_derivative_ok3 : transpose_derivative_stmt3.
Proof. unfold transpose_derivative_stmt3. jac ltac:(unfold f_transpose_derivative3_l, f_transpose_derivative3, D_transpose_derivative3_l, D_transpose_derivative3) ltac:(idtac). Qed.

(* C06 -- proofs: `jac` (C06Tactics.v) = one auto_derive + field per entry of the Jacobian; nothing depends on the
   shape of the traced terms. *)
From Coq Require Import Reals List.
From Coquelicot Require Import Coquelicot.
From VLib Require Import RealExtra.
From Coq Require Import Lra.
From C06 Require Import C06Spec C06_gen C06Tactics C06Statements.
Import ListNotations.
Local Open Scope R_scope.

Lemma pk1_from_cauchy_ok1 : pk1_from_cauchy_stmt1.
Proof. unfold pk1_from_cauchy_stmt1. jac ltac:(unfold f_pk1_from_cauchy1_l, f_pk1_from_cauchy1, D_pk1_from_cauchy1_l, D_pk1_from_cauchy1) ltac:(idtac). Qed.
Lemma pk1_from_cauchy_ok2 : pk1_from_cauchy_stmt2.
Proof. unfold pk1_from_cauchy_stmt2. jac ltac:(unfold f_pk1_from_cauchy2_l, f_pk1_from_cauchy2, D_pk1_from_cauchy2_l, D_pk1_from_cauchy2) ltac:(idtac). Qed.
Lemma pk1_from_cauchy_ok3 : pk1_from_cauchy_stmt3.
Proof. unfold pk1_from_cauchy_stmt3. jac ltac:(unfold f_pk1_from_cauchy3_l, f_pk1_from_cauchy3, D_pk1_from_cauchy3_l, D_pk1_from_cauchy3) ltac:(idtac). Qed.

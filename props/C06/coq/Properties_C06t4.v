(* C06 -- property theorems (statements: C06Statements.v / C06Spec.v; proofs: C06ProofsT4.v) *)
From Coq Require Import Reals List.
From Coquelicot Require Import Coquelicot.
From VLib Require Import RealExtra.
From C06 Require Import C06Spec C06_gen C06Statements C06ProofsT4.
Import ListNotations.
Local Open Scope R_scope.


(* computeKirchhoffStressDerivativeFromCauchyStressDerivative(ds, s(F), F) is the Jacobian of F |-> det(F) s(F), s(F) = s0 + X.F -- 3D *)
Theorem C06_kirchhoff_from_cauchy_3D : kirchhoff_from_cauchy_stmt3.
Proof. exact kirchhoff_from_cauchy_ok3. Qed.
Print Assumptions C06_kirchhoff_from_cauchy_3D.

(* C06 -- property theorems (statements: C06Statements.v / C06Spec.v; proofs: C06ProofsH.v) *)
From Coq Require Import Reals List.
From Coquelicot Require Import Coquelicot.
From VLib Require Import RealExtra.
From C06 Require Import C06Spec C06_gen C06Statements C06ProofsH.
Import ListNotations.
Local Open Scope R_scope.


(* st2tost2::dsquare(s(x), C) is the Jacobian of x |-> square(s(x)), s(x) = s0 + C.x -- 1D and 2D (3D: Properties_C06t3.v, thorough tier) *)
Theorem C06_dsquare_chain_1D_2D : dsquare_chain_stmt1 /\ dsquare_chain_stmt2.
Proof. exact (conj dsquare_chain_ok1 dsquare_chain_ok2). Qed.
Print Assumptions C06_dsquare_chain_1D_2D.

(* t2tot2::tpld(W, C) is the Jacobian of x |-> V(x)*W, V(x) = V0 + C.x -- 1D and 2D (3D: Properties_C06t3.v, thorough tier) *)
Theorem C06_tpld_chain_1D_2D : tpld_chain_stmt1 /\ tpld_chain_stmt2.
Proof. exact (conj tpld_chain_ok1 tpld_chain_ok2). Qed.
Print Assumptions C06_tpld_chain_1D_2D.

(* t2tot2::tprd(W, C) is the Jacobian of x |-> W*V(x), V(x) = V0 + C.x -- 1D and 2D (3D: Properties_C06t2.v, thorough tier) *)
Theorem C06_tprd_chain_1D_2D : tprd_chain_stmt1 /\ tprd_chain_stmt2.
Proof. exact (conj tprd_chain_ok1 tprd_chain_ok2). Qed.
Print Assumptions C06_tprd_chain_1D_2D.

(* st2tot2::tprd(w, C) is the Jacobian of x |-> w*v(x), v(x) = v0 + C.x (symmetric tensors) *)
Theorem C06_st2tot2_tprd_chain : st2tot2_tprd_chain_stmt1 /\ st2tot2_tprd_chain_stmt2 /\ st2tot2_tprd_chain_stmt3.
Proof. exact (conj st2tot2_tprd_chain_ok1 (conj st2tot2_tprd_chain_ok2 st2tot2_tprd_chain_ok3)). Qed.
Print Assumptions C06_st2tot2_tprd_chain.

(* C06 -- property theorems (statements: C06Statements.v / C06Spec.v; proofs: C06ProofsT7.v) *)
From Coq Require Import Reals List.
From Coquelicot Require Import Coquelicot.
From VLib Require Import RealExtra.
From C06 Require Import C06Spec C06_gen C06Statements C06ProofsT7.
Import ListNotations.
Local Open Scope R_scope.


(* convertFirstPiolaKirchoffStressDerivativeToKirchhoffStressDerivative(dP, F0, s0) is the Jacobian at F0 of F |-> det(F) convertFirstPiolaKirchhoffStressToCauchyStress(P(F), F), P(F) = P(s0, F0) + X.(F - F0) (det F0 <> 0) -- 3D *)
Theorem C06_tau_from_pk1_3D : tau_from_pk1_stmt3.
Proof. exact tau_from_pk1_ok3. Qed.
Print Assumptions C06_tau_from_pk1_3D.

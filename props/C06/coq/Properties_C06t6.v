(* C06 -- property theorems (statements: C06Statements.v / C06Spec.v; proofs: C06ProofsT6.v) *)
From Coq Require Import Reals List.
From Coquelicot Require Import Coquelicot.
From VLib Require Import RealExtra.
From C06 Require Import C06Spec C06_gen C06Statements C06ProofsT6.
Import ListNotations.
Local Open Scope R_scope.


(* convertSecondPiolaKirchhoffStressDerivativeToFirstPiolaKirchoffStressDerivative(dS/dE, F0, s0) is the Jacobian at F0 of F |-> F.S(F), S(F) = S(s0, F0) + X.(E_GL(F) - E_GL(F0)), S(s0, F0) = convertCauchyStressToSecondPiolaKirchhoffStress(s0, F0) (det F0 <> 0) -- 3D *)
Theorem C06_pk1_from_pk2_3D : pk1_from_pk2_stmt3.
Proof. exact pk1_from_pk2_ok3. Qed.
Print Assumptions C06_pk1_from_pk2_3D.

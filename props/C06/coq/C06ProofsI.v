(* C06 -- proofs: `jac` (C06Tactics.v) = one auto_derive + field per entry of the Jacobian; nothing depends on the
   shape of the traced terms. *)
From Coq Require Import Reals List.
From Coquelicot Require Import Coquelicot.
From VLib Require Import RealExtra.
From Coq Require Import Lra.
From C06 Require Import C06Spec C06_gen C06Tactics C06Statements.
Import ListNotations.
Local Open Scope R_scope.

Lemma push_forward_dS_ok1 : push_forward_dS_stmt1.
Proof. unfold push_forward_dS_stmt1. jac_t 600 ltac:(lazy beta iota zeta delta [upd nthR List.firstn List.skipn List.app List.nth Nat.mul Nat.add f_push_forward_dS1_l f_push_forward_dS1 D_push_forward_dS1_l D_push_forward_dS1]) ltac:(idtac). Qed.
Lemma push_forward_dS_ok2 : push_forward_dS_stmt2.
Proof. unfold push_forward_dS_stmt2. jac_t 600 ltac:(lazy beta iota zeta delta [upd nthR List.firstn List.skipn List.app List.nth Nat.mul Nat.add f_push_forward_dS2_l f_push_forward_dS2 D_push_forward_dS2_l D_push_forward_dS2]) ltac:(idtac). Qed.
Lemma push_forward_dS_ok3 : push_forward_dS_stmt3.
Proof. unfold push_forward_dS_stmt3. jac_t 3000 ltac:(lazy beta iota zeta delta [upd nthR List.firstn List.skipn List.app List.nth Nat.mul Nat.add f_push_forward_dS3_l f_push_forward_dS3 D_push_forward_dS3_l D_push_forward_dS3]) ltac:(idtac). Qed.
Lemma push_forward_dF_ok1 : push_forward_dF_stmt1.
Proof. unfold push_forward_dF_stmt1. jac_t 600 ltac:(lazy beta iota zeta delta [upd nthR List.firstn List.skipn List.app List.nth Nat.mul Nat.add f_push_forward_dF1_l f_push_forward_dF1 D_push_forward_dF1_l D_push_forward_dF1]) ltac:(idtac). Qed.
Lemma push_forward_dF_ok2 : push_forward_dF_stmt2.
Proof. unfold push_forward_dF_stmt2. jac_t 600 ltac:(lazy beta iota zeta delta [upd nthR List.firstn List.skipn List.app List.nth Nat.mul Nat.add f_push_forward_dF2_l f_push_forward_dF2 D_push_forward_dF2_l D_push_forward_dF2]) ltac:(idtac). Qed.
Lemma push_forward_dF_ok3 : push_forward_dF_stmt3.
Proof. unfold push_forward_dF_stmt3. jac_t 3000 ltac:(lazy beta iota zeta delta [upd nthR List.firstn List.skipn List.app List.nth Nat.mul Nat.add f_push_forward_dF3_l f_push_forward_dF3 D_push_forward_dF3_l D_push_forward_dF3]) ltac:(idtac). Qed.
Lemma push_forward_chain_ok1 : push_forward_chain_stmt1.
Proof. unfold push_forward_chain_stmt1. jac_t 600 ltac:(lazy beta iota zeta delta [upd nthR List.firstn List.skipn List.app List.nth Nat.mul Nat.add f_push_forward_chain1_l f_push_forward_chain1 D_push_forward_chain1_l D_push_forward_chain1]) ltac:(idtac). Qed.
Lemma push_forward_chain_ok2 : push_forward_chain_stmt2.
Proof. unfold push_forward_chain_stmt2. jac_t 600 ltac:(lazy beta iota zeta delta [upd nthR List.firstn List.skipn List.app List.nth Nat.mul Nat.add f_push_forward_chain2_l f_push_forward_chain2 D_push_forward_chain2_l D_push_forward_chain2]) ltac:(idtac). Qed.
Lemma kirchhoff_from_cauchy_ok1 : kirchhoff_from_cauchy_stmt1.
Proof. unfold kirchhoff_from_cauchy_stmt1. jac_t 600 ltac:(lazy beta iota zeta delta [upd nthR List.firstn List.skipn List.app List.nth Nat.mul Nat.add f_kirchhoff_from_cauchy1_l f_kirchhoff_from_cauchy1 D_kirchhoff_from_cauchy1_l D_kirchhoff_from_cauchy1]) ltac:(idtac). Qed.
Lemma kirchhoff_from_cauchy_ok2 : kirchhoff_from_cauchy_stmt2.
Proof. unfold kirchhoff_from_cauchy_stmt2. jac_t 600 ltac:(lazy beta iota zeta delta [upd nthR List.firstn List.skipn List.app List.nth Nat.mul Nat.add f_kirchhoff_from_cauchy2_l f_kirchhoff_from_cauchy2 D_kirchhoff_from_cauchy2_l D_kirchhoff_from_cauchy2]) ltac:(idtac). Qed.
Lemma cauchy_from_kirchhoff_ok1 : cauchy_from_kirchhoff_stmt1.
Proof. unfold cauchy_from_kirchhoff_stmt1. jac_t 600 ltac:(lazy beta iota zeta delta [upd nthR List.firstn List.skipn List.app List.nth Nat.mul Nat.add f_cauchy_from_kirchhoff1_l f_cauchy_from_kirchhoff1 D_cauchy_from_kirchhoff1_l D_cauchy_from_kirchhoff1]) ltac:(unfold f_tensor_det1). Qed.
Lemma cauchy_from_kirchhoff_ok2 : cauchy_from_kirchhoff_stmt2.
Proof. unfold cauchy_from_kirchhoff_stmt2. jac_t 600 ltac:(lazy beta iota zeta delta [upd nthR List.firstn List.skipn List.app List.nth Nat.mul Nat.add f_cauchy_from_kirchhoff2_l f_cauchy_from_kirchhoff2 D_cauchy_from_kirchhoff2_l D_cauchy_from_kirchhoff2]) ltac:(unfold f_tensor_det2). Qed.

(* C06 -- proofs: `jac` (C06Tactics.v) = one auto_derive + field per entry of the Jacobian; nothing depends on the
   shape of the traced terms. *)
From Coq Require Import Reals List.
From Coquelicot Require Import Coquelicot.
From VLib Require Import RealExtra.
From Coq Require Import Lra.
From C06 Require Import C06Spec C06_gen C06Tactics C06Statements.
Import ListNotations.
Local Open Scope R_scope.

Lemma rate_of_deformation_ok1 : rate_of_deformation_stmt1.
Proof. unfold rate_of_deformation_stmt1. jac ltac:(unfold f_rate_of_deformation1_l, f_rate_of_deformation1, D_rate_of_deformation1_l, D_rate_of_deformation1) ltac:(unfold f_tensor_det1). Qed.
Lemma rate_of_deformation_ok2 : rate_of_deformation_stmt2.
Proof. unfold rate_of_deformation_stmt2. jac ltac:(unfold f_rate_of_deformation2_l, f_rate_of_deformation2, D_rate_of_deformation2_l, D_rate_of_deformation2) ltac:(unfold f_tensor_det2). Qed.
Lemma rate_of_deformation_ok3 : rate_of_deformation_stmt3.
Proof. unfold rate_of_deformation_stmt3. jac ltac:(unfold f_rate_of_deformation3_l, f_rate_of_deformation3, D_rate_of_deformation3_l, D_rate_of_deformation3) ltac:(unfold f_tensor_det3). Qed.

(* C06 -- property theorems (statements: C06Statements.v / C06Spec.v; proofs: C06ProofsD.v) *)
From Coq Require Import Reals List.
From Coquelicot Require Import Coquelicot.
From VLib Require Import RealExtra.
From C06 Require Import C06Spec C06_gen C06Statements C06ProofsD.
Import ListNotations.
Local Open Scope R_scope.


(* computeRateOfDeformationDerivative(F) is the Jacobian of dF |-> sym(dF.F^-1) (det F <> 0) *)
Theorem C06_rate_of_deformation : rate_of_deformation_stmt1 /\ rate_of_deformation_stmt2 /\ rate_of_deformation_stmt3.
Proof. exact (conj rate_of_deformation_ok1 (conj rate_of_deformation_ok2 rate_of_deformation_ok3)). Qed.
Print Assumptions C06_rate_of_deformation.

(* C06 -- property theorems (statements: C06Statements.v / C06Spec.v; proofs: C06ProofsC.v) *)
From Coq Require Import Reals List.
From Coquelicot Require Import Coquelicot.
From VLib Require Import RealExtra.
From C06 Require Import C06Spec C06_gen C06Statements C06ProofsC.
Import ListNotations.
Local Open Scope R_scope.


(* computeVelocityGradientDerivative(F) is the Jacobian of dF |-> dF.F^-1 (det F <> 0) *)
Theorem C06_velocity_gradient : velocity_gradient_stmt1 /\ velocity_gradient_stmt2 /\ velocity_gradient_stmt3.
Proof. exact (conj velocity_gradient_ok1 (conj velocity_gradient_ok2 velocity_gradient_ok3)). Qed.
Print Assumptions C06_velocity_gradient.

(* C06 -- property theorems (statements: C06Statements.v / C06Spec.v; proofs: C06Proofs.v) *)
From Coq Require Import Reals List.
From Coquelicot Require Import Coquelicot.
From VLib Require Import RealExtra.
From C06 Require Import C06Spec C06_gen C06Statements C06Proofs.
Import ListNotations.
Local Open Scope R_scope.


(* computeDeterminantDerivative(stensor) is the gradient of det *)
Theorem C06_stensor_det : stensor_det_stmt1 /\ stensor_det_stmt2 /\ stensor_det_stmt3.
Proof. exact (conj stensor_det_ok1 (conj stensor_det_ok2 stensor_det_ok3)). Qed.
Print Assumptions C06_stensor_det.

(* computeDeterminantSecondDerivative(stensor) is the Jacobian of computeDeterminantDerivative *)
Theorem C06_stensor_det2 : stensor_det2_stmt1 /\ stensor_det2_stmt2 /\ stensor_det2_stmt3.
Proof. exact (conj stensor_det2_ok1 (conj stensor_det2_ok2 stensor_det2_ok3)). Qed.
Print Assumptions C06_stensor_det2.

(* computeDeviatorDeterminantDerivative is the gradient of det(deviator(s)) *)
Theorem C06_stensor_devdet : stensor_devdet_stmt1 /\ stensor_devdet_stmt2 /\ stensor_devdet_stmt3.
Proof. exact (conj stensor_devdet_ok1 (conj stensor_devdet_ok2 stensor_devdet_ok3)). Qed.
Print Assumptions C06_stensor_devdet.

(* computeDeviatorDeterminantSecondDerivative is the Jacobian of computeDeviatorDeterminantDerivative *)
Theorem C06_stensor_devdet2 : stensor_devdet2_stmt1 /\ stensor_devdet2_stmt2 /\ stensor_devdet2_stmt3.
Proof. exact (conj stensor_devdet2_ok1 (conj stensor_devdet2_ok2 stensor_devdet2_ok3)). Qed.
Print Assumptions C06_stensor_devdet2.

(* tfel::material::computeJ3Derivative is the gradient of J3 = det(deviator(s)) *)
Theorem C06_J3 : J3_stmt1 /\ J3_stmt2 /\ J3_stmt3.
Proof. exact (conj J3_ok1 (conj J3_ok2 J3_ok3)). Qed.
Print Assumptions C06_J3.

(* tfel::material::computeJ3SecondDerivative is the Jacobian of computeJ3Derivative *)
Theorem C06_J3_2 : J3_2_stmt1 /\ J3_2_stmt2 /\ J3_2_stmt3.
Proof. exact (conj J3_2_ok1 (conj J3_2_ok2 J3_2_ok3)). Qed.
Print Assumptions C06_J3_2.

(* st2tost2::dsquare(s) is the Jacobian of square(s) *)
Theorem C06_dsquare : dsquare_stmt1 /\ dsquare_stmt2 /\ dsquare_stmt3.
Proof. exact (conj dsquare_ok1 (conj dsquare_ok2 dsquare_ok3)). Qed.
Print Assumptions C06_dsquare.

(* st2tost2::stpd(q) is the Jacobian of p |-> p.q + q.p *)
Theorem C06_stpd : stpd_stmt1 /\ stpd_stmt2 /\ stpd_stmt3.
Proof. exact (conj stpd_ok1 (conj stpd_ok2 stpd_ok3)). Qed.
Print Assumptions C06_stpd.

(* symmetric_product_derivative_daba_da(a,b) is the Jacobian of a |-> a.b.a *)
Theorem C06_daba_da : daba_da_stmt1 /\ daba_da_stmt2 /\ daba_da_stmt3.
Proof. exact (conj daba_da_ok1 (conj daba_da_ok2 daba_da_ok3)). Qed.
Print Assumptions C06_daba_da.

(* symmetric_product_derivative_daba_db(a) is the Jacobian of b |-> a.b.a *)
Theorem C06_daba_db : daba_db_stmt1 /\ daba_db_stmt2 /\ daba_db_stmt3.
Proof. exact (conj daba_db_ok1 (conj daba_db_ok2 daba_db_ok3)). Qed.
Print Assumptions C06_daba_db.

(* st2tot2::tpld(q) is the Jacobian of p |-> p*q (symmetric p, q; unsymmetric product) *)
Theorem C06_st2tot2_tpld : st2tot2_tpld_stmt1 /\ st2tot2_tpld_stmt2 /\ st2tot2_tpld_stmt3.
Proof. exact (conj st2tot2_tpld_ok1 (conj st2tot2_tpld_ok2 st2tot2_tpld_ok3)). Qed.
Print Assumptions C06_st2tot2_tpld.

(* st2tot2::tprd(q) is the Jacobian of p |-> q*p *)
Theorem C06_st2tot2_tprd : st2tot2_tprd_stmt1 /\ st2tot2_tprd_stmt2 /\ st2tot2_tprd_stmt3.
Proof. exact (conj st2tot2_tprd_ok1 (conj st2tot2_tprd_ok2 st2tot2_tprd_ok3)). Qed.
Print Assumptions C06_st2tot2_tprd.

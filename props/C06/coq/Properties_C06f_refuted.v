(* C06 -- property theorems about computeDeterminantSecondDerivative(tensor) on a tree where the finding is present:
   the positive statement holds in 1D; in 2D and 3D it is refuted by a witness. *)
From Coq Require Import Reals List.
From Coquelicot Require Import Coquelicot.
From VLib Require Import RealExtra.
From C06 Require Import C06Spec C06_gen C06Statements C06RefutedF.
Import ListNotations.
Local Open Scope R_scope.

Theorem C06_tensor_det2_1D : tensor_det2_stmt1.
Proof. exact tensor_det2_ok1. Qed.
Print Assumptions C06_tensor_det2_1D.

(* computeDeterminantSecondDerivative(tensor) is not the Jacobian of computeDeterminantDerivative(tensor) in 2D, 3D *)
Theorem C06_tensor_det2_refuted :
  (exists p0 p1 p2 p3 p4 : R,
     ~ is_jacobian 5 5 (fun p => f_tensor_det22_l p []) (fun p => D_tensor_det22_l p []) [p0; p1; p2; p3; p4]) /\
  (exists p0 p1 p2 p3 p4 p5 p6 p7 p8 : R,
     ~ is_jacobian 9 9 (fun p => f_tensor_det23_l p []) (fun p => D_tensor_det23_l p []) [p0; p1; p2; p3; p4; p5; p6; p7; p8]).
Proof. exact (conj tensor_det2_refuted2 tensor_det2_refuted3). Qed.
Print Assumptions C06_tensor_det2_refuted.

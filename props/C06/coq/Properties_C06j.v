(* C06 -- property theorems (statements: C06Statements.v / C06Spec.v; proofs: C06ProofsJ.v) *)
From Coq Require Import Reals List.
From Coquelicot Require Import Coquelicot.
From VLib Require Import RealExtra.
From C06 Require Import C06Spec C06_gen C06Statements C06ProofsJ.
Import ListNotations.
Local Open Scope R_scope.


(* computeKirchhoffStressDerivativeFromCauchyStressDerivative(ds, s(F), F) is the Jacobian of F |-> det(F) s(F), s(F) = s0 + X.F *)
Theorem C06_kirchhoff_from_cauchy : kirchhoff_from_cauchy_stmt1 /\ kirchhoff_from_cauchy_stmt2 /\ kirchhoff_from_cauchy_stmt3.
Proof. exact (conj kirchhoff_from_cauchy_ok1 (conj kirchhoff_from_cauchy_ok2 kirchhoff_from_cauchy_ok3)). Qed.
Print Assumptions C06_kirchhoff_from_cauchy.

(* computeCauchyStressDerivativeFromKirchhoffStressDerivative(dtau, tau(F)/det F, F) is the Jacobian of F |-> tau(F)/det(F), tau(F) = t0 + X.F (det F <> 0) *)
Theorem C06_cauchy_from_kirchhoff : cauchy_from_kirchhoff_stmt1 /\ cauchy_from_kirchhoff_stmt2 /\ cauchy_from_kirchhoff_stmt3.
Proof. exact (conj cauchy_from_kirchhoff_ok1 (conj cauchy_from_kirchhoff_ok2 cauchy_from_kirchhoff_ok3)). Qed.
Print Assumptions C06_cauchy_from_kirchhoff.

(* C06 -- property theorems (statements: C06Statements.v / C06Spec.v; proofs: C06ProofsJ.v) *)
From Coq Require Import Reals List.
From Coquelicot Require Import Coquelicot.
From VLib Require Import RealExtra.
From C06 Require Import C06Spec C06_gen C06Statements C06ProofsJ.
Import ListNotations.
Local Open Scope R_scope.


(* convertCauchyStressDerivativeToFirstPiolaKirchoffStressDerivative(ds, F, s(F)) is the Jacobian of F |-> convertCauchyStressToFirstPiolaKirchhoffStress(s(F), F), s(F) = s0 + X.F -- 1D and 2D (3D: Properties_C06t1.v, thorough tier) *)
Theorem C06_pk1_from_cauchy_1D_2D : pk1_from_cauchy_stmt1 /\ pk1_from_cauchy_stmt2.
Proof. exact (conj pk1_from_cauchy_ok1 pk1_from_cauchy_ok2). Qed.
Print Assumptions C06_pk1_from_cauchy_1D_2D.

(* convertSecondPiolaKirchhoffStressDerivativeToFirstPiolaKirchoffStressDerivative(dS/dE, F0, s0) is the Jacobian at F0 of F |-> F.S(F), S(F) = S(s0, F0) + X.(E_GL(F) - E_GL(F0)), S(s0, F0) = convertCauchyStressToSecondPiolaKirchhoffStress(s0, F0) (det F0 <> 0) -- 1D and 2D (3D: Properties_C06t6.v, thorough tier) *)
Theorem C06_pk1_from_pk2_1D_2D : pk1_from_pk2_stmt1 /\ pk1_from_pk2_stmt2.
Proof. exact (conj pk1_from_pk2_ok1 pk1_from_pk2_ok2). Qed.
Print Assumptions C06_pk1_from_pk2_1D_2D.

(* convertFirstPiolaKirchoffStressDerivativeToKirchhoffStressDerivative(dP, F0, s0) is the Jacobian at F0 of F |-> det(F) convertFirstPiolaKirchhoffStressToCauchyStress(P(F), F), P(F) = P(s0, F0) + X.(F - F0) (det F0 <> 0) -- 1D and 2D (3D: Properties_C06t7.v, thorough tier) *)
Theorem C06_tau_from_pk1_1D_2D : tau_from_pk1_stmt1 /\ tau_from_pk1_stmt2.
Proof. exact (conj tau_from_pk1_ok1 tau_from_pk1_ok2). Qed.
Print Assumptions C06_tau_from_pk1_1D_2D.

(* C06 -- property theorems (statements: C06Statements.v / C06Spec.v; proofs: C06ProofsG.v) *)
From Coq Require Import Reals List.
From Coquelicot Require Import Coquelicot.
From VLib Require Import RealExtra.
From C06 Require Import C06Spec C06_gen C06Statements C06ProofsG.
Import ListNotations.
Local Open Scope R_scope.


(* st2tot2::tpld(w, C) is the Jacobian of x |-> v(x)*w, v(x) = v0 + C.x (symmetric tensors) *)
Theorem C06_st2tot2_tpld_chain : st2tot2_tpld_chain_stmt1 /\ st2tot2_tpld_chain_stmt2 /\ st2tot2_tpld_chain_stmt3.
Proof. exact (conj st2tot2_tpld_chain_ok1 (conj st2tot2_tpld_chain_ok2 st2tot2_tpld_chain_ok3)). Qed.
Print Assumptions C06_st2tot2_tpld_chain.

(* C06 -- property theorems (statements: C06Statements.v / C06Spec.v; proofs: C06ProofsE.v) *)
From Coq Require Import Reals List.
From Coquelicot Require Import Coquelicot.
From VLib Require Import RealExtra.
From C06 Require Import C06Spec C06_gen C06Statements C06ProofsE.
Import ListNotations.
Local Open Scope R_scope.


(* computeSpinRateDerivative(F) is the Jacobian of dF |-> skew(dF.F^-1) (det F <> 0) *)
Theorem C06_spin_rate : spin_rate_stmt1 /\ spin_rate_stmt2 /\ spin_rate_stmt3.
Proof. exact (conj spin_rate_ok1 (conj spin_rate_ok2 spin_rate_ok3)). Qed.
Print Assumptions C06_spin_rate.

(* C06 -- proofs: `jac` (C06Tactics.v) = one auto_derive + field per entry of the Jacobian; nothing depends on the
   shape of the traced terms. *)
From Coq Require Import Reals List.
From Coquelicot Require Import Coquelicot.
From VLib Require Import RealExtra.
From Coq Require Import Lra.
From C06 Require Import C06Spec C06_gen C06Tactics C06Statements.
Import ListNotations.
Local Open Scope R_scope.

Lemma pk1_from_pk2_ok1 : pk1_from_pk2_stmt1.
Proof. unfold pk1_from_pk2_stmt1. jac ltac:(unfold f_pk1_from_pk21_l, f_pk1_from_pk21, D_pk1_from_pk21_l, D_pk1_from_pk21) ltac:(unfold f_tensor_det1). Qed.
Lemma pk1_from_pk2_ok2 : pk1_from_pk2_stmt2.
Proof. unfold pk1_from_pk2_stmt2. jac ltac:(unfold f_pk1_from_pk22_l, f_pk1_from_pk22, D_pk1_from_pk22_l, D_pk1_from_pk22) ltac:(unfold f_tensor_det2). Qed.
Lemma pk1_from_pk2_ok3 : pk1_from_pk2_stmt3.
Proof. unfold pk1_from_pk2_stmt3. jac ltac:(unfold f_pk1_from_pk23_l, f_pk1_from_pk23, D_pk1_from_pk23_l, D_pk1_from_pk23) ltac:(unfold f_tensor_det3). Qed.

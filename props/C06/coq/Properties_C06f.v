(* C06 -- property theorems (statements: C06Statements.v / C06Spec.v; proofs: C06ProofsF.v) *)
From Coq Require Import Reals List.
From Coquelicot Require Import Coquelicot.
From VLib Require Import RealExtra.
From C06 Require Import C06Spec C06_gen C06Statements C06ProofsF.
Import ListNotations.
Local Open Scope R_scope.


(* computeDeterminantSecondDerivative(tensor) is the Jacobian of computeDeterminantDerivative(tensor) *)
Theorem C06_tensor_det2 : tensor_det2_stmt1 /\ tensor_det2_stmt2 /\ tensor_det2_stmt3.
Proof. exact (conj tensor_det2_ok1 (conj tensor_det2_ok2 tensor_det2_ok3)). Qed.
Print Assumptions C06_tensor_det2.

(* C06 -- the statements (written by mkcoq.py, committed): for every helper and space dimension N,
   D_<helper>N is the Jacobian of f_<helper>N at every point; f_ and D_ are regenerated from /repo (C06_gen.v). *)
From Coq Require Import Reals List.
From Coquelicot Require Import Coquelicot.
From VLib Require Import RealExtra.
From C06 Require Import C06Spec C06_gen.
Import ListNotations.
Local Open Scope R_scope.


(* computeDeterminantDerivative(stensor) is the gradient of det *)
Definition stensor_det_stmt1 : Prop :=
  forall p0 p1 p2 : R,
    is_jacobian 3 1 (fun p => f_stensor_det1_l p []) (fun p => D_stensor_det1_l p []) [p0; p1; p2].
Definition stensor_det_stmt2 : Prop :=
  forall p0 p1 p2 p3 : R,
    is_jacobian 4 1 (fun p => f_stensor_det2_l p []) (fun p => D_stensor_det2_l p []) [p0; p1; p2; p3].
Definition stensor_det_stmt3 : Prop :=
  forall p0 p1 p2 p3 p4 p5 : R,
    is_jacobian 6 1 (fun p => f_stensor_det3_l p []) (fun p => D_stensor_det3_l p []) [p0; p1; p2; p3; p4; p5].

(* computeDeterminantSecondDerivative(stensor) is the Jacobian of computeDeterminantDerivative *)
Definition stensor_det2_stmt1 : Prop :=
  forall p0 p1 p2 : R,
    is_jacobian 3 3 (fun p => f_stensor_det21_l p []) (fun p => D_stensor_det21_l p []) [p0; p1; p2].
Definition stensor_det2_stmt2 : Prop :=
  forall p0 p1 p2 p3 : R,
    is_jacobian 4 4 (fun p => f_stensor_det22_l p []) (fun p => D_stensor_det22_l p []) [p0; p1; p2; p3].
Definition stensor_det2_stmt3 : Prop :=
  forall p0 p1 p2 p3 p4 p5 : R,
    is_jacobian 6 6 (fun p => f_stensor_det23_l p []) (fun p => D_stensor_det23_l p []) [p0; p1; p2; p3; p4; p5].

(* computeDeviatorDeterminantDerivative is the gradient of det(deviator(s)) *)
Definition stensor_devdet_stmt1 : Prop :=
  forall p0 p1 p2 : R,
    is_jacobian 3 1 (fun p => f_stensor_devdet1_l p []) (fun p => D_stensor_devdet1_l p []) [p0; p1; p2].
Definition stensor_devdet_stmt2 : Prop :=
  forall p0 p1 p2 p3 : R,
    is_jacobian 4 1 (fun p => f_stensor_devdet2_l p []) (fun p => D_stensor_devdet2_l p []) [p0; p1; p2; p3].
Definition stensor_devdet_stmt3 : Prop :=
  forall p0 p1 p2 p3 p4 p5 : R,
    is_jacobian 6 1 (fun p => f_stensor_devdet3_l p []) (fun p => D_stensor_devdet3_l p []) [p0; p1; p2; p3; p4; p5].

(* computeDeviatorDeterminantSecondDerivative is the Jacobian of computeDeviatorDeterminantDerivative *)
Definition stensor_devdet2_stmt1 : Prop :=
  forall p0 p1 p2 : R,
    is_jacobian 3 3 (fun p => f_stensor_devdet21_l p []) (fun p => D_stensor_devdet21_l p []) [p0; p1; p2].
Definition stensor_devdet2_stmt2 : Prop :=
  forall p0 p1 p2 p3 : R,
    is_jacobian 4 4 (fun p => f_stensor_devdet22_l p []) (fun p => D_stensor_devdet22_l p []) [p0; p1; p2; p3].
Definition stensor_devdet2_stmt3 : Prop :=
  forall p0 p1 p2 p3 p4 p5 : R,
    is_jacobian 6 6 (fun p => f_stensor_devdet23_l p []) (fun p => D_stensor_devdet23_l p []) [p0; p1; p2; p3; p4; p5].

(* tfel::material::computeJ3Derivative is the gradient of J3 = det(deviator(s)) *)
Definition J3_stmt1 : Prop :=
  forall p0 p1 p2 : R,
    is_jacobian 3 1 (fun p => f_J31_l p []) (fun p => D_J31_l p []) [p0; p1; p2].
Definition J3_stmt2 : Prop :=
  forall p0 p1 p2 p3 : R,
    is_jacobian 4 1 (fun p => f_J32_l p []) (fun p => D_J32_l p []) [p0; p1; p2; p3].
Definition J3_stmt3 : Prop :=
  forall p0 p1 p2 p3 p4 p5 : R,
    is_jacobian 6 1 (fun p => f_J33_l p []) (fun p => D_J33_l p []) [p0; p1; p2; p3; p4; p5].

(* tfel::material::computeJ3SecondDerivative is the Jacobian of computeJ3Derivative *)
Definition J3_2_stmt1 : Prop :=
  forall p0 p1 p2 : R,
    is_jacobian 3 3 (fun p => f_J3_21_l p []) (fun p => D_J3_21_l p []) [p0; p1; p2].
Definition J3_2_stmt2 : Prop :=
  forall p0 p1 p2 p3 : R,
    is_jacobian 4 4 (fun p => f_J3_22_l p []) (fun p => D_J3_22_l p []) [p0; p1; p2; p3].
Definition J3_2_stmt3 : Prop :=
  forall p0 p1 p2 p3 p4 p5 : R,
    is_jacobian 6 6 (fun p => f_J3_23_l p []) (fun p => D_J3_23_l p []) [p0; p1; p2; p3; p4; p5].

(* st2tost2::dsquare(s) is the Jacobian of square(s) *)
Definition dsquare_stmt1 : Prop :=
  forall p0 p1 p2 : R,
    is_jacobian 3 3 (fun p => f_dsquare1_l p []) (fun p => D_dsquare1_l p []) [p0; p1; p2].
Definition dsquare_stmt2 : Prop :=
  forall p0 p1 p2 p3 : R,
    is_jacobian 4 4 (fun p => f_dsquare2_l p []) (fun p => D_dsquare2_l p []) [p0; p1; p2; p3].
Definition dsquare_stmt3 : Prop :=
  forall p0 p1 p2 p3 p4 p5 : R,
    is_jacobian 6 6 (fun p => f_dsquare3_l p []) (fun p => D_dsquare3_l p []) [p0; p1; p2; p3; p4; p5].

(* st2tost2::stpd(q) is the Jacobian of p |-> p.q + q.p *)
Definition stpd_stmt1 : Prop :=
  forall p0 p1 p2 q0 q1 q2 : R,
    is_jacobian 3 3 (fun p => f_stpd1_l p [q0; q1; q2]) (fun p => D_stpd1_l p [q0; q1; q2]) [p0; p1; p2].
Definition stpd_stmt2 : Prop :=
  forall p0 p1 p2 p3 q0 q1 q2 q3 : R,
    is_jacobian 4 4 (fun p => f_stpd2_l p [q0; q1; q2; q3]) (fun p => D_stpd2_l p [q0; q1; q2; q3]) [p0; p1; p2; p3].
Definition stpd_stmt3 : Prop :=
  forall p0 p1 p2 p3 p4 p5 q0 q1 q2 q3 q4 q5 : R,
    is_jacobian 6 6 (fun p => f_stpd3_l p [q0; q1; q2; q3; q4; q5]) (fun p => D_stpd3_l p [q0; q1; q2; q3; q4; q5]) [p0; p1; p2; p3; p4; p5].

(* symmetric_product_derivative_daba_da(a,b) is the Jacobian of a |-> a.b.a *)
Definition daba_da_stmt1 : Prop :=
  forall p0 p1 p2 q0 q1 q2 : R,
    is_jacobian 3 3 (fun p => f_daba_da1_l p [q0; q1; q2]) (fun p => D_daba_da1_l p [q0; q1; q2]) [p0; p1; p2].
Definition daba_da_stmt2 : Prop :=
  forall p0 p1 p2 p3 q0 q1 q2 q3 : R,
    is_jacobian 4 4 (fun p => f_daba_da2_l p [q0; q1; q2; q3]) (fun p => D_daba_da2_l p [q0; q1; q2; q3]) [p0; p1; p2; p3].
Definition daba_da_stmt3 : Prop :=
  forall p0 p1 p2 p3 p4 p5 q0 q1 q2 q3 q4 q5 : R,
    is_jacobian 6 6 (fun p => f_daba_da3_l p [q0; q1; q2; q3; q4; q5]) (fun p => D_daba_da3_l p [q0; q1; q2; q3; q4; q5]) [p0; p1; p2; p3; p4; p5].

(* symmetric_product_derivative_daba_db(a) is the Jacobian of b |-> a.b.a *)
Definition daba_db_stmt1 : Prop :=
  forall p0 p1 p2 q0 q1 q2 : R,
    is_jacobian 3 3 (fun p => f_daba_db1_l p [q0; q1; q2]) (fun p => D_daba_db1_l p [q0; q1; q2]) [p0; p1; p2].
Definition daba_db_stmt2 : Prop :=
  forall p0 p1 p2 p3 q0 q1 q2 q3 : R,
    is_jacobian 4 4 (fun p => f_daba_db2_l p [q0; q1; q2; q3]) (fun p => D_daba_db2_l p [q0; q1; q2; q3]) [p0; p1; p2; p3].
Definition daba_db_stmt3 : Prop :=
  forall p0 p1 p2 p3 p4 p5 q0 q1 q2 q3 q4 q5 : R,
    is_jacobian 6 6 (fun p => f_daba_db3_l p [q0; q1; q2; q3; q4; q5]) (fun p => D_daba_db3_l p [q0; q1; q2; q3; q4; q5]) [p0; p1; p2; p3; p4; p5].

(* st2tot2::tpld(q) is the Jacobian of p |-> p*q (symmetric p, q; unsymmetric product) *)
Definition st2tot2_tpld_stmt1 : Prop :=
  forall p0 p1 p2 q0 q1 q2 : R,
    is_jacobian 3 3 (fun p => f_st2tot2_tpld1_l p [q0; q1; q2]) (fun p => D_st2tot2_tpld1_l p [q0; q1; q2]) [p0; p1; p2].
Definition st2tot2_tpld_stmt2 : Prop :=
  forall p0 p1 p2 p3 q0 q1 q2 q3 : R,
    is_jacobian 4 5 (fun p => f_st2tot2_tpld2_l p [q0; q1; q2; q3]) (fun p => D_st2tot2_tpld2_l p [q0; q1; q2; q3]) [p0; p1; p2; p3].
Definition st2tot2_tpld_stmt3 : Prop :=
  forall p0 p1 p2 p3 p4 p5 q0 q1 q2 q3 q4 q5 : R,
    is_jacobian 6 9 (fun p => f_st2tot2_tpld3_l p [q0; q1; q2; q3; q4; q5]) (fun p => D_st2tot2_tpld3_l p [q0; q1; q2; q3; q4; q5]) [p0; p1; p2; p3; p4; p5].

(* st2tot2::tprd(q) is the Jacobian of p |-> q*p *)
Definition st2tot2_tprd_stmt1 : Prop :=
  forall p0 p1 p2 q0 q1 q2 : R,
    is_jacobian 3 3 (fun p => f_st2tot2_tprd1_l p [q0; q1; q2]) (fun p => D_st2tot2_tprd1_l p [q0; q1; q2]) [p0; p1; p2].
Definition st2tot2_tprd_stmt2 : Prop :=
  forall p0 p1 p2 p3 q0 q1 q2 q3 : R,
    is_jacobian 4 5 (fun p => f_st2tot2_tprd2_l p [q0; q1; q2; q3]) (fun p => D_st2tot2_tprd2_l p [q0; q1; q2; q3]) [p0; p1; p2; p3].
Definition st2tot2_tprd_stmt3 : Prop :=
  forall p0 p1 p2 p3 p4 p5 q0 q1 q2 q3 q4 q5 : R,
    is_jacobian 6 9 (fun p => f_st2tot2_tprd3_l p [q0; q1; q2; q3; q4; q5]) (fun p => D_st2tot2_tprd3_l p [q0; q1; q2; q3; q4; q5]) [p0; p1; p2; p3; p4; p5].

(* computeDeterminantDerivative(tensor) is the gradient of det(F) *)
Definition tensor_det_stmt1 : Prop :=
  forall p0 p1 p2 : R,
    is_jacobian 3 1 (fun p => f_tensor_det1_l p []) (fun p => D_tensor_det1_l p []) [p0; p1; p2].
Definition tensor_det_stmt2 : Prop :=
  forall p0 p1 p2 p3 p4 : R,
    is_jacobian 5 1 (fun p => f_tensor_det2_l p []) (fun p => D_tensor_det2_l p []) [p0; p1; p2; p3; p4].
Definition tensor_det_stmt3 : Prop :=
  forall p0 p1 p2 p3 p4 p5 p6 p7 p8 : R,
    is_jacobian 9 1 (fun p => f_tensor_det3_l p []) (fun p => D_tensor_det3_l p []) [p0; p1; p2; p3; p4; p5; p6; p7; p8].

(* computeDeterminantSecondDerivative(tensor) is the Jacobian of computeDeterminantDerivative(tensor) *)
Definition tensor_det2_stmt1 : Prop :=
  forall p0 p1 p2 : R,
    is_jacobian 3 3 (fun p => f_tensor_det21_l p []) (fun p => D_tensor_det21_l p []) [p0; p1; p2].
Definition tensor_det2_stmt2 : Prop :=
  forall p0 p1 p2 p3 p4 : R,
    is_jacobian 5 5 (fun p => f_tensor_det22_l p []) (fun p => D_tensor_det22_l p []) [p0; p1; p2; p3; p4].
Definition tensor_det2_stmt3 : Prop :=
  forall p0 p1 p2 p3 p4 p5 p6 p7 p8 : R,
    is_jacobian 9 9 (fun p => f_tensor_det23_l p []) (fun p => D_tensor_det23_l p []) [p0; p1; p2; p3; p4; p5; p6; p7; p8].

(* t2tost2::dCdF(F) is the Jacobian of the right Cauchy-Green tensor F^T.F *)
Definition dCdF_stmt1 : Prop :=
  forall p0 p1 p2 : R,
    is_jacobian 3 3 (fun p => f_dCdF1_l p []) (fun p => D_dCdF1_l p []) [p0; p1; p2].
Definition dCdF_stmt2 : Prop :=
  forall p0 p1 p2 p3 p4 : R,
    is_jacobian 5 4 (fun p => f_dCdF2_l p []) (fun p => D_dCdF2_l p []) [p0; p1; p2; p3; p4].
Definition dCdF_stmt3 : Prop :=
  forall p0 p1 p2 p3 p4 p5 p6 p7 p8 : R,
    is_jacobian 9 6 (fun p => f_dCdF3_l p []) (fun p => D_dCdF3_l p []) [p0; p1; p2; p3; p4; p5; p6; p7; p8].

(* t2tost2::dBdF(F) is the Jacobian of the left Cauchy-Green tensor F.F^T *)
Definition dBdF_stmt1 : Prop :=
  forall p0 p1 p2 : R,
    is_jacobian 3 3 (fun p => f_dBdF1_l p []) (fun p => D_dBdF1_l p []) [p0; p1; p2].
Definition dBdF_stmt2 : Prop :=
  forall p0 p1 p2 p3 p4 : R,
    is_jacobian 5 4 (fun p => f_dBdF2_l p []) (fun p => D_dBdF2_l p []) [p0; p1; p2; p3; p4].
Definition dBdF_stmt3 : Prop :=
  forall p0 p1 p2 p3 p4 p5 p6 p7 p8 : R,
    is_jacobian 9 6 (fun p => f_dBdF3_l p []) (fun p => D_dBdF3_l p []) [p0; p1; p2; p3; p4; p5; p6; p7; p8].

(* t2tot2::tpld(q) is the Jacobian of p |-> p*q *)
Definition tpld_stmt1 : Prop :=
  forall p0 p1 p2 q0 q1 q2 : R,
    is_jacobian 3 3 (fun p => f_tpld1_l p [q0; q1; q2]) (fun p => D_tpld1_l p [q0; q1; q2]) [p0; p1; p2].
Definition tpld_stmt2 : Prop :=
  forall p0 p1 p2 p3 p4 q0 q1 q2 q3 q4 : R,
    is_jacobian 5 5 (fun p => f_tpld2_l p [q0; q1; q2; q3; q4]) (fun p => D_tpld2_l p [q0; q1; q2; q3; q4]) [p0; p1; p2; p3; p4].
Definition tpld_stmt3 : Prop :=
  forall p0 p1 p2 p3 p4 p5 p6 p7 p8 q0 q1 q2 q3 q4 q5 q6 q7 q8 : R,
    is_jacobian 9 9 (fun p => f_tpld3_l p [q0; q1; q2; q3; q4; q5; q6; q7; q8]) (fun p => D_tpld3_l p [q0; q1; q2; q3; q4; q5; q6; q7; q8]) [p0; p1; p2; p3; p4; p5; p6; p7; p8].

(* t2tot2::tprd(q) is the Jacobian of p |-> q*p *)
Definition tprd_stmt1 : Prop :=
  forall p0 p1 p2 q0 q1 q2 : R,
    is_jacobian 3 3 (fun p => f_tprd1_l p [q0; q1; q2]) (fun p => D_tprd1_l p [q0; q1; q2]) [p0; p1; p2].
Definition tprd_stmt2 : Prop :=
  forall p0 p1 p2 p3 p4 q0 q1 q2 q3 q4 : R,
    is_jacobian 5 5 (fun p => f_tprd2_l p [q0; q1; q2; q3; q4]) (fun p => D_tprd2_l p [q0; q1; q2; q3; q4]) [p0; p1; p2; p3; p4].
Definition tprd_stmt3 : Prop :=
  forall p0 p1 p2 p3 p4 p5 p6 p7 p8 q0 q1 q2 q3 q4 q5 q6 q7 q8 : R,
    is_jacobian 9 9 (fun p => f_tprd3_l p [q0; q1; q2; q3; q4; q5; q6; q7; q8]) (fun p => D_tprd3_l p [q0; q1; q2; q3; q4; q5; q6; q7; q8]) [p0; p1; p2; p3; p4; p5; p6; p7; p8].

(* t2tot2::transpose_derivative() is the Jacobian of transpose *)
Definition transpose_derivative_stmt1 : Prop :=
  forall p0 p1 p2 : R,
    is_jacobian 3 3 (fun p => f_transpose_derivative1_l p []) (fun p => D_transpose_derivative1_l p []) [p0; p1; p2].
Definition transpose_derivative_stmt2 : Prop :=
  forall p0 p1 p2 p3 p4 : R,
    is_jacobian 5 5 (fun p => f_transpose_derivative2_l p []) (fun p => D_transpose_derivative2_l p []) [p0; p1; p2; p3; p4].
Definition transpose_derivative_stmt3 : Prop :=
  forall p0 p1 p2 p3 p4 p5 p6 p7 p8 : R,
    is_jacobian 9 9 (fun p => f_transpose_derivative3_l p []) (fun p => D_transpose_derivative3_l p []) [p0; p1; p2; p3; p4; p5; p6; p7; p8].

(* computeVelocityGradientDerivative(F) is the Jacobian of dF |-> dF.F^-1 (det F <> 0) *)
Definition velocity_gradient_stmt1 : Prop :=
  forall p0 p1 p2 q0 q1 q2 : R,
    nthR (f_tensor_det1 q0 q1 q2) 0 <> 0 ->
    is_jacobian 3 3 (fun p => f_velocity_gradient1_l p [q0; q1; q2]) (fun p => D_velocity_gradient1_l p [q0; q1; q2]) [p0; p1; p2].
Definition velocity_gradient_stmt2 : Prop :=
  forall p0 p1 p2 p3 p4 q0 q1 q2 q3 q4 : R,
    nthR (f_tensor_det2 q0 q1 q2 q3 q4) 0 <> 0 ->
    is_jacobian 5 5 (fun p => f_velocity_gradient2_l p [q0; q1; q2; q3; q4]) (fun p => D_velocity_gradient2_l p [q0; q1; q2; q3; q4]) [p0; p1; p2; p3; p4].
Definition velocity_gradient_stmt3 : Prop :=
  forall p0 p1 p2 p3 p4 p5 p6 p7 p8 q0 q1 q2 q3 q4 q5 q6 q7 q8 : R,
    nthR (f_tensor_det3 q0 q1 q2 q3 q4 q5 q6 q7 q8) 0 <> 0 ->
    is_jacobian 9 9 (fun p => f_velocity_gradient3_l p [q0; q1; q2; q3; q4; q5; q6; q7; q8]) (fun p => D_velocity_gradient3_l p [q0; q1; q2; q3; q4; q5; q6; q7; q8]) [p0; p1; p2; p3; p4; p5; p6; p7; p8].

(* computeRateOfDeformationDerivative(F) is the Jacobian of dF |-> sym(dF.F^-1) (det F <> 0) *)
Definition rate_of_deformation_stmt1 : Prop :=
  forall p0 p1 p2 q0 q1 q2 : R,
    nthR (f_tensor_det1 q0 q1 q2) 0 <> 0 ->
    is_jacobian 3 3 (fun p => f_rate_of_deformation1_l p [q0; q1; q2]) (fun p => D_rate_of_deformation1_l p [q0; q1; q2]) [p0; p1; p2].
Definition rate_of_deformation_stmt2 : Prop :=
  forall p0 p1 p2 p3 p4 q0 q1 q2 q3 q4 : R,
    nthR (f_tensor_det2 q0 q1 q2 q3 q4) 0 <> 0 ->
    is_jacobian 5 4 (fun p => f_rate_of_deformation2_l p [q0; q1; q2; q3; q4]) (fun p => D_rate_of_deformation2_l p [q0; q1; q2; q3; q4]) [p0; p1; p2; p3; p4].
Definition rate_of_deformation_stmt3 : Prop :=
  forall p0 p1 p2 p3 p4 p5 p6 p7 p8 q0 q1 q2 q3 q4 q5 q6 q7 q8 : R,
    nthR (f_tensor_det3 q0 q1 q2 q3 q4 q5 q6 q7 q8) 0 <> 0 ->
    is_jacobian 9 6 (fun p => f_rate_of_deformation3_l p [q0; q1; q2; q3; q4; q5; q6; q7; q8]) (fun p => D_rate_of_deformation3_l p [q0; q1; q2; q3; q4; q5; q6; q7; q8]) [p0; p1; p2; p3; p4; p5; p6; p7; p8].

(* computeSpinRateDerivative(F) is the Jacobian of dF |-> skew(dF.F^-1) (det F <> 0) *)
Definition spin_rate_stmt1 : Prop :=
  forall p0 p1 p2 q0 q1 q2 : R,
    nthR (f_tensor_det1 q0 q1 q2) 0 <> 0 ->
    is_jacobian 3 3 (fun p => f_spin_rate1_l p [q0; q1; q2]) (fun p => D_spin_rate1_l p [q0; q1; q2]) [p0; p1; p2].
Definition spin_rate_stmt2 : Prop :=
  forall p0 p1 p2 p3 p4 q0 q1 q2 q3 q4 : R,
    nthR (f_tensor_det2 q0 q1 q2 q3 q4) 0 <> 0 ->
    is_jacobian 5 5 (fun p => f_spin_rate2_l p [q0; q1; q2; q3; q4]) (fun p => D_spin_rate2_l p [q0; q1; q2; q3; q4]) [p0; p1; p2; p3; p4].
Definition spin_rate_stmt3 : Prop :=
  forall p0 p1 p2 p3 p4 p5 p6 p7 p8 q0 q1 q2 q3 q4 q5 q6 q7 q8 : R,
    nthR (f_tensor_det3 q0 q1 q2 q3 q4 q5 q6 q7 q8) 0 <> 0 ->
    is_jacobian 9 9 (fun p => f_spin_rate3_l p [q0; q1; q2; q3; q4; q5; q6; q7; q8]) (fun p => D_spin_rate3_l p [q0; q1; q2; q3; q4; q5; q6; q7; q8]) [p0; p1; p2; p3; p4; p5; p6; p7; p8].

(* st2tost2::dsquare(s(x), C) is the Jacobian of x |-> square(s(x)), s(x) = s0 + C.x *)
Definition dsquare_chain_stmt1 : Prop :=
  forall p0 p1 p2 q0 q1 q2 q3 q4 q5 q6 q7 q8 q9 q10 q11 : R,
    is_jacobian 3 3 (fun p => f_dsquare_chain1_l p [q0; q1; q2; q3; q4; q5; q6; q7; q8; q9; q10; q11]) (fun p => D_dsquare_chain1_l p [q0; q1; q2; q3; q4; q5; q6; q7; q8; q9; q10; q11]) [p0; p1; p2].
Definition dsquare_chain_stmt2 : Prop :=
  forall p0 p1 p2 p3 q0 q1 q2 q3 q4 q5 q6 q7 q8 q9 q10 q11 q12 q13 q14 q15 q16 q17 q18 q19 : R,
    is_jacobian 4 4 (fun p => f_dsquare_chain2_l p [q0; q1; q2; q3; q4; q5; q6; q7; q8; q9; q10; q11; q12; q13; q14; q15; q16; q17; q18; q19]) (fun p => D_dsquare_chain2_l p [q0; q1; q2; q3; q4; q5; q6; q7; q8; q9; q10; q11; q12; q13; q14; q15; q16; q17; q18; q19]) [p0; p1; p2; p3].
Definition dsquare_chain_stmt3 : Prop :=
  forall p0 p1 p2 p3 p4 p5 q0 q1 q2 q3 q4 q5 q6 q7 q8 q9 q10 q11 q12 q13 q14 q15 q16 q17 q18 q19 q20 q21 q22 q23 q24 q25 q26 q27 q28 q29 q30 q31 q32 q33 q34 q35 q36 q37 q38 q39 q40 q41 : R,
    is_jacobian 6 6 (fun p => f_dsquare_chain3_l p [q0; q1; q2; q3; q4; q5; q6; q7; q8; q9; q10; q11; q12; q13; q14; q15; q16; q17; q18; q19; q20; q21; q22; q23; q24; q25; q26; q27; q28; q29; q30; q31; q32; q33; q34; q35; q36; q37; q38; q39; q40; q41]) (fun p => D_dsquare_chain3_l p [q0; q1; q2; q3; q4; q5; q6; q7; q8; q9; q10; q11; q12; q13; q14; q15; q16; q17; q18; q19; q20; q21; q22; q23; q24; q25; q26; q27; q28; q29; q30; q31; q32; q33; q34; q35; q36; q37; q38; q39; q40; q41]) [p0; p1; p2; p3; p4; p5].

(* t2tot2::tpld(W, C) is the Jacobian of x |-> V(x)*W, V(x) = V0 + C.x *)
Definition tpld_chain_stmt1 : Prop :=
  forall p0 p1 p2 q0 q1 q2 q3 q4 q5 q6 q7 q8 q9 q10 q11 q12 q13 q14 : R,
    is_jacobian 3 3 (fun p => f_tpld_chain1_l p [q0; q1; q2; q3; q4; q5; q6; q7; q8; q9; q10; q11; q12; q13; q14]) (fun p => D_tpld_chain1_l p [q0; q1; q2; q3; q4; q5; q6; q7; q8; q9; q10; q11; q12; q13; q14]) [p0; p1; p2].
Definition tpld_chain_stmt2 : Prop :=
  forall p0 p1 p2 p3 p4 q0 q1 q2 q3 q4 q5 q6 q7 q8 q9 q10 q11 q12 q13 q14 q15 q16 q17 q18 q19 q20 q21 q22 q23 q24 q25 q26 q27 q28 q29 q30 q31 q32 q33 q34 : R,
    is_jacobian 5 5 (fun p => f_tpld_chain2_l p [q0; q1; q2; q3; q4; q5; q6; q7; q8; q9; q10; q11; q12; q13; q14; q15; q16; q17; q18; q19; q20; q21; q22; q23; q24; q25; q26; q27; q28; q29; q30; q31; q32; q33; q34]) (fun p => D_tpld_chain2_l p [q0; q1; q2; q3; q4; q5; q6; q7; q8; q9; q10; q11; q12; q13; q14; q15; q16; q17; q18; q19; q20; q21; q22; q23; q24; q25; q26; q27; q28; q29; q30; q31; q32; q33; q34]) [p0; p1; p2; p3; p4].
Definition tpld_chain_stmt3 : Prop :=
  forall p0 p1 p2 p3 p4 p5 p6 p7 p8 q0 q1 q2 q3 q4 q5 q6 q7 q8 q9 q10 q11 q12 q13 q14 q15 q16 q17 q18 q19 q20 q21 q22 q23 q24 q25 q26 q27 q28 q29 q30 q31 q32 q33 q34 q35 q36 q37 q38 q39 q40 q41 q42 q43 q44 q45 q46 q47 q48 q49 q50 q51 q52 q53 q54 q55 q56 q57 q58 q59 q60 q61 q62 q63 q64 q65 q66 q67 q68 q69 q70 q71 q72 q73 q74 q75 q76 q77 q78 q79 q80 q81 q82 q83 q84 q85 q86 q87 q88 q89 q90 q91 q92 q93 q94 q95 q96 q97 q98 : R,
    is_jacobian 9 9 (fun p => f_tpld_chain3_l p [q0; q1; q2; q3; q4; q5; q6; q7; q8; q9; q10; q11; q12; q13; q14; q15; q16; q17; q18; q19; q20; q21; q22; q23; q24; q25; q26; q27; q28; q29; q30; q31; q32; q33; q34; q35; q36; q37; q38; q39; q40; q41; q42; q43; q44; q45; q46; q47; q48; q49; q50; q51; q52; q53; q54; q55; q56; q57; q58; q59; q60; q61; q62; q63; q64; q65; q66; q67; q68; q69; q70; q71; q72; q73; q74; q75; q76; q77; q78; q79; q80; q81; q82; q83; q84; q85; q86; q87; q88; q89; q90; q91; q92; q93; q94; q95; q96; q97; q98]) (fun p => D_tpld_chain3_l p [q0; q1; q2; q3; q4; q5; q6; q7; q8; q9; q10; q11; q12; q13; q14; q15; q16; q17; q18; q19; q20; q21; q22; q23; q24; q25; q26; q27; q28; q29; q30; q31; q32; q33; q34; q35; q36; q37; q38; q39; q40; q41; q42; q43; q44; q45; q46; q47; q48; q49; q50; q51; q52; q53; q54; q55; q56; q57; q58; q59; q60; q61; q62; q63; q64; q65; q66; q67; q68; q69; q70; q71; q72; q73; q74; q75; q76; q77; q78; q79; q80; q81; q82; q83; q84; q85; q86; q87; q88; q89; q90; q91; q92; q93; q94; q95; q96; q97; q98]) [p0; p1; p2; p3; p4; p5; p6; p7; p8].

(* t2tot2::tprd(W, C) is the Jacobian of x |-> W*V(x), V(x) = V0 + C.x *)
Definition tprd_chain_stmt1 : Prop :=
  forall p0 p1 p2 q0 q1 q2 q3 q4 q5 q6 q7 q8 q9 q10 q11 q12 q13 q14 : R,
    is_jacobian 3 3 (fun p => f_tprd_chain1_l p [q0; q1; q2; q3; q4; q5; q6; q7; q8; q9; q10; q11; q12; q13; q14]) (fun p => D_tprd_chain1_l p [q0; q1; q2; q3; q4; q5; q6; q7; q8; q9; q10; q11; q12; q13; q14]) [p0; p1; p2].
Definition tprd_chain_stmt2 : Prop :=
  forall p0 p1 p2 p3 p4 q0 q1 q2 q3 q4 q5 q6 q7 q8 q9 q10 q11 q12 q13 q14 q15 q16 q17 q18 q19 q20 q21 q22 q23 q24 q25 q26 q27 q28 q29 q30 q31 q32 q33 q34 : R,
    is_jacobian 5 5 (fun p => f_tprd_chain2_l p [q0; q1; q2; q3; q4; q5; q6; q7; q8; q9; q10; q11; q12; q13; q14; q15; q16; q17; q18; q19; q20; q21; q22; q23; q24; q25; q26; q27; q28; q29; q30; q31; q32; q33; q34]) (fun p => D_tprd_chain2_l p [q0; q1; q2; q3; q4; q5; q6; q7; q8; q9; q10; q11; q12; q13; q14; q15; q16; q17; q18; q19; q20; q21; q22; q23; q24; q25; q26; q27; q28; q29; q30; q31; q32; q33; q34]) [p0; p1; p2; p3; p4].
Definition tprd_chain_stmt3 : Prop :=
  forall p0 p1 p2 p3 p4 p5 p6 p7 p8 q0 q1 q2 q3 q4 q5 q6 q7 q8 q9 q10 q11 q12 q13 q14 q15 q16 q17 q18 q19 q20 q21 q22 q23 q24 q25 q26 q27 q28 q29 q30 q31 q32 q33 q34 q35 q36 q37 q38 q39 q40 q41 q42 q43 q44 q45 q46 q47 q48 q49 q50 q51 q52 q53 q54 q55 q56 q57 q58 q59 q60 q61 q62 q63 q64 q65 q66 q67 q68 q69 q70 q71 q72 q73 q74 q75 q76 q77 q78 q79 q80 q81 q82 q83 q84 q85 q86 q87 q88 q89 q90 q91 q92 q93 q94 q95 q96 q97 q98 : R,
    is_jacobian 9 9 (fun p => f_tprd_chain3_l p [q0; q1; q2; q3; q4; q5; q6; q7; q8; q9; q10; q11; q12; q13; q14; q15; q16; q17; q18; q19; q20; q21; q22; q23; q24; q25; q26; q27; q28; q29; q30; q31; q32; q33; q34; q35; q36; q37; q38; q39; q40; q41; q42; q43; q44; q45; q46; q47; q48; q49; q50; q51; q52; q53; q54; q55; q56; q57; q58; q59; q60; q61; q62; q63; q64; q65; q66; q67; q68; q69; q70; q71; q72; q73; q74; q75; q76; q77; q78; q79; q80; q81; q82; q83; q84; q85; q86; q87; q88; q89; q90; q91; q92; q93; q94; q95; q96; q97; q98]) (fun p => D_tprd_chain3_l p [q0; q1; q2; q3; q4; q5; q6; q7; q8; q9; q10; q11; q12; q13; q14; q15; q16; q17; q18; q19; q20; q21; q22; q23; q24; q25; q26; q27; q28; q29; q30; q31; q32; q33; q34; q35; q36; q37; q38; q39; q40; q41; q42; q43; q44; q45; q46; q47; q48; q49; q50; q51; q52; q53; q54; q55; q56; q57; q58; q59; q60; q61; q62; q63; q64; q65; q66; q67; q68; q69; q70; q71; q72; q73; q74; q75; q76; q77; q78; q79; q80; q81; q82; q83; q84; q85; q86; q87; q88; q89; q90; q91; q92; q93; q94; q95; q96; q97; q98]) [p0; p1; p2; p3; p4; p5; p6; p7; p8].

(* st2tot2::tpld(w, C) is the Jacobian of x |-> v(x)*w, v(x) = v0 + C.x (symmetric tensors) *)
Definition st2tot2_tpld_chain_stmt1 : Prop :=
  forall p0 p1 p2 q0 q1 q2 q3 q4 q5 q6 q7 q8 q9 q10 q11 q12 q13 q14 : R,
    is_jacobian 3 3 (fun p => f_st2tot2_tpld_chain1_l p [q0; q1; q2; q3; q4; q5; q6; q7; q8; q9; q10; q11; q12; q13; q14]) (fun p => D_st2tot2_tpld_chain1_l p [q0; q1; q2; q3; q4; q5; q6; q7; q8; q9; q10; q11; q12; q13; q14]) [p0; p1; p2].
Definition st2tot2_tpld_chain_stmt2 : Prop :=
  forall p0 p1 p2 p3 q0 q1 q2 q3 q4 q5 q6 q7 q8 q9 q10 q11 q12 q13 q14 q15 q16 q17 q18 q19 q20 q21 q22 q23 : R,
    is_jacobian 4 5 (fun p => f_st2tot2_tpld_chain2_l p [q0; q1; q2; q3; q4; q5; q6; q7; q8; q9; q10; q11; q12; q13; q14; q15; q16; q17; q18; q19; q20; q21; q22; q23]) (fun p => D_st2tot2_tpld_chain2_l p [q0; q1; q2; q3; q4; q5; q6; q7; q8; q9; q10; q11; q12; q13; q14; q15; q16; q17; q18; q19; q20; q21; q22; q23]) [p0; p1; p2; p3].
Definition st2tot2_tpld_chain_stmt3 : Prop :=
  forall p0 p1 p2 p3 p4 p5 q0 q1 q2 q3 q4 q5 q6 q7 q8 q9 q10 q11 q12 q13 q14 q15 q16 q17 q18 q19 q20 q21 q22 q23 q24 q25 q26 q27 q28 q29 q30 q31 q32 q33 q34 q35 q36 q37 q38 q39 q40 q41 q42 q43 q44 q45 q46 q47 : R,
    is_jacobian 6 9 (fun p => f_st2tot2_tpld_chain3_l p [q0; q1; q2; q3; q4; q5; q6; q7; q8; q9; q10; q11; q12; q13; q14; q15; q16; q17; q18; q19; q20; q21; q22; q23; q24; q25; q26; q27; q28; q29; q30; q31; q32; q33; q34; q35; q36; q37; q38; q39; q40; q41; q42; q43; q44; q45; q46; q47]) (fun p => D_st2tot2_tpld_chain3_l p [q0; q1; q2; q3; q4; q5; q6; q7; q8; q9; q10; q11; q12; q13; q14; q15; q16; q17; q18; q19; q20; q21; q22; q23; q24; q25; q26; q27; q28; q29; q30; q31; q32; q33; q34; q35; q36; q37; q38; q39; q40; q41; q42; q43; q44; q45; q46; q47]) [p0; p1; p2; p3; p4; p5].

(* st2tot2::tprd(w, C) is the Jacobian of x |-> w*v(x), v(x) = v0 + C.x (symmetric tensors) *)
Definition st2tot2_tprd_chain_stmt1 : Prop :=
  forall p0 p1 p2 q0 q1 q2 q3 q4 q5 q6 q7 q8 q9 q10 q11 q12 q13 q14 : R,
    is_jacobian 3 3 (fun p => f_st2tot2_tprd_chain1_l p [q0; q1; q2; q3; q4; q5; q6; q7; q8; q9; q10; q11; q12; q13; q14]) (fun p => D_st2tot2_tprd_chain1_l p [q0; q1; q2; q3; q4; q5; q6; q7; q8; q9; q10; q11; q12; q13; q14]) [p0; p1; p2].
Definition st2tot2_tprd_chain_stmt2 : Prop :=
  forall p0 p1 p2 p3 q0 q1 q2 q3 q4 q5 q6 q7 q8 q9 q10 q11 q12 q13 q14 q15 q16 q17 q18 q19 q20 q21 q22 q23 : R,
    is_jacobian 4 5 (fun p => f_st2tot2_tprd_chain2_l p [q0; q1; q2; q3; q4; q5; q6; q7; q8; q9; q10; q11; q12; q13; q14; q15; q16; q17; q18; q19; q20; q21; q22; q23]) (fun p => D_st2tot2_tprd_chain2_l p [q0; q1; q2; q3; q4; q5; q6; q7; q8; q9; q10; q11; q12; q13; q14; q15; q16; q17; q18; q19; q20; q21; q22; q23]) [p0; p1; p2; p3].
Definition st2tot2_tprd_chain_stmt3 : Prop :=
  forall p0 p1 p2 p3 p4 p5 q0 q1 q2 q3 q4 q5 q6 q7 q8 q9 q10 q11 q12 q13 q14 q15 q16 q17 q18 q19 q20 q21 q22 q23 q24 q25 q26 q27 q28 q29 q30 q31 q32 q33 q34 q35 q36 q37 q38 q39 q40 q41 q42 q43 q44 q45 q46 q47 : R,
    is_jacobian 6 9 (fun p => f_st2tot2_tprd_chain3_l p [q0; q1; q2; q3; q4; q5; q6; q7; q8; q9; q10; q11; q12; q13; q14; q15; q16; q17; q18; q19; q20; q21; q22; q23; q24; q25; q26; q27; q28; q29; q30; q31; q32; q33; q34; q35; q36; q37; q38; q39; q40; q41; q42; q43; q44; q45; q46; q47]) (fun p => D_st2tot2_tprd_chain3_l p [q0; q1; q2; q3; q4; q5; q6; q7; q8; q9; q10; q11; q12; q13; q14; q15; q16; q17; q18; q19; q20; q21; q22; q23; q24; q25; q26; q27; q28; q29; q30; q31; q32; q33; q34; q35; q36; q37; q38; q39; q40; q41; q42; q43; q44; q45; q46; q47]) [p0; p1; p2; p3; p4; p5].

(* computePushForwardDerivative(st2tost2&, F) is the Jacobian of S |-> push_forward(S, F) = F.S.F^T *)
Definition push_forward_dS_stmt1 : Prop :=
  forall p0 p1 p2 q0 q1 q2 : R,
    is_jacobian 3 3 (fun p => f_push_forward_dS1_l p [q0; q1; q2]) (fun p => D_push_forward_dS1_l p [q0; q1; q2]) [p0; p1; p2].
Definition push_forward_dS_stmt2 : Prop :=
  forall p0 p1 p2 p3 q0 q1 q2 q3 q4 : R,
    is_jacobian 4 4 (fun p => f_push_forward_dS2_l p [q0; q1; q2; q3; q4]) (fun p => D_push_forward_dS2_l p [q0; q1; q2; q3; q4]) [p0; p1; p2; p3].
Definition push_forward_dS_stmt3 : Prop :=
  forall p0 p1 p2 p3 p4 p5 q0 q1 q2 q3 q4 q5 q6 q7 q8 : R,
    is_jacobian 6 6 (fun p => f_push_forward_dS3_l p [q0; q1; q2; q3; q4; q5; q6; q7; q8]) (fun p => D_push_forward_dS3_l p [q0; q1; q2; q3; q4; q5; q6; q7; q8]) [p0; p1; p2; p3; p4; p5].

(* computePushForwardDerivativeWithRespectToDeformationGradient(S, F) is the Jacobian of F |-> F.S.F^T *)
Definition push_forward_dF_stmt1 : Prop :=
  forall p0 p1 p2 q0 q1 q2 : R,
    is_jacobian 3 3 (fun p => f_push_forward_dF1_l p [q0; q1; q2]) (fun p => D_push_forward_dF1_l p [q0; q1; q2]) [p0; p1; p2].
Definition push_forward_dF_stmt2 : Prop :=
  forall p0 p1 p2 p3 p4 q0 q1 q2 q3 : R,
    is_jacobian 5 4 (fun p => f_push_forward_dF2_l p [q0; q1; q2; q3]) (fun p => D_push_forward_dF2_l p [q0; q1; q2; q3]) [p0; p1; p2; p3; p4].
Definition push_forward_dF_stmt3 : Prop :=
  forall p0 p1 p2 p3 p4 p5 p6 p7 p8 q0 q1 q2 q3 q4 q5 : R,
    is_jacobian 9 6 (fun p => f_push_forward_dF3_l p [q0; q1; q2; q3; q4; q5]) (fun p => D_push_forward_dF3_l p [q0; q1; q2; q3; q4; q5]) [p0; p1; p2; p3; p4; p5; p6; p7; p8].

(* computePushForwardDerivative(dS/dF, S(F), F) is the Jacobian of F |-> F.S(F).F^T, S(F) = S0 + X.F *)
Definition push_forward_chain_stmt1 : Prop :=
  forall p0 p1 p2 q0 q1 q2 q3 q4 q5 q6 q7 q8 q9 q10 q11 : R,
    is_jacobian 3 3 (fun p => f_push_forward_chain1_l p [q0; q1; q2; q3; q4; q5; q6; q7; q8; q9; q10; q11]) (fun p => D_push_forward_chain1_l p [q0; q1; q2; q3; q4; q5; q6; q7; q8; q9; q10; q11]) [p0; p1; p2].
Definition push_forward_chain_stmt2 : Prop :=
  forall p0 p1 p2 p3 p4 q0 q1 q2 q3 q4 q5 q6 q7 q8 q9 q10 q11 q12 q13 q14 q15 q16 q17 q18 q19 q20 q21 q22 q23 : R,
    is_jacobian 5 4 (fun p => f_push_forward_chain2_l p [q0; q1; q2; q3; q4; q5; q6; q7; q8; q9; q10; q11; q12; q13; q14; q15; q16; q17; q18; q19; q20; q21; q22; q23]) (fun p => D_push_forward_chain2_l p [q0; q1; q2; q3; q4; q5; q6; q7; q8; q9; q10; q11; q12; q13; q14; q15; q16; q17; q18; q19; q20; q21; q22; q23]) [p0; p1; p2; p3; p4].
Definition push_forward_chain_stmt3 : Prop :=
  forall p0 p1 p2 p3 p4 p5 p6 p7 p8 q0 q1 q2 q3 q4 q5 q6 q7 q8 q9 q10 q11 q12 q13 q14 q15 q16 q17 q18 q19 q20 q21 q22 q23 q24 q25 q26 q27 q28 q29 q30 q31 q32 q33 q34 q35 q36 q37 q38 q39 q40 q41 q42 q43 q44 q45 q46 q47 q48 q49 q50 q51 q52 q53 q54 q55 q56 q57 q58 q59 : R,
    is_jacobian 9 6 (fun p => f_push_forward_chain3_l p [q0; q1; q2; q3; q4; q5; q6; q7; q8; q9; q10; q11; q12; q13; q14; q15; q16; q17; q18; q19; q20; q21; q22; q23; q24; q25; q26; q27; q28; q29; q30; q31; q32; q33; q34; q35; q36; q37; q38; q39; q40; q41; q42; q43; q44; q45; q46; q47; q48; q49; q50; q51; q52; q53; q54; q55; q56; q57; q58; q59]) (fun p => D_push_forward_chain3_l p [q0; q1; q2; q3; q4; q5; q6; q7; q8; q9; q10; q11; q12; q13; q14; q15; q16; q17; q18; q19; q20; q21; q22; q23; q24; q25; q26; q27; q28; q29; q30; q31; q32; q33; q34; q35; q36; q37; q38; q39; q40; q41; q42; q43; q44; q45; q46; q47; q48; q49; q50; q51; q52; q53; q54; q55; q56; q57; q58; q59]) [p0; p1; p2; p3; p4; p5; p6; p7; p8].

(* computeKirchhoffStressDerivativeFromCauchyStressDerivative(ds, s(F), F) is the Jacobian of F |-> det(F) s(F), s(F) = s0 + X.F *)
Definition kirchhoff_from_cauchy_stmt1 : Prop :=
  forall p0 p1 p2 q0 q1 q2 q3 q4 q5 q6 q7 q8 q9 q10 q11 : R,
    is_jacobian 3 3 (fun p => f_kirchhoff_from_cauchy1_l p [q0; q1; q2; q3; q4; q5; q6; q7; q8; q9; q10; q11]) (fun p => D_kirchhoff_from_cauchy1_l p [q0; q1; q2; q3; q4; q5; q6; q7; q8; q9; q10; q11]) [p0; p1; p2].
Definition kirchhoff_from_cauchy_stmt2 : Prop :=
  forall p0 p1 p2 p3 p4 q0 q1 q2 q3 q4 q5 q6 q7 q8 q9 q10 q11 q12 q13 q14 q15 q16 q17 q18 q19 q20 q21 q22 q23 : R,
    is_jacobian 5 4 (fun p => f_kirchhoff_from_cauchy2_l p [q0; q1; q2; q3; q4; q5; q6; q7; q8; q9; q10; q11; q12; q13; q14; q15; q16; q17; q18; q19; q20; q21; q22; q23]) (fun p => D_kirchhoff_from_cauchy2_l p [q0; q1; q2; q3; q4; q5; q6; q7; q8; q9; q10; q11; q12; q13; q14; q15; q16; q17; q18; q19; q20; q21; q22; q23]) [p0; p1; p2; p3; p4].
Definition kirchhoff_from_cauchy_stmt3 : Prop :=
  forall p0 p1 p2 p3 p4 p5 p6 p7 p8 q0 q1 q2 q3 q4 q5 q6 q7 q8 q9 q10 q11 q12 q13 q14 q15 q16 q17 q18 q19 q20 q21 q22 q23 q24 q25 q26 q27 q28 q29 q30 q31 q32 q33 q34 q35 q36 q37 q38 q39 q40 q41 q42 q43 q44 q45 q46 q47 q48 q49 q50 q51 q52 q53 q54 q55 q56 q57 q58 q59 : R,
    is_jacobian 9 6 (fun p => f_kirchhoff_from_cauchy3_l p [q0; q1; q2; q3; q4; q5; q6; q7; q8; q9; q10; q11; q12; q13; q14; q15; q16; q17; q18; q19; q20; q21; q22; q23; q24; q25; q26; q27; q28; q29; q30; q31; q32; q33; q34; q35; q36; q37; q38; q39; q40; q41; q42; q43; q44; q45; q46; q47; q48; q49; q50; q51; q52; q53; q54; q55; q56; q57; q58; q59]) (fun p => D_kirchhoff_from_cauchy3_l p [q0; q1; q2; q3; q4; q5; q6; q7; q8; q9; q10; q11; q12; q13; q14; q15; q16; q17; q18; q19; q20; q21; q22; q23; q24; q25; q26; q27; q28; q29; q30; q31; q32; q33; q34; q35; q36; q37; q38; q39; q40; q41; q42; q43; q44; q45; q46; q47; q48; q49; q50; q51; q52; q53; q54; q55; q56; q57; q58; q59]) [p0; p1; p2; p3; p4; p5; p6; p7; p8].

(* computeCauchyStressDerivativeFromKirchhoffStressDerivative(dtau, tau(F)/det F, F) is the Jacobian of F |-> tau(F)/det(F), tau(F) = t0 + X.F (det F <> 0) *)
Definition cauchy_from_kirchhoff_stmt1 : Prop :=
  forall p0 p1 p2 q0 q1 q2 q3 q4 q5 q6 q7 q8 q9 q10 q11 : R,
    nthR (f_tensor_det1 p0 p1 p2) 0 <> 0 ->
    is_jacobian 3 3 (fun p => f_cauchy_from_kirchhoff1_l p [q0; q1; q2; q3; q4; q5; q6; q7; q8; q9; q10; q11]) (fun p => D_cauchy_from_kirchhoff1_l p [q0; q1; q2; q3; q4; q5; q6; q7; q8; q9; q10; q11]) [p0; p1; p2].
Definition cauchy_from_kirchhoff_stmt2 : Prop :=
  forall p0 p1 p2 p3 p4 q0 q1 q2 q3 q4 q5 q6 q7 q8 q9 q10 q11 q12 q13 q14 q15 q16 q17 q18 q19 q20 q21 q22 q23 : R,
    nthR (f_tensor_det2 p0 p1 p2 p3 p4) 0 <> 0 ->
    is_jacobian 5 4 (fun p => f_cauchy_from_kirchhoff2_l p [q0; q1; q2; q3; q4; q5; q6; q7; q8; q9; q10; q11; q12; q13; q14; q15; q16; q17; q18; q19; q20; q21; q22; q23]) (fun p => D_cauchy_from_kirchhoff2_l p [q0; q1; q2; q3; q4; q5; q6; q7; q8; q9; q10; q11; q12; q13; q14; q15; q16; q17; q18; q19; q20; q21; q22; q23]) [p0; p1; p2; p3; p4].
Definition cauchy_from_kirchhoff_stmt3 : Prop :=
  forall p0 p1 p2 p3 p4 p5 p6 p7 p8 q0 q1 q2 q3 q4 q5 q6 q7 q8 q9 q10 q11 q12 q13 q14 q15 q16 q17 q18 q19 q20 q21 q22 q23 q24 q25 q26 q27 q28 q29 q30 q31 q32 q33 q34 q35 q36 q37 q38 q39 q40 q41 q42 q43 q44 q45 q46 q47 q48 q49 q50 q51 q52 q53 q54 q55 q56 q57 q58 q59 : R,
    nthR (f_tensor_det3 p0 p1 p2 p3 p4 p5 p6 p7 p8) 0 <> 0 ->
    is_jacobian 9 6 (fun p => f_cauchy_from_kirchhoff3_l p [q0; q1; q2; q3; q4; q5; q6; q7; q8; q9; q10; q11; q12; q13; q14; q15; q16; q17; q18; q19; q20; q21; q22; q23; q24; q25; q26; q27; q28; q29; q30; q31; q32; q33; q34; q35; q36; q37; q38; q39; q40; q41; q42; q43; q44; q45; q46; q47; q48; q49; q50; q51; q52; q53; q54; q55; q56; q57; q58; q59]) (fun p => D_cauchy_from_kirchhoff3_l p [q0; q1; q2; q3; q4; q5; q6; q7; q8; q9; q10; q11; q12; q13; q14; q15; q16; q17; q18; q19; q20; q21; q22; q23; q24; q25; q26; q27; q28; q29; q30; q31; q32; q33; q34; q35; q36; q37; q38; q39; q40; q41; q42; q43; q44; q45; q46; q47; q48; q49; q50; q51; q52; q53; q54; q55; q56; q57; q58; q59]) [p0; p1; p2; p3; p4; p5; p6; p7; p8].

(* convertCauchyStressDerivativeToFirstPiolaKirchoffStressDerivative(ds, F, s(F)) is the Jacobian of F |-> convertCauchyStressToFirstPiolaKirchhoffStress(s(F), F), s(F) = s0 + X.F *)
Definition pk1_from_cauchy_stmt1 : Prop :=
  forall p0 p1 p2 q0 q1 q2 q3 q4 q5 q6 q7 q8 q9 q10 q11 : R,
    is_jacobian 3 3 (fun p => f_pk1_from_cauchy1_l p [q0; q1; q2; q3; q4; q5; q6; q7; q8; q9; q10; q11]) (fun p => D_pk1_from_cauchy1_l p [q0; q1; q2; q3; q4; q5; q6; q7; q8; q9; q10; q11]) [p0; p1; p2].
Definition pk1_from_cauchy_stmt2 : Prop :=
  forall p0 p1 p2 p3 p4 q0 q1 q2 q3 q4 q5 q6 q7 q8 q9 q10 q11 q12 q13 q14 q15 q16 q17 q18 q19 q20 q21 q22 q23 : R,
    is_jacobian 5 5 (fun p => f_pk1_from_cauchy2_l p [q0; q1; q2; q3; q4; q5; q6; q7; q8; q9; q10; q11; q12; q13; q14; q15; q16; q17; q18; q19; q20; q21; q22; q23]) (fun p => D_pk1_from_cauchy2_l p [q0; q1; q2; q3; q4; q5; q6; q7; q8; q9; q10; q11; q12; q13; q14; q15; q16; q17; q18; q19; q20; q21; q22; q23]) [p0; p1; p2; p3; p4].
Definition pk1_from_cauchy_stmt3 : Prop :=
  forall p0 p1 p2 p3 p4 p5 p6 p7 p8 q0 q1 q2 q3 q4 q5 q6 q7 q8 q9 q10 q11 q12 q13 q14 q15 q16 q17 q18 q19 q20 q21 q22 q23 q24 q25 q26 q27 q28 q29 q30 q31 q32 q33 q34 q35 q36 q37 q38 q39 q40 q41 q42 q43 q44 q45 q46 q47 q48 q49 q50 q51 q52 q53 q54 q55 q56 q57 q58 q59 : R,
    is_jacobian 9 9 (fun p => f_pk1_from_cauchy3_l p [q0; q1; q2; q3; q4; q5; q6; q7; q8; q9; q10; q11; q12; q13; q14; q15; q16; q17; q18; q19; q20; q21; q22; q23; q24; q25; q26; q27; q28; q29; q30; q31; q32; q33; q34; q35; q36; q37; q38; q39; q40; q41; q42; q43; q44; q45; q46; q47; q48; q49; q50; q51; q52; q53; q54; q55; q56; q57; q58; q59]) (fun p => D_pk1_from_cauchy3_l p [q0; q1; q2; q3; q4; q5; q6; q7; q8; q9; q10; q11; q12; q13; q14; q15; q16; q17; q18; q19; q20; q21; q22; q23; q24; q25; q26; q27; q28; q29; q30; q31; q32; q33; q34; q35; q36; q37; q38; q39; q40; q41; q42; q43; q44; q45; q46; q47; q48; q49; q50; q51; q52; q53; q54; q55; q56; q57; q58; q59]) [p0; p1; p2; p3; p4; p5; p6; p7; p8].

(* convertSecondPiolaKirchhoffStressDerivativeToFirstPiolaKirchoffStressDerivative(dS/dE, F0, s0) is the Jacobian at F0 of F |-> F.S(F), S(F) = S(s0, F0) + X.(E_GL(F) - E_GL(F0)), S(s0, F0) = convertCauchyStressToSecondPiolaKirchhoffStress(s0, F0) (det F0 <> 0) *)
Definition pk1_from_pk2_stmt1 : Prop :=
  forall p0 p1 p2 q0 q1 q2 q3 q4 q5 q6 q7 q8 q9 q10 q11 : R,
    nthR (f_tensor_det1 p0 p1 p2) 0 <> 0 ->
    is_jacobian 3 3 (fun p => f_pk1_from_pk21_l p [q0; q1; q2; q3; q4; q5; q6; q7; q8; q9; q10; q11; p0; p1; p2]) (fun p => D_pk1_from_pk21_l p [q0; q1; q2; q3; q4; q5; q6; q7; q8; q9; q10; q11; p0; p1; p2]) [p0; p1; p2].
Definition pk1_from_pk2_stmt2 : Prop :=
  forall p0 p1 p2 p3 p4 q0 q1 q2 q3 q4 q5 q6 q7 q8 q9 q10 q11 q12 q13 q14 q15 q16 q17 q18 q19 : R,
    nthR (f_tensor_det2 p0 p1 p2 p3 p4) 0 <> 0 ->
    is_jacobian 5 5 (fun p => f_pk1_from_pk22_l p [q0; q1; q2; q3; q4; q5; q6; q7; q8; q9; q10; q11; q12; q13; q14; q15; q16; q17; q18; q19; p0; p1; p2; p3; p4]) (fun p => D_pk1_from_pk22_l p [q0; q1; q2; q3; q4; q5; q6; q7; q8; q9; q10; q11; q12; q13; q14; q15; q16; q17; q18; q19; p0; p1; p2; p3; p4]) [p0; p1; p2; p3; p4].
Definition pk1_from_pk2_stmt3 : Prop :=
  forall p0 p1 p2 p3 p4 p5 p6 p7 p8 q0 q1 q2 q3 q4 q5 q6 q7 q8 q9 q10 q11 q12 q13 q14 q15 q16 q17 q18 q19 q20 q21 q22 q23 q24 q25 q26 q27 q28 q29 q30 q31 q32 q33 q34 q35 q36 q37 q38 q39 q40 q41 : R,
    nthR (f_tensor_det3 p0 p1 p2 p3 p4 p5 p6 p7 p8) 0 <> 0 ->
    is_jacobian 9 9 (fun p => f_pk1_from_pk23_l p [q0; q1; q2; q3; q4; q5; q6; q7; q8; q9; q10; q11; q12; q13; q14; q15; q16; q17; q18; q19; q20; q21; q22; q23; q24; q25; q26; q27; q28; q29; q30; q31; q32; q33; q34; q35; q36; q37; q38; q39; q40; q41; p0; p1; p2; p3; p4; p5; p6; p7; p8]) (fun p => D_pk1_from_pk23_l p [q0; q1; q2; q3; q4; q5; q6; q7; q8; q9; q10; q11; q12; q13; q14; q15; q16; q17; q18; q19; q20; q21; q22; q23; q24; q25; q26; q27; q28; q29; q30; q31; q32; q33; q34; q35; q36; q37; q38; q39; q40; q41; p0; p1; p2; p3; p4; p5; p6; p7; p8]) [p0; p1; p2; p3; p4; p5; p6; p7; p8].

(* convertFirstPiolaKirchoffStressDerivativeToKirchhoffStressDerivative(dP, F0, s0) is the Jacobian at F0 of F |-> det(F) convertFirstPiolaKirchhoffStressToCauchyStress(P(F), F), P(F) = P(s0, F0) + X.(F - F0) (det F0 <> 0) *)
Definition tau_from_pk1_stmt1 : Prop :=
  forall p0 p1 p2 q0 q1 q2 q3 q4 q5 q6 q7 q8 q9 q10 q11 : R,
    nthR (f_tensor_det1 p0 p1 p2) 0 <> 0 ->
    is_jacobian 3 3 (fun p => f_tau_from_pk11_l p [q0; q1; q2; q3; q4; q5; q6; q7; q8; q9; q10; q11; p0; p1; p2]) (fun p => D_tau_from_pk11_l p [q0; q1; q2; q3; q4; q5; q6; q7; q8; q9; q10; q11; p0; p1; p2]) [p0; p1; p2].
Definition tau_from_pk1_stmt2 : Prop :=
  forall p0 p1 p2 p3 p4 q0 q1 q2 q3 q4 q5 q6 q7 q8 q9 q10 q11 q12 q13 q14 q15 q16 q17 q18 q19 q20 q21 q22 q23 q24 q25 q26 q27 q28 : R,
    nthR (f_tensor_det2 p0 p1 p2 p3 p4) 0 <> 0 ->
    is_jacobian 5 4 (fun p => f_tau_from_pk12_l p [q0; q1; q2; q3; q4; q5; q6; q7; q8; q9; q10; q11; q12; q13; q14; q15; q16; q17; q18; q19; q20; q21; q22; q23; q24; q25; q26; q27; q28; p0; p1; p2; p3; p4]) (fun p => D_tau_from_pk12_l p [q0; q1; q2; q3; q4; q5; q6; q7; q8; q9; q10; q11; q12; q13; q14; q15; q16; q17; q18; q19; q20; q21; q22; q23; q24; q25; q26; q27; q28; p0; p1; p2; p3; p4]) [p0; p1; p2; p3; p4].
Definition tau_from_pk1_stmt3 : Prop :=
  forall p0 p1 p2 p3 p4 p5 p6 p7 p8 q0 q1 q2 q3 q4 q5 q6 q7 q8 q9 q10 q11 q12 q13 q14 q15 q16 q17 q18 q19 q20 q21 q22 q23 q24 q25 q26 q27 q28 q29 q30 q31 q32 q33 q34 q35 q36 q37 q38 q39 q40 q41 q42 q43 q44 q45 q46 q47 q48 q49 q50 q51 q52 q53 q54 q55 q56 q57 q58 q59 q60 q61 q62 q63 q64 q65 q66 q67 q68 q69 q70 q71 q72 q73 q74 q75 q76 q77 q78 q79 q80 q81 q82 q83 q84 q85 q86 : R,
    nthR (f_tensor_det3 p0 p1 p2 p3 p4 p5 p6 p7 p8) 0 <> 0 ->
    is_jacobian 9 6 (fun p => f_tau_from_pk13_l p [q0; q1; q2; q3; q4; q5; q6; q7; q8; q9; q10; q11; q12; q13; q14; q15; q16; q17; q18; q19; q20; q21; q22; q23; q24; q25; q26; q27; q28; q29; q30; q31; q32; q33; q34; q35; q36; q37; q38; q39; q40; q41; q42; q43; q44; q45; q46; q47; q48; q49; q50; q51; q52; q53; q54; q55; q56; q57; q58; q59; q60; q61; q62; q63; q64; q65; q66; q67; q68; q69; q70; q71; q72; q73; q74; q75; q76; q77; q78; q79; q80; q81; q82; q83; q84; q85; q86; p0; p1; p2; p3; p4; p5; p6; p7; p8]) (fun p => D_tau_from_pk13_l p [q0; q1; q2; q3; q4; q5; q6; q7; q8; q9; q10; q11; q12; q13; q14; q15; q16; q17; q18; q19; q20; q21; q22; q23; q24; q25; q26; q27; q28; q29; q30; q31; q32; q33; q34; q35; q36; q37; q38; q39; q40; q41; q42; q43; q44; q45; q46; q47; q48; q49; q50; q51; q52; q53; q54; q55; q56; q57; q58; q59; q60; q61; q62; q63; q64; q65; q66; q67; q68; q69; q70; q71; q72; q73; q74; q75; q76; q77; q78; q79; q80; q81; q82; q83; q84; q85; q86; p0; p1; p2; p3; p4; p5; p6; p7; p8]) [p0; p1; p2; p3; p4; p5; p6; p7; p8].

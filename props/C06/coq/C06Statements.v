(* C06 -- the statements (written by mkcoq.py, committed): for every helper and space dimension N,
   D_<helper>N is the Jacobian of f_<helper>N at every point; f_ and D_ are regenerated from /repo (C06_gen.v). *)
From Coq Require Import Reals List.
From Coquelicot Require Import Coquelicot.
From VLib Require Import RealExtra.
From C06 Require Import C06Spec C06_gen.
Import ListNotations.
Local Open Scope R_scope.


(* computeDeterminantDerivative(stensor) is the gradient of det *)
Definition stensor_det_stmt1 : Prop :=
  forall p0 p1 p2 : R,
    is_jacobian 3 1 (fun p => f_stensor_det1_l p []) (fun p => D_stensor_det1_l p []) [p0; p1; p2].
Definition stensor_det_stmt2 : Prop :=
  forall p0 p1 p2 p3 : R,
    is_jacobian 4 1 (fun p => f_stensor_det2_l p []) (fun p => D_stensor_det2_l p []) [p0; p1; p2; p3].
Definition stensor_det_stmt3 : Prop :=
  forall p0 p1 p2 p3 p4 p5 : R,
    is_jacobian 6 1 (fun p => f_stensor_det3_l p []) (fun p => D_stensor_det3_l p []) [p0; p1; p2; p3; p4; p5].

(* computeDeterminantSecondDerivative(stensor) is the Jacobian of computeDeterminantDerivative *)
Definition stensor_det2_stmt1 : Prop :=
  forall p0 p1 p2 : R,
    is_jacobian 3 3 (fun p => f_stensor_det21_l p []) (fun p => D_stensor_det21_l p []) [p0; p1; p2].
Definition stensor_det2_stmt2 : Prop :=
  forall p0 p1 p2 p3 : R,
    is_jacobian 4 4 (fun p => f_stensor_det22_l p []) (fun p => D_stensor_det22_l p []) [p0; p1; p2; p3].
Definition stensor_det2_stmt3 : Prop :=
  forall p0 p1 p2 p3 p4 p5 : R,
    is_jacobian 6 6 (fun p => f_stensor_det23_l p []) (fun p => D_stensor_det23_l p []) [p0; p1; p2; p3; p4; p5].

(* computeDeviatorDeterminantDerivative is the gradient of det(deviator(s)) *)
Definition stensor_devdet_stmt1 : Prop :=
  forall p0 p1 p2 : R,
    is_jacobian 3 1 (fun p => f_stensor_devdet1_l p []) (fun p => D_stensor_devdet1_l p []) [p0; p1; p2].
Definition stensor_devdet_stmt2 : Prop :=
  forall p0 p1 p2 p3 : R,
    is_jacobian 4 1 (fun p => f_stensor_devdet2_l p []) (fun p => D_stensor_devdet2_l p []) [p0; p1; p2; p3].
Definition stensor_devdet_stmt3 : Prop :=
  forall p0 p1 p2 p3 p4 p5 : R,
    is_jacobian 6 1 (fun p => f_stensor_devdet3_l p []) (fun p => D_stensor_devdet3_l p []) [p0; p1; p2; p3; p4; p5].

(* computeDeviatorDeterminantSecondDerivative is the Jacobian of computeDeviatorDeterminantDerivative *)
Definition stensor_devdet2_stmt1 : Prop :=
  forall p0 p1 p2 : R,
    is_jacobian 3 3 (fun p => f_stensor_devdet21_l p []) (fun p => D_stensor_devdet21_l p []) [p0; p1; p2].
Definition stensor_devdet2_stmt2 : Prop :=
  forall p0 p1 p2 p3 : R,
    is_jacobian 4 4 (fun p => f_stensor_devdet22_l p []) (fun p => D_stensor_devdet22_l p []) [p0; p1; p2; p3].
Definition stensor_devdet2_stmt3 : Prop :=
  forall p0 p1 p2 p3 p4 p5 : R,
    is_jacobian 6 6 (fun p => f_stensor_devdet23_l p []) (fun p => D_stensor_devdet23_l p []) [p0; p1; p2; p3; p4; p5].

(* tfel::material::computeJ3Derivative is the gradient of J3 = det(deviator(s)) *)
Definition J3_stmt1 : Prop :=
  forall p0 p1 p2 : R,
    is_jacobian 3 1 (fun p => f_J31_l p []) (fun p => D_J31_l p []) [p0; p1; p2].
Definition J3_stmt2 : Prop :=
  forall p0 p1 p2 p3 : R,
    is_jacobian 4 1 (fun p => f_J32_l p []) (fun p => D_J32_l p []) [p0; p1; p2; p3].
Definition J3_stmt3 : Prop :=
  forall p0 p1 p2 p3 p4 p5 : R,
    is_jacobian 6 1 (fun p => f_J33_l p []) (fun p => D_J33_l p []) [p0; p1; p2; p3; p4; p5].

(* tfel::material::computeJ3SecondDerivative is the Jacobian of computeJ3Derivative *)
Definition J3_2_stmt1 : Prop :=
  forall p0 p1 p2 : R,
    is_jacobian 3 3 (fun p => f_J3_21_l p []) (fun p => D_J3_21_l p []) [p0; p1; p2].
Definition J3_2_stmt2 : Prop :=
  forall p0 p1 p2 p3 : R,
    is_jacobian 4 4 (fun p => f_J3_22_l p []) (fun p => D_J3_22_l p []) [p0; p1; p2; p3].
Definition J3_2_stmt3 : Prop :=
  forall p0 p1 p2 p3 p4 p5 : R,
    is_jacobian 6 6 (fun p => f_J3_23_l p []) (fun p => D_J3_23_l p []) [p0; p1; p2; p3; p4; p5].

(* st2tost2::dsquare(s) is the Jacobian of square(s) *)
Definition dsquare_stmt1 : Prop :=
  forall p0 p1 p2 : R,
    is_jacobian 3 3 (fun p => f_dsquare1_l p []) (fun p => D_dsquare1_l p []) [p0; p1; p2].
Definition dsquare_stmt2 : Prop :=
  forall p0 p1 p2 p3 : R,
    is_jacobian 4 4 (fun p => f_dsquare2_l p []) (fun p => D_dsquare2_l p []) [p0; p1; p2; p3].
Definition dsquare_stmt3 : Prop :=
  forall p0 p1 p2 p3 p4 p5 : R,
    is_jacobian 6 6 (fun p => f_dsquare3_l p []) (fun p => D_dsquare3_l p []) [p0; p1; p2; p3; p4; p5].

(* st2tost2::stpd(q) is the Jacobian of p |-> p.q + q.p *)
Definition stpd_stmt1 : Prop :=
  forall p0 p1 p2 q0 q1 q2 : R,
    is_jacobian 3 3 (fun p => f_stpd1_l p [q0; q1; q2]) (fun p => D_stpd1_l p [q0; q1; q2]) [p0; p1; p2].
Definition stpd_stmt2 : Prop :=
  forall p0 p1 p2 p3 q0 q1 q2 q3 : R,
    is_jacobian 4 4 (fun p => f_stpd2_l p [q0; q1; q2; q3]) (fun p => D_stpd2_l p [q0; q1; q2; q3]) [p0; p1; p2; p3].
Definition stpd_stmt3 : Prop :=
  forall p0 p1 p2 p3 p4 p5 q0 q1 q2 q3 q4 q5 : R,
    is_jacobian 6 6 (fun p => f_stpd3_l p [q0; q1; q2; q3; q4; q5]) (fun p => D_stpd3_l p [q0; q1; q2; q3; q4; q5]) [p0; p1; p2; p3; p4; p5].

(* symmetric_product_derivative_daba_da(a,b) is the Jacobian of a |-> a.b.a *)
Definition daba_da_stmt1 : Prop :=
  forall p0 p1 p2 q0 q1 q2 : R,
    is_jacobian 3 3 (fun p => f_daba_da1_l p [q0; q1; q2]) (fun p => D_daba_da1_l p [q0; q1; q2]) [p0; p1; p2].
Definition daba_da_stmt2 : Prop :=
  forall p0 p1 p2 p3 q0 q1 q2 q3 : R,
    is_jacobian 4 4 (fun p => f_daba_da2_l p [q0; q1; q2; q3]) (fun p => D_daba_da2_l p [q0; q1; q2; q3]) [p0; p1; p2; p3].
Definition daba_da_stmt3 : Prop :=
  forall p0 p1 p2 p3 p4 p5 q0 q1 q2 q3 q4 q5 : R,
    is_jacobian 6 6 (fun p => f_daba_da3_l p [q0; q1; q2; q3; q4; q5]) (fun p => D_daba_da3_l p [q0; q1; q2; q3; q4; q5]) [p0; p1; p2; p3; p4; p5].

(* symmetric_product_derivative_daba_db(a) is the Jacobian of b |-> a.b.a *)
Definition daba_db_stmt1 : Prop :=
  forall p0 p1 p2 q0 q1 q2 : R,
    is_jacobian 3 3 (fun p => f_daba_db1_l p [q0; q1; q2]) (fun p => D_daba_db1_l p [q0; q1; q2]) [p0; p1; p2].
Definition daba_db_stmt2 : Prop :=
  forall p0 p1 p2 p3 q0 q1 q2 q3 : R,
    is_jacobian 4 4 (fun p => f_daba_db2_l p [q0; q1; q2; q3]) (fun p => D_daba_db2_l p [q0; q1; q2; q3]) [p0; p1; p2; p3].
Definition daba_db_stmt3 : Prop :=
  forall p0 p1 p2 p3 p4 p5 q0 q1 q2 q3 q4 q5 : R,
    is_jacobian 6 6 (fun p => f_daba_db3_l p [q0; q1; q2; q3; q4; q5]) (fun p => D_daba_db3_l p [q0; q1; q2; q3; q4; q5]) [p0; p1; p2; p3; p4; p5].

(* st2tot2::tpld(q) is the Jacobian of p |-> p*q (symmetric p, q; unsymmetric product) *)
Definition st2tot2_tpld_stmt1 : Prop :=
  forall p0 p1 p2 q0 q1 q2 : R,
    is_jacobian 3 3 (fun p => f_st2tot2_tpld1_l p [q0; q1; q2]) (fun p => D_st2tot2_tpld1_l p [q0; q1; q2]) [p0; p1; p2].
Definition st2tot2_tpld_stmt2 : Prop :=
  forall p0 p1 p2 p3 q0 q1 q2 q3 : R,
    is_jacobian 4 5 (fun p => f_st2tot2_tpld2_l p [q0; q1; q2; q3]) (fun p => D_st2tot2_tpld2_l p [q0; q1; q2; q3]) [p0; p1; p2; p3].
Definition st2tot2_tpld_stmt3 : Prop :=
  forall p0 p1 p2 p3 p4 p5 q0 q1 q2 q3 q4 q5 : R,
    is_jacobian 6 9 (fun p => f_st2tot2_tpld3_l p [q0; q1; q2; q3; q4; q5]) (fun p => D_st2tot2_tpld3_l p [q0; q1; q2; q3; q4; q5]) [p0; p1; p2; p3; p4; p5].

(* st2tot2::tprd(q) is the Jacobian of p |-> q*p *)
Definition st2tot2_tprd_stmt1 : Prop :=
  forall p0 p1 p2 q0 q1 q2 : R,
    is_jacobian 3 3 (fun p => f_st2tot2_tprd1_l p [q0; q1; q2]) (fun p => D_st2tot2_tprd1_l p [q0; q1; q2]) [p0; p1; p2].
Definition st2tot2_tprd_stmt2 : Prop :=
  forall p0 p1 p2 p3 q0 q1 q2 q3 : R,
    is_jacobian 4 5 (fun p => f_st2tot2_tprd2_l p [q0; q1; q2; q3]) (fun p => D_st2tot2_tprd2_l p [q0; q1; q2; q3]) [p0; p1; p2; p3].
Definition st2tot2_tprd_stmt3 : Prop :=
  forall p0 p1 p2 p3 p4 p5 q0 q1 q2 q3 q4 q5 : R,
    is_jacobian 6 9 (fun p => f_st2tot2_tprd3_l p [q0; q1; q2; q3; q4; q5]) (fun p => D_st2tot2_tprd3_l p [q0; q1; q2; q3; q4; q5]) [p0; p1; p2; p3; p4; p5].

(* computeDeterminantDerivative(tensor) is the gradient of det(F) *)
Definition tensor_det_stmt1 : Prop :=
  forall p0 p1 p2 : R,
    is_jacobian 3 1 (fun p => f_tensor_det1_l p []) (fun p => D_tensor_det1_l p []) [p0; p1; p2].
Definition tensor_det_stmt2 : Prop :=
  forall p0 p1 p2 p3 p4 : R,
    is_jacobian 5 1 (fun p => f_tensor_det2_l p []) (fun p => D_tensor_det2_l p []) [p0; p1; p2; p3; p4].
Definition tensor_det_stmt3 : Prop :=
  forall p0 p1 p2 p3 p4 p5 p6 p7 p8 : R,
    is_jacobian 9 1 (fun p => f_tensor_det3_l p []) (fun p => D_tensor_det3_l p []) [p0; p1; p2; p3; p4; p5; p6; p7; p8].

(* computeDeterminantSecondDerivative(tensor) is the Jacobian of computeDeterminantDerivative(tensor) *)
Definition tensor_det2_stmt1 : Prop :=
  forall p0 p1 p2 : R,
    is_jacobian 3 3 (fun p => f_tensor_det21_l p []) (fun p => D_tensor_det21_l p []) [p0; p1; p2].
Definition tensor_det2_stmt2 : Prop :=
  forall p0 p1 p2 p3 p4 : R,
    is_jacobian 5 5 (fun p => f_tensor_det22_l p []) (fun p => D_tensor_det22_l p []) [p0; p1; p2; p3; p4].
Definition tensor_det2_stmt3 : Prop :=
  forall p0 p1 p2 p3 p4 p5 p6 p7 p8 : R,
    is_jacobian 9 9 (fun p => f_tensor_det23_l p []) (fun p => D_tensor_det23_l p []) [p0; p1; p2; p3; p4; p5; p6; p7; p8].

(* t2tost2::dCdF(F) is the Jacobian of the right Cauchy-Green tensor F^T.F *)
Definition dCdF_stmt1 : Prop :=
  forall p0 p1 p2 : R,
    is_jacobian 3 3 (fun p => f_dCdF1_l p []) (fun p => D_dCdF1_l p []) [p0; p1; p2].
Definition dCdF_stmt2 : Prop :=
  forall p0 p1 p2 p3 p4 : R,
    is_jacobian 5 4 (fun p => f_dCdF2_l p []) (fun p => D_dCdF2_l p []) [p0; p1; p2; p3; p4].
Definition dCdF_stmt3 : Prop :=
  forall p0 p1 p2 p3 p4 p5 p6 p7 p8 : R,
    is_jacobian 9 6 (fun p => f_dCdF3_l p []) (fun p => D_dCdF3_l p []) [p0; p1; p2; p3; p4; p5; p6; p7; p8].

(* t2tost2::dBdF(F) is the Jacobian of the left Cauchy-Green tensor F.F^T *)
Definition dBdF_stmt1 : Prop :=
  forall p0 p1 p2 : R,
    is_jacobian 3 3 (fun p => f_dBdF1_l p []) (fun p => D_dBdF1_l p []) [p0; p1; p2].
Definition dBdF_stmt2 : Prop :=
  forall p0 p1 p2 p3 p4 : R,
    is_jacobian 5 4 (fun p => f_dBdF2_l p []) (fun p => D_dBdF2_l p []) [p0; p1; p2; p3; p4].
Definition dBdF_stmt3 : Prop :=
  forall p0 p1 p2 p3 p4 p5 p6 p7 p8 : R,
    is_jacobian 9 6 (fun p => f_dBdF3_l p []) (fun p => D_dBdF3_l p []) [p0; p1; p2; p3; p4; p5; p6; p7; p8].

(* t2tot2::tpld(q) is the Jacobian of p |-> p*q *)
Definition tpld_stmt1 : Prop :=
  forall p0 p1 p2 q0 q1 q2 : R,
    is_jacobian 3 3 (fun p => f_tpld1_l p [q0; q1; q2]) (fun p => D_tpld1_l p [q0; q1; q2]) [p0; p1; p2].
Definition tpld_stmt2 : Prop :=
  forall p0 p1 p2 p3 p4 q0 q1 q2 q3 q4 : R,
    is_jacobian 5 5 (fun p => f_tpld2_l p [q0; q1; q2; q3; q4]) (fun p => D_tpld2_l p [q0; q1; q2; q3; q4]) [p0; p1; p2; p3; p4].
Definition tpld_stmt3 : Prop :=
  forall p0 p1 p2 p3 p4 p5 p6 p7 p8 q0 q1 q2 q3 q4 q5 q6 q7 q8 : R,
    is_jacobian 9 9 (fun p => f_tpld3_l p [q0; q1; q2; q3; q4; q5; q6; q7; q8]) (fun p => D_tpld3_l p [q0; q1; q2; q3; q4; q5; q6; q7; q8]) [p0; p1; p2; p3; p4; p5; p6; p7; p8].

(* t2tot2::tprd(q) is the Jacobian of p |-> q*p *)
Definition tprd_stmt1 : Prop :=
  forall p0 p1 p2 q0 q1 q2 : R,
    is_jacobian 3 3 (fun p => f_tprd1_l p [q0; q1; q2]) (fun p => D_tprd1_l p [q0; q1; q2]) [p0; p1; p2].
Definition tprd_stmt2 : Prop :=
  forall p0 p1 p2 p3 p4 q0 q1 q2 q3 q4 : R,
    is_jacobian 5 5 (fun p => f_tprd2_l p [q0; q1; q2; q3; q4]) (fun p => D_tprd2_l p [q0; q1; q2; q3; q4]) [p0; p1; p2; p3; p4].
Definition tprd_stmt3 : Prop :=
  forall p0 p1 p2 p3 p4 p5 p6 p7 p8 q0 q1 q2 q3 q4 q5 q6 q7 q8 : R,
    is_jacobian 9 9 (fun p => f_tprd3_l p [q0; q1; q2; q3; q4; q5; q6; q7; q8]) (fun p => D_tprd3_l p [q0; q1; q2; q3; q4; q5; q6; q7; q8]) [p0; p1; p2; p3; p4; p5; p6; p7; p8].

(* t2tot2::transpose_derivative() is the Jacobian of transpose *)
Definition transpose_derivative_stmt1 : Prop :=
  forall p0 p1 p2 : R,
    is_jacobian 3 3 (fun p => f_transpose_derivative1_l p []) (fun p => D_transpose_derivative1_l p []) [p0; p1; p2].
Definition transpose_derivative_stmt2 : Prop :=
  forall p0 p1 p2 p3 p4 : R,
    is_jacobian 5 5 (fun p => f_transpose_derivative2_l p []) (fun p => D_transpose_derivative2_l p []) [p0; p1; p2; p3; p4].
Definition transpose_derivative_stmt3 : Prop :=
  forall p0 p1 p2 p3 p4 p5 p6 p7 p8 : R,
    is_jacobian 9 9 (fun p => f_transpose_derivative3_l p []) (fun p => D_transpose_derivative3_l p []) [p0; p1; p2; p3; p4; p5; p6; p7; p8].

(* computeVelocityGradientDerivative(F) is the Jacobian of dF |-> dF.F^-1 (det F <> 0) *)
Definition velocity_gradient_stmt1 : Prop :=
  forall p0 p1 p2 q0 q1 q2 : R,
    nthR (f_tensor_det1 q0 q1 q2) 0 <> 0 ->
    is_jacobian 3 3 (fun p => f_velocity_gradient1_l p [q0; q1; q2]) (fun p => D_velocity_gradient1_l p [q0; q1; q2]) [p0; p1; p2].
Definition velocity_gradient_stmt2 : Prop :=
  forall p0 p1 p2 p3 p4 q0 q1 q2 q3 q4 : R,
    nthR (f_tensor_det2 q0 q1 q2 q3 q4) 0 <> 0 ->
    is_jacobian 5 5 (fun p => f_velocity_gradient2_l p [q0; q1; q2; q3; q4]) (fun p => D_velocity_gradient2_l p [q0; q1; q2; q3; q4]) [p0; p1; p2; p3; p4].
Definition velocity_gradient_stmt3 : Prop :=
  forall p0 p1 p2 p3 p4 p5 p6 p7 p8 q0 q1 q2 q3 q4 q5 q6 q7 q8 : R,
    nthR (f_tensor_det3 q0 q1 q2 q3 q4 q5 q6 q7 q8) 0 <> 0 ->
    is_jacobian 9 9 (fun p => f_velocity_gradient3_l p [q0; q1; q2; q3; q4; q5; q6; q7; q8]) (fun p => D_velocity_gradient3_l p [q0; q1; q2; q3; q4; q5; q6; q7; q8]) [p0; p1; p2; p3; p4; p5; p6; p7; p8].

(* computeRateOfDeformationDerivative(F) is the Jacobian of dF |-> sym(dF.F^-1) (det F <> 0) *)
Definition rate_of_deformation_stmt1 : Prop :=
  forall p0 p1 p2 q0 q1 q2 : R,
    nthR (f_tensor_det1 q0 q1 q2) 0 <> 0 ->
    is_jacobian 3 3 (fun p => f_rate_of_deformation1_l p [q0; q1; q2]) (fun p => D_rate_of_deformation1_l p [q0; q1; q2]) [p0; p1; p2].
Definition rate_of_deformation_stmt2 : Prop :=
  forall p0 p1 p2 p3 p4 q0 q1 q2 q3 q4 : R,
    nthR (f_tensor_det2 q0 q1 q2 q3 q4) 0 <> 0 ->
    is_jacobian 5 4 (fun p => f_rate_of_deformation2_l p [q0; q1; q2; q3; q4]) (fun p => D_rate_of_deformation2_l p [q0; q1; q2; q3; q4]) [p0; p1; p2; p3; p4].
Definition rate_of_deformation_stmt3 : Prop :=
  forall p0 p1 p2 p3 p4 p5 p6 p7 p8 q0 q1 q2 q3 q4 q5 q6 q7 q8 : R,
    nthR (f_tensor_det3 q0 q1 q2 q3 q4 q5 q6 q7 q8) 0 <> 0 ->
    is_jacobian 9 6 (fun p => f_rate_of_deformation3_l p [q0; q1; q2; q3; q4; q5; q6; q7; q8]) (fun p => D_rate_of_deformation3_l p [q0; q1; q2; q3; q4; q5; q6; q7; q8]) [p0; p1; p2; p3; p4; p5; p6; p7; p8].

(* computeSpinRateDerivative(F) is the Jacobian of dF |-> skew(dF.F^-1) (det F <> 0) *)
Definition spin_rate_stmt1 : Prop :=
  forall p0 p1 p2 q0 q1 q2 : R,
    nthR (f_tensor_det1 q0 q1 q2) 0 <> 0 ->
    is_jacobian 3 3 (fun p => f_spin_rate1_l p [q0; q1; q2]) (fun p => D_spin_rate1_l p [q0; q1; q2]) [p0; p1; p2].
Definition spin_rate_stmt2 : Prop :=
  forall p0 p1 p2 p3 p4 q0 q1 q2 q3 q4 : R,
    nthR (f_tensor_det2 q0 q1 q2 q3 q4) 0 <> 0 ->
    is_jacobian 5 5 (fun p => f_spin_rate2_l p [q0; q1; q2; q3; q4]) (fun p => D_spin_rate2_l p [q0; q1; q2; q3; q4]) [p0; p1; p2; p3; p4].
Definition spin_rate_stmt3 : Prop :=
  forall p0 p1 p2 p3 p4 p5 p6 p7 p8 q0 q1 q2 q3 q4 q5 q6 q7 q8 : R,
    nthR (f_tensor_det3 q0 q1 q2 q3 q4 q5 q6 q7 q8) 0 <> 0 ->
    is_jacobian 9 9 (fun p => f_spin_rate3_l p [q0; q1; q2; q3; q4; q5; q6; q7; q8]) (fun p => D_spin_rate3_l p [q0; q1; q2; q3; q4; q5; q6; q7; q8]) [p0; p1; p2; p3; p4; p5; p6; p7; p8].

(* C06 -- property theorems (statements: C06Statements.v / C06Spec.v; proofs: C06ProofsT1.v) *)
From Coq Require Import Reals List.
From Coquelicot Require Import Coquelicot.
From VLib Require Import RealExtra.
From C06 Require Import C06Spec C06_gen C06Statements C06ProofsT1.
Import ListNotations.
Local Open Scope R_scope.


(* convertCauchyStressDerivativeToFirstPiolaKirchoffStressDerivative(ds, F, s(F)) is the Jacobian of F |-> convertCauchyStressToFirstPiolaKirchhoffStress(s(F), F), s(F) = s0 + X.F -- 3D *)
Theorem C06_pk1_from_cauchy_3D : pk1_from_cauchy_stmt3.
Proof. exact pk1_from_cauchy_ok3. Qed.
Print Assumptions C06_pk1_from_cauchy_3D.

(* C06 -- proofs: `jac` (C06Tactics.v) = one auto_derive + field per entry of the Jacobian; nothing depends on the
   shape of the traced terms. *)
From Coq Require Import Reals List.
From Coquelicot Require Import Coquelicot.
From VLib Require Import RealExtra.
From Coq Require Import Lra.
From C06 Require Import C06Spec C06_gen C06Tactics C06Statements.
Import ListNotations.
Local Open Scope R_scope.

Lemma kirchhoff_from_cauchy_ok1 : kirchhoff_from_cauchy_stmt1.
Proof. unfold kirchhoff_from_cauchy_stmt1. jac ltac:(unfold f_kirchhoff_from_cauchy1_l, f_kirchhoff_from_cauchy1, D_kirchhoff_from_cauchy1_l, D_kirchhoff_from_cauchy1) ltac:(idtac). Qed.
Lemma kirchhoff_from_cauchy_ok2 : kirchhoff_from_cauchy_stmt2.
Proof. unfold kirchhoff_from_cauchy_stmt2. jac ltac:(unfold f_kirchhoff_from_cauchy2_l, f_kirchhoff_from_cauchy2, D_kirchhoff_from_cauchy2_l, D_kirchhoff_from_cauchy2) ltac:(idtac). Qed.
Lemma kirchhoff_from_cauchy_ok3 : kirchhoff_from_cauchy_stmt3.
Proof. unfold kirchhoff_from_cauchy_stmt3. jac ltac:(unfold f_kirchhoff_from_cauchy3_l, f_kirchhoff_from_cauchy3, D_kirchhoff_from_cauchy3_l, D_kirchhoff_from_cauchy3) ltac:(idtac). Qed.
Lemma cauchy_from_kirchhoff_ok1 : cauchy_from_kirchhoff_stmt1.
Proof. unfold cauchy_from_kirchhoff_stmt1. jac ltac:(unfold f_cauchy_from_kirchhoff1_l, f_cauchy_from_kirchhoff1, D_cauchy_from_kirchhoff1_l, D_cauchy_from_kirchhoff1) ltac:(unfold f_tensor_det1). Qed.
Lemma cauchy_from_kirchhoff_ok2 : cauchy_from_kirchhoff_stmt2.
Proof. unfold cauchy_from_kirchhoff_stmt2. jac ltac:(unfold f_cauchy_from_kirchhoff2_l, f_cauchy_from_kirchhoff2, D_cauchy_from_kirchhoff2_l, D_cauchy_from_kirchhoff2) ltac:(unfold f_tensor_det2). Qed.
Lemma cauchy_from_kirchhoff_ok3 : cauchy_from_kirchhoff_stmt3.
Proof. unfold cauchy_from_kirchhoff_stmt3. jac ltac:(unfold f_cauchy_from_kirchhoff3_l, f_cauchy_from_kirchhoff3, D_cauchy_from_kirchhoff3_l, D_cauchy_from_kirchhoff3) ltac:(unfold f_tensor_det3). Qed.

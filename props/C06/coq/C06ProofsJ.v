(* C06 -- proofs: `jac` (C06Tactics.v) = one auto_derive + field per entry of the Jacobian; nothing depends on the
   shape of the traced terms. *)
From Coq Require Import Reals List.
From Coquelicot Require Import Coquelicot.
From VLib Require Import RealExtra.
From Coq Require Import Lra.
From C06 Require Import C06Spec C06_gen C06Tactics C06Statements.
Import ListNotations.
Local Open Scope R_scope.

Lemma pk1_from_cauchy_ok1 : pk1_from_cauchy_stmt1.
Proof. unfold pk1_from_cauchy_stmt1. jac_t 600 ltac:(lazy beta iota zeta delta [upd nthR List.firstn List.skipn List.app List.nth Nat.mul Nat.add f_pk1_from_cauchy1_l f_pk1_from_cauchy1 D_pk1_from_cauchy1_l D_pk1_from_cauchy1]) ltac:(idtac). Qed.
Lemma pk1_from_cauchy_ok2 : pk1_from_cauchy_stmt2.
Proof. unfold pk1_from_cauchy_stmt2. jac_t 600 ltac:(lazy beta iota zeta delta [upd nthR List.firstn List.skipn List.app List.nth Nat.mul Nat.add f_pk1_from_cauchy2_l f_pk1_from_cauchy2 D_pk1_from_cauchy2_l D_pk1_from_cauchy2]) ltac:(idtac). Qed.
Lemma pk1_from_pk2_ok1 : pk1_from_pk2_stmt1.
Proof. unfold pk1_from_pk2_stmt1. jac_t 600 ltac:(lazy beta iota zeta delta [upd nthR List.firstn List.skipn List.app List.nth Nat.mul Nat.add f_pk1_from_pk21_l f_pk1_from_pk21 D_pk1_from_pk21_l D_pk1_from_pk21]) ltac:(unfold f_tensor_det1). Qed.
Lemma pk1_from_pk2_ok2 : pk1_from_pk2_stmt2.
Proof. unfold pk1_from_pk2_stmt2. jac_t 600 ltac:(lazy beta iota zeta delta [upd nthR List.firstn List.skipn List.app List.nth Nat.mul Nat.add f_pk1_from_pk22_l f_pk1_from_pk22 D_pk1_from_pk22_l D_pk1_from_pk22]) ltac:(unfold f_tensor_det2). Qed.
Lemma tau_from_pk1_ok1 : tau_from_pk1_stmt1.
Proof. unfold tau_from_pk1_stmt1. jac_t 600 ltac:(lazy beta iota zeta delta [upd nthR List.firstn List.skipn List.app List.nth Nat.mul Nat.add f_tau_from_pk11_l f_tau_from_pk11 D_tau_from_pk11_l D_tau_from_pk11]) ltac:(unfold f_tensor_det1). Qed.
Lemma tau_from_pk1_ok2 : tau_from_pk1_stmt2.
Proof. unfold tau_from_pk1_stmt2. jac_t 600 ltac:(lazy beta iota zeta delta [upd nthR List.firstn List.skipn List.app List.nth Nat.mul Nat.add f_tau_from_pk12_l f_tau_from_pk12 D_tau_from_pk12_l D_tau_from_pk12]) ltac:(unfold f_tensor_det2). Qed.

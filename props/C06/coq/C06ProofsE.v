(* C06 -- proofs: `jac` (C06Tactics.v) = one auto_derive + field per entry of the Jacobian; nothing depends on the
   shape of the traced terms. *)
From Coq Require Import Reals List.
From Coquelicot Require Import Coquelicot.
From VLib Require Import RealExtra.
From Coq Require Import Lra.
From C06 Require Import C06Spec C06_gen C06Tactics C06Statements.
Import ListNotations.
Local Open Scope R_scope.

Lemma spin_rate_ok1 : spin_rate_stmt1.
Proof. unfold spin_rate_stmt1. jac ltac:(unfold f_spin_rate1_l, f_spin_rate1, D_spin_rate1_l, D_spin_rate1) ltac:(unfold f_tensor_det1). Qed.
Lemma spin_rate_ok2 : spin_rate_stmt2.
Proof. unfold spin_rate_stmt2. jac ltac:(unfold f_spin_rate2_l, f_spin_rate2, D_spin_rate2_l, D_spin_rate2) ltac:(unfold f_tensor_det2). Qed.
Lemma spin_rate_ok3 : spin_rate_stmt3.
Proof. unfold spin_rate_stmt3. jac ltac:(unfold f_spin_rate3_l, f_spin_rate3, D_spin_rate3_l, D_spin_rate3) ltac:(unfold f_tensor_det3). Qed.

(* C06 -- property theorems (statements: C06Statements.v / C06Spec.v; proofs: C06ProofsT2.v) *)
From Coq Require Import Reals List.
From Coquelicot Require Import Coquelicot.
From VLib Require Import RealExtra.
From C06 Require Import C06Spec C06_gen C06Statements C06ProofsT2.
Import ListNotations.
Local Open Scope R_scope.


(* t2tot2::tprd(W, C) is the Jacobian of x |-> W*V(x), V(x) = V0 + C.x -- 3D *)
Theorem C06_tprd_chain_3D : tprd_chain_stmt3.
Proof. exact tprd_chain_ok3. Qed.
Print Assumptions C06_tprd_chain_3D.

(* computePushForwardDerivative(dS/dF, S(F), F) is the Jacobian of F |-> F.S(F).F^T, S(F) = S0 + X.F -- 3D *)
Theorem C06_push_forward_chain_3D : push_forward_chain_stmt3.
Proof. exact push_forward_chain_ok3. Qed.
Print Assumptions C06_push_forward_chain_3D.

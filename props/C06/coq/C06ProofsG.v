(* C06 -- proofs: `jac` (C06Tactics.v) = one auto_derive + field per entry of the Jacobian; nothing depends on the
   shape of the traced terms. *)
From Coq Require Import Reals List.
From Coquelicot Require Import Coquelicot.
From VLib Require Import RealExtra.
From Coq Require Import Lra.
From C06 Require Import C06Spec C06_gen C06Tactics C06Statements.
Import ListNotations.
Local Open Scope R_scope.

Lemma st2tot2_tpld_chain_ok1 : st2tot2_tpld_chain_stmt1.
Proof. unfold st2tot2_tpld_chain_stmt1. jac_t 600 ltac:(lazy beta iota zeta delta [upd nthR List.firstn List.skipn List.app List.nth Nat.mul Nat.add f_st2tot2_tpld_chain1_l f_st2tot2_tpld_chain1 D_st2tot2_tpld_chain1_l D_st2tot2_tpld_chain1]) ltac:(idtac). Qed.
Lemma st2tot2_tpld_chain_ok2 : st2tot2_tpld_chain_stmt2.
Proof. unfold st2tot2_tpld_chain_stmt2. jac_t 600 ltac:(lazy beta iota zeta delta [upd nthR List.firstn List.skipn List.app List.nth Nat.mul Nat.add f_st2tot2_tpld_chain2_l f_st2tot2_tpld_chain2 D_st2tot2_tpld_chain2_l D_st2tot2_tpld_chain2]) ltac:(idtac). Qed.
Lemma st2tot2_tpld_chain_ok3 : st2tot2_tpld_chain_stmt3.
Proof. unfold st2tot2_tpld_chain_stmt3. jac_t 3000 ltac:(lazy beta iota zeta delta [upd nthR List.firstn List.skipn List.app List.nth Nat.mul Nat.add f_st2tot2_tpld_chain3_l f_st2tot2_tpld_chain3 D_st2tot2_tpld_chain3_l D_st2tot2_tpld_chain3]) ltac:(idtac). Qed.

(* C06 -- proofs: `jac` (C06Tactics.v) = one auto_derive + field per entry of the Jacobian; nothing depends on the
   shape of the traced terms. *)
From Coq Require Import Reals List.
From Coquelicot Require Import Coquelicot.
From VLib Require Import RealExtra.
From Coq Require Import Lra.
From C06 Require Import C06Spec C06_gen C06Tactics C06Statements.
Import ListNotations.
Local Open Scope R_scope.

Lemma velocity_gradient_ok1 : velocity_gradient_stmt1.
Proof. unfold velocity_gradient_stmt1. jac ltac:(unfold f_velocity_gradient1_l, f_velocity_gradient1, D_velocity_gradient1_l, D_velocity_gradient1) ltac:(unfold f_tensor_det1). Qed.
Lemma velocity_gradient_ok2 : velocity_gradient_stmt2.
Proof. unfold velocity_gradient_stmt2. jac ltac:(unfold f_velocity_gradient2_l, f_velocity_gradient2, D_velocity_gradient2_l, D_velocity_gradient2) ltac:(unfold f_tensor_det2). Qed.
Lemma velocity_gradient_ok3 : velocity_gradient_stmt3.
Proof. unfold velocity_gradient_stmt3. jac ltac:(unfold f_velocity_gradient3_l, f_velocity_gradient3, D_velocity_gradient3_l, D_velocity_gradient3) ltac:(unfold f_tensor_det3). Qed.

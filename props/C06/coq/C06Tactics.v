(* C06 -- tactics, independent of the shape of the traced terms *)
From Coq Require Import Reals List Lra Nsatz.
From Coquelicot Require Import Coquelicot.
From VLib Require Import RealExtra.
From C06 Require Import C06Spec.
Import ListNotations.
Local Open Scope R_scope.

(* from E : e = 0 (e polynomial in the variables and sqrt 2) conclude that a rational expression vanishes *)
Ltac vanish E :=
  field_simplify_eq; [ | try exact sqrt2_neq0 .. ];
  revert E; generalize sqrt2_sq; generalize (sqrt 2);
  let q := fresh "q" in let Hq := fresh "Hq" in intros q Hq E; cbv [Rpow_def.pow] in *; timeout 120 nsatz.
(* a denominator is non zero: sqrt 2, a numeral, or something that vanishes only if the hypothesis
   H : nthR (traced determinant) 0 <> 0 is violated; unfH unfolds that traced determinant *)
Ltac nz1 unfH :=
  first [ exact sqrt2_neq0 | assumption | lra
        | match goal with H : _ <> 0 |- _ <> 0 =>
            (let E := fresh "E" in intro E; apply H; unfH; cbv [nthR List.nth]; vanish E) end ].
Ltac nz unfH := repeat (match goal with |- _ /\ _ => split | |- True => exact I end); nz1 unfH.
(* one entry of the Jacobian *)
Ltac one unfH :=
  cbv [upd nthR List.firstn List.skipn List.app List.nth Nat.mul Nat.add];
  timeout 200 (auto_derive; [ nz unfH | timeout 200 (field_simplify_eq; [ ring [sqrt2_sq] | nz unfH .. ]) ]).
Ltac jac unfold_all unfH :=
  intros; cbv [is_jacobian all_upto];
  repeat (match goal with |- _ /\ _ => split | |- True => exact I end);
  unfold_all; one unfH.

(* the same for the large instances (N = 3 with a symbolic fourth-order parameter): `timeout` bounds all the entries of one
   lemma together, so the budget is a parameter; the definitions are unfolded lazily (only the entry looked at is expanded) *)
Tactic Notation "jac_t" integer(T) tactic3(lazy_unfold) tactic3(unfH) :=
  intros; cbv [is_jacobian all_upto];
  repeat (match goal with |- _ /\ _ => split | |- True => exact I end);
  lazy_unfold;
  timeout T (auto_derive; [ nz unfH | (field_simplify_eq; [ ring [sqrt2_sq] | nz unfH .. ]) ]).

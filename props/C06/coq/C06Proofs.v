(* C06 -- proofs: `jac` (C06Tactics.v) = one auto_derive + field per entry of the Jacobian; nothing depends on the
   shape of the traced terms. *)
From Coq Require Import Reals List.
From Coquelicot Require Import Coquelicot.
From VLib Require Import RealExtra.
From Coq Require Import Lra.
From C06 Require Import C06Spec C06_gen C06Tactics C06Statements.
Import ListNotations.
Local Open Scope R_scope.

Lemma stensor_det_ok1 : stensor_det_stmt1.
Proof. unfold stensor_det_stmt1. jac ltac:(unfold f_stensor_det1_l, f_stensor_det1, D_stensor_det1_l, D_stensor_det1) ltac:(idtac). Qed.
Lemma stensor_det_ok2 : stensor_det_stmt2.
Proof. unfold stensor_det_stmt2. jac ltac:(unfold f_stensor_det2_l, f_stensor_det2, D_stensor_det2_l, D_stensor_det2) ltac:(idtac). Qed.
Lemma stensor_det_ok3 : stensor_det_stmt3.
Proof. unfold stensor_det_stmt3. jac ltac:(unfold f_stensor_det3_l, f_stensor_det3, D_stensor_det3_l, D_stensor_det3) ltac:(idtac). Qed.
Lemma stensor_det2_ok1 : stensor_det2_stmt1.
Proof. unfold stensor_det2_stmt1. jac ltac:(unfold f_stensor_det21_l, f_stensor_det21, D_stensor_det21_l, D_stensor_det21) ltac:(idtac). Qed.
Lemma stensor_det2_ok2 : stensor_det2_stmt2.
Proof. unfold stensor_det2_stmt2. jac ltac:(unfold f_stensor_det22_l, f_stensor_det22, D_stensor_det22_l, D_stensor_det22) ltac:(idtac). Qed.
Lemma stensor_det2_ok3 : stensor_det2_stmt3.
Proof. unfold stensor_det2_stmt3. jac ltac:(unfold f_stensor_det23_l, f_stensor_det23, D_stensor_det23_l, D_stensor_det23) ltac:(idtac). Qed.
Lemma stensor_devdet_ok1 : stensor_devdet_stmt1.
Proof. unfold stensor_devdet_stmt1. jac ltac:(unfold f_stensor_devdet1_l, f_stensor_devdet1, D_stensor_devdet1_l, D_stensor_devdet1) ltac:(idtac). Qed.
Lemma stensor_devdet_ok2 : stensor_devdet_stmt2.
Proof. unfold stensor_devdet_stmt2. jac ltac:(unfold f_stensor_devdet2_l, f_stensor_devdet2, D_stensor_devdet2_l, D_stensor_devdet2) ltac:(idtac). Qed.
Lemma stensor_devdet_ok3 : stensor_devdet_stmt3.
Proof. unfold stensor_devdet_stmt3. jac ltac:(unfold f_stensor_devdet3_l, f_stensor_devdet3, D_stensor_devdet3_l, D_stensor_devdet3) ltac:(idtac). Qed.
Lemma stensor_devdet2_ok1 : stensor_devdet2_stmt1.
Proof. unfold stensor_devdet2_stmt1. jac ltac:(unfold f_stensor_devdet21_l, f_stensor_devdet21, D_stensor_devdet21_l, D_stensor_devdet21) ltac:(idtac). Qed.
Lemma stensor_devdet2_ok2 : stensor_devdet2_stmt2.
Proof. unfold stensor_devdet2_stmt2. jac ltac:(unfold f_stensor_devdet22_l, f_stensor_devdet22, D_stensor_devdet22_l, D_stensor_devdet22) ltac:(idtac). Qed.
Lemma stensor_devdet2_ok3 : stensor_devdet2_stmt3.
Proof. unfold stensor_devdet2_stmt3. jac ltac:(unfold f_stensor_devdet23_l, f_stensor_devdet23, D_stensor_devdet23_l, D_stensor_devdet23) ltac:(idtac). Qed.
Lemma J3_ok1 : J3_stmt1.
Proof. unfold J3_stmt1. jac ltac:(unfold f_J31_l, f_J31, D_J31_l, D_J31) ltac:(idtac). Qed.
Lemma J3_ok2 : J3_stmt2.
Proof. unfold J3_stmt2. jac ltac:(unfold f_J32_l, f_J32, D_J32_l, D_J32) ltac:(idtac). Qed.
Lemma J3_ok3 : J3_stmt3.
Proof. unfold J3_stmt3. jac ltac:(unfold f_J33_l, f_J33, D_J33_l, D_J33) ltac:(idtac). Qed.
Lemma J3_2_ok1 : J3_2_stmt1.
Proof. unfold J3_2_stmt1. jac ltac:(unfold f_J3_21_l, f_J3_21, D_J3_21_l, D_J3_21) ltac:(idtac). Qed.
Lemma J3_2_ok2 : J3_2_stmt2.
Proof. unfold J3_2_stmt2. jac ltac:(unfold f_J3_22_l, f_J3_22, D_J3_22_l, D_J3_22) ltac:(idtac). Qed.
Lemma J3_2_ok3 : J3_2_stmt3.
Proof. unfold J3_2_stmt3. jac ltac:(unfold f_J3_23_l, f_J3_23, D_J3_23_l, D_J3_23) ltac:(idtac). Qed.
Lemma dsquare_ok1 : dsquare_stmt1.
Proof. unfold dsquare_stmt1. jac ltac:(unfold f_dsquare1_l, f_dsquare1, D_dsquare1_l, D_dsquare1) ltac:(idtac). Qed.
Lemma dsquare_ok2 : dsquare_stmt2.
Proof. unfold dsquare_stmt2. jac ltac:(unfold f_dsquare2_l, f_dsquare2, D_dsquare2_l, D_dsquare2) ltac:(idtac). Qed.
Lemma dsquare_ok3 : dsquare_stmt3.
Proof. unfold dsquare_stmt3. jac ltac:(unfold f_dsquare3_l, f_dsquare3, D_dsquare3_l, D_dsquare3) ltac:(idtac). Qed.
Lemma stpd_ok1 : stpd_stmt1.
Proof. unfold stpd_stmt1. jac ltac:(unfold f_stpd1_l, f_stpd1, D_stpd1_l, D_stpd1) ltac:(idtac). Qed.
Lemma stpd_ok2 : stpd_stmt2.
Proof. unfold stpd_stmt2. jac ltac:(unfold f_stpd2_l, f_stpd2, D_stpd2_l, D_stpd2) ltac:(idtac). Qed.
Lemma stpd_ok3 : stpd_stmt3.
Proof. unfold stpd_stmt3. jac ltac:(unfold f_stpd3_l, f_stpd3, D_stpd3_l, D_stpd3) ltac:(idtac). Qed.
Lemma daba_da_ok1 : daba_da_stmt1.
Proof. unfold daba_da_stmt1. jac ltac:(unfold f_daba_da1_l, f_daba_da1, D_daba_da1_l, D_daba_da1) ltac:(idtac). Qed.
Lemma daba_da_ok2 : daba_da_stmt2.
Proof. unfold daba_da_stmt2. jac ltac:(unfold f_daba_da2_l, f_daba_da2, D_daba_da2_l, D_daba_da2) ltac:(idtac). Qed.
Lemma daba_da_ok3 : daba_da_stmt3.
Proof. unfold daba_da_stmt3. jac ltac:(unfold f_daba_da3_l, f_daba_da3, D_daba_da3_l, D_daba_da3) ltac:(idtac). Qed.
Lemma daba_db_ok1 : daba_db_stmt1.
Proof. unfold daba_db_stmt1. jac ltac:(unfold f_daba_db1_l, f_daba_db1, D_daba_db1_l, D_daba_db1) ltac:(idtac). Qed.
Lemma daba_db_ok2 : daba_db_stmt2.
Proof. unfold daba_db_stmt2. jac ltac:(unfold f_daba_db2_l, f_daba_db2, D_daba_db2_l, D_daba_db2) ltac:(idtac). Qed.
Lemma daba_db_ok3 : daba_db_stmt3.
Proof. unfold daba_db_stmt3. jac ltac:(unfold f_daba_db3_l, f_daba_db3, D_daba_db3_l, D_daba_db3) ltac:(idtac). Qed.
Lemma st2tot2_tpld_ok1 : st2tot2_tpld_stmt1.
Proof. unfold st2tot2_tpld_stmt1. jac ltac:(unfold f_st2tot2_tpld1_l, f_st2tot2_tpld1, D_st2tot2_tpld1_l, D_st2tot2_tpld1) ltac:(idtac). Qed.
Lemma st2tot2_tpld_ok2 : st2tot2_tpld_stmt2.
Proof. unfold st2tot2_tpld_stmt2. jac ltac:(unfold f_st2tot2_tpld2_l, f_st2tot2_tpld2, D_st2tot2_tpld2_l, D_st2tot2_tpld2) ltac:(idtac). Qed.
Lemma st2tot2_tpld_ok3 : st2tot2_tpld_stmt3.
Proof. unfold st2tot2_tpld_stmt3. jac ltac:(unfold f_st2tot2_tpld3_l, f_st2tot2_tpld3, D_st2tot2_tpld3_l, D_st2tot2_tpld3) ltac:(idtac). Qed.
Lemma st2tot2_tprd_ok1 : st2tot2_tprd_stmt1.
Proof. unfold st2tot2_tprd_stmt1. jac ltac:(unfold f_st2tot2_tprd1_l, f_st2tot2_tprd1, D_st2tot2_tprd1_l, D_st2tot2_tprd1) ltac:(idtac). Qed.
Lemma st2tot2_tprd_ok2 : st2tot2_tprd_stmt2.
Proof. unfold st2tot2_tprd_stmt2. jac ltac:(unfold f_st2tot2_tprd2_l, f_st2tot2_tprd2, D_st2tot2_tprd2_l, D_st2tot2_tprd2) ltac:(idtac). Qed.
Lemma st2tot2_tprd_ok3 : st2tot2_tprd_stmt3.
Proof. unfold st2tot2_tprd_stmt3. jac ltac:(unfold f_st2tot2_tprd3_l, f_st2tot2_tprd3, D_st2tot2_tprd3_l, D_st2tot2_tprd3) ltac:(idtac). Qed.

(* C06 -- proofs: `jac` (C06Tactics.v) = one auto_derive + field per entry of the Jacobian; nothing depends on the
   shape of the traced terms. *)
From Coq Require Import Reals List.
From Coquelicot Require Import Coquelicot.
From VLib Require Import RealExtra.
From Coq Require Import Lra.
From C06 Require Import C06Spec C06_gen C06Tactics C06Statements.
Import ListNotations.
Local Open Scope R_scope.

Lemma dsquare_chain_ok3 : dsquare_chain_stmt3.
Proof. unfold dsquare_chain_stmt3. jac_t 3000 ltac:(lazy beta iota zeta delta [upd nthR List.firstn List.skipn List.app List.nth Nat.mul Nat.add f_dsquare_chain3_l f_dsquare_chain3 D_dsquare_chain3_l D_dsquare_chain3]) ltac:(idtac). Qed.
Lemma tpld_chain_ok3 : tpld_chain_stmt3.
Proof. unfold tpld_chain_stmt3. jac_t 3000 ltac:(lazy beta iota zeta delta [upd nthR List.firstn List.skipn List.app List.nth Nat.mul Nat.add f_tpld_chain3_l f_tpld_chain3 D_tpld_chain3_l D_tpld_chain3]) ltac:(idtac). Qed.

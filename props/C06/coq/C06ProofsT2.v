(* C06 -- proofs: `jac` (C06Tactics.v) = one auto_derive + field per entry of the Jacobian; nothing depends on the
   shape of the traced terms. *)
From Coq Require Import Reals List.
From Coquelicot Require Import Coquelicot.
From VLib Require Import RealExtra.
From Coq Require Import Lra.
From C06 Require Import C06Spec C06_gen C06Tactics C06Statements.
Import ListNotations.
Local Open Scope R_scope.

Lemma tprd_chain_ok3 : tprd_chain_stmt3.
Proof. unfold tprd_chain_stmt3. jac_t 3000 ltac:(lazy beta iota zeta delta [upd nthR List.firstn List.skipn List.app List.nth Nat.mul Nat.add f_tprd_chain3_l f_tprd_chain3 D_tprd_chain3_l D_tprd_chain3]) ltac:(idtac). Qed.
Lemma push_forward_chain_ok3 : push_forward_chain_stmt3.
Proof. unfold push_forward_chain_stmt3. jac_t 3000 ltac:(lazy beta iota zeta delta [upd nthR List.firstn List.skipn List.app List.nth Nat.mul Nat.add f_push_forward_chain3_l f_push_forward_chain3 D_push_forward_chain3_l D_push_forward_chain3]) ltac:(idtac). Qed.

(* C06 -- property theorems (statements: C06Statements.v / C06Spec.v; proofs: C06ProofsB.v) *)
From Coq Require Import Reals List.
From Coquelicot Require Import Coquelicot.
From VLib Require Import RealExtra.
From C06 Require Import C06Spec C06_gen C06Statements C06ProofsB.
Import ListNotations.
Local Open Scope R_scope.


(* computeDeterminantDerivative(tensor) is the gradient of det(F) *)
Theorem C06_tensor_det : tensor_det_stmt1 /\ tensor_det_stmt2 /\ tensor_det_stmt3.
Proof. exact (conj tensor_det_ok1 (conj tensor_det_ok2 tensor_det_ok3)). Qed.
Print Assumptions C06_tensor_det.

(* t2tost2::dCdF(F) is the Jacobian of the right Cauchy-Green tensor F^T.F *)
Theorem C06_dCdF : dCdF_stmt1 /\ dCdF_stmt2 /\ dCdF_stmt3.
Proof. exact (conj dCdF_ok1 (conj dCdF_ok2 dCdF_ok3)). Qed.
Print Assumptions C06_dCdF.

(* t2tost2::dBdF(F) is the Jacobian of the left Cauchy-Green tensor F.F^T *)
Theorem C06_dBdF : dBdF_stmt1 /\ dBdF_stmt2 /\ dBdF_stmt3.
Proof. exact (conj dBdF_ok1 (conj dBdF_ok2 dBdF_ok3)). Qed.
Print Assumptions C06_dBdF.

(* t2tot2::tpld(q) is the Jacobian of p |-> p*q *)
Theorem C06_tpld : tpld_stmt1 /\ tpld_stmt2 /\ tpld_stmt3.
Proof. exact (conj tpld_ok1 (conj tpld_ok2 tpld_ok3)). Qed.
Print Assumptions C06_tpld.

(* t2tot2::tprd(q) is the Jacobian of p |-> q*p *)
Theorem C06_tprd : tprd_stmt1 /\ tprd_stmt2 /\ tprd_stmt3.
Proof. exact (conj tprd_ok1 (conj tprd_ok2 tprd_ok3)). Qed.
Print Assumptions C06_tprd.

(* t2tot2::transpose_derivative() is the Jacobian of transpose *)
Theorem C06_transpose_derivative : transpose_derivative_stmt1 /\ transpose_derivative_stmt2 /\ transpose_derivative_stmt3.
Proof. exact (conj transpose_derivative_ok1 (conj transpose_derivative_ok2 transpose_derivative_ok3)). Qed.
Print Assumptions C06_transpose_derivative.

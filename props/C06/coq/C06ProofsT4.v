(* C06 -- proofs: `jac` (C06Tactics.v) = one auto_derive + field per entry of the Jacobian; nothing depends on the
   shape of the traced terms. *)
From Coq Require Import Reals List.
From Coquelicot Require Import Coquelicot.
From VLib Require Import RealExtra.
From Coq Require Import Lra.
From C06 Require Import C06Spec C06_gen C06Tactics C06Statements.
Import ListNotations.
Local Open Scope R_scope.

Lemma kirchhoff_from_cauchy_ok3 : kirchhoff_from_cauchy_stmt3.
Proof. unfold kirchhoff_from_cauchy_stmt3. jac_t 3000 ltac:(lazy beta iota zeta delta [upd nthR List.firstn List.skipn List.app List.nth Nat.mul Nat.add f_kirchhoff_from_cauchy3_l f_kirchhoff_from_cauchy3 D_kirchhoff_from_cauchy3_l D_kirchhoff_from_cauchy3]) ltac:(idtac). Qed.

(* C06 -- used only while the finding on st2tot2<3>::tpld(b, C) is present in /repo (check.py selects this file when the real
   code fails the finite-difference test; otherwise C06ProofsG.v, the positive theorem, is used).
   include/TFEL/Math/ST2toT2/StensorProductLeftDerivativeExpr.hxx, 3D, two-argument constructor: entry (3,0) of the result is
   (C(4,0) b(5) + C(0,0) b(3) + C(3,0) b(1)) / sqrt 2; the derivative of (a(x).b)_01 with respect to x_0 is
   C(4,0) b(5) / 2 + (C(0,0) b(3) + C(3,0) b(1)) / sqrt 2 (the other five entries of that row are right).
   Witness: b = (0,0,0,0,0,2), C(4,0) = 1, everything else 0: the code claims sqrt 2, the derivative is 1. *)
From Coq Require Import Reals List Lra Lia.
From Coquelicot Require Import Coquelicot.
From VLib Require Import RealExtra.
From C06 Require Import C06Spec C06_gen C06Tactics C06Statements.
Import ListNotations.
Local Open Scope R_scope.

Lemma st2tot2_tpld_chain_ok1 : st2tot2_tpld_chain_stmt1.
Proof. unfold st2tot2_tpld_chain_stmt1. jac_t 600 ltac:(lazy beta iota zeta delta [upd nthR List.firstn List.skipn List.app List.nth Nat.mul Nat.add f_st2tot2_tpld_chain1_l f_st2tot2_tpld_chain1 D_st2tot2_tpld_chain1_l D_st2tot2_tpld_chain1]) ltac:(idtac). Qed.
Lemma st2tot2_tpld_chain_ok2 : st2tot2_tpld_chain_stmt2.
Proof. unfold st2tot2_tpld_chain_stmt2. jac_t 600 ltac:(lazy beta iota zeta delta [upd nthR List.firstn List.skipn List.app List.nth Nat.mul Nat.add f_st2tot2_tpld_chain2_l f_st2tot2_tpld_chain2 D_st2tot2_tpld_chain2_l D_st2tot2_tpld_chain2]) ltac:(idtac). Qed.

Lemma st2tot2_tpld_chain_refuted3 :
  exists p0 p1 p2 p3 p4 p5 q0 q1 q2 q3 q4 q5 q6 q7 q8 q9 q10 q11 q12 q13 q14 q15 q16 q17 q18 q19 q20 q21 q22 q23 q24 q25 q26 q27 q28 q29 q30 q31 q32 q33 q34 q35 q36 q37 q38 q39 q40 q41 q42 q43 q44 q45 q46 q47 : R,
    ~ is_jacobian 6 9 (fun p => f_st2tot2_tpld_chain3_l p [q0; q1; q2; q3; q4; q5; q6; q7; q8; q9; q10; q11; q12; q13; q14; q15; q16; q17; q18; q19; q20; q21; q22; q23; q24; q25; q26; q27; q28; q29; q30; q31; q32; q33; q34; q35; q36; q37; q38; q39; q40; q41; q42; q43; q44; q45; q46; q47]) (fun p => D_st2tot2_tpld_chain3_l p [q0; q1; q2; q3; q4; q5; q6; q7; q8; q9; q10; q11; q12; q13; q14; q15; q16; q17; q18; q19; q20; q21; q22; q23; q24; q25; q26; q27; q28; q29; q30; q31; q32; q33; q34; q35; q36; q37; q38; q39; q40; q41; q42; q43; q44; q45; q46; q47]) [p0; p1; p2; p3; p4; p5].
Proof.
  exists 0, 0, 0, 0, 0, 0, 0, 0, 0, 0, 0, 0, 0, 0, 0, 0, 0, 2, 0, 0, 0, 0, 0, 0, 0, 0, 0, 0, 0, 0, 0, 0, 0, 0, 0, 0, 0, 0, 0, 0, 0, 0, 1, 0, 0, 0, 0, 0, 0, 0, 0, 0, 0, 0. intro H.
  pose proof (proj1 (is_jacobian_spec _ _ _ _ _) H 3%nat 0%nat ltac:(lia) ltac:(lia)) as H30.
  unfold f_st2tot2_tpld_chain3_l, f_st2tot2_tpld_chain3, D_st2tot2_tpld_chain3_l, D_st2tot2_tpld_chain3 in H30.
  cbv [upd nthR List.firstn List.skipn List.app List.nth Nat.mul Nat.add] in H30.
  match type of H30 with
  | is_derive ?f ?x ?l =>
      (* the derivative of the function of /repo is 1 ... *)
      assert (G : is_derive f x 1) by (auto_derive; [ exact I | field_simplify_eq; [ ring [sqrt2_sq] | try exact sqrt2_neq0 .. ] ]);
      assert (E : l = 1) by (rewrite <- (is_derive_unique f x _ H30); apply is_derive_unique; exact G);
      (* ... the entry returned by the code squares to 2 *)
      assert (E2 : l * l = 2) by (field_simplify_eq; [ ring [sqrt2_sq] | try exact sqrt2_neq0 .. ]);
      rewrite E in E2; lra
  end.
Qed.

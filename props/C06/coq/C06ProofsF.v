(* C06 -- proofs: `jac` (C06Tactics.v) = one auto_derive + field per entry of the Jacobian; nothing depends on the
   shape of the traced terms. *)
From Coq Require Import Reals List.
From Coquelicot Require Import Coquelicot.
From VLib Require Import RealExtra.
From Coq Require Import Lra.
From C06 Require Import C06Spec C06_gen C06Tactics C06Statements.
Import ListNotations.
Local Open Scope R_scope.

Lemma tensor_det2_ok1 : tensor_det2_stmt1.
Proof. unfold tensor_det2_stmt1. jac ltac:(unfold f_tensor_det21_l, f_tensor_det21, D_tensor_det21_l, D_tensor_det21) ltac:(idtac). Qed.
Lemma tensor_det2_ok2 : tensor_det2_stmt2.
Proof. unfold tensor_det2_stmt2. jac ltac:(unfold f_tensor_det22_l, f_tensor_det22, D_tensor_det22_l, D_tensor_det22) ltac:(idtac). Qed.
Lemma tensor_det2_ok3 : tensor_det2_stmt3.
Proof. unfold tensor_det2_stmt3. jac ltac:(unfold f_tensor_det23_l, f_tensor_det23, D_tensor_det23_l, D_tensor_det23) ltac:(idtac). Qed.

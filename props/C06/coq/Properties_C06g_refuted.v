(* C06 -- property theorems about st2tot2::tpld(b, C) on a tree where the finding is present: the positive statement holds in 1D
   and 2D; in 3D it is refuted by a witness (entry (3,0)). *)
From Coq Require Import Reals List.
From Coquelicot Require Import Coquelicot.
From VLib Require Import RealExtra.
From C06 Require Import C06Spec C06_gen C06Statements C06RefutedG.
Import ListNotations.
Local Open Scope R_scope.

Theorem C06_st2tot2_tpld_chain_1D_2D : st2tot2_tpld_chain_stmt1 /\ st2tot2_tpld_chain_stmt2.
Proof. exact (conj st2tot2_tpld_chain_ok1 st2tot2_tpld_chain_ok2). Qed.
Print Assumptions C06_st2tot2_tpld_chain_1D_2D.

(* st2tot2<3>::tpld(b, C) is not the Jacobian of x |-> a(x)*b *)
Theorem C06_st2tot2_tpld_chain_refuted :
  exists p0 p1 p2 p3 p4 p5 q0 q1 q2 q3 q4 q5 q6 q7 q8 q9 q10 q11 q12 q13 q14 q15 q16 q17 q18 q19 q20 q21 q22 q23 q24 q25 q26 q27 q28 q29 q30 q31 q32 q33 q34 q35 q36 q37 q38 q39 q40 q41 q42 q43 q44 q45 q46 q47 : R,
    ~ is_jacobian 6 9 (fun p => f_st2tot2_tpld_chain3_l p [q0; q1; q2; q3; q4; q5; q6; q7; q8; q9; q10; q11; q12; q13; q14; q15; q16; q17; q18; q19; q20; q21; q22; q23; q24; q25; q26; q27; q28; q29; q30; q31; q32; q33; q34; q35; q36; q37; q38; q39; q40; q41; q42; q43; q44; q45; q46; q47]) (fun p => D_st2tot2_tpld_chain3_l p [q0; q1; q2; q3; q4; q5; q6; q7; q8; q9; q10; q11; q12; q13; q14; q15; q16; q17; q18; q19; q20; q21; q22; q23; q24; q25; q26; q27; q28; q29; q30; q31; q32; q33; q34; q35; q36; q37; q38; q39; q40; q41; q42; q43; q44; q45; q46; q47]) [p0; p1; p2; p3; p4; p5].
Proof. exact st2tot2_tpld_chain_refuted3. Qed.
Print Assumptions C06_st2tot2_tpld_chain_refuted.

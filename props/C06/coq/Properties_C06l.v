(* C06 -- property theorems (statements: C06Statements.v / C06Spec.v; proofs: C06ProofsL.v) *)
From Coq Require Import Reals List.
From Coquelicot Require Import Coquelicot.
From VLib Require Import RealExtra.
From C06 Require Import C06Spec C06_gen C06Statements C06ProofsL.
Import ListNotations.
Local Open Scope R_scope.


(* convertSecondPiolaKirchhoffStressDerivativeToFirstPiolaKirchoffStressDerivative(dS/dE, F, sigma(F)) is the Jacobian of F |-> P(F) = F.S(F), S(F) = S0 + X.E_GL(F), through the conversions of /repo (det F <> 0) *)
Theorem C06_pk1_from_pk2 : pk1_from_pk2_stmt1 /\ pk1_from_pk2_stmt2 /\ pk1_from_pk2_stmt3.
Proof. exact (conj pk1_from_pk2_ok1 (conj pk1_from_pk2_ok2 pk1_from_pk2_ok3)). Qed.
Print Assumptions C06_pk1_from_pk2.

(* C06 -- property theorems (statements: C06Statements.v / C06Spec.v; proofs: C06ProofsK.v) *)
From Coq Require Import Reals List.
From Coquelicot Require Import Coquelicot.
From VLib Require Import RealExtra.
From C06 Require Import C06Spec C06_gen C06Statements C06ProofsK.
Import ListNotations.
Local Open Scope R_scope.


(* convertCauchyStressDerivativeToFirstPiolaKirchoffStressDerivative(ds, F, s(F)) is the Jacobian of F |-> convertCauchyStressToFirstPiolaKirchhoffStress(s(F), F), s(F) = s0 + X.F *)
Theorem C06_pk1_from_cauchy : pk1_from_cauchy_stmt1 /\ pk1_from_cauchy_stmt2 /\ pk1_from_cauchy_stmt3.
Proof. exact (conj pk1_from_cauchy_ok1 (conj pk1_from_cauchy_ok2 pk1_from_cauchy_ok3)). Qed.
Print Assumptions C06_pk1_from_cauchy.

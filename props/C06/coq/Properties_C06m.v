(* C06 -- property theorems (statements: C06Statements.v / C06Spec.v; proofs: C06ProofsM.v) *)
From Coq Require Import Reals List.
From Coquelicot Require Import Coquelicot.
From VLib Require Import RealExtra.
From C06 Require Import C06Spec C06_gen C06Statements C06ProofsM.
Import ListNotations.
Local Open Scope R_scope.


(* convertFirstPiolaKirchoffStressDerivativeToKirchhoffStressDerivative(dP, F0, s0) is the Jacobian at F0 of F |-> det(F) convertFirstPiolaKirchhoffStressToCauchyStress(P(F), F), P(F) = P(s0, F0) + X.(F - F0) (det F0 <> 0) *)
Theorem C06_tau_from_pk1 : tau_from_pk1_stmt1 /\ tau_from_pk1_stmt2 /\ tau_from_pk1_stmt3.
Proof. exact (conj tau_from_pk1_ok1 (conj tau_from_pk1_ok2 tau_from_pk1_ok3)). Qed.
Print Assumptions C06_tau_from_pk1.

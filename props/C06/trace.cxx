// C06: tracer (engine S, straight-line) and driver for the closed-form derivative helpers of /repo.
// Every helper is a pair (f, D): a function of /repo and the function documented as its derivative.
//   trace gen <out.v> <seed> <ncases> : Coq definitions f_<name><N>, D_<name><N> (+ list-argument wrappers _l) and the
//                                       Sym-vs-double agreement (lines AGREE / AGREE-FAIL)
//   trace run <seed> <ncases>         : real double code: D(p) and f(p +- h e_j) for finite differences, one line per case
#include "symtfel.hxx"
#include "TFEL/Math/stensor.hxx"
#include "TFEL/Math/tensor.hxx"
#include "TFEL/Math/st2tost2.hxx"
#include "TFEL/Math/t2tost2.hxx"
#include "TFEL/Math/st2tot2.hxx"
#include "TFEL/Math/t2tot2.hxx"
#include "TFEL/Math/Stensor/SymmetricStensorProduct.hxx"
#include "TFEL/Math/ST2toST2/SymmetricStensorProductDerivative.hxx"
#include "TFEL/Math/T2toT2/ConvertToPK1Derivative.hxx"
#include "TFEL/Math/T2toT2/ConvertFromPK1Derivative.hxx"
#include "TFEL/Material/IsotropicPlasticity.hxx"
#include <cstring>
#include <iostream>

using namespace symv;
using namespace tfel::math;

// kind of the differentiation variable p: 's' symmetric tensor, 't' tensor.  The parameter q is a sequence of blocks:
// 's' symmetric tensor, 't' tensor, 'S' st2tost2 (ns x ns), 'M' t2tost2 (ns x nt), 'T' t2tot2 (nt x nt), 'W' st2tot2 (nt x ns),
// 'A' anchor = a copy of the point p0 at which the derivative is taken.
// The chain-rule / conversion helpers receive the derivative X of an inner function and its value at the point; the function
// differentiated is built with the affine inner function v(p) = v0 + X.p (value v(p), derivative X): every differentiable inner
// function has the same first-order behaviour, so by the chain rule the statement for the affine one is the statement for all.
struct HelperDesc {
  const char* name;
  char pk;
  const char* qk;
  bool needs_invertible_q;  // the helper divides by det(q) (q a single tensor)
  bool needs_invertible_p;  // the function divides by det(p)
};
static const HelperDesc helpers[] = {
    {"stensor_det", 's', "", false, false},
    {"stensor_det2", 's', "", false, false},
    {"stensor_devdet", 's', "", false, false},
    {"stensor_devdet2", 's', "", false, false},
    {"J3", 's', "", false, false},
    {"J3_2", 's', "", false, false},
    {"dsquare", 's', "", false, false},
    {"stpd", 's', "s", false, false},
    {"daba_da", 's', "s", false, false},
    {"daba_db", 's', "s", false, false},
    {"st2tot2_tpld", 's', "s", false, false},
    {"st2tot2_tprd", 's', "s", false, false},
    {"tensor_det", 't', "", false, false},
    {"tensor_det2", 't', "", false, false},
    {"dCdF", 't', "", false, false},
    {"dBdF", 't', "", false, false},
    {"tpld", 't', "t", false, false},
    {"tprd", 't', "t", false, false},
    {"transpose_derivative", 't', "", false, false},
    {"velocity_gradient", 't', "t", true, false},
    {"rate_of_deformation", 't', "t", true, false},
    {"spin_rate", 't', "t", true, false},
    // second round: chain-rule overloads, push-forwards, stress-derivative conversions
    {"dsquare_chain", 's', "sS", false, false},
    {"tpld_chain", 't', "ttT", false, false},
    {"tprd_chain", 't', "ttT", false, false},
    {"st2tot2_tpld_chain", 's', "ssS", false, false},
    {"st2tot2_tprd_chain", 's', "ssS", false, false},
    {"push_forward_dS", 's', "t", false, false},
    {"push_forward_dF", 't', "s", false, false},
    {"push_forward_chain", 't', "sM", false, false},
    {"kirchhoff_from_cauchy", 't', "sM", false, false},
    {"cauchy_from_kirchhoff", 't', "sM", false, true},
    {"pk1_from_cauchy", 't', "sM", false, false},
    {"pk1_from_pk2", 't', "sSA", false, true},
    {"tau_from_pk1", 't', "sTA", false, true},
};
static const int nhelpers = sizeof(helpers) / sizeof(helpers[0]);

static int ssize(int N) { return N == 1 ? 3 : (N == 2 ? 4 : 6); }
static int tsize(int N) { return N == 1 ? 3 : (N == 2 ? 5 : 9); }
static int ksize(char k, int N, char pk = '-') {
  const int ns = ssize(N), nt = tsize(N);
  switch (k) {
    case 's': return ns;
    case 't': return nt;
    case 'S': return ns * ns;
    case 'M': return ns * nt;
    case 'T': return nt * nt;
    case 'W': return nt * ns;
    case 'A': return pk == 's' ? ns : nt;
    default: return 0;
  }
}
static int qsize(const HelperDesc& H, int N) {
  int n = 0;
  for (const char* c = H.qk; *c; ++c) n += ksize(*c, N, H.pk);
  return n;
}

template <typename T, unsigned short N>
stensor<N, T> mkst(const std::vector<T>& a) {
  stensor<N, T> s;
  for (unsigned short i = 0; i < s.size(); ++i) s[i] = a[i];
  return s;
}
template <typename T, unsigned short N>
tensor<N, T> mkt(const std::vector<T>& a) {
  tensor<N, T> s;
  for (unsigned short i = 0; i < s.size(); ++i) s[i] = a[i];
  return s;
}
template <typename T, unsigned short N>
stensor<N, T> mkst(const std::vector<T>& a, size_t off) {
  stensor<N, T> s;
  for (unsigned short i = 0; i < s.size(); ++i) s[i] = a[off + i];
  return s;
}
template <typename T, unsigned short N>
tensor<N, T> mkt(const std::vector<T>& a, size_t off) {
  tensor<N, T> s;
  for (unsigned short i = 0; i < s.size(); ++i) s[i] = a[off + i];
  return s;
}
// fourth order object (rows x cols, row major in a starting at off)
template <typename M, typename T>
M mk4(const std::vector<T>& a, size_t off, int rows, int cols) {
  M m;
  for (unsigned short i = 0; i < rows; ++i)
    for (unsigned short j = 0; j < cols; ++j) m(i, j) = a[off + i * cols + j];
  return m;
}
// v0 + X.p: the affine inner function (derivative X everywhere)
template <typename V, typename M, typename P>
V affine(const V& v0, const M& X, const P& p) {
  V r = v0;
  for (unsigned short i = 0; i < r.size(); ++i)
    for (unsigned short j = 0; j < p.size(); ++j) r[i] = r[i] + X(i, j) * p[j];
  return r;
}
template <typename T, typename S>
void pushv(std::vector<T>& r, const S& s) {
  for (unsigned short i = 0; i < s.size(); ++i) r.push_back(s[i]);
}
template <typename T, typename S>
void pushm(std::vector<T>& r, const S& m, int rows, int cols) {
  for (unsigned short i = 0; i < rows; ++i)
    for (unsigned short j = 0; j < cols; ++j) r.push_back(m(i, j));
}

// f(p; q) and D(p; q) of the named helper; D is row major, rows = outputs of f, columns = components of p
template <typename T, unsigned short N>
void helper(const std::string& h, const std::vector<T>& p, const std::vector<T>& q, std::vector<T>& f, std::vector<T>& D,
            bool wantf = true, bool wantD = true) {
  const int ns = ssize(N), nt = tsize(N);
  f.clear();
  D.clear();
  if (h == "stensor_det") {
    const auto s = mkst<T, N>(p);
    if (wantf) f.push_back(det(s));
    if (wantD) pushv(D, computeDeterminantDerivative(s));
  } else if (h == "stensor_det2") {
    const auto s = mkst<T, N>(p);
    if (wantf) pushv(f, computeDeterminantDerivative(s));
    if (wantD) pushm(D, computeDeterminantSecondDerivative(s), ns, ns);
  } else if (h == "stensor_devdet") {
    const auto s = mkst<T, N>(p);
    if (wantf) {
      const stensor<N, T> d = deviator(s);
      f.push_back(det(d));
    }
    if (wantD) pushv(D, computeDeviatorDeterminantDerivative(s));
  } else if (h == "stensor_devdet2") {
    const auto s = mkst<T, N>(p);
    if (wantf) pushv(f, computeDeviatorDeterminantDerivative(s));
    if (wantD) pushm(D, computeDeviatorDeterminantSecondDerivative(s), ns, ns);
  } else if (h == "J3") {
    const auto s = mkst<T, N>(p);
    if (wantf) {
      const stensor<N, T> d = deviator(s);
      f.push_back(det(d));
    }
    if (wantD) pushv(D, tfel::material::computeJ3Derivative(s));
  } else if (h == "J3_2") {
    const auto s = mkst<T, N>(p);
    if (wantf) pushv(f, tfel::material::computeJ3Derivative(s));
    if (wantD) pushm(D, tfel::material::computeJ3SecondDerivative(s), ns, ns);
  } else if (h == "dsquare") {
    const auto s = mkst<T, N>(p);
    if (wantf) pushv(f, square(s));
    if (wantD) {
      const st2tost2<N, T> d = st2tost2<N, T>::dsquare(s);
      pushm(D, d, ns, ns);
    }
  } else if (h == "stpd") {  // d/dp (p.q + q.p)
    const auto s1 = mkst<T, N>(p);
    const auto s = mkst<T, N>(q);
    if (wantf) {
      const stensor<N, T> r = 2 * symmetric_product(s1, s);
      pushv(f, r);
    }
    if (wantD) {
      const st2tost2<N, T> d = st2tost2<N, T>::stpd(s);
      pushm(D, d, ns, ns);
    }
  } else if (h == "daba_da") {  // d/da (a.b.a), a = p, b = q
    const auto a = mkst<T, N>(p);
    const auto b = mkst<T, N>(q);
    if (wantf) pushv(f, symmetric_product_aba(a, b));
    if (wantD) {
      const st2tost2<N, T> d = symmetric_product_derivative_daba_da(a, b);
      pushm(D, d, ns, ns);
    }
  } else if (h == "daba_db") {  // d/db (a.b.a), b = p, a = q
    const auto b = mkst<T, N>(p);
    const auto a = mkst<T, N>(q);
    if (wantf) pushv(f, symmetric_product_aba(a, b));
    if (wantD) {
      const st2tost2<N, T> d = symmetric_product_derivative_daba_db(a);
      pushm(D, d, ns, ns);
    }
  } else if (h == "st2tot2_tpld") {  // d/dp (p*q) for symmetric p, q; the product is an unsymmetric tensor
    const auto a = mkst<T, N>(p);
    const auto b = mkst<T, N>(q);
    if (wantf) {
      const tensor<N, T> r = a * b;
      pushv(f, r);
    }
    if (wantD) {
      const st2tot2<N, T> d = st2tot2<N, T>::tpld(b);
      pushm(D, d, nt, ns);
    }
  } else if (h == "st2tot2_tprd") {  // d/dp (q*p)
    const auto b = mkst<T, N>(p);
    const auto a = mkst<T, N>(q);
    if (wantf) {
      const tensor<N, T> r = a * b;
      pushv(f, r);
    }
    if (wantD) {
      const st2tot2<N, T> d = st2tot2<N, T>::tprd(a);
      pushm(D, d, nt, ns);
    }
  } else if (h == "tensor_det") {
    const auto F = mkt<T, N>(p);
    if (wantf) f.push_back(det(F));
    if (wantD) pushv(D, computeDeterminantDerivative(F));
  } else if (h == "tensor_det2") {
    const auto F = mkt<T, N>(p);
    if (wantf) pushv(f, computeDeterminantDerivative(F));
    if (wantD) pushm(D, computeDeterminantSecondDerivative(F), nt, nt);
  } else if (h == "dCdF") {
    const auto F = mkt<T, N>(p);
    if (wantf) pushv(f, computeRightCauchyGreenTensor(F));
    if (wantD) {
      const t2tost2<N, T> d = t2tost2<N, T>::dCdF(F);
      pushm(D, d, ns, nt);
    }
  } else if (h == "dBdF") {
    const auto F = mkt<T, N>(p);
    if (wantf) pushv(f, computeLeftCauchyGreenTensor(F));
    if (wantD) {
      const t2tost2<N, T> d = t2tost2<N, T>::dBdF(F);
      pushm(D, d, ns, nt);
    }
  } else if (h == "tpld") {  // d/dp (p*q)
    const auto A = mkt<T, N>(p);
    const auto B = mkt<T, N>(q);
    if (wantf) {
      const tensor<N, T> r = A * B;
      pushv(f, r);
    }
    if (wantD) {
      const t2tot2<N, T> d = t2tot2<N, T>::tpld(B);
      pushm(D, d, nt, nt);
    }
  } else if (h == "tprd") {  // d/dp (q*p)
    const auto B = mkt<T, N>(p);
    const auto A = mkt<T, N>(q);
    if (wantf) {
      const tensor<N, T> r = A * B;
      pushv(f, r);
    }
    if (wantD) {
      const t2tot2<N, T> d = t2tot2<N, T>::tprd(A);
      pushm(D, d, nt, nt);
    }
  } else if (h == "transpose_derivative") {
    const auto A = mkt<T, N>(p);
    if (wantf) {
      const tensor<N, T> r = transpose(A);
      pushv(f, r);
    }
    if (wantD) {
      const t2tot2<N, T> d = t2tot2<N, T>::transpose_derivative();
      pushm(D, d, nt, nt);
    }
  } else if (h == "velocity_gradient") {  // L = dF . F^-1, derivative with respect to dF (= p) at fixed F (= q)
    const auto X = mkt<T, N>(p);
    const auto F = mkt<T, N>(q);
    if (wantf) {
      const tensor<N, T> iF = invert(F);
      const tensor<N, T> r = X * iF;
      pushv(f, r);
    }
    if (wantD) {
      const t2tot2<N, T> d = computeVelocityGradientDerivative(F);
      pushm(D, d, nt, nt);
    }
  } else if (h == "rate_of_deformation") {  // D = sym(dF . F^-1)
    const auto X = mkt<T, N>(p);
    const auto F = mkt<T, N>(q);
    if (wantf) {
      const tensor<N, T> iF = invert(F);
      const tensor<N, T> L = X * iF;
      const stensor<N, T> r = syme(L);
      pushv(f, r);
    }
    if (wantD) {
      const t2tost2<N, T> d = computeRateOfDeformationDerivative(F);
      pushm(D, d, ns, nt);
    }
  } else if (h == "spin_rate") {  // W = (L - L^T)/2, L = dF . F^-1
    const auto X = mkt<T, N>(p);
    const auto F = mkt<T, N>(q);
    if (wantf) {
      const tensor<N, T> iF = invert(F);
      const tensor<N, T> L = X * iF;
      const tensor<N, T> Lt = transpose(L);
      const tensor<N, T> r = (L - Lt) / 2;
      pushv(f, r);
    }
    if (wantD) {
      const t2tot2<N, T> d = computeSpinRateDerivative(F);
      pushm(D, d, nt, nt);
    }
  } else if (h == "dsquare_chain") {  // q = s0 | C: d/dx square(s(x)), s(x) = s0 + C.x, is dsquare(s(x), C)
    const auto x = mkst<T, N>(p, 0);
    const auto s0 = mkst<T, N>(q, 0);
    const auto C = mk4<st2tost2<N, T>>(q, ns, ns, ns);
    const stensor<N, T> sx = affine(s0, C, x);
    if (wantf) pushv(f, square(sx));
    if (wantD) {
      const st2tost2<N, T> d = st2tost2<N, T>::dsquare(sx, C);
      pushm(D, d, ns, ns);
    }
  } else if (h == "tpld_chain" || h == "tprd_chain") {
    // q = V0 | W | C.  tpld(W, C): d/dx (V(x) * W) with V(x) = V0 + C.x;  tprd(W, C): d/dx (W * V(x))
    const auto x = mkt<T, N>(p, 0);
    const auto V0 = mkt<T, N>(q, 0);
    const auto W = mkt<T, N>(q, nt);
    const auto C = mk4<t2tot2<N, T>>(q, 2 * nt, nt, nt);
    const bool left = (h == "tpld_chain");
    if (wantf) {
      const tensor<N, T> V = affine(V0, C, x);
      const tensor<N, T> r = left ? tensor<N, T>(V * W) : tensor<N, T>(W * V);
      pushv(f, r);
    }
    if (wantD) {
      const t2tot2<N, T> d = left ? t2tot2<N, T>(t2tot2<N, T>::tpld(W, C)) : t2tot2<N, T>(t2tot2<N, T>::tprd(W, C));
      pushm(D, d, nt, nt);
    }
  } else if (h == "st2tot2_tpld_chain" || h == "st2tot2_tprd_chain") {
    // q = v0 | w | C (symmetric tensors, C a st2tost2): st2tot2::tpld(w, C) = d/dx (v(x) * w), tprd(w, C) = d/dx (w * v(x))
    const auto x = mkst<T, N>(p, 0);
    const auto v0 = mkst<T, N>(q, 0);
    const auto w = mkst<T, N>(q, ns);
    const auto C = mk4<st2tost2<N, T>>(q, 2 * ns, ns, ns);
    const bool left = (h == "st2tot2_tpld_chain");
    if (wantf) {
      const stensor<N, T> v = affine(v0, C, x);
      const tensor<N, T> r = left ? tensor<N, T>(v * w) : tensor<N, T>(w * v);
      pushv(f, r);
    }
    if (wantD) {
      const st2tot2<N, T> d = left ? st2tot2<N, T>(st2tot2<N, T>::tpld(w, C)) : st2tot2<N, T>(st2tot2<N, T>::tprd(w, C));
      pushm(D, d, nt, ns);
    }
  } else if (h == "push_forward_dS") {  // d/dS (F S F^T) at fixed F (= q): ST2toST2 computePushForwardDerivative(r, F)
    const auto S = mkst<T, N>(p, 0);
    const auto F = mkt<T, N>(q, 0);
    if (wantf) {
      const stensor<N, T> r = push_forward(S, F);
      pushv(f, r);
    }
    if (wantD) {
      st2tost2<N, T> d;
      computePushForwardDerivative(d, F);
      pushm(D, d, ns, ns);
    }
  } else if (h == "push_forward_dF") {  // d/dF (F S F^T) at fixed S (= q)
    const auto F = mkt<T, N>(p, 0);
    const auto S = mkst<T, N>(q, 0);
    if (wantf) {
      const stensor<N, T> r = push_forward(S, F);
      pushv(f, r);
    }
    if (wantD) {
      t2tost2<N, T> d;
      computePushForwardDerivativeWithRespectToDeformationGradient(d, S, F);
      pushm(D, d, ns, nt);
    }
  } else if (h == "push_forward_chain" || h == "kirchhoff_from_cauchy" || h == "cauchy_from_kirchhoff" || h == "pk1_from_cauchy") {
    // q = v0 | X: v(F) = v0 + X.F, a symmetric tensor valued function of F whose derivative is X
    const auto F = mkt<T, N>(p, 0);
    const auto v0 = mkst<T, N>(q, 0);
    const auto X = mk4<t2tost2<N, T>>(q, ns, ns, nt);
    const stensor<N, T> v = affine(v0, X, F);
    if (h == "push_forward_chain") {  // T(F) = F S(F) F^T, S(F) = v(F)
      if (wantf) {
        const stensor<N, T> r = push_forward(v, F);
        pushv(f, r);
      }
      if (wantD) {
        const t2tost2<N, T> d = computePushForwardDerivative(X, v, F);
        pushm(D, d, ns, nt);
      }
    } else if (h == "kirchhoff_from_cauchy") {  // tau(F) = det(F) sigma(F), sigma(F) = v(F)
      if (wantf) {
        const stensor<N, T> r = det(F) * v;
        pushv(f, r);
      }
      if (wantD) {
        const t2tost2<N, T> d = computeKirchhoffStressDerivativeFromCauchyStressDerivative(X, v, F);
        pushm(D, d, ns, nt);
      }
    } else if (h == "cauchy_from_kirchhoff") {
      // sigma(F) = tau(F) / det(F), tau(F) = v(F); the helper receives dtau/dF (= X) and the Cauchy stress sigma(F)
      const stensor<N, T> sig = v / det(F);
      if (wantf) pushv(f, sig);
      if (wantD) {
        const t2tost2<N, T> d = computeCauchyStressDerivativeFromKirchhoffStressDerivative(X, sig, F);
        pushm(D, d, ns, nt);
      }
    } else {  // P(F) = det(F) sigma(F) F^-T by the function of /repo, sigma(F) = v(F)
      if (wantf) {
        const tensor<N, T> r = convertCauchyStressToFirstPiolaKirchhoffStress(v, F);
        pushv(f, r);
      }
      if (wantD) {
        const t2tot2<N, T> d = convertCauchyStressDerivativeToFirstPiolaKirchoffStressDerivative(X, F, v);
        pushm(D, d, nt, nt);
      }
    }
  } else if (h == "pk1_from_pk2") {
    // q = s0 | dS/dE | F0 (anchor).  The helper is given the Cauchy stress s0 at F0; the second Piola-Kirchhoff stress there is
    // S0 = convertCauchyStressToSecondPiolaKirchhoffStress(s0, F0) and S(F) = S0 + dS.(E(F) - E(F0)), E the Green-Lagrange
    // strain; P(F) = F.S(F).  The statement is made at F = F0 only.
    const auto F = mkt<T, N>(p, 0);
    const auto s0 = mkst<T, N>(q, 0);
    const auto dS = mk4<st2tost2<N, T>>(q, ns, ns, ns);
    const auto F0 = mkt<T, N>(q, ns + ns * ns);
    if (wantf) {
      const stensor<N, T> S0 = convertCauchyStressToSecondPiolaKirchhoffStress(s0, F0);
      const stensor<N, T> E = computeGreenLagrangeTensor(F);
      const stensor<N, T> E0 = computeGreenLagrangeTensor(F0);
      stensor<N, T> S = S0;
      for (unsigned short i = 0; i < S.size(); ++i)
        for (unsigned short j = 0; j < E.size(); ++j) S[i] = S[i] + dS(i, j) * (E[j] - E0[j]);
      const tensor<N, T> Su = unsyme(S);
      const tensor<N, T> r = F * Su;
      pushv(f, r);
    }
    if (wantD) {
      const t2tot2<N, T> d = convertSecondPiolaKirchhoffStressDerivativeToFirstPiolaKirchoffStressDerivative(dS, F, s0);
      pushm(D, d, nt, nt);
    }
  } else if (h == "tau_from_pk1") {
    // q = s0 | dP/dF | F0 (anchor).  P(F) = P0 + dP.(F - F0), P0 the first Piola-Kirchhoff stress of the (symmetric) Cauchy stress
    // s0 at F0: the helper is given s0, so the statement is made at F = F0 only.
    // tau(F) = det(F) * convertFirstPiolaKirchhoffStressToCauchyStress(P(F), F) (functions of /repo)
    const auto F = mkt<T, N>(p, 0);
    const auto s0 = mkst<T, N>(q, 0);
    const auto dP = mk4<t2tot2<N, T>>(q, ns, nt, nt);
    const auto F0 = mkt<T, N>(q, ns + nt * nt);
    if (wantf) {
      const tensor<N, T> P0 = convertCauchyStressToFirstPiolaKirchhoffStress(s0, F0);
      tensor<N, T> P = P0;
      for (unsigned short i = 0; i < P.size(); ++i)
        for (unsigned short j = 0; j < F.size(); ++j) P[i] = P[i] + dP(i, j) * (F[j] - F0[j]);
      const stensor<N, T> sig = convertFirstPiolaKirchhoffStressToCauchyStress(P, F);
      const stensor<N, T> r = det(F) * sig;
      pushv(f, r);
    }
    if (wantD) {
      const t2tost2<N, T> d = convertFirstPiolaKirchoffStressDerivativeToKirchhoffStressDerivative(dP, F, s0);
      pushm(D, d, ns, nt);
    }
  } else {
    throw std::runtime_error("unknown helper " + h);
  }
}

template <typename T>
void helperN(int N, const std::string& h, const std::vector<T>& p, const std::vector<T>& q, std::vector<T>& f, std::vector<T>& D,
             bool wf = true, bool wd = true) {
  if (N == 1) helper<T, 1>(h, p, q, f, D, wf, wd);
  else if (N == 2) helper<T, 2>(h, p, q, f, D, wf, wd);
  else helper<T, 3>(h, p, q, f, D, wf, wd);
}

static std::vector<double> rnd(Rng& g, int n, double a, double b) {
  std::vector<double> v(n);
  for (auto& e : v) e = g.range(a, b);
  return v;
}
// random q; when it must be invertible: identity + perturbation (det bounded away from 0)
static std::vector<double> make_q(Rng& g, const HelperDesc& H, int N) {
  const int nq = qsize(H, N);
  auto q = rnd(g, nq, -2., 2.);
  if (H.needs_invertible_q) {
    for (int i = 0; i < nq; ++i) q[i] = (i < 3 ? 1.0 + 0.5 * g.range(-0.5, 0.5) : g.range(-0.25, 0.25));
  }
  return q;
}
// the differentiation point; a deformation gradient close to the identity when the function divides by its determinant
static std::vector<double> make_p(Rng& g, const HelperDesc& H, int N) {
  const int np = ksize(H.pk, N);
  auto p = rnd(g, np, -2., 2.);
  if (H.needs_invertible_p) {
    for (int i = 0; i < np; ++i) p[i] = (i < 3 ? 1.0 + 0.5 * g.range(-0.5, 0.5) : g.range(-0.25, 0.25));
  }
  return p;
}
// offset of the anchor block (copy of the differentiation point) in q, or -1
static int anchor_offset(const HelperDesc& H, int N) {
  int off = 0;
  for (const char* c = H.qk; *c; ++c) {
    if (*c == 'A') return off;
    off += ksize(*c, N, H.pk);
  }
  return -1;
}
static std::vector<double> pad(std::vector<double> v) {
  if (v.size() < 9) v.resize(9, 0.);
  return v;
}

int main(int argc, char** argv) {
  try {
    if (argc >= 5 && !std::strcmp(argv[1], "gen")) {
      const uint64_t seed = std::strtoull(argv[3], nullptr, 10);
      const int ncases = std::atoi(argv[4]);
      Trace tr("C06_gen");
      for (int k = 0; k < nhelpers; ++k)
        for (int N = 1; N <= 3; ++N) {
          const HelperDesc& H = helpers[k];
          const int np = ksize(H.pk, N), nq = qsize(H, N);
          auto p = vars("p", np), q = vars("q", nq);
          auto pp = p, qq = q;
          if (pp.size() < 9) pp.resize(9, Sym(0));
          if (qq.size() < 9) qq.resize(9, Sym(0));
          std::vector<Sym> f, D;
          helperN<Sym>(N, H.name, pp, qq, f, D);
          std::vector<Sym> ps = p;
          ps.insert(ps.end(), q.begin(), q.end());
          const std::string nm = std::string(H.name) + std::to_string(N);
          tr.def("f_" + nm, ps, f);
          tr.def("D_" + nm, ps, D);
          // list-argument wrappers
          for (const char* pre : {"f_", "D_"}) {
            std::string s = std::string("Definition ") + pre + nm + "_l (p q : list R) : list R :=\n  " + pre + nm;
            for (int i = 0; i < np; ++i) s += " (nthR p " + std::to_string(i) + ")";
            for (int i = 0; i < nq; ++i) s += " (nthR q " + std::to_string(i) + ")";
            tr.raw(s + ".\n\n");
          }
          tr.raw("(* SHAPE " + nm + " nin=" + std::to_string(np) + " nout=" + std::to_string(f.size()) + " npar=" + std::to_string(nq) + " *)\n\n");
          std::printf("SHAPE %s %d nin=%d nout=%zu npar=%d\n", H.name, N, np, f.size(), nq);
          if (D.size() != f.size() * static_cast<size_t>(np)) throw std::runtime_error("shape mismatch for " + nm);
          // Sym-vs-double agreement of both f and D
          Rng g(seed * 1000003ULL + 97 * k + N);
          int bad = 0, done = 0;
          for (int c = 0; c < ncases; ++c) {
            const bool scaled = (c % 3 == 1) && !H.needs_invertible_q && !H.needs_invertible_p;
            const double sc = scaled ? std::pow(10., g.below(41) - 20) : 1.0;
            auto dp = make_p(g, H, N);
            auto dq = make_q(g, H, N);
            for (auto& e : dp) e *= sc;
            if (!H.needs_invertible_q)
              for (auto& e : dq) e *= sc;
            Env env;
            for (int i = 0; i < np; ++i) env["p" + std::to_string(i)] = dp[i];
            for (int i = 0; i < nq; ++i) env["q" + std::to_string(i)] = dq[i];
            std::vector<double> df, dD;
            helperN<double>(N, H.name, pad(dp), pad(dq), df, dD);
            bool ok = df.size() == f.size() && dD.size() == D.size();
            auto cmp = [&](const std::vector<Sym>& a, const std::vector<double>& b) {
              std::vector<long double> ev;
              long double scale = 0;
              for (auto& e : a) {
                ev.push_back(eval(e, env));
                scale = std::max(scale, std::fabs(ev.back()));
              }
              for (size_t i = 0; ok && i < a.size(); ++i) ok = close(ev[i], b[i], scale, 1e-10L);
            };
            if (ok) cmp(f, df);
            if (ok) cmp(D, dD);
            ++done;
            if (!ok && ++bad <= 3) {
              std::printf("AGREE-FAIL %s N=%d case=%d p=", H.name, N, c);
              for (double x : dp) std::printf(" %.17g", x);
              std::printf(" q=");
              for (double x : dq) std::printf(" %.17g", x);
              std::printf("\n");
            }
          }
          std::printf("AGREE %s N=%d cases=%d bad=%d\n", H.name, N, done, bad);
        }
      tr.write(argv[2]);
      return 0;
    }
    if (argc >= 4 && !std::strcmp(argv[1], "run")) {
      const uint64_t seed = std::strtoull(argv[2], nullptr, 10);
      const int ncases = std::atoi(argv[3]);
      for (int k = 0; k < nhelpers; ++k)
        for (int N = 1; N <= 3; ++N) {
          const HelperDesc& H = helpers[k];
          const int np = ksize(H.pk, N);
          Rng g(seed * 7919ULL + 131 * k + N);
          for (int c = 0; c < ncases; ++c) {
            auto dp = make_p(g, H, N);
            auto dq = make_q(g, H, N);
            const int ao = anchor_offset(H, N);
            if (ao >= 0)   // the derivative is claimed at p = anchor: the anchor stays at the base point while p is perturbed
              for (int i = 0; i < np; ++i) dq[ao + i] = dp[i];
            std::vector<double> f0, D0, fp, fm, dummy;
            helperN<double>(N, H.name, pad(dp), pad(dq), f0, D0);
            const double h = 1e-4;
            std::printf("RUN %s %d h %.17g p", H.name, N, h);
            for (double x : dp) std::printf(" %.17g", x);
            std::printf(" q");
            for (double x : dq) std::printf(" %.17g", x);
            std::printf(" nout %zu D", f0.size());
            for (double x : D0) std::printf(" %.17g", x);
            // f(p + h e_j), f(p - h e_j), f(p + 2h e_j), f(p - 2h e_j) for every j (fourth-order central differences)
            for (int j = 0; j < np; ++j)
              for (double m : {1., -1., 2., -2.}) {
                auto pj = dp;
                pj[j] += m * h;
                helperN<double>(N, H.name, pad(pj), pad(dq), fp, dummy, true, false);
                std::printf(" F");
                for (double x : fp) std::printf(" %.17g", x);
              }
            std::printf("\n");
          }
        }
      return 0;
    }
  } catch (std::exception& e) {
    std::fprintf(stderr, "trace: %s\n", e.what());
    return 3;
  }
  std::fprintf(stderr, "usage: trace gen <out.v> <seed> <ncases> | trace run <seed> <ncases>\n");
  return 2;
}

// C06: tracer (engine S, straight-line) and driver for the closed-form derivative helpers of /repo.
// Every helper is a pair (f, D): a function of /repo and the function documented as its derivative.
//   trace gen <out.v> <seed> <ncases> : Coq definitions f_<name><N>, D_<name><N> (+ list-argument wrappers _l) and the
//                                       Sym-vs-double agreement (lines AGREE / AGREE-FAIL)
//   trace run <seed> <ncases>         : real double code: D(p) and f(p +- h e_j) for finite differences, one line per case
#include "symtfel.hxx"
#include "TFEL/Math/stensor.hxx"
#include "TFEL/Math/tensor.hxx"
#include "TFEL/Math/st2tost2.hxx"
#include "TFEL/Math/t2tost2.hxx"
#include "TFEL/Math/st2tot2.hxx"
#include "TFEL/Math/t2tot2.hxx"
#include "TFEL/Math/Stensor/SymmetricStensorProduct.hxx"
#include "TFEL/Math/ST2toST2/SymmetricStensorProductDerivative.hxx"
#include "TFEL/Material/IsotropicPlasticity.hxx"
#include <cstring>
#include <iostream>

using namespace symv;
using namespace tfel::math;

// kind of the differentiation variable p and of the parameter q: 's' symmetric tensor, 't' tensor, '-' none
struct HelperDesc {
  const char* name;
  char pk, qk;
  bool needs_invertible_q;  // the helper divides by det(q)
};
static const HelperDesc helpers[] = {
    {"stensor_det", 's', '-', false},
    {"stensor_det2", 's', '-', false},
    {"stensor_devdet", 's', '-', false},
    {"stensor_devdet2", 's', '-', false},
    {"J3", 's', '-', false},
    {"J3_2", 's', '-', false},
    {"dsquare", 's', '-', false},
    {"stpd", 's', 's', false},
    {"daba_da", 's', 's', false},
    {"daba_db", 's', 's', false},
    {"st2tot2_tpld", 's', 's', false},
    {"st2tot2_tprd", 's', 's', false},
    {"tensor_det", 't', '-', false},
    {"tensor_det2", 't', '-', false},
    {"dCdF", 't', '-', false},
    {"dBdF", 't', '-', false},
    {"tpld", 't', 't', false},
    {"tprd", 't', 't', false},
    {"transpose_derivative", 't', '-', false},
    {"velocity_gradient", 't', 't', true},
    {"rate_of_deformation", 't', 't', true},
    {"spin_rate", 't', 't', true},
};
static const int nhelpers = sizeof(helpers) / sizeof(helpers[0]);

static int ssize(int N) { return N == 1 ? 3 : (N == 2 ? 4 : 6); }
static int tsize(int N) { return N == 1 ? 3 : (N == 2 ? 5 : 9); }
static int ksize(char k, int N) { return k == 's' ? ssize(N) : (k == 't' ? tsize(N) : 0); }

template <typename T, unsigned short N>
stensor<N, T> mkst(const std::vector<T>& a) {
  stensor<N, T> s;
  for (unsigned short i = 0; i < s.size(); ++i) s[i] = a[i];
  return s;
}
template <typename T, unsigned short N>
tensor<N, T> mkt(const std::vector<T>& a) {
  tensor<N, T> s;
  for (unsigned short i = 0; i < s.size(); ++i) s[i] = a[i];
  return s;
}
template <typename T, typename S>
void pushv(std::vector<T>& r, const S& s) {
  for (unsigned short i = 0; i < s.size(); ++i) r.push_back(s[i]);
}
template <typename T, typename S>
void pushm(std::vector<T>& r, const S& m, int rows, int cols) {
  for (unsigned short i = 0; i < rows; ++i)
    for (unsigned short j = 0; j < cols; ++j) r.push_back(m(i, j));
}

// f(p; q) and D(p; q) of the named helper; D is row major, rows = outputs of f, columns = components of p
template <typename T, unsigned short N>
void helper(const std::string& h, const std::vector<T>& p, const std::vector<T>& q, std::vector<T>& f, std::vector<T>& D,
            bool wantf = true, bool wantD = true) {
  const int ns = ssize(N), nt = tsize(N);
  f.clear();
  D.clear();
  if (h == "stensor_det") {
    const auto s = mkst<T, N>(p);
    if (wantf) f.push_back(det(s));
    if (wantD) pushv(D, computeDeterminantDerivative(s));
  } else if (h == "stensor_det2") {
    const auto s = mkst<T, N>(p);
    if (wantf) pushv(f, computeDeterminantDerivative(s));
    if (wantD) pushm(D, computeDeterminantSecondDerivative(s), ns, ns);
  } else if (h == "stensor_devdet") {
    const auto s = mkst<T, N>(p);
    if (wantf) {
      const stensor<N, T> d = deviator(s);
      f.push_back(det(d));
    }
    if (wantD) pushv(D, computeDeviatorDeterminantDerivative(s));
  } else if (h == "stensor_devdet2") {
    const auto s = mkst<T, N>(p);
    if (wantf) pushv(f, computeDeviatorDeterminantDerivative(s));
    if (wantD) pushm(D, computeDeviatorDeterminantSecondDerivative(s), ns, ns);
  } else if (h == "J3") {
    const auto s = mkst<T, N>(p);
    if (wantf) {
      const stensor<N, T> d = deviator(s);
      f.push_back(det(d));
    }
    if (wantD) pushv(D, tfel::material::computeJ3Derivative(s));
  } else if (h == "J3_2") {
    const auto s = mkst<T, N>(p);
    if (wantf) pushv(f, tfel::material::computeJ3Derivative(s));
    if (wantD) pushm(D, tfel::material::computeJ3SecondDerivative(s), ns, ns);
  } else if (h == "dsquare") {
    const auto s = mkst<T, N>(p);
    if (wantf) pushv(f, square(s));
    if (wantD) {
      const st2tost2<N, T> d = st2tost2<N, T>::dsquare(s);
      pushm(D, d, ns, ns);
    }
  } else if (h == "stpd") {  // d/dp (p.q + q.p)
    const auto s1 = mkst<T, N>(p);
    const auto s = mkst<T, N>(q);
    if (wantf) {
      const stensor<N, T> r = 2 * symmetric_product(s1, s);
      pushv(f, r);
    }
    if (wantD) {
      const st2tost2<N, T> d = st2tost2<N, T>::stpd(s);
      pushm(D, d, ns, ns);
    }
  } else if (h == "daba_da") {  // d/da (a.b.a), a = p, b = q
    const auto a = mkst<T, N>(p);
    const auto b = mkst<T, N>(q);
    if (wantf) pushv(f, symmetric_product_aba(a, b));
    if (wantD) {
      const st2tost2<N, T> d = symmetric_product_derivative_daba_da(a, b);
      pushm(D, d, ns, ns);
    }
  } else if (h == "daba_db") {  // d/db (a.b.a), b = p, a = q
    const auto b = mkst<T, N>(p);
    const auto a = mkst<T, N>(q);
    if (wantf) pushv(f, symmetric_product_aba(a, b));
    if (wantD) {
      const st2tost2<N, T> d = symmetric_product_derivative_daba_db(a);
      pushm(D, d, ns, ns);
    }
  } else if (h == "st2tot2_tpld") {  // d/dp (p*q) for symmetric p, q; the product is an unsymmetric tensor
    const auto a = mkst<T, N>(p);
    const auto b = mkst<T, N>(q);
    if (wantf) {
      const tensor<N, T> r = a * b;
      pushv(f, r);
    }
    if (wantD) {
      const st2tot2<N, T> d = st2tot2<N, T>::tpld(b);
      pushm(D, d, nt, ns);
    }
  } else if (h == "st2tot2_tprd") {  // d/dp (q*p)
    const auto b = mkst<T, N>(p);
    const auto a = mkst<T, N>(q);
    if (wantf) {
      const tensor<N, T> r = a * b;
      pushv(f, r);
    }
    if (wantD) {
      const st2tot2<N, T> d = st2tot2<N, T>::tprd(a);
      pushm(D, d, nt, ns);
    }
  } else if (h == "tensor_det") {
    const auto F = mkt<T, N>(p);
    if (wantf) f.push_back(det(F));
    if (wantD) pushv(D, computeDeterminantDerivative(F));
  } else if (h == "tensor_det2") {
    const auto F = mkt<T, N>(p);
    if (wantf) pushv(f, computeDeterminantDerivative(F));
    if (wantD) pushm(D, computeDeterminantSecondDerivative(F), nt, nt);
  } else if (h == "dCdF") {
    const auto F = mkt<T, N>(p);
    if (wantf) pushv(f, computeRightCauchyGreenTensor(F));
    if (wantD) {
      const t2tost2<N, T> d = t2tost2<N, T>::dCdF(F);
      pushm(D, d, ns, nt);
    }
  } else if (h == "dBdF") {
    const auto F = mkt<T, N>(p);
    if (wantf) pushv(f, computeLeftCauchyGreenTensor(F));
    if (wantD) {
      const t2tost2<N, T> d = t2tost2<N, T>::dBdF(F);
      pushm(D, d, ns, nt);
    }
  } else if (h == "tpld") {  // d/dp (p*q)
    const auto A = mkt<T, N>(p);
    const auto B = mkt<T, N>(q);
    if (wantf) {
      const tensor<N, T> r = A * B;
      pushv(f, r);
    }
    if (wantD) {
      const t2tot2<N, T> d = t2tot2<N, T>::tpld(B);
      pushm(D, d, nt, nt);
    }
  } else if (h == "tprd") {  // d/dp (q*p)
    const auto B = mkt<T, N>(p);
    const auto A = mkt<T, N>(q);
    if (wantf) {
      const tensor<N, T> r = A * B;
      pushv(f, r);
    }
    if (wantD) {
      const t2tot2<N, T> d = t2tot2<N, T>::tprd(A);
      pushm(D, d, nt, nt);
    }
  } else if (h == "transpose_derivative") {
    const auto A = mkt<T, N>(p);
    if (wantf) {
      const tensor<N, T> r = transpose(A);
      pushv(f, r);
    }
    if (wantD) {
      const t2tot2<N, T> d = t2tot2<N, T>::transpose_derivative();
      pushm(D, d, nt, nt);
    }
  } else if (h == "velocity_gradient") {  // L = dF . F^-1, derivative with respect to dF (= p) at fixed F (= q)
    const auto X = mkt<T, N>(p);
    const auto F = mkt<T, N>(q);
    if (wantf) {
      const tensor<N, T> iF = invert(F);
      const tensor<N, T> r = X * iF;
      pushv(f, r);
    }
    if (wantD) {
      const t2tot2<N, T> d = computeVelocityGradientDerivative(F);
      pushm(D, d, nt, nt);
    }
  } else if (h == "rate_of_deformation") {  // D = sym(dF . F^-1)
    const auto X = mkt<T, N>(p);
    const auto F = mkt<T, N>(q);
    if (wantf) {
      const tensor<N, T> iF = invert(F);
      const tensor<N, T> L = X * iF;
      const stensor<N, T> r = syme(L);
      pushv(f, r);
    }
    if (wantD) {
      const t2tost2<N, T> d = computeRateOfDeformationDerivative(F);
      pushm(D, d, ns, nt);
    }
  } else if (h == "spin_rate") {  // W = (L - L^T)/2, L = dF . F^-1
    const auto X = mkt<T, N>(p);
    const auto F = mkt<T, N>(q);
    if (wantf) {
      const tensor<N, T> iF = invert(F);
      const tensor<N, T> L = X * iF;
      const tensor<N, T> Lt = transpose(L);
      const tensor<N, T> r = (L - Lt) / 2;
      pushv(f, r);
    }
    if (wantD) {
      const t2tot2<N, T> d = computeSpinRateDerivative(F);
      pushm(D, d, nt, nt);
    }
  } else {
    throw std::runtime_error("unknown helper " + h);
  }
}

template <typename T>
void helperN(int N, const std::string& h, const std::vector<T>& p, const std::vector<T>& q, std::vector<T>& f, std::vector<T>& D,
             bool wf = true, bool wd = true) {
  if (N == 1) helper<T, 1>(h, p, q, f, D, wf, wd);
  else if (N == 2) helper<T, 2>(h, p, q, f, D, wf, wd);
  else helper<T, 3>(h, p, q, f, D, wf, wd);
}

static std::vector<double> rnd(Rng& g, int n, double a, double b) {
  std::vector<double> v(n);
  for (auto& e : v) e = g.range(a, b);
  return v;
}
// random q; when it must be invertible: identity + perturbation (det bounded away from 0)
static std::vector<double> make_q(Rng& g, const HelperDesc& H, int N) {
  const int nq = ksize(H.qk, N);
  auto q = rnd(g, nq, -2., 2.);
  if (H.needs_invertible_q) {
    for (int i = 0; i < nq; ++i) q[i] = (i < 3 ? 1.0 + 0.5 * g.range(-0.5, 0.5) : g.range(-0.25, 0.25));
  }
  return q;
}
static std::vector<double> pad(std::vector<double> v) {
  v.resize(9, 0.);
  return v;
}

int main(int argc, char** argv) {
  try {
    if (argc >= 5 && !std::strcmp(argv[1], "gen")) {
      const uint64_t seed = std::strtoull(argv[3], nullptr, 10);
      const int ncases = std::atoi(argv[4]);
      Trace tr("C06_gen");
      for (int k = 0; k < nhelpers; ++k)
        for (int N = 1; N <= 3; ++N) {
          const HelperDesc& H = helpers[k];
          const int np = ksize(H.pk, N), nq = ksize(H.qk, N);
          auto p = vars("p", np), q = vars("q", nq);
          auto pp = p, qq = q;
          pp.resize(9, Sym(0));
          qq.resize(9, Sym(0));
          std::vector<Sym> f, D;
          helperN<Sym>(N, H.name, pp, qq, f, D);
          std::vector<Sym> ps = p;
          ps.insert(ps.end(), q.begin(), q.end());
          const std::string nm = std::string(H.name) + std::to_string(N);
          tr.def("f_" + nm, ps, f);
          tr.def("D_" + nm, ps, D);
          // list-argument wrappers
          for (const char* pre : {"f_", "D_"}) {
            std::string s = std::string("Definition ") + pre + nm + "_l (p q : list R) : list R :=\n  " + pre + nm;
            for (int i = 0; i < np; ++i) s += " (nthR p " + std::to_string(i) + ")";
            for (int i = 0; i < nq; ++i) s += " (nthR q " + std::to_string(i) + ")";
            tr.raw(s + ".\n\n");
          }
          tr.raw("(* SHAPE " + nm + " nin=" + std::to_string(np) + " nout=" + std::to_string(f.size()) + " npar=" + std::to_string(nq) + " *)\n\n");
          std::printf("SHAPE %s %d nin=%d nout=%zu npar=%d\n", H.name, N, np, f.size(), nq);
          if (D.size() != f.size() * static_cast<size_t>(np)) throw std::runtime_error("shape mismatch for " + nm);
          // Sym-vs-double agreement of both f and D
          Rng g(seed * 1000003ULL + 97 * k + N);
          int bad = 0, done = 0;
          for (int c = 0; c < ncases; ++c) {
            const bool scaled = (c % 3 == 1) && !H.needs_invertible_q;
            const double sc = scaled ? std::pow(10., g.below(41) - 20) : 1.0;
            auto dp = rnd(g, np, -2., 2.);
            auto dq = make_q(g, H, N);
            for (auto& e : dp) e *= sc;
            if (!H.needs_invertible_q)
              for (auto& e : dq) e *= sc;
            Env env;
            for (int i = 0; i < np; ++i) env["p" + std::to_string(i)] = dp[i];
            for (int i = 0; i < nq; ++i) env["q" + std::to_string(i)] = dq[i];
            std::vector<double> df, dD;
            helperN<double>(N, H.name, pad(dp), pad(dq), df, dD);
            bool ok = df.size() == f.size() && dD.size() == D.size();
            auto cmp = [&](const std::vector<Sym>& a, const std::vector<double>& b) {
              std::vector<long double> ev;
              long double scale = 0;
              for (auto& e : a) {
                ev.push_back(eval(e, env));
                scale = std::max(scale, std::fabs(ev.back()));
              }
              for (size_t i = 0; ok && i < a.size(); ++i) ok = close(ev[i], b[i], scale, 1e-10L);
            };
            if (ok) cmp(f, df);
            if (ok) cmp(D, dD);
            ++done;
            if (!ok && ++bad <= 3) {
              std::printf("AGREE-FAIL %s N=%d case=%d p=", H.name, N, c);
              for (double x : dp) std::printf(" %.17g", x);
              std::printf(" q=");
              for (double x : dq) std::printf(" %.17g", x);
              std::printf("\n");
            }
          }
          std::printf("AGREE %s N=%d cases=%d bad=%d\n", H.name, N, done, bad);
        }
      tr.write(argv[2]);
      return 0;
    }
    if (argc >= 4 && !std::strcmp(argv[1], "run")) {
      const uint64_t seed = std::strtoull(argv[2], nullptr, 10);
      const int ncases = std::atoi(argv[3]);
      for (int k = 0; k < nhelpers; ++k)
        for (int N = 1; N <= 3; ++N) {
          const HelperDesc& H = helpers[k];
          const int np = ksize(H.pk, N);
          Rng g(seed * 7919ULL + 131 * k + N);
          for (int c = 0; c < ncases; ++c) {
            auto dp = rnd(g, np, -2., 2.);
            auto dq = make_q(g, H, N);
            std::vector<double> f0, D0, fp, fm, dummy;
            helperN<double>(N, H.name, pad(dp), pad(dq), f0, D0);
            const double h = 1e-4;
            std::printf("RUN %s %d h %.17g p", H.name, N, h);
            for (double x : dp) std::printf(" %.17g", x);
            std::printf(" q");
            for (double x : dq) std::printf(" %.17g", x);
            std::printf(" nout %zu D", f0.size());
            for (double x : D0) std::printf(" %.17g", x);
            // f(p + h e_j), f(p - h e_j), f(p + 2h e_j), f(p - 2h e_j) for every j (fourth-order central differences)
            for (int j = 0; j < np; ++j)
              for (double m : {1., -1., 2., -2.}) {
                auto pj = dp;
                pj[j] += m * h;
                helperN<double>(N, H.name, pad(pj), pad(dq), fp, dummy, true, false);
                std::printf(" F");
                for (double x : fp) std::printf(" %.17g", x);
              }
            std::printf("\n");
          }
        }
      return 0;
    }
  } catch (std::exception& e) {
    std::fprintf(stderr, "trace: %s\n", e.what());
    return 3;
  }
  std::fprintf(stderr, "usage: trace gen <out.v> <seed> <ncases> | trace run <seed> <ncases>\n");
  return 2;
}

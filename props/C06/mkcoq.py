#!/usr/bin/env python3
"""Development helper (not used by check.py): writes coq/C06Statements.v, coq/C06Proofs*.v, coq/Properties_C06*.v.
One sentence per helper and space dimension: `D_<helper>N is the Jacobian of f_<helper>N` (C06Spec.is_jacobian);
f_/D_ are the definitions regenerated from /repo by the tracer.  Outputs are committed."""
import os
here = os.path.dirname(os.path.abspath(__file__))
SS = {1: 3, 2: 4, 3: 6}
TS = {1: 3, 2: 5, 3: 9}

# name, kind of p, blocks of q ('s','t' tensors, 'S' ns x ns, 'M' ns x nt, 'T' nt x nt, 'A' anchor = copy of the point), what must be
# invertible ("" | "q" | "p"), nout kind, title, group (file compiled side by side), tier of the N=3 lemma ("quick" | "thorough")
HELPERS = [
    ("stensor_det", "s", "", "", "1", "computeDeterminantDerivative(stensor) is the gradient of det", ""),
    ("stensor_det2", "s", "", "", "s", "computeDeterminantSecondDerivative(stensor) is the Jacobian of computeDeterminantDerivative", ""),
    ("stensor_devdet", "s", "", "", "1", "computeDeviatorDeterminantDerivative is the gradient of det(deviator(s))", ""),
    ("stensor_devdet2", "s", "", "", "s", "computeDeviatorDeterminantSecondDerivative is the Jacobian of computeDeviatorDeterminantDerivative", ""),
    ("J3", "s", "", "", "1", "tfel::material::computeJ3Derivative is the gradient of J3 = det(deviator(s))", ""),
    ("J3_2", "s", "", "", "s", "tfel::material::computeJ3SecondDerivative is the Jacobian of computeJ3Derivative", ""),
    ("dsquare", "s", "", "", "s", "st2tost2::dsquare(s) is the Jacobian of square(s)", ""),
    ("stpd", "s", "s", "", "s", "st2tost2::stpd(q) is the Jacobian of p |-> p.q + q.p", ""),
    ("daba_da", "s", "s", "", "s", "symmetric_product_derivative_daba_da(a,b) is the Jacobian of a |-> a.b.a", ""),
    ("daba_db", "s", "s", "", "s", "symmetric_product_derivative_daba_db(a) is the Jacobian of b |-> a.b.a", ""),
    ("st2tot2_tpld", "s", "s", "", "t", "st2tot2::tpld(q) is the Jacobian of p |-> p*q (symmetric p, q; unsymmetric product)", ""),
    ("st2tot2_tprd", "s", "s", "", "t", "st2tot2::tprd(q) is the Jacobian of p |-> q*p", ""),
    ("tensor_det", "t", "", "", "1", "computeDeterminantDerivative(tensor) is the gradient of det(F)", "b"),
    ("tensor_det2", "t", "", "", "t", "computeDeterminantSecondDerivative(tensor) is the Jacobian of computeDeterminantDerivative(tensor)", "f"),
    ("dCdF", "t", "", "", "s", "t2tost2::dCdF(F) is the Jacobian of the right Cauchy-Green tensor F^T.F", "b"),
    ("dBdF", "t", "", "", "s", "t2tost2::dBdF(F) is the Jacobian of the left Cauchy-Green tensor F.F^T", "b"),
    ("tpld", "t", "t", "", "t", "t2tot2::tpld(q) is the Jacobian of p |-> p*q", "b"),
    ("tprd", "t", "t", "", "t", "t2tot2::tprd(q) is the Jacobian of p |-> q*p", "b"),
    ("transpose_derivative", "t", "", "", "t", "t2tot2::transpose_derivative() is the Jacobian of transpose", "b"),
    ("velocity_gradient", "t", "t", "q", "t", "computeVelocityGradientDerivative(F) is the Jacobian of dF |-> dF.F^-1 (det F <> 0)", "c"),
    ("rate_of_deformation", "t", "t", "q", "s", "computeRateOfDeformationDerivative(F) is the Jacobian of dF |-> sym(dF.F^-1) (det F <> 0)", "d"),
    ("spin_rate", "t", "t", "q", "t", "computeSpinRateDerivative(F) is the Jacobian of dF |-> skew(dF.F^-1) (det F <> 0)", "e"),
    # second round.  Chain-rule overloads and conversions take the derivative X of an inner function and its value: the inner
    # function is the affine v(p) = v0 + X.p (same first order behaviour as any differentiable inner function)
    ("dsquare_chain", "s", "sS", "", "s", "st2tost2::dsquare(s(x), C) is the Jacobian of x |-> square(s(x)), s(x) = s0 + C.x", "h", "t3"),
    ("tpld_chain", "t", "ttT", "", "t", "t2tot2::tpld(W, C) is the Jacobian of x |-> V(x)*W, V(x) = V0 + C.x", "h", "t3"),
    ("tprd_chain", "t", "ttT", "", "t", "t2tot2::tprd(W, C) is the Jacobian of x |-> W*V(x), V(x) = V0 + C.x", "h", "t2"),
    ("st2tot2_tpld_chain", "s", "ssS", "", "t", "st2tot2::tpld(w, C) is the Jacobian of x |-> v(x)*w, v(x) = v0 + C.x (symmetric tensors)", "g"),
    ("st2tot2_tprd_chain", "s", "ssS", "", "t", "st2tot2::tprd(w, C) is the Jacobian of x |-> w*v(x), v(x) = v0 + C.x (symmetric tensors)", "h"),
    ("push_forward_dS", "s", "t", "", "s", "computePushForwardDerivative(st2tost2&, F) is the Jacobian of S |-> push_forward(S, F) = F.S.F^T", "i"),
    ("push_forward_dF", "t", "s", "", "s", "computePushForwardDerivativeWithRespectToDeformationGradient(S, F) is the Jacobian of F |-> F.S.F^T", "i"),
    ("push_forward_chain", "t", "sM", "", "s", "computePushForwardDerivative(dS/dF, S(F), F) is the Jacobian of F |-> F.S(F).F^T, S(F) = S0 + X.F", "i", "t2"),
    ("kirchhoff_from_cauchy", "t", "sM", "", "s", "computeKirchhoffStressDerivativeFromCauchyStressDerivative(ds, s(F), F) is the Jacobian of F |-> det(F) s(F), s(F) = s0 + X.F", "i", "t4"),
    ("cauchy_from_kirchhoff", "t", "sM", "p", "s", "computeCauchyStressDerivativeFromKirchhoffStressDerivative(dtau, tau(F)/det F, F) is the Jacobian of F |-> tau(F)/det(F), tau(F) = t0 + X.F (det F <> 0)", "i", "t5"),
    ("pk1_from_cauchy", "t", "sM", "", "t", "convertCauchyStressDerivativeToFirstPiolaKirchoffStressDerivative(ds, F, s(F)) is the Jacobian of F |-> convertCauchyStressToFirstPiolaKirchhoffStress(s(F), F), s(F) = s0 + X.F", "j", "t1"),
    ("pk1_from_pk2", "t", "sSA", "p", "t", "convertSecondPiolaKirchhoffStressDerivativeToFirstPiolaKirchoffStressDerivative(dS/dE, F0, s0) is the Jacobian at F0 of F |-> F.S(F), S(F) = S(s0, F0) + X.(E_GL(F) - E_GL(F0)), S(s0, F0) = convertCauchyStressToSecondPiolaKirchhoffStress(s0, F0) (det F0 <> 0)", "j", "t6"),
    ("tau_from_pk1", "t", "sTA", "p", "s", "convertFirstPiolaKirchoffStressDerivativeToKirchhoffStressDerivative(dP, F0, s0) is the Jacobian at F0 of F |-> det(F) convertFirstPiolaKirchhoffStressToCauchyStress(P(F), F), P(F) = P(s0, F0) + X.(F - F0) (det F0 <> 0)", "j", "t7"),
]
GROUPS = ["", "b", "c", "d", "e", "f", "g", "h", "i", "j", "t1", "t2", "t3", "t4", "t5", "t6", "t7"]
FIRST_NEW = "dsquare_chain"   # helpers from here on use the lazy unfolding and the per-lemma time budget (jac_t)


def size(k, N, pk="-"):
    ns, nt = SS[N], TS[N]
    return {"s": ns, "t": nt, "-": 0, "1": 1, "S": ns * ns, "M": ns * nt, "T": nt * nt, "A": ns if pk == "s" else nt}[k]


HDR = "From Coq Require Import Reals List.\nFrom Coquelicot Require Import Coquelicot.\nFrom VLib Require Import RealExtra.\n"


def main():
    st = ["(* C06 -- the statements (written by mkcoq.py, committed): for every helper and space dimension N,\n"
          "   D_<helper>N is the Jacobian of f_<helper>N at every point; f_ and D_ are regenerated from /repo (C06_gen.v). *)\n" + HDR +
          "From C06 Require Import C06Spec C06_gen.\nImport ListNotations.\nLocal Open Scope R_scope.\n"]
    prh = ("(* C06 -- proofs: `jac` (C06Tactics.v) = one auto_derive + field per entry of the Jacobian; nothing depends on the\n"
           "   shape of the traced terms. *)\n" + HDR +
           "From Coq Require Import Lra.\nFrom C06 Require Import C06Spec C06_gen C06Tactics C06Statements.\nImport ListNotations.\nLocal Open Scope R_scope.\n")
    pph = ("(* C06 -- property theorems (statements: C06Statements.v / C06Spec.v; proofs: %s) *)\n" + HDR +
           "From C06 Require Import C06Spec C06_gen C06Statements %s.\nImport ListNotations.\nLocal Open Scope R_scope.\n")
    pr = {g: [prh] for g in GROUPS}
    pp = {g: [pph % ("C06Proofs%s.v" % g.upper(), "C06Proofs%s" % g.upper())] for g in GROUPS}
    newstyle = False
    for hd in HELPERS:
        (h, pk, qk, inv, ok, title, g) = hd[:7]
        g3 = hd[7] if len(hd) > 7 else g
        newstyle = newstyle or h == FIRST_NEW
        st.append("\n(* %s *)" % title)
        for N in (1, 2, 3):
            np_, no = size(pk, N), size(ok, N)
            p = ["p%d" % i for i in range(np_)]
            # q as written in the statement: fresh variables, except the anchor block which is the point itself
            q, qv = [], []
            for blk in qk:
                if blk == "A":
                    q += p
                else:
                    new = ["q%d" % (len(qv) + i) for i in range(size(blk, N, pk))]
                    q += new
                    qv += new
            nm = "%s%d" % (h, N)
            hyp = ""
            if inv == "q":
                hyp = "nthR (f_tensor_det%d %s) 0 <> 0 ->\n    " % (N, " ".join(q))
            elif inv == "p":
                hyp = "nthR (f_tensor_det%d %s) 0 <> 0 ->\n    " % (N, " ".join(p))
            st.append("Definition %s_stmt%d : Prop :=\n  forall %s : R,\n    %sis_jacobian %d %d (fun p => f_%s_l p [%s]) (fun p => D_%s_l p [%s]) [%s]." % (
                h, N, " ".join(p + qv), hyp, np_, no, nm, "; ".join(q), nm, "; ".join(q), "; ".join(p)))
            unfh = "ltac:(unfold f_tensor_det%d)" % N if inv else "ltac:(idtac)"
            gg = g3 if N == 3 else g
            if newstyle:
                pr[gg].append("Lemma %s_ok%d : %s_stmt%d.\nProof. unfold %s_stmt%d. jac_t %d ltac:(lazy beta iota zeta delta [upd nthR List.firstn List.skipn List.app List.nth Nat.mul Nat.add f_%s_l f_%s D_%s_l D_%s]) %s. Qed." % (
                    h, N, h, N, h, N, 3000 if N == 3 else 600, nm, nm, nm, nm, unfh))
            else:
                pr[gg].append("Lemma %s_ok%d : %s_stmt%d.\nProof. unfold %s_stmt%d. jac ltac:(unfold f_%s_l, f_%s, D_%s_l, D_%s) %s. Qed." % (
                    h, N, h, N, h, N, nm, nm, nm, nm, unfh))
        if g3 == g:
            pp[g].append("\n(* %s *)\nTheorem C06_%s : %s_stmt1 /\\ %s_stmt2 /\\ %s_stmt3.\nProof. exact (conj %s_ok1 (conj %s_ok2 %s_ok3)). Qed.\nPrint Assumptions C06_%s." % (
                title, h, h, h, h, h, h, h, h))
        else:
            pp[g].append("\n(* %s -- 1D and 2D (3D: Properties_C06%s.v, thorough tier) *)\nTheorem C06_%s_1D_2D : %s_stmt1 /\\ %s_stmt2.\nProof. exact (conj %s_ok1 %s_ok2). Qed.\nPrint Assumptions C06_%s_1D_2D." % (
                title, g3, h, h, h, h, h, h))
            pp[g3].append("\n(* %s -- 3D *)\nTheorem C06_%s_3D : %s_stmt3.\nProof. exact %s_ok3. Qed.\nPrint Assumptions C06_%s_3D." % (title, h, h, h, h))
    files = [("C06Statements.v", st)]
    for g in GROUPS:
        files.append(("C06Proofs%s.v" % g.upper(), pr[g]))
        files.append(("Properties_C06%s.v" % g, pp[g]))
    for name, txt in files:
        with open(os.path.join(here, "coq", name), "w") as f:
            f.write("\n".join(txt) + "\n")


main()

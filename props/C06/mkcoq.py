#!/usr/bin/env python3
"""Development helper (not used by check.py): writes coq/C06Statements.v, coq/C06Proofs*.v, coq/Properties_C06*.v.
One sentence per helper and space dimension: `D_<helper>N is the Jacobian of f_<helper>N` (C06Spec.is_jacobian);
f_/D_ are the definitions regenerated from /repo by the tracer.  Outputs are committed."""
import os
here = os.path.dirname(os.path.abspath(__file__))
SS = {1: 3, 2: 4, 3: 6}
TS = {1: 3, 2: 5, 3: 9}

# name, kind of p, kind of q, needs invertible q, nout kind, title, group (file compiled side by side)
HELPERS = [
    ("stensor_det", "s", "-", False, "1", "computeDeterminantDerivative(stensor) is the gradient of det", ""),
    ("stensor_det2", "s", "-", False, "s", "computeDeterminantSecondDerivative(stensor) is the Jacobian of computeDeterminantDerivative", ""),
    ("stensor_devdet", "s", "-", False, "1", "computeDeviatorDeterminantDerivative is the gradient of det(deviator(s))", ""),
    ("stensor_devdet2", "s", "-", False, "s", "computeDeviatorDeterminantSecondDerivative is the Jacobian of computeDeviatorDeterminantDerivative", ""),
    ("J3", "s", "-", False, "1", "tfel::material::computeJ3Derivative is the gradient of J3 = det(deviator(s))", ""),
    ("J3_2", "s", "-", False, "s", "tfel::material::computeJ3SecondDerivative is the Jacobian of computeJ3Derivative", ""),
    ("dsquare", "s", "-", False, "s", "st2tost2::dsquare(s) is the Jacobian of square(s)", ""),
    ("stpd", "s", "s", False, "s", "st2tost2::stpd(q) is the Jacobian of p |-> p.q + q.p", ""),
    ("daba_da", "s", "s", False, "s", "symmetric_product_derivative_daba_da(a,b) is the Jacobian of a |-> a.b.a", ""),
    ("daba_db", "s", "s", False, "s", "symmetric_product_derivative_daba_db(a) is the Jacobian of b |-> a.b.a", ""),
    ("st2tot2_tpld", "s", "s", False, "t", "st2tot2::tpld(q) is the Jacobian of p |-> p*q (symmetric p, q; unsymmetric product)", ""),
    ("st2tot2_tprd", "s", "s", False, "t", "st2tot2::tprd(q) is the Jacobian of p |-> q*p", ""),
    ("tensor_det", "t", "-", False, "1", "computeDeterminantDerivative(tensor) is the gradient of det(F)", "b"),
    ("tensor_det2", "t", "-", False, "t", "computeDeterminantSecondDerivative(tensor) is the Jacobian of computeDeterminantDerivative(tensor)", "f"),
    ("dCdF", "t", "-", False, "s", "t2tost2::dCdF(F) is the Jacobian of the right Cauchy-Green tensor F^T.F", "b"),
    ("dBdF", "t", "-", False, "s", "t2tost2::dBdF(F) is the Jacobian of the left Cauchy-Green tensor F.F^T", "b"),
    ("tpld", "t", "t", False, "t", "t2tot2::tpld(q) is the Jacobian of p |-> p*q", "b"),
    ("tprd", "t", "t", False, "t", "t2tot2::tprd(q) is the Jacobian of p |-> q*p", "b"),
    ("transpose_derivative", "t", "-", False, "t", "t2tot2::transpose_derivative() is the Jacobian of transpose", "b"),
    ("velocity_gradient", "t", "t", True, "t", "computeVelocityGradientDerivative(F) is the Jacobian of dF |-> dF.F^-1 (det F <> 0)", "c"),
    ("rate_of_deformation", "t", "t", True, "s", "computeRateOfDeformationDerivative(F) is the Jacobian of dF |-> sym(dF.F^-1) (det F <> 0)", "d"),
    ("spin_rate", "t", "t", True, "t", "computeSpinRateDerivative(F) is the Jacobian of dF |-> skew(dF.F^-1) (det F <> 0)", "e"),
]
GROUPS = ["", "b", "c", "d", "e", "f"]


def size(k, N):
    return {"s": SS[N], "t": TS[N], "-": 0, "1": 1}[k]


HDR = "From Coq Require Import Reals List.\nFrom Coquelicot Require Import Coquelicot.\nFrom VLib Require Import RealExtra.\n"


def main():
    st = ["(* C06 -- the statements (written by mkcoq.py, committed): for every helper and space dimension N,\n"
          "   D_<helper>N is the Jacobian of f_<helper>N at every point; f_ and D_ are regenerated from /repo (C06_gen.v). *)\n" + HDR +
          "From C06 Require Import C06Spec C06_gen.\nImport ListNotations.\nLocal Open Scope R_scope.\n"]
    prh = ("(* C06 -- proofs: `jac` (C06Tactics.v) = one auto_derive + field per entry of the Jacobian; nothing depends on the\n"
           "   shape of the traced terms. *)\n" + HDR +
           "From Coq Require Import Lra.\nFrom C06 Require Import C06Spec C06_gen C06Tactics C06Statements.\nImport ListNotations.\nLocal Open Scope R_scope.\n")
    pph = ("(* C06 -- property theorems (statements: C06Statements.v / C06Spec.v; proofs: %s) *)\n" + HDR +
           "From C06 Require Import C06Spec C06_gen C06Statements %s.\nImport ListNotations.\nLocal Open Scope R_scope.\n")
    pr = {g: [prh] for g in GROUPS}
    pp = {g: [pph % ("C06Proofs%s.v" % g.upper(), "C06Proofs%s" % g.upper())] for g in GROUPS}
    for (h, pk, qk, inv, ok, title, g) in HELPERS:
        st.append("\n(* %s *)" % title)
        for N in (1, 2, 3):
            np_, nq, no = size(pk, N), size(qk, N), size(ok, N)
            p = ["p%d" % i for i in range(np_)]
            q = ["q%d" % i for i in range(nq)]
            nm = "%s%d" % (h, N)
            hyp = ("nthR (f_tensor_det%d %s) 0 <> 0 ->\n    " % (N, " ".join(q))) if inv else ""
            st.append("Definition %s_stmt%d : Prop :=\n  forall %s : R,\n    %sis_jacobian %d %d (fun p => f_%s_l p [%s]) (fun p => D_%s_l p [%s]) [%s]." % (
                h, N, " ".join(p + q), hyp, np_, no, nm, "; ".join(q), nm, "; ".join(q), "; ".join(p)))
            unfh = "ltac:(unfold f_tensor_det%d)" % N if inv else "ltac:(idtac)"
            pr[g].append("Lemma %s_ok%d : %s_stmt%d.\nProof. unfold %s_stmt%d. jac ltac:(unfold f_%s_l, f_%s, D_%s_l, D_%s) %s. Qed." % (
                h, N, h, N, h, N, nm, nm, nm, nm, unfh))
        pp[g].append("\n(* %s *)\nTheorem C06_%s : %s_stmt1 /\\ %s_stmt2 /\\ %s_stmt3.\nProof. exact (conj %s_ok1 (conj %s_ok2 %s_ok3)). Qed.\nPrint Assumptions C06_%s." % (
            title, h, h, h, h, h, h, h, h))
    files = [("C06Statements.v", st)]
    for g in GROUPS:
        files.append(("C06Proofs%s.v" % g.upper(), pr[g]))
        files.append(("Properties_C06%s.v" % g, pp[g]))
    for name, txt in files:
        with open(os.path.join(here, "coq", name), "w") as f:
            f.write("\n".join(txt) + "\n")


main()

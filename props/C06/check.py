"""C06 -- closed-form derivative helpers are true derivatives.
Engine S + Coquelicot: every helper is a pair (f, D) of functions of /repo (trace.cxx); both are instantiated with the
symbolic scalar, the straight-line definitions are regenerated on every run and Coq re-proves, entry by entry, that D is the
Jacobian of f at every point (is_derive, auto_derive + field).  Helpers that take the derivative X of an inner function (chain-rule
overloads, stress-derivative conversions, push-forward) are stated with the affine inner function v(p) = v0 + X.p.  Tie to double: Sym-vs-double agreement of f and D.
Failing-input search: the real double code against fourth-order central finite differences of the real double f."""
import os, re
from concurrent.futures import ThreadPoolExecutor
from vlib import guarded_main

SUPPORT = ["src/Exception/ContractViolation.cxx"]
# t1..t7: N = 3 instances of the helpers with a symbolic fourth-order parameter (54..81 entries over 40..96 symbols each), one or two
# lemmas per file; t1..t4 take 40..55 s each, t5..t7 (rational in F: division by det F) 70..300 s: thorough tier only
GROUPS = ["t1", "t2", "t3", "t4", "", "b", "c", "d", "e", "f", "g", "h", "i", "j"]
THOROUGH_GROUPS = ["t5", "t6", "t7"]
# helpers whose positive theorem is false of the pinned tree: group -> (helper, files used while the finding is present)
FINDINGS = {"f": ("tensor_det2", ["C06RefutedF.v", "Properties_C06f_refuted.v"]),
            "g": ("st2tot2_tpld_chain", ["C06RefutedG.v", "Properties_C06g_refuted.v"])}
COMP_S = ["00", "11", "22", "01", "02", "12"]
COMP_T = ["00", "11", "22", "01", "10", "02", "20", "12", "21"]


def parse_run(line):
    t = line.split()
    name, N, h = t[1], int(t[2]), float(t[4])
    ip, iq, io = t.index("p"), t.index("q"), t.index("nout")
    p = [float(x) for x in t[ip + 1:iq]]
    q = [float(x) for x in t[iq + 1:io]]
    nout = int(t[io + 1])
    assert t[io + 2] == "D"
    rest = t[io + 3:]
    nin = len(p)
    D = [float(x) for x in rest[:nout * nin]]
    blocks = []
    k = nout * nin
    while k < len(rest):
        assert rest[k] == "F"
        blocks.append([float(x) for x in rest[k + 1:k + 1 + nout]])
        k += 1 + nout
    assert len(blocks) == 4 * nin, (name, N, len(blocks))
    return name, N, h, p, q, nout, D, blocks


def main(c):
    exe = c.cxx("trace", ["trace.cxx"], SUPPORT)
    gen = os.path.join(c.work, "coq", "C06_gen.v")
    os.makedirs(os.path.dirname(gen), exist_ok=True)
    nag = c.pick(300, 20000)
    rc, out, err = c.run([exe, "gen", gen, str(c.seed), str(nag)], timeout=1500)
    if rc != 0:
        c.report("trace", "tracer failed on /repo's derivative helpers: " + err[-500:], {"stderr": err[-3000:]}, False)
        return
    nagree = 0
    shapes = {}
    for l in out.splitlines():
        if l.startswith("AGREE-FAIL"):
            t = l.split()
            c.report("agree:%s:%s" % (t[1], t[2]), "traced DAG (long double evaluation) and double instantiation disagree: " + l[:600], {"line": l}, True)
        elif l.startswith("AGREE "):
            nagree += int(l.split("cases=")[1].split()[0])
        elif l.startswith("SHAPE "):
            t = l.split()
            shapes[(t[1], int(t[2]))] = (int(t[3].split("=")[1]), int(t[4].split("=")[1]))
    c.count(nagree)
    c.coverage["traces_validated_against_impl"] = nagree
    c.trusted("engine S tracer (cxx/sym/sym.hxx: operator overloads, constant folding in Q[sqrt2], printer), the trait glue "
              "cxx/sym/symtfel.hxx and g++'s template instantiation of the helpers with Sym",
              "Sym-vs-double agreement of f and D of the %d helper instances on %d seeded points (O(1) and one common scale 1e-20..1e20); "
              "tolerance 1e-10 relative to the magnitude of the outputs" % (len(shapes), nagree))

    # ---- the real double code against finite differences of the real double function
    ncase = c.pick(25, 1500)
    rc, out, err = c.run([exe, "run", str(c.seed), str(ncase)], timeout=1500)
    if rc != 0:
        c.report("run", "driver failed: " + err[-500:], {"stderr": err[-3000:]}, False)
        return
    nrun = 0
    failed = set()
    for line in out.splitlines():
        if not line.startswith("RUN "):
            continue
        name, N, h, p, q, nout, D, blocks = parse_run(line)
        nin = len(p)
        nrun += 1
        c.count(nout * nin, (name, N), True)
        mag = max([1.0] + [abs(x) for x in D] + [abs(x) for b in blocks for x in b])
        worst = None
        for j in range(nin):
            fp, fm, fp2, fm2 = blocks[4 * j:4 * j + 4]
            for i in range(nout):
                fd = (-fp2[i] + 8.0 * fp[i] - 8.0 * fm[i] + fm2[i]) / (12.0 * h)
                e = abs(fd - D[i * nin + j])
                if not (e <= 1e-7 * mag):
                    if worst is None or e > worst[0]:
                        worst = (e, i, j, fd, D[i * nin + j])
        if nrun % 400 == 1:
            c.sample({"helper": name, "N": N, "p": p, "q": q, "D_first_row": D[:nin]})
        if worst is not None and (name, N) not in failed:
            failed.add((name, N))
            e, i, j, fd, dv = worst
            c.report("run:%s:N%d" % (name, N),
                     "%s (N=%d): entry (%d,%d) of the returned derivative is %.9g but the finite difference of the function of /repo is %.9g "
                     "at p=%s q=%s" % (name, N, i, j, dv, fd, p, q),
                     {"helper": name, "N": N, "p": p, "q": q, "row": i, "column": j, "returned": dv, "finite_difference": fd, "h": h,
                      "how": "props/C06/trace.cxx `run`: D(p) and f(p +- h e_j), f(p +- 2h e_j) of the real double code; fourth-order central difference"},
                     True)
    c.coverage["rule"] = ("%d helper instances (%d helpers x N=1,2,3) x %d seeded points in [-2,2]^n (invertible F = I + perturbation where the "
                          "helper or the function divides by det F); every entry of the Jacobian against a fourth-order central difference (h=1e-4, "
                          "tolerance 1e-7)") % (len(shapes), len(shapes) // 3, ncase)
    c.coverage["executions_against_numeric_spec"] = nrun

    # ---- theorems, re-checked against the regenerated definitions
    base = c.coq([gen, "C06Spec.v", "C06Tactics.v", "C06Statements.v"], timeout=600)
    results = [("base", base)]
    if base.ok:
        jobs = []
        for g in GROUPS + (THOROUGH_GROUPS if not c.quick() else []):
            if g in FINDINGS and any(n == FINDINGS[g][0] for (n, _N) in failed):
                # the positive theorem is false of this tree: prove what is true (lower dimensions) and the refutation
                jobs.append((g, FINDINGS[g][1]))
                c.notes.append("%s: positive theorem replaced by its refutation (finding present)" % FINDINGS[g][0])
            else:
                jobs.append((g, ["C06Proofs%s.v" % g.upper(), "Properties_C06%s.v" % g]))
        # heaviest first; 4 coqc at a time
        jobs.sort(key=lambda j: 0 if j[0] in THOROUGH_GROUPS else 1)
        with ThreadPoolExecutor(max_workers=4) as ex:
            fs = [(g, files, ex.submit(c.coq, files, 3400 if g.startswith("t") else 1500)) for (g, files) in jobs]
            for (g, files, f) in fs:
                res = f.result()
                results.append((g, res))
                if files[1] not in [x[0] for x in res.files]:  # proofs file broke before the property file was reached
                    txt = open(os.path.join(c.dir, "coq", files[1])).read()
                    c.coverage["obligations"] += len(re.findall(r"^Theorem ", txt, flags=re.M))
                for (fn, line, thm, msg) in res.failed:
                    # coqc prints the Coquelicot coercion warning (line 4) before the error: take the last location of the message
                    locs = re.findall(r'line (\d+), characters', msg or "")
                    if locs:
                        line = int(locs[-1])
                    if (fn.startswith("C06Proofs") or fn.startswith("C06Refuted")) and line:
                        lem = [m.group(1) for i, l in enumerate(open(os.path.join(c.dir, "coq", fn)).read().splitlines())
                               for m in [re.match(r"Lemma (\w+)", l)] if m and i + 1 <= line]
                        if lem:
                            c.notes.append("broken lemma: %s (%s line %d)" % (lem[-1], fn, line))
    if c.quick():
        c.notes.append("quick tier: the 3D instances of computeCauchyStressDerivativeFromKirchhoffStressDerivative, convertSecondPiolaKirchhoffStressDerivativeTo"
                       "FirstPiolaKirchoffStressDerivative and convertFirstPiolaKirchoffStressDerivativeToKirchhoffStressDerivative are proved in the thorough tier only "
                       "(Properties_C06t5..t7.v); their 1D and 2D instances and every other helper are proved here")
    # entries of the Jacobians proved in this run: instances whose lemma `<helper>_ok<N>` is in a proofs file that compiled
    proved = 0
    for (g, res) in results:
        for (fn, ok, _dt) in res.files:
            if ok and (fn.startswith("C06Proofs") or fn.startswith("C06Refuted")):
                for m in re.finditer(r"^Lemma (\w+)_ok(\d) ", open(os.path.join(c.dir, "coq", fn)).read(), flags=re.M):
                    a, b = shapes.get((m.group(1), int(m.group(2))), (0, 0))
                    proved += a * b
    c.coverage["jacobian_entries_proved_per_run"] = proved
    for (g, res) in results:
        if res.ok:
            continue
        if any(v[3] for v in c.violations):  # new concrete failing inputs explain the broken obligations
            c.notes.append("proof obligations failed: %s; concrete failing inputs reported by the finite-difference run for %s" % (
                [(f[0], f[2]) for f in res.failed], sorted(failed)))
        else:
            c.coq_failures(res, None)


guarded_main("C06", main)

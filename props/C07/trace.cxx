// C07: tracer (engine S, path enumeration over the pivot / eps / sign tests) of the dense solvers of /repo
//   trace gen <out.v> <seed> : complete decision trees as Coq definitions + Sym-vs-double agreement lines
#include "symtfel.hxx"
#include "TFEL/Math/tvector.hxx"
#include "TFEL/Math/tmatrix.hxx"
#include "TFEL/Math/vector.hxx"
#include "TFEL/Math/matrix.hxx"
#include "TFEL/Math/TinyMatrixSolve.hxx"
#include "TFEL/Math/TinyMatrixInvert.hxx"
#include "TFEL/Math/QR/QRDecomp.hxx"
#include <array>
#include <cmath>
#include <cstring>
#include <functional>
#include <iostream>
#include <random>
#include <stdexcept>

using namespace symv;
using tfel::math::tmatrix;
using tfel::math::tvector;

struct Failure : std::runtime_error {
  Failure() : std::runtime_error("failure reported") {}
};

// kind 0: TinyMatrixSolve<N>::exe (vector rhs; Cramer closed forms for N<=3)
// kind 1: TinyMatrixSolve<N>::exe (matrix rhs, 2 columns)
// kind 2: TinyMatrixSolveBase<N>::decomp + back_substitute (the LU path used by TinyMatrixInvert and by N>3)
// kind 3: TinyMatrixInvert<N>::exe
template <unsigned short N, typename T>
std::vector<T> run(int kind, const std::vector<T>& a, const std::vector<T>& rhs, const T eps) {
  tmatrix<N, N, T> m;
  for (unsigned short i = 0; i < N; ++i)
    for (unsigned short j = 0; j < N; ++j) m(i, j) = a[N * i + j];
  std::vector<T> r;
  if (kind == 0) {
    tvector<N, T> b;
    for (unsigned short i = 0; i < N; ++i) b(i) = rhs[i];
    if (!tfel::math::TinyMatrixSolve<N, T, false>::exe(m, b, eps)) throw Failure();
    for (unsigned short i = 0; i < N; ++i) r.push_back(b(i));
  } else if (kind == 1) {
    tmatrix<N, 2, T> b;
    for (unsigned short i = 0; i < N; ++i)
      for (unsigned short k = 0; k < 2; ++k) b(i, k) = rhs[2 * i + k];
    if (!tfel::math::TinyMatrixSolve<N, T, false>::exe(m, b, eps)) throw Failure();
    for (unsigned short i = 0; i < N; ++i)
      for (unsigned short k = 0; k < 2; ++k) r.push_back(b(i, k));
  } else if (kind == 2) {
    tvector<N, T> b;
    for (unsigned short i = 0; i < N; ++i) b(i) = rhs[i];
    tfel::math::TinyPermutation<N> p;
    using Base = tfel::math::TinyMatrixSolveBase<N, T, false, false>;
    if (!Base::decomp(m, p, eps)) throw Failure();
    if (!Base::back_substitute(m, p, b, eps)) throw Failure();
    for (unsigned short i = 0; i < N; ++i) r.push_back(b(i));
  } else {
    tfel::math::TinyMatrixInvert<N, T>::exe(m, eps);  // throws on failure
    for (unsigned short i = 0; i < N; ++i)
      for (unsigned short j = 0; j < N; ++j) r.push_back(m(i, j));
  }
  return r;
}

// TinyMatrixSolveBase<N>::back_substitute alone, on a given factorised matrix m and a permutation built by the swaps
// LUDecomp performs (step i exchanges positions i and sw[i] >= i).  M = 0: tvector right-hand side, M = 2: tmatrix<N,2>
template <unsigned short N, unsigned short M, typename T>
std::vector<T> run_bs(const std::array<int, N>& sw, const std::vector<T>& a, const std::vector<T>& rhs, const T eps) {
  tmatrix<N, N, T> m;
  for (unsigned short i = 0; i < N; ++i)
    for (unsigned short j = 0; j < N; ++j) m(i, j) = a[N * i + j];
  tfel::math::TinyPermutation<N> p;
  for (unsigned short i = 0; i + 1 < N; ++i)
    if (sw[i] != i) p.swap(static_cast<unsigned short>(sw[i]), i);
  using Base = tfel::math::TinyMatrixSolveBase<N, T, false, false>;
  std::vector<T> r;
  if constexpr (M == 0) {
    tvector<N, T> b;
    for (unsigned short i = 0; i < N; ++i) b(i) = rhs[i];
    if (!Base::back_substitute(m, p, b, eps)) throw Failure();
    for (unsigned short i = 0; i < N; ++i) r.push_back(b(i));
  } else {
    tmatrix<N, M, T> b;
    for (unsigned short i = 0; i < N; ++i)
      for (unsigned short k = 0; k < M; ++k) b(i, k) = rhs[M * i + k];
    if (!Base::back_substitute(m, p, b, eps)) throw Failure();
    for (unsigned short i = 0; i < N; ++i)
      for (unsigned short k = 0; k < M; ++k) r.push_back(b(i, k));
  }
  return r;
}

// QR: QRDecomp::exe, then tq_product and back_substitute: the solution of a x = b (throws QRNullPivot)
template <typename T>
std::vector<T> run_qr(const int n, const std::vector<T>& a, const std::vector<T>& rhs, const T eps) {
  tfel::math::matrix<T> m(n, n);
  tfel::math::vector<T> rdiag(n), beta(n), v(n);
  for (int i = 0; i < n; ++i) {
    v(i) = rhs[i];
    for (int j = 0; j < n; ++j) m(i, j) = a[n * i + j];
  }
  tfel::math::QRDecomp::exe(m, rdiag, beta);
  tfel::math::QRDecomp::tq_product(v, m, beta);
  tfel::math::QRDecomp::back_substitute(v, m, rdiag, eps);
  std::vector<T> r;
  for (int i = 0; i < n; ++i) r.push_back(v(i));
  return r;
}
struct QRx : tfel::math::QRDecomp {
  using tfel::math::QRDecomp::householder_product;
};
// the Householder reflector number c of QRDecomp::exe(a): outputs H_c w, H_c u (two arbitrary vectors),
// then for c = 0: H_0 (column 0 of a), rdiag(0), and for j >= 1 the pairs (first entry of H_0 (column j of a), a'(0, j));
// last output: beta(c)
template <typename T>
std::vector<T> run_hh(const int n, const int c, const std::vector<T>& a, const std::vector<T>& wu) {
  tfel::math::matrix<T> m(n, n);
  tfel::math::vector<T> rdiag(n), beta(n), w(n), u(n);
  for (int i = 0; i < n; ++i) {
    w(i) = wu[i];
    u(i) = wu[n + i];
    for (int j = 0; j < n; ++j) m(i, j) = a[n * i + j];
  }
  tfel::math::QRDecomp::exe(m, rdiag, beta);
  QRx::householder_product(w, m, beta, static_cast<decltype(m.getNbRows())>(c));
  QRx::householder_product(u, m, beta, static_cast<decltype(m.getNbRows())>(c));
  std::vector<T> r;
  for (int i = 0; i < n; ++i) r.push_back(w(i));
  for (int i = 0; i < n; ++i) r.push_back(u(i));
  if (c == 0) {
    for (int j = 0; j < n; ++j) {
      tfel::math::vector<T> col(n);
      for (int i = 0; i < n; ++i) col(i) = a[n * i + j];
      QRx::householder_product(col, m, beta, static_cast<decltype(m.getNbRows())>(0));
      if (j == 0) {
        for (int i = 0; i < n; ++i) r.push_back(col(i));
        r.push_back(rdiag(0));
      } else {
        r.push_back(col(0));
        r.push_back(m(0, j));
      }
    }
  }
  r.push_back(beta(c));
  return r;
}

static long double det_ld(int n, std::vector<long double> a) {
  long double det = 1;
  for (int i = 0; i < n; ++i) {
    int piv = i;
    for (int j = i + 1; j < n; ++j)
      if (std::fabs(a[n * j + i]) > std::fabs(a[n * piv + i])) piv = j;
    if (a[n * piv + i] == 0) return 0;
    if (piv != i) {
      for (int k = 0; k < n; ++k) std::swap(a[n * i + k], a[n * piv + k]);
      det = -det;
    }
    det *= a[n * i + i];
    for (int j = i + 1; j < n; ++j) {
      const long double f = a[n * j + i] / a[n * i + i];
      for (int k = i; k < n; ++k) a[n * j + k] -= f * a[n * i + k];
    }
  }
  return det;
}

// smallest relative margin |x - y| / max(1, |x|, |y|) of the comparisons taken by the leaf selected by env: a decision taken
// within rounding noise (e.g. the sign test of a reduced entry that is exactly 0) may go the other way in binary64
static long double decision_margin(const std::vector<Leaf>& ls, const Env& env) {
  for (auto& L : ls) {
    bool ok = true;
    long double margin = 1;
    std::map<int, long double> memo;
    for (auto& c : L.conds) {
      const long double x = eval_node(c.a, env, memo, nullptr), y = eval_node(c.b, env, memo, nullptr);
      const bool v = c.rel == LT ? x < y : (c.rel == LE ? x <= y : x == y);
      if (v != c.value) {
        ok = false;
        break;
      }
      margin = std::min(margin, std::fabs(x - y) / std::max<long double>({1.0L, std::fabs(x), std::fabs(y)}));
    }
    if (ok) return margin;
  }
  return 0;
}

// decision tree of fs over the variables vs, then agreement with the double instantiation fd on seeded inputs (small
// integers: ties and null pivots occur; reals).  The first nmat variables are the entries of an nn x nn matrix.
// tol_singular: a verdict / value disagreement on an (almost) exactly singular matrix depends on rounding only.
static void gen(Trace& tr, const std::string& name, const std::vector<Sym>& vs, const std::vector<std::string>& names,
                const std::function<std::vector<Sym>()>& fs, const std::function<std::vector<double>(const std::vector<double>&)>& fd,
                int nn, std::mt19937_64& rng, int ncases = 400, bool eps_last = true) {
  auto leaves = tr.def_paths(name, vs, fs, 200000);
  std::printf("LEAVES %s %zu\n", name.c_str(), leaves.size());
  std::uniform_int_distribution<int> small(-3, 3);
  std::uniform_real_distribution<double> uni(-2, 2);
  int nfail = 0, nnone = 0, ntot = 0, nsing = 0;
  for (int t = 0; t < ncases; ++t) {
    Env env;
    std::vector<double> d;
    for (size_t k = 0; k < names.size(); ++k) {
      double v = t % 2 ? small(rng) : uni(rng);
      if (eps_last && k + 1 == names.size()) v = 0x1p-1000;
      env[names[k]] = v;
      d.push_back(v);
    }
    std::vector<long double> r;
    std::string err;
    ++ntot;
    if (!eval_leaves(leaves, env, r, &err)) {
      std::printf("AGREE-FAIL %s no leaf for case %d\n", name.c_str(), t);
      ++nfail;
      continue;
    }
    bool dfail = false;
    std::vector<double> dres;
    try {
      dres = fd(d);
    } catch (std::exception&) {
      dfail = true;
    }
    bool singular = false;
    if (nn > 0) {
      std::vector<long double> a(d.begin(), d.begin() + nn * nn);
      singular = std::fabs(det_ld(nn, a)) < 1e-12L;
    }
    bool ok = dfail == !err.empty();
    if (dfail) ++nnone;
    if (ok && !dfail) {
      ok = dres.size() == r.size();
      for (size_t k = 0; ok && k < dres.size(); ++k) {
        const long double sc = std::max<long double>(1, std::fabs(r[k]));
        ok = std::fabs(dres[k] - r[k]) <= 1e-7L * sc;  // ill-conditioned random systems lose digits in double
      }
    }
    if (!ok && (singular || decision_margin(leaves, env) < 1e-9L)) {
      ++nsing;
      continue;
    }
    if (!ok) {
      ++nfail;
      std::printf("AGREE-FAIL %s case %d in=", name.c_str(), t);
      for (auto v : d) std::printf("%.17g,", v);
      std::printf("\n");
    }
  }
  std::printf("AGREE %s cases=%d failures_reported=%d disagreements=%d rounding_dependent=%d\n", name.c_str(), ntot, nnone, nfail, nsing);
}

static std::vector<std::string> names_of(const char* p, int n) {
  std::vector<std::string> r;
  for (int i = 0; i < n; ++i) r.push_back(std::string(p) + std::to_string(i));
  return r;
}
static std::vector<std::string> cat(std::vector<std::string> a, const std::vector<std::string>& b) {
  a.insert(a.end(), b.begin(), b.end());
  return a;
}
static std::vector<Sym> symcat(std::vector<Sym> a, const std::vector<Sym>& b) {
  a.insert(a.end(), b.begin(), b.end());
  return a;
}

static const char* kname[4] = {"solve", "solvem", "lu", "invert"};

template <unsigned short N>
void gen_tiny(Trace& tr, int kind, std::mt19937_64& rng) {
  auto a = vars("a", N * N);
  const int nb = kind == 0 || kind == 2 ? N : (kind == 1 ? 2 * N : 0);
  auto b = vars("b", nb);
  auto eps = var("eps");
  auto all = symcat(symcat(a, b), {eps});
  auto names = cat(cat(names_of("a", N * N), names_of("b", nb)), {"eps"});
  const std::string name = std::string(kname[kind]) + std::to_string(N);
  gen(tr, name, all, names, [&] { return run<N, Sym>(kind, a, b, eps); },
      [&](const std::vector<double>& d) {
        std::vector<double> da(d.begin(), d.begin() + N * N), db(d.begin() + N * N, d.begin() + N * N + nb);
        return run<N, double>(kind, da, db, d.back());
      },
      N, rng);
}

// every permutation LUDecomp can produce on N rows (swap sequences), named by its image p(0)p(1)...
template <unsigned short N, unsigned short M>
void gen_bs(Trace& tr, std::mt19937_64& rng) {
  std::array<int, N> sw;
  std::function<void(int)> rec = [&](int i) {
    if (i + 1 >= N) {
      std::array<int, N> p;
      for (int k = 0; k < N; ++k) p[k] = k;
      for (int k = 0; k + 1 < N; ++k) std::swap(p[k], p[sw[k]]);
      std::string name = M == 0 ? "bsv" : "bsm";
      name += std::to_string(N) + "_";
      for (int k = 0; k < N; ++k) name += std::to_string(p[k]);
      auto a = vars("a", N * N);
      const int nb = M == 0 ? N : N * M;
      auto b = vars("b", nb);
      auto eps = var("eps");
      auto all = symcat(symcat(a, b), {eps});
      auto names = cat(cat(names_of("a", N * N), names_of("b", nb)), {"eps"});
      const auto s = sw;
      gen(tr, name, all, names, [&] { return run_bs<N, M, Sym>(s, a, b, eps); },
          [&](const std::vector<double>& d) {
            std::vector<double> da(d.begin(), d.begin() + N * N), db(d.begin() + N * N, d.begin() + N * N + nb);
            return run_bs<N, M, double>(s, da, db, d.back());
          },
          0, rng, 100);
      return;
    }
    for (int j = i; j < N; ++j) {
      sw[i] = j;
      rec(i + 1);
    }
  };
  rec(0);
}

static void gen_qr(Trace& tr, int n, std::mt19937_64& rng) {
  auto a = vars("a", n * n);
  auto b = vars("b", n);
  auto eps = var("eps");
  auto all = symcat(symcat(a, b), {eps});
  auto names = cat(cat(names_of("a", n * n), names_of("b", n)), {"eps"});
  gen(tr, "qrsolve" + std::to_string(n), all, names, [&] { return run_qr<Sym>(n, a, b, eps); },
      [&](const std::vector<double>& d) {
        std::vector<double> da(d.begin(), d.begin() + n * n), db(d.begin() + n * n, d.begin() + n * n + n);
        return run_qr<double>(n, da, db, d.back());
      },
      n, rng);
}
static void gen_hh(Trace& tr, int n, int c, std::mt19937_64& rng) {
  auto a = vars("a", n * n);
  auto w = vars("w", n);
  auto u = vars("u", n);
  auto all = symcat(symcat(a, w), u);
  auto names = cat(cat(names_of("a", n * n), names_of("w", n)), names_of("u", n));
  gen(tr, "qrh" + std::to_string(n) + "_" + std::to_string(c), all, names, [&] { return run_hh<Sym>(n, c, a, symcat(w, u)); },
      [&](const std::vector<double>& d) {
        std::vector<double> da(d.begin(), d.begin() + n * n), dw(d.begin() + n * n, d.end());
        return run_hh<double>(n, c, da, dw);
      },
      n, rng, 400, false);
}

int main(int argc, char** argv) {
  if (argc >= 3 && !std::strcmp(argv[1], "gen")) {
    Trace tr("C07_gen");
    std::string base = argv[2];  // <dir>/C07_gen.v -> <dir>/C07_gen{,bs,qr}.v
    if (base.size() > 2 && base.substr(base.size() - 2) == ".v") base.resize(base.size() - 2);
    std::mt19937_64 rng(argc >= 4 ? std::strtoull(argv[3], nullptr, 10) : 1);
    for (int kind = 0; kind < 4; ++kind) {
      gen_tiny<1>(tr, kind, rng);
      gen_tiny<2>(tr, kind, rng);
      gen_tiny<3>(tr, kind, rng);
    }
    tr.write(argv[2]);
    // back substitution alone, N = 4, every permutation, matrix (two columns) and vector right-hand sides
    Trace tb("C07_genbs");
    gen_bs<4, 2>(tb, rng);
    gen_bs<4, 0>(tb, rng);
    tb.write(base + "bs.v");
    // QR
    Trace tq("C07_genqr");
    gen_qr(tq, 1, rng);
    gen_qr(tq, 2, rng);
    gen_qr(tq, 3, rng);
    gen_hh(tq, 2, 0, rng);
    gen_hh(tq, 2, 1, rng);
    gen_hh(tq, 3, 0, rng);
    gen_hh(tq, 3, 1, rng);
    gen_hh(tq, 3, 2, rng);
    tq.write(base + "qr.v");
    return 0;
  }
  return 2;
}

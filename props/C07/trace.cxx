// C07: tracer (engine S, path enumeration over the pivot / eps tests) of the fixed-size dense solvers of /repo
//   trace gen <out.v>   : complete decision trees as Coq definitions + Sym-vs-double agreement lines
#include "symtfel.hxx"
#include "TFEL/Math/tvector.hxx"
#include "TFEL/Math/tmatrix.hxx"
#include "TFEL/Math/TinyMatrixSolve.hxx"
#include "TFEL/Math/TinyMatrixInvert.hxx"
#include <cmath>
#include <cstring>
#include <iostream>
#include <random>
#include <stdexcept>

using namespace symv;
using tfel::math::tmatrix;
using tfel::math::tvector;

struct Failure : std::runtime_error {
  Failure() : std::runtime_error("failure reported") {}
};

// kind 0: TinyMatrixSolve<N>::exe (vector rhs; Cramer closed forms for N<=3)
// kind 1: TinyMatrixSolve<N>::exe (matrix rhs, 2 columns)
// kind 2: TinyMatrixSolveBase<N>::decomp + back_substitute (the LU path used by TinyMatrixInvert and by N>3)
// kind 3: TinyMatrixInvert<N>::exe
template <unsigned short N, typename T>
std::vector<T> run(int kind, const std::vector<T>& a, const std::vector<T>& rhs, const T eps) {
  tmatrix<N, N, T> m;
  for (unsigned short i = 0; i < N; ++i)
    for (unsigned short j = 0; j < N; ++j) m(i, j) = a[N * i + j];
  std::vector<T> r;
  if (kind == 0) {
    tvector<N, T> b;
    for (unsigned short i = 0; i < N; ++i) b(i) = rhs[i];
    if (!tfel::math::TinyMatrixSolve<N, T, false>::exe(m, b, eps)) throw Failure();
    for (unsigned short i = 0; i < N; ++i) r.push_back(b(i));
  } else if (kind == 1) {
    tmatrix<N, 2, T> b;
    for (unsigned short i = 0; i < N; ++i)
      for (unsigned short k = 0; k < 2; ++k) b(i, k) = rhs[2 * i + k];
    if (!tfel::math::TinyMatrixSolve<N, T, false>::exe(m, b, eps)) throw Failure();
    for (unsigned short i = 0; i < N; ++i)
      for (unsigned short k = 0; k < 2; ++k) r.push_back(b(i, k));
  } else if (kind == 2) {
    tvector<N, T> b;
    for (unsigned short i = 0; i < N; ++i) b(i) = rhs[i];
    tfel::math::TinyPermutation<N> p;
    using Base = tfel::math::TinyMatrixSolveBase<N, T, false, false>;
    if (!Base::decomp(m, p, eps)) throw Failure();
    if (!Base::back_substitute(m, p, b, eps)) throw Failure();
    for (unsigned short i = 0; i < N; ++i) r.push_back(b(i));
  } else {
    tfel::math::TinyMatrixInvert<N, T>::exe(m, eps);  // throws on failure
    for (unsigned short i = 0; i < N; ++i)
      for (unsigned short j = 0; j < N; ++j) r.push_back(m(i, j));
  }
  return r;
}

static const char* kname[4] = {"solve", "solvem", "lu", "invert"};

template <unsigned short N>
void gen(Trace& tr, int kind, std::mt19937_64& rng) {
  auto a = vars("a", N * N);
  const int nb = kind == 0 || kind == 2 ? N : (kind == 1 ? 2 * N : 0);
  auto b = vars("b", nb);
  auto eps = var("eps");
  std::vector<Sym> all = a;
  all.insert(all.end(), b.begin(), b.end());
  all.push_back(eps);
  const std::string name = std::string(kname[kind]) + std::to_string(N);
  auto leaves = tr.def_paths(name, all, [&] { return run<N, Sym>(kind, a, b, eps); }, 200000);
  std::printf("LEAVES %s %zu\n", name.c_str(), leaves.size());
  // agreement with the double instantiation on seeded inputs (small integers: ties and null pivots occur)
  std::uniform_int_distribution<int> small(-3, 3);
  std::uniform_real_distribution<double> uni(-2, 2);
  int nfail = 0, nnone = 0, ntot = 0, nsing = 0;
  for (int t = 0; t < 400; ++t) {
    Env env;
    std::vector<double> da, db;
    for (int k = 0; k < N * N; ++k) {
      double v = t % 2 ? small(rng) : uni(rng);
      env["a" + std::to_string(k)] = v;
      da.push_back(v);
    }
    for (int k = 0; k < nb; ++k) {
      double v = t % 2 ? small(rng) : uni(rng);
      env["b" + std::to_string(k)] = v;
      db.push_back(v);
    }
    const double e = 0x1p-1000;
    env["eps"] = e;
    std::vector<long double> r;
    std::string err;
    ++ntot;
    if (!eval_leaves(leaves, env, r, &err)) {
      std::printf("AGREE-FAIL %s no leaf for case %d\n", name.c_str(), t);
      ++nfail;
      continue;
    }
    bool dfail = false;
    std::vector<double> d;
    try {
      d = run<N, double>(kind, da, db, e);
    } catch (std::exception&) {
      dfail = true;
    }
    bool singular = false;
    {
      // exactly singular matrix whose elimination is not exact in binary64: the verdict of the double instantiation
      // depends on rounding (tiny non-null pivot); not a disagreement of the translation
      long double det = 1;
      if (N == 1) det = da[0];
      if (N == 2) det = (long double)da[0] * da[3] - (long double)da[1] * da[2];
      if (N == 3)
        det = (long double)da[0] * ((long double)da[4] * da[8] - (long double)da[5] * da[7]) -
              (long double)da[1] * ((long double)da[3] * da[8] - (long double)da[5] * da[6]) +
              (long double)da[2] * ((long double)da[3] * da[7] - (long double)da[4] * da[6]);
      singular = std::fabs(det) < 1e-12L;
    }
    bool ok = dfail == !err.empty();
    if (dfail) ++nnone;

    if (ok && !dfail) {
      ok = d.size() == r.size();
      for (size_t k = 0; ok && k < d.size(); ++k) {
        const long double sc = std::max<long double>(1, std::fabs(r[k]));
        ok = std::fabs(d[k] - r[k]) <= 1e-7L * sc;  // ill-conditioned random systems lose digits in double
      }
    }
    if (!ok && singular) {
      ++nsing;
      continue;
    }
    if (!ok) {
      ++nfail;
      std::printf("AGREE-FAIL %s case %d a=", name.c_str(), t);
      for (auto v : da) std::printf("%.17g,", v);
      std::printf(" b=");
      for (auto v : db) std::printf("%.17g,", v);
      std::printf("\n");
    }
  }
  std::printf("AGREE %s cases=%d failures_reported=%d disagreements=%d singular_rounding_dependent=%d\n", name.c_str(), ntot, nnone, nfail, nsing);
}

int main(int argc, char** argv) {
  if (argc >= 3 && !std::strcmp(argv[1], "gen")) {
    Trace tr("C07_gen");
    std::mt19937_64 rng(argc >= 4 ? std::strtoull(argv[3], nullptr, 10) : 1);
    for (int kind = 0; kind < 2; ++kind) {
      gen<1>(tr, kind, rng);
      gen<2>(tr, kind, rng);
      gen<3>(tr, kind, rng);
    }
    gen<1>(tr, 2, rng);
    gen<2>(tr, 2, rng);
    gen<3>(tr, 2, rng);
    tr.write(argv[2]);
    return 0;
  }
  return 2;
}

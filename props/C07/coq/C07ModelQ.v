(* C07 -- the model of C07Model.v instantiated on the exact rationals Qc (canonical fractions, Leibniz equality:
   the theorems of C07LU.v apply to it, see C07Inst.v) and the entry points evaluated by the harness.
   Definitions only. *)
From Coq Require Import QArith Qcanon Qcabs List Bool Arith.
From C07 Require Import C07Model.
Import ListNotations.

Definition Qcltb (a b : Qc) : bool := negb (Qle_bool b a).
Definition Qc01 : Qc := Q2Qc (1 # 10).

Definition Qlu_decomp := C07Model.lu_decomp Qc 0%Qc Qcplus Qcmult Qcminus Qcdiv Qcabs Qcltb Qc01.
Definition Qlu_solve := C07Model.lu_solve Qc 0%Qc Qcplus Qcmult Qcminus Qcdiv Qcabs Qcltb Qc01.
Definition Qlu_solve_mat := C07Model.lu_solve_mat Qc 0%Qc Qcplus Qcmult Qcminus Qcdiv Qcabs Qcltb Qc01.
Definition Qlu_invert := C07Model.lu_invert Qc 0%Qc 1%Qc Qcplus Qcmult Qcminus Qcdiv Qcabs Qcltb Qc01.

Definition qmat (a : list (list Q)) : C07Model.matF Qc := C07Model.mat_of_list Qc 0%Qc (map (map Q2Qc) a).
Definition qvec (b : list Q) : nat -> Qc := C07Model.vec_of_list Qc 0%Qc (map Q2Qc b).
(* results are printed as pairs (numerator, denominator) of integers: the printing of Q literals depends on the notations in scope *)
Definition qout (l : list Qc) : list (Z * Z) := map (fun q => (Qnum (this q), Zpos (Qden (this q)))) l.

(* exact residual tests used by the harness on the model's own answers (independent of the theorems) *)
Definition Qsum (n : nat) (f : nat -> Qc) : Qc := fold_right (fun k acc => Qcplus (f k) acc) 0%Qc (seq 0 n).
Definition solves_exactly (n M : nat) (a x b : C07Model.matF Qc) : bool :=
  forallb (fun r => forallb (fun k => Qc_eq_bool (Qsum n (fun c => Qcmult (a r c) (x c k))) (b r k)) (seq 0 M)) (seq 0 n).

(* vector right-hand side: LUSolve::exe (chk = false), TinyMatrixSolve<N>::exe (chk = true); (verdict, exact, x) *)
Definition run_vec (chk : bool) (n : nat) (eps : Q) (a : list (list Q)) (b : list Q) :=
  match Qlu_solve n (Q2Qc eps) chk (qmat a) (qvec b) with
  | None => (false, true, [])
  | Some x => (true, solves_exactly n 1 (qmat a) (fun r _ => x r) (fun r _ => qvec b r), qout (C07Model.list_of_vec Qc n x))
  end.
Definition run_eps := run_vec true.
Definition run_lus := run_vec false.
(* matrix right-hand side with M columns (row-major b and result): TinyMatrixSolve<N>::exe(m, tmatrix<N,M>&, eps) *)
Definition run_mat (n M : nat) (eps : Q) (a : list (list Q)) (b : list (list Q)) :=
  match Qlu_solve_mat n M (Q2Qc eps) true (qmat a) (qmat b) with
  | None => (false, true, [])
  | Some x => (true, solves_exactly n M (qmat a) x (qmat b), qout (C07Model.list_of_mat Qc n M x))
  end.
(* TinyMatrixInvert<N>::exe: the inverse, row-major *)
Definition run_inv (n : nat) (eps : Q) (a : list (list Q)) (b : list Q) :=
  match Qlu_invert n (Q2Qc eps) (qmat a) with
  | None => (false, true, [])
  | Some x => (true, solves_exactly n n (qmat a) x (fun i j => if Nat.eqb i j then 1%Qc else 0%Qc),
               qout (C07Model.list_of_mat Qc n n x))
  end.
(* the permutation vector left by the factorisation (coverage of the harness: which rows moved) *)
Definition run_perm (n : nat) (eps : Q) (a : list (list Q)) : list nat :=
  match Qlu_decomp n (Q2Qc eps) (qmat a) with
  | None => []
  | Some (_, p) => map p (seq 0 n)
  end.

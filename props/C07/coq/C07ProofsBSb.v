(* C07 -- TinyMatrixSolveBase<4>::back_substitute (tmatrix<4,2> right-hand side) traced alone on a symbolic factorised matrix, for the
   permutations 0213 0321 0312 1023 1032 1203 1320 2103 2130 2013 2301 2310 3102 3210 3021 3012 (every permutation LUDecomp can produce is covered by the files C07ProofsBSa, BSb, BSv): when it
   returns true, the result solves (L U) X = P B.  GENERATED once by a script (one lemma per permutation), static since. *)
From Coq Require Import Reals List Lra Nsatz.
From C07 Require Import C07Spec C07Tactics C07_genbs.
Import ListNotations.
Local Open Scope R_scope.

Lemma bsm4_0213_ok a0 a1 a2 a3 a4 a5 a6 a7 a8 a9 a10 a11 a12 a13 a14 a15 b0 b1 b2 b3 b4 b5 b6 b7 eps x (Heps : 0 < eps) :
  bsm4_0213 a0 a1 a2 a3 a4 a5 a6 a7 a8 a9 a10 a11 a12 a13 a14 a15 b0 b1 b2 b3 b4 b5 b6 b7 eps = Some x -> bs_solves 4 2 [0; 2; 1; 3]%nat [a0; a1; a2; a3; a4; a5; a6; a7; a8; a9; a10; a11; a12; a13; a14; a15] [b0; b1; b2; b3; b4; b5; b6; b7] x.
Proof. intro H. unfold bsm4_0213 in H. bs_ok H. Qed.
Lemma bsm4_0321_ok a0 a1 a2 a3 a4 a5 a6 a7 a8 a9 a10 a11 a12 a13 a14 a15 b0 b1 b2 b3 b4 b5 b6 b7 eps x (Heps : 0 < eps) :
  bsm4_0321 a0 a1 a2 a3 a4 a5 a6 a7 a8 a9 a10 a11 a12 a13 a14 a15 b0 b1 b2 b3 b4 b5 b6 b7 eps = Some x -> bs_solves 4 2 [0; 3; 2; 1]%nat [a0; a1; a2; a3; a4; a5; a6; a7; a8; a9; a10; a11; a12; a13; a14; a15] [b0; b1; b2; b3; b4; b5; b6; b7] x.
Proof. intro H. unfold bsm4_0321 in H. bs_ok H. Qed.
Lemma bsm4_0312_ok a0 a1 a2 a3 a4 a5 a6 a7 a8 a9 a10 a11 a12 a13 a14 a15 b0 b1 b2 b3 b4 b5 b6 b7 eps x (Heps : 0 < eps) :
  bsm4_0312 a0 a1 a2 a3 a4 a5 a6 a7 a8 a9 a10 a11 a12 a13 a14 a15 b0 b1 b2 b3 b4 b5 b6 b7 eps = Some x -> bs_solves 4 2 [0; 3; 1; 2]%nat [a0; a1; a2; a3; a4; a5; a6; a7; a8; a9; a10; a11; a12; a13; a14; a15] [b0; b1; b2; b3; b4; b5; b6; b7] x.
Proof. intro H. unfold bsm4_0312 in H. bs_ok H. Qed.
Lemma bsm4_1023_ok a0 a1 a2 a3 a4 a5 a6 a7 a8 a9 a10 a11 a12 a13 a14 a15 b0 b1 b2 b3 b4 b5 b6 b7 eps x (Heps : 0 < eps) :
  bsm4_1023 a0 a1 a2 a3 a4 a5 a6 a7 a8 a9 a10 a11 a12 a13 a14 a15 b0 b1 b2 b3 b4 b5 b6 b7 eps = Some x -> bs_solves 4 2 [1; 0; 2; 3]%nat [a0; a1; a2; a3; a4; a5; a6; a7; a8; a9; a10; a11; a12; a13; a14; a15] [b0; b1; b2; b3; b4; b5; b6; b7] x.
Proof. intro H. unfold bsm4_1023 in H. bs_ok H. Qed.
Lemma bsm4_1032_ok a0 a1 a2 a3 a4 a5 a6 a7 a8 a9 a10 a11 a12 a13 a14 a15 b0 b1 b2 b3 b4 b5 b6 b7 eps x (Heps : 0 < eps) :
  bsm4_1032 a0 a1 a2 a3 a4 a5 a6 a7 a8 a9 a10 a11 a12 a13 a14 a15 b0 b1 b2 b3 b4 b5 b6 b7 eps = Some x -> bs_solves 4 2 [1; 0; 3; 2]%nat [a0; a1; a2; a3; a4; a5; a6; a7; a8; a9; a10; a11; a12; a13; a14; a15] [b0; b1; b2; b3; b4; b5; b6; b7] x.
Proof. intro H. unfold bsm4_1032 in H. bs_ok H. Qed.
Lemma bsm4_1203_ok a0 a1 a2 a3 a4 a5 a6 a7 a8 a9 a10 a11 a12 a13 a14 a15 b0 b1 b2 b3 b4 b5 b6 b7 eps x (Heps : 0 < eps) :
  bsm4_1203 a0 a1 a2 a3 a4 a5 a6 a7 a8 a9 a10 a11 a12 a13 a14 a15 b0 b1 b2 b3 b4 b5 b6 b7 eps = Some x -> bs_solves 4 2 [1; 2; 0; 3]%nat [a0; a1; a2; a3; a4; a5; a6; a7; a8; a9; a10; a11; a12; a13; a14; a15] [b0; b1; b2; b3; b4; b5; b6; b7] x.
Proof. intro H. unfold bsm4_1203 in H. bs_ok H. Qed.
Lemma bsm4_1320_ok a0 a1 a2 a3 a4 a5 a6 a7 a8 a9 a10 a11 a12 a13 a14 a15 b0 b1 b2 b3 b4 b5 b6 b7 eps x (Heps : 0 < eps) :
  bsm4_1320 a0 a1 a2 a3 a4 a5 a6 a7 a8 a9 a10 a11 a12 a13 a14 a15 b0 b1 b2 b3 b4 b5 b6 b7 eps = Some x -> bs_solves 4 2 [1; 3; 2; 0]%nat [a0; a1; a2; a3; a4; a5; a6; a7; a8; a9; a10; a11; a12; a13; a14; a15] [b0; b1; b2; b3; b4; b5; b6; b7] x.
Proof. intro H. unfold bsm4_1320 in H. bs_ok H. Qed.
Lemma bsm4_2103_ok a0 a1 a2 a3 a4 a5 a6 a7 a8 a9 a10 a11 a12 a13 a14 a15 b0 b1 b2 b3 b4 b5 b6 b7 eps x (Heps : 0 < eps) :
  bsm4_2103 a0 a1 a2 a3 a4 a5 a6 a7 a8 a9 a10 a11 a12 a13 a14 a15 b0 b1 b2 b3 b4 b5 b6 b7 eps = Some x -> bs_solves 4 2 [2; 1; 0; 3]%nat [a0; a1; a2; a3; a4; a5; a6; a7; a8; a9; a10; a11; a12; a13; a14; a15] [b0; b1; b2; b3; b4; b5; b6; b7] x.
Proof. intro H. unfold bsm4_2103 in H. bs_ok H. Qed.
Lemma bsm4_2130_ok a0 a1 a2 a3 a4 a5 a6 a7 a8 a9 a10 a11 a12 a13 a14 a15 b0 b1 b2 b3 b4 b5 b6 b7 eps x (Heps : 0 < eps) :
  bsm4_2130 a0 a1 a2 a3 a4 a5 a6 a7 a8 a9 a10 a11 a12 a13 a14 a15 b0 b1 b2 b3 b4 b5 b6 b7 eps = Some x -> bs_solves 4 2 [2; 1; 3; 0]%nat [a0; a1; a2; a3; a4; a5; a6; a7; a8; a9; a10; a11; a12; a13; a14; a15] [b0; b1; b2; b3; b4; b5; b6; b7] x.
Proof. intro H. unfold bsm4_2130 in H. bs_ok H. Qed.
Lemma bsm4_2013_ok a0 a1 a2 a3 a4 a5 a6 a7 a8 a9 a10 a11 a12 a13 a14 a15 b0 b1 b2 b3 b4 b5 b6 b7 eps x (Heps : 0 < eps) :
  bsm4_2013 a0 a1 a2 a3 a4 a5 a6 a7 a8 a9 a10 a11 a12 a13 a14 a15 b0 b1 b2 b3 b4 b5 b6 b7 eps = Some x -> bs_solves 4 2 [2; 0; 1; 3]%nat [a0; a1; a2; a3; a4; a5; a6; a7; a8; a9; a10; a11; a12; a13; a14; a15] [b0; b1; b2; b3; b4; b5; b6; b7] x.
Proof. intro H. unfold bsm4_2013 in H. bs_ok H. Qed.
Lemma bsm4_2301_ok a0 a1 a2 a3 a4 a5 a6 a7 a8 a9 a10 a11 a12 a13 a14 a15 b0 b1 b2 b3 b4 b5 b6 b7 eps x (Heps : 0 < eps) :
  bsm4_2301 a0 a1 a2 a3 a4 a5 a6 a7 a8 a9 a10 a11 a12 a13 a14 a15 b0 b1 b2 b3 b4 b5 b6 b7 eps = Some x -> bs_solves 4 2 [2; 3; 0; 1]%nat [a0; a1; a2; a3; a4; a5; a6; a7; a8; a9; a10; a11; a12; a13; a14; a15] [b0; b1; b2; b3; b4; b5; b6; b7] x.
Proof. intro H. unfold bsm4_2301 in H. bs_ok H. Qed.
Lemma bsm4_2310_ok a0 a1 a2 a3 a4 a5 a6 a7 a8 a9 a10 a11 a12 a13 a14 a15 b0 b1 b2 b3 b4 b5 b6 b7 eps x (Heps : 0 < eps) :
  bsm4_2310 a0 a1 a2 a3 a4 a5 a6 a7 a8 a9 a10 a11 a12 a13 a14 a15 b0 b1 b2 b3 b4 b5 b6 b7 eps = Some x -> bs_solves 4 2 [2; 3; 1; 0]%nat [a0; a1; a2; a3; a4; a5; a6; a7; a8; a9; a10; a11; a12; a13; a14; a15] [b0; b1; b2; b3; b4; b5; b6; b7] x.
Proof. intro H. unfold bsm4_2310 in H. bs_ok H. Qed.
Lemma bsm4_3102_ok a0 a1 a2 a3 a4 a5 a6 a7 a8 a9 a10 a11 a12 a13 a14 a15 b0 b1 b2 b3 b4 b5 b6 b7 eps x (Heps : 0 < eps) :
  bsm4_3102 a0 a1 a2 a3 a4 a5 a6 a7 a8 a9 a10 a11 a12 a13 a14 a15 b0 b1 b2 b3 b4 b5 b6 b7 eps = Some x -> bs_solves 4 2 [3; 1; 0; 2]%nat [a0; a1; a2; a3; a4; a5; a6; a7; a8; a9; a10; a11; a12; a13; a14; a15] [b0; b1; b2; b3; b4; b5; b6; b7] x.
Proof. intro H. unfold bsm4_3102 in H. bs_ok H. Qed.
Lemma bsm4_3210_ok a0 a1 a2 a3 a4 a5 a6 a7 a8 a9 a10 a11 a12 a13 a14 a15 b0 b1 b2 b3 b4 b5 b6 b7 eps x (Heps : 0 < eps) :
  bsm4_3210 a0 a1 a2 a3 a4 a5 a6 a7 a8 a9 a10 a11 a12 a13 a14 a15 b0 b1 b2 b3 b4 b5 b6 b7 eps = Some x -> bs_solves 4 2 [3; 2; 1; 0]%nat [a0; a1; a2; a3; a4; a5; a6; a7; a8; a9; a10; a11; a12; a13; a14; a15] [b0; b1; b2; b3; b4; b5; b6; b7] x.
Proof. intro H. unfold bsm4_3210 in H. bs_ok H. Qed.
Lemma bsm4_3021_ok a0 a1 a2 a3 a4 a5 a6 a7 a8 a9 a10 a11 a12 a13 a14 a15 b0 b1 b2 b3 b4 b5 b6 b7 eps x (Heps : 0 < eps) :
  bsm4_3021 a0 a1 a2 a3 a4 a5 a6 a7 a8 a9 a10 a11 a12 a13 a14 a15 b0 b1 b2 b3 b4 b5 b6 b7 eps = Some x -> bs_solves 4 2 [3; 0; 2; 1]%nat [a0; a1; a2; a3; a4; a5; a6; a7; a8; a9; a10; a11; a12; a13; a14; a15] [b0; b1; b2; b3; b4; b5; b6; b7] x.
Proof. intro H. unfold bsm4_3021 in H. bs_ok H. Qed.
Lemma bsm4_3012_ok a0 a1 a2 a3 a4 a5 a6 a7 a8 a9 a10 a11 a12 a13 a14 a15 b0 b1 b2 b3 b4 b5 b6 b7 eps x (Heps : 0 < eps) :
  bsm4_3012 a0 a1 a2 a3 a4 a5 a6 a7 a8 a9 a10 a11 a12 a13 a14 a15 b0 b1 b2 b3 b4 b5 b6 b7 eps = Some x -> bs_solves 4 2 [3; 0; 1; 2]%nat [a0; a1; a2; a3; a4; a5; a6; a7; a8; a9; a10; a11; a12; a13; a14; a15] [b0; b1; b2; b3; b4; b5; b6; b7] x.
Proof. intro H. unfold bsm4_3012 in H. bs_ok H. Qed.

Definition bsm4_b_stmt : Prop := forall a0 a1 a2 a3 a4 a5 a6 a7 a8 a9 a10 a11 a12 a13 a14 a15 b0 b1 b2 b3 b4 b5 b6 b7 eps x, 0 < eps ->
  (bsm4_0213 a0 a1 a2 a3 a4 a5 a6 a7 a8 a9 a10 a11 a12 a13 a14 a15 b0 b1 b2 b3 b4 b5 b6 b7 eps = Some x -> bs_solves 4 2 [0; 2; 1; 3]%nat [a0; a1; a2; a3; a4; a5; a6; a7; a8; a9; a10; a11; a12; a13; a14; a15] [b0; b1; b2; b3; b4; b5; b6; b7] x) /\
  (bsm4_0321 a0 a1 a2 a3 a4 a5 a6 a7 a8 a9 a10 a11 a12 a13 a14 a15 b0 b1 b2 b3 b4 b5 b6 b7 eps = Some x -> bs_solves 4 2 [0; 3; 2; 1]%nat [a0; a1; a2; a3; a4; a5; a6; a7; a8; a9; a10; a11; a12; a13; a14; a15] [b0; b1; b2; b3; b4; b5; b6; b7] x) /\
  (bsm4_0312 a0 a1 a2 a3 a4 a5 a6 a7 a8 a9 a10 a11 a12 a13 a14 a15 b0 b1 b2 b3 b4 b5 b6 b7 eps = Some x -> bs_solves 4 2 [0; 3; 1; 2]%nat [a0; a1; a2; a3; a4; a5; a6; a7; a8; a9; a10; a11; a12; a13; a14; a15] [b0; b1; b2; b3; b4; b5; b6; b7] x) /\
  (bsm4_1023 a0 a1 a2 a3 a4 a5 a6 a7 a8 a9 a10 a11 a12 a13 a14 a15 b0 b1 b2 b3 b4 b5 b6 b7 eps = Some x -> bs_solves 4 2 [1; 0; 2; 3]%nat [a0; a1; a2; a3; a4; a5; a6; a7; a8; a9; a10; a11; a12; a13; a14; a15] [b0; b1; b2; b3; b4; b5; b6; b7] x) /\
  (bsm4_1032 a0 a1 a2 a3 a4 a5 a6 a7 a8 a9 a10 a11 a12 a13 a14 a15 b0 b1 b2 b3 b4 b5 b6 b7 eps = Some x -> bs_solves 4 2 [1; 0; 3; 2]%nat [a0; a1; a2; a3; a4; a5; a6; a7; a8; a9; a10; a11; a12; a13; a14; a15] [b0; b1; b2; b3; b4; b5; b6; b7] x) /\
  (bsm4_1203 a0 a1 a2 a3 a4 a5 a6 a7 a8 a9 a10 a11 a12 a13 a14 a15 b0 b1 b2 b3 b4 b5 b6 b7 eps = Some x -> bs_solves 4 2 [1; 2; 0; 3]%nat [a0; a1; a2; a3; a4; a5; a6; a7; a8; a9; a10; a11; a12; a13; a14; a15] [b0; b1; b2; b3; b4; b5; b6; b7] x) /\
  (bsm4_1320 a0 a1 a2 a3 a4 a5 a6 a7 a8 a9 a10 a11 a12 a13 a14 a15 b0 b1 b2 b3 b4 b5 b6 b7 eps = Some x -> bs_solves 4 2 [1; 3; 2; 0]%nat [a0; a1; a2; a3; a4; a5; a6; a7; a8; a9; a10; a11; a12; a13; a14; a15] [b0; b1; b2; b3; b4; b5; b6; b7] x) /\
  (bsm4_2103 a0 a1 a2 a3 a4 a5 a6 a7 a8 a9 a10 a11 a12 a13 a14 a15 b0 b1 b2 b3 b4 b5 b6 b7 eps = Some x -> bs_solves 4 2 [2; 1; 0; 3]%nat [a0; a1; a2; a3; a4; a5; a6; a7; a8; a9; a10; a11; a12; a13; a14; a15] [b0; b1; b2; b3; b4; b5; b6; b7] x) /\
  (bsm4_2130 a0 a1 a2 a3 a4 a5 a6 a7 a8 a9 a10 a11 a12 a13 a14 a15 b0 b1 b2 b3 b4 b5 b6 b7 eps = Some x -> bs_solves 4 2 [2; 1; 3; 0]%nat [a0; a1; a2; a3; a4; a5; a6; a7; a8; a9; a10; a11; a12; a13; a14; a15] [b0; b1; b2; b3; b4; b5; b6; b7] x) /\
  (bsm4_2013 a0 a1 a2 a3 a4 a5 a6 a7 a8 a9 a10 a11 a12 a13 a14 a15 b0 b1 b2 b3 b4 b5 b6 b7 eps = Some x -> bs_solves 4 2 [2; 0; 1; 3]%nat [a0; a1; a2; a3; a4; a5; a6; a7; a8; a9; a10; a11; a12; a13; a14; a15] [b0; b1; b2; b3; b4; b5; b6; b7] x) /\
  (bsm4_2301 a0 a1 a2 a3 a4 a5 a6 a7 a8 a9 a10 a11 a12 a13 a14 a15 b0 b1 b2 b3 b4 b5 b6 b7 eps = Some x -> bs_solves 4 2 [2; 3; 0; 1]%nat [a0; a1; a2; a3; a4; a5; a6; a7; a8; a9; a10; a11; a12; a13; a14; a15] [b0; b1; b2; b3; b4; b5; b6; b7] x) /\
  (bsm4_2310 a0 a1 a2 a3 a4 a5 a6 a7 a8 a9 a10 a11 a12 a13 a14 a15 b0 b1 b2 b3 b4 b5 b6 b7 eps = Some x -> bs_solves 4 2 [2; 3; 1; 0]%nat [a0; a1; a2; a3; a4; a5; a6; a7; a8; a9; a10; a11; a12; a13; a14; a15] [b0; b1; b2; b3; b4; b5; b6; b7] x) /\
  (bsm4_3102 a0 a1 a2 a3 a4 a5 a6 a7 a8 a9 a10 a11 a12 a13 a14 a15 b0 b1 b2 b3 b4 b5 b6 b7 eps = Some x -> bs_solves 4 2 [3; 1; 0; 2]%nat [a0; a1; a2; a3; a4; a5; a6; a7; a8; a9; a10; a11; a12; a13; a14; a15] [b0; b1; b2; b3; b4; b5; b6; b7] x) /\
  (bsm4_3210 a0 a1 a2 a3 a4 a5 a6 a7 a8 a9 a10 a11 a12 a13 a14 a15 b0 b1 b2 b3 b4 b5 b6 b7 eps = Some x -> bs_solves 4 2 [3; 2; 1; 0]%nat [a0; a1; a2; a3; a4; a5; a6; a7; a8; a9; a10; a11; a12; a13; a14; a15] [b0; b1; b2; b3; b4; b5; b6; b7] x) /\
  (bsm4_3021 a0 a1 a2 a3 a4 a5 a6 a7 a8 a9 a10 a11 a12 a13 a14 a15 b0 b1 b2 b3 b4 b5 b6 b7 eps = Some x -> bs_solves 4 2 [3; 0; 2; 1]%nat [a0; a1; a2; a3; a4; a5; a6; a7; a8; a9; a10; a11; a12; a13; a14; a15] [b0; b1; b2; b3; b4; b5; b6; b7] x) /\
  (bsm4_3012 a0 a1 a2 a3 a4 a5 a6 a7 a8 a9 a10 a11 a12 a13 a14 a15 b0 b1 b2 b3 b4 b5 b6 b7 eps = Some x -> bs_solves 4 2 [3; 0; 1; 2]%nat [a0; a1; a2; a3; a4; a5; a6; a7; a8; a9; a10; a11; a12; a13; a14; a15] [b0; b1; b2; b3; b4; b5; b6; b7] x).
Lemma bsm4_b_all : bsm4_b_stmt.
Proof.
  intros a0 a1 a2 a3 a4 a5 a6 a7 a8 a9 a10 a11 a12 a13 a14 a15 b0 b1 b2 b3 b4 b5 b6 b7 eps x He.
  exact (conj (bsm4_0213_ok a0 a1 a2 a3 a4 a5 a6 a7 a8 a9 a10 a11 a12 a13 a14 a15 b0 b1 b2 b3 b4 b5 b6 b7 eps x He) (conj (bsm4_0321_ok a0 a1 a2 a3 a4 a5 a6 a7 a8 a9 a10 a11 a12 a13 a14 a15 b0 b1 b2 b3 b4 b5 b6 b7 eps x He) (conj (bsm4_0312_ok a0 a1 a2 a3 a4 a5 a6 a7 a8 a9 a10 a11 a12 a13 a14 a15 b0 b1 b2 b3 b4 b5 b6 b7 eps x He) (conj (bsm4_1023_ok a0 a1 a2 a3 a4 a5 a6 a7 a8 a9 a10 a11 a12 a13 a14 a15 b0 b1 b2 b3 b4 b5 b6 b7 eps x He) (conj (bsm4_1032_ok a0 a1 a2 a3 a4 a5 a6 a7 a8 a9 a10 a11 a12 a13 a14 a15 b0 b1 b2 b3 b4 b5 b6 b7 eps x He) (conj (bsm4_1203_ok a0 a1 a2 a3 a4 a5 a6 a7 a8 a9 a10 a11 a12 a13 a14 a15 b0 b1 b2 b3 b4 b5 b6 b7 eps x He) (conj (bsm4_1320_ok a0 a1 a2 a3 a4 a5 a6 a7 a8 a9 a10 a11 a12 a13 a14 a15 b0 b1 b2 b3 b4 b5 b6 b7 eps x He) (conj (bsm4_2103_ok a0 a1 a2 a3 a4 a5 a6 a7 a8 a9 a10 a11 a12 a13 a14 a15 b0 b1 b2 b3 b4 b5 b6 b7 eps x He) (conj (bsm4_2130_ok a0 a1 a2 a3 a4 a5 a6 a7 a8 a9 a10 a11 a12 a13 a14 a15 b0 b1 b2 b3 b4 b5 b6 b7 eps x He) (conj (bsm4_2013_ok a0 a1 a2 a3 a4 a5 a6 a7 a8 a9 a10 a11 a12 a13 a14 a15 b0 b1 b2 b3 b4 b5 b6 b7 eps x He) (conj (bsm4_2301_ok a0 a1 a2 a3 a4 a5 a6 a7 a8 a9 a10 a11 a12 a13 a14 a15 b0 b1 b2 b3 b4 b5 b6 b7 eps x He) (conj (bsm4_2310_ok a0 a1 a2 a3 a4 a5 a6 a7 a8 a9 a10 a11 a12 a13 a14 a15 b0 b1 b2 b3 b4 b5 b6 b7 eps x He) (conj (bsm4_3102_ok a0 a1 a2 a3 a4 a5 a6 a7 a8 a9 a10 a11 a12 a13 a14 a15 b0 b1 b2 b3 b4 b5 b6 b7 eps x He) (conj (bsm4_3210_ok a0 a1 a2 a3 a4 a5 a6 a7 a8 a9 a10 a11 a12 a13 a14 a15 b0 b1 b2 b3 b4 b5 b6 b7 eps x He) (conj (bsm4_3021_ok a0 a1 a2 a3 a4 a5 a6 a7 a8 a9 a10 a11 a12 a13 a14 a15 b0 b1 b2 b3 b4 b5 b6 b7 eps x He) (bsm4_3012_ok a0 a1 a2 a3 a4 a5 a6 a7 a8 a9 a10 a11 a12 a13 a14 a15 b0 b1 b2 b3 b4 b5 b6 b7 eps x He)))))))))))))))).
Qed.

(* C07 -- the general theorems of C07LU.v instantiated on the reals (model of the C++ instantiated with an exact real
   scalar) and on Qc (the instance executed by the harness against the real code). *)
From Coq Require Import Reals RealField QArith Qcanon Qcabs Lra List Bool Arith.
From C07 Require Import C07Spec C07Model C07ModelQ C07LU.
Local Open Scope R_scope.

(* ------------------------------------------------------------------ reals *)
Definition Rltb (a b : R) : bool := if Rlt_dec a b then true else false.
Definition Rlu_decomp := C07Model.lu_decomp R 0 Rplus Rmult Rminus Rdiv Rabs Rltb (1 / 10).
Definition Rlu_solve := C07Model.lu_solve R 0 Rplus Rmult Rminus Rdiv Rabs Rltb (1 / 10).
Definition Rlu_solve_mat := C07Model.lu_solve_mat R 0 Rplus Rmult Rminus Rdiv Rabs Rltb (1 / 10).
Definition Rlu_invert := C07Model.lu_invert R 0 1 Rplus Rmult Rminus Rdiv Rabs Rltb (1 / 10).

Lemma Reps_test : forall eps, 0 < eps -> Rltb (Rabs 0) eps = true.
Proof. intros eps H. unfold Rltb. rewrite Rabs_R0. destruct (Rlt_dec 0 eps); [reflexivity|contradiction]. Qed.

Lemma Rsum_sumn : forall n f, Rsum n f = sumn R 0 Rplus n f.
Proof. induction n; intros; simpl; [|rewrite IHn]; reflexivity. Qed.

Definition Rlu_sound_stmt : Prop := forall n eps chk (A : nat -> nat -> R), 0 < eps ->
  (forall b x, Rlu_solve n eps chk A b = Some x -> solves_vec n A b x) /\
  (forall M B X, Rlu_solve_mat n M eps chk A B = Some X -> solves_fun n M A B X) /\
  (forall X, Rlu_invert n eps A = Some X -> solves_fun n n A identity_fun X).
Lemma Rlu_sound : Rlu_sound_stmt.
Proof.
  intros n eps chk A He. pose proof (Reps_test eps He) as Ht. split; [|split].
  - intros b x H r Hr. rewrite Rsum_sumn.
    exact (lu_solve_sound R 0 1 Rplus Rmult Rminus Ropp Rdiv Rinv Rfield Rabs Rltb (1 / 10) n eps A Ht chk b x H r Hr).
  - intros M B X H r k Hr Hk. rewrite Rsum_sumn.
    exact (lu_solve_mat_sound R 0 1 Rplus Rmult Rminus Ropp Rdiv Rinv Rfield Rabs Rltb (1 / 10) n eps A Ht M chk B X H r k Hr Hk).
  - intros X H r k Hr Hk. rewrite Rsum_sumn.
    exact (lu_invert_sound R 0 1 Rplus Rmult Rminus Ropp Rdiv Rinv Rfield Rabs Rltb (1 / 10) n eps A Ht X H r k Hr Hk).
Qed.

Definition Rlu_singular_stmt : Prop := forall n eps (A : nat -> nat -> R), 0 < eps -> singular_fun n A ->
  Rlu_decomp n eps A = None /\ (forall M chk B, Rlu_solve_mat n M eps chk A B = None) /\
  (forall chk b, Rlu_solve n eps chk A b = None) /\ Rlu_invert n eps A = None.
Lemma Rlu_singular : Rlu_singular_stmt.
Proof.
  intros n eps A He [y [Hc Hy]].
  apply (lu_singular_fails R 0 1 Rplus Rmult Rminus Ropp Rdiv Rinv Rfield Rabs Rltb (1 / 10) n eps A (Reps_test eps He)).
  exists y. split; [exact Hc|]. intros r Hr. rewrite <- Rsum_sumn. apply Hy. exact Hr.
Qed.

(* a factorisation that succeeded solves every right-hand side: the pivot tests of back_substitute cannot fire *)
Definition Rlu_total_stmt : Prop := forall n eps (A : nat -> nat -> R) mp, 0 < eps -> Rlu_decomp n eps A = Some mp ->
  forall M chk B, exists X, Rlu_solve_mat n M eps chk A B = Some X /\ solves_fun n M A B X.
Lemma Rlu_total : Rlu_total_stmt.
Proof.
  intros n eps A mp He D M chk B.
  destruct (lu_decomp_total_rhs R 0 1 Rplus Rmult Rminus Ropp Rdiv Rinv Rfield Rabs Rltb (1 / 10) n eps A (Reps_test eps He) mp D M chk B)
    as [X E].
  exists X. split; [exact E|]. destruct (Rlu_sound n eps chk A He) as [_ [S _]]. exact (S M B X E).
Qed.


(* failure is reported only when a whole pivot column is below eps: at some step i < n, with (m, p) the state of the
   factorisation after i steps (invariant lu_inv: columns < i of m hold L, rows p(r), r < i, hold U, P.A = L.U there),
   every entry of the Schur complement column i, rows p(j), j >= i, is below eps in modulus *)
Definition Rlu_partial (n : nat) (eps : R) (A : nat -> nat -> R) (i : nat) (m : nat -> nat -> R) (p : nat -> nat) : Prop :=
  lu_inv R 0 Rplus Rmult Rabs Rltb n eps A i m p.
Definition Rlu_failure_stmt : Prop := forall n eps (A : nat -> nat -> R), 0 < eps -> Rlu_decomp n eps A = None ->
  exists i m p, (i < n)%nat /\ Rlu_partial n eps A i m p /\
    forall j, (i <= j < n)%nat -> Rabs (A (p j) i - Rsum i (fun k => m (p j) k * m (p k) i)) < eps.
Lemma Rltb_asym : forall a b, Rltb a b = true -> Rltb b a = false.
Proof. intros a b. unfold Rltb. destruct (Rlt_dec a b), (Rlt_dec b a); intros; try reflexivity; try discriminate. lra. Qed.
Lemma Rltb_ntrans : forall a b c, Rltb a b = false -> Rltb b c = false -> Rltb a c = false.
Proof. intros a b c. unfold Rltb. destruct (Rlt_dec a b), (Rlt_dec b c), (Rlt_dec a c); intros; try reflexivity; try discriminate. lra. Qed.
Lemma Rlu_failure : Rlu_failure_stmt.
Proof.
  intros n eps A He H.
  destruct (lu_failure_column_small R 0 1 Rplus Rmult Rminus Ropp Rdiv Rinv Rfield Rabs Rltb (1 / 10) n eps A (Reps_test eps He)
              Rltb_asym Rltb_ntrans H)
    as [i [m [p [Hi [Hinv Hs]]]]].
  exists i, m, p. split; [exact Hi|]. split; [exact Hinv|]. intros j Hj. specialize (Hs j Hj).
  rewrite <- Rsum_sumn in Hs. unfold Rltb in Hs. destruct (Rlt_dec _ eps) as [Hlt|]; [exact Hlt|discriminate].
Qed.

(* ------------------------------------------------------------------ Qc: the instance run by the harness *)
Local Open Scope Qc_scope.
Lemma Qceps_test : forall eps : Qc, 0 < eps -> Qcltb (Qcabs 0) eps = true.
Proof.
  intros eps H. unfold Qcltb. destruct (Qle_bool eps (Qcabs 0)) eqn:E; [|reflexivity].
  apply Qle_bool_iff in E. exfalso. apply (Qlt_not_le _ _ H). exact E.
Qed.

Definition Qsumn := sumn Qc 0 Qcplus.
Definition Qlu_sound_stmt : Prop := forall n (eps : Qc) chk (A : nat -> nat -> Qc), 0 < eps ->
  (forall b x, Qlu_solve n eps chk A b = Some x -> forall r, (r < n)%nat -> Qsumn n (fun c => A r c * x c) = b r) /\
  (forall M B X, Qlu_solve_mat n M eps chk A B = Some X ->
     forall r k, (r < n)%nat -> (k < M)%nat -> Qsumn n (fun c => A r c * X c k) = B r k) /\
  (forall X, Qlu_invert n eps A = Some X ->
     forall r k, (r < n)%nat -> (k < n)%nat -> Qsumn n (fun c => A r c * X c k) = if Nat.eqb r k then 1 else 0) /\
  ((exists y, (exists c, (c < n)%nat /\ y c <> 0) /\ forall r, (r < n)%nat -> Qsumn n (fun c => A r c * y c) = 0) ->
     Qlu_decomp n eps A = None).
Lemma Qlu_sound : Qlu_sound_stmt.
Proof.
  intros n eps chk A He. pose proof (Qceps_test eps He) as Ht. split; [|split; [|split]].
  - intros b x H r Hr.
    exact (lu_solve_sound Qc 0 1 Qcplus Qcmult Qcminus Qcopp Qcdiv Qcinv Qcft Qcabs Qcltb Qc01 n eps A Ht chk b x H r Hr).
  - intros M B X H r k Hr Hk.
    exact (lu_solve_mat_sound Qc 0 1 Qcplus Qcmult Qcminus Qcopp Qcdiv Qcinv Qcft Qcabs Qcltb Qc01 n eps A Ht M chk B X H r k Hr Hk).
  - intros X H r k Hr Hk.
    exact (lu_invert_sound Qc 0 1 Qcplus Qcmult Qcminus Qcopp Qcdiv Qcinv Qcft Qcabs Qcltb Qc01 n eps A Ht X H r k Hr Hk).
  - intros Hs.
    exact (proj1 (lu_singular_fails Qc 0 1 Qcplus Qcmult Qcminus Qcopp Qcdiv Qcinv Qcft Qcabs Qcltb Qc01 n eps A Ht Hs)).
Qed.

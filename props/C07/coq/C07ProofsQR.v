(* C07 -- QRDecomp (include/TFEL/Math/QR/QRDecomp.ixx) traced from /repo.
   qrh<N>_<c> : QRDecomp::exe on a symbolic N x N matrix a, then QRDecomp::householder_product(., a, beta, c) (the real
     code applying the c-th Householder reflector H_c) on two symbolic vectors w, u, and for c = 0 on the columns of a.
     Outputs: H_c w, H_c u, [c = 0: H_0 a(:,0), rdiag(0), then for j >= 1 (H_0 a(:,j))(0) and the stored a'(0,j)], beta(c).
   qrsolve<N> : exe + tq_product + back_substitute(eps): Some x = no exception.
   Scripts: the bases of the squares under each square root become opaque variables, s = sqrt S is named with s * s = S,
   then field_simplify_eq + ring [s * s = S]; for the full solve sqrt (r * r) is r or - r by the sign test of the path
   and the side conditions of `field` are derived from the eps tests. *)
From Coq Require Import Reals List Lra Nsatz Psatz.
From C07 Require Import C07Spec C07Tactics C07_genqr.
Import ListNotations.
Local Open Scope R_scope.

Ltac abs_squares S :=
  match S with
  | ?a + ?b => first [ progress (abs_squares a) | progress (abs_squares b) ]
  | ?x * ?x => tryif is_var x then fail else (let X := fresh "X" in let E := fresh "E" in remember x as X eqn:E in *; clear E)
  end.
Ltac abs_all_squares := repeat match goal with |- context [sqrt ?S] => abs_squares S end.
Ltac name_sqrts :=
  repeat match goal with
  | |- context [sqrt ?S] =>
      let s := fresh "s" in let Hs := fresh "Hs" in
      assert (Hs : sqrt S * sqrt S = S) by (apply sqrt_sqrt; nra);
      set (s := sqrt S) in *; clearbody s
  end.
Ltac clear_path := repeat match goal with Hc : _ < _ |- _ => clear Hc | Hc : ~ _ < _ |- _ => clear Hc end.
(* a side condition of `field` is beta <> 0 itself or one of its factors *)
Ltac nz_factor Hb :=
  first [ exact Hb
        | let Hz := fresh "Hz" in intro Hz; apply Hb; first [ rewrite Hz; ring | nra ] ].
Ltac refl_ok H :=
  cbv zeta in H; repeat match type of H with context [sqrt ?S] => abs_squares S end;
  split_tree H; try discriminate H; injection H as <-; clear_path;
  let Hb := fresh "Hb" in intro Hb; name_sqrts; repeat split; try reflexivity;
  (field_simplify_eq; [|repeat split; nz_factor Hb]);
  match goal with Hs : _ * _ = _ |- _ => ring [Hs] end.


Lemma sqrt_sq_pos x : 0 < x -> sqrt (x * x) = x.
Proof. intro H. apply sqrt_square. lra. Qed.
Lemma sqrt_sq_neg x : ~ 0 < x -> sqrt (x * x) = - x.
Proof. intro H. replace (x * x) with (- x * - x) by ring. apply sqrt_square. lra. Qed.
Ltac sqrt_signs :=
  repeat match goal with
  | Hp : 0 < ?x |- context [sqrt (?x * ?x)] => rewrite (sqrt_sq_pos x Hp)
  | Hp : ~ 0 < ?x |- context [sqrt (?x * ?x)] => rewrite (sqrt_sq_neg x Hp)
  | Hp : 0 < ?x, H2 : context [sqrt (?x * ?x)] |- _ => rewrite (sqrt_sq_pos x Hp) in H2
  | Hp : ~ 0 < ?x, H2 : context [sqrt (?x * ?x)] |- _ => rewrite (sqrt_sq_neg x Hp) in H2
  end.
Ltac name_sqrts_pos :=
  repeat match goal with
  | |- context [sqrt ?S] =>
      lazymatch S with context [sqrt _] => fail | _ => idtac end;
      let s := fresh "s" in let Hs := fresh "Hs" in let Hp := fresh "Hp" in
      assert (Hs : sqrt S * sqrt S = S) by (apply sqrt_sqrt; nra);
      assert (Hp : 0 <= sqrt S) by apply sqrt_pos;
      set (s := sqrt S) in *; clearbody s
  end.
(* 0 < s for a named square root s known to be non null *)
Ltac pos_sqrts :=
  repeat match goal with
  | Hp : 0 <= ?s |- _ =>
      is_var s;
      lazymatch goal with _ : 0 < s |- _ => fail | _ => idtac end;
      assert (0 < s) by
        (let Hlt := fresh in let Heq := fresh in
         destruct (Rle_lt_or_eq_dec 0 s Hp) as [Hlt|Heq]; [exact Hlt | exfalso;
           match goal with
           | Hn : s <> 0 |- _ => apply Hn; symmetry; exact Heq
           | Hn : - s <> 0 |- _ => apply Hn; rewrite <- Heq; ring
           end])
  end.
(* every denominator of the goal that can be shown non null: tested against eps on the path, or of constant sign by the
   sign tests of the path (beta = alpha (alpha - a(k,k)) with alpha of the sign opposite to a(k,k)) *)
Ltac nz_prove q :=
  first [ solve [let Hz := fresh "Hz" in intro Hz; assert (Rabs q = 0) by (rewrite Hz; apply Rabs_R0); lra]
        | solve [apply Rgt_not_eq; nra]
        | solve [apply Rlt_not_eq; nra] ].
Ltac pose_den_nz :=
  repeat match goal with
  | |- context [_ / ?q] =>
      lazymatch goal with
      | _ : q <> 0 |- _ => fail
      | _ => assert (q <> 0) by nz_prove q
      end
  end.
(* side conditions P <> 0 of `field`.  Shallow: P is a known non-null quantity or one of its factors. *)
Ltac nz_shallow :=
  first [ assumption |
  match goal with
  | Hq : ?q <> 0 |- ?P <> 0 =>
      let Hz := fresh "Hz" in
      intro Hz; apply Hq;
      first [ solve [replace q with P by ring; exact Hz]
            | solve [replace q with (- P) by ring; rewrite Hz; ring]
            | solve [rewrite Hz; ring]
            | solve [nra] ]
  end ].
(* General: P = 0 would make a known non-null quantity q (a denominator of the traced expression, non null by the tests of
   the path) vanish: q = 0 is reduced by field to a polynomial identity that follows from P = 0 (nsatz) *)
Ltac nz_search :=
  first [ nz_shallow |
  match goal with
  | Hq : ?q <> 0 |- ?P <> 0 =>
      let Hz := fresh "Hz" in
      intro Hz; apply Hq;
      solve [field_simplify_eq; [ clear - Hz; cbv [Rpow_def.pow]; nsatz | repeat split; nz_shallow ]]
  end ].
Ltac qr_ok H :=
  cbv zeta in H; split_tree H; try discriminate H; injection H as <-; sqrt_signs; name_sqrts_pos; pose_nz; pos_sqrts; pose_den_nz.

Lemma qrh2_0_ok a0 a1 a2 a3 w0 w1 u0 u1 l : qrh2_0 a0 a1 a2 a3 w0 w1 u0 u1 = Some l ->
  match l with
  | [hw0; hw1; hu0; hu1; c0; c1; rd; p1; q1; beta] =>
      beta <> 0 -> hw0 * hu0 + hw1 * hu1 = w0 * u0 + w1 * u1 /\ c0 = rd /\ c1 = 0 /\ p1 = q1
  | _ => False
  end.
Proof. intro H. unfold qrh2_0 in H. refl_ok H. Qed.
Lemma qrh2_1_ok a0 a1 a2 a3 w0 w1 u0 u1 l : qrh2_1 a0 a1 a2 a3 w0 w1 u0 u1 = Some l ->
  match l with
  | [hw0; hw1; hu0; hu1; beta] =>
      beta <> 0 -> hw0 * hu0 + hw1 * hu1 = w0 * u0 + w1 * u1 /\ hw0 = w0 /\ hu0 = u0
  | _ => False
  end.
Proof. intro H. unfold qrh2_1 in H. refl_ok H. Qed.
Lemma qrh3_0_ok a0 a1 a2 a3 a4 a5 a6 a7 a8 w0 w1 w2 u0 u1 u2 l : qrh3_0 a0 a1 a2 a3 a4 a5 a6 a7 a8 w0 w1 w2 u0 u1 u2 = Some l ->
  match l with
  | [hw0; hw1; hw2; hu0; hu1; hu2; c0; c1; c2; rd; p1; q1; p2; q2; beta] =>
      beta <> 0 -> hw0 * hu0 + hw1 * hu1 + hw2 * hu2 = w0 * u0 + w1 * u1 + w2 * u2 /\
                   c0 = rd /\ c1 = 0 /\ c2 = 0 /\ p1 = q1 /\ p2 = q2
  | _ => False
  end.
Proof. intro H. unfold qrh3_0 in H. refl_ok H. Qed.
Lemma qrh3_1_ok a0 a1 a2 a3 a4 a5 a6 a7 a8 w0 w1 w2 u0 u1 u2 l : qrh3_1 a0 a1 a2 a3 a4 a5 a6 a7 a8 w0 w1 w2 u0 u1 u2 = Some l ->
  match l with
  | [hw0; hw1; hw2; hu0; hu1; hu2; beta] =>
      beta <> 0 -> hw0 * hu0 + hw1 * hu1 + hw2 * hu2 = w0 * u0 + w1 * u1 + w2 * u2 /\ hw0 = w0 /\ hu0 = u0
  | _ => False
  end.
Proof. intro H. unfold qrh3_1 in H. refl_ok H. Qed.
Lemma qrh3_2_ok a0 a1 a2 a3 a4 a5 a6 a7 a8 w0 w1 w2 u0 u1 u2 l : qrh3_2 a0 a1 a2 a3 a4 a5 a6 a7 a8 w0 w1 w2 u0 u1 u2 = Some l ->
  match l with
  | [hw0; hw1; hw2; hu0; hu1; hu2; beta] =>
      beta <> 0 -> hw0 * hu0 + hw1 * hu1 + hw2 * hu2 = w0 * u0 + w1 * u1 + w2 * u2 /\
                   hw0 = w0 /\ hu0 = u0 /\ hw1 = w1 /\ hu1 = u1
  | _ => False
  end.
Proof. intro H. unfold qrh3_2 in H. refl_ok H. Qed.

Lemma qrsolve1_ok a0 b0 eps x (Heps : 0 < eps) : qrsolve1 a0 b0 eps = Some x -> solves 1 1 [a0] [b0] x.
Proof.
  intro H. unfold qrsolve1 in H. qr_ok H; unfold_spec; list_eq; (field_simplify_eq; [ring | repeat split; nz_search]).
Qed.
Lemma qrsolve2_ok a0 a1 a2 a3 b0 b1 eps x (Heps : 0 < eps) :
  qrsolve2 a0 a1 a2 a3 b0 b1 eps = Some x -> solves 2 1 [a0; a1; a2; a3] [b0; b1] x.
Proof.
  intro H. unfold qrsolve2 in H. qr_ok H; unfold_spec; list_eq;
  (field_simplify_eq; [match goal with Hs : _ * _ = _ |- _ => ring [Hs] end | repeat split; nz_search]).
Qed.

(* C07 -- hand-written executable model, for every size n and over any scalar type F with field operations, of
     LUDecomp::exe          (include/TFEL/Math/LU/LUDecomp.ixx: Crout factorisation in place with the permutation
                             vector, pivot kept when > 0.1 cmax and > eps, null-pivot test),
     back_substitute        (LUSolve::back_substitute, TinyMatrixSolveBase::back_substitute for vector and
                             tmatrix<N,M> right-hand sides: permuted forward / back substitution, the Tiny version
                             re-tests the pivots against eps),
     TinyMatrixInvert::exe  (decomposition, then back substitution of every column of the identity).
   Matrices are functions nat -> nat -> F updated entry by entry in the order of the C++ loops.  The branches
   `p.isIdentity()` of the C++ are the specialisation p = id of the permuted branches (same operations in a field).
   Definitions only.  The model is instantiated on Qc (exact rationals, executed by vm_compute as the reference for
   the real code) and on R (theorems of C07LU.v hold for any field). *)
From Coq Require Import List Bool Arith.
Import ListNotations.

Section Model.
  Variable F : Type.
  Variables (f0 f1 : F) (fadd fmul fsub fdiv : F -> F -> F).
  (* |.|, strict comparison, the constant 0.1 of the pivot rule *)
  Variables (fabs : F -> F) (fltb : F -> F -> bool) (c01 : F).

  Definition matF := nat -> nat -> F.
  Definition mset (m : matF) (i j : nat) (v : F) : matF :=
    fun i' j' => if Nat.eqb i' i && Nat.eqb j' j then v else m i' j'.
  (* Permutation::swap / TinyPermutation::swap *)
  Definition pswap (p : nat -> nat) (i j : nat) : nat -> nat :=
    fun k => if Nat.eqb k i then p j else if Nat.eqb k j then p i else p k.
  (* v = 0; for (k = 0; k != n; ++k) v += f(k) *)
  Definition sumk (n : nat) (f : nat -> F) : F := fold_left (fun acc k => fadd acc (f k)) (seq 0 n) f0.
  (* v = 0; for (j = i; j != n; ++j) v += f(j) *)
  Definition sumr (i n : nat) (f : nat -> F) : F := fold_left (fun acc k => fadd acc (f k)) (seq i (n - i)) f0.

  (* ---- LUDecomp::exe, step i *)
  (* L update: for (j = i; j != n; ++j) m(p(j), i) -= sum_{k<i} m(p(j), k) * m(p(k), i) *)
  Definition lu_Lupdate (n i : nat) (m : matF) (p : nat -> nat) : matF :=
    fold_left (fun m j => let pj := p j in
                 mset m pj i (fsub (m pj i) (sumk i (fun k => fmul (m pj k) (m (p k) i)))))
              (seq i (n - i)) m.
  (* search for pivot: (cmax, piv) *)
  Definition lu_search (n i : nat) (m : matF) (p : nat -> nat) : F * nat :=
    fold_left (fun '(cmax, piv) j => let v := fabs (m (p j) i) in if fltb cmax v then (v, j) else (cmax, piv))
              (seq (S i) (n - S i)) (fabs (m (p i) i), i).
  Definition lu_perm (n : nat) (eps : F) (i : nat) (m : matF) (p : nat -> nat) : nat -> nat :=
    let '(cmax, piv) := lu_search n i m p in
    let d := fabs (m (p i) i) in
    if Nat.eqb piv i then p
    else if fltb (fmul c01 cmax) d && fltb eps d then p else pswap p piv i.
  (* U update: for (j = i+1; j != n; ++j) m(pi, j) = (m(pi, j) - sum_{k<i} m(pi, k) * m(p(k), j)) / m(pi, i) *)
  Definition lu_Uupdate (n i : nat) (m : matF) (p : nat -> nat) : matF :=
    let pi := p i in
    fold_left (fun m j => mset m pi j (fdiv (fsub (m pi j) (sumk i (fun k => fmul (m pi k) (m (p k) j)))) (m pi i)))
              (seq (S i) (n - S i)) m.
  (* None = null pivot reported *)
  Definition lu_step (n : nat) (eps : F) (st : matF * (nat -> nat)) (i : nat) : option (matF * (nat -> nat)) :=
    let '(m, p) := st in
    let m1 := lu_Lupdate n i m p in
    let p1 := lu_perm n eps i m1 p in
    if fltb (fabs (m1 (p1 i) i)) eps then None else Some (lu_Uupdate n i m1 p1, p1).
  Definition lu_steps (n : nat) (eps : F) (l : list nat) (st : option (matF * (nat -> nat))) :=
    fold_left (fun st i => match st with Some s => lu_step n eps s i | None => None end) l st.
  Definition lu_decomp (n : nat) (eps : F) (a : matF) : option (matF * (nat -> nat)) :=
    lu_steps n eps (seq 0 n) (Some (a, fun k => k)).

  (* ---- back_substitute with a right-hand side of M columns (M = 1: the vector overloads).
     chk = true: the pivot tests of TinyMatrixSolveBase::back_substitute (LUSolve::back_substitute has none) *)
  Definition bs_forward (n M : nat) (eps : F) (chk : bool) (m : matF) (p : nat -> nat) (b : matF) : option matF :=
    fold_left (fun st i =>
                 match st with
                 | None => None
                 | Some x =>
                   let pi := p i in
                   if chk && fltb (fabs (m pi i)) eps then None
                   else Some (fold_left (fun x' k =>
                                mset x' pi k (fdiv (fsub (x pi k) (sumk i (fun j => fmul (m pi j) (x (p j) k)))) (m pi i)))
                              (seq 0 M) x)
                 end) (seq 0 n) (Some b).
  Definition bs_backward (n M : nat) (m : matF) (p : nat -> nat) (x b : matF) : matF :=
    let b0 := fold_left (fun b' k => mset b' (n - 1) k (x (p (n - 1)) k)) (seq 0 M) b in
    fold_left (fun b' i' =>
                 let i := n - 1 - i' in            (* i = n-1 .. 1 *)
                 let pi2 := i - 1 in
                 let pi := p pi2 in
                 fold_left (fun b'' k => mset b'' pi2 k (fsub (x pi k) (sumr i n (fun j => fmul (m pi j) (b' j k)))))
                           (seq 0 M) b')
              (seq 0 (n - 1)) b0.
  Definition back_substitute (n M : nat) (eps : F) (chk : bool) (m : matF) (p : nat -> nat) (b : matF) : option matF :=
    match bs_forward n M eps chk m p b with
    | None => None
    | Some x => Some (bs_backward n M m p x b)
    end.

  (* TinyMatrixSolve<N>::exe(m, tmatrix<N,M>& b, eps) for N > 3 *)
  Definition lu_solve_mat (n M : nat) (eps : F) (chk : bool) (a b : matF) : option matF :=
    match lu_decomp n eps a with
    | None => None
    | Some (m, p) => back_substitute n M eps chk m p b
    end.
  (* LUSolve::exe (chk = false), TinyMatrixSolve<N>::exe(m, b, eps) (chk = true): vector right-hand side *)
  Definition lu_solve (n : nat) (eps : F) (chk : bool) (a : matF) (b : nat -> F) : option (nat -> F) :=
    match lu_solve_mat n 1 eps chk a (fun r _ => b r) with
    | None => None
    | Some x => Some (fun r => x r 0)
    end.
  (* TinyMatrixInvert<N>::exe: column i of the result = back substitution of the i-th unit vector *)
  Definition lu_invert (n : nat) (eps : F) (a : matF) : option matF :=
    lu_solve_mat n n eps true a (fun i j => if Nat.eqb i j then f1 else f0).

  (* conversions used by the harness *)
  Definition mat_of_list (l : list (list F)) : matF := fun i j => nth j (nth i l []) f0.
  Definition vec_of_list (l : list F) : nat -> F := fun i => nth i l f0.
  Definition list_of_vec (n : nat) (x : nat -> F) : list F := map x (seq 0 n).
  Definition list_of_mat (n M : nat) (x : matF) : list F := flat_map (fun i => map (x i) (seq 0 M)) (seq 0 n).
End Model.

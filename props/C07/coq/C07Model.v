(* C07 -- hand-written executable model, for every size n, of LUDecomp::exe (Crout factorisation with the
   permutation vector, pivot kept when > 0.1 cmax and > eps, null-pivot test) and of the permuted forward / back
   substitution of LUSolve::back_substitute / TinyMatrixSolveBase::back_substitute, over exact rationals.
   Definitions only; executed by vm_compute as the exact reference for the real code on rational matrices. *)
From Coq Require Import QArith Qabs List Bool Arith.
Import ListNotations.
Local Open Scope Q_scope.

Definition mat := list (list Q).
Definition get (m : mat) (i j : nat) : Q := nth j (nth i m []) 0.
Fixpoint upd {A} (l : list A) (i : nat) (f : A -> A) : list A :=
  match l, i with
  | [], _ => []
  | x :: r, O => f x :: r
  | x :: r, S i' => x :: upd r i' f
  end.
(* values are kept in lowest terms (Qred) so that exact arithmetic stays small *)
Definition set (m : mat) (i j : nat) (v : Q) : mat := upd m i (fun row => upd row j (fun _ => Qred v)).
Definition pget (p : list nat) (i : nat) : nat := nth i p 0%nat.
Definition pswap (p : list nat) (i j : nat) : list nat :=
  let a := pget p i in let b := pget p j in upd (upd p i (fun _ => b)) j (fun _ => a).
Definition Qltb (a b : Q) : bool := negb (Qle_bool b a).
Definition sumk (k : nat) (f : nat -> Q) : Q := fold_left (fun acc l => Qred (acc + f l)) (seq 0 k) 0.

(* one step i of LUDecomp::exe; None = null pivot reported *)
Definition lu_step (n : nat) (eps : Q) (st : mat * list nat) (i : nat) : option (mat * list nat) :=
  let '(m, p) := st in
  (* L update (column i) *)
  let m := fold_left (fun m j =>
             let pj := pget p j in
             set m pj i (get m pj i - sumk i (fun k => get m pj k * get m (pget p k) i)))
           (seq i (n - i)) m in
  (* search for pivot *)
  let '(cmax, piv) := fold_left (fun '(cmax, piv) j =>
                         let v := Qabs (get m (pget p j) i) in
                         if Qltb cmax v then (v, j) else (cmax, piv))
                       (seq (S i) (n - S i)) (Qabs (get m (pget p i) i), i) in
  let d := Qabs (get m (pget p i) i) in
  let p := if Nat.eqb piv i then p
           else if Qltb ((1 # 10) * cmax) d && Qltb eps d then p else pswap p piv i in
  if Qltb (Qabs (get m (pget p i) i)) eps then None
  else
    let pi := pget p i in
    (* U update (row i) *)
    let m := fold_left (fun m j =>
               set m pi j ((get m pi j - sumk i (fun k => get m pi k * get m (pget p k) j)) / get m pi i))
             (seq (S i) (n - S i)) m in
    Some (m, p).

Definition lu_decomp (n : nat) (eps : Q) (a : mat) : option (mat * list nat) :=
  fold_left (fun st i => match st with Some s => lu_step n eps s i | None => None end) (seq 0 n) (Some (a, seq 0 n)).

Definition vget (v : list Q) (i : nat) : Q := nth i v 0.
Definition vset (v : list Q) (i : nat) (x : Q) : list Q := upd v i (fun _ => Qred x).

(* LUSolve::back_substitute; check_eps = true adds the pivot tests of TinyMatrixSolveBase::back_substitute *)
Definition back_substitute (n : nat) (eps : Q) (check_eps : bool) (m : mat) (p : list nat) (b : list Q) : option (list Q) :=
  let fw := fold_left (fun st i =>
              match st with
              | None => None
              | Some x =>
                let pi := pget p i in
                if check_eps && Qltb (Qabs (get m pi i)) eps then None
                else Some (vset x pi ((vget x pi - sumk i (fun j => get m pi j * vget x (pget p j))) / get m pi i))
              end) (seq 0 n) (Some b) in
  match fw with
  | None => None
  | Some x =>
    let b := vset b (n - 1) (vget x (pget p (n - 1))) in
    Some (fold_left (fun b i' =>
            let i := (n - 1 - i')%nat in       (* i = n-1 .. 1 *)
            let pi2 := (i - 1)%nat in
            let pi := pget p pi2 in
            vset b pi2 (vget x pi - fold_left (fun acc j => Qred (acc + get m pi j * vget b j)) (seq i (n - i)) 0))
          (seq 0 (n - 1)) b)
  end.

Definition lu_solve (n : nat) (eps : Q) (check_eps : bool) (a : mat) (b : list Q) : option (list Q) :=
  match lu_decomp n eps a with
  | None => None
  | Some (m, p) => back_substitute n eps check_eps m p b
  end.

(* exact residual test used by the harness on the model's own answers *)
Definition mat_vec (a : mat) (x : list Q) : list Q :=
  map (fun row => fold_left Qplus (map (fun '(u, v) => u * v) (combine row x)) 0) a.
Definition solves_exactly (a : mat) (b x : list Q) : bool :=
  forallb (fun '(u, v) => Qeq_bool u v) (combine (mat_vec a x) b) && Nat.eqb (length x) (length b).
(* result printed in lowest terms, with the exact check *)
Definition run (n : nat) (a : mat) (b : list Q) :=
  match lu_solve n (1 # 1000000000000000000000000000000) true a b with
  | None => (false, true, [])
  | Some x => (true, solves_exactly a b x, map Qred x)
  end.
Definition run_eps (n : nat) (eps : Q) (a : mat) (b : list Q) :=
  match lu_solve n eps true a b with
  | None => (false, true, [])
  | Some x => (true, solves_exactly a b x, map Qred x)
  end.
(* verdict of the factorisation alone (TinyMatrixInvert) *)
Definition run_inv (n : nat) (eps : Q) (a : mat) (b : list Q) :=
  match lu_decomp n eps a with
  | None => (false, true, @nil Q)
  | Some _ => (true, true, [])
  end.

(* C07 -- proofs over the decision trees regenerated from /repo (C07_gen.v): closed forms and the LU path, N <= 3. *)
From Coq Require Import Reals List Lra Nsatz.
From C07 Require Import C07Spec C07Tactics C07_gen.
Import ListNotations.
Local Open Scope R_scope.

Section Trees.

  (* TinyMatrixSolve<1,2,3>::exe, vector right-hand side *)
  Lemma solve1_ok (a0 a1 a2 a3 a4 a5 a6 a7 a8 b0 b1 b2 b3 b4 b5 eps : R) (Heps : 0 < eps) x : solve1 a0 b0 eps = Some x -> solves 1 1 [a0] [b0] x.
  Proof. intro H. unfold solve1 in H. tree_ok H. Qed.
  Lemma solve2_ok (a0 a1 a2 a3 a4 a5 a6 a7 a8 b0 b1 b2 b3 b4 b5 eps : R) (Heps : 0 < eps) x : solve2 a0 a1 a2 a3 b0 b1 eps = Some x -> solves 2 1 [a0; a1; a2; a3] [b0; b1] x.
  Proof. intro H. unfold solve2 in H. tree_ok H. Qed.
  Lemma solve3_ok (a0 a1 a2 a3 a4 a5 a6 a7 a8 b0 b1 b2 b3 b4 b5 eps : R) (Heps : 0 < eps) x : solve3 a0 a1 a2 a3 a4 a5 a6 a7 a8 b0 b1 b2 eps = Some x ->
    solves 3 1 [a0; a1; a2; a3; a4; a5; a6; a7; a8] [b0; b1; b2] x.
  Proof. intro H. unfold solve3 in H. tree_ok H. Qed.
  Lemma solve1_null (a0 a1 a2 a3 a4 a5 a6 a7 a8 b0 b1 b2 b3 b4 b5 eps : R) (Heps : 0 < eps) : det1 [a0] = 0 -> solve1 a0 b0 eps = None.
  Proof. intro Hd. unfold solve1. null_det Hd Heps. Qed.
  Lemma solve2_null (a0 a1 a2 a3 a4 a5 a6 a7 a8 b0 b1 b2 b3 b4 b5 eps : R) (Heps : 0 < eps) : det2 [a0; a1; a2; a3] = 0 -> solve2 a0 a1 a2 a3 b0 b1 eps = None.
  Proof. intro Hd. unfold solve2. null_det Hd Heps. Qed.
  Lemma solve3_null (a0 a1 a2 a3 a4 a5 a6 a7 a8 b0 b1 b2 b3 b4 b5 eps : R) (Heps : 0 < eps) : det3 [a0; a1; a2; a3; a4; a5; a6; a7; a8] = 0 -> solve3 a0 a1 a2 a3 a4 a5 a6 a7 a8 b0 b1 b2 eps = None.
  Proof. intro Hd. unfold solve3. null_det Hd Heps. Qed.

  (* matrix right-hand side (two columns, row-major b) *)
  Lemma solvem1_ok (a0 a1 a2 a3 a4 a5 a6 a7 a8 b0 b1 b2 b3 b4 b5 eps : R) (Heps : 0 < eps) x : solvem1 a0 b0 b1 eps = Some x -> solves 1 2 [a0] [b0; b1] x.
  Proof. intro H. unfold solvem1 in H. tree_ok H. Qed.
  Lemma solvem2_ok (a0 a1 a2 a3 a4 a5 a6 a7 a8 b0 b1 b2 b3 b4 b5 eps : R) (Heps : 0 < eps) x : solvem2 a0 a1 a2 a3 b0 b1 b2 b3 eps = Some x -> solves 2 2 [a0; a1; a2; a3] [b0; b1; b2; b3] x.
  Proof. intro H. unfold solvem2 in H. tree_ok H. Qed.
  Lemma solvem3_ok (a0 a1 a2 a3 a4 a5 a6 a7 a8 b0 b1 b2 b3 b4 b5 eps : R) (Heps : 0 < eps) x : solvem3 a0 a1 a2 a3 a4 a5 a6 a7 a8 b0 b1 b2 b3 b4 b5 eps = Some x ->
    solves 3 2 [a0; a1; a2; a3; a4; a5; a6; a7; a8] [b0; b1; b2; b3; b4; b5] x.
  Proof. intro H. unfold solvem3 in H. tree_ok H. Qed.
  Lemma solvem2_null (a0 a1 a2 a3 a4 a5 a6 a7 a8 b0 b1 b2 b3 b4 b5 eps : R) (Heps : 0 < eps) : det2 [a0; a1; a2; a3] = 0 -> solvem2 a0 a1 a2 a3 b0 b1 b2 b3 eps = None.
  Proof. intro Hd. unfold solvem2. null_det Hd Heps. Qed.
  Lemma solvem3_null (a0 a1 a2 a3 a4 a5 a6 a7 a8 b0 b1 b2 b3 b4 b5 eps : R) (Heps : 0 < eps) : det3 [a0; a1; a2; a3; a4; a5; a6; a7; a8] = 0 ->
    solvem3 a0 a1 a2 a3 a4 a5 a6 a7 a8 b0 b1 b2 b3 b4 b5 eps = None.
  Proof. intro Hd. unfold solvem3. null_det Hd Heps. Qed.

  (* the LU path (LUDecomp::exe with partial pivoting + TinyMatrixSolveBase::back_substitute), all pivoting paths *)
  Lemma lu1_ok (a0 a1 a2 a3 a4 a5 a6 a7 a8 b0 b1 b2 b3 b4 b5 eps : R) (Heps : 0 < eps) x : lu1 a0 b0 eps = Some x -> solves 1 1 [a0] [b0] x.
  Proof. intro H. unfold lu1 in H. tree_ok H. Qed.
  Lemma lu2_ok (a0 a1 a2 a3 a4 a5 a6 a7 a8 b0 b1 b2 b3 b4 b5 eps : R) (Heps : 0 < eps) x : lu2 a0 a1 a2 a3 b0 b1 eps = Some x -> solves 2 1 [a0; a1; a2; a3] [b0; b1] x.
  Proof. intro H. unfold lu2 in H. tree_ok H. Qed.
  Lemma lu3_ok (a0 a1 a2 a3 a4 a5 a6 a7 a8 b0 b1 b2 b3 b4 b5 eps : R) (Heps : 0 < eps) x : lu3 a0 a1 a2 a3 a4 a5 a6 a7 a8 b0 b1 b2 eps = Some x ->
    solves 3 1 [a0; a1; a2; a3; a4; a5; a6; a7; a8] [b0; b1; b2] x.
  Proof. intro H. unfold lu3 in H. tree_ok H. Qed.

End Trees.

(* C07 -- proofs over the decision trees regenerated from /repo (C07_gen.v).  The scripts do not depend on the shape
   of the trees: every comparison is split, every division p / q is abstracted into d with d * q = p (q <> 0 from the
   pivot tests of the leaf), the input entries are eliminated and the rest is a ring identity (nsatz as fallback). *)
From Coq Require Import Reals List Lra Nsatz.
From C07 Require Import C07Spec C07_gen.
Import ListNotations.
Local Open Scope R_scope.

Lemma div_eq : forall n p q : R, q <> 0 -> n = p / q -> n * q = p.
Proof. intros n p q Hq E. subst n. field. exact Hq. Qed.

Ltac split_tree H :=
  repeat match type of H with
  | context [if Rlt_dec ?a ?b then _ else _] => destruct (Rlt_dec a b)
  end.
Ltac abstract_divisions :=
  repeat match goal with
  | |- context [?p / ?q] =>
      let d := fresh "d" in let E := fresh "E" in
      remember (p / q) as d eqn:E in *;
      apply div_eq in E;
      [| let Hz := fresh "Hz" in intro Hz; assert (Rabs q = 0) by (rewrite Hz; apply Rabs_R0); lra]
  end.
Ltac eliminate_inputs :=
  repeat match goal with
  | E : _ * _ = ?v |- _ => is_var v; subst v
  | E : ?l = ?v - ?r |- _ => is_var v;
      let E' := fresh "E" in
      assert (E' : v = l + r) by (rewrite E; ring); clear E; subst v
  end.
Ltac list_eq :=
  repeat match goal with
  | |- (_ :: _) = (_ :: _) => apply f_equal2
  | |- @nil _ = @nil _ => reflexivity
  end.
Ltac unfold_spec := unfold solves, is_inverse, mat_mul, entry, ident, sel; cbn.
(* closed forms (Cramer): x = N / det; `field`, the denominators being the determinant tested against eps *)
Ltac nz_side :=
  match goal with
  | Hn : ~ Rabs ?q < ?e, He : 0 < ?e |- ?q' <> 0 =>
      let Hz := fresh "Hz" in
      intro Hz; apply Hn; replace q with q' by ring; rewrite Hz, Rabs_R0; exact He
  | Hn : ~ Rabs ?q < ?e, He : 0 < ?e |- ?q' <> 0 =>
      let Hz := fresh "Hz" in
      intro Hz; apply Hn; replace q with (- q') by ring; rewrite Hz, Ropp_0, Rabs_R0; exact He
  end.
Ltac finish_field :=
  unfold_spec; list_eq; (field; repeat split; nz_side).
(* H : f args = Some x, with f unfolded *)
Ltac tree_ok H :=
  cbv zeta in H; split_tree H; try discriminate H;
  (injection H; intros; subst; clear H; first [ solve [abstract_divisions; unfold_spec; eliminate_inputs; list_eq; ring]
          | solve [finish_field]
          | solve [abstract_divisions; unfold_spec; list_eq; nsatz] ]).
(* closed forms: a null determinant is reported *)
Ltac null_det Hdet Heps :=
  cbv zeta;
  match goal with
  | |- context [Rlt_dec (Rabs ?d) ?e] =>
      replace d with 0 by (rewrite <- Hdet; unfold det1, det2, det3, sel; cbn; ring)
  end;
  rewrite Rabs_R0;
  match goal with |- context [Rlt_dec 0 ?e] => destruct (Rlt_dec 0 e); [reflexivity | contradiction] end.

Section Trees.

  (* TinyMatrixSolve<1,2,3>::exe, vector right-hand side *)
  Lemma solve1_ok (a0 a1 a2 a3 a4 a5 a6 a7 a8 b0 b1 b2 b3 b4 b5 eps : R) (Heps : 0 < eps) x : solve1 a0 b0 eps = Some x -> solves 1 1 [a0] [b0] x.
  Proof. intro H. unfold solve1 in H. tree_ok H. Qed.
  Lemma solve2_ok (a0 a1 a2 a3 a4 a5 a6 a7 a8 b0 b1 b2 b3 b4 b5 eps : R) (Heps : 0 < eps) x : solve2 a0 a1 a2 a3 b0 b1 eps = Some x -> solves 2 1 [a0; a1; a2; a3] [b0; b1] x.
  Proof. intro H. unfold solve2 in H. tree_ok H. Qed.
  Lemma solve3_ok (a0 a1 a2 a3 a4 a5 a6 a7 a8 b0 b1 b2 b3 b4 b5 eps : R) (Heps : 0 < eps) x : solve3 a0 a1 a2 a3 a4 a5 a6 a7 a8 b0 b1 b2 eps = Some x ->
    solves 3 1 [a0; a1; a2; a3; a4; a5; a6; a7; a8] [b0; b1; b2] x.
  Proof. intro H. unfold solve3 in H. tree_ok H. Qed.
  Lemma solve1_null (a0 a1 a2 a3 a4 a5 a6 a7 a8 b0 b1 b2 b3 b4 b5 eps : R) (Heps : 0 < eps) : det1 [a0] = 0 -> solve1 a0 b0 eps = None.
  Proof. intro Hd. unfold solve1. null_det Hd Heps. Qed.
  Lemma solve2_null (a0 a1 a2 a3 a4 a5 a6 a7 a8 b0 b1 b2 b3 b4 b5 eps : R) (Heps : 0 < eps) : det2 [a0; a1; a2; a3] = 0 -> solve2 a0 a1 a2 a3 b0 b1 eps = None.
  Proof. intro Hd. unfold solve2. null_det Hd Heps. Qed.
  Lemma solve3_null (a0 a1 a2 a3 a4 a5 a6 a7 a8 b0 b1 b2 b3 b4 b5 eps : R) (Heps : 0 < eps) : det3 [a0; a1; a2; a3; a4; a5; a6; a7; a8] = 0 -> solve3 a0 a1 a2 a3 a4 a5 a6 a7 a8 b0 b1 b2 eps = None.
  Proof. intro Hd. unfold solve3. null_det Hd Heps. Qed.

  (* matrix right-hand side (two columns, row-major b) *)
  Lemma solvem1_ok (a0 a1 a2 a3 a4 a5 a6 a7 a8 b0 b1 b2 b3 b4 b5 eps : R) (Heps : 0 < eps) x : solvem1 a0 b0 b1 eps = Some x -> solves 1 2 [a0] [b0; b1] x.
  Proof. intro H. unfold solvem1 in H. tree_ok H. Qed.
  Lemma solvem2_ok (a0 a1 a2 a3 a4 a5 a6 a7 a8 b0 b1 b2 b3 b4 b5 eps : R) (Heps : 0 < eps) x : solvem2 a0 a1 a2 a3 b0 b1 b2 b3 eps = Some x -> solves 2 2 [a0; a1; a2; a3] [b0; b1; b2; b3] x.
  Proof. intro H. unfold solvem2 in H. tree_ok H. Qed.
  Lemma solvem3_ok (a0 a1 a2 a3 a4 a5 a6 a7 a8 b0 b1 b2 b3 b4 b5 eps : R) (Heps : 0 < eps) x : solvem3 a0 a1 a2 a3 a4 a5 a6 a7 a8 b0 b1 b2 b3 b4 b5 eps = Some x ->
    solves 3 2 [a0; a1; a2; a3; a4; a5; a6; a7; a8] [b0; b1; b2; b3; b4; b5] x.
  Proof. intro H. unfold solvem3 in H. tree_ok H. Qed.
  Lemma solvem2_null (a0 a1 a2 a3 a4 a5 a6 a7 a8 b0 b1 b2 b3 b4 b5 eps : R) (Heps : 0 < eps) : det2 [a0; a1; a2; a3] = 0 -> solvem2 a0 a1 a2 a3 b0 b1 b2 b3 eps = None.
  Proof. intro Hd. unfold solvem2. null_det Hd Heps. Qed.
  Lemma solvem3_null (a0 a1 a2 a3 a4 a5 a6 a7 a8 b0 b1 b2 b3 b4 b5 eps : R) (Heps : 0 < eps) : det3 [a0; a1; a2; a3; a4; a5; a6; a7; a8] = 0 ->
    solvem3 a0 a1 a2 a3 a4 a5 a6 a7 a8 b0 b1 b2 b3 b4 b5 eps = None.
  Proof. intro Hd. unfold solvem3. null_det Hd Heps. Qed.

  (* the LU path (LUDecomp::exe with partial pivoting + TinyMatrixSolveBase::back_substitute), all pivoting paths *)
  Lemma lu1_ok (a0 a1 a2 a3 a4 a5 a6 a7 a8 b0 b1 b2 b3 b4 b5 eps : R) (Heps : 0 < eps) x : lu1 a0 b0 eps = Some x -> solves 1 1 [a0] [b0] x.
  Proof. intro H. unfold lu1 in H. tree_ok H. Qed.
  Lemma lu2_ok (a0 a1 a2 a3 a4 a5 a6 a7 a8 b0 b1 b2 b3 b4 b5 eps : R) (Heps : 0 < eps) x : lu2 a0 a1 a2 a3 b0 b1 eps = Some x -> solves 2 1 [a0; a1; a2; a3] [b0; b1] x.
  Proof. intro H. unfold lu2 in H. tree_ok H. Qed.
  Lemma lu3_ok (a0 a1 a2 a3 a4 a5 a6 a7 a8 b0 b1 b2 b3 b4 b5 eps : R) (Heps : 0 < eps) x : lu3 a0 a1 a2 a3 a4 a5 a6 a7 a8 b0 b1 b2 eps = Some x ->
    solves 3 1 [a0; a1; a2; a3; a4; a5; a6; a7; a8] [b0; b1; b2] x.
  Proof. intro H. unfold lu3 in H. tree_ok H. Qed.

End Trees.

(* C07 -- TinyMatrixInvert<N>::exe (N = 1, 2, 3) over the decision trees regenerated from /repo: Some x = it returned
   normally with x in its argument, None = it raised (LUNullPivot). *)
From Coq Require Import Reals List.
From C07 Require Import C07Spec C07_gen C07ProofsInv.
Import ListNotations.
Local Open Scope R_scope.

(* on every pivoting path (2 / 11 / 117 paths): the matrix returned is a right inverse of A *)
Theorem C07_invert_sound : forall a0 a1 a2 a3 a4 a5 a6 a7 a8 eps x, 0 < eps ->
  (invert1 a0 eps = Some x -> is_inverse 1 [a0] x) /\
  (invert2 a0 a1 a2 a3 eps = Some x -> is_inverse 2 [a0; a1; a2; a3] x) /\
  (invert3 a0 a1 a2 a3 a4 a5 a6 a7 a8 eps = Some x -> is_inverse 3 [a0; a1; a2; a3; a4; a5; a6; a7; a8] x).
Proof. exact invert_ok. Qed.
Print Assumptions C07_invert_sound.

(* hence a singular matrix (null determinant) is never inverted silently *)
Theorem C07_invert_singular_reported : forall a0 a1 a2 a3 a4 a5 a6 a7 a8 eps, 0 < eps ->
  (det2 [a0; a1; a2; a3] = 0 -> invert2 a0 a1 a2 a3 eps = None) /\
  (det3 [a0; a1; a2; a3; a4; a5; a6; a7; a8] = 0 -> invert3 a0 a1 a2 a3 a4 a5 a6 a7 a8 eps = None).
Proof.
  intros a0 a1 a2 a3 a4 a5 a6 a7 a8 eps He. split; intro Hd.
  - destruct (invert2 a0 a1 a2 a3 eps) as [x|] eqn:E; [|reflexivity].
    exfalso. exact (proj1 (invert_regular a0 a1 a2 a3 a4 a5 a6 a7 a8 eps x He) E Hd).
  - destruct (invert3 a0 a1 a2 a3 a4 a5 a6 a7 a8 eps) as [x|] eqn:E; [|reflexivity].
    exfalso. exact (proj2 (invert_regular a0 a1 a2 a3 a4 a5 a6 a7 a8 eps x He) E Hd).
Qed.
Print Assumptions C07_invert_singular_reported.

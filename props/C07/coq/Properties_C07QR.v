(* C07 -- QRDecomp over the decision trees regenerated from /repo (sign tests a(k,k) > 0, eps tests of back_substitute).
   Statements only; proofs in C07ProofsQR.v.  See C07ProofsQR.v for the outputs of qrh<N>_<c>. *)
From Coq Require Import Reals List.
From C07 Require Import C07Spec C07_genqr C07ProofsQR.
Import ListNotations.
Local Open Scope R_scope.

(* the first Householder reflector H_0 = I - v v^T / beta(0) built by QRDecomp::exe and applied by the real
   householder_product, N = 2, 3, every matrix a with beta(0) <> 0 (non-null first column), every w, u:
   (H_0 w).(H_0 u) = w.u (H_0^T H_0 = I), H_0 a(:,0) = (rdiag(0), 0, ..) (the sub-column is zeroed, the diagonal of R is
   rdiag) and the first row of R stored in a is the first entry of H_0 a(:,j) *)
Theorem C07_qr_first_reflector : forall a0 a1 a2 a3 a4 a5 a6 a7 a8 w0 w1 w2 u0 u1 u2 l,
  (qrh2_0 a0 a1 a2 a3 w0 w1 u0 u1 = Some l ->
   match l with
   | [hw0; hw1; hu0; hu1; c0; c1; rd; p1; q1; beta] =>
       beta <> 0 -> hw0 * hu0 + hw1 * hu1 = w0 * u0 + w1 * u1 /\ c0 = rd /\ c1 = 0 /\ p1 = q1
   | _ => False
   end) /\
  (qrh3_0 a0 a1 a2 a3 a4 a5 a6 a7 a8 w0 w1 w2 u0 u1 u2 = Some l ->
   match l with
   | [hw0; hw1; hw2; hu0; hu1; hu2; c0; c1; c2; rd; p1; q1; p2; q2; beta] =>
       beta <> 0 -> hw0 * hu0 + hw1 * hu1 + hw2 * hu2 = w0 * u0 + w1 * u1 + w2 * u2 /\
                    c0 = rd /\ c1 = 0 /\ c2 = 0 /\ p1 = q1 /\ p2 = q2
   | _ => False
   end).
Proof.
  intros a0 a1 a2 a3 a4 a5 a6 a7 a8 w0 w1 w2 u0 u1 u2 l.
  exact (conj (qrh2_0_ok a0 a1 a2 a3 w0 w1 u0 u1 l) (qrh3_0_ok a0 a1 a2 a3 a4 a5 a6 a7 a8 w0 w1 w2 u0 u1 u2 l)).
Qed.
Print Assumptions C07_qr_first_reflector.

(* the later reflectors H_c (c >= 1) of the same factorisation are orthogonal too and leave the first c entries alone *)
Theorem C07_qr_later_reflectors_orthogonal : forall a0 a1 a2 a3 a4 a5 a6 a7 a8 w0 w1 w2 u0 u1 u2 l,
  (qrh2_1 a0 a1 a2 a3 w0 w1 u0 u1 = Some l ->
   match l with
   | [hw0; hw1; hu0; hu1; beta] =>
       beta <> 0 -> hw0 * hu0 + hw1 * hu1 = w0 * u0 + w1 * u1 /\ hw0 = w0 /\ hu0 = u0
   | _ => False
   end) /\
  (qrh3_1 a0 a1 a2 a3 a4 a5 a6 a7 a8 w0 w1 w2 u0 u1 u2 = Some l ->
   match l with
   | [hw0; hw1; hw2; hu0; hu1; hu2; beta] =>
       beta <> 0 -> hw0 * hu0 + hw1 * hu1 + hw2 * hu2 = w0 * u0 + w1 * u1 + w2 * u2 /\ hw0 = w0 /\ hu0 = u0
   | _ => False
   end) /\
  (qrh3_2 a0 a1 a2 a3 a4 a5 a6 a7 a8 w0 w1 w2 u0 u1 u2 = Some l ->
   match l with
   | [hw0; hw1; hw2; hu0; hu1; hu2; beta] =>
       beta <> 0 -> hw0 * hu0 + hw1 * hu1 + hw2 * hu2 = w0 * u0 + w1 * u1 + w2 * u2 /\
                    hw0 = w0 /\ hu0 = u0 /\ hw1 = w1 /\ hu1 = u1
   | _ => False
   end).
Proof.
  intros a0 a1 a2 a3 a4 a5 a6 a7 a8 w0 w1 w2 u0 u1 u2 l.
  exact (conj (qrh2_1_ok a0 a1 a2 a3 w0 w1 u0 u1 l)
        (conj (qrh3_1_ok a0 a1 a2 a3 a4 a5 a6 a7 a8 w0 w1 w2 u0 u1 u2 l) (qrh3_2_ok a0 a1 a2 a3 a4 a5 a6 a7 a8 w0 w1 w2 u0 u1 u2 l))).
Qed.
Print Assumptions C07_qr_later_reflectors_orthogonal.

(* QRDecomp::exe + tq_product + back_substitute(eps): when no exception is raised the result solves a x = b, on every
   path (sign of the diagonal entries, eps tests), N = 1, 2.  (_partial: the same statement for N >= 3 is not proved;
   sizes up to 8 are compared with the exact solution by execution only) *)
Theorem C07_qr_solve_sound_partial : forall a0 a1 a2 a3 b0 b1 eps x, 0 < eps ->
  (qrsolve1 a0 b0 eps = Some x -> solves 1 1 [a0] [b0] x) /\
  (qrsolve2 a0 a1 a2 a3 b0 b1 eps = Some x -> solves 2 1 [a0; a1; a2; a3] [b0; b1] x).
Proof.
  intros a0 a1 a2 a3 b0 b1 eps x He.
  exact (conj (qrsolve1_ok a0 b0 eps x He) (qrsolve2_ok a0 a1 a2 a3 b0 b1 eps x He)).
Qed.
Print Assumptions C07_qr_solve_sound_partial.

(* C07 -- TinyMatrixSolveBase<4>::back_substitute (tmatrix<4,2> right-hand side) traced alone on a symbolic factorised matrix, for the
   permutations 0123 0132 0231 1230 1302 2031 3120 3201 (every permutation LUDecomp can produce is covered by the files C07ProofsBSa, BSb, BSv): when it
   returns true, the result solves (L U) X = P B.  GENERATED once by a script (one lemma per permutation), static since. *)
From Coq Require Import Reals List Lra Nsatz.
From C07 Require Import C07Spec C07Tactics C07_genbs.
Import ListNotations.
Local Open Scope R_scope.

Lemma bsm4_0123_ok a0 a1 a2 a3 a4 a5 a6 a7 a8 a9 a10 a11 a12 a13 a14 a15 b0 b1 b2 b3 b4 b5 b6 b7 eps x (Heps : 0 < eps) :
  bsm4_0123 a0 a1 a2 a3 a4 a5 a6 a7 a8 a9 a10 a11 a12 a13 a14 a15 b0 b1 b2 b3 b4 b5 b6 b7 eps = Some x -> bs_solves 4 2 [0; 1; 2; 3]%nat [a0; a1; a2; a3; a4; a5; a6; a7; a8; a9; a10; a11; a12; a13; a14; a15] [b0; b1; b2; b3; b4; b5; b6; b7] x.
Proof. intro H. unfold bsm4_0123 in H. bs_ok H. Qed.
Lemma bsm4_0132_ok a0 a1 a2 a3 a4 a5 a6 a7 a8 a9 a10 a11 a12 a13 a14 a15 b0 b1 b2 b3 b4 b5 b6 b7 eps x (Heps : 0 < eps) :
  bsm4_0132 a0 a1 a2 a3 a4 a5 a6 a7 a8 a9 a10 a11 a12 a13 a14 a15 b0 b1 b2 b3 b4 b5 b6 b7 eps = Some x -> bs_solves 4 2 [0; 1; 3; 2]%nat [a0; a1; a2; a3; a4; a5; a6; a7; a8; a9; a10; a11; a12; a13; a14; a15] [b0; b1; b2; b3; b4; b5; b6; b7] x.
Proof. intro H. unfold bsm4_0132 in H. bs_ok H. Qed.
Lemma bsm4_0231_ok a0 a1 a2 a3 a4 a5 a6 a7 a8 a9 a10 a11 a12 a13 a14 a15 b0 b1 b2 b3 b4 b5 b6 b7 eps x (Heps : 0 < eps) :
  bsm4_0231 a0 a1 a2 a3 a4 a5 a6 a7 a8 a9 a10 a11 a12 a13 a14 a15 b0 b1 b2 b3 b4 b5 b6 b7 eps = Some x -> bs_solves 4 2 [0; 2; 3; 1]%nat [a0; a1; a2; a3; a4; a5; a6; a7; a8; a9; a10; a11; a12; a13; a14; a15] [b0; b1; b2; b3; b4; b5; b6; b7] x.
Proof. intro H. unfold bsm4_0231 in H. bs_ok H. Qed.
Lemma bsm4_1230_ok a0 a1 a2 a3 a4 a5 a6 a7 a8 a9 a10 a11 a12 a13 a14 a15 b0 b1 b2 b3 b4 b5 b6 b7 eps x (Heps : 0 < eps) :
  bsm4_1230 a0 a1 a2 a3 a4 a5 a6 a7 a8 a9 a10 a11 a12 a13 a14 a15 b0 b1 b2 b3 b4 b5 b6 b7 eps = Some x -> bs_solves 4 2 [1; 2; 3; 0]%nat [a0; a1; a2; a3; a4; a5; a6; a7; a8; a9; a10; a11; a12; a13; a14; a15] [b0; b1; b2; b3; b4; b5; b6; b7] x.
Proof. intro H. unfold bsm4_1230 in H. bs_ok H. Qed.
Lemma bsm4_1302_ok a0 a1 a2 a3 a4 a5 a6 a7 a8 a9 a10 a11 a12 a13 a14 a15 b0 b1 b2 b3 b4 b5 b6 b7 eps x (Heps : 0 < eps) :
  bsm4_1302 a0 a1 a2 a3 a4 a5 a6 a7 a8 a9 a10 a11 a12 a13 a14 a15 b0 b1 b2 b3 b4 b5 b6 b7 eps = Some x -> bs_solves 4 2 [1; 3; 0; 2]%nat [a0; a1; a2; a3; a4; a5; a6; a7; a8; a9; a10; a11; a12; a13; a14; a15] [b0; b1; b2; b3; b4; b5; b6; b7] x.
Proof. intro H. unfold bsm4_1302 in H. bs_ok H. Qed.
Lemma bsm4_2031_ok a0 a1 a2 a3 a4 a5 a6 a7 a8 a9 a10 a11 a12 a13 a14 a15 b0 b1 b2 b3 b4 b5 b6 b7 eps x (Heps : 0 < eps) :
  bsm4_2031 a0 a1 a2 a3 a4 a5 a6 a7 a8 a9 a10 a11 a12 a13 a14 a15 b0 b1 b2 b3 b4 b5 b6 b7 eps = Some x -> bs_solves 4 2 [2; 0; 3; 1]%nat [a0; a1; a2; a3; a4; a5; a6; a7; a8; a9; a10; a11; a12; a13; a14; a15] [b0; b1; b2; b3; b4; b5; b6; b7] x.
Proof. intro H. unfold bsm4_2031 in H. bs_ok H. Qed.
Lemma bsm4_3120_ok a0 a1 a2 a3 a4 a5 a6 a7 a8 a9 a10 a11 a12 a13 a14 a15 b0 b1 b2 b3 b4 b5 b6 b7 eps x (Heps : 0 < eps) :
  bsm4_3120 a0 a1 a2 a3 a4 a5 a6 a7 a8 a9 a10 a11 a12 a13 a14 a15 b0 b1 b2 b3 b4 b5 b6 b7 eps = Some x -> bs_solves 4 2 [3; 1; 2; 0]%nat [a0; a1; a2; a3; a4; a5; a6; a7; a8; a9; a10; a11; a12; a13; a14; a15] [b0; b1; b2; b3; b4; b5; b6; b7] x.
Proof. intro H. unfold bsm4_3120 in H. bs_ok H. Qed.
Lemma bsm4_3201_ok a0 a1 a2 a3 a4 a5 a6 a7 a8 a9 a10 a11 a12 a13 a14 a15 b0 b1 b2 b3 b4 b5 b6 b7 eps x (Heps : 0 < eps) :
  bsm4_3201 a0 a1 a2 a3 a4 a5 a6 a7 a8 a9 a10 a11 a12 a13 a14 a15 b0 b1 b2 b3 b4 b5 b6 b7 eps = Some x -> bs_solves 4 2 [3; 2; 0; 1]%nat [a0; a1; a2; a3; a4; a5; a6; a7; a8; a9; a10; a11; a12; a13; a14; a15] [b0; b1; b2; b3; b4; b5; b6; b7] x.
Proof. intro H. unfold bsm4_3201 in H. bs_ok H. Qed.

Definition bsm4_a_stmt : Prop := forall a0 a1 a2 a3 a4 a5 a6 a7 a8 a9 a10 a11 a12 a13 a14 a15 b0 b1 b2 b3 b4 b5 b6 b7 eps x, 0 < eps ->
  (bsm4_0123 a0 a1 a2 a3 a4 a5 a6 a7 a8 a9 a10 a11 a12 a13 a14 a15 b0 b1 b2 b3 b4 b5 b6 b7 eps = Some x -> bs_solves 4 2 [0; 1; 2; 3]%nat [a0; a1; a2; a3; a4; a5; a6; a7; a8; a9; a10; a11; a12; a13; a14; a15] [b0; b1; b2; b3; b4; b5; b6; b7] x) /\
  (bsm4_0132 a0 a1 a2 a3 a4 a5 a6 a7 a8 a9 a10 a11 a12 a13 a14 a15 b0 b1 b2 b3 b4 b5 b6 b7 eps = Some x -> bs_solves 4 2 [0; 1; 3; 2]%nat [a0; a1; a2; a3; a4; a5; a6; a7; a8; a9; a10; a11; a12; a13; a14; a15] [b0; b1; b2; b3; b4; b5; b6; b7] x) /\
  (bsm4_0231 a0 a1 a2 a3 a4 a5 a6 a7 a8 a9 a10 a11 a12 a13 a14 a15 b0 b1 b2 b3 b4 b5 b6 b7 eps = Some x -> bs_solves 4 2 [0; 2; 3; 1]%nat [a0; a1; a2; a3; a4; a5; a6; a7; a8; a9; a10; a11; a12; a13; a14; a15] [b0; b1; b2; b3; b4; b5; b6; b7] x) /\
  (bsm4_1230 a0 a1 a2 a3 a4 a5 a6 a7 a8 a9 a10 a11 a12 a13 a14 a15 b0 b1 b2 b3 b4 b5 b6 b7 eps = Some x -> bs_solves 4 2 [1; 2; 3; 0]%nat [a0; a1; a2; a3; a4; a5; a6; a7; a8; a9; a10; a11; a12; a13; a14; a15] [b0; b1; b2; b3; b4; b5; b6; b7] x) /\
  (bsm4_1302 a0 a1 a2 a3 a4 a5 a6 a7 a8 a9 a10 a11 a12 a13 a14 a15 b0 b1 b2 b3 b4 b5 b6 b7 eps = Some x -> bs_solves 4 2 [1; 3; 0; 2]%nat [a0; a1; a2; a3; a4; a5; a6; a7; a8; a9; a10; a11; a12; a13; a14; a15] [b0; b1; b2; b3; b4; b5; b6; b7] x) /\
  (bsm4_2031 a0 a1 a2 a3 a4 a5 a6 a7 a8 a9 a10 a11 a12 a13 a14 a15 b0 b1 b2 b3 b4 b5 b6 b7 eps = Some x -> bs_solves 4 2 [2; 0; 3; 1]%nat [a0; a1; a2; a3; a4; a5; a6; a7; a8; a9; a10; a11; a12; a13; a14; a15] [b0; b1; b2; b3; b4; b5; b6; b7] x) /\
  (bsm4_3120 a0 a1 a2 a3 a4 a5 a6 a7 a8 a9 a10 a11 a12 a13 a14 a15 b0 b1 b2 b3 b4 b5 b6 b7 eps = Some x -> bs_solves 4 2 [3; 1; 2; 0]%nat [a0; a1; a2; a3; a4; a5; a6; a7; a8; a9; a10; a11; a12; a13; a14; a15] [b0; b1; b2; b3; b4; b5; b6; b7] x) /\
  (bsm4_3201 a0 a1 a2 a3 a4 a5 a6 a7 a8 a9 a10 a11 a12 a13 a14 a15 b0 b1 b2 b3 b4 b5 b6 b7 eps = Some x -> bs_solves 4 2 [3; 2; 0; 1]%nat [a0; a1; a2; a3; a4; a5; a6; a7; a8; a9; a10; a11; a12; a13; a14; a15] [b0; b1; b2; b3; b4; b5; b6; b7] x).
Lemma bsm4_a_all : bsm4_a_stmt.
Proof.
  intros a0 a1 a2 a3 a4 a5 a6 a7 a8 a9 a10 a11 a12 a13 a14 a15 b0 b1 b2 b3 b4 b5 b6 b7 eps x He.
  exact (conj (bsm4_0123_ok a0 a1 a2 a3 a4 a5 a6 a7 a8 a9 a10 a11 a12 a13 a14 a15 b0 b1 b2 b3 b4 b5 b6 b7 eps x He) (conj (bsm4_0132_ok a0 a1 a2 a3 a4 a5 a6 a7 a8 a9 a10 a11 a12 a13 a14 a15 b0 b1 b2 b3 b4 b5 b6 b7 eps x He) (conj (bsm4_0231_ok a0 a1 a2 a3 a4 a5 a6 a7 a8 a9 a10 a11 a12 a13 a14 a15 b0 b1 b2 b3 b4 b5 b6 b7 eps x He) (conj (bsm4_1230_ok a0 a1 a2 a3 a4 a5 a6 a7 a8 a9 a10 a11 a12 a13 a14 a15 b0 b1 b2 b3 b4 b5 b6 b7 eps x He) (conj (bsm4_1302_ok a0 a1 a2 a3 a4 a5 a6 a7 a8 a9 a10 a11 a12 a13 a14 a15 b0 b1 b2 b3 b4 b5 b6 b7 eps x He) (conj (bsm4_2031_ok a0 a1 a2 a3 a4 a5 a6 a7 a8 a9 a10 a11 a12 a13 a14 a15 b0 b1 b2 b3 b4 b5 b6 b7 eps x He) (conj (bsm4_3120_ok a0 a1 a2 a3 a4 a5 a6 a7 a8 a9 a10 a11 a12 a13 a14 a15 b0 b1 b2 b3 b4 b5 b6 b7 eps x He) (bsm4_3201_ok a0 a1 a2 a3 a4 a5 a6 a7 a8 a9 a10 a11 a12 a13 a14 a15 b0 b1 b2 b3 b4 b5 b6 b7 eps x He)))))))).
Qed.

(* C07 -- TinyMatrixSolveBase<4>::back_substitute (tvector<4> right-hand side) traced alone on a symbolic factorised matrix, for the
   permutations 0123 0132 0213 0231 0321 0312 1023 1032 1203 1230 1320 1302 2103 2130 2013 2031 2301 2310 3120 3102 3210 3201 3021 3012 (every permutation LUDecomp can produce is covered by the files C07ProofsBSa, BSb, BSv): when it returns true,
   the result solves (L U) X = P B.  GENERATED once by a script (one lemma per permutation), static since. *)
From Coq Require Import Reals List Lra Nsatz.
From C07 Require Import C07Spec C07Tactics C07_genbs.
Import ListNotations.
Local Open Scope R_scope.

Lemma bsv4_0123_ok a0 a1 a2 a3 a4 a5 a6 a7 a8 a9 a10 a11 a12 a13 a14 a15 b0 b1 b2 b3 eps x (Heps : 0 < eps) :
  bsv4_0123 a0 a1 a2 a3 a4 a5 a6 a7 a8 a9 a10 a11 a12 a13 a14 a15 b0 b1 b2 b3 eps = Some x -> bs_solves 4 1 [0; 1; 2; 3]%nat [a0; a1; a2; a3; a4; a5; a6; a7; a8; a9; a10; a11; a12; a13; a14; a15] [b0; b1; b2; b3] x.
Proof. intro H. unfold bsv4_0123 in H. bs_ok H. Qed.
Lemma bsv4_0132_ok a0 a1 a2 a3 a4 a5 a6 a7 a8 a9 a10 a11 a12 a13 a14 a15 b0 b1 b2 b3 eps x (Heps : 0 < eps) :
  bsv4_0132 a0 a1 a2 a3 a4 a5 a6 a7 a8 a9 a10 a11 a12 a13 a14 a15 b0 b1 b2 b3 eps = Some x -> bs_solves 4 1 [0; 1; 3; 2]%nat [a0; a1; a2; a3; a4; a5; a6; a7; a8; a9; a10; a11; a12; a13; a14; a15] [b0; b1; b2; b3] x.
Proof. intro H. unfold bsv4_0132 in H. bs_ok H. Qed.
Lemma bsv4_0213_ok a0 a1 a2 a3 a4 a5 a6 a7 a8 a9 a10 a11 a12 a13 a14 a15 b0 b1 b2 b3 eps x (Heps : 0 < eps) :
  bsv4_0213 a0 a1 a2 a3 a4 a5 a6 a7 a8 a9 a10 a11 a12 a13 a14 a15 b0 b1 b2 b3 eps = Some x -> bs_solves 4 1 [0; 2; 1; 3]%nat [a0; a1; a2; a3; a4; a5; a6; a7; a8; a9; a10; a11; a12; a13; a14; a15] [b0; b1; b2; b3] x.
Proof. intro H. unfold bsv4_0213 in H. bs_ok H. Qed.
Lemma bsv4_0231_ok a0 a1 a2 a3 a4 a5 a6 a7 a8 a9 a10 a11 a12 a13 a14 a15 b0 b1 b2 b3 eps x (Heps : 0 < eps) :
  bsv4_0231 a0 a1 a2 a3 a4 a5 a6 a7 a8 a9 a10 a11 a12 a13 a14 a15 b0 b1 b2 b3 eps = Some x -> bs_solves 4 1 [0; 2; 3; 1]%nat [a0; a1; a2; a3; a4; a5; a6; a7; a8; a9; a10; a11; a12; a13; a14; a15] [b0; b1; b2; b3] x.
Proof. intro H. unfold bsv4_0231 in H. bs_ok H. Qed.
Lemma bsv4_0321_ok a0 a1 a2 a3 a4 a5 a6 a7 a8 a9 a10 a11 a12 a13 a14 a15 b0 b1 b2 b3 eps x (Heps : 0 < eps) :
  bsv4_0321 a0 a1 a2 a3 a4 a5 a6 a7 a8 a9 a10 a11 a12 a13 a14 a15 b0 b1 b2 b3 eps = Some x -> bs_solves 4 1 [0; 3; 2; 1]%nat [a0; a1; a2; a3; a4; a5; a6; a7; a8; a9; a10; a11; a12; a13; a14; a15] [b0; b1; b2; b3] x.
Proof. intro H. unfold bsv4_0321 in H. bs_ok H. Qed.
Lemma bsv4_0312_ok a0 a1 a2 a3 a4 a5 a6 a7 a8 a9 a10 a11 a12 a13 a14 a15 b0 b1 b2 b3 eps x (Heps : 0 < eps) :
  bsv4_0312 a0 a1 a2 a3 a4 a5 a6 a7 a8 a9 a10 a11 a12 a13 a14 a15 b0 b1 b2 b3 eps = Some x -> bs_solves 4 1 [0; 3; 1; 2]%nat [a0; a1; a2; a3; a4; a5; a6; a7; a8; a9; a10; a11; a12; a13; a14; a15] [b0; b1; b2; b3] x.
Proof. intro H. unfold bsv4_0312 in H. bs_ok H. Qed.
Lemma bsv4_1023_ok a0 a1 a2 a3 a4 a5 a6 a7 a8 a9 a10 a11 a12 a13 a14 a15 b0 b1 b2 b3 eps x (Heps : 0 < eps) :
  bsv4_1023 a0 a1 a2 a3 a4 a5 a6 a7 a8 a9 a10 a11 a12 a13 a14 a15 b0 b1 b2 b3 eps = Some x -> bs_solves 4 1 [1; 0; 2; 3]%nat [a0; a1; a2; a3; a4; a5; a6; a7; a8; a9; a10; a11; a12; a13; a14; a15] [b0; b1; b2; b3] x.
Proof. intro H. unfold bsv4_1023 in H. bs_ok H. Qed.
Lemma bsv4_1032_ok a0 a1 a2 a3 a4 a5 a6 a7 a8 a9 a10 a11 a12 a13 a14 a15 b0 b1 b2 b3 eps x (Heps : 0 < eps) :
  bsv4_1032 a0 a1 a2 a3 a4 a5 a6 a7 a8 a9 a10 a11 a12 a13 a14 a15 b0 b1 b2 b3 eps = Some x -> bs_solves 4 1 [1; 0; 3; 2]%nat [a0; a1; a2; a3; a4; a5; a6; a7; a8; a9; a10; a11; a12; a13; a14; a15] [b0; b1; b2; b3] x.
Proof. intro H. unfold bsv4_1032 in H. bs_ok H. Qed.
Lemma bsv4_1203_ok a0 a1 a2 a3 a4 a5 a6 a7 a8 a9 a10 a11 a12 a13 a14 a15 b0 b1 b2 b3 eps x (Heps : 0 < eps) :
  bsv4_1203 a0 a1 a2 a3 a4 a5 a6 a7 a8 a9 a10 a11 a12 a13 a14 a15 b0 b1 b2 b3 eps = Some x -> bs_solves 4 1 [1; 2; 0; 3]%nat [a0; a1; a2; a3; a4; a5; a6; a7; a8; a9; a10; a11; a12; a13; a14; a15] [b0; b1; b2; b3] x.
Proof. intro H. unfold bsv4_1203 in H. bs_ok H. Qed.
Lemma bsv4_1230_ok a0 a1 a2 a3 a4 a5 a6 a7 a8 a9 a10 a11 a12 a13 a14 a15 b0 b1 b2 b3 eps x (Heps : 0 < eps) :
  bsv4_1230 a0 a1 a2 a3 a4 a5 a6 a7 a8 a9 a10 a11 a12 a13 a14 a15 b0 b1 b2 b3 eps = Some x -> bs_solves 4 1 [1; 2; 3; 0]%nat [a0; a1; a2; a3; a4; a5; a6; a7; a8; a9; a10; a11; a12; a13; a14; a15] [b0; b1; b2; b3] x.
Proof. intro H. unfold bsv4_1230 in H. bs_ok H. Qed.
Lemma bsv4_1320_ok a0 a1 a2 a3 a4 a5 a6 a7 a8 a9 a10 a11 a12 a13 a14 a15 b0 b1 b2 b3 eps x (Heps : 0 < eps) :
  bsv4_1320 a0 a1 a2 a3 a4 a5 a6 a7 a8 a9 a10 a11 a12 a13 a14 a15 b0 b1 b2 b3 eps = Some x -> bs_solves 4 1 [1; 3; 2; 0]%nat [a0; a1; a2; a3; a4; a5; a6; a7; a8; a9; a10; a11; a12; a13; a14; a15] [b0; b1; b2; b3] x.
Proof. intro H. unfold bsv4_1320 in H. bs_ok H. Qed.
Lemma bsv4_1302_ok a0 a1 a2 a3 a4 a5 a6 a7 a8 a9 a10 a11 a12 a13 a14 a15 b0 b1 b2 b3 eps x (Heps : 0 < eps) :
  bsv4_1302 a0 a1 a2 a3 a4 a5 a6 a7 a8 a9 a10 a11 a12 a13 a14 a15 b0 b1 b2 b3 eps = Some x -> bs_solves 4 1 [1; 3; 0; 2]%nat [a0; a1; a2; a3; a4; a5; a6; a7; a8; a9; a10; a11; a12; a13; a14; a15] [b0; b1; b2; b3] x.
Proof. intro H. unfold bsv4_1302 in H. bs_ok H. Qed.
Lemma bsv4_2103_ok a0 a1 a2 a3 a4 a5 a6 a7 a8 a9 a10 a11 a12 a13 a14 a15 b0 b1 b2 b3 eps x (Heps : 0 < eps) :
  bsv4_2103 a0 a1 a2 a3 a4 a5 a6 a7 a8 a9 a10 a11 a12 a13 a14 a15 b0 b1 b2 b3 eps = Some x -> bs_solves 4 1 [2; 1; 0; 3]%nat [a0; a1; a2; a3; a4; a5; a6; a7; a8; a9; a10; a11; a12; a13; a14; a15] [b0; b1; b2; b3] x.
Proof. intro H. unfold bsv4_2103 in H. bs_ok H. Qed.
Lemma bsv4_2130_ok a0 a1 a2 a3 a4 a5 a6 a7 a8 a9 a10 a11 a12 a13 a14 a15 b0 b1 b2 b3 eps x (Heps : 0 < eps) :
  bsv4_2130 a0 a1 a2 a3 a4 a5 a6 a7 a8 a9 a10 a11 a12 a13 a14 a15 b0 b1 b2 b3 eps = Some x -> bs_solves 4 1 [2; 1; 3; 0]%nat [a0; a1; a2; a3; a4; a5; a6; a7; a8; a9; a10; a11; a12; a13; a14; a15] [b0; b1; b2; b3] x.
Proof. intro H. unfold bsv4_2130 in H. bs_ok H. Qed.
Lemma bsv4_2013_ok a0 a1 a2 a3 a4 a5 a6 a7 a8 a9 a10 a11 a12 a13 a14 a15 b0 b1 b2 b3 eps x (Heps : 0 < eps) :
  bsv4_2013 a0 a1 a2 a3 a4 a5 a6 a7 a8 a9 a10 a11 a12 a13 a14 a15 b0 b1 b2 b3 eps = Some x -> bs_solves 4 1 [2; 0; 1; 3]%nat [a0; a1; a2; a3; a4; a5; a6; a7; a8; a9; a10; a11; a12; a13; a14; a15] [b0; b1; b2; b3] x.
Proof. intro H. unfold bsv4_2013 in H. bs_ok H. Qed.
Lemma bsv4_2031_ok a0 a1 a2 a3 a4 a5 a6 a7 a8 a9 a10 a11 a12 a13 a14 a15 b0 b1 b2 b3 eps x (Heps : 0 < eps) :
  bsv4_2031 a0 a1 a2 a3 a4 a5 a6 a7 a8 a9 a10 a11 a12 a13 a14 a15 b0 b1 b2 b3 eps = Some x -> bs_solves 4 1 [2; 0; 3; 1]%nat [a0; a1; a2; a3; a4; a5; a6; a7; a8; a9; a10; a11; a12; a13; a14; a15] [b0; b1; b2; b3] x.
Proof. intro H. unfold bsv4_2031 in H. bs_ok H. Qed.
Lemma bsv4_2301_ok a0 a1 a2 a3 a4 a5 a6 a7 a8 a9 a10 a11 a12 a13 a14 a15 b0 b1 b2 b3 eps x (Heps : 0 < eps) :
  bsv4_2301 a0 a1 a2 a3 a4 a5 a6 a7 a8 a9 a10 a11 a12 a13 a14 a15 b0 b1 b2 b3 eps = Some x -> bs_solves 4 1 [2; 3; 0; 1]%nat [a0; a1; a2; a3; a4; a5; a6; a7; a8; a9; a10; a11; a12; a13; a14; a15] [b0; b1; b2; b3] x.
Proof. intro H. unfold bsv4_2301 in H. bs_ok H. Qed.
Lemma bsv4_2310_ok a0 a1 a2 a3 a4 a5 a6 a7 a8 a9 a10 a11 a12 a13 a14 a15 b0 b1 b2 b3 eps x (Heps : 0 < eps) :
  bsv4_2310 a0 a1 a2 a3 a4 a5 a6 a7 a8 a9 a10 a11 a12 a13 a14 a15 b0 b1 b2 b3 eps = Some x -> bs_solves 4 1 [2; 3; 1; 0]%nat [a0; a1; a2; a3; a4; a5; a6; a7; a8; a9; a10; a11; a12; a13; a14; a15] [b0; b1; b2; b3] x.
Proof. intro H. unfold bsv4_2310 in H. bs_ok H. Qed.
Lemma bsv4_3120_ok a0 a1 a2 a3 a4 a5 a6 a7 a8 a9 a10 a11 a12 a13 a14 a15 b0 b1 b2 b3 eps x (Heps : 0 < eps) :
  bsv4_3120 a0 a1 a2 a3 a4 a5 a6 a7 a8 a9 a10 a11 a12 a13 a14 a15 b0 b1 b2 b3 eps = Some x -> bs_solves 4 1 [3; 1; 2; 0]%nat [a0; a1; a2; a3; a4; a5; a6; a7; a8; a9; a10; a11; a12; a13; a14; a15] [b0; b1; b2; b3] x.
Proof. intro H. unfold bsv4_3120 in H. bs_ok H. Qed.
Lemma bsv4_3102_ok a0 a1 a2 a3 a4 a5 a6 a7 a8 a9 a10 a11 a12 a13 a14 a15 b0 b1 b2 b3 eps x (Heps : 0 < eps) :
  bsv4_3102 a0 a1 a2 a3 a4 a5 a6 a7 a8 a9 a10 a11 a12 a13 a14 a15 b0 b1 b2 b3 eps = Some x -> bs_solves 4 1 [3; 1; 0; 2]%nat [a0; a1; a2; a3; a4; a5; a6; a7; a8; a9; a10; a11; a12; a13; a14; a15] [b0; b1; b2; b3] x.
Proof. intro H. unfold bsv4_3102 in H. bs_ok H. Qed.
Lemma bsv4_3210_ok a0 a1 a2 a3 a4 a5 a6 a7 a8 a9 a10 a11 a12 a13 a14 a15 b0 b1 b2 b3 eps x (Heps : 0 < eps) :
  bsv4_3210 a0 a1 a2 a3 a4 a5 a6 a7 a8 a9 a10 a11 a12 a13 a14 a15 b0 b1 b2 b3 eps = Some x -> bs_solves 4 1 [3; 2; 1; 0]%nat [a0; a1; a2; a3; a4; a5; a6; a7; a8; a9; a10; a11; a12; a13; a14; a15] [b0; b1; b2; b3] x.
Proof. intro H. unfold bsv4_3210 in H. bs_ok H. Qed.
Lemma bsv4_3201_ok a0 a1 a2 a3 a4 a5 a6 a7 a8 a9 a10 a11 a12 a13 a14 a15 b0 b1 b2 b3 eps x (Heps : 0 < eps) :
  bsv4_3201 a0 a1 a2 a3 a4 a5 a6 a7 a8 a9 a10 a11 a12 a13 a14 a15 b0 b1 b2 b3 eps = Some x -> bs_solves 4 1 [3; 2; 0; 1]%nat [a0; a1; a2; a3; a4; a5; a6; a7; a8; a9; a10; a11; a12; a13; a14; a15] [b0; b1; b2; b3] x.
Proof. intro H. unfold bsv4_3201 in H. bs_ok H. Qed.
Lemma bsv4_3021_ok a0 a1 a2 a3 a4 a5 a6 a7 a8 a9 a10 a11 a12 a13 a14 a15 b0 b1 b2 b3 eps x (Heps : 0 < eps) :
  bsv4_3021 a0 a1 a2 a3 a4 a5 a6 a7 a8 a9 a10 a11 a12 a13 a14 a15 b0 b1 b2 b3 eps = Some x -> bs_solves 4 1 [3; 0; 2; 1]%nat [a0; a1; a2; a3; a4; a5; a6; a7; a8; a9; a10; a11; a12; a13; a14; a15] [b0; b1; b2; b3] x.
Proof. intro H. unfold bsv4_3021 in H. bs_ok H. Qed.
Lemma bsv4_3012_ok a0 a1 a2 a3 a4 a5 a6 a7 a8 a9 a10 a11 a12 a13 a14 a15 b0 b1 b2 b3 eps x (Heps : 0 < eps) :
  bsv4_3012 a0 a1 a2 a3 a4 a5 a6 a7 a8 a9 a10 a11 a12 a13 a14 a15 b0 b1 b2 b3 eps = Some x -> bs_solves 4 1 [3; 0; 1; 2]%nat [a0; a1; a2; a3; a4; a5; a6; a7; a8; a9; a10; a11; a12; a13; a14; a15] [b0; b1; b2; b3] x.
Proof. intro H. unfold bsv4_3012 in H. bs_ok H. Qed.

Definition bsv4_v_stmt : Prop := forall a0 a1 a2 a3 a4 a5 a6 a7 a8 a9 a10 a11 a12 a13 a14 a15 b0 b1 b2 b3 eps x, 0 < eps ->
  (bsv4_0123 a0 a1 a2 a3 a4 a5 a6 a7 a8 a9 a10 a11 a12 a13 a14 a15 b0 b1 b2 b3 eps = Some x -> bs_solves 4 1 [0; 1; 2; 3]%nat [a0; a1; a2; a3; a4; a5; a6; a7; a8; a9; a10; a11; a12; a13; a14; a15] [b0; b1; b2; b3] x) /\
  (bsv4_0132 a0 a1 a2 a3 a4 a5 a6 a7 a8 a9 a10 a11 a12 a13 a14 a15 b0 b1 b2 b3 eps = Some x -> bs_solves 4 1 [0; 1; 3; 2]%nat [a0; a1; a2; a3; a4; a5; a6; a7; a8; a9; a10; a11; a12; a13; a14; a15] [b0; b1; b2; b3] x) /\
  (bsv4_0213 a0 a1 a2 a3 a4 a5 a6 a7 a8 a9 a10 a11 a12 a13 a14 a15 b0 b1 b2 b3 eps = Some x -> bs_solves 4 1 [0; 2; 1; 3]%nat [a0; a1; a2; a3; a4; a5; a6; a7; a8; a9; a10; a11; a12; a13; a14; a15] [b0; b1; b2; b3] x) /\
  (bsv4_0231 a0 a1 a2 a3 a4 a5 a6 a7 a8 a9 a10 a11 a12 a13 a14 a15 b0 b1 b2 b3 eps = Some x -> bs_solves 4 1 [0; 2; 3; 1]%nat [a0; a1; a2; a3; a4; a5; a6; a7; a8; a9; a10; a11; a12; a13; a14; a15] [b0; b1; b2; b3] x) /\
  (bsv4_0321 a0 a1 a2 a3 a4 a5 a6 a7 a8 a9 a10 a11 a12 a13 a14 a15 b0 b1 b2 b3 eps = Some x -> bs_solves 4 1 [0; 3; 2; 1]%nat [a0; a1; a2; a3; a4; a5; a6; a7; a8; a9; a10; a11; a12; a13; a14; a15] [b0; b1; b2; b3] x) /\
  (bsv4_0312 a0 a1 a2 a3 a4 a5 a6 a7 a8 a9 a10 a11 a12 a13 a14 a15 b0 b1 b2 b3 eps = Some x -> bs_solves 4 1 [0; 3; 1; 2]%nat [a0; a1; a2; a3; a4; a5; a6; a7; a8; a9; a10; a11; a12; a13; a14; a15] [b0; b1; b2; b3] x) /\
  (bsv4_1023 a0 a1 a2 a3 a4 a5 a6 a7 a8 a9 a10 a11 a12 a13 a14 a15 b0 b1 b2 b3 eps = Some x -> bs_solves 4 1 [1; 0; 2; 3]%nat [a0; a1; a2; a3; a4; a5; a6; a7; a8; a9; a10; a11; a12; a13; a14; a15] [b0; b1; b2; b3] x) /\
  (bsv4_1032 a0 a1 a2 a3 a4 a5 a6 a7 a8 a9 a10 a11 a12 a13 a14 a15 b0 b1 b2 b3 eps = Some x -> bs_solves 4 1 [1; 0; 3; 2]%nat [a0; a1; a2; a3; a4; a5; a6; a7; a8; a9; a10; a11; a12; a13; a14; a15] [b0; b1; b2; b3] x) /\
  (bsv4_1203 a0 a1 a2 a3 a4 a5 a6 a7 a8 a9 a10 a11 a12 a13 a14 a15 b0 b1 b2 b3 eps = Some x -> bs_solves 4 1 [1; 2; 0; 3]%nat [a0; a1; a2; a3; a4; a5; a6; a7; a8; a9; a10; a11; a12; a13; a14; a15] [b0; b1; b2; b3] x) /\
  (bsv4_1230 a0 a1 a2 a3 a4 a5 a6 a7 a8 a9 a10 a11 a12 a13 a14 a15 b0 b1 b2 b3 eps = Some x -> bs_solves 4 1 [1; 2; 3; 0]%nat [a0; a1; a2; a3; a4; a5; a6; a7; a8; a9; a10; a11; a12; a13; a14; a15] [b0; b1; b2; b3] x) /\
  (bsv4_1320 a0 a1 a2 a3 a4 a5 a6 a7 a8 a9 a10 a11 a12 a13 a14 a15 b0 b1 b2 b3 eps = Some x -> bs_solves 4 1 [1; 3; 2; 0]%nat [a0; a1; a2; a3; a4; a5; a6; a7; a8; a9; a10; a11; a12; a13; a14; a15] [b0; b1; b2; b3] x) /\
  (bsv4_1302 a0 a1 a2 a3 a4 a5 a6 a7 a8 a9 a10 a11 a12 a13 a14 a15 b0 b1 b2 b3 eps = Some x -> bs_solves 4 1 [1; 3; 0; 2]%nat [a0; a1; a2; a3; a4; a5; a6; a7; a8; a9; a10; a11; a12; a13; a14; a15] [b0; b1; b2; b3] x) /\
  (bsv4_2103 a0 a1 a2 a3 a4 a5 a6 a7 a8 a9 a10 a11 a12 a13 a14 a15 b0 b1 b2 b3 eps = Some x -> bs_solves 4 1 [2; 1; 0; 3]%nat [a0; a1; a2; a3; a4; a5; a6; a7; a8; a9; a10; a11; a12; a13; a14; a15] [b0; b1; b2; b3] x) /\
  (bsv4_2130 a0 a1 a2 a3 a4 a5 a6 a7 a8 a9 a10 a11 a12 a13 a14 a15 b0 b1 b2 b3 eps = Some x -> bs_solves 4 1 [2; 1; 3; 0]%nat [a0; a1; a2; a3; a4; a5; a6; a7; a8; a9; a10; a11; a12; a13; a14; a15] [b0; b1; b2; b3] x) /\
  (bsv4_2013 a0 a1 a2 a3 a4 a5 a6 a7 a8 a9 a10 a11 a12 a13 a14 a15 b0 b1 b2 b3 eps = Some x -> bs_solves 4 1 [2; 0; 1; 3]%nat [a0; a1; a2; a3; a4; a5; a6; a7; a8; a9; a10; a11; a12; a13; a14; a15] [b0; b1; b2; b3] x) /\
  (bsv4_2031 a0 a1 a2 a3 a4 a5 a6 a7 a8 a9 a10 a11 a12 a13 a14 a15 b0 b1 b2 b3 eps = Some x -> bs_solves 4 1 [2; 0; 3; 1]%nat [a0; a1; a2; a3; a4; a5; a6; a7; a8; a9; a10; a11; a12; a13; a14; a15] [b0; b1; b2; b3] x) /\
  (bsv4_2301 a0 a1 a2 a3 a4 a5 a6 a7 a8 a9 a10 a11 a12 a13 a14 a15 b0 b1 b2 b3 eps = Some x -> bs_solves 4 1 [2; 3; 0; 1]%nat [a0; a1; a2; a3; a4; a5; a6; a7; a8; a9; a10; a11; a12; a13; a14; a15] [b0; b1; b2; b3] x) /\
  (bsv4_2310 a0 a1 a2 a3 a4 a5 a6 a7 a8 a9 a10 a11 a12 a13 a14 a15 b0 b1 b2 b3 eps = Some x -> bs_solves 4 1 [2; 3; 1; 0]%nat [a0; a1; a2; a3; a4; a5; a6; a7; a8; a9; a10; a11; a12; a13; a14; a15] [b0; b1; b2; b3] x) /\
  (bsv4_3120 a0 a1 a2 a3 a4 a5 a6 a7 a8 a9 a10 a11 a12 a13 a14 a15 b0 b1 b2 b3 eps = Some x -> bs_solves 4 1 [3; 1; 2; 0]%nat [a0; a1; a2; a3; a4; a5; a6; a7; a8; a9; a10; a11; a12; a13; a14; a15] [b0; b1; b2; b3] x) /\
  (bsv4_3102 a0 a1 a2 a3 a4 a5 a6 a7 a8 a9 a10 a11 a12 a13 a14 a15 b0 b1 b2 b3 eps = Some x -> bs_solves 4 1 [3; 1; 0; 2]%nat [a0; a1; a2; a3; a4; a5; a6; a7; a8; a9; a10; a11; a12; a13; a14; a15] [b0; b1; b2; b3] x) /\
  (bsv4_3210 a0 a1 a2 a3 a4 a5 a6 a7 a8 a9 a10 a11 a12 a13 a14 a15 b0 b1 b2 b3 eps = Some x -> bs_solves 4 1 [3; 2; 1; 0]%nat [a0; a1; a2; a3; a4; a5; a6; a7; a8; a9; a10; a11; a12; a13; a14; a15] [b0; b1; b2; b3] x) /\
  (bsv4_3201 a0 a1 a2 a3 a4 a5 a6 a7 a8 a9 a10 a11 a12 a13 a14 a15 b0 b1 b2 b3 eps = Some x -> bs_solves 4 1 [3; 2; 0; 1]%nat [a0; a1; a2; a3; a4; a5; a6; a7; a8; a9; a10; a11; a12; a13; a14; a15] [b0; b1; b2; b3] x) /\
  (bsv4_3021 a0 a1 a2 a3 a4 a5 a6 a7 a8 a9 a10 a11 a12 a13 a14 a15 b0 b1 b2 b3 eps = Some x -> bs_solves 4 1 [3; 0; 2; 1]%nat [a0; a1; a2; a3; a4; a5; a6; a7; a8; a9; a10; a11; a12; a13; a14; a15] [b0; b1; b2; b3] x) /\
  (bsv4_3012 a0 a1 a2 a3 a4 a5 a6 a7 a8 a9 a10 a11 a12 a13 a14 a15 b0 b1 b2 b3 eps = Some x -> bs_solves 4 1 [3; 0; 1; 2]%nat [a0; a1; a2; a3; a4; a5; a6; a7; a8; a9; a10; a11; a12; a13; a14; a15] [b0; b1; b2; b3] x).
Lemma bsv4_v_all : bsv4_v_stmt.
Proof.
  intros a0 a1 a2 a3 a4 a5 a6 a7 a8 a9 a10 a11 a12 a13 a14 a15 b0 b1 b2 b3 eps x He.
  exact (conj (bsv4_0123_ok a0 a1 a2 a3 a4 a5 a6 a7 a8 a9 a10 a11 a12 a13 a14 a15 b0 b1 b2 b3 eps x He) (conj (bsv4_0132_ok a0 a1 a2 a3 a4 a5 a6 a7 a8 a9 a10 a11 a12 a13 a14 a15 b0 b1 b2 b3 eps x He) (conj (bsv4_0213_ok a0 a1 a2 a3 a4 a5 a6 a7 a8 a9 a10 a11 a12 a13 a14 a15 b0 b1 b2 b3 eps x He) (conj (bsv4_0231_ok a0 a1 a2 a3 a4 a5 a6 a7 a8 a9 a10 a11 a12 a13 a14 a15 b0 b1 b2 b3 eps x He) (conj (bsv4_0321_ok a0 a1 a2 a3 a4 a5 a6 a7 a8 a9 a10 a11 a12 a13 a14 a15 b0 b1 b2 b3 eps x He) (conj (bsv4_0312_ok a0 a1 a2 a3 a4 a5 a6 a7 a8 a9 a10 a11 a12 a13 a14 a15 b0 b1 b2 b3 eps x He) (conj (bsv4_1023_ok a0 a1 a2 a3 a4 a5 a6 a7 a8 a9 a10 a11 a12 a13 a14 a15 b0 b1 b2 b3 eps x He) (conj (bsv4_1032_ok a0 a1 a2 a3 a4 a5 a6 a7 a8 a9 a10 a11 a12 a13 a14 a15 b0 b1 b2 b3 eps x He) (conj (bsv4_1203_ok a0 a1 a2 a3 a4 a5 a6 a7 a8 a9 a10 a11 a12 a13 a14 a15 b0 b1 b2 b3 eps x He) (conj (bsv4_1230_ok a0 a1 a2 a3 a4 a5 a6 a7 a8 a9 a10 a11 a12 a13 a14 a15 b0 b1 b2 b3 eps x He) (conj (bsv4_1320_ok a0 a1 a2 a3 a4 a5 a6 a7 a8 a9 a10 a11 a12 a13 a14 a15 b0 b1 b2 b3 eps x He) (conj (bsv4_1302_ok a0 a1 a2 a3 a4 a5 a6 a7 a8 a9 a10 a11 a12 a13 a14 a15 b0 b1 b2 b3 eps x He) (conj (bsv4_2103_ok a0 a1 a2 a3 a4 a5 a6 a7 a8 a9 a10 a11 a12 a13 a14 a15 b0 b1 b2 b3 eps x He) (conj (bsv4_2130_ok a0 a1 a2 a3 a4 a5 a6 a7 a8 a9 a10 a11 a12 a13 a14 a15 b0 b1 b2 b3 eps x He) (conj (bsv4_2013_ok a0 a1 a2 a3 a4 a5 a6 a7 a8 a9 a10 a11 a12 a13 a14 a15 b0 b1 b2 b3 eps x He) (conj (bsv4_2031_ok a0 a1 a2 a3 a4 a5 a6 a7 a8 a9 a10 a11 a12 a13 a14 a15 b0 b1 b2 b3 eps x He) (conj (bsv4_2301_ok a0 a1 a2 a3 a4 a5 a6 a7 a8 a9 a10 a11 a12 a13 a14 a15 b0 b1 b2 b3 eps x He) (conj (bsv4_2310_ok a0 a1 a2 a3 a4 a5 a6 a7 a8 a9 a10 a11 a12 a13 a14 a15 b0 b1 b2 b3 eps x He) (conj (bsv4_3120_ok a0 a1 a2 a3 a4 a5 a6 a7 a8 a9 a10 a11 a12 a13 a14 a15 b0 b1 b2 b3 eps x He) (conj (bsv4_3102_ok a0 a1 a2 a3 a4 a5 a6 a7 a8 a9 a10 a11 a12 a13 a14 a15 b0 b1 b2 b3 eps x He) (conj (bsv4_3210_ok a0 a1 a2 a3 a4 a5 a6 a7 a8 a9 a10 a11 a12 a13 a14 a15 b0 b1 b2 b3 eps x He) (conj (bsv4_3201_ok a0 a1 a2 a3 a4 a5 a6 a7 a8 a9 a10 a11 a12 a13 a14 a15 b0 b1 b2 b3 eps x He) (conj (bsv4_3021_ok a0 a1 a2 a3 a4 a5 a6 a7 a8 a9 a10 a11 a12 a13 a14 a15 b0 b1 b2 b3 eps x He) (bsv4_3012_ok a0 a1 a2 a3 a4 a5 a6 a7 a8 a9 a10 a11 a12 a13 a14 a15 b0 b1 b2 b3 eps x He)))))))))))))))))))))))).
Qed.

(* C07 -- tactics shared by the proofs over the decision trees regenerated from /repo.  The scripts do not depend on the
   shape of the trees: every comparison is split, every division p / q is abstracted into d with d * q = p (q <> 0 from
   the pivot tests of the leaf), the input entries are eliminated and the rest is a ring identity (nsatz as fallback);
   tree_piv: every pivot is named as a variable (the matrix entry it starts from is eliminated) and `field` concludes. *)
From Coq Require Import Reals List Lra Nsatz.
From C07 Require Import C07Spec.
Import ListNotations.
Local Open Scope R_scope.

Lemma div_eq : forall n p q : R, q <> 0 -> n = p / q -> n * q = p.
Proof. intros n p q Hq E. subst n. field. exact Hq. Qed.

Ltac split_tree H :=
  repeat match type of H with
  | context [if Rlt_dec ?a ?b then _ else _] => destruct (Rlt_dec a b)
  end.
Ltac abstract_divisions :=
  repeat match goal with
  | |- context [?p / ?q] =>
      let d := fresh "d" in let E := fresh "E" in
      remember (p / q) as d eqn:E in *;
      apply div_eq in E;
      [| let Hz := fresh "Hz" in intro Hz; assert (Rabs q = 0) by (rewrite Hz; apply Rabs_R0); lra]
  end.
Ltac eliminate_inputs :=
  repeat match goal with
  | E : _ * _ = ?v |- _ => is_var v; subst v
  | E : ?l = ?v - ?r |- _ => is_var v;
      let E' := fresh "E" in
      assert (E' : v = l + r) by (rewrite E; ring); clear E; subst v
  end.
Ltac list_eq :=
  repeat match goal with
  | |- (_ :: _) = (_ :: _) => apply f_equal2
  | |- @nil _ = @nil _ => reflexivity
  end.
Ltac unfold_spec := unfold solves, is_inverse, mat_mul, entry, ident, sel; cbn.
(* closed forms (Cramer): x = N / det; `field`, the denominators being the determinant tested against eps *)
Ltac nz_side :=
  match goal with
  | Hn : ~ Rabs ?q < ?e, He : 0 < ?e |- ?q' <> 0 =>
      let Hz := fresh "Hz" in
      intro Hz; apply Hn; replace q with q' by ring; rewrite Hz, Rabs_R0; exact He
  | Hn : ~ Rabs ?q < ?e, He : 0 < ?e |- ?q' <> 0 =>
      let Hz := fresh "Hz" in
      intro Hz; apply Hn; replace q with (- q') by ring; rewrite Hz, Ropp_0, Rabs_R0; exact He
  end.
Ltac finish_field :=
  unfold_spec; list_eq; (field; repeat split; nz_side).
(* H : f args = Some x, with f unfolded *)
Ltac tree_ok H :=
  cbv zeta in H; split_tree H; try discriminate H;
  (injection H; intros; subst; clear H; first [ solve [abstract_divisions; unfold_spec; eliminate_inputs; list_eq; ring]
          | solve [finish_field]
          | solve [abstract_divisions; unfold_spec; list_eq; nsatz] ]).
(* closed forms: a null determinant is reported *)
Ltac null_det Hdet Heps :=
  cbv zeta;
  match goal with
  | |- context [Rlt_dec (Rabs ?d) ?e] =>
      replace d with 0 by (rewrite <- Hdet; unfold det1, det2, det3, sel; cbn; ring)
  end;
  rewrite Rabs_R0;
  match goal with |- context [Rlt_dec 0 ?e] => destruct (Rlt_dec 0 e); [reflexivity | contradiction] end.


(* name every non-variable denominator q (a pivot a_k - ...) as a variable and eliminate the entry a_k *)
Ltac name_pivots :=
  repeat match goal with
  | |- context [_ / ?q] =>
      tryif is_var q then fail else
      (let qv := fresh "q" in let E := fresh "Eq" in
       remember q as qv eqn:E in *;
       match type of E with
       | qv = ?v - ?r => is_var v; let E' := fresh "E" in assert (E' : v = qv + r) by (rewrite E; ring); clear E; subst v
       end)
  end.
Ltac pose_nz :=
  repeat match goal with
  | H : ~ Rabs ?q < ?e, He : 0 < ?e |- _ =>
      lazymatch goal with
      | _ : q <> 0 |- _ => fail
      | _ => assert (q <> 0) by (let Hz := fresh "Hz" in intro Hz; apply H; rewrite Hz, Rabs_R0; exact He)
      end
  | H : ?e < Rabs ?q, He : 0 < ?e |- _ =>
      lazymatch goal with
      | _ : q <> 0 |- _ => fail
      | _ => assert (q <> 0) by (let Hz := fresh "Hz" in intro Hz; rewrite Hz, Rabs_R0 in H; lra)
      end
  end.
Ltac tree_piv H :=
  cbv zeta in H; split_tree H; try discriminate H;
  (injection H; intros; subst; clear H;
   first [ solve [name_pivots; pose_nz; unfold_spec; list_eq; (field; repeat split; assumption)]
         | solve [abstract_divisions; unfold_spec; list_eq; nsatz] ]).
(* the conjunction of q <> 0 over the distinct denominators q of t *)
Ltac collect_den t acc :=
  match t with
  | context [_ / ?q] =>
      lazymatch acc with
      | context [q <> 0] => fail
      | _ => collect_den t (q <> 0 /\ acc)
      end
  | _ => acc
  end.
Ltac nz_from_path :=
  match goal with
  | |- True => exact I
  | Hn : ~ Rabs ?q < ?e, He : 0 < ?e |- ?q <> 0 =>
      let Hz := fresh "Hz" in intro Hz; apply Hn; rewrite Hz, Rabs_R0; exact He
  | Hp : ?e < Rabs ?q, He : 0 < ?e |- ?q <> 0 =>
      let Hz := fresh "Hz" in intro Hz; rewrite Hz, Rabs_R0 in Hp; lra
  end.
(* many paths of a pivoting tree end in the same expressions (one per permutation): the algebra is done once per distinct
   leaf, under the hypothesis that its denominators are non null, then every path only has to provide these facts *)
Ltac leaf_lemmas H spec :=
  repeat match type of H with
  | context [Some ?L] =>
      lazymatch goal with
      | _ : _ -> spec L |- _ => fail
      | _ => idtac
      end;
      let C := collect_den L True in
      let HL := fresh "HL" in
      assert (HL : C -> spec L) by
        (let HC := fresh "HC" in
         intro HC; decompose [and] HC; clear HC; name_pivots; unfold_spec; list_eq; (field; repeat split; assumption))
  end.
Ltac tree_piv_dedup H spec :=
  cbv zeta in H; leaf_lemmas H spec; split_tree H; try discriminate H;
  injection H as <-;
  match goal with HL : _ -> spec ?L |- spec ?L => apply HL; repeat split; nz_from_path end.
(* back substitution alone *)
Ltac bs_ok H :=
  cbv zeta in H; split_tree H; try discriminate H;
  injection H; intros; subst; clear H; abstract_divisions; unfold bs_solves, lu_entry, sel; cbn; eliminate_inputs; list_eq;
  first [ring | nsatz].

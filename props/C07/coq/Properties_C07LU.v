(* C07 -- general-N theorems for the hand-written model (C07Model.v) of LUDecomp::exe + back_substitute (LUSolve,
   TinyMatrixSolve<N> for N > 3 with vector and tmatrix<N,M> right-hand sides, TinyMatrixInvert<N>).  Statements only;
   proofs in C07LU.v (loop invariant P.A = L.U of the Crout factorisation, forward / back substitution) and C07Inst.v.
   The model is tied to the code by execution (exact rationals, the Qc instance below is the one that is run). *)
From Coq Require Import Reals QArith Qcanon Qcabs List Bool Arith Field.
From C07 Require Import C07Spec C07Model C07ModelQ C07LU C07Inst.
Local Open Scope R_scope.

(* over ANY field (F, 0, 1, +, *, -, /) with Leibniz equality, any |.|, any boolean comparison and any constant in
   place of 0.1, as soon as the null-pivot test fires on 0 (eps > 0): for every size n, every number of columns M,
   with or without the pivot tests of back_substitute: a returned X satisfies A X = B; a matrix with a non-trivial
   kernel is reported (None) *)
Theorem C07_lu_any_field : forall (F : Type) (f0 f1 : F) (fadd fmul fsub : F -> F -> F) (fopp : F -> F)
  (fdiv : F -> F -> F) (finv : F -> F),
  field_theory f0 f1 fadd fmul fsub fopp fdiv finv (@eq F) ->
  forall (fabs : F -> F) (fltb : F -> F -> bool) (c01 : F) (n : nat) (eps : F) (A : nat -> nat -> F),
  fltb (fabs f0) eps = true ->
  (forall M chk B X, C07Model.lu_solve_mat F f0 fadd fmul fsub fdiv fabs fltb c01 n M eps chk A B = Some X ->
     forall r k, (r < n)%nat -> (k < M)%nat -> sumn F f0 fadd n (fun c => fmul (A r c) (X c k)) = B r k) /\
  (singular F f0 fadd fmul n A ->
     C07Model.lu_decomp F f0 fadd fmul fsub fdiv fabs fltb c01 n eps A = None).
Proof.
  intros F f0 f1 fadd fmul fsub fopp fdiv finv Fth fabs fltb c01 n eps A He. split.
  - exact (lu_solve_mat_sound F f0 f1 fadd fmul fsub fopp fdiv finv Fth fabs fltb c01 n eps A He).
  - intro Hs. exact (proj1 (lu_singular_fails F f0 f1 fadd fmul fsub fopp fdiv finv Fth fabs fltb c01 n eps A He Hs)).
Qed.
Print Assumptions C07_lu_any_field.

(* over the reals (the C++ instantiated with an exact real scalar: |.| = Rabs, < = Rlt, 0.1 = 1/10), every n, eps > 0:
   LUSolve::exe / TinyMatrixSolve<N>::exe (vector b), TinyMatrixSolve<N>::exe (N x M matrix B), TinyMatrixInvert<N>::exe:
   a returned result is a solution (resp. a right inverse) *)
Theorem C07_lu_general_sound : forall n eps chk (A : nat -> nat -> R), 0 < eps ->
  (forall b x, Rlu_solve n eps chk A b = Some x -> solves_vec n A b x) /\
  (forall M B X, Rlu_solve_mat n M eps chk A B = Some X -> solves_fun n M A B X) /\
  (forall X, Rlu_invert n eps A = Some X -> solves_fun n n A identity_fun X).
Proof. exact Rlu_sound. Qed.
Print Assumptions C07_lu_general_sound.

(* an exactly singular matrix (non-trivial kernel) is always reported, whatever the right-hand side *)
Theorem C07_lu_general_singular_reported : forall n eps (A : nat -> nat -> R), 0 < eps -> singular_fun n A ->
  Rlu_decomp n eps A = None /\ (forall M chk B, Rlu_solve_mat n M eps chk A B = None) /\
  (forall chk b, Rlu_solve n eps chk A b = None) /\ Rlu_invert n eps A = None.
Proof. exact Rlu_singular. Qed.
Print Assumptions C07_lu_general_singular_reported.

(* once the factorisation succeeded, back substitution succeeds for every right-hand side (its pivot tests cannot
   fire) and returns a solution *)
Theorem C07_lu_general_total : forall n eps (A : nat -> nat -> R) mp, 0 < eps -> Rlu_decomp n eps A = Some mp ->
  forall M chk B, exists X, Rlu_solve_mat n M eps chk A B = Some X /\ solves_fun n M A B X.
Proof. exact Rlu_total. Qed.
Print Assumptions C07_lu_general_total.


(* conversely a failure is reported only when there is no usable pivot: LUDecomp::exe gives up at a step i only if the
   whole column i of the Schur complement (rows not yet used as pivots) is below eps in modulus.  Rlu_partial: (m, p) is
   the state after i steps, P.A = L.U on the processed block (C07LU.lu_inv).  With an exact arithmetic and eps -> 0 this
   column is null, i.e. A is singular; in binary64 nothing is claimed about matrices that are singular up to rounding *)
Theorem C07_lu_general_failure_only_without_pivot : forall n eps (A : nat -> nat -> R), 0 < eps -> Rlu_decomp n eps A = None ->
  exists i m p, (i < n)%nat /\ Rlu_partial n eps A i m p /\
    forall j, (i <= j < n)%nat -> Rabs (A (p j) i - Rsum i (fun k => m (p j) k * m (p k) i)) < eps.
Proof. exact Rlu_failure. Qed.
Print Assumptions C07_lu_general_failure_only_without_pivot.

(* the instance executed by the harness against the real code (exact rationals Qc) *)
Local Open Scope Qc_scope.
Theorem C07_lu_model_run_on_Qc_sound : forall n (eps : Qc) chk (A : nat -> nat -> Qc), 0 < eps ->
  (forall b x, Qlu_solve n eps chk A b = Some x -> forall r, (r < n)%nat -> Qsumn n (fun c => A r c * x c) = b r) /\
  (forall M B X, Qlu_solve_mat n M eps chk A B = Some X ->
     forall r k, (r < n)%nat -> (k < M)%nat -> Qsumn n (fun c => A r c * X c k) = B r k) /\
  (forall X, Qlu_invert n eps A = Some X ->
     forall r k, (r < n)%nat -> (k < n)%nat -> Qsumn n (fun c => A r c * X c k) = if Nat.eqb r k then 1 else 0) /\
  ((exists y, (exists c, (c < n)%nat /\ y c <> 0) /\ forall r, (r < n)%nat -> Qsumn n (fun c => A r c * y c) = 0) ->
     Qlu_decomp n eps A = None).
Proof. exact Qlu_sound. Qed.
Print Assumptions C07_lu_model_run_on_Qc_sound.

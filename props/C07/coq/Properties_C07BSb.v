(* C07 -- the permuted forward / back substitution TinyMatrixSolveBase<4,T>::back_substitute, matrix right-hand side
   overload (tmatrix<4,2>), traced alone from /repo for the permutations the factorisation can produce (24, built by the
   swaps of LUDecomp; the identity takes the isIdentity() branch, the 23 others the permuted branch) on a symbolic
   factorised matrix a (L below and on the diagonal, unit U above, rows addressed through the permutation), a symbolic
   right-hand side b and eps.  Some x = returned true.  bs_solves 4 2 p a b x : (L U) X = P B  (C07Spec.v).
   This file (thorough tier): the 16 permutations not in Properties_C07BS.v. *)
From Coq Require Import Reals List.
From C07 Require Import C07Spec C07_genbs C07ProofsBSb.
Import ListNotations.
Local Open Scope R_scope.

Theorem C07_back_substitute_matrix_rhs_4_part2 : bsm4_b_stmt.
Proof. exact bsm4_b_all. Qed.
Print Assumptions C07_back_substitute_matrix_rhs_4_part2.

(* C07 -- specification of the fixed-size dense solvers, independent of the code: row-major matrices as lists. *)
From Coq Require Import Reals List.
Import ListNotations.
Local Open Scope R_scope.

Definition sel (l : list R) (i : nat) : R := nth i l 0.
(* (A X)(i,j) for A : n x n, X : n x m, both row-major *)
Definition entry (n m : nat) (a x : list R) (i j : nat) : R :=
  fold_right (fun k acc => sel a (i * n + k) * sel x (k * m + j) + acc) 0 (seq 0 n).
Definition mat_mul (n m : nat) (a x : list R) : list R :=
  flat_map (fun i => map (fun j => entry n m a x i j) (seq 0 m)) (seq 0 n).
(* X solves A X = B (m = 1: a vector right-hand side) *)
Definition solves (n m : nat) (a b x : list R) : Prop := mat_mul n m a x = b.
Definition ident (n : nat) : list R :=
  flat_map (fun i => map (fun j => if Nat.eqb i j then 1 else 0) (seq 0 n)) (seq 0 n).
Definition is_inverse (n : nat) (a x : list R) : Prop := mat_mul n n a x = ident n.

Definition det1 (a : list R) : R := sel a 0.
Definition det2 (a : list R) : R := sel a 0 * sel a 3 - sel a 1 * sel a 2.
Definition det3 (a : list R) : R :=
  sel a 0 * (sel a 4 * sel a 8 - sel a 5 * sel a 7) - sel a 1 * (sel a 3 * sel a 8 - sel a 5 * sel a 6)
  + sel a 2 * (sel a 3 * sel a 7 - sel a 4 * sel a 6).

(* a matrix with a right inverse has a non-null determinant *)
Lemma inverse_det2 a0 a1 a2 a3 x : is_inverse 2 [a0; a1; a2; a3] x -> det2 [a0; a1; a2; a3] <> 0.
Proof.
  unfold is_inverse. intros H Hd.
  unfold mat_mul, entry, ident, sel, det2 in *; cbn in *.
  set (x0 := nth 0 x 0) in *. set (x1 := nth 1 x 0) in *. set (x2 := nth 2 x 0) in *. set (x3 := nth 3 x 0) in *.
  injection H as H0 H1 H2 H3.
  assert (E : (a0 * a3 - a1 * a2) * (x0 * x3 - x1 * x2) =
              (a0 * x0 + (a1 * x2 + 0)) * (a2 * x1 + (a3 * x3 + 0)) - (a0 * x1 + (a1 * x3 + 0)) * (a2 * x0 + (a3 * x2 + 0))) by ring.
  rewrite H0, H1, H2, H3, Hd in E. apply R1_neq_R0. rewrite <- (Rmult_0_l (x0 * x3 - x1 * x2)). rewrite E. ring.
Qed.
Lemma inverse_det3 a0 a1 a2 a3 a4 a5 a6 a7 a8 x :
  is_inverse 3 [a0; a1; a2; a3; a4; a5; a6; a7; a8] x -> det3 [a0; a1; a2; a3; a4; a5; a6; a7; a8] <> 0.
Proof.
  unfold is_inverse. intros H Hd.
  unfold mat_mul, entry, ident, sel, det3 in *; cbn in *.
  set (x0 := nth 0 x 0) in *. set (x1 := nth 1 x 0) in *. set (x2 := nth 2 x 0) in *. set (x3 := nth 3 x 0) in *.
  set (x4 := nth 4 x 0) in *. set (x5 := nth 5 x 0) in *. set (x6 := nth 6 x 0) in *. set (x7 := nth 7 x 0) in *.
  set (x8 := nth 8 x 0) in *.
  injection H as H0 H1 H2 H3 H4 H5 H6 H7 H8.
  set (p00 := a0 * x0 + (a1 * x3 + (a2 * x6 + 0))) in *. set (p01 := a0 * x1 + (a1 * x4 + (a2 * x7 + 0))) in *.
  set (p02 := a0 * x2 + (a1 * x5 + (a2 * x8 + 0))) in *. set (p10 := a3 * x0 + (a4 * x3 + (a5 * x6 + 0))) in *.
  set (p11 := a3 * x1 + (a4 * x4 + (a5 * x7 + 0))) in *. set (p12 := a3 * x2 + (a4 * x5 + (a5 * x8 + 0))) in *.
  set (p20 := a6 * x0 + (a7 * x3 + (a8 * x6 + 0))) in *. set (p21 := a6 * x1 + (a7 * x4 + (a8 * x7 + 0))) in *.
  set (p22 := a6 * x2 + (a7 * x5 + (a8 * x8 + 0))) in *.
  assert (E : (a0 * (a4 * a8 - a5 * a7) - a1 * (a3 * a8 - a5 * a6) + a2 * (a3 * a7 - a4 * a6)) *
              (x0 * (x4 * x8 - x5 * x7) - x1 * (x3 * x8 - x5 * x6) + x2 * (x3 * x7 - x4 * x6)) =
              p00 * (p11 * p22 - p12 * p21) - p01 * (p10 * p22 - p12 * p20) + p02 * (p10 * p21 - p11 * p20))
    by (unfold p00, p01, p02, p10, p11, p12, p20, p21, p22; ring).
  rewrite H0, H1, H2, H3, H4, H5, H6, H7, H8, Hd in E. apply R1_neq_R0.
  rewrite <- (Rmult_0_l (x0 * (x4 * x8 - x5 * x7) - x1 * (x3 * x8 - x5 * x6) + x2 * (x3 * x7 - x4 * x6))). rewrite E. ring.
Qed.

(* ---- any size: matrices and right-hand sides as functions of the indices (only indices < n, < M matter) *)
Fixpoint Rsum (n : nat) (f : nat -> R) : R :=
  match n with O => 0 | S k => Rsum k f + f k end.
(* A X = B, A : n x n, X, B : n x M *)
Definition solves_fun (n M : nat) (A B X : nat -> nat -> R) : Prop :=
  forall r k, (r < n)%nat -> (k < M)%nat -> Rsum n (fun c => A r c * X c k) = B r k.
Definition solves_vec (n : nat) (A : nat -> nat -> R) (b x : nat -> R) : Prop :=
  forall r, (r < n)%nat -> Rsum n (fun c => A r c * x c) = b r.
Definition identity_fun (i j : nat) : R := if Nat.eqb i j then 1 else 0.
(* A has a non-trivial kernel *)
Definition singular_fun (n : nat) (A : nat -> nat -> R) : Prop :=
  exists y, (exists c, (c < n)%nat /\ y c <> 0) /\ forall r, (r < n)%nat -> Rsum n (fun c => A r c * y c) = 0.

(* ---- back substitution alone: m holds a factorisation L U (Crout: L with its diagonal in the lower part, U with a unit
   diagonal, not stored, in the upper part) with rows addressed through the permutation sg (row r of L and U is row
   sg(r) of m).  (L U)(r, c) and the statement "X solves (L U) X = P B", X and B : N x M row-major *)
Definition lu_entry (N : nat) (sg : list nat) (m : list R) (r c : nat) : R :=
  fold_right (fun j acc => (if Nat.leb j r then sel m (nth r sg 0%nat * N + j) else 0) *
                           (if Nat.ltb j c then sel m (nth j sg 0%nat * N + c) else if Nat.eqb j c then 1 else 0) + acc)
             0 (seq 0 N).
Definition bs_solves (N M : nat) (sg : list nat) (m b x : list R) : Prop :=
  flat_map (fun r => map (fun k => fold_right (fun c acc => lu_entry N sg m r c * sel x (c * M + k) + acc) 0 (seq 0 N)) (seq 0 M)) (seq 0 N)
  = flat_map (fun r => map (fun k => sel b (nth r sg 0%nat * M + k)) (seq 0 M)) (seq 0 N).

(* C07 -- same statement as Properties_C07BS.v for the vector right-hand side overload (tvector<4>) of
   TinyMatrixSolveBase<4,T>::back_substitute, every permutation (thorough tier). *)
From Coq Require Import Reals List.
From C07 Require Import C07Spec C07_genbs C07ProofsBSv.
Import ListNotations.
Local Open Scope R_scope.

Theorem C07_back_substitute_vector_rhs_4 : bsv4_v_stmt.
Proof. exact bsv4_v_all. Qed.
Print Assumptions C07_back_substitute_vector_rhs_4.

(* C07 -- TinyMatrixInvert<1,2,3>::exe traced on every pivoting path (2 / 11 / 117 paths): a returned matrix is a
   right inverse, A X = I. *)
From Coq Require Import Reals List Lra Nsatz.
From C07 Require Import C07Spec C07Tactics C07_gen.
Import ListNotations.
Local Open Scope R_scope.

Definition invert_ok_stmt : Prop := forall a0 a1 a2 a3 a4 a5 a6 a7 a8 eps x, 0 < eps ->
  (invert1 a0 eps = Some x -> is_inverse 1 [a0] x) /\
  (invert2 a0 a1 a2 a3 eps = Some x -> is_inverse 2 [a0; a1; a2; a3] x) /\
  (invert3 a0 a1 a2 a3 a4 a5 a6 a7 a8 eps = Some x -> is_inverse 3 [a0; a1; a2; a3; a4; a5; a6; a7; a8] x).

Lemma invert1_ok a0 eps (Heps : 0 < eps) x : invert1 a0 eps = Some x -> is_inverse 1 [a0] x.
Proof. intro H. unfold invert1 in H. tree_piv H. Qed.
Lemma invert2_ok a0 a1 a2 a3 eps (Heps : 0 < eps) x : invert2 a0 a1 a2 a3 eps = Some x -> is_inverse 2 [a0; a1; a2; a3] x.
Proof. intro H. unfold invert2 in H. tree_piv H. Qed.
Lemma invert3_ok a0 a1 a2 a3 a4 a5 a6 a7 a8 eps (Heps : 0 < eps) x :
  invert3 a0 a1 a2 a3 a4 a5 a6 a7 a8 eps = Some x -> is_inverse 3 [a0; a1; a2; a3; a4; a5; a6; a7; a8] x.
Proof.
  intro H. unfold invert3 in H.
  first [ tree_piv_dedup H (is_inverse 3 [a0; a1; a2; a3; a4; a5; a6; a7; a8]) | tree_piv H ].
Qed.

Lemma invert_ok : invert_ok_stmt.
Proof.
  intros a0 a1 a2 a3 a4 a5 a6 a7 a8 eps x He.
  exact (conj (invert1_ok a0 eps He x) (conj (invert2_ok a0 a1 a2 a3 eps He x) (invert3_ok a0 a1 a2 a3 a4 a5 a6 a7 a8 eps He x))).
Qed.

(* a matrix returned by TinyMatrixInvert is the inverse of a regular matrix: det A <> 0 (N = 2, 3) *)
Lemma invert_regular a0 a1 a2 a3 a4 a5 a6 a7 a8 eps x (Heps : 0 < eps) :
  (invert2 a0 a1 a2 a3 eps = Some x -> det2 [a0; a1; a2; a3] <> 0) /\
  (invert3 a0 a1 a2 a3 a4 a5 a6 a7 a8 eps = Some x -> det3 [a0; a1; a2; a3; a4; a5; a6; a7; a8] <> 0).
Proof.
  split; intro H.
  - apply (inverse_det2 a0 a1 a2 a3 x). apply (invert2_ok a0 a1 a2 a3 eps Heps x H).
  - apply (inverse_det3 a0 a1 a2 a3 a4 a5 a6 a7 a8 x). apply (invert3_ok a0 a1 a2 a3 a4 a5 a6 a7 a8 eps Heps x H).
Qed.

(* C07 -- general-N theorems for the model of C07Model.v, over any field (F, 0, 1, +, *, -, /) with Leibniz equality,
   any function |.| and any boolean strict comparison, the only hypothesis on them being that the null-pivot test
   fires on 0 (`fltb (fabs 0) eps = true`, i.e. eps > 0).
     lu_decomp_inv      : loop invariant of LUDecomp::exe (P.A = L.U on the processed block, Crout form)
     lu_solve_mat_sound : lu_solve_mat n M eps chk A B = Some X -> A.X = B          (every n, M)
     lu_solve_sound     : lu_solve n eps chk A b = Some x     -> A.x = b
     lu_invert_sound    : lu_invert n eps A = Some X          -> A.X = I
     lu_success_regular : lu_decomp n eps A = Some _          -> A is regular (A.y = 0 -> y = 0), hence
     lu_singular_fails  : A singular -> lu_solve / lu_solve_mat / lu_invert = None
     lu_decomp_total_rhs: a successful factorisation solves every right-hand side (back substitution cannot fail).
     lu_failure_column_small : (|.|, < order-like) failure is reported only when a whole pivot column is below eps. *)
From Coq Require Import List Bool Arith Lia Field.
From C07 Require Import C07Model.
Import ListNotations.

Section LU.
  Variable F : Type.
  Variables (f0 f1 : F) (fadd fmul fsub : F -> F -> F) (fopp : F -> F) (fdiv : F -> F -> F) (finv : F -> F).
  Hypothesis Fth : field_theory f0 f1 fadd fmul fsub fopp fdiv finv (@eq F).
  Variables (fabs : F -> F) (fltb : F -> F -> bool) (c01 : F).
  Add Field Ffield : Fth.

  Local Infix "+!" := fadd (at level 50, left associativity).
  Local Infix "*!" := fmul (at level 40, left associativity).
  Local Infix "-!" := fsub (at level 50, left associativity).
  Local Infix "/!" := fdiv (at level 40, left associativity).
  Local Notation matF := (C07Model.matF F).
  Local Notation mset := (@C07Model.mset F).
  Local Notation sumk := (@C07Model.sumk F f0 fadd).
  Local Notation sumr := (@C07Model.sumr F f0 fadd).
  Local Notation lu_Lupdate := (@C07Model.lu_Lupdate F f0 fadd fmul fsub).
  Local Notation lu_search := (@C07Model.lu_search F fabs fltb).
  Local Notation lu_perm := (@C07Model.lu_perm F fmul fabs fltb c01).
  Local Notation lu_Uupdate := (@C07Model.lu_Uupdate F f0 fadd fmul fsub fdiv).
  Local Notation lu_step := (@C07Model.lu_step F f0 fadd fmul fsub fdiv fabs fltb c01).
  Local Notation lu_steps := (@C07Model.lu_steps F f0 fadd fmul fsub fdiv fabs fltb c01).
  Local Notation lu_decomp := (@C07Model.lu_decomp F f0 fadd fmul fsub fdiv fabs fltb c01).
  Local Notation bs_forward := (@C07Model.bs_forward F f0 fadd fmul fsub fdiv fabs fltb).
  Local Notation bs_backward := (@C07Model.bs_backward F f0 fadd fmul fsub).
  Local Notation back_substitute := (@C07Model.back_substitute F f0 fadd fmul fsub fdiv fabs fltb).
  Local Notation lu_solve_mat := (@C07Model.lu_solve_mat F f0 fadd fmul fsub fdiv fabs fltb c01).
  Local Notation lu_solve := (@C07Model.lu_solve F f0 fadd fmul fsub fdiv fabs fltb c01).
  Local Notation lu_invert := (@C07Model.lu_invert F f0 f1 fadd fmul fsub fdiv fabs fltb c01).

  (* ------------------------------------------------------------------ finite sums *)
  Fixpoint sumn (n : nat) (f : nat -> F) : F :=
    match n with O => f0 | S k => sumn k f +! f k end.

  Lemma fold_seq_sumn : forall len i f a,
    fold_left (fun acc k => acc +! f k) (seq i len) a = a +! sumn len (fun t => f (i + t)%nat).
  Proof.
    induction len; intros i f a.
    - simpl. ring.
    - rewrite seq_S, fold_left_app. simpl. rewrite IHlen. ring.
  Qed.
  Lemma sumn_ext : forall n f g, (forall k, k < n -> f k = g k) -> sumn n f = sumn n g.
  Proof.
    induction n; intros f g H; simpl. reflexivity.
    rewrite (IHn f g), H by (intros; try apply H; lia). reflexivity.
  Qed.
  Lemma sumk_eq : forall n f, sumk n f = sumn n f.
  Proof.
    intros n f. unfold C07Model.sumk. rewrite fold_seq_sumn.
    rewrite (sumn_ext n _ f) by (intros; reflexivity). ring.
  Qed.
  Lemma sumr_eq : forall i n f, sumr i n f = sumn (n - i) (fun t => f (i + t)%nat).
  Proof. intros i n f. unfold C07Model.sumr. rewrite fold_seq_sumn. ring. Qed.
  Lemma sumn_zero : forall n f, (forall k, k < n -> f k = f0) -> sumn n f = f0.
  Proof.
    induction n; intros f H; simpl. reflexivity.
    rewrite IHn, H by (intros; try apply H; lia). ring.
  Qed.
  Lemma sumn_add : forall n f g, sumn n (fun k => f k +! g k) = sumn n f +! sumn n g.
  Proof. induction n; intros; simpl. ring. rewrite IHn. ring. Qed.
  Lemma sumn_mul_l : forall n c f, c *! sumn n f = sumn n (fun k => c *! f k).
  Proof. induction n; intros; simpl. ring. rewrite <- IHn. ring. Qed.
  Lemma sumn_mul_r : forall n c f, sumn n f *! c = sumn n (fun k => f k *! c).
  Proof. induction n; intros; simpl. ring. rewrite <- IHn. ring. Qed.
  Lemma sumn_swap : forall n m (f : nat -> nat -> F),
    sumn n (fun i => sumn m (fun j => f i j)) = sumn m (fun j => sumn n (fun i => f i j)).
  Proof.
    induction n; intros m f; simpl.
    - symmetry. apply sumn_zero. reflexivity.
    - rewrite IHn, <- sumn_add. reflexivity.
  Qed.
  Lemma sumn_split : forall n a f, a <= n -> sumn n f = sumn a f +! sumn (n - a) (fun t => f (a + t)%nat).
  Proof.
    induction n; intros a f Ha.
    - replace a with 0 by lia. simpl. ring.
    - destruct (Nat.eq_dec a (S n)) as [->|Hne].
      + rewrite Nat.sub_diag. simpl. ring.
      + replace (S n - a) with (S (n - a)) by lia. simpl. rewrite (IHn a f) by lia.
        replace (a + (n - a))%nat with n by lia. ring.
  Qed.
  (* sum_{k<n} f k = sum_{k<a} f k + f a + sum_{a<k<n} f k *)
  Lemma sumn_split3 : forall n a f, a < n ->
    sumn n f = sumn a f +! f a +! sumn (n - S a) (fun t => f (S a + t)%nat).
  Proof.
    intros n a f Ha. rewrite (sumn_split n (S a) f) by lia. simpl. reflexivity.
  Qed.

  Lemma mul_zero_reg : forall a b, a <> f0 -> a *! b = f0 -> b = f0.
  Proof.
    intros a b Ha H. assert (E : b = (a *! b) /! a) by (field; exact Ha). rewrite E, H. field. exact Ha.
  Qed.

  Lemma leb_true : forall a b, a <= b -> (a <=? b) = true.
  Proof. intros. apply Nat.leb_le. assumption. Qed.
  Lemma leb_false : forall a b, b < a -> (a <=? b) = false.
  Proof. intros. apply Nat.leb_gt. assumption. Qed.
  Lemma ltb_true : forall a b, a < b -> (a <? b) = true.
  Proof. intros. apply Nat.ltb_lt. assumption. Qed.
  Lemma ltb_false : forall a b, b <= a -> (a <? b) = false.
  Proof. intros. apply Nat.ltb_ge. assumption. Qed.
  Lemma eqb_false : forall a b, a <> b -> (a =? b) = false.
  Proof. intros. apply Nat.eqb_neq. assumption. Qed.

  (* ------------------------------------------------------------------ entry-wise updates *)
  Lemma mset_same : forall (m : matF) i j v, mset m i j v i j = v.
  Proof. intros. unfold C07Model.mset. rewrite !Nat.eqb_refl. reflexivity. Qed.
  Lemma mset_other : forall (m : matF) i j v r c, ~ (i = r /\ j = c) -> mset m i j v r c = m r c.
  Proof.
    intros m i j v r c H. unfold C07Model.mset.
    destruct (Nat.eqb_spec r i), (Nat.eqb_spec c j); simpl; try reflexivity.
    exfalso. apply H. split; congruence.
  Qed.

  (* a loop writing pairwise distinct entries, each value reading only entries the loop does not write (or its own
     entry), is a parallel assignment *)
  Lemma fold_mset_spec : forall (ri ci : nat -> nat) (val : matF -> nat -> F) (l : list nat) (m0 : matF),
    NoDup l ->
    (forall j j', In j l -> In j' l -> ri j = ri j' -> ci j = ci j' -> j = j') ->
    (forall j m, In j l ->
       (forall r c, (forall j', In j' l -> j' <> j -> ~ (ri j' = r /\ ci j' = c)) -> m r c = m0 r c) ->
       val m j = val m0 j) ->
    (forall j, In j l -> fold_left (fun m j => mset m (ri j) (ci j) (val m j)) l m0 (ri j) (ci j) = val m0 j) /\
    (forall r c, (forall j, In j l -> ~ (ri j = r /\ ci j = c)) ->
       fold_left (fun m j => mset m (ri j) (ci j) (val m j)) l m0 r c = m0 r c).
  Proof.
    intros ri ci val l m0. induction l as [|x l IH] using rev_ind; intros Hnd Hinj Hval.
    - split; [intros j []|reflexivity].
    - assert (Hnd' : NoDup l /\ ~ In x l).
      { pose proof (NoDup_remove_1 l [] x Hnd) as H1. pose proof (NoDup_remove_2 l [] x Hnd) as H2.
        rewrite app_nil_r in *. split; assumption. }
      destruct Hnd' as [Hndl Hx].
      destruct IH as [IHa IHb]; [assumption| | |].
      { intros j j' Hj Hj'. apply Hinj; apply in_or_app; left; assumption. }
      { intros j m Hj Hm. apply Hval. apply in_or_app; left; assumption.
        intros r c Hrc. apply Hm. intros j' Hj' Hne. apply Hrc; [apply in_or_app; left; assumption|assumption]. }
      rewrite fold_left_app. simpl.
      set (M' := fold_left (fun m j => mset m (ri j) (ci j) (val m j)) l m0) in *.
      assert (Hvx : val M' x = val m0 x).
      { apply Hval. apply in_or_app; right; left; reflexivity.
        intros r c Hrc. apply IHb. intros j Hj. apply Hrc. apply in_or_app; left; assumption.
        intro; subst; contradiction. }
      split.
      + intros j Hj. apply in_app_or in Hj. destruct Hj as [Hj|[<-|[]]].
        * rewrite mset_other. apply IHa; assumption.
          intros [H1 H2]. assert (x = j).
          { apply Hinj; try assumption. apply in_or_app; right; left; reflexivity. apply in_or_app; left; assumption. }
          subst; contradiction.
        * rewrite mset_same. exact Hvx.
      + intros r c Hrc. rewrite mset_other.
        * apply IHb. intros j Hj. apply Hrc. apply in_or_app; left; assumption.
        * apply Hrc. apply in_or_app; right; left; reflexivity.
  Qed.

  (* ------------------------------------------------------------------ permutations of [0, n) *)
  Record perm_ok (n : nat) (p : nat -> nat) : Prop := {
    p_range : forall r, r < n -> p r < n;
    p_inj : forall r s, r < n -> s < n -> p r = p s -> r = s;
    p_surj : forall q, q < n -> exists r, r < n /\ p r = q }.

  Lemma perm_id : forall n, perm_ok n (fun k => k).
  Proof. intro n. split; intros; try assumption. exists q. split; [assumption|reflexivity]. Qed.

  Lemma pswap_ok : forall n p i j, perm_ok n p -> i < n -> j < n -> perm_ok n (pswap p i j).
  Proof.
    intros n p i j [Hr Hi Hs] Hin Hjn. unfold pswap. split.
    - intros r Hrn. destruct (Nat.eqb_spec r i), (Nat.eqb_spec r j); auto.
    - intros r s Hrn Hsn.
      destruct (Nat.eqb_spec r i), (Nat.eqb_spec r j), (Nat.eqb_spec s i), (Nat.eqb_spec s j);
        intro E; try apply Hi in E; try assumption; subst; try congruence; try lia.
    - intros q Hq. destruct (Hs q Hq) as [r [Hrn Hpr]].
      destruct (Nat.eq_dec r i) as [->|Hri].
      + exists j. split; [assumption|]. destruct (Nat.eqb_spec j i); [congruence|].
        rewrite Nat.eqb_refl. assumption.
      + destruct (Nat.eq_dec r j) as [->|Hrj].
        * exists i. split; [assumption|]. rewrite Nat.eqb_refl. assumption.
        * exists r. split; [assumption|].
          destruct (Nat.eqb_spec r i); [contradiction|]. destruct (Nat.eqb_spec r j); [contradiction|]. assumption.
  Qed.

  (* ------------------------------------------------------------------ the pivot search *)
  Lemma lu_search_range : forall n i (m : matF) p, i < n -> i <= snd (lu_search n i m p) < n.
  Proof.
    intros n i m p Hi. unfold C07Model.lu_search.
    assert (G : forall l c0 q0, (forall j, In j l -> i <= j < n) -> i <= q0 < n ->
              i <= snd (fold_left (fun '(cmax, piv) j => let v := fabs (m (p j) i) in
                                   if fltb cmax v then (v, j) else (cmax, piv)) l (c0, q0)) < n).
    { induction l as [|x l IH]; intros c0 q0 Hl Hq; simpl. exact Hq.
      destruct (fltb c0 (fabs (m (p x) i))); apply IH; try (intros; apply Hl; right; assumption); try assumption.
      apply Hl. left. reflexivity. }
    apply G; [|lia]. intros j Hj. apply in_seq in Hj. lia.
  Qed.

  (* the permutation after the pivot choice: unchanged, or positions i and piv (i < piv < n) exchanged *)
  Lemma lu_perm_cases : forall n eps i (m : matF) p, i < n ->
    lu_perm n eps i m p = p \/ exists piv, i < piv < n /\ lu_perm n eps i m p = pswap p piv i.
  Proof.
    intros n eps i m p Hi. unfold C07Model.lu_perm.
    pose proof (lu_search_range n i m p Hi) as Hs.
    destruct (lu_search n i m p) as [cmax piv]. simpl in Hs.
    destruct (Nat.eqb_spec piv i). left; reflexivity.
    destruct (fltb (c01 *! cmax) (fabs (m (p i) i)) && fltb eps (fabs (m (p i) i))). left; reflexivity.
    right. exists piv. split; [lia|reflexivity].
  Qed.

  Lemma lu_perm_props : forall n eps i (m : matF) p, i < n -> perm_ok n p ->
    let p1 := lu_perm n eps i m p in
    perm_ok n p1 /\ (forall r, r < i -> p1 r = p r) /\
    (forall r, i <= r < n -> exists r', i <= r' < n /\ p1 r = p r').
  Proof.
    intros n eps i m p Hi Hp p1. destruct (lu_perm_cases n eps i m p Hi) as [E|[piv [Hpiv E]]]; subst p1; rewrite E.
    - split; [assumption|]. split; [reflexivity|]. intros r Hr. exists r. split; [assumption|reflexivity].
    - split; [apply pswap_ok; [assumption|lia|lia]|]. unfold pswap. split.
      + intros r Hr. destruct (Nat.eqb_spec r piv); [lia|]. destruct (Nat.eqb_spec r i); [lia|]. reflexivity.
      + intros r Hr. destruct (Nat.eqb_spec r piv). exists i. split; [lia|reflexivity].
        destruct (Nat.eqb_spec r i). exists piv. split; [lia|reflexivity].
        exists r. split; [lia|reflexivity].
  Qed.

  (* ------------------------------------------------------------------ the loop invariant of LUDecomp::exe *)
  Section Decomp.
    Variables (n : nat) (eps : F) (A : matF).
    Hypothesis Heps : fltb (fabs f0) eps = true.

    Lemma pivot_nonzero : forall v, fltb (fabs v) eps = false -> v <> f0.
    Proof. intros v H E. subst v. rewrite Heps in H. discriminate. Qed.

    (* before step i: the columns < i hold L (rows permuted by p), the rows p(r), r < i, hold U (unit diagonal not
       stored) to the right of the diagonal, the rest is still A *)
    Record lu_inv (i : nat) (m : matF) (p : nat -> nat) : Prop := {
      inv_perm : perm_ok n p;
      inv_L : forall r c, r < n -> c < i -> c <= r ->
              A (p r) c = sumn c (fun k => m (p r) k *! m (p k) c) +! m (p r) c;
      inv_U : forall r c, r < i -> r < c -> c < n ->
              A (p r) c = sumn r (fun k => m (p r) k *! m (p k) c) +! m (p r) r *! m (p r) c;
      inv_R : forall r c, i <= r -> r < n -> i <= c -> m (p r) c = A (p r) c;
      inv_P : forall r, r < i -> r < n -> fltb (fabs (m (p r) r)) eps = false }.

    Lemma lu_inv_init : lu_inv 0 A (fun k => k).
    Proof. split; intros; try lia; try reflexivity. apply perm_id. Qed.

    Lemma Lupdate_spec : forall i (m : matF) p, perm_ok n p ->
      let m1 := lu_Lupdate n i m p in
      (forall j, i <= j < n -> m1 (p j) i = m (p j) i -! sumn i (fun k => m (p j) k *! m (p k) i)) /\
      (forall r c, c <> i -> m1 r c = m r c) /\
      (forall k c, k < i -> k < n -> m1 (p k) c = m (p k) c).
    Proof.
      intros i m p Hp m1. subst m1. unfold C07Model.lu_Lupdate.
      destruct (fold_mset_spec (fun j => p j) (fun _ => i)
                  (fun m j => m (p j) i -! sumk i (fun k => m (p j) k *! m (p k) i)) (seq i (n - i)) m) as [Ha Hb].
      - apply seq_NoDup.
      - intros j j' Hj Hj' E _. apply in_seq in Hj, Hj'. apply (p_inj n p Hp); [lia|lia|assumption].
      - intros j m' Hj Hm'. apply in_seq in Hj.
        assert (E1 : m' (p j) i = m (p j) i).
        { apply Hm'. intros j' Hj' Hne [E _]. apply in_seq in Hj'. apply Hne. apply (p_inj n p Hp); [lia|lia|assumption]. }
        rewrite E1. f_equal. rewrite !sumk_eq. apply sumn_ext. intros k Hk.
        rewrite (Hm' (p j) k), (Hm' (p k) i). reflexivity.
        + intros j' Hj' _ [E _]. apply in_seq in Hj'. apply (p_inj n p Hp) in E; lia.
        + intros j' Hj' _ [_ E]. lia.
      - cbv beta in Ha, Hb. split; [|split].
        + intros j Hj. rewrite Ha by (apply in_seq; lia). rewrite sumk_eq. reflexivity.
        + intros r c Hc. apply Hb. intros j _ [_ E]. congruence.
        + intros k c Hk Hkn. apply Hb. intros j Hj [E _]. apply in_seq in Hj. apply (p_inj n p Hp) in E; lia.
    Qed.

    Lemma Uupdate_spec : forall i (m : matF) p, perm_ok n p -> i < n ->
      let m2 := lu_Uupdate n i m p in
      (forall j, i < j < n -> m2 (p i) j = (m (p i) j -! sumn i (fun k => m (p i) k *! m (p k) j)) /! m (p i) i) /\
      (forall r c, c <= i -> m2 r c = m r c) /\
      (forall r c, r <> p i -> m2 r c = m r c).
    Proof.
      intros i m p Hp Hi m2. subst m2. unfold C07Model.lu_Uupdate. cbv zeta.
      destruct (fold_mset_spec (fun _ => p i) (fun j => j)
                  (fun m j => (m (p i) j -! sumk i (fun k => m (p i) k *! m (p k) j)) /! m (p i) i)
                  (seq (S i) (n - S i)) m) as [Ha Hb].
      - apply seq_NoDup.
      - intros j j' _ _ _ E. exact E.
      - intros j m' Hj Hm'. apply in_seq in Hj.
        rewrite (Hm' (p i) j), (Hm' (p i) i).
        + f_equal. f_equal. rewrite !sumk_eq. apply sumn_ext. intros k Hk.
          rewrite (Hm' (p i) k), (Hm' (p k) j). reflexivity.
          * intros j' Hj' _ [E _]. apply (p_inj n p Hp) in E; lia.
          * intros j' Hj' _ [_ E]. apply in_seq in Hj'. lia.
        + intros j' Hj' _ [_ E]. apply in_seq in Hj'. lia.
        + intros j' Hj' Hne [_ E]. congruence.
      - cbv beta in Ha, Hb. split; [|split].
        + intros j Hj. rewrite (Ha j) by (apply in_seq; lia). rewrite sumk_eq. reflexivity.
        + intros r c Hc. apply Hb. intros j Hj [_ E]. apply in_seq in Hj. lia.
        + intros r c Hr. apply Hb. intros j _ [E _]. congruence.
    Qed.

    Lemma lu_step_inv : forall i m p m' p', i < n -> lu_inv i m p ->
      lu_step n eps (m, p) i = Some (m', p') -> lu_inv (S i) m' p'.
    Proof.
      intros i m p m' p' Hi [Hp HL HU HR HP] Hstep. unfold C07Model.lu_step in Hstep.
      set (m1 := lu_Lupdate n i m p) in *.
      set (p1 := lu_perm n eps i m1 p) in *.
      destruct (fltb (fabs (m1 (p1 i) i)) eps) eqn:Hpiv; [discriminate|].
      injection Hstep as <- <-.
      destruct (Lupdate_spec i m p Hp) as [L1 [L2 L3]]. fold m1 in L1, L2, L3.
      destruct (lu_perm_props n eps i m1 p Hi Hp) as [Hp1 [Plow Phigh]]. fold p1 in Hp1, Plow, Phigh.
      (* the invariant after the L update, rows still numbered by p *)
      assert (HL1 : forall r c, r < n -> c < S i -> c <= r ->
                A (p r) c = sumn c (fun k => m1 (p r) k *! m1 (p k) c) +! m1 (p r) c).
      { intros r c Hr Hc Hcr. destruct (Nat.eq_dec c i) as [->|Hci].
        - rewrite L1 by lia. rewrite <- (HR r i) by lia.
          rewrite (sumn_ext i (fun k => m1 (p r) k *! m1 (p k) i) (fun k => m (p r) k *! m (p k) i)).
          ring. intros k Hk. rewrite (L2 (p r) k) by lia. rewrite (L3 k i) by lia. reflexivity.
        - rewrite (HL r c) by lia. rewrite (L2 (p r) c) by lia. f_equal. apply sumn_ext. intros k Hk.
          rewrite (L2 (p r) k), (L2 (p k) c) by lia. reflexivity. }
      assert (HU1 : forall r c, r < i -> r < c -> c < n ->
                A (p r) c = sumn r (fun k => m1 (p r) k *! m1 (p k) c) +! m1 (p r) r *! m1 (p r) c).
      { intros r c Hr Hrc Hc. rewrite (HU r c) by lia. rewrite !(L3 r) by lia. f_equal. apply sumn_ext. intros k Hk.
        rewrite (L3 r k), (L3 k c) by lia. reflexivity. }
      assert (HR1 : forall r c, i <= r -> r < n -> S i <= c -> m1 (p r) c = A (p r) c).
      { intros r c Hr Hrn Hc. rewrite L2 by lia. apply HR; lia. }
      assert (HP1 : forall r, r < i -> r < n -> fltb (fabs (m1 (p r) r)) eps = false).
      { intros r Hr Hrn. rewrite L3 by lia. apply HP; lia. }
      (* ... rows numbered by p1 *)
      assert (HL2 : forall r c, r < n -> c < S i -> c <= r ->
                A (p1 r) c = sumn c (fun k => m1 (p1 r) k *! m1 (p1 k) c) +! m1 (p1 r) c).
      { intros r c Hr Hc Hcr. destruct (Nat.lt_ge_cases r i) as [Hri|Hri].
        - rewrite (Plow r) by lia. rewrite (HL1 r c) by lia. f_equal. apply sumn_ext. intros k Hk.
          rewrite (Plow k) by lia. reflexivity.
        - destruct (Phigh r) as [r' [Hr' E]]; [lia|]. rewrite E. rewrite (HL1 r' c) by lia. f_equal.
          apply sumn_ext. intros k Hk. rewrite (Plow k) by lia. reflexivity. }
      assert (HU2 : forall r c, r < i -> r < c -> c < n ->
                A (p1 r) c = sumn r (fun k => m1 (p1 r) k *! m1 (p1 k) c) +! m1 (p1 r) r *! m1 (p1 r) c).
      { intros r c Hr Hrc Hc. rewrite (Plow r) by lia. rewrite (HU1 r c) by lia. f_equal. apply sumn_ext. intros k Hk.
        rewrite (Plow k) by lia. reflexivity. }
      assert (HR2 : forall r c, i <= r -> r < n -> S i <= c -> m1 (p1 r) c = A (p1 r) c).
      { intros r c Hr Hrn Hc. destruct (Phigh r) as [r' [Hr' E]]; [lia|]. rewrite E. apply HR1; lia. }
      assert (HP2 : forall r, r < i -> r < n -> fltb (fabs (m1 (p1 r) r)) eps = false).
      { intros r Hr Hrn. rewrite (Plow r) by lia. apply HP1; lia. }
      clear HL1 HU1 HR1 HP1 HL HU HR HP L1 L2 L3.
      destruct (Uupdate_spec i m1 p1 Hp1 Hi) as [U1 [U2 U3]].
      set (m2 := lu_Uupdate n i m1 p1) in *.
      assert (Hne : forall r, r < n -> r <> i -> p1 r <> p1 i).
      { intros r Hr Hri E. apply (p_inj n p1 Hp1) in E; lia. }
      split.
      - exact Hp1.
      - intros r c Hr Hc Hcr. rewrite (HL2 r c) by lia. rewrite (U2 (p1 r) c) by lia. f_equal. apply sumn_ext.
        intros k Hk. rewrite (U2 (p1 r) k), (U2 (p1 k) c) by lia. reflexivity.
      - intros r c Hr Hrc Hc. destruct (Nat.eq_dec r i) as [->|Hri].
        + rewrite (U1 c) by lia. rewrite (U2 (p1 i) i) by lia. rewrite (HR2 i c) by lia.
          rewrite (sumn_ext i (fun k => m2 (p1 i) k *! m2 (p1 k) c) (fun k => m1 (p1 i) k *! m1 (p1 k) c)).
          * field. apply pivot_nonzero. exact Hpiv.
          * intros k Hk. rewrite (U2 (p1 i) k) by lia. rewrite (U3 (p1 k) c) by (apply Hne; lia). reflexivity.
        + rewrite (HU2 r c) by lia. rewrite !(U3 (p1 r)) by (apply Hne; lia). f_equal. apply sumn_ext.
          intros k Hk. rewrite (U3 (p1 r) k), (U3 (p1 k) c) by (apply Hne; lia). reflexivity.
      - intros r c Hr Hrn Hc. rewrite U3 by (apply Hne; lia). apply HR2; lia.
      - intros r Hr Hrn. rewrite U2 by lia. destruct (Nat.eq_dec r i) as [->|Hri]. exact Hpiv. apply HP2; lia.
    Qed.

    Lemma lu_steps_none : forall l, lu_steps n eps l None = None.
    Proof. induction l; simpl; auto. Qed.

    Lemma lu_steps_cons : forall i l s, lu_steps n eps (i :: l) (Some s) = lu_steps n eps l (lu_step n eps s i).
    Proof. reflexivity. Qed.

    Lemma lu_steps_inv : forall k i m p m' p', i + k <= n -> lu_inv i m p ->
      lu_steps n eps (seq i k) (Some (m, p)) = Some (m', p') -> lu_inv (i + k) m' p'.
    Proof.
      induction k; intros i m p m' p' Hik Hinv H.
      - simpl in H. injection H as <- <-. rewrite Nat.add_0_r. exact Hinv.
      - change (seq i (S k)) with (i :: seq (S i) k) in H. rewrite lu_steps_cons in H.
        destruct (lu_step n eps (m, p) i) as [[m1 p1]|] eqn:Hs.
        + replace (i + S k) with (S i + k) by lia. apply (IHk (S i) m1 p1); [lia| |exact H].
          apply (lu_step_inv i m p); [lia|assumption|assumption].
        + rewrite lu_steps_none in H. discriminate.
    Qed.

    (* P.A = L.U in Crout form, every pivot passes the eps test *)
    Theorem lu_decomp_inv : forall m p, lu_decomp n eps A = Some (m, p) -> lu_inv n m p.
    Proof.
      intros m p H. apply (lu_steps_inv n 0 A (fun k => k) m p); [lia|apply lu_inv_init|exact H].
    Qed.

    (* ---------------------------------------------------------------- forward / back substitution *)
    Section Subst.
      Variables (m : matF) (p : nat -> nat) (M : nat) (chk : bool) (b : matF).
      Hypothesis Hinv : lu_inv n m p.

      Let Hp : perm_ok n p := inv_perm _ _ _ Hinv.

      Lemma piv_nz : forall r, r < n -> m (p r) r <> f0.
      Proof. intros r Hr. apply pivot_nonzero. apply (inv_P _ _ _ Hinv); lia. Qed.

      Lemma row_update_spec : forall (x : matF) i (val : nat -> F),
        let x' := fold_left (fun x' k => mset x' (p i) k (val k)) (seq 0 M) x in
        (forall k, k < M -> x' (p i) k = val k) /\ (forall r c, r <> p i -> x' r c = x r c).
      Proof.
        intros x i val x'. subst x'.
        destruct (fold_mset_spec (fun _ => p i) (fun k => k) (fun _ k => val k) (seq 0 M) x) as [Ha Hb].
        - apply seq_NoDup.
        - intros j j' _ _ _ E. exact E.
        - reflexivity.
        - cbv beta in Ha, Hb. split.
          + intros k Hk. apply Ha. apply in_seq. lia.
          + intros r c Hr. apply Hb. intros j _ [E _]. congruence.
      Qed.

      (* the forward loop never fails and solves L y = P b, y(r) = x(p(r)) *)
      Lemma bs_forward_spec : forall i, i <= n -> exists x,
        fold_left (fun st i =>
                 match st with
                 | None => None
                 | Some x =>
                   let pi := p i in
                   if chk && fltb (fabs (m pi i)) eps then None
                   else Some (fold_left (fun x' k =>
                                mset x' pi k ((x pi k -! sumk i (fun j => m pi j *! x (p j) k)) /! m pi i))
                              (seq 0 M) x)
                 end) (seq 0 i) (Some b) = Some x /\
        (forall r k, r < i -> k < M ->
           sumn r (fun j => m (p r) j *! x (p j) k) +! m (p r) r *! x (p r) k = b (p r) k) /\
        (forall r k, i <= r -> r < n -> x (p r) k = b (p r) k).
      Proof.
        induction i; intros Hi.
        - exists b. split; [reflexivity|]. split; intros; [lia|reflexivity].
        - destruct IHi as [x [E [F1 F2]]]; [lia|].
          rewrite seq_S, fold_left_app, E. simpl. cbv zeta.
          rewrite (inv_P _ _ _ Hinv i) by lia. rewrite andb_false_r.
          eexists. split; [reflexivity|].
          destruct (row_update_spec x i (fun k => (x (p i) k -! sumk i (fun j => m (p i) j *! x (p j) k)) /! m (p i) i))
            as [R1 R2].
          match goal with |- context [fold_left ?f (seq 0 M) x] => set (x' := fold_left f (seq 0 M) x) in * end.
          assert (Hne : forall r, r < n -> r <> i -> p r <> p i).
          { intros r Hr Hri E'. apply (p_inj n p Hp) in E'; lia. }
          split.
          + intros r k Hr Hk. destruct (Nat.eq_dec r i) as [->|Hri].
            * rewrite (R1 k Hk). rewrite sumk_eq. rewrite (F2 i k) by lia.
              rewrite (sumn_ext i (fun j => m (p i) j *! x' (p j) k) (fun j => m (p i) j *! x (p j) k)).
              field. apply piv_nz. lia.
              intros j Hj. rewrite (R2 (p j) k) by (apply Hne; lia). reflexivity.
            * rewrite (R2 (p r) k) by (apply Hne; lia). rewrite <- (F1 r k) by lia. f_equal. apply sumn_ext.
              intros j Hj. rewrite (R2 (p j) k) by (apply Hne; lia). reflexivity.
          + intros r k Hr Hrn. rewrite (R2 (p r) k) by (apply Hne; lia). apply F2; lia.
      Qed.

      Lemma brow_update_spec : forall (bb : matF) i (val : nat -> F),
        let b' := fold_left (fun b'' k => mset b'' i k (val k)) (seq 0 M) bb in
        (forall k, k < M -> b' i k = val k) /\ (forall r c, r <> i -> b' r c = bb r c).
      Proof.
        intros bb i val b'. subst b'.
        destruct (fold_mset_spec (fun _ => i) (fun k => k) (fun _ k => val k) (seq 0 M) bb) as [Ha Hb].
        - apply seq_NoDup.
        - intros j j' _ _ _ E. exact E.
        - reflexivity.
        - cbv beta in Ha, Hb. split.
          + intros k Hk. apply Ha. apply in_seq. lia.
          + intros r c Hr. apply Hb. intros j _ [E _]. congruence.
      Qed.

      (* the backward loop solves U z = y *)
      Lemma bs_backward_spec : forall (x : matF), 0 < n -> forall t, t <= n - 1 ->
        let z := fold_left (fun b' i' =>
                 let i := n - 1 - i' in
                 let pi2 := i - 1 in
                 let pi := p pi2 in
                 fold_left (fun b'' k => mset b'' pi2 k (x pi k -! sumr i n (fun j => m pi j *! b' j k)))
                           (seq 0 M) b')
              (seq 0 t) (fold_left (fun b' k => mset b' (n - 1) k (x (p (n - 1)) k)) (seq 0 M) b) in
        forall r k, n - 1 - t <= r -> r < n -> k < M ->
          z r k = x (p r) k -! sumn (n - S r) (fun j => m (p r) (S r + j)%nat *! z (S r + j)%nat k).
      Proof.
        intros x Hn. induction t; intros Ht z; subst z.
        - simpl. intros r k Hr Hrn Hk. replace r with (n - 1) by lia.
          destruct (brow_update_spec b (n - 1) (fun k => x (p (n - 1)) k)) as [R1 _].
          rewrite (R1 k Hk). replace (n - S (n - 1)) with 0 by lia. simpl. ring.
        - rewrite seq_S, fold_left_app. simpl. cbv zeta.
          match goal with |- context [fold_left ?f (seq 0 t) ?a] => set (z0 := fold_left f (seq 0 t) a) in * end.
          specialize (IHt ltac:(lia)). cbv zeta in IHt.
          set (i := n - 1 - t) in *. set (pi2 := i - 1).
          destruct (brow_update_spec z0 pi2 (fun k => x (p pi2) k -! sumr i n (fun j => m (p pi2) j *! z0 j k))) as [R1 R2].
          match goal with |- context [fold_left ?f (seq 0 M) z0] => set (z1 := fold_left f (seq 0 M) z0) in * end.
          intros r k Hr Hrn Hk. destruct (Nat.eq_dec r pi2) as [->|Hrp].
          + rewrite (R1 k Hk). rewrite sumr_eq. replace (S pi2) with i by (unfold pi2, i; lia).
            f_equal. apply sumn_ext. intros j Hj. replace (S (pi2 + j)) with (i + j)%nat by (unfold pi2, i; lia).
            rewrite (R2 (i + j)%nat k) by (unfold pi2; lia). reflexivity.
          + rewrite (R2 r k Hrp). rewrite (IHt r k) by (unfold pi2, i in *; lia). f_equal. apply sumn_ext.
            intros j Hj. change (S r + j)%nat with (S (r + j)). rewrite (R2 (S (r + j)) k) by (unfold pi2, i in *; lia). reflexivity.
      Qed.

      (* A(p(r), c) = sum_k L(r,k) U(k,c) with L, U read in m *)
      Lemma lu_product : forall r c, r < n -> c < n ->
        A (p r) c = sumn n (fun k => (if k <=? r then m (p r) k else f0) *!
                                     (if k <? c then m (p k) c else if k =? c then f1 else f0)).
      Proof.
        intros r c Hr Hc. destruct (Nat.le_gt_cases c r) as [Hcr|Hcr].
        - rewrite (inv_L _ _ _ Hinv r c) by lia.
          rewrite (sumn_split3 n c) by lia. rewrite Nat.ltb_irrefl, Nat.eqb_refl.
          rewrite (leb_true (c) (r)) by lia.
          rewrite (sumn_zero (n - S c)).
          + rewrite (sumn_ext c (fun k => (if k <=? r then m (p r) k else f0) *! (if k <? c then m (p k) c else if k =? c then f1 else f0)) (fun k => m (p r) k *! m (p k) c)). ring.
            intros k Hk. rewrite (leb_true (k) (r)) by lia.
            rewrite (ltb_true (k) (c)) by lia. reflexivity.
          + intros k Hk. rewrite (ltb_false (S c + k) (c)) by lia.
            rewrite (eqb_false (S c + k) (c)) by lia. ring.
        - rewrite (inv_U _ _ _ Hinv r c) by lia.
          rewrite (sumn_split3 n r) by lia. rewrite Nat.leb_refl.
          rewrite (ltb_true (r) (c)) by lia.
          rewrite (sumn_zero (n - S r)).
          + rewrite (sumn_ext r (fun k => (if k <=? r then m (p r) k else f0) *! (if k <? c then m (p k) c else if k =? c then f1 else f0)) (fun k => m (p r) k *! m (p k) c)). ring.
            intros k Hk. rewrite (leb_true (k) (r)) by lia.
            rewrite (ltb_true (k) (c)) by lia. reflexivity.
          + intros k Hk. rewrite (leb_false (S r + k) (r)) by lia. ring.
      Qed.

      Theorem back_substitute_spec : exists X, back_substitute n M eps chk m p b = Some X /\
        forall r k, r < n -> k < M -> sumn n (fun c => A r c *! X c k) = b r k.
      Proof.
        unfold C07Model.back_substitute, C07Model.bs_forward.
        destruct (bs_forward_spec n (le_n n)) as [x [E [F1 _]]]. cbv zeta in E. rewrite E.
        eexists. split; [reflexivity|].
        intros q k Hq Hk. destruct (p_surj n p Hp q Hq) as [r [Hr <-]].
        assert (Hn : 0 < n) by lia.
        pose proof (bs_backward_spec x Hn (n - 1) (le_n _)) as B. cbv zeta in B.
        unfold C07Model.bs_backward. cbv zeta.
        match goal with |- context [fold_left ?f (seq 0 (n - 1)) ?a] => set (z := fold_left f (seq 0 (n - 1)) a) in * end.
        (* y(j) = x(p(j)) = sum_c U(j,c) z(c) *)
        assert (Y : forall j, j < n -> x (p j) k =
                  sumn n (fun c => (if j <? c then m (p j) c else if j =? c then f1 else f0) *! z c k)).
        { intros j Hj. rewrite (sumn_split3 n j) by lia. rewrite Nat.ltb_irrefl, Nat.eqb_refl.
          rewrite (sumn_zero j).
          - rewrite (B j k) by lia.
            rewrite (sumn_ext (n - S j) (fun t => (if j <? S j + t then m (p j) (S j + t)%nat
                       else if j =? S j + t then f1 else f0) *! z (S j + t)%nat k)
                     (fun t => m (p j) (S j + t)%nat *! z (S j + t)%nat k)). ring.
            intros t Ht. rewrite (ltb_true (j) (S j + t)) by lia. reflexivity.
          - intros c Hc. rewrite (ltb_false (j) (c)) by lia.
            rewrite (eqb_false (j) (c)) by lia. ring. }
        rewrite (sumn_ext n _ (fun c => sumn n (fun j => (if j <=? r then m (p r) j else f0) *!
                   ((if j <? c then m (p j) c else if j =? c then f1 else f0) *! z c k)))).
        2:{ intros c Hc. rewrite (lu_product r c Hr Hc). rewrite sumn_mul_r. apply sumn_ext. intros j Hj. ring. }
        rewrite sumn_swap.
        rewrite (sumn_ext n _ (fun j => (if j <=? r then m (p r) j else f0) *! x (p j) k)).
        2:{ intros j Hj. rewrite <- sumn_mul_l. rewrite <- (Y j Hj). reflexivity. }
        rewrite <- (F1 r k Hr Hk).
        rewrite (sumn_split3 n r) by lia. rewrite Nat.leb_refl. rewrite (sumn_zero (n - S r)).
        - rewrite (sumn_ext r (fun j => (if j <=? r then m (p r) j else f0) *! x (p j) k) (fun j => m (p r) j *! x (p j) k)). ring.
          intros j Hj. rewrite (leb_true (j) (r)) by lia. reflexivity.
        - intros j Hj. rewrite (leb_false (S r + j) (r)) by lia. ring.
      Qed.

      (* A is regular: L has a non-null diagonal and U a unit diagonal *)
      Theorem lu_regular : forall y, (forall r, r < n -> sumn n (fun c => A r c *! y c) = f0) ->
        forall c, c < n -> y c = f0.
      Proof.
        intros y Hy.
        set (w := fun k => sumn n (fun c => (if k <? c then m (p k) c else if k =? c then f1 else f0) *! y c)).
        assert (W : forall r, r < n -> sumn r (fun k => m (p r) k *! w k) +! m (p r) r *! w r = f0).
        { intros r Hr. rewrite <- (Hy (p r)) by (apply (p_range n p Hp); exact Hr).
          rewrite (sumn_ext n (fun c => A (p r) c *! y c)
                     (fun c => sumn n (fun k => (if k <=? r then m (p r) k else f0) *!
                        ((if k <? c then m (p k) c else if k =? c then f1 else f0) *! y c)))).
          2:{ intros c Hc. rewrite (lu_product r c Hr Hc). rewrite sumn_mul_r. apply sumn_ext. intros k Hk. ring. }
          rewrite sumn_swap.
          rewrite (sumn_ext n _ (fun k => (if k <=? r then m (p r) k else f0) *! w k)).
          2:{ intros k Hk. unfold w. rewrite <- sumn_mul_l. reflexivity. }
          rewrite (sumn_split3 n r) by lia. rewrite Nat.leb_refl. rewrite (sumn_zero (n - S r)).
          - rewrite (sumn_ext r (fun k => (if k <=? r then m (p r) k else f0) *! w k) (fun k => m (p r) k *! w k)). ring.
            intros k Hk. rewrite (leb_true k r) by lia. reflexivity.
          - intros k Hk. rewrite (leb_false (S r + k) r) by lia. ring. }
        assert (W0 : forall r, r < n -> w r = f0).
        { induction r as [r IH] using lt_wf_ind. intros Hr. specialize (W r Hr).
          rewrite (sumn_zero r) in W.
          - apply (mul_zero_reg (m (p r) r)). apply piv_nz; exact Hr. rewrite <- W. ring.
          - intros k Hk. rewrite (IH k) by lia. ring. }
        assert (Y0 : forall t c, n - t <= c -> c < n -> y c = f0).
        { induction t; intros c Hc Hcn. lia.
          destruct (Nat.le_gt_cases (n - t) c) as [H|H]. apply IHt; assumption.
          pose proof (W0 c Hcn) as E. unfold w in E.
          rewrite (sumn_split3 n c) in E by lia. rewrite Nat.ltb_irrefl, Nat.eqb_refl in E.
          rewrite (sumn_zero c) in E.
          - rewrite (sumn_zero (n - S c)) in E. rewrite <- E. ring.
            intros k Hk. rewrite (IHt (S c + k)%nat) by lia. ring.
          - intros k Hk. rewrite (ltb_false c k) by lia. rewrite (eqb_false c k) by lia. ring. }
        intros c Hc. apply (Y0 n c); lia.
      Qed.
    End Subst.

    (* ---------------------------------------------------------------- the solvers *)
    Theorem lu_solve_mat_sound : forall M chk b X, lu_solve_mat n M eps chk A b = Some X ->
      forall r k, r < n -> k < M -> sumn n (fun c => A r c *! X c k) = b r k.
    Proof.
      intros M chk b X H. unfold C07Model.lu_solve_mat in H.
      destruct (lu_decomp n eps A) as [[m p]|] eqn:D; [|discriminate].
      destruct (back_substitute_spec m p M chk b (lu_decomp_inv m p D)) as [X' [E HX]].
      rewrite E in H. injection H as <-. exact HX.
    Qed.

    Theorem lu_solve_sound : forall chk b x, lu_solve n eps chk A b = Some x ->
      forall r, r < n -> sumn n (fun c => A r c *! x c) = b r.
    Proof.
      intros chk b x H r Hr. unfold C07Model.lu_solve in H.
      destruct (lu_solve_mat n 1 eps chk A (fun r _ => b r)) as [X|] eqn:E; [|discriminate].
      injection H as <-. apply (lu_solve_mat_sound 1 chk _ X E r 0 Hr). lia.
    Qed.

    Theorem lu_invert_sound : forall X, lu_invert n eps A = Some X ->
      forall r k, r < n -> k < n -> sumn n (fun c => A r c *! X c k) = if r =? k then f1 else f0.
    Proof. intros X H r k Hr Hk. apply (lu_solve_mat_sound n true _ X H r k Hr Hk). Qed.

    (* a successful factorisation solves every right-hand side: back substitution cannot fail *)
    Theorem lu_decomp_total_rhs : forall mp, lu_decomp n eps A = Some mp ->
      forall M chk b, exists X, lu_solve_mat n M eps chk A b = Some X.
    Proof.
      intros [m p] D M chk b. unfold C07Model.lu_solve_mat. rewrite D.
      destruct (back_substitute_spec m p M chk b (lu_decomp_inv m p D)) as [X [E _]]. exists X. exact E.
    Qed.

    (* a successful factorisation: A is regular; hence an (exactly) singular matrix is always reported *)
    Definition singular (A : matF) : Prop :=
      exists y, (exists c, c < n /\ y c <> f0) /\ forall r, r < n -> sumn n (fun c => A r c *! y c) = f0.

    Theorem lu_success_regular : forall mp, lu_decomp n eps A = Some mp ->
      forall y, (forall r, r < n -> sumn n (fun c => A r c *! y c) = f0) -> forall c, c < n -> y c = f0.
    Proof. intros [m p] D. apply (lu_regular m p (lu_decomp_inv m p D)). Qed.

    Theorem lu_singular_fails : singular A ->
      lu_decomp n eps A = None /\ (forall M chk b, lu_solve_mat n M eps chk A b = None) /\
      (forall chk b, lu_solve n eps chk A b = None) /\ lu_invert n eps A = None.
    Proof.
      intros [y [[c [Hc Hyc]] Hy]].
      assert (D : lu_decomp n eps A = None).
      { destruct (lu_decomp n eps A) as [mp|] eqn:D; [|reflexivity].
        exfalso. apply Hyc. apply (lu_success_regular mp D y Hy c Hc). }
      split; [exact D|]. unfold C07Model.lu_invert, C07Model.lu_solve, C07Model.lu_solve_mat. rewrite D.
      repeat split; reflexivity.
    Qed.

    (* ---------------------------------------------------------------- when is a failure reported?
       (|.|, <) are only assumed to behave like an order: asymmetry and transitivity of `not <` *)
    Section Failure.
      Hypothesis Hasym : forall a b, fltb a b = true -> fltb b a = false.
      Hypothesis Hntrans : forall a b c, fltb a b = false -> fltb b c = false -> fltb a c = false.

      Lemma lu_search_max : forall i (m : matF) p, i < n ->
        let '(cmax, piv) := lu_search n i m p in
        cmax = fabs (m (p piv) i) /\ forall j, i <= j < n -> fltb cmax (fabs (m (p j) i)) = false.
      Proof.
        intros i m p Hi. unfold C07Model.lu_search.
        assert (G : forall l c0 q0 (seen : nat -> Prop),
                  c0 = fabs (m (p q0) i) -> (forall j, seen j -> fltb c0 (fabs (m (p j) i)) = false) ->
                  let '(cmax, piv) := fold_left (fun '(cmax, piv) j => let v := fabs (m (p j) i) in
                                         if fltb cmax v then (v, j) else (cmax, piv)) l (c0, q0) in
                  cmax = fabs (m (p piv) i) /\ forall j, seen j \/ In j l -> fltb cmax (fabs (m (p j) i)) = false).
        { induction l as [|x l IH]; intros c0 q0 seen Hc Hseen; simpl.
          - split; [exact Hc|]. intros j [Hj|[]]. apply Hseen; exact Hj.
          - destruct (fltb c0 (fabs (m (p x) i))) eqn:Hx.
            + specialize (IH (fabs (m (p x) i)) x (fun j => seen j \/ j = x) eq_refl).
              destruct (fold_left _ l (fabs (m (p x) i), x)) as [cmax piv].
              destruct IH as [I1 I2].
              * intros j [Hj| ->].
                -- apply (Hntrans _ c0); [apply Hasym; exact Hx|apply Hseen; exact Hj].
                -- destruct (fltb (fabs (m (p x) i)) (fabs (m (p x) i))) eqn:E; [|reflexivity].
                   rewrite (Hasym _ _ E) in E. discriminate.
              * split; [exact I1|]. intros j [Hj|[<-|Hj]]; apply I2; auto.
            + specialize (IH c0 q0 (fun j => seen j \/ j = x) Hc).
              destruct (fold_left _ l (c0, q0)) as [cmax piv].
              destruct IH as [I1 I2].
              * intros j [Hj| ->]; [apply Hseen; exact Hj|exact Hx].
              * split; [exact I1|]. intros j [Hj|[<-|Hj]]; apply I2; auto. }
        specialize (G (seq (S i) (n - S i)) (fabs (m (p i) i)) i (fun j => j = i) eq_refl).
        destruct (fold_left _ (seq (S i) (n - S i)) (fabs (m (p i) i), i)) as [cmax piv].
        destruct G as [G1 G2].
        - intros j ->. destruct (fltb (fabs (m (p i) i)) (fabs (m (p i) i))) eqn:E; [|reflexivity].
          rewrite (Hasym _ _ E) in E. discriminate.
        - split; [exact G1|]. intros j Hj. apply G2. destruct (Nat.eq_dec j i); [left; assumption|right; apply in_seq; lia].
      Qed.

      (* a null pivot is reported at step i only if every candidate of the column (the entries of the Schur complement
         column, rows p(j), j >= i) is below eps in modulus *)
      Lemma lu_step_none : forall i (m : matF) p, i < n ->
        lu_step n eps (m, p) i = None ->
        forall j, i <= j < n -> fltb (fabs (lu_Lupdate n i m p (p j) i)) eps = true.
      Proof.
        intros i m p Hi H j Hj. unfold C07Model.lu_step in H.
        set (m1 := lu_Lupdate n i m p) in *.
        destruct (fltb (fabs (m1 (lu_perm n eps i m1 p i) i)) eps) eqn:Hpiv; [|discriminate]. clear H.
        pose proof (lu_search_max i m1 p Hi) as S. unfold C07Model.lu_perm in Hpiv.
        destruct (lu_search n i m1 p) as [cmax piv]. destruct S as [S1 S2].
        assert (Small : fltb cmax eps = true -> fltb (fabs (m1 (p j) i)) eps = true).
        { intro Hc. destruct (fltb (fabs (m1 (p j) i)) eps) eqn:E; [reflexivity|].
          rewrite (Hntrans _ _ _ (S2 j Hj) E) in Hc. discriminate. }
        destruct (Nat.eqb_spec piv i) as [Heq|Hne].
        - subst piv. apply Small. rewrite S1. exact Hpiv.
        - destruct (fltb (c01 *! cmax) (fabs (m1 (p i) i)) && fltb eps (fabs (m1 (p i) i))) eqn:Hk.
          + apply andb_prop in Hk. destruct Hk as [_ Hk]. rewrite (Hasym _ _ Hk) in Hpiv. discriminate.
          + apply Small. rewrite S1. unfold pswap in Hpiv. rewrite Nat.eqb_refl in Hpiv.
            destruct (Nat.eqb_spec i piv); [congruence|exact Hpiv].
      Qed.

      Lemma lu_steps_none_inv : forall k i m p, i + k <= n -> lu_inv i m p ->
        lu_steps n eps (seq i k) (Some (m, p)) = None ->
        exists i' m' p', i <= i' < i + k /\ lu_inv i' m' p' /\ lu_step n eps (m', p') i' = None.
      Proof.
        induction k; intros i m p Hik Hinv H.
        - simpl in H. discriminate.
        - change (seq i (S k)) with (i :: seq (S i) k) in H. rewrite lu_steps_cons in H.
          destruct (lu_step n eps (m, p) i) as [[m1 p1]|] eqn:Hs.
          + destruct (IHk (S i) m1 p1) as [i' [m' [p' [Hi' [Hinv' Hn]]]]]; [lia| |exact H|].
            * apply (lu_step_inv i m p); [lia|assumption|assumption].
            * exists i', m', p'. split; [lia|]. split; assumption.
          + exists i, m, p. split; [lia|]. split; assumption.
      Qed.

      (* LUDecomp::exe gives up only when, at some step i, the whole pivot column of the Schur complement
         A(p(j),i) - sum_{k<i} L(j,k) U(k,i), j >= i, is below eps in modulus (no usable pivot) *)
      Theorem lu_failure_column_small : lu_decomp n eps A = None ->
        exists i m p, i < n /\ lu_inv i m p /\
          forall j, i <= j < n ->
            fltb (fabs (A (p j) i -! sumn i (fun k => m (p j) k *! m (p k) i))) eps = true.
      Proof.
        intro H. destruct (lu_steps_none_inv n 0 A (fun k => k)) as [i [m [p [Hi [Hinv Hn]]]]]; [lia|apply lu_inv_init|exact H|].
        exists i, m, p. split; [lia|]. split; [exact Hinv|]. intros j Hj.
        pose proof (lu_step_none i m p ltac:(lia) Hn j Hj) as Hs.
        destruct (Lupdate_spec i m p (inv_perm _ _ _ Hinv)) as [L1 _]. rewrite (L1 j Hj) in Hs.
        rewrite (inv_R _ _ _ Hinv j i) in Hs by lia. exact Hs.
      Qed.
    End Failure.
  End Decomp.
End LU.

(* C07 -- property theorems over the decision trees regenerated from /repo (statements only; proofs in
   C07Proofs.v).  a_k: entries of A row-major, b_k: right-hand side(s), eps: the tolerance argument (> 0).
   Some x = the C++ returned true with x in the output argument; None = it returned false / raised. *)
From Coq Require Import Reals List.
From C07 Require Import C07Spec C07_gen C07Proofs.
Import ListNotations.
Local Open Scope R_scope.

(* TinyMatrixSolve<1,2,3>::exe (closed forms), vector right-hand side: a returned solution is a solution *)
Theorem C07_solve_closed_forms_sound : forall a0 a1 a2 a3 a4 a5 a6 a7 a8 b0 b1 b2 eps x, 0 < eps ->
  (solve1 a0 b0 eps = Some x -> solves 1 1 [a0] [b0] x) /\
  (solve2 a0 a1 a2 a3 b0 b1 eps = Some x -> solves 2 1 [a0; a1; a2; a3] [b0; b1] x) /\
  (solve3 a0 a1 a2 a3 a4 a5 a6 a7 a8 b0 b1 b2 eps = Some x -> solves 3 1 [a0; a1; a2; a3; a4; a5; a6; a7; a8] [b0; b1; b2] x).
Proof.
  intros a0 a1 a2 a3 a4 a5 a6 a7 a8 b0 b1 b2 eps x He.
  exact (conj (solve1_ok a0 a1 a2 a3 a4 a5 a6 a7 a8 b0 b1 b2 0 0 0 eps He x)
        (conj (solve2_ok a0 a1 a2 a3 a4 a5 a6 a7 a8 b0 b1 b2 0 0 0 eps He x)
              (solve3_ok a0 a1 a2 a3 a4 a5 a6 a7 a8 b0 b1 b2 0 0 0 eps He x))).
Qed.
Print Assumptions C07_solve_closed_forms_sound.

(* ... and a null determinant is reported as a failure *)
Theorem C07_solve_closed_forms_null_determinant : forall a0 a1 a2 a3 a4 a5 a6 a7 a8 b0 b1 b2 eps, 0 < eps ->
  (det1 [a0] = 0 -> solve1 a0 b0 eps = None) /\
  (det2 [a0; a1; a2; a3] = 0 -> solve2 a0 a1 a2 a3 b0 b1 eps = None) /\
  (det3 [a0; a1; a2; a3; a4; a5; a6; a7; a8] = 0 -> solve3 a0 a1 a2 a3 a4 a5 a6 a7 a8 b0 b1 b2 eps = None).
Proof.
  intros a0 a1 a2 a3 a4 a5 a6 a7 a8 b0 b1 b2 eps He.
  exact (conj (solve1_null a0 a1 a2 a3 a4 a5 a6 a7 a8 b0 b1 b2 0 0 0 eps He)
        (conj (solve2_null a0 a1 a2 a3 a4 a5 a6 a7 a8 b0 b1 b2 0 0 0 eps He)
              (solve3_null a0 a1 a2 a3 a4 a5 a6 a7 a8 b0 b1 b2 0 0 0 eps He))).
Qed.
Print Assumptions C07_solve_closed_forms_null_determinant.

(* matrix right-hand sides (two columns) *)
Theorem C07_solve_matrix_rhs_sound : forall a0 a1 a2 a3 a4 a5 a6 a7 a8 b0 b1 b2 b3 b4 b5 eps x, 0 < eps ->
  (solvem1 a0 b0 b1 eps = Some x -> solves 1 2 [a0] [b0; b1] x) /\
  (solvem2 a0 a1 a2 a3 b0 b1 b2 b3 eps = Some x -> solves 2 2 [a0; a1; a2; a3] [b0; b1; b2; b3] x) /\
  (solvem3 a0 a1 a2 a3 a4 a5 a6 a7 a8 b0 b1 b2 b3 b4 b5 eps = Some x ->
     solves 3 2 [a0; a1; a2; a3; a4; a5; a6; a7; a8] [b0; b1; b2; b3; b4; b5] x) /\
  (det2 [a0; a1; a2; a3] = 0 -> solvem2 a0 a1 a2 a3 b0 b1 b2 b3 eps = None) /\
  (det3 [a0; a1; a2; a3; a4; a5; a6; a7; a8] = 0 -> solvem3 a0 a1 a2 a3 a4 a5 a6 a7 a8 b0 b1 b2 b3 b4 b5 eps = None).
Proof.
  intros a0 a1 a2 a3 a4 a5 a6 a7 a8 b0 b1 b2 b3 b4 b5 eps x He.
  exact (conj (solvem1_ok a0 a1 a2 a3 a4 a5 a6 a7 a8 b0 b1 b2 b3 b4 b5 eps He x)
        (conj (solvem2_ok a0 a1 a2 a3 a4 a5 a6 a7 a8 b0 b1 b2 b3 b4 b5 eps He x)
        (conj (solvem3_ok a0 a1 a2 a3 a4 a5 a6 a7 a8 b0 b1 b2 b3 b4 b5 eps He x)
        (conj (solvem2_null a0 a1 a2 a3 a4 a5 a6 a7 a8 b0 b1 b2 b3 b4 b5 eps He)
              (solvem3_null a0 a1 a2 a3 a4 a5 a6 a7 a8 b0 b1 b2 b3 b4 b5 eps He))))).
Qed.
Print Assumptions C07_solve_matrix_rhs_sound.

(* the LU path -- LUDecomp::exe with partial pivoting, then TinyMatrixSolveBase::back_substitute -- on every
   pivoting path for N = 1, 2, 3 (2, 11, 117 paths): a returned solution is a solution.  (_partial: the statement
   for every N is not proved; sizes 4..8 are covered by the exact-rational model and execution only) *)
Theorem C07_lu_sound_partial : forall a0 a1 a2 a3 a4 a5 a6 a7 a8 b0 b1 b2 eps x, 0 < eps ->
  (lu1 a0 b0 eps = Some x -> solves 1 1 [a0] [b0] x) /\
  (lu2 a0 a1 a2 a3 b0 b1 eps = Some x -> solves 2 1 [a0; a1; a2; a3] [b0; b1] x) /\
  (lu3 a0 a1 a2 a3 a4 a5 a6 a7 a8 b0 b1 b2 eps = Some x -> solves 3 1 [a0; a1; a2; a3; a4; a5; a6; a7; a8] [b0; b1; b2] x).
Proof.
  intros a0 a1 a2 a3 a4 a5 a6 a7 a8 b0 b1 b2 eps x He.
  exact (conj (lu1_ok a0 a1 a2 a3 a4 a5 a6 a7 a8 b0 b1 b2 0 0 0 eps He x)
        (conj (lu2_ok a0 a1 a2 a3 a4 a5 a6 a7 a8 b0 b1 b2 0 0 0 eps He x)
              (lu3_ok a0 a1 a2 a3 a4 a5 a6 a7 a8 b0 b1 b2 0 0 0 eps He x))).
Qed.
Print Assumptions C07_lu_sound_partial.

// C07 driver: runs the REAL dense solvers of /repo on matrices given as data and prints verdict + solution.
//   L : LUSolve::exe (run-time sized matrix / vector)        T : TinyMatrixSolve<N,double,false>::exe (N = 1..8)
//   I : TinyMatrixInvert<N,double>::exe (N = 1..6), prints the inverse row-major
//   M : TinyMatrixSolve<N,double,false>::exe(m, tmatrix<N,2>&, eps), the matrix right-hand side overload (b: N x 2 row-major)
//   Q : QRDecomp::exe + tq_product + back_substitute (run-time sized matrix / vector, default eps)
#include <cmath>
#include <cstdio>
#include <cstdlib>
#include <fstream>
#include <iostream>
#include <sstream>
#include <string>
#include <vector>
#include "TFEL/Config/TFELConfig.hxx"
#include "TFEL/Math/tvector.hxx"
#include "TFEL/Math/tmatrix.hxx"
#include "TFEL/Math/vector.hxx"
#include "TFEL/Math/matrix.hxx"
#include "TFEL/Math/LUSolve.hxx"
#include "TFEL/Math/TinyMatrixSolve.hxx"
#include "TFEL/Math/TinyMatrixInvert.hxx"
#include "TFEL/Math/QR/QRDecomp.hxx"

static void out(const std::string& id, bool ok, const std::vector<double>& x) {
  std::printf("R %s %d %zu", id.c_str(), ok ? 1 : 0, x.size());
  for (double v : x) {
    if (std::isnan(v)) std::printf(" nan");
    else std::printf(" %a", v);
  }
  std::printf("\n");
}
template <unsigned short N>
void tiny(const std::string& id, char kind, const std::vector<double>& a, const std::vector<double>& b, double eps) {
  tfel::math::tmatrix<N, N, double> m;
  for (unsigned short i = 0; i < N; ++i)
    for (unsigned short j = 0; j < N; ++j) m(i, j) = a[N * i + j];
  std::vector<double> r;
  if (kind == 'T') {
    tfel::math::tvector<N, double> v;
    for (unsigned short i = 0; i < N; ++i) v(i) = b[i];
    const bool ok = tfel::math::TinyMatrixSolve<N, double, false>::exe(m, v, eps);
    if (ok) for (unsigned short i = 0; i < N; ++i) r.push_back(v(i));
    out(id, ok, r);
  } else if (kind == 'M') {
    tfel::math::tmatrix<N, 2, double> B;
    for (unsigned short i = 0; i < N; ++i)
      for (unsigned short k = 0; k < 2; ++k) B(i, k) = b[2 * i + k];
    const bool ok = tfel::math::TinyMatrixSolve<N, double, false>::exe(m, B, eps);
    if (ok)
      for (unsigned short i = 0; i < N; ++i)
        for (unsigned short k = 0; k < 2; ++k) r.push_back(B(i, k));
    out(id, ok, r);
  } else {
    bool ok = true;
    try {
      tfel::math::TinyMatrixInvert<N, double>::exe(m, eps);
    } catch (std::exception&) {
      ok = false;
    }
    if (ok) for (unsigned short i = 0; i < N; ++i) for (unsigned short j = 0; j < N; ++j) r.push_back(m(i, j));
    out(id, ok, r);
  }
}
int main(int argc, char** argv) {
  if (argc < 2) return 2;
  std::ifstream in(argv[1]);
  std::string line;
  while (std::getline(in, line)) {
    if (line.empty()) continue;
    std::istringstream is(line);
    std::string id, kind;
    int n;
    is >> id >> kind >> n;
    std::vector<double> a(n * n), b(kind == "M" ? 2 * n : n);
    std::string tok;
    for (auto& x : a) { is >> tok; x = std::strtod(tok.c_str(), nullptr); }
    for (auto& x : b) { is >> tok; x = std::strtod(tok.c_str(), nullptr); }
    is >> tok;
    const double eps = std::strtod(tok.c_str(), nullptr);
    if (kind == "L") {
      tfel::math::matrix<double> m(n, n);
      tfel::math::vector<double> v(n);
      for (int i = 0; i < n; ++i) {
        v(i) = b[i];
        for (int j = 0; j < n; ++j) m(i, j) = a[n * i + j];
      }
      bool ok = true;
      try {
        tfel::math::LUSolve::exe(m, v);
      } catch (std::exception&) {
        ok = false;
      }
      std::vector<double> r;
      if (ok) for (int i = 0; i < n; ++i) r.push_back(v(i));
      out(id, ok, r);
    } else if (kind == "Q") {
      tfel::math::matrix<double> m(n, n);
      tfel::math::vector<double> v(n), rdiag(n), beta(n);
      for (int i = 0; i < n; ++i) {
        v(i) = b[i];
        for (int j = 0; j < n; ++j) m(i, j) = a[n * i + j];
      }
      bool ok = true;
      try {
        tfel::math::QRDecomp::exe(m, rdiag, beta);
        tfel::math::QRDecomp::tq_product(v, m, beta);
        tfel::math::QRDecomp::back_substitute(v, m, rdiag);
      } catch (std::exception&) {
        ok = false;
      }
      std::vector<double> r;
      if (ok) for (int i = 0; i < n; ++i) r.push_back(v(i));
      out(id, ok, r);
    } else {
      switch (n) {
        case 1: tiny<1>(id, kind[0], a, b, eps); break;
        case 2: tiny<2>(id, kind[0], a, b, eps); break;
        case 3: tiny<3>(id, kind[0], a, b, eps); break;
        case 4: tiny<4>(id, kind[0], a, b, eps); break;
        case 5: tiny<5>(id, kind[0], a, b, eps); break;
        case 6: tiny<6>(id, kind[0], a, b, eps); break;
        case 7: tiny<7>(id, kind[0], a, b, eps); break;
        default: tiny<8>(id, kind[0], a, b, eps);
      }
    }
  }
  return 0;
}

"""C07 -- dense linear solvers return true solutions or report failure.
Engine H, every size: a Gallina model of LUDecomp::exe (Crout, permutation vector, 0.1 cmax rule, eps test) + the permuted
forward / back substitution (vector and tmatrix<N,M> right-hand sides) + TinyMatrixInvert over any field; Coq proves by
loop invariants (P.A = L.U) `Some X -> A X = B`, `singular -> None`, `factorisation succeeded -> every right-hand side is
solved`.  The Qc instance of the model is executed (vm_compute) and compared with the real LUSolve, TinyMatrixSolve<1..8>
(vector and matrix right-hand sides), TinyMatrixInvert<1..6> and QRDecomp on rational matrices (pivot-forcing families
that move every row, the last one included).
Engine S: TinyMatrixSolve<1,2,3> (closed forms), the LU path and TinyMatrixInvert for N = 1,2,3 (every pivoting path),
TinyMatrixSolveBase<4>::back_substitute alone for every permutation (matrix and vector right-hand sides), QRDecomp
(Householder reflectors, N <= 3; full solve N <= 2) are traced from /repo and the Coq theorems re-checked on the
regenerated trees."""
import math, os, re
from concurrent.futures import ThreadPoolExecutor
from fractions import Fraction
from vlib import guarded_main

SUP = ["src/Exception/ContractViolation.cxx", "src/Math/LUException.cxx", "src/Math/MathException.cxx", "src/Exception/TFELException.cxx",
       "src/Math/QRException.cxx"]
DEFAULT_EPS = 100 * 2.2250738585072014e-308
KEY_INV = "invert:decomp-failure-ignored"
SOLVER = {"L": "LUSolve::exe", "T": "TinyMatrixSolve<N,double,false>::exe (tvector right-hand side)", "I": "TinyMatrixInvert<N,double>::exe",
          "M": "TinyMatrixSolve<N,double,false>::exe (tmatrix<N,2> right-hand side)", "Q": "QRDecomp::exe + tq_product + back_substitute"}
# families whose singularity is structural: the elimination is exact in binary64, the verdict must be `failure`
STRUCT_SING = {"L": ("zerocol", "zerorow", "blocksing"), "T": ("zerocol", "zerorow", "blocksing"), "I": ("zerocol", "zerorow", "blocksing"),
               "M": ("zerocol", "zerorow", "blocksing"), "Q": ("zerocol",)}
FAMILIES = ["int", "diagdom", "zerodiag", "hilbert", "zerocol", "zerorow", "blocksing", "dyadic", "permdom", "lastrow"]


def qz(fr):
    fr = Fraction(fr)
    return "(Qmake %s %d)" % ("%d" % fr.numerator if fr.numerator >= 0 else "(%d)" % fr.numerator, fr.denominator)


class Case:
    def __init__(self, cid, kind, n, a, b, eps, family):
        self.id, self.kind, self.n, self.a, self.b, self.eps, self.family = cid, kind, n, a, b, eps, family

    def line(self):
        return " ".join([self.id, self.kind, str(self.n)] + [float(x).hex() for x in self.a] + [float(x).hex() for x in self.b] + [float(self.eps).hex()])

    def rows(self):
        n = self.n
        return "[" + "; ".join("[" + "; ".join(qz(Fraction(float(self.a[n * i + j]))) for j in range(n)) + "]" for i in range(n)) + "]"

    def coq(self):
        n = self.n
        eps = qz(Fraction(float(self.eps)))
        if self.kind == "M":
            b = "[" + "; ".join("[" + "; ".join(qz(Fraction(float(self.b[2 * i + k]))) for k in range(2)) + "]" for i in range(n)) + "]"
            return "(run_mat %d%%nat 2%%nat %s %s %s)" % (n, eps, self.rows(), b)
        b = "[" + "; ".join(qz(Fraction(float(x))) for x in self.b) + "]"
        # the pivot tests of back_substitute (run_eps) cannot fire once the factorisation succeeded (theorem
        # C07_lu_general_total): run_eps = run_lus, one evaluation serves LUSolve, TinyMatrixSolve and the QR comparison
        f = {"I": "run_inv", "T": "run_eps", "L": "run_eps", "Q": "run_eps"}[self.kind]
        return "(%s %d%%nat %s %s %s)" % (f, n, eps, self.rows(), b)

    def json(self):
        return {"id": self.id, "solver": SOLVER[self.kind], "N": self.n, "A_row_major": [float(x) for x in self.a],
                "b" + ("_row_major_N_x_2" if self.kind == "M" else ""): [float(x) for x in self.b], "eps": float(self.eps),
                "family": self.family, "driver_line": self.line(), "how": "props/C07/driver.cxx <file containing driver_line>"}


def gen_matrix(rng, fam, n):
    a = [[float(rng.randint(-4, 4)) for _ in range(n)] for _ in range(n)]
    if fam == "diagdom":
        for i in range(n):
            a[i][i] = float(4 * n + rng.randint(1, 3)) * rng.choice([-1, 1])
    elif fam == "zerodiag":
        for i in range(n):
            a[i][i] = 0.0
    elif fam == "hilbert":
        if n > 5:
            return None
        a = [[1.0 / (i + j + 1) for j in range(n)] for i in range(n)]
    elif fam == "zerocol":
        k = rng.randrange(n)
        for i in range(n):
            a[i][k] = 0.0
    elif fam == "zerorow":
        k = rng.randrange(n)
        a[k] = [0.0] * n
    elif fam == "blocksing":
        if n < 2:
            return None
        a = [[0.0] * n for _ in range(n)]
        for i in range(n):
            a[i][i] = 1.0
        a[0][0], a[0][1], a[1][0], a[1][1] = 1.0, 2.0, 2.0, 4.0
    elif fam == "dyadic":
        a = [[rng.randint(-8, 8) / 4.0 for _ in range(n)] for _ in range(n)]
    elif fam in ("permdom", "lastrow"):
        # rows of a strongly diagonally dominant matrix in a random order: partial pivoting has to undo the shuffle, every
        # row moves; "lastrow": the shuffle moves the last row for sure (a cyclic shift)
        if n < 2:
            return None
        d = [[float(rng.randint(-3, 3)) for _ in range(n)] for _ in range(n)]
        for i in range(n):
            d[i][i] = float(40 * n + rng.randint(1, 9)) * rng.choice([-1, 1])
        if fam == "lastrow":
            s = rng.randrange(1, n)
            perm = [(i + s) % n for i in range(n)]
        else:
            perm = list(range(n))
            rng.shuffle(perm)
        a = [d[perm[i]] for i in range(n)]
    return a


def gen_cases(c):
    rng = c.rng
    cs = []
    # user eps above the default: the factorisation meets a pivot below eps (TinyMatrixInvert must raise)
    cs.append(Case("invw", "I", 3, [1, 0, 0, 0, 1e-20, 1, 0, 1e-20, 2], [0, 0, 0], 1e-10, "near-null pivot below the user eps"))
    cs.append(Case("invw2", "I", 3, [1, 0, 0, 0, 0.25, 1, 0, 0.25, 2], [0, 0, 0], 0.5, "well-conditioned matrix, pivot 0.25 below the user eps 0.5"))
    cs.append(Case("invw0", "I", 3, [1, 0, 0, 0, 1e-20, 1, 0, 1e-20, 2], [0, 0, 0], DEFAULT_EPS, "same matrix, default eps"))
    reps = c.pick(1, 3)
    t = 0
    for n in list(range(1, 9)) + c.pick([], [10, 12]):   # 10, 12: the run-time sized solvers only (LUSolve, QRDecomp)
        for rep in range(reps):
            for fam in FAMILIES:
                a = gen_matrix(rng, fam, n)
                if a is None:
                    continue
                b = [float(rng.randint(-5, 5)) for _ in range(n)]
                b2 = [float(rng.randint(-5, 5)) for _ in range(2 * n)]
                flat = [x for row in a for x in row]
                for kind in ("L", "T", "I", "M", "Q"):
                    if (kind == "I" and n > 6) or (n > 8 and kind not in ("L", "Q")):
                        continue
                    t += 1
                    cs.append(Case("c%d" % t, kind, n, flat, b2 if kind == "M" else b, DEFAULT_EPS, fam))
    return cs


def parse_coq(out):
    res = []
    for m in re.finditer(r"^\s+= (.*?)^\s+: ", out, flags=re.S | re.M):
        body = " ".join(m.group(1).split())
        for mm in re.finditer(r"\(\s*(true|false),\s*(true|false),\s*\[(.*?)\]\s*\)", body):
            xs = []
            if mm.group(3).strip():
                for it in mm.group(3).split(";"):
                    nu, de = it.strip().strip("()").split(",")
                    xs.append(Fraction(int(nu.strip()), int(de.strip())))
            res.append((mm.group(1) == "true", mm.group(2) == "true", xs))
    return res


def parse_perms(out):
    """lists of nat printed by `Eval vm_compute in [run_perm ...; ...]` (blocks of type list (list nat))"""
    res = []
    for m in re.finditer(r"^\s+= (.*?)^\s+: ([^\n]*)$", out, flags=re.S | re.M):
        if m.group(2).strip() != "list (list nat)":
            continue
        body = " ".join(m.group(1).split()).replace("%nat", "")
        for mm in re.finditer(r"\[([0-9; ]*)\]", body[1:-1]):
            res.append([int(x) for x in mm.group(1).split(";") if x.strip()])
    return res


def residual_ok(case, x):
    """independent statement: the returned doubles satisfy A x = b (resp. A X = B, A X = I) up to 1e-7 (||A|| ||x|| + ||b|| + 1);
    exact rational evaluation"""
    n = case.n
    A = [[Fraction(float(case.a[n * i + j])) for j in range(n)] for i in range(n)]
    if any(not math.isfinite(v) for v in x):
        return False, float("inf")
    nA = max(sum(abs(v) for v in row) for row in A)
    if case.kind in ("I", "M"):
        m = n if case.kind == "I" else 2
        if len(x) != n * m:
            return False, float("inf")
        X = [[Fraction(x[m * i + j]) for j in range(m)] for i in range(n)]
        B = [[Fraction(1 if i == j else 0) for j in range(n)] for i in range(n)] if case.kind == "I" else \
            [[Fraction(float(case.b[2 * i + k])) for k in range(2)] for i in range(n)]
        nX = max(sum(abs(v) for v in row) for row in X)
        nB = max(sum(abs(v) for v in row) for row in B)
        worst = Fraction(0)
        for i in range(n):
            for j in range(m):
                worst = max(worst, abs(sum(A[i][k] * X[k][j] for k in range(n)) - B[i][j]))
        return worst <= Fraction(1, 10 ** 7) * (nA * nX + nB + 1), float(worst)
    if len(x) != n:
        return False, float("inf")
    xs = [Fraction(v) for v in x]
    bs = [Fraction(float(v)) for v in case.b]
    worst = max(abs(sum(A[i][k] * xs[k] for k in range(n)) - bs[i]) for i in range(n))
    return worst <= Fraction(1, 10 ** 7) * (nA * max(abs(v) for v in xs) + max(abs(v) for v in bs) + 1), float(worst)


def run_model(c, calls, mcases):
    """the Qc instance of the proved model, vm_compute; calls = distinct model calls"""
    txt = ("From Coq Require Import ZArith QArith List.\nFrom C07 Require Import C07ModelQ.\nImport ListNotations.\nOpen Scope Z_scope.\n" +
           "".join("Eval vm_compute in [\n%s].\n" % ";\n".join(calls[j:j + 200]) for j in range(0, len(calls), 200)) +
           "Close Scope Z_scope.\n" +
           "".join("Eval vm_compute in [\n%s].\n" % ";\n".join("(run_perm %d%%nat %s %s)" % (cs.n, qz(Fraction(float(cs.eps))), cs.rows())
                                                                for cs in mcases[j:j + 200]) for j in range(0, len(mcases), 200)))
    return c.coq_eval(["C07Model.v", "C07ModelQ.v"], txt, timeout=c.pick(900, 3000))


FIRST_FAIL = {}   # solver kind -> (key, what, replay) of the first concrete failing input reported by compare()


def fail(c, kind, key, what, replay, found=True):
    if found and kind not in FIRST_FAIL:
        FIRST_FAIL[kind] = (key, what, replay)
    c.report(key, what, replay, found)


def compare(c, cases, obs, mres):
    nround = 0
    for cs, m in zip(cases, mres):
        ok, x = obs[cs.id]
        mok, mexact, mx = m
        c.count(1, cs.id, cs.n >= 2)
        if len(c.coverage["samples"]) < 8 and cs.n >= 4 and cs.kind in ("M", "Q") and ok and cs.family in ("permdom", "lastrow", "int"):
            c.sample({"case": cs.id, "solver": cs.kind, "N": cs.n, "family": cs.family, "x": x[:4], "model_x": [str(v) for v in mx[:4]]})
        if not mexact:
            c.report("model:" + cs.id, "the exact-rational model returned a solution that does not satisfy A x = b (model defect; contradicts the Coq theorem)", cs.json(), False)
        structural = cs.family in STRUCT_SING[cs.kind]
        if ok and not mok and not structural and not (cs.kind == "I" and cs.eps > DEFAULT_EPS):
            # exactly singular by chance, elimination inexact in binary64: the tiny non-null pivot is an effect of rounding (out of scope)
            nround += 1
            continue
        # independent property on the real code
        if ok:
            good, worst = residual_ok(cs, x)
            if not good:
                if cs.kind == "I" and cs.eps > DEFAULT_EPS and not mok:
                    key = KEY_INV
                else:
                    key = "residual:%s:%s:%d:%s" % (cs.kind, cs.family, cs.n, cs.id)
                fail(c, cs.kind, key, "%s on a %dx%d matrix (%s) returned without reporting failure a result whose residual is %.3g: A=%s b=%s eps=%g -> %s" % (
                    SOLVER[cs.kind], cs.n, cs.n, cs.family, worst, cs.json()["A_row_major"], [float(v) for v in cs.b], cs.eps, x), cs.json(), True)
        # correspondence with the model: verdict, and solution within tolerance
        if ok != mok:
            if cs.kind == "I" and cs.eps > DEFAULT_EPS and not mok and ok:
                fail(c, cs.kind, KEY_INV, "TinyMatrixInvert<%d>::exe(A, eps=%g) returned normally although the factorisation met a pivot below eps (exact model: failure): A=%s -> %s" % (
                    cs.n, cs.eps, cs.json()["A_row_major"], x), cs.json(), True)
                continue
            if cs.kind == "Q" and not ok and mok:
                pass  # QR refused a regular matrix: reported below as a verdict difference
            fail(c, cs.kind, "verdict:%s:%s:%d:%s" % (cs.kind, cs.family, cs.n, cs.id), "verdict differs: real code %s, exact model %s on A=%s b=%s (%s, N=%d, %s)" % (
                "success" if ok else "failure", "success" if mok else "failure (exactly null pivot)", cs.json()["A_row_major"], [float(v) for v in cs.b],
                SOLVER[cs.kind], cs.n, cs.family), cs.json(), not mok)
        elif ok:
            tol = 1e-6 if cs.family == "hilbert" else 1e-9
            if cs.kind == "Q":
                tol *= 10
            scale = max([1] + [abs(v) for v in mx])
            if len(x) != len(mx) or any(abs(Fraction(xv) - mv) > tol * scale for xv, mv in zip(x, mx)):
                fail(c, cs.kind, "solution:%s:%s:%d:%s" % (cs.kind, cs.family, cs.n, cs.id), "%s: solution differs from the exact one (model on Qc): %s vs %s; A=%s b=%s" % (
                    SOLVER[cs.kind], x, [float(v) for v in mx], cs.json()["A_row_major"], [float(v) for v in cs.b]), cs.json(), True)
    if nround:
        c.notes.append("%d cases skipped: exactly singular matrix (by chance, or zero row / singular block given to QR) whose reduction is inexact in binary64: the real code met a tiny non-null pivot (rounding; out of scope)" % nround)


def main(c):
    wd = os.path.join(c.work, "coq")
    os.makedirs(wd, exist_ok=True)
    # ---------------- engine S: decision trees regenerated from /repo
    tracer = c.cxx("trace", ["trace.cxx"], SUP)
    gen = os.path.join(wd, "C07_gen.v")
    genbs = os.path.join(wd, "C07_genbs.v")
    genqr = os.path.join(wd, "C07_genqr.v")
    rc, out, err = c.run([tracer, "gen", gen, str(c.seed)])
    if rc != 0:
        c.report("trace", "tracer failed on /repo's solvers: " + err[-500:], {"stderr": err[-3000:]}, False)
        return
    for l in out.splitlines():
        if l.startswith("AGREE-FAIL"):
            c.report("agree:" + l[:60], "traced decision tree and double instantiation disagree: " + l, {"line": l}, True)
        elif l.startswith("AGREE "):
            c.count(int(re.search(r"cases=(\d+)", l).group(1)))
    c.notes.append("leaves: " + " ".join("%s=%s" % tuple(l.split()[1:3]) for l in out.splitlines() if l.startswith("LEAVES") and "_" not in l.split()[1]))
    c.trusted("engine S tracer (cxx/sym/sym.hxx path oracle + printer), g++ template instantiation of TinyMatrixSolve / LUDecomp / TinyMatrixInvert / QRDecomp with Sym",
              "agreement Sym tree vs double instantiation on 400 (100 for the per-permutation back substitutions) seeded inputs per traced function (integers with ties/null pivots and reals), tolerance 1e-7 relative")
    # ---------------- the real code on rational matrices
    exe = c.cxx("driver", ["driver.cxx"], SUP)
    cases = gen_cases(c)
    inp = os.path.join(c.work, "cases.txt")
    with open(inp, "w") as f:
        f.write("\n".join(cs.line() for cs in cases) + "\n")
    rc, out, err = c.run([exe, inp], timeout=600)
    if rc != 0:
        c.report("run", "driver failed (rc=%d): %s" % (rc, err[-500:]), {"stderr": err[-3000:]}, False)
        return
    obs = {}
    for l in out.splitlines():
        t = l.split()
        if t and t[0] == "R":
            obs[t[1]] = (t[2] == "1", [float("nan") if u == "nan" else float.fromhex(u) for u in t[4:]])
    if len(obs) != len(cases):
        c.report("run", "driver printed %d results for %d cases" % (len(obs), len(cases)), {}, False)
        return
    mcases = [cs for cs in cases if cs.kind == "M" and cs.n >= 4]
    calls = sorted(set(cs.coq() for cs in cases))
    # ---------------- Coq, 4 jobs at a time: prerequisites (spec, tactics, regenerated trees), then the proof groups; the model
    # run (vm_compute on the Qc instance) followed by the general-N proofs goes on in parallel
    results = []

    def coq(files, timeout=1500):
        r = c.coq(files, timeout)
        results.append((files, r))
        return r

    jobs = [["C07ProofsInv.v", "Properties_C07Inv.v"],
            ["C07ProofsQR.v", "Properties_C07QR.v"],
            ["C07Proofs.v", "Properties_C07.v"],
            ["C07ProofsBSa.v", "Properties_C07BS.v"]]
    if not c.quick():
        jobs.append(["C07ProofsBSb.v", "Properties_C07BSb.v"])
        jobs.append(["C07ProofsBSv.v", "Properties_C07BSv.v"])
    c.log("tracer and driver ran on %d cases; Coq (regenerated trees, model run, proof groups)" % len(cases))
    with ThreadPoolExecutor(max_workers=4) as ex:
        fa = [ex.submit(coq, ["C07Spec.v", "C07Tactics.v"]), ex.submit(coq, [gen]), ex.submit(coq, [genbs]), ex.submit(coq, [genqr])]

        def model_job():
            r = coq(["C07Model.v", "C07ModelQ.v"])
            m = run_model(c, calls, mcases) if r.ok else None
            c.log("model run done")
            if r.ok and fa[0].result().ok:
                coq(["C07LU.v", "C07Inst.v", "Properties_C07LU.v"])
            return m

        fm = ex.submit(model_job)
        okA = all(f.result().ok for f in fa)
        if okA:
            fb = [ex.submit(coq, j) for j in jobs]
            okB = [f.result().ok for f in fb]
        mrun = fm.result()
    if mrun is not None:
        rc, mout, err = mrun
        if rc != 0:
            c.report("model-run", "model evaluation failed: " + err[-600:], {"stderr": err[-3000:]}, False)
        else:
            try:
                ures = parse_coq(mout)
                perms = parse_perms(mout)
            except (ValueError, IndexError) as e:  # never an exception of the harness: reported as a broken model run
                c.notes.append("unparsable model output: %r" % (e,))
                ures, perms = [], []
            if len(ures) != len(calls) or len(perms) != len(mcases):
                c.report("model-run", "model printed %d results / %d permutations for %d / %d calls" % (len(ures), len(perms), len(calls), len(mcases)),
                         {"stdout": mout[-1500:]}, False)
            else:
                bycall = dict(zip(calls, ures))
                mres = [bycall[cs.coq()] for cs in cases]
                c.log("real code and exact-rational model ran on %d cases" % len(cases))
                compare(c, cases, obs, mres)
                moved = [cs for cs, p in zip(mcases, perms) if p and p[-1] != cs.n - 1]
                c.coverage["matrix_rhs_N_ge_4_cases"] = len(mcases)
                c.coverage["matrix_rhs_N_ge_4_last_row_moved"] = len(moved)
                c.coverage["traces_validated_against_impl"] = len(cases)
                if len(moved) < 5:  # the family `lastrow` alone gives one per size 4..8
                    c.report("coverage:last-row", "only %d matrix right-hand side cases with N >= 4 have a factorisation that moves the last row (harness defect)" % len(moved), {}, False)
    c.coverage["rule"] = ("sizes 1..8 (thorough: also 10, 12 for LUSolve and QRDecomp) x families {random small integers, diagonally dominant, zero diagonal (pivoting forced), Hilbert (N<=5), zero column, zero row, "
                          "embedded singular 2x2 block, dyadic, shuffled diagonally dominant rows (every row moves), cyclically shifted rows (last row moves)} x "
                          "{LUSolve, TinyMatrixSolve<N> vector rhs, TinyMatrixSolve<N> tmatrix<N,2> rhs, TinyMatrixInvert<N<=6>, QRDecomp}; verdict and solution compared "
                          "with the Qc instance of the proved Gallina model; residual of the returned doubles evaluated exactly; non-trivial = N >= 2")
    c.trusted("hand-written Gallina model coq/C07Model.v of LUDecomp + back substitution + TinyMatrixInvert (proved correct for every N in C07LU.v), tied to the C++ by execution on rational matrices only",
              "driver props/C07/driver.cxx, Python differ and exact residual evaluation (fractions)")
    # obligations of property files that were not reached because a proof file broke before
    for files, r in results:
        reached = [x[0] for x in r.files]
        for fn in files:
            if os.path.basename(fn).startswith("Properties") and os.path.basename(fn) not in reached:
                txt = open(os.path.join(c.dir, "coq", fn)).read()
                c.coverage["obligations"] += len(re.findall(r"^Theorem ", txt, flags=re.M))
    broken = [(fs, r) for fs, r in results if not r.ok]
    if broken:
        if any(v[3] for v in c.violations):
            c.notes.append("proof obligations failed: %s; concrete failing inputs reported above" % [f[:3] for _, r in broken for f in r.failed])
        kinds_of = {"C07ProofsBSa.v": "M", "C07ProofsBSb.v": "M", "Properties_C07BS.v": "M", "Properties_C07BSb.v": "M", "C07ProofsBSv.v": "TL", "Properties_C07BSv.v": "TL",
                    "C07ProofsInv.v": "I", "Properties_C07Inv.v": "I", "C07ProofsQR.v": "Q", "Properties_C07QR.v": "Q",
                    "C07Proofs.v": "TML", "Properties_C07.v": "TML", "C07_gen.v": "TMLI", "C07_genbs.v": "MTL", "C07_genqr.v": "Q"}

        def search(failure):
            # the concrete failing input of the broken obligation: the first input on which the real solver concerned by the
            # obligation violated the independent statement (exact residual / verdict / exact solution) in this run
            f, line, thm, msg = failure
            for k in kinds_of.get(f, "MTLIQ"):
                if k in FIRST_FAIL:
                    key, what, replay = FIRST_FAIL[k]
                    return ("coq:%s:%s" % (f, thm or line), "proof obligation %s in %s no longer checks; concrete failing input: %s" % (thm or "?", f, what),
                            dict(replay, broken_obligation={"file": f, "theorem": thm, "message": msg[-1500:]}))
            return None

        for _, r in broken:
            c.coq_failures(r, search)
    c.assumptions.append("theorems are over exact fields (reals / rationals: no rounding); eps > 0; Some/None = returned true / reported failure (false or exception)")


guarded_main("C07", main)

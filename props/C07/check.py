"""C07 -- dense linear solvers return true solutions or report failure.
Engine S: TinyMatrixSolve<1,2,3> (vector and matrix right-hand sides, Cramer closed forms) and the LU path
(LUDecomp::exe with partial pivoting + TinyMatrixSolveBase::back_substitute) for N = 1,2,3 are traced with path
enumeration over the pivot / eps tests; Coq proves `returned true => A x = b` on every path and `det = 0 => failure`
for the closed forms.  Engine H: a Gallina model of LUDecomp + back substitution for every N, executed on exact
rationals, is compared with the real LUSolve / TinyMatrixSolve<1..8> / TinyMatrixInvert<1..6> on rational matrices."""
import math, os, re
from fractions import Fraction
from vlib import guarded_main

SUP = ["src/Exception/ContractViolation.cxx", "src/Math/LUException.cxx", "src/Math/MathException.cxx", "src/Exception/TFELException.cxx"]
DEFAULT_EPS = 100 * 2.2250738585072014e-308
KEY_INV = "invert:decomp-failure-ignored"


def qz(fr):
    fr = Fraction(fr)
    if fr.denominator == 1:
        return "%d" % fr.numerator if fr.numerator >= 0 else "(%d)" % fr.numerator
    return "(%d # %d)" % (fr.numerator, fr.denominator)


class Case:
    def __init__(self, cid, kind, n, a, b, eps, family, strict_verdict=True):
        self.id, self.kind, self.n, self.a, self.b, self.eps, self.family, self.strict = cid, kind, n, a, b, eps, family, strict_verdict

    def line(self):
        return " ".join([self.id, self.kind, str(self.n)] + [float(x).hex() for x in self.a] + [float(x).hex() for x in self.b] + [float(self.eps).hex()])

    def coq(self):
        n = self.n
        rows = "[" + "; ".join("[" + "; ".join(qz(Fraction(float(self.a[n * i + j]))) for j in range(n)) + "]" for i in range(n)) + "]"
        b = "[" + "; ".join(qz(Fraction(float(x))) for x in self.b) + "]"
        f = "run_inv" if self.kind == "I" else "run_eps"
        return "(%s %d%%nat %s %s %s)" % (f, n, qz(Fraction(float(self.eps))), rows, b)

    def json(self):
        return {"id": self.id, "solver": {"L": "LUSolve::exe", "T": "TinyMatrixSolve<N,double,false>::exe", "I": "TinyMatrixInvert<N,double>::exe"}[self.kind],
                "N": self.n, "A_row_major": [float(x) for x in self.a], "b": [float(x) for x in self.b], "eps": float(self.eps),
                "family": self.family, "driver_line": self.line(), "how": "props/C07/driver.cxx <file containing driver_line>"}


def gen_cases(c):
    rng = c.rng
    cs = []
    # the witness of the TinyMatrixInvert defect (user eps above the default)
    cs.append(Case("invw", "I", 3, [1, 0, 0, 0, 1e-20, 1, 0, 1e-20, 2], [0, 0, 0], 1e-10, "near-null pivot below the user eps"))
    cs.append(Case("invw2", "I", 3, [1, 0, 0, 0, 0.25, 1, 0, 0.25, 2], [0, 0, 0], 0.5, "well-conditioned matrix, pivot 0.25 below the user eps 0.5"))
    cs.append(Case("invw0", "I", 3, [1, 0, 0, 0, 1e-20, 1, 0, 1e-20, 2], [0, 0, 0], DEFAULT_EPS, "same matrix, default eps"))
    per = c.pick(6, 40)
    t = 0
    for n in range(1, 9):
        for rep in range(per):
            fam = ["int", "diagdom", "zerodiag", "hilbert", "zerocol", "zerorow", "blocksing", "dyadic"][rep % 8]
            a = [[float(rng.randint(-4, 4)) for _ in range(n)] for _ in range(n)]
            strict = True
            if fam == "diagdom":
                for i in range(n):
                    a[i][i] = float(4 * n + rng.randint(1, 3)) * rng.choice([-1, 1])
            elif fam == "zerodiag":
                for i in range(n):
                    a[i][i] = 0.0
            elif fam == "hilbert":
                if n > 5:
                    continue
                a = [[1.0 / (i + j + 1) for j in range(n)] for i in range(n)]
            elif fam == "zerocol":
                k = rng.randrange(n)
                for i in range(n):
                    a[i][k] = 0.0
            elif fam == "zerorow":
                k = rng.randrange(n)
                a[k] = [0.0] * n
            elif fam == "blocksing":
                if n < 2:
                    continue
                a = [[0.0] * n for _ in range(n)]
                for i in range(n):
                    a[i][i] = 1.0
                a[0][0], a[0][1], a[1][0], a[1][1] = 1.0, 2.0, 2.0, 4.0
            elif fam == "dyadic":
                a = [[rng.randint(-8, 8) / 4.0 for _ in range(n)] for _ in range(n)]
            b = [float(rng.randint(-5, 5)) for _ in range(n)]
            flat = [x for row in a for x in row]
            for kind in ("L", "T", "I"):
                if kind == "I" and n > 6:
                    continue
                t += 1
                cs.append(Case("c%d" % t, kind, n, flat, b, DEFAULT_EPS, fam, strict))
    return cs


def parse_term(txt):
    toks = re.findall(r"[\[\]();,]|[^\s\[\]();,]+", txt)
    pos = [0]

    def term():
        t = toks[pos[0]]
        pos[0] += 1
        if t == "[" or t == "(":
            close = "]" if t == "[" else ")"
            items = []
            while toks[pos[0]] != close:
                items.append(term())
                if toks[pos[0]] in (";", ","):
                    pos[0] += 1
            pos[0] += 1
            return items if t == "[" else tuple(items)
        return t
    return term()


def parse_q(txt):
    """'3', '-3', '1 # 2' sequences inside a printed list of Q: items separated by ';' (parse_term splits on spaces)"""
    return txt


def parse_coq(out):
    res = []
    for m in re.finditer(r"^\s+= (.*?)^\s+: ", out, flags=re.S | re.M):
        body = " ".join(m.group(1).split())
        for mm in re.finditer(r"\(\s*(true|false),\s*(true|false),\s*\[(.*?)\]\s*\)", body):
            xs = []
            if mm.group(3).strip():
                for it in mm.group(3).split(";"):
                    it = it.strip()
                    if "#" in it:
                        nu, de = it.split("#")
                        xs.append(Fraction(int(nu.strip()), int(de.strip())))
                    else:
                        xs.append(Fraction(int(it)))
            res.append((mm.group(1) == "true", mm.group(2) == "true", xs))
    return res


def residual_ok(case, x):
    """independent statement: the returned doubles satisfy A x = b (resp. A X = I) up to 1e-9 (||A|| ||x|| + ||b||); exact rational evaluation"""
    n = case.n
    A = [[Fraction(float(case.a[n * i + j])) for j in range(n)] for i in range(n)]
    if any(not math.isfinite(v) for v in x):
        return False, float("inf")
    nA = max(sum(abs(v) for v in row) for row in A)
    if case.kind == "I":
        X = [[Fraction(x[n * i + j]) for j in range(n)] for i in range(n)]
        nX = max(sum(abs(v) for v in row) for row in X)
        worst = Fraction(0)
        for i in range(n):
            for j in range(n):
                r = sum(A[i][k] * X[k][j] for k in range(n)) - (1 if i == j else 0)
                worst = max(worst, abs(r))
        return worst <= Fraction(1, 10 ** 7) * (nA * nX + 1), float(worst)
    xs = [Fraction(v) for v in x]
    bs = [Fraction(float(v)) for v in case.b]
    worst = max(abs(sum(A[i][k] * xs[k] for k in range(n)) - bs[i]) for i in range(n))
    return worst <= Fraction(1, 10 ** 7) * (nA * max(abs(v) for v in xs) + max(abs(v) for v in bs) + 1), float(worst)


def main(c):
    # ---------------- engine S
    tracer = c.cxx("trace", ["trace.cxx"], SUP)
    gen = os.path.join(c.work, "coq", "C07_gen.v")
    os.makedirs(os.path.dirname(gen), exist_ok=True)
    rc, out, err = c.run([tracer, "gen", gen, str(c.seed)])
    if rc != 0:
        c.report("trace", "tracer failed on /repo's solvers: " + err[-500:], {"stderr": err[-3000:]}, False)
        return
    for l in out.splitlines():
        if l.startswith("AGREE-FAIL"):
            c.report("agree:" + l[:60], "traced decision tree and double instantiation disagree: " + l, {"line": l}, True)
        elif l.startswith("AGREE "):
            c.count(int(re.search(r"cases=(\d+)", l).group(1)))
        elif l.startswith("LEAVES"):
            c.notes.append(l)
    c.trusted("engine S tracer (cxx/sym/sym.hxx path oracle + printer), g++ template instantiation of TinyMatrixSolve / LUDecomp with Sym",
              "agreement Sym tree vs double instantiation on 400 seeded inputs per traced function (integers with ties/null pivots and reals), tolerance 1e-7 relative")
    # ---------------- engine H + execution of the real code
    exe = c.cxx("driver", ["driver.cxx"], SUP)
    cases = gen_cases(c)
    inp = os.path.join(c.work, "cases.txt")
    with open(inp, "w") as f:
        f.write("\n".join(cs.line() for cs in cases) + "\n")
    rc, out, err = c.run([exe, inp], timeout=600)
    if rc != 0:
        c.report("run", "driver failed (rc=%d): %s" % (rc, err[-500:]), {"stderr": err[-3000:]}, False)
        return
    obs = {}
    for l in out.splitlines():
        t = l.split()
        if t and t[0] == "R":
            obs[t[1]] = (t[2] == "1", [float("nan") if u == "nan" else float.fromhex(u) for u in t[4:]])
    if len(obs) != len(cases):
        c.report("run", "driver printed %d results for %d cases" % (len(obs), len(cases)), {}, False)
        return
    txt = ("From Coq Require Import QArith List.\nFrom C07 Require Import C07Model.\nImport ListNotations.\nOpen Scope Q_scope.\n" +
           "".join("Eval vm_compute in [\n%s].\n" % ";\n".join(cs.coq() for cs in cases[j:j + 200]) for j in range(0, len(cases), 200)))
    rc, mout, err = c.coq_eval(["C07Model.v"], txt, timeout=240)
    if rc != 0:
        c.report("model-run", "model evaluation failed: " + err[-600:], {"stderr": err[-3000:]}, False)
        return
    mres = parse_coq(mout)
    if len(mres) != len(cases):
        c.report("model-run", "model printed %d results for %d cases" % (len(mres), len(cases)), {"stdout": mout[-1500:]}, False)
        return
    c.log("real code and exact-rational model ran on %d cases" % len(cases))
    nmis = 0
    for cs, m in zip(cases, mres):
        ok, x = obs[cs.id]
        mok, mexact, mx = m
        c.count(1, cs.id, cs.n >= 2)
        if len(c.coverage["samples"]) < 8 and cs.n >= 3 and cs.kind != "I" and ok:
            c.sample({"case": cs.id, "solver": cs.kind, "N": cs.n, "family": cs.family, "x": x[:4], "model_x": [str(v) for v in mx[:4]]})
        if not mexact:
            c.report("model:" + cs.id, "the exact-rational model returned a solution that does not satisfy A x = b (model defect)", cs.json(), False)
        # independent property on the real code
        if ok:
            good, worst = residual_ok(cs, x)
            if not good:
                if cs.kind == "I" and cs.eps > DEFAULT_EPS and not mok:
                    key = KEY_INV
                else:
                    key = "residual:%s:%s:%d:%s" % (cs.kind, cs.family, cs.n, cs.id)
                c.report(key, "%s on a %dx%d matrix (%s) returned without reporting failure a result whose residual is %.3g: A=%s b=%s eps=%g -> %s" % (
                    cs.json()["solver"], cs.n, cs.n, cs.family, worst, cs.json()["A_row_major"], cs.json()["b"], cs.eps, x), cs.json(), True)
        # correspondence with the model: verdict, and solution within tolerance
        if ok != mok:
            if cs.kind == "I" and cs.eps > DEFAULT_EPS and not mok and ok:
                # decomp reported a pivot below the user eps but TinyMatrixInvert went on with the half-finished factorisation
                c.report(KEY_INV, "TinyMatrixInvert<%d>::exe(A, eps=%g) returned normally although the factorisation met a pivot below eps (exact model: failure): A=%s -> %s" % (
                    cs.n, cs.eps, cs.json()["A_row_major"], x), cs.json(), True)
                continue
            nmis += 1
            c.report("verdict:%s:%s:%d:%s" % (cs.kind, cs.family, cs.n, cs.id), "verdict differs: real code %s, exact model %s on A=%s b=%s (%s, N=%d, %s)" % (
                "success" if ok else "failure", "success" if mok else "failure (exactly null pivot)", cs.json()["A_row_major"], cs.json()["b"], cs.json()["solver"], cs.n, cs.family),
                cs.json(), not mok)
        elif ok and cs.kind != "I":
            tol = 1e-6 if cs.family == "hilbert" else 1e-9
            if any(abs(Fraction(xv) - mv) > tol * max(1, abs(mv)) for xv, mv in zip(x, mx)) or len(x) != len(mx):
                nmis += 1
                c.report("solution:%s:%s:%d:%s" % (cs.kind, cs.family, cs.n, cs.id), "solution differs from the exact model: %s vs %s" % (x, [float(v) for v in mx]), cs.json(), True)
    c.coverage["traces_validated_against_impl"] = len(cases)
    c.coverage["rule"] = ("sizes 1..8 x families {random small integers, diagonally dominant, zero diagonal (pivoting forced), Hilbert (N<=5), zero column, zero row, "
                          "embedded singular 2x2 block, dyadic} x {LUSolve, TinyMatrixSolve<N>, TinyMatrixInvert<N<=6>}; verdict and solution compared with the Gallina model "
                          "run on exact rationals; residual of the returned doubles evaluated exactly; non-trivial = N >= 2")
    c.trusted("hand-written Gallina model coq/C07Model.v of LUDecomp + back substitution (general N), tied to the code by execution on rational matrices only (no theorem for general N)",
              "driver props/C07/driver.cxx, Python differ and exact residual evaluation (fractions)")
    res = c.coq([gen, "C07Spec.v", "C07Proofs.v", "Properties_C07.v"], timeout=900)
    if not res.ok:
        if any(v[3] for v in c.violations):
            c.notes.append("proof obligations failed: %s; concrete failing inputs reported above" % [f[2] for f in res.failed])
        c.coq_failures(res)
    c.assumptions.append("theorems are over the reals (no rounding); eps > 0; Some/None = returned true / reported failure; QR decomposition is not covered")


guarded_main("C07", main)

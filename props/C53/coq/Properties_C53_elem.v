(* C53 -- property theorems, part 2 (statements only; proofs are in C53ProofsB.v; real numbers only): one element --
   geometry, Gauss rules (the exact ones, and the constants read from the compiled code at this run), tangent, patch test. *)
From Coq Require Import ZArith QArith Reals List.
From C53 Require Import C53SpecFE C53Model C53_gen C53ProofsB.
Import ListNotations.
Local Open Scope R_scope.

(* the isoparametric map of an element with the equally spaced nodes the code builds is affine, its jacobian dr/2 *)
Theorem C53_isoparametric_geometry : forall r0 dr x,
  (interp RNum (lin_elem RNum) (elem_radii RNum (lin_elem RNum) r0 dr) x = r0 + dr * (x + 1) / 2 /\
   dinterp RNum (lin_elem RNum) (elem_radii RNum (lin_elem RNum) r0 dr) x = dr / 2) /\
  (interp RNum (quad_elem RNum) (elem_radii RNum (quad_elem RNum) r0 dr) x = r0 + dr * (x + 1) / 2 /\
   dinterp RNum (quad_elem RNum) (elem_radii RNum (quad_elem RNum) r0 dr) x = dr / 2) /\
  (interp RNum (cub_elem RNum) (elem_radii RNum (cub_elem RNum) r0 dr) x = r0 + dr * (x + 1) / 2 /\
   dinterp RNum (cub_elem RNum) (elem_radii RNum (cub_elem RNum) r0 dr) x = dr / 2).
Proof. intros r0 dr x. exact (conj (lin_geom r0 dr x) (conj (quad_geom r0 dr x) (cub_geom r0 dr x))). Qed.
Print Assumptions C53_isoparametric_geometry.

(* 3. Gauss rules: exactness degree 2n-1 (sharp for the 2-point rule) of the exact rules; the rules that the compiled
      code of THIS run uses (C53_gen.v: the doubles pg_radii/wg of the three element headers, as exact rationals,
      regenerated at every run) are exact to the same degrees within 1e-15 (1e-14 for the decimal 4-point rule) *)
Theorem C53_gauss_linear : exact_to_degree lin_gps_R 3 /\ ~ exact_to_degree lin_gps_R 4.
Proof. exact (conj lin_gauss lin_gauss_sharp). Qed.
Print Assumptions C53_gauss_linear.

Theorem C53_gauss_quadratic : exact_to_degree quad_gps_R 5.
Proof. exact quad_gauss. Qed.
Print Assumptions C53_gauss_quadratic.

Theorem C53_gauss_cubic_decimal : exact_to_degree_within (gen_cub_gps RNum) 7 (1 / 10 ^ 14).
Proof. exact cub_gauss. Qed.
Print Assumptions C53_gauss_cubic_decimal.

Theorem C53_gauss_rules_of_the_compiled_code :
  exact_to_degree_within (gen_lin_gps RNum) 3 (1 / 10 ^ 15) /\ exact_to_degree_within (gen_quad_gps RNum) 5 (1 / 10 ^ 15).
Proof. exact (conj gen_lin_gauss gen_quad_gauss). Qed.
Print Assumptions C53_gauss_rules_of_the_compiled_code.

(* 4. the stiffness block assembled at a Gauss point is the tangent of the inner forces of that Gauss point
      (any 3x3 tangent K, any nodal radii with non-vanishing jacobian and radius) *)
Theorem C53_tangent_consistency_linear : forall K0 K1 K2 K3 K4 K5 K6 K7 K8 r0 r1 u0 u1 ezz twopi x w,
  let K := [K0;K1;K2;K3;K4;K5;K6;K7;K8] in let rs := [r0;r1] in
  dinterp RNum (lin_elem RNum) rs x <> 0 -> interp RNum (lin_elem RNum) rs x <> 0 ->
  gp_forces RNum (lin_elem RNum) false K rs [u0;u1] ezz twopi (x, w)
  = mvec RNum (gp_stiffness RNum (lin_elem RNum) false K rs twopi (x, w)) [u0;u1;ezz].
Proof. exact lin_tangent. Qed.
Print Assumptions C53_tangent_consistency_linear.

Theorem C53_tangent_consistency_quadratic : forall K0 K1 K2 K3 K4 K5 K6 K7 K8 r0 r1 r2 u0 u1 u2 ezz twopi x w,
  let K := [K0;K1;K2;K3;K4;K5;K6;K7;K8] in let rs := [r0;r1;r2] in
  dinterp RNum (quad_elem RNum) rs x <> 0 -> interp RNum (quad_elem RNum) rs x <> 0 ->
  gp_forces RNum (quad_elem RNum) false K rs [u0;u1;u2] ezz twopi (x, w)
  = mvec RNum (gp_stiffness RNum (quad_elem RNum) false K rs twopi (x, w)) [u0;u1;u2;ezz].
Proof. exact quad_tangent. Qed.
Print Assumptions C53_tangent_consistency_quadratic.

Theorem C53_tangent_consistency_cubic : forall K0 K1 K2 K3 K4 K5 K6 K7 K8 r0 r1 r2 r3 u0 u1 u2 u3 ezz twopi x w,
  let K := [K0;K1;K2;K3;K4;K5;K6;K7;K8] in let rs := [r0;r1;r2;r3] in
  dinterp RNum (cub_elem RNum) rs x <> 0 -> interp RNum (cub_elem RNum) rs x <> 0 ->
  gp_forces RNum (cub_elem RNum) false K rs [u0;u1;u2;u3] ezz twopi (x, w)
  = mvec RNum (gp_stiffness RNum (cub_elem RNum) false K rs twopi (x, w)) [u0;u1;u2;u3;ezz].
Proof. exact cub_tangent. Qed.
Print Assumptions C53_tangent_consistency_cubic.

(* 5. patch test: under a uniform stress (s, z, s) the assembled inner forces of an element are the exact boundary
      terms 2 pi s (-r0, 0, .., r0+dr) and the exact axial resultant, for every quadrature rule that integrates
      polynomials up to the element's degree *)
Theorem C53_patch_test_linear : forall x0 w0 x1 w1, w0 + w1 = 2 -> w0 * x0 + w1 * x1 = 0 ->
  forall r0 dr s z twopi, dr <> 0 ->
  elem_forces_of_stress RNum (lin_elem RNum) false [(x0, w0); (x1, w1)] (elem_radii RNum (lin_elem RNum) r0 dr) twopi (s, z, s)
  = [twopi * s * (- r0); twopi * s * (r0 + dr); twopi * z * (r0 * dr + dr * dr / 2)].
Proof. exact lin_patch. Qed.
Print Assumptions C53_patch_test_linear.

Theorem C53_patch_test_quadratic : forall x0 w0 x1 w1 x2 w2, w0 + w1 + w2 = 2 -> w0 * x0 + w1 * x1 + w2 * x2 = 0 ->
  w0 * (x0 * x0) + w1 * (x1 * x1) + w2 * (x2 * x2) = 2 / 3 ->
  forall r0 dr s z twopi, dr <> 0 ->
  elem_forces_of_stress RNum (quad_elem RNum) false [(x0, w0); (x1, w1); (x2, w2)] (elem_radii RNum (quad_elem RNum) r0 dr) twopi (s, z, s)
  = [twopi * s * (- r0); 0; twopi * s * (r0 + dr); twopi * z * (r0 * dr + dr * dr / 2)].
Proof. exact quad_patch. Qed.
Print Assumptions C53_patch_test_quadratic.

Theorem C53_patch_test_cubic : forall x0 w0 x1 w1 x2 w2 x3 w3,
  w0 + w1 + w2 + w3 = 2 -> w0 * x0 + w1 * x1 + w2 * x2 + w3 * x3 = 0 ->
  w0 * (x0 * x0) + w1 * (x1 * x1) + w2 * (x2 * x2) + w3 * (x3 * x3) = 2 / 3 ->
  w0 * (x0 * x0 * x0) + w1 * (x1 * x1 * x1) + w2 * (x2 * x2 * x2) + w3 * (x3 * x3 * x3) = 0 ->
  forall r0 dr s z twopi, dr <> 0 ->
  elem_forces_of_stress RNum (cub_elem RNum) false [(x0, w0); (x1, w1); (x2, w2); (x3, w3)]
    (elem_radii RNum (cub_elem RNum) r0 dr) twopi (s, z, s)
  = [twopi * s * (- r0); 0; 0; twopi * s * (r0 + dr); twopi * z * (r0 * dr + dr * dr / 2)].
Proof. exact cub_patch. Qed.
Print Assumptions C53_patch_test_cubic.

(* with the 4-point rule read from the compiled code (C53_gen.v): same form, coefficients within 1e-14 of the exact ones *)
Theorem C53_patch_test_cubic_decimal :
  (forall r0 dr s z twopi, dr <> 0 ->
    elem_forces_of_stress RNum (cub_elem RNum) false (gen_cub_gps RNum) (elem_radii RNum (cub_elem RNum) r0 dr) twopi (s, z, s)
    = [twopi * s * (r0 * cub_alpha 0 + dr * cub_beta 0); twopi * s * (r0 * cub_alpha 1 + dr * cub_beta 1);
       twopi * s * (r0 * cub_alpha 2 + dr * cub_beta 2); twopi * s * (r0 * cub_alpha 3 + dr * cub_beta 3);
       twopi * z * (dr / 2) * (r0 * cub_gamma + dr / 2 * (cub_gamma + cub_delta))]) /\
  (let e := 1 / 10 ^ 14 in
   Rabs (cub_alpha 0 - -1) <= e /\ Rabs (cub_alpha 1) <= e /\ Rabs (cub_alpha 2) <= e /\ Rabs (cub_alpha 3 - 1) <= e /\
   Rabs (cub_beta 0) <= e /\ Rabs (cub_beta 1) <= e /\ Rabs (cub_beta 2) <= e /\ Rabs (cub_beta 3 - 1) <= e /\
   Rabs (cub_gamma - 2) <= e /\ Rabs cub_delta <= e).
Proof. exact (conj cub_patch_decimal_form cub_patch_decimal_bounds). Qed.
Print Assumptions C53_patch_test_cubic_decimal.

(* 6. the variant that evaluates the test shape functions at the physical radius (PipeCubicElement of the
      pinned tree, finding cubic-sf-at-radius) fails the patch test: the theorems above discriminate it *)
Theorem C53_cubic_sf_at_radius_fails_patch_test :
  exists r0 dr s, dr <> 0 /\
    Rabs (nth 1 (elem_forces_of_stress RNum (cub_elem RNum) true (gen_cub_gps RNum) (elem_radii RNum (cub_elem RNum) r0 dr) 1 (s, 0, s)) 0
          - 0) >= 1 / 2.
Proof. exact cub_at_rg_fails_patch. Qed.
Print Assumptions C53_cubic_sf_at_radius_fails_patch_test.

(* C53 -- specification, part 1 (real numbers only, no analysis library): the closed-form Lame solution over R,
   Hooke's law, and what a 1D Lagrange element and a Gauss rule have to satisfy.  Written from continuum mechanics /
   finite element theory, independently of the code. *)
From Coq Require Import ZArith QArith Reals List.
From C53 Require Export C53Num.
Import ListNotations.

Definition RNum : Num R := mkNum R Rplus Rminus Rmult Rdiv IZR.

Local Open Scope R_scope.

(* ---- isotropic Hooke law, components (rr, zz, tt) --------------------------------------------------- *)
Definition lame_lambda (E nu : R) : R := nu * E / ((1 + nu) * (1 - 2 * nu)).
Definition lame_mu (E nu : R) : R := E / (2 * (1 + nu)).
Definition hooke (E nu e1 e2 e3 : R) : R := lame_lambda E nu * (e1 + e2 + e3) + 2 * lame_mu E nu * e1.

(* ---- Lame closed form --------------------------------------------------------------------------------- *)
Definition lameA := lameA_G RNum.
Definition lameB := lameB_G RNum.
Definition lame_srr := lame_srr_G RNum.
Definition lame_stt := lame_stt_G RNum.
Definition lame_ezz := lame_ezz_G RNum.
Definition lame_u := lame_u_G RNum.
(* axial stress for the two axial loadings used by the check *)
Definition szz_no_axial_force : R := 0.                                              (* @AxialLoading 'None' *)
Definition szz_end_cap (Ri Re Pi Pe : R) : R := lameA Ri Re Pi Pe.                   (* 'EndCapEffect' *)

(* ---- elements --------------------------------------------------------------------------------------- *)
Definition sumR (l : list R) : R := fold_right Rplus 0 l.
Definition partition_of_unity (sf : list (R -> R)) : Prop := forall x, sumR (map (fun f => f x) sf) = 1.
Definition kronecker (i j : nat) : R := if Nat.eqb i j then 1 else 0.
Definition nodal_interpolation (sf : list (R -> R)) (nodes : list R) : Prop :=
  length sf = length nodes /\
  forall i j, (i < length sf)%nat -> (j < length nodes)%nat -> nth i sf (fun _ => 0) (nth j nodes 0) = kronecker i j.
(* a quadrature rule integrates x^k on [-1,1] exactly: 2/(k+1) for even k, 0 for odd k *)
Definition moment (k : nat) : R := if Nat.even k then 2 / INR (k + 1) else 0.
Definition quadR (gps : list (R * R)) (f : R -> R) : R := sumR (map (fun xw => snd xw * f (fst xw)) gps).
Definition exact_to_degree (gps : list (R * R)) (d : nat) : Prop :=
  forall k, (k <= d)%nat -> quadR gps (fun x => x ^ k) = moment k.
Definition exact_to_degree_within (gps : list (R * R)) (d : nat) (eps : R) : Prop :=
  forall k, (k <= d)%nat -> Rabs (quadR gps (fun x => x ^ k) - moment k) <= eps.

(* the exact 2- and 3-point Gauss-Legendre rules (irrational points: over R only) *)
Definition lin_gps_R : list (R * R) := [((- / sqrt 3)%R, 1%R); ((/ sqrt 3)%R, 1%R)].
Definition quad_gps_R : list (R * R) :=
  [((- sqrt (3 / 5))%R, (5 / 9)%R); (0%R, (8 / 9)%R); (sqrt (3 / 5), (5 / 9)%R)].

(* ---- Galerkin weak form of the pipe problem, evaluated by a quadrature rule ---------------------------- *)
(* Contribution of one element to the virtual work of the stresses in the virtual displacement v and virtual axial
   strain vz (axisymmetric, generalised plane strain, unit height):
       2 pi int (srr dv/dr + stt v/r + szz vz) r dr
   by a quadrature rule (x_g, w_g) on the reference element: rg x is the radius at abscissa x, J x = d rg/dx,
   v x the virtual displacement, dv x = dv/dx, s x = (srr, szz, stt) the stresses. *)
Definition weak_elem (gps : list (R * R)) (twopi : R) (rg J v dv : R -> R) (s : R -> R * R * R) (vz : R) : R :=
  quadR gps (fun x => let '(srr, szz, stt) := s x in
                      twopi * J x * (rg x * srr * (dv x / J x) + stt * v x + rg x * szz * vz)).
(* virtual work of the imposed pressures: Pi pushes the inner surface outwards, Pe the outer surface inwards; with
   the end-cap effect the axial force is pi Ri^2 Pi - pi Re^2 Pe (v0, vlast: virtual displacement at Ri, Re) *)
Definition weak_ext (Ri Re Pi Pe : R) (endcap : bool) (pi v0 vlast vz : R) : R :=
  2 * pi * Ri * Pi * v0 - 2 * pi * Re * Pe * vlast + (if endcap then (pi * Ri * Ri * Pi - pi * Re * Re * Pe) * vz else 0).
(* connectivity of the 1D mesh: element number i (degree p) uses the global nodal values p*i .. p*i+p *)
Fixpoint sum_elems {A : Type} (p : nat) (g : A -> list R -> list R -> R) (els : list A) (us vs : list R) : R :=
  match els with
  | [] => 0
  | el :: rest => g el (firstn (S p) us) (firstn (S p) vs) + sum_elems p g rest (skipn p us) (skipn p vs)
  end.

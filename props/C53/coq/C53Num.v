(* C53 -- abstract scalar shared by the specification (closed form) and the element model: both are written once
   over a record of operations and instantiated with R (theorems) and Q (exact execution against the real code), so
   that the oracle the check compares mtest with IS the proved closed form.  No real numbers here: the files the
   execution harness loads (this one, C53Model.v, the generated C53_gen.v) only need ZArith/QArith. *)
From Coq Require Import ZArith QArith List.
Import ListNotations.

Record Num (T : Type) := mkNum {
  nadd : T -> T -> T; nsub : T -> T -> T; nmul : T -> T -> T; ndiv : T -> T -> T; nZ : Z -> T }.
Arguments nadd {T}. Arguments nsub {T}. Arguments nmul {T}. Arguments ndiv {T}. Arguments nZ {T}.
Definition QNum : Num Q :=
  mkNum Q (fun a b => Qred (Qplus a b)) (fun a b => Qred (Qminus a b)) (fun a b => Qred (Qmult a b)) (fun a b => Qred (Qdiv a b)) inject_Z.

(* plain (non-normalising) rationals *)
Definition QNumPlain : Num Q := mkNum Q Qplus Qminus Qmult Qdiv inject_Z.

Section LameClosedForm.
  Context {T : Type} (N : Num T).
  Local Notation "a + b" := (nadd N a b).
  Local Notation "a - b" := (nsub N a b).
  Local Notation "a * b" := (nmul N a b).
  Local Notation "a / b" := (ndiv N a b).
  Definition lameA_G (Ri Re Pi Pe : T) : T := (Pi * Ri * Ri - Pe * Re * Re) / (Re * Re - Ri * Ri).
  Definition lameB_G (Ri Re Pi Pe : T) : T := (Pi - Pe) * Ri * Ri * Re * Re / (Re * Re - Ri * Ri).
  (* the fields as functions of the two constants A and B (the execution harness computes A and B once per problem) *)
  Definition lame_srr_AB (A B r : T) : T := A - B / (r * r).
  Definition lame_stt_AB (A B r : T) : T := A + B / (r * r).
  (* szz is uniform: value s *)
  Definition lame_u_AB (E nu s A B r : T) : T := r * (lame_stt_AB A B r - nu * (lame_srr_AB A B r + s)) / E.
  Definition lame_srr_G (Ri Re Pi Pe r : T) : T := lame_srr_AB (lameA_G Ri Re Pi Pe) (lameB_G Ri Re Pi Pe) r.
  Definition lame_stt_G (Ri Re Pi Pe r : T) : T := lame_stt_AB (lameA_G Ri Re Pi Pe) (lameB_G Ri Re Pi Pe) r.
  Definition lame_ezz_G (E nu Ri Re Pi Pe s : T) : T := (s - nZ N 2 * nu * lameA_G Ri Re Pi Pe) / E.
  Definition lame_u_G (E nu Ri Re Pi Pe s r : T) : T := lame_u_AB E nu s (lameA_G Ri Re Pi Pe) (lameB_G Ri Re Pi Pe) r.
  (* what the harness evaluates: (u, srr, stt) at r -- by definition the three functions above *)
  Definition lame_fields_AB (E nu s A B r : T) : list T := [lame_u_AB E nu s A B r; lame_srr_AB A B r; lame_stt_AB A B r].
  Lemma lame_fields_AB_def E nu Ri Re Pi Pe s r :
    lame_fields_AB E nu s (lameA_G Ri Re Pi Pe) (lameB_G Ri Re Pi Pe) r
    = [lame_u_G E nu Ri Re Pi Pe s r; lame_srr_G Ri Re Pi Pe r; lame_stt_G Ri Re Pi Pe r].
  Proof. reflexivity. Qed.
End LameClosedForm.

(* C53 -- lemmas, part C (real numbers only): assembly of the pipe mesh (PipeTest::computeStiffnessMatrixAndResidual,
   small strain, imposed pressures, end cap) for ANY number of elements, by induction on the list of elements:
   the assembled residual tested against any nodal vector is the Galerkin weak form evaluated by the element
   quadrature; the assembled stiffness is symmetric for a symmetric tangent; patch test at mesh level. *)
From Coq Require Import ZArith QArith Reals List Lra Lia.
From C53 Require Import C53SpecFE C53Model C53_gen C53ProofsB.
Import ListNotations.
Local Open Scope R_scope.

Notation dotR := (dot RNum).
Notation vaddR := (vadd RNum).

(* ---- list algebra ------------------------------------------------------------------------------------ *)
Lemma dot_cons a l b m : dotR (a :: l) (b :: m) = a * b + dotR l m.
Proof. reflexivity. Qed.
Lemma dot_nil_r l : dotR l [] = 0.
Proof. destruct l; reflexivity. Qed.
Lemma dot_nil_l l : dotR [] l = 0.
Proof. reflexivity. Qed.
Lemma dot_app a : forall a' b b', length a = length a' -> dotR (a ++ b) (a' ++ b') = dotR a a' + dotR b b'.
Proof.
  induction a as [|x a IH]; intros [|y a'] b b' H; simpl in H; try discriminate.
  - simpl. rewrite dot_nil_l. ring.
  - simpl app. rewrite !dot_cons, IH by lia. ring.
Qed.
Lemma dot_vadd a : forall b v, length a = length b -> dotR (vaddR a b) v = dotR a v + dotR b v.
Proof.
  induction a as [|x a IH]; intros [|y b] v H; simpl in H; try discriminate.
  - cbn. ring.
  - destruct v as [|z v]; [rewrite !dot_nil_r; ring|].
    change (vaddR (x :: a) (y :: b)) with ((x + y) :: vaddR a b). rewrite !dot_cons, IH by lia. ring.
Qed.
Lemma vadd_length a : forall b, length a = length b -> length (vaddR a b) = length a.
Proof. induction a as [|x a IH]; intros [|y b] H; simpl in H; try discriminate; [reflexivity|]. cbn. f_equal. apply IH. lia. Qed.
Lemma dot_zeros n v : dotR (zeros RNum n) v = 0.
Proof. revert v; induction n; intros [|z v]; try reflexivity. change (zeros RNum (S n)) with (0 :: zeros RNum n). rewrite dot_cons, IHn. ring. Qed.
Lemma zeros_length n : length (zeros RNum n) = n.
Proof. apply repeat_length. Qed.
Lemma dot_map_scal a l : forall m, dotR l (map (Rmult a) m) = a * dotR l m.
Proof. induction l as [|x l IH]; intros [|y m]; try (cbn; ring). simpl map. rewrite !dot_cons, IH. ring. Qed.
Lemma firstn_nth_split (l : list R) n : length l = S n -> l = firstn n l ++ [nth n l 0].
Proof.
  revert l; induction n; intros [|a l] H; simpl in H; try discriminate.
  - destruct l; [reflexivity|discriminate].
  - simpl. f_equal. apply IHn. lia.
Qed.
(* zipw of a function that is linear in its two arguments *)
Lemma dot_zipw_lin (f : R -> R -> R) al be :
  (forall n dn, f n dn = al * dn + be * n) ->
  forall ns dns vl, length ns = length dns -> dotR (zipw f ns dns) vl = al * dotR dns vl + be * dotR ns vl.
Proof.
  intros Hf. induction ns as [|n ns IH]; intros [|dn dns] vl H; simpl in H; try discriminate.
  - cbn. ring.
  - destruct vl as [|v vl]; [rewrite !dot_nil_r; ring|].
    simpl zipw. rewrite !dot_cons, IH, Hf by lia. ring.
Qed.
Lemma zipw_length {A B C} (f : A -> B -> C) l1 : forall l2, length l1 = length l2 -> length (zipw f l1 l2) = length l1.
Proof. induction l1; intros [|b l2] H; simpl in H; try discriminate; [reflexivity|]. simpl. f_equal. apply IHl1. lia. Qed.

Lemma split_axial_dot n (l vl : list R) vz : length l = S n -> length vl = n ->
    dotR (fst (split_axial RNum n l)) vl + snd (split_axial RNum n l) * vz = dotR l (vl ++ [vz]).
  Proof.
    intros Hl Hv. unfold split_axial. cbn [fst snd c RNum nZ].
    rewrite (firstn_nth_split l n Hl) at 3.
    rewrite dot_app by (rewrite firstn_length; lia). rewrite dot_cons, dot_nil_l. ring.
  Qed.

(* ---- one Gauss point, one element: forces tested against a local vector ------------------------------- *)
Section ElemDot.
  Variable e : @Elem R.
  Variable n : nat.
  Hypothesis Hsf : length (sf e) = n.
  Hypothesis Hdsf : length (dsf e) = n.

  Lemma at_length (fs : list (R -> R)) x : length (at_ fs x) = length fs.
  Proof. apply map_length. Qed.

  Lemma gp_forces_length rs twopi xw sg : length (gp_forces_of_stress RNum e false rs twopi xw sg) = S n.
  Proof.
    unfold gp_forces_of_stress. destruct sg as [[srr szz] stt]. cbv zeta.
    rewrite app_length, zipw_length by (rewrite !at_length; congruence). rewrite at_length, Hsf. simpl. lia.
  Qed.

  Lemma gp_forces_dot rs twopi x w srr szz stt vl vz : length vl = n ->
    dotR (gp_forces_of_stress RNum e false rs twopi (x, w) (srr, szz, stt)) (vl ++ [vz])
    = w * (twopi * dinterp RNum e rs x
           * (interp RNum e rs x * srr * (dinterp RNum e vl x / dinterp RNum e rs x) + stt * interp RNum e vl x
              + interp RNum e rs x * szz * vz)).
  Proof.
    intros Hv. unfold gp_forces_of_stress. cbv zeta. cbn [fst snd].
    rewrite dot_app by (rewrite zipw_length by (rewrite !at_length; congruence); rewrite at_length; congruence).
    set (J := dinterp RNum e rs x). set (rg := interp RNum e rs x).
    rewrite (dot_zipw_lin _ (twopi * w * J * rg * srr / J) (twopi * w * J * stt))
      by (try (rewrite !at_length; congruence); intros; cbn [RNum nadd nsub nmul ndiv]; unfold Rdiv; ring).
    rewrite dot_cons, dot_nil_l.
    change (dotR (at_ (dsf e) x) vl) with (dinterp RNum e vl x). change (dotR (at_ (sf e) x) vl) with (interp RNum e vl x).
    cbn [RNum nadd nsub nmul ndiv]. unfold Rdiv. ring.
  Qed.

  Lemma elem_forces_sig_length gps sig rs us ezz twopi : length rs = n ->
    length (elem_forces_sig RNum e false gps sig rs us ezz twopi) = S n.
  Proof.
    intros Hr. unfold elem_forces_sig. induction gps as [|xw gps IH]; cbn [fold_right].
    - rewrite zeros_length. congruence.
    - rewrite vadd_length; rewrite gp_forces_length; [reflexivity|symmetry; exact IH].
  Qed.

  (* the forces of an element tested against (vl, vz) are the element's share of the weak form *)
  Lemma elem_forces_dot gps sig rs us ezz twopi vl vz : length rs = n -> length vl = n ->
    dotR (elem_forces_sig RNum e false gps sig rs us ezz twopi) (vl ++ [vz])
    = weak_elem gps twopi (interp RNum e rs) (dinterp RNum e rs) (interp RNum e vl) (dinterp RNum e vl)
                (fun x => sig (strain RNum e rs us ezz x)) vz.
  Proof.
    intros Hr Hv. unfold weak_elem, quadR, elem_forces_sig. induction gps as [|[x w] gps IH]; cbn [fold_right map sumR fst snd].
    - apply dot_zeros.
    - rewrite dot_vadd.
      2:{ rewrite gp_forces_length. symmetry. apply (elem_forces_sig_length gps sig rs us ezz twopi Hr). }
      fold (elem_forces_sig RNum e false gps sig rs us ezz twopi) in IH |- *. rewrite IH.
      destruct (sig (strain RNum e rs us ezz x)) as [[srr szz] stt] eqn:Es.
      rewrite gp_forces_dot by exact Hv. reflexivity.
  Qed.

End ElemDot.

(* ---- assembly: induction on the list of elements ------------------------------------------------------- *)
Section Assemble.
  Variable p : nat.
  Variable ef : R * R -> list R -> list R * R.
  Hypothesis Hef : forall el ul, length (fst (ef el ul)) = S p.

  Lemma assemble_length els : forall us, length (fst (assemble RNum p ef els us)) = (p * length els + 1)%nat.
  Proof.
    induction els as [|el els IH]; intros us; cbn [assemble fst snd length].
    - lia.
    - specialize (IH (skipn p us)).
      rewrite app_length, firstn_length, Hef. cbn [length].
      destruct (fst (assemble RNum p ef els (skipn p us))) as [|h t]; cbn [length tl] in *; lia.
  Qed.

  (* the assembled nodal forces tested against a global nodal vector: sum over the elements of the element forces
     tested against the local values *)
  Lemma assemble_dot els : forall us vs, length vs = (p * length els + 1)%nat ->
    dotR (fst (assemble RNum p ef els us)) vs
    = sum_elems p (fun el ul vl => dotR (fst (ef el ul)) vl) els us vs.
  Proof.
    induction els as [|el els IH]; intros us vs Hv; cbn [assemble fst snd sum_elems length] in *.
    - destruct vs as [|v [|? ?]]; cbn in Hv; try lia. cbn. ring.
    - pose proof (assemble_length els (skipn p us)) as Hl.
      rewrite <- (IH (skipn p us) (skipn p vs)) by (rewrite skipn_length; lia). clear IH.
      set (fl := fst (ef el (firstn (S p) us))). assert (Hfl : length fl = S p) by apply Hef.
      set (rn := fst (assemble RNum p ef els (skipn p us))) in *.
      destruct rn as [|h t]; [cbn in Hl; lia|]. cbn [hd tl].
      assert (Hs : (length (skipn p vs) = p * length els + 1)%nat) by (rewrite skipn_length; lia).
      destruct (skipn p vs) as [|vp vr] eqn:Evs; [cbn in Hs; lia|].
      assert (Hf : firstn (S p) vs = firstn p vs ++ [vp]).
      { rewrite <- (firstn_skipn p vs) at 1. rewrite Evs.
        rewrite firstn_app, firstn_length. replace (S p - Nat.min p (length vs))%nat with 1%nat by lia.
        rewrite firstn_firstn. replace (Nat.min (S p) p) with p by lia. reflexivity. }
      rewrite Hf.
      assert (E : dotR fl (firstn p vs ++ [vp]) = dotR (firstn p fl) (firstn p vs) + nth p fl 0 * vp).
      { rewrite (firstn_nth_split fl p Hfl) at 1. rewrite dot_app by (rewrite !firstn_length; lia).
        rewrite dot_cons, dot_nil_l. ring. }
      rewrite E. clear E.
      rewrite <- (firstn_skipn p vs) at 1. rewrite Evs.
      rewrite dot_app by (rewrite !firstn_length; lia).
      rewrite !dot_cons. cbn [RNum nadd c nZ]. ring.
  Qed.

  Lemma assemble_axial els : forall us,
    snd (assemble RNum p ef els us) = sum_elems p (fun el ul _ => snd (ef el ul)) els us us.
  Proof.
    induction els as [|el els IH]; intros us; cbn [assemble fst snd sum_elems].
    - reflexivity.
    - rewrite IH. reflexivity.
  Qed.
End Assemble.

Lemma add_hd_dot x l v : l <> [] -> dotR (add_hd RNum x l) v = dotR l v + x * hd 0 v.
Proof. destruct l as [|a l]; [congruence|]. intros _. destruct v as [|b v]; cbn [add_hd hd]; [rewrite !dot_nil_r; ring|]. rewrite !dot_cons. cbn [RNum nadd]. ring. Qed.
Lemma add_hd_length x l : length (add_hd RNum x l) = length l.
Proof. destruct l; reflexivity. Qed.
Lemma add_last_dot x l : forall v, length v = length l -> l <> [] -> dotR (add_last RNum x l) v = dotR l v + x * last v 0.
Proof.
  induction l as [|a l IH]; intros v Hv Hn; [congruence|].
  destruct v as [|b v]; [discriminate|]. destruct l as [|a' l].
  - destruct v; [|discriminate]. cbn [add_last last]. rewrite !dot_cons, !dot_nil_l. cbn [RNum nadd]. ring.
  - destruct v as [|b' v]; [discriminate|].
    change (add_last RNum x (a :: a' :: l)) with (a :: add_last RNum x (a' :: l)).
    rewrite !(dot_cons a), IH by (simpl in *; try lia; congruence).
    change (last (b :: b' :: v) 0) with (last (b' :: v) 0). ring.
Qed.

Lemma add_last_length x l : length (add_last RNum x l) = length l.
Proof. induction l as [|a [|b l] IH]; try reflexivity. change (add_last RNum x (a :: b :: l)) with (a :: add_last RNum x (b :: l)). simpl length in *. rewrite IH. reflexivity. Qed.

Lemma sum_elems_plus {A} p (g h : A -> list R -> list R -> R) els : forall us vs,
  sum_elems p g els us vs + sum_elems p h els us vs = sum_elems p (fun el ul vl => g el ul vl + h el ul vl) els us vs.
Proof. induction els; intros; cbn [sum_elems]; [ring|]. rewrite <- IHels. ring. Qed.
Lemma sum_elems_ext {A} p (g h : A -> list R -> list R -> R) els :
  (forall el ul vl, In el els -> length ul = S p -> length vl = S p -> g el ul vl = h el ul vl) ->
  forall us vs, length us = (p * length els + 1)%nat -> length vs = (p * length els + 1)%nat ->
  sum_elems p g els us vs = sum_elems p h els us vs.
Proof.
  induction els as [|el els IH]; intros H us vs Hu Hv; cbn [sum_elems]; [reflexivity|]. cbn [length] in *.
  rewrite H, IH; try reflexivity; try (rewrite skipn_length; lia); try (rewrite firstn_length; lia); try (left; reflexivity).
  intros; apply H; auto. right; assumption.
Qed.
(* the axial part of sum_elems does not look at vs *)
Lemma sum_elems_scal {A} p (g : A -> list R -> R) vz els : forall us vs ws,
  sum_elems p (fun el ul _ => g el ul) els us ws * vz = sum_elems p (fun el ul _ => g el ul * vz) els us vs.
Proof. induction els; intros; cbn [sum_elems]; [ring|]. rewrite <- (IHels _ (skipn p vs) (skipn p ws)). ring. Qed.

(* ---- the assembled residual is the Galerkin weak form evaluated by the element quadrature -------------- *)
Section WeakForm.
  Variable e : @Elem R.
  Variable p : nat.
  Hypothesis Hsf : length (sf e) = S p.
  Hypothesis Hdsf : length (dsf e) = S p.
  Hypothesis Hnodes : length (nodes e) = S p.

  Lemma elem_radii_length r0 dr : length (elem_radii RNum e r0 dr) = S p.
  Proof. unfold elem_radii. rewrite map_length. exact Hnodes. Qed.

  Lemma ef_forces_length gps sig ezz twopi el ul : length (fst (ef_forces RNum e gps sig ezz twopi el ul)) = S p.
  Proof.
    unfold ef_forces, split_axial. cbn [fst]. rewrite firstn_length, Hnodes.
    rewrite (elem_forces_sig_length e (S p) Hsf Hdsf) by apply elem_radii_length. lia.
  Qed.

  Definition weak_elem_of gps sig ezz twopi vz (el : R * R) (ul vl : list R) : R :=
    let rs := elem_radii RNum e (fst el) (snd el) in
    weak_elem gps twopi (interp RNum e rs) (dinterp RNum e rs) (interp RNum e vl) (dinterp RNum e vl)
              (fun x => sig (strain RNum e rs ul ezz x)) vz.

  Theorem residual_is_weak_form gps sig ezz pi Ri Re Pi Pe endcap els us vs vz :
    length us = (p * length els + 1)%nat -> length vs = (p * length els + 1)%nat ->
    let R := pipe_residual RNum p (ef_forces RNum e gps sig ezz (2 * pi)) els us Ri Re Pi Pe endcap pi in
    dotR (fst R) vs + snd R * vz
    = sum_elems p (weak_elem_of gps sig ezz (2 * pi) vz) els us vs - weak_ext Ri Re Pi Pe endcap pi (hd 0 vs) (last vs 0) vz.
  Proof.
    intros Hu Hv. cbv zeta. unfold pipe_residual. cbn [fst snd].
    set (ef := ef_forces RNum e gps sig ezz (2 * pi)).
    pose proof (assemble_length p ef (ef_forces_length gps sig ezz (2 * pi)) els us) as Hl.
    assert (Hne : fst (assemble RNum p ef els us) <> []) by (intros E; rewrite E in Hl; cbn in Hl; lia).
    rewrite add_last_dot; [|rewrite add_hd_length; lia|destruct (fst (assemble RNum p ef els us)); [congruence|discriminate]].
    rewrite add_hd_dot by exact Hne.
    rewrite (assemble_dot p ef (ef_forces_length gps sig ezz (2 * pi))) by exact Hv.
    rewrite assemble_axial.
    assert (Hsum : sum_elems p (fun el ul vl => dotR (fst (ef el ul)) vl) els us vs
                   + sum_elems p (fun el ul _ => snd (ef el ul)) els us us * vz
                   = sum_elems p (weak_elem_of gps sig ezz (2 * pi) vz) els us vs).
    { rewrite (sum_elems_scal p (fun el ul => snd (ef el ul)) vz els us vs us), sum_elems_plus.
      apply sum_elems_ext; auto. intros el ul vl _ Hul Hvl. unfold ef, ef_forces, weak_elem_of. rewrite Hnodes.
      rewrite (split_axial_dot (S p)); [|apply (elem_forces_sig_length e (S p) Hsf Hdsf); apply elem_radii_length|exact Hvl].
      apply (elem_forces_dot e (S p) Hsf Hdsf); [apply elem_radii_length|exact Hvl]. }
    rewrite <- Hsum. unfold weak_ext. cbn [RNum nadd nsub nmul ndiv nZ c neg].
    destruct endcap; ring.
  Qed.
End WeakForm.

(* ---- the element stiffness matrix is the tangent of the element forces (linear behaviour K), any element size -- *)
Lemma map_zipw {A B C D} (g : C -> D) (f : A -> B -> C) l1 : forall l2, map g (zipw f l1 l2) = zipw (fun a b => g (f a b)) l1 l2.
Proof. induction l1; intros [|b l2]; try reflexivity. simpl. f_equal. apply IHl1. Qed.
Lemma zipw_ext {A B C} (f g : A -> B -> C) : (forall a b, f a b = g a b) -> forall l1 l2, zipw f l1 l2 = zipw g l1 l2.
Proof. intros H. induction l1; intros [|b l2]; try reflexivity. simpl. rewrite H, IHl1. reflexivity. Qed.
Lemma mvec_madd A : forall B u, Forall2 (fun r1 r2 : list R => length r1 = length r2) A B ->
  mvec RNum (madd RNum A B) u = vaddR (mvec RNum A u) (mvec RNum B u).
Proof.
  intros B u H. induction H as [|r1 r2 A B Hr HF IH]; [reflexivity|].
  change (madd RNum (r1 :: A) (r2 :: B)) with (vaddR r1 r2 :: madd RNum A B).
  cbn [mvec map]. change (map (fun row => dotR row u) (madd RNum A B)) with (mvec RNum (madd RNum A B) u).
  rewrite IH, dot_vadd by exact Hr. reflexivity.
Qed.
Definition shape (n : nat) (M : list (list R)) : Prop := length M = n /\ Forall (fun r => length r = n) M.
Lemma shape_Forall2 n A B : shape n A -> shape n B -> Forall2 (fun r1 r2 : list R => length r1 = length r2) A B.
Proof.
  intros [LA FA] [LB FB]. assert (L : length A = length B) by congruence. clear LA LB.
  revert B FB L. induction FA as [|r A Hr FA IH]; intros B FB L.
  - destruct B; [constructor|discriminate].
  - destruct B as [|r' B]; [discriminate|]. inversion FB; subst. constructor; [congruence|]. apply IH; auto.
Qed.
Lemma shape_madd n A B : shape n A -> shape n B -> shape n (madd RNum A B).
Proof.
  intros HA HB. pose proof (shape_Forall2 n A B HA HB) as H2. destruct HA as [LA FA]. destruct HB as [LB FB].
  split.
  - unfold madd. rewrite zipw_length; congruence.
  - clear LA LB. induction H2 as [|r1 r2 A B Hr HF IH]; [constructor|].
    inversion FA; inversion FB; subst. change (madd RNum (r1 :: A) (r2 :: B)) with (vaddR r1 r2 :: madd RNum A B).
    constructor; [apply vadd_length; exact Hr|]. apply IH; assumption.
Qed.

Lemma mvec_zero k m u : mvec RNum (repeat (zeros RNum m) k) u = zeros RNum k.
Proof. induction k; [reflexivity|]. change (zeros RNum (S k)) with (0 :: zeros RNum k). rewrite <- IHk. cbn [repeat mvec map]. f_equal. apply dot_zeros. Qed.

Section ElemTangent.
  Variable e : @Elem R.
  Variable n : nat.
  Hypothesis Hsf : length (sf e) = n.
  Hypothesis Hdsf : length (dsf e) = n.

  Lemma zipw_rows_length {A B} (f : A -> B -> list R) m : (forall a b, length (f a b) = m) ->
    forall l1 l2, Forall (fun r => length r = m) (zipw f l1 l2).
  Proof. intros H. induction l1; intros [|b l2]; simpl; constructor; auto. Qed.

  Lemma gp_stiffness_shape K rs twopi xw : shape (S n) (gp_stiffness RNum e false K rs twopi xw).
  Proof.
    unfold gp_stiffness. cbv zeta.
    assert (L : forall x, length (at_ (sf e) x) = n) by (intros; unfold at_; rewrite map_length; exact Hsf).
    assert (L' : forall x, length (at_ (dsf e) x) = n) by (intros; unfold at_; rewrite map_length; exact Hdsf).
    split.
    - rewrite app_length, zipw_length by (rewrite L, L'; reflexivity). rewrite L. simpl. lia.
    - apply Forall_app. split.
      + apply zipw_rows_length. intros a b. rewrite app_length, zipw_length by (rewrite L, L'; reflexivity). rewrite L. simpl. lia.
      + constructor; [|constructor]. rewrite app_length, zipw_length by (rewrite L, L'; reflexivity). rewrite L. simpl. lia.
  Qed.

  Lemma elem_stiffness_shape gps K rs twopi : length rs = n -> shape (S n) (elem_stiffness RNum e false gps K rs twopi).
  Proof.
    intros Hr. unfold elem_stiffness. rewrite Hr. induction gps as [|xw gps IH]; cbn [fold_right].
    - split; [apply repeat_length|]. apply Forall_forall. intros r Hin. apply repeat_spec in Hin. subst. apply zeros_length.
    - apply shape_madd; [apply gp_stiffness_shape|exact IH].
  Qed.

  (* one Gauss point: the stiffness block applied to (us, ezz) is the Gauss point's inner forces (no condition on J, rg) *)
  Lemma gp_tangent K rs us ezz twopi xw : length us = n ->
    mvec RNum (gp_stiffness RNum e false K rs twopi xw) (us ++ [ezz]) = gp_forces RNum e false K rs us ezz twopi xw.
  Proof.
    intros Hu. unfold gp_forces, gp_forces_of_stress, gp_stiffness, strain, stress. cbv zeta. cbn [fst snd].
    assert (L : forall x, length (at_ (sf e) x) = n) by (intros; unfold at_; rewrite map_length; exact Hsf).
    assert (L' : forall x, length (at_ (dsf e) x) = n) by (intros; unfold at_; rewrite map_length; exact Hdsf).
    unfold mvec. rewrite map_app, map_zipw. cbn [map]. f_equal.
    - apply zipw_ext. intros nl dnl.
      rewrite dot_app by (rewrite zipw_length by (rewrite L, L'; reflexivity); rewrite L; congruence).
      rewrite dot_cons, dot_nil_l.
      set (J := dinterp RNum e rs (fst xw)). set (rg := interp RNum e rs (fst xw)).
      rewrite (dot_zipw_lin _ (twopi * snd xw * J * (rg * dnl / J * (kx RNum K 0 / J) + nl * (kx RNum K 6 / J)))
                              (twopi * snd xw * J * (rg * dnl / J * (kx RNum K 2 / rg) + nl * (kx RNum K 8 / rg))))
        by (try (rewrite L, L'; reflexivity); intros; cbn [RNum nadd nsub nmul ndiv]; unfold Rdiv; ring).
      change (dotR (at_ (dsf e) (fst xw)) us) with (dinterp RNum e us (fst xw)).
      change (dotR (at_ (sf e) (fst xw)) us) with (interp RNum e us (fst xw)).
      cbn [RNum nadd nsub nmul ndiv]. unfold Rdiv. ring.
    - f_equal.
      rewrite dot_app by (rewrite zipw_length by (rewrite L, L'; reflexivity); rewrite L; congruence).
      rewrite dot_cons, dot_nil_l.
      set (J := dinterp RNum e rs (fst xw)). set (rg := interp RNum e rs (fst xw)).
      rewrite (dot_zipw_lin _ (twopi * snd xw * J * rg * (kx RNum K 3 / J)) (twopi * snd xw * J * rg * (kx RNum K 5 / rg)))
        by (try (rewrite L, L'; reflexivity); intros; cbn [RNum nadd nsub nmul ndiv]; unfold Rdiv; ring).
      change (dotR (at_ (dsf e) (fst xw)) us) with (dinterp RNum e us (fst xw)).
      change (dotR (at_ (sf e) (fst xw)) us) with (interp RNum e us (fst xw)).
      cbn [RNum nadd nsub nmul ndiv]. unfold Rdiv. ring.
  Qed.

  Lemma elem_forces_length gps K rs us ezz twopi : length rs = n -> length (elem_forces RNum e false gps K rs us ezz twopi) = S n.
  Proof. intros Hr. exact (elem_forces_sig_length e n Hsf Hdsf gps (stress RNum K) rs us ezz twopi Hr). Qed.

  (* the element: stiffness matrix applied to (us, ezz) = inner forces, for any quadrature rule *)
  Lemma elem_tangent gps K rs us ezz twopi : length rs = n -> length us = n ->
    mvec RNum (elem_stiffness RNum e false gps K rs twopi) (us ++ [ezz]) = elem_forces RNum e false gps K rs us ezz twopi.
  Proof.
    intros Hr Hu. induction gps as [|xw gps IH].
    - unfold elem_stiffness, elem_forces. cbn [fold_right]. rewrite Hr.
      apply mvec_zero.
    - change (elem_stiffness RNum e false (xw :: gps) K rs twopi)
        with (madd RNum (gp_stiffness RNum e false K rs twopi xw) (elem_stiffness RNum e false gps K rs twopi)).
      change (elem_forces RNum e false (xw :: gps) K rs us ezz twopi)
        with (vaddR (gp_forces RNum e false K rs us ezz twopi xw) (elem_forces RNum e false gps K rs us ezz twopi)).
      rewrite mvec_madd by (apply (shape_Forall2 (S n)); [apply gp_stiffness_shape|apply elem_stiffness_shape; exact Hr]).
      rewrite IH, gp_tangent by exact Hu. reflexivity.
  Qed.
End ElemTangent.

(* ---- symmetry of the assembled stiffness for a symmetric tangent ---------------------------------------- *)
Lemma quadR_ext_in gps (f g : R -> R) : (forall xw, In xw gps -> f (fst xw) = g (fst xw)) -> quadR gps f = quadR gps g.
Proof.
  unfold quadR. induction gps as [|xw gps IH]; intros H; cbn [map sumR fold_right]; [reflexivity|].
  rewrite (H xw) by (left; reflexivity). unfold sumR in IH. rewrite IH; [reflexivity|]. intros; apply H; right; assumption.
Qed.

Definition sym_tangent (K : list R) : Prop :=
  kx RNum K 1 = kx RNum K 3 /\ kx RNum K 2 = kx RNum K 6 /\ kx RNum K 5 = kx RNum K 7.
(* radius and jacobian never vanish at the Gauss points of the element *)
Definition rg_nonzero (e : @Elem R) (gps : list (R * R)) (el : R * R) : Prop :=
  forall xw, In xw gps -> interp RNum e (elem_radii RNum e (fst el) (snd el)) (fst xw) <> 0
                          /\ dinterp RNum e (elem_radii RNum e (fst el) (snd el)) (fst xw) <> 0.

Lemma assemble_ext p ef1 ef2 els :
  (forall el ul, In el els -> length ul = S p -> ef1 el ul = ef2 el ul) ->
  forall us, length us = (p * length els + 1)%nat -> assemble RNum p ef1 els us = assemble RNum p ef2 els us.
Proof.
  induction els as [|el els IH]; intros H us Hu; cbn [assemble]; [reflexivity|]. cbn [length] in Hu.
  rewrite H, IH; try reflexivity; try (rewrite skipn_length; lia); try (rewrite firstn_length; lia); try (left; reflexivity).
  intros; apply H; auto. right; assumption.
Qed.

Section Symmetry.
  Variable e : @Elem R.
  Variable p : nat.
  Hypothesis Hsf : length (sf e) = S p.
  Hypothesis Hdsf : length (dsf e) = S p.
  Hypothesis Hnodes : length (nodes e) = S p.

  (* the bilinear form of one element is symmetric *)
  Lemma weak_elem_sym gps K twopi el ul uz vl vz : sym_tangent K -> rg_nonzero e gps el ->
    weak_elem_of e gps (stress RNum K) uz twopi vz el ul vl = weak_elem_of e gps (stress RNum K) vz twopi uz el vl ul.
  Proof.
    intros (S1 & S2 & S3) Hrg. unfold weak_elem_of, weak_elem. cbv zeta. apply quadR_ext_in. intros xw Hin.
    specialize (Hrg xw Hin). set (rs := elem_radii RNum e (fst el) (snd el)) in *.
    unfold strain, stress. cbn [RNum nadd nsub nmul ndiv].
    set (J := dinterp RNum e rs (fst xw)). set (rg := interp RNum e rs (fst xw)) in *.
    rewrite S1, S2, S3. field. exact Hrg.
  Qed.

  (* action of the assembled stiffness matrix = assembled forces of the linear behaviour *)
  Lemma stiffness_action_is_forces gps K twopi uz els us : length us = (p * length els + 1)%nat ->
    assemble RNum p (ef_stiff RNum e gps K twopi uz) els us
    = assemble RNum p (ef_forces RNum e gps (stress RNum K) uz twopi) els us.
  Proof.
    intros Hu. apply assemble_ext; [|exact Hu]. intros el ul _ Hul. unfold ef_stiff, ef_forces. f_equal.
    rewrite (elem_tangent e (S p) Hsf Hdsf); [reflexivity| |exact Hul]. unfold elem_radii. rewrite map_length. exact Hnodes.
  Qed.

  Theorem assembled_stiffness_symmetric gps K pi els us uz vs vz :
    sym_tangent K -> (forall el, In el els -> rg_nonzero e gps el) ->
    length us = (p * length els + 1)%nat -> length vs = (p * length els + 1)%nat ->
    let Ku := assemble RNum p (ef_stiff RNum e gps K (2 * pi) uz) els us in
    let Kv := assemble RNum p (ef_stiff RNum e gps K (2 * pi) vz) els vs in
    dotR (fst Ku) vs + snd Ku * vz = dotR (fst Kv) us + snd Kv * uz.
  Proof.
    intros HK Hrg Hu Hv. cbv zeta. rewrite !stiffness_action_is_forces by assumption.
    pose proof (residual_is_weak_form e p Hsf Hdsf Hnodes gps (stress RNum K) uz pi 0 0 0 0 false els us vs vz Hu Hv) as W1.
    pose proof (residual_is_weak_form e p Hsf Hdsf Hnodes gps (stress RNum K) vz pi 0 0 0 0 false els vs us uz Hv Hu) as W2.
    cbv zeta in W1, W2. unfold pipe_residual in W1, W2. cbn [fst snd] in W1, W2.
    set (Fu := assemble RNum p (ef_forces RNum e gps (stress RNum K) uz (2 * pi)) els us) in *.
    set (Fv := assemble RNum p (ef_forces RNum e gps (stress RNum K) vz (2 * pi)) els vs) in *.
    pose proof (assemble_length p _ (ef_forces_length e p Hsf Hdsf Hnodes gps (stress RNum K) uz (2 * pi)) els us) as Lu.
    pose proof (assemble_length p _ (ef_forces_length e p Hsf Hdsf Hnodes gps (stress RNum K) vz (2 * pi)) els vs) as Lv.
    fold Fu in Lu. fold Fv in Lv.
    assert (Zu : forall l v, l <> [] -> length v = length l ->
                 dotR (add_last RNum (c RNum 2 * pi * 0 * 0) (add_hd RNum (neg RNum (c RNum 2 * pi * 0 * 0)) l)) v = dotR l v).
    { intros l v Hl Hlen. rewrite add_last_dot; [|rewrite add_hd_length; exact Hlen|destruct l; [congruence|discriminate]].
      rewrite add_hd_dot by exact Hl. cbn [RNum nadd nsub nmul ndiv nZ c neg]. ring. }
    cbn [RNum nadd nsub nmul ndiv nZ c neg] in Zu.
    cbn [RNum nadd nsub nmul ndiv nZ c neg] in W1, W2.
    rewrite Zu in W1 by (try (intros E; rewrite E in Lu; cbn in Lu; lia); lia).
    rewrite Zu in W2 by (try (intros E; rewrite E in Lv; cbn in Lv; lia); lia).
    rewrite W1, W2. unfold weak_ext. f_equal; [|ring].
    clear W1 W2 Zu Lu Lv Fu Fv.
    revert us vs Hu Hv. induction els as [|el els IH]; intros us vs Hu Hv; cbn [sum_elems]; [reflexivity|].
    cbn [length] in Hu, Hv.
    rewrite IH; try (rewrite skipn_length; lia); [|intros; apply Hrg; right; assumption].
    f_equal. apply weak_elem_sym; [exact HK|apply Hrg; left; reflexivity].
  Qed.
End Symmetry.

(* ---- patch test at mesh level ---------------------------------------------------------------------------- *)
Lemma zero_of_dots (l : list R) : (forall v, length v = length l -> dotR l v = 0) -> Forall (fun x => x = 0) l.
Proof.
  induction l as [|a l IH]; intros H; constructor.
  - specialize (H (1 :: zeros RNum (length l))). rewrite dot_cons in H.
    assert (Z : forall (m : list R), dotR m (zeros RNum (length m)) = 0).
    { induction m; [reflexivity|]. change (zeros RNum (length (a0 :: m))) with (0 :: zeros RNum (length m)). rewrite dot_cons, IHm. ring. }
    rewrite Z in H. cbn [length] in H. rewrite zeros_length in H. specialize (H eq_refl). lra.
  - apply IH. intros v Hv. specialize (H (0 :: v)). rewrite dot_cons in H. cbn [length] in H. rewrite Hv in H. specialize (H eq_refl). lra.
Qed.

Lemma nth_map_lt (f : R -> R) l : forall i d, (i < length l)%nat -> nth i (map f l) 0 = f (nth i l d).
Proof. induction l; intros i d H; simpl in H; [lia|]. destruct i; [reflexivity|]. simpl. apply IHl. lia. Qed.

Lemma hd_firstn_app (l m : list R) k : (1 <= k)%nat -> l <> [] -> hd 0 (firstn k l ++ m) = nth 0 l 0.
Proof. intros Hk Hl. destruct l; [congruence|]. destruct k; [lia|]. reflexivity. Qed.

Lemma last_app_ne (l m : list R) d : m <> [] -> last (l ++ m) d = last m d.
Proof. intros Hm. induction l as [|a l IH]; [reflexivity|]. simpl app. destruct (l ++ m) eqn:E; [destruct l; simpl in E; congruence|]. simpl. simpl in IH. exact IH. Qed.

Section MeshPatch.
  Variable e : @Elem R.
  Variable p : nat.
  Variable gps : list (R * R).
  Hypothesis Hp : (1 <= p)%nat.
  Hypothesis Hsf : length (sf e) = S p.
  Hypothesis Hdsf : length (dsf e) = S p.
  Hypothesis Hnodes : length (nodes e) = S p.
  Hypothesis Hfirst : nth 0 (nodes e) 0 = -1.
  Hypothesis Hlast : nth p (nodes e) 0 = 1.
  Hypothesis Hgeom : forall r0 dr x, interp RNum e (elem_radii RNum e r0 dr) x = r0 + dr * (x + 1) / 2
                                     /\ dinterp RNum e (elem_radii RNum e r0 dr) x = dr / 2.
  Hypothesis Hgps : forall xw, In xw gps -> -1 <= fst xw <= 1.
  (* patch test of one element (C53ProofsB: lin_patch, quad_patch, cub_patch) *)
  Hypothesis Hpatch : forall r0 dr s z twopi, dr <> 0 ->
    elem_forces_of_stress RNum e false gps (elem_radii RNum e r0 dr) twopi (s, z, s)
    = [twopi * s * (- r0)] ++ repeat 0 (p - 1) ++ [twopi * s * (r0 + dr); twopi * z * (r0 * dr + dr * dr / 2)].

  Lemma regular r0 dr : 0 < r0 -> 0 < dr -> rg_nonzero e gps (r0, dr).
  Proof.
    intros H0 Hd xw Hin. cbn [fst snd]. destruct (Hgeom r0 dr (fst xw)) as [-> ->]. specialize (Hgps xw Hin). split; nra.
  Qed.

  (* displacement u = a r: uniform strain (a, ezz, a) at every regular point *)
  Lemma strain_linear_field a ezz rs x : interp RNum e rs x <> 0 -> dinterp RNum e rs x <> 0 ->
    strain RNum e rs (map (Rmult a) rs) ezz x = (a, ezz, a).
  Proof.
    intros Hr HJ. unfold strain, interp, dinterp in *. rewrite !dot_map_scal. cbn [RNum ndiv].
    f_equal; [f_equal|]; field; assumption.
  Qed.

  Lemma elem_forces_linear_field sig a ezz r0 dr twopi : 0 < r0 -> 0 < dr ->
    elem_forces_sig RNum e false gps sig (elem_radii RNum e r0 dr) (map (Rmult a) (elem_radii RNum e r0 dr)) ezz twopi
    = elem_forces_of_stress RNum e false gps (elem_radii RNum e r0 dr) twopi (sig (a, ezz, a)).
  Proof.
    intros H0 Hd. pose proof (regular r0 dr H0 Hd) as Hreg. unfold rg_nonzero in Hreg. cbn [fst snd] in Hreg.
    unfold elem_forces_sig, elem_forces_of_stress. revert Hreg. generalize gps. intros g0 Hreg.
    induction g0 as [|xw g IH]; cbn [fold_right]; [reflexivity|].
    rewrite IH by (intros; apply Hreg; right; assumption).
    destruct (Hreg xw (or_introl eq_refl)) as [Hr HJ]. rewrite strain_linear_field by assumption. reflexivity.
  Qed.

  (* dot product with the patch-test forces of one element *)
  Lemma patch_list_dot a b ax k : forall (vl : list R) vz, length vl = S (S k) ->
    dotR ([a] ++ repeat 0 k ++ [b; ax]) (vl ++ [vz]) = a * nth 0 vl 0 + b * nth (S k) vl 0 + ax * vz.
  Proof.
    intros vl vz Hl. destruct vl as [|v0 vl]; [discriminate|]. cbn [app]. rewrite dot_cons. cbn [nth].
    assert (G : forall k (wl : list R), length wl = S k -> dotR (repeat 0 k ++ [b; ax]) (wl ++ [vz]) = b * nth k wl 0 + ax * vz).
    { clear. induction k; intros wl Hw.
      - destruct wl as [|w [|? ?]]; try discriminate. cbn [repeat app nth]. rewrite !dot_cons, dot_nil_l. ring.
      - destruct wl as [|w wl]; [discriminate|]. cbn [repeat app nth]. rewrite dot_cons, IHk by (simpl in Hw; lia). ring. }
    rewrite G by (simpl in Hl; lia). ring.
  Qed.

  Lemma nth_firstn_lt (l : list R) i k : (i < k)%nat -> nth i (firstn k l) 0 = nth i l 0.
  Proof. revert i l; induction k; intros i l H; [lia|]. destruct l; [destruct i; reflexivity|]. destruct i; [reflexivity|]. simpl. apply IHk. lia. Qed.
  Lemma nth_skipn (l : list R) i k : nth i (skipn k l) 0 = nth (k + i) l 0.
  Proof. revert l; induction k; intros l; [reflexivity|]. destruct l; [destruct i; reflexivity|]. simpl. apply IHk. Qed.

  (* nodes of the mesh: the local nodes of the first element, then the rest *)
  Lemma elem_radii_nth r0 dr i : nth i (elem_radii RNum e r0 dr) 0 = if (i <? S p)%nat then r0 + dr * ((nth i (nodes e) 0 + 1) / 2) else 0.
  Proof.
    unfold elem_radii. destruct (i <? S p)%nat eqn:E.
    - apply Nat.ltb_lt in E. rewrite (nth_map_lt _ _ _ 0) by lia. reflexivity.
    - apply Nat.ltb_ge in E. apply nth_overflow. rewrite map_length. lia.
  Qed.
  Lemma mesh_nodes_hd r0 drs : hd 0 (mesh_nodes RNum e r0 drs) = r0.
  Proof.
    destruct drs as [|dr rest]; [reflexivity|]. cbn [mesh_nodes]. rewrite Hnodes. replace (S p - 1)%nat with p by lia.
    pose proof (elem_radii_length e p Hnodes r0 dr) as L.
    rewrite hd_firstn_app by (try lia; intros E; rewrite E in L; discriminate).
    rewrite elem_radii_nth. replace (0 <? S p)%nat with true by reflexivity. rewrite Hfirst. field.
  Qed.
  Lemma mesh_nodes_length r0 drs : length (mesh_nodes RNum e r0 drs) = (p * length drs + 1)%nat.
  Proof.
    revert r0; induction drs as [|dr rest IH]; intros r0; cbn [mesh_nodes length]; [lia|].
    rewrite app_length, firstn_length, IH, (elem_radii_length e p Hnodes), Hnodes. lia.
  Qed.
  Lemma mesh_nodes_skipn r0 dr rest : skipn p (mesh_nodes RNum e r0 (dr :: rest)) = mesh_nodes RNum e (r0 + dr) rest.
  Proof.
    cbn [mesh_nodes]. rewrite Hnodes. replace (S p - 1)%nat with p by lia.
    rewrite skipn_app, firstn_length, (elem_radii_length e p Hnodes). replace (p - Nat.min p (S p))%nat with 0%nat by lia.
    rewrite skipn_all2 by (rewrite firstn_length, (elem_radii_length e p Hnodes); lia). reflexivity.
  Qed.
  Lemma mesh_nodes_firstn r0 dr rest : firstn (S p) (mesh_nodes RNum e r0 (dr :: rest)) = elem_radii RNum e r0 dr.
  Proof.
    pose proof (elem_radii_length e p Hnodes r0 dr) as L.
    cbn [mesh_nodes]. rewrite Hnodes. replace (S p - 1)%nat with p by lia.
    rewrite firstn_app, firstn_length, L. replace (S p - Nat.min p (S p))%nat with 1%nat by lia.
    rewrite firstn_firstn. replace (Nat.min (S p) p) with p by lia.
    rewrite (firstn_nth_split (elem_radii RNum e r0 dr) p L) at 2. f_equal. cbn [RNum nadd].
    pose proof (mesh_nodes_hd (r0 + dr) rest) as Hh. pose proof (mesh_nodes_length (r0 + dr) rest) as Hl.
    destruct (mesh_nodes RNum e (r0 + dr) rest) as [|h t]; [simpl in Hl; lia|]. cbn [firstn hd] in *. subst h. f_equal.
    rewrite elem_radii_nth. replace (p <? S p)%nat with true by (symmetry; apply Nat.ltb_lt; lia). rewrite Hlast. field.
  Qed.

  (* telescoping sum of the patch-test forces of the elements tested against a global vector *)
  Lemma patch_sum sig a ezz s z twopi vz : sig (a, ezz, a) = (s, z, s) ->
    forall drs r0 vs, 0 < r0 -> Forall (fun dr => 0 < dr) drs -> length vs = (p * length drs + 1)%nat ->
    sum_elems p (fun el ul vl => dotR (fst (ef_forces RNum e gps sig ezz twopi el ul)) vl + snd (ef_forces RNum e gps sig ezz twopi el ul) * vz)
              (chain_els RNum r0 drs) (map (Rmult a) (mesh_nodes RNum e r0 drs)) vs
    = twopi * s * (- r0) * hd 0 vs + twopi * s * (r0 + sumR drs) * last vs 0
      + twopi * z / 2 * ((r0 + sumR drs) * (r0 + sumR drs) - r0 * r0) * vz.
  Proof.
    intros Hsig. induction drs as [|dr rest IH]; intros r0 vs H0 Hd Hv; cbn [chain_els sum_elems sumR fold_right length] in *.
    - destruct vs as [|v [|? ?]]; cbn in Hv; try lia. cbn [hd last]. ring.
    - inversion Hd as [|? ? Hdr Hrest]; subst.
      rewrite firstn_map, skipn_map, mesh_nodes_firstn, mesh_nodes_skipn.
      cbn [RNum nadd]. rewrite IH; [|lra|assumption|rewrite skipn_length; lia]. clear IH.
      unfold ef_forces. cbn [fst snd]. rewrite Hnodes.
      rewrite (split_axial_dot (S p)); [|apply (elem_forces_sig_length e (S p) Hsf Hdsf); apply (elem_radii_length e p Hnodes)|rewrite firstn_length; lia].
      rewrite elem_forces_linear_field by assumption. rewrite Hsig, Hpatch by lra.
      replace (repeat 0 (p - 1) ++ [twopi * s * (r0 + dr); twopi * z * (r0 * dr + dr * dr / 2)])
        with (repeat 0 (p - 1) ++ [twopi * s * (r0 + dr); twopi * z * (r0 * dr + dr * dr / 2)]) by reflexivity.
      rewrite (patch_list_dot _ _ _ (p - 1)) by (rewrite firstn_length; lia).
      replace (S (p - 1)) with p by lia.
      rewrite !nth_firstn_lt by lia.
      assert (E0 : nth 0 vs 0 = hd 0 vs) by (destruct vs; reflexivity). rewrite E0.
      assert (Ep : hd 0 (skipn p vs) = nth p vs 0).
      { rewrite <- (Nat.add_0_r p) at 2. rewrite <- nth_skipn. destruct (skipn p vs); reflexivity. }
      rewrite Ep.
      assert (El : last (skipn p vs) 0 = last vs 0).
      { rewrite <- (firstn_skipn p vs) at 2. rewrite last_app_ne; [reflexivity|].
        intros E. apply (f_equal (@length R)) in E. rewrite skipn_length in E. simpl in E. lia. }
      rewrite El. cbn [RNum nadd]. change (fold_right Rplus 0 rest) with (sumR rest). field.
  Qed.

  Theorem mesh_patch_test sig a ezz s z pi (endcap : bool) drs Ri :
    sig (a, ezz, a) = (s, z, s) -> 0 < Ri -> Forall (fun dr => 0 < dr) drs ->
    z = (if endcap then s else 0) ->
    let Re := Ri + sumR drs in
    let R := pipe_residual RNum p (ef_forces RNum e gps sig ezz (2 * pi)) (chain_els RNum Ri drs)
                           (map (Rmult a) (mesh_nodes RNum e Ri drs)) Ri Re (- s) (- s) endcap pi in
    Forall (fun x => x = 0) (fst R) /\ snd R = 0.
  Proof.
    intros Hsig H0 Hd Hz. cbv zeta.
    assert (Lc : forall r0 l, length (chain_els RNum r0 l) = length l) by (intros r0 l; revert r0; induction l; intros; simpl; auto).
    set (ef := ef_forces RNum e gps sig ezz (2 * pi)).
    set (els := chain_els RNum Ri drs). set (us := map (Rmult a) (mesh_nodes RNum e Ri drs)).
    assert (Hu : length us = (p * length els + 1)%nat) by (unfold us, els; rewrite map_length, mesh_nodes_length, Lc; reflexivity).
    pose proof (assemble_length p ef (ef_forces_length e p Hsf Hdsf Hnodes gps sig ezz (2 * pi)) els us) as Hl.
    assert (Key : forall vs vz, length vs = (p * length els + 1)%nat ->
              dotR (fst (pipe_residual RNum p ef els us Ri (Ri + sumR drs) (- s) (- s) endcap pi)) vs
              + snd (pipe_residual RNum p ef els us Ri (Ri + sumR drs) (- s) (- s) endcap pi) * vz = 0).
    { intros vs vz Hv. unfold pipe_residual. cbn [fst snd].
      assert (Hne : fst (assemble RNum p ef els us) <> []) by (intros E; rewrite E in Hl; cbn in Hl; lia).
      rewrite add_last_dot; [|rewrite add_hd_length; lia|destruct (fst (assemble RNum p ef els us)); [congruence|discriminate]].
      rewrite add_hd_dot by exact Hne.
      rewrite (assemble_dot p ef (ef_forces_length e p Hsf Hdsf Hnodes gps sig ezz (2 * pi))) by exact Hv.
      rewrite assemble_axial.
      pose proof (patch_sum sig a ezz s z (2 * pi) vz Hsig drs Ri vs H0 Hd) as PS.
      rewrite <- sum_elems_plus in PS. fold ef els us in PS.
      rewrite <- (sum_elems_scal p (fun el ul => snd (ef el ul)) vz els us vs us) in PS.
      assert (Hv' : length vs = (p * length drs + 1)%nat) by (rewrite Hv; unfold els; rewrite Lc; reflexivity). specialize (PS Hv').
      cbn [RNum nadd nsub nmul ndiv nZ c neg].
      destruct endcap; subst z; nra. }
    split.
    - apply zero_of_dots. intros v Hv. specialize (Key v 0). rewrite Rmult_0_r, Rplus_0_r in Key. apply Key.
      rewrite Hv. unfold pipe_residual. cbn [fst]. rewrite add_last_length, add_hd_length. exact Hl.
    - specialize (Key (zeros RNum (p * length els + 1)) 1 (zeros_length _)).
      assert (Z : forall l n, dotR l (zeros RNum n) = 0).
      { induction l; intros [|n]; try reflexivity. change (zeros RNum (S n)) with (0 :: zeros RNum n). rewrite dot_cons, IHl. ring. }
      rewrite Z in Key. lra.
  Qed.
End MeshPatch.

(* ---- the mesh of the code (ne elements of equal width) is a chain --------------------------------------- *)
Lemma uniform_els_chain Ri Re ne : (0 < ne)%nat ->
  uniform_els RNum Ri Re ne = chain_els RNum Ri (repeat ((Re - Ri) / INR ne) ne) /\ Ri + sumR (repeat ((Re - Ri) / INR ne) ne) = Re.
Proof.
  intros Hne. unfold uniform_els. cbn [RNum nadd nsub nmul ndiv nZ c]. rewrite <- INR_IZR_INZ.
  set (dr := (Re - Ri) / INR ne).
  assert (G : forall k start r0, r0 = Ri + dr * INR start ->
            map (fun i => (Ri + dr * IZR (Z.of_nat i), dr)) (seq start k) = chain_els RNum r0 (repeat dr k)).
  { induction k; intros start r0 Hr; [reflexivity|]. cbn [seq map repeat chain_els]. rewrite <- INR_IZR_INZ, <- Hr. f_equal.
    apply IHk. cbn [RNum nadd]. rewrite S_INR, Hr. ring. }
  split.
  - apply G. simpl. ring.
  - assert (S : forall k, sumR (repeat dr k) = INR k * dr).
    { induction k; [simpl; ring|]. cbn [repeat sumR fold_right]. unfold sumR in IHk. rewrite IHk, S_INR. ring. }
    rewrite S. unfold dr. field. apply not_0_INR. lia.
Qed.
Lemma repeat_pos dr k : 0 < dr -> Forall (fun d => 0 < d) (repeat dr k).
Proof. intros H. induction k; constructor; auto. Qed.

(* ---- the three elements ----------------------------------------------------------------------------------- *)
Definition hookeK (E nu : R) : list R :=
  let l := lame_lambda E nu in let m := lame_mu E nu in [l + 2 * m; l; l; l; l + 2 * m; l; l; l; l + 2 * m].
Lemma hookeK_sym E nu : sym_tangent (hookeK E nu).
Proof. unfold sym_tangent, hookeK, kx. cbn. auto. Qed.

(* uniform pressure P inside and outside: the Lame solution is u = a r (the only Lame fields the element space
   represents exactly), stresses srr = stt = -P *)
Lemma lame_uniform_pressure E nu Ri Re P sz : 0 < E -> -1 < nu < 1 / 2 -> 0 < Ri < Re ->
  let a := (- P - nu * (- P + sz)) / E in
  let ezz := lame_ezz E nu Ri Re P P sz in
  (forall r, lame_u E nu Ri Re P P sz r = a * r) /\
  stress RNum (hookeK E nu) (a, ezz, a) = (- P, sz, - P).
Proof.
  intros HE Hnu HR. assert (0 < Re * Re - Ri * Ri) by nra. cbv zeta. split.
  - intros r. unfold lame_u. cbv [lame_u_G lame_srr_G lame_stt_G lame_u_AB lame_srr_AB lame_stt_AB lameA_G lameB_G RNum nadd nsub nmul ndiv nZ].
    replace ((P - P) * Ri * Ri * Re * Re / (Re * Re - Ri * Ri)) with 0 by (field; lra).
    replace ((P * Ri * Ri - P * Re * Re) / (Re * Re - Ri * Ri)) with (- P) by (field; lra).
    unfold Rdiv. ring.
  - unfold stress, hookeK, kx, lame_ezz, lame_lambda, lame_mu. cbv [lame_ezz_G lameA_G RNum nadd nsub nmul ndiv nZ nth].
    replace ((P * Ri * Ri - P * Re * Re) / (Re * Re - Ri * Ri)) with (- P) by (field; lra).
    f_equal; [f_equal|]; field; lra.
Qed.

Section Instances.
  (* generic statement of the mesh-level patch test with the exact Lame field, for an element satisfying the hypotheses
     of Section MeshPatch *)
  Variable e : @Elem R.
  Variable p : nat.
  Variable gps : list (R * R).
  Hypothesis Hp : (1 <= p)%nat.
  Hypothesis Hsf : length (sf e) = S p.
  Hypothesis Hdsf : length (dsf e) = S p.
  Hypothesis Hnodes : length (nodes e) = S p.
  Hypothesis Hfirst : nth 0 (nodes e) 0 = -1.
  Hypothesis Hlast : nth p (nodes e) 0 = 1.
  Hypothesis Hgeom : forall r0 dr x, interp RNum e (elem_radii RNum e r0 dr) x = r0 + dr * (x + 1) / 2
                                     /\ dinterp RNum e (elem_radii RNum e r0 dr) x = dr / 2.
  Hypothesis Hgps : forall xw, In xw gps -> -1 <= fst xw <= 1.
  Hypothesis Hpatch : forall r0 dr s z twopi, dr <> 0 ->
    elem_forces_of_stress RNum e false gps (elem_radii RNum e r0 dr) twopi (s, z, s)
    = [twopi * s * (- r0)] ++ repeat 0 (p - 1) ++ [twopi * s * (r0 + dr); twopi * z * (r0 * dr + dr * dr / 2)].

  (* PipeTest's mesh (ne equal elements), nodal values of the exact Lame solution for Pi = Pe = P, both axial loadings:
     the assembled residual vanishes, for every ne *)
  Theorem lame_patch_uniform_mesh E nu Ri Re P pi (endcap : bool) ne :
    0 < E -> -1 < nu < 1 / 2 -> 0 < Ri < Re -> (0 < ne)%nat ->
    let sz := if endcap then szz_end_cap Ri Re P P else szz_no_axial_force in
    let dr := (Re - Ri) / INR ne in
    let us := map (lame_u E nu Ri Re P P sz) (mesh_nodes RNum e Ri (repeat dr ne)) in
    let R := pipe_residual RNum p (ef_forces RNum e gps (stress RNum (hookeK E nu)) (lame_ezz E nu Ri Re P P sz) (2 * pi))
                           (uniform_els RNum Ri Re ne) us Ri Re P P endcap pi in
    Forall (fun x => x = 0) (fst R) /\ snd R = 0.
  Proof.
    intros HE Hnu HR Hne. cbv zeta.
    set (sz := if endcap then szz_end_cap Ri Re P P else szz_no_axial_force).
    destruct (lame_uniform_pressure E nu Ri Re P sz HE Hnu HR) as [Hu Hs]. cbv zeta in Hu, Hs.
    destruct (uniform_els_chain Ri Re ne Hne) as [Hc HRe].
    set (dr := (Re - Ri) / INR ne) in *.
    assert (Hdr : 0 < dr). { unfold dr. apply Rdiv_lt_0_compat; [lra|]. apply lt_0_INR. lia. }
    rewrite Hc. rewrite (map_ext _ _ Hu).
    pose proof (mesh_patch_test e p gps Hp Hsf Hdsf Hnodes Hfirst Hlast Hgeom Hgps Hpatch
                  (stress RNum (hookeK E nu)) _ _ (- P) sz pi endcap (repeat dr ne) Ri Hs (proj1 HR) (repeat_pos dr ne Hdr)) as T.
    cbv zeta in T. rewrite HRe, Ropp_involutive in T. apply T.
    unfold sz. destruct endcap; [|reflexivity].
    unfold szz_end_cap, lameA. cbv [lameA_G RNum nadd nsub nmul ndiv]. field. nra.
  Qed.
End Instances.

(* hypotheses of the sections for the three elements *)
Lemma lin_hyps : length (sf (lin_elem RNum)) = 2%nat /\ length (dsf (lin_elem RNum)) = 2%nat /\ length (nodes (lin_elem RNum)) = 2%nat
  /\ nth 0 (nodes (lin_elem RNum)) 0 = -1 /\ nth 1 (nodes (lin_elem RNum)) 0 = 1.
Proof. repeat split; cbn; lra. Qed.
Lemma quad_hyps : length (sf (quad_elem RNum)) = 3%nat /\ length (dsf (quad_elem RNum)) = 3%nat /\ length (nodes (quad_elem RNum)) = 3%nat
  /\ nth 0 (nodes (quad_elem RNum)) 0 = -1 /\ nth 2 (nodes (quad_elem RNum)) 0 = 1.
Proof. repeat split; cbn; lra. Qed.
Lemma cub_hyps : length (sf (cub_elem RNum)) = 4%nat /\ length (dsf (cub_elem RNum)) = 4%nat /\ length (nodes (cub_elem RNum)) = 4%nat
  /\ nth 0 (nodes (cub_elem RNum)) 0 = -1 /\ nth 3 (nodes (cub_elem RNum)) 0 = 1.
Proof. repeat split; cbn; lra. Qed.

Lemma chain_els_length r0 l : length (chain_els RNum r0 l) = length l.
Proof. revert r0; induction l; intros; simpl; auto. Qed.

(* ---- statements for one element type, hypotheses discharged ------------------------------------------------ *)
Section PerElement.
  Variable e : @Elem R.
  Variable p : nat.
  Hypothesis Hp : (1 <= p)%nat.
  Hypothesis Hsf : length (sf e) = S p.
  Hypothesis Hdsf : length (dsf e) = S p.
  Hypothesis Hnodes : length (nodes e) = S p.
  Hypothesis Hgeom : forall r0 dr x, interp RNum e (elem_radii RNum e r0 dr) x = r0 + dr * (x + 1) / 2
                                     /\ dinterp RNum e (elem_radii RNum e r0 dr) x = dr / 2.

  (* nodal interpolant of any field f on any chain mesh *)
  Lemma interpolant_weak_form (f : R -> R) gps sig ezz pi Pi Pe endcap drs Ri vs vz :
    length vs = (p * length drs + 1)%nat ->
    let Re := Ri + sumR drs in
    let us := map f (mesh_nodes RNum e Ri drs) in
    let R := pipe_residual RNum p (ef_forces RNum e gps sig ezz (2 * pi)) (chain_els RNum Ri drs) us Ri Re Pi Pe endcap pi in
    dotR (fst R) vs + snd R * vz
    = sum_elems p (weak_elem_of e gps sig ezz (2 * pi) vz) (chain_els RNum Ri drs) us vs
      - weak_ext Ri Re Pi Pe endcap pi (hd 0 vs) (last vs 0) vz.
  Proof.
    intros Hv. cbv zeta. apply (residual_is_weak_form e p Hsf Hdsf Hnodes).
    - rewrite map_length, (mesh_nodes_length e p Hp Hsf Hdsf Hnodes), chain_els_length. reflexivity.
    - rewrite chain_els_length. exact Hv.
  Qed.

  Lemma stiffness_symmetric gps K pi els us uz vs vz :
    sym_tangent K -> (forall xw, In xw gps -> -1 <= fst xw <= 1) -> Forall (fun el : R * R => 0 < fst el /\ 0 < snd el) els ->
    length us = (p * length els + 1)%nat -> length vs = (p * length els + 1)%nat ->
    let Ku := assemble RNum p (ef_stiff RNum e gps K (2 * pi) uz) els us in
    let Kv := assemble RNum p (ef_stiff RNum e gps K (2 * pi) vz) els vs in
    dotR (fst Ku) vs + snd Ku * vz = dotR (fst Kv) us + snd Kv * uz.
  Proof.
    intros HK Hg Hels Hu Hv. apply (assembled_stiffness_symmetric e p Hsf Hdsf Hnodes); auto.
    intros [r0 dr] Hin. rewrite Forall_forall in Hels. destruct (Hels _ Hin) as [H0 Hd]. apply (regular e gps Hgeom Hg); assumption.
  Qed.
End PerElement.

(* ---- the three elements of PipeTest ---------------------------------------------------------------------- *)
Definition pipe_elems : list (@Elem R) := [lin_elem RNum; quad_elem RNum; cub_elem RNum].
Definition deg (e : @Elem R) : nat := (length (nodes e) - 1)%nat.
Lemma pipe_elems_hyps e : In e pipe_elems ->
  (1 <= deg e)%nat /\ length (sf e) = S (deg e) /\ length (dsf e) = S (deg e) /\ length (nodes e) = S (deg e)
  /\ nth 0 (nodes e) 0 = -1 /\ nth (deg e) (nodes e) 0 = 1
  /\ forall r0 dr x, interp RNum e (elem_radii RNum e r0 dr) x = r0 + dr * (x + 1) / 2
                     /\ dinterp RNum e (elem_radii RNum e r0 dr) x = dr / 2.
Proof.
  intros [<-|[<-|[<-|[]]]]; unfold deg; cbn [lin_elem quad_elem cub_elem nodes sf dsf lin_nodes quad_nodes cub_nodes lin_sf quad_sf cub_sf
    lin_dsf quad_dsf cub_dsf length Nat.sub nth]; (repeat split; try lia; try (cbn; lra)).
Qed.

Theorem pipe_residual_is_weak_form e : In e pipe_elems ->
  forall gps sig ezz pi Ri Re Pi Pe endcap els us vs vz,
  length us = (deg e * length els + 1)%nat -> length vs = (deg e * length els + 1)%nat ->
  let R := pipe_residual RNum (deg e) (ef_forces RNum e gps sig ezz (2 * pi)) els us Ri Re Pi Pe endcap pi in
  dotR (fst R) vs + snd R * vz
  = sum_elems (deg e) (weak_elem_of e gps sig ezz (2 * pi) vz) els us vs - weak_ext Ri Re Pi Pe endcap pi (hd 0 vs) (last vs 0) vz.
Proof. intros He. destruct (pipe_elems_hyps e He) as (Hp & H1 & H2 & H3 & _). intros. apply residual_is_weak_form; assumption. Qed.

Theorem pipe_interpolant_weak_form e : In e pipe_elems ->
  forall (f : R -> R) gps sig ezz pi Pi Pe endcap drs Ri vs vz, length vs = (deg e * length drs + 1)%nat ->
  let Re := Ri + sumR drs in
  let us := map f (mesh_nodes RNum e Ri drs) in
  let R := pipe_residual RNum (deg e) (ef_forces RNum e gps sig ezz (2 * pi)) (chain_els RNum Ri drs) us Ri Re Pi Pe endcap pi in
  dotR (fst R) vs + snd R * vz
  = sum_elems (deg e) (weak_elem_of e gps sig ezz (2 * pi) vz) (chain_els RNum Ri drs) us vs
    - weak_ext Ri Re Pi Pe endcap pi (hd 0 vs) (last vs 0) vz.
Proof. intros He. destruct (pipe_elems_hyps e He) as (Hp & H1 & H2 & H3 & _). intros. apply interpolant_weak_form; assumption. Qed.

Theorem pipe_stiffness_is_tangent e : In e pipe_elems ->
  forall gps K twopi uz els us, length us = (deg e * length els + 1)%nat ->
  assemble RNum (deg e) (ef_stiff RNum e gps K twopi uz) els us
  = assemble RNum (deg e) (ef_forces RNum e gps (stress RNum K) uz twopi) els us.
Proof. intros He. destruct (pipe_elems_hyps e He) as (Hp & H1 & H2 & H3 & _). intros. apply stiffness_action_is_forces; assumption. Qed.

Theorem pipe_stiffness_symmetric e : In e pipe_elems ->
  forall gps K pi els us uz vs vz,
  sym_tangent K -> (forall xw, In xw gps -> -1 <= fst xw <= 1) -> Forall (fun el : R * R => 0 < fst el /\ 0 < snd el) els ->
  length us = (deg e * length els + 1)%nat -> length vs = (deg e * length els + 1)%nat ->
  let Ku := assemble RNum (deg e) (ef_stiff RNum e gps K (2 * pi) uz) els us in
  let Kv := assemble RNum (deg e) (ef_stiff RNum e gps K (2 * pi) vz) els vs in
  dotR (fst Ku) vs + snd Ku * vz = dotR (fst Kv) us + snd Kv * uz.
Proof. intros He. destruct (pipe_elems_hyps e He) as (Hp & H1 & H2 & H3 & _ & _ & Hg). intros. apply stiffness_symmetric; assumption. Qed.

(* mesh-level patch test with the exact Lame field (uniform pressure), PipeTest's mesh of ne equal elements *)
Definition lame_patch_statement (e : @Elem R) (gps : list (R * R)) : Prop :=
  forall E nu Ri Re P pi (endcap : bool) ne, 0 < E -> -1 < nu < 1 / 2 -> 0 < Ri < Re -> (0 < ne)%nat ->
  let sz := if endcap then szz_end_cap Ri Re P P else szz_no_axial_force in
  let dr := (Re - Ri) / INR ne in
  let us := map (lame_u E nu Ri Re P P sz) (mesh_nodes RNum e Ri (repeat dr ne)) in
  let R := pipe_residual RNum (deg e) (ef_forces RNum e gps (stress RNum (hookeK E nu)) (lame_ezz E nu Ri Re P P sz) (2 * pi))
                         (uniform_els RNum Ri Re ne) us Ri Re P P endcap pi in
  Forall (fun x => x = 0) (fst R) /\ snd R = 0.

Ltac in_gps := let xw := fresh in let H := fresh in intros xw H; cbn [In] in H;
  repeat (destruct H as [<-|H]; [cbn [fst]; lra|]); destruct H.
Theorem lin_lame_patch x0 w0 x1 w1 : w0 + w1 = 2 -> w0 * x0 + w1 * x1 = 0 -> -1 <= x0 <= 1 -> -1 <= x1 <= 1 ->
  lame_patch_statement (lin_elem RNum) [(x0, w0); (x1, w1)].
Proof.
  intros M0 M1 B0 B1. destruct (pipe_elems_hyps (lin_elem RNum)) as (Hp & H1 & H2 & H3 & H4 & H5 & Hg); [left; reflexivity|].
  unfold lame_patch_statement. apply (lame_patch_uniform_mesh (lin_elem RNum) (deg (lin_elem RNum))); auto.
  - in_gps.
  - intros. apply (lin_patch x0 w0 x1 w1 M0 M1); assumption.
Qed.
Theorem quad_lame_patch x0 w0 x1 w1 x2 w2 : w0 + w1 + w2 = 2 -> w0 * x0 + w1 * x1 + w2 * x2 = 0 ->
  w0 * (x0 * x0) + w1 * (x1 * x1) + w2 * (x2 * x2) = 2 / 3 -> -1 <= x0 <= 1 -> -1 <= x1 <= 1 -> -1 <= x2 <= 1 ->
  lame_patch_statement (quad_elem RNum) [(x0, w0); (x1, w1); (x2, w2)].
Proof.
  intros M0 M1 M2 B0 B1 B2. destruct (pipe_elems_hyps (quad_elem RNum)) as (Hp & H1 & H2 & H3 & H4 & H5 & Hg); [right; left; reflexivity|].
  unfold lame_patch_statement. apply (lame_patch_uniform_mesh (quad_elem RNum) (deg (quad_elem RNum))); auto.
  - in_gps.
  - intros. apply (quad_patch x0 w0 x1 w1 x2 w2 M0 M1 M2); assumption.
Qed.
Theorem cub_lame_patch x0 w0 x1 w1 x2 w2 x3 w3 : w0 + w1 + w2 + w3 = 2 -> w0 * x0 + w1 * x1 + w2 * x2 + w3 * x3 = 0 ->
  w0 * (x0 * x0) + w1 * (x1 * x1) + w2 * (x2 * x2) + w3 * (x3 * x3) = 2 / 3 ->
  w0 * (x0 * x0 * x0) + w1 * (x1 * x1 * x1) + w2 * (x2 * x2 * x2) + w3 * (x3 * x3 * x3) = 0 ->
  -1 <= x0 <= 1 -> -1 <= x1 <= 1 -> -1 <= x2 <= 1 -> -1 <= x3 <= 1 ->
  lame_patch_statement (cub_elem RNum) [(x0, w0); (x1, w1); (x2, w2); (x3, w3)].
Proof.
  intros M0 M1 M2 M3 B0 B1 B2 B3. destruct (pipe_elems_hyps (cub_elem RNum)) as (Hp & H1 & H2 & H3 & H4 & H5 & Hg); [right; right; left; reflexivity|].
  unfold lame_patch_statement. apply (lame_patch_uniform_mesh (cub_elem RNum) (deg (cub_elem RNum))); auto.
  - in_gps.
  - intros. apply (cub_patch x0 w0 x1 w1 x2 w2 x3 w3 M0 M1 M2 M3); assumption.
Qed.

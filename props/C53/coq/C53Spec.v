(* C53 -- specification, part 2 (needs derivatives: Coquelicot):
   1. the boundary-value problem of an elastic isotropic pipe (axisymmetric generalised plane strain, small strain)
      that the closed-form Lame solution of C53SpecFE.v (the oracle the execution stage compares mtest with) solves,
   2. consistency of the derivatives of the shape functions. *)
From Coq Require Import ZArith QArith Reals List.
From Coquelicot Require Import Coquelicot.
From C53 Require Export C53SpecFE.
Import ListNotations.
Local Open Scope R_scope.

(* ---- the boundary value problem ---------------------------------------------------------------------- *)
(* u : radial displacement, ezz : uniform axial strain, (srr, stt, szz) : stresses, Faxial : resultant axial force *)
Record pipe_bvp (E nu Ri Re Pi Pe Faxial : R) (u : R -> R) (ezz : R) (srr stt szz : R -> R) : Prop := {
  (* compatibility + constitutive law: err = du/dr, ett = u/r *)
  bvp_hooke : forall r, Ri <= r <= Re -> exists du, is_derive u r du /\
      srr r = hooke E nu du (u r / r) ezz /\ stt r = hooke E nu (u r / r) du ezz /\ szz r = hooke E nu ezz du (u r / r);
  (* radial equilibrium: d srr/dr + (srr - stt)/r = 0 *)
  bvp_equilibrium : forall r, Ri <= r <= Re -> is_derive srr r ((stt r - srr r) / r);
  (* pressure boundary conditions *)
  bvp_inner : srr Ri = - Pi;
  bvp_outer : srr Re = - Pe;
  (* axial resultant: integral over the section of szz (stated through an antiderivative of 2 pi r szz) *)
  bvp_axial : exists Fz : R -> R, (forall r, Ri <= r <= Re -> is_derive Fz r (2 * PI * r * szz r)) /\ Fz Re - Fz Ri = Faxial
}.

Definition derivative_consistent (sf dsf : list (R -> R)) : Prop :=
  length sf = length dsf /\
  forall i x, (i < length sf)%nat -> is_derive (nth i sf (fun _ => 0)) x (nth i dsf (fun _ => 0) x).

(* C53 -- specification, written from continuum mechanics, independently of the code.
   1. the boundary-value problem of an elastic isotropic pipe (axisymmetric generalised plane strain, small strain),
   2. the closed-form Lame solution (the oracle that the execution stage compares mtest with),
   3. what a 1D Lagrange element and a Gauss rule have to satisfy. *)
From Coq Require Import ZArith QArith Reals List.
From Coquelicot Require Import Coquelicot.
Import ListNotations.

(* abstract scalar: the closed form below and the element model (C53Model.v) are written once and instantiated
   with R (theorems) and Q (exact execution, so that the oracle the check compares mtest with IS the proved one) *)
Record Num (T : Type) := mkNum {
  nadd : T -> T -> T; nsub : T -> T -> T; nmul : T -> T -> T; ndiv : T -> T -> T; nZ : Z -> T }.
Arguments nadd {T}. Arguments nsub {T}. Arguments nmul {T}. Arguments ndiv {T}. Arguments nZ {T}.
Definition RNum : Num R := mkNum R Rplus Rminus Rmult Rdiv IZR.
Definition QNum : Num Q :=
  mkNum Q (fun a b => Qred (Qplus a b)) (fun a b => Qred (Qminus a b)) (fun a b => Qred (Qmult a b)) (fun a b => Qred (Qdiv a b)) inject_Z.

(* plain (non-normalising) rationals: cheaper for shallow expressions such as the closed form *)
Definition QNumPlain : Num Q := mkNum Q Qplus Qminus Qmult Qdiv inject_Z.

Section LameClosedForm.
  Context {T : Type} (N : Num T).
  Local Notation "a + b" := (nadd N a b).
  Local Notation "a - b" := (nsub N a b).
  Local Notation "a * b" := (nmul N a b).
  Local Notation "a / b" := (ndiv N a b).
  Definition lameA_G (Ri Re Pi Pe : T) : T := (Pi * Ri * Ri - Pe * Re * Re) / (Re * Re - Ri * Ri).
  Definition lameB_G (Ri Re Pi Pe : T) : T := (Pi - Pe) * Ri * Ri * Re * Re / (Re * Re - Ri * Ri).
  Definition lame_srr_G (Ri Re Pi Pe r : T) : T := lameA_G Ri Re Pi Pe - lameB_G Ri Re Pi Pe / (r * r).
  Definition lame_stt_G (Ri Re Pi Pe r : T) : T := lameA_G Ri Re Pi Pe + lameB_G Ri Re Pi Pe / (r * r).
  (* szz is uniform: value s *)
  Definition lame_ezz_G (E nu Ri Re Pi Pe s : T) : T := (s - nZ N 2 * nu * lameA_G Ri Re Pi Pe) / E.
  Definition lame_u_G (E nu Ri Re Pi Pe s r : T) : T :=
    r * (lame_stt_G Ri Re Pi Pe r - nu * (lame_srr_G Ri Re Pi Pe r + s)) / E.
End LameClosedForm.

Local Open Scope R_scope.

(* ---- isotropic Hooke law, components (rr, zz, tt) --------------------------------------------------- *)
Definition lame_lambda (E nu : R) : R := nu * E / ((1 + nu) * (1 - 2 * nu)).
Definition lame_mu (E nu : R) : R := E / (2 * (1 + nu)).
Definition hooke (E nu e1 e2 e3 : R) : R := lame_lambda E nu * (e1 + e2 + e3) + 2 * lame_mu E nu * e1.

(* ---- the boundary value problem ---------------------------------------------------------------------- *)
(* u : radial displacement, ezz : uniform axial strain, (srr, stt, szz) : stresses, Faxial : resultant axial force *)
Record pipe_bvp (E nu Ri Re Pi Pe Faxial : R) (u : R -> R) (ezz : R) (srr stt szz : R -> R) : Prop := {
  (* compatibility + constitutive law: err = du/dr, ett = u/r *)
  bvp_hooke : forall r, Ri <= r <= Re -> exists du, is_derive u r du /\
      srr r = hooke E nu du (u r / r) ezz /\ stt r = hooke E nu (u r / r) du ezz /\ szz r = hooke E nu ezz du (u r / r);
  (* radial equilibrium: d srr/dr + (srr - stt)/r = 0 *)
  bvp_equilibrium : forall r, Ri <= r <= Re -> is_derive srr r ((stt r - srr r) / r);
  (* pressure boundary conditions *)
  bvp_inner : srr Ri = - Pi;
  bvp_outer : srr Re = - Pe;
  (* axial resultant: integral over the section of szz (stated through an antiderivative of 2 pi r szz) *)
  bvp_axial : exists Fz : R -> R, (forall r, Ri <= r <= Re -> is_derive Fz r (2 * PI * r * szz r)) /\ Fz Re - Fz Ri = Faxial
}.

(* ---- Lame closed form --------------------------------------------------------------------------------- *)
Definition lameA := lameA_G RNum.
Definition lameB := lameB_G RNum.
Definition lame_srr := lame_srr_G RNum.
Definition lame_stt := lame_stt_G RNum.
Definition lame_ezz := lame_ezz_G RNum.
Definition lame_u := lame_u_G RNum.
(* axial stress for the two axial loadings used by the check *)
Definition szz_no_axial_force : R := 0.                                              (* @AxialLoading 'None' *)
Definition szz_end_cap (Ri Re Pi Pe : R) : R := lameA Ri Re Pi Pe.                   (* 'EndCapEffect' *)

(* ---- elements --------------------------------------------------------------------------------------- *)
Definition sumR (l : list R) : R := fold_right Rplus 0 l.
Definition partition_of_unity (sf : list (R -> R)) : Prop := forall x, sumR (map (fun f => f x) sf) = 1.
Definition kronecker (i j : nat) : R := if Nat.eqb i j then 1 else 0.
Definition nodal_interpolation (sf : list (R -> R)) (nodes : list R) : Prop :=
  length sf = length nodes /\
  forall i j, (i < length sf)%nat -> (j < length nodes)%nat -> nth i sf (fun _ => 0) (nth j nodes 0) = kronecker i j.
Definition derivative_consistent (sf dsf : list (R -> R)) : Prop :=
  length sf = length dsf /\
  forall i x, (i < length sf)%nat -> is_derive (nth i sf (fun _ => 0)) x (nth i dsf (fun _ => 0) x).
(* a quadrature rule integrates x^k on [-1,1] exactly: 2/(k+1) for even k, 0 for odd k *)
Definition moment (k : nat) : R := if Nat.even k then 2 / INR (k + 1) else 0.
Definition quadR (gps : list (R * R)) (f : R -> R) : R := sumR (map (fun xw => snd xw * f (fst xw)) gps).
Definition exact_to_degree (gps : list (R * R)) (d : nat) : Prop :=
  forall k, (k <= d)%nat -> quadR gps (fun x => x ^ k) = moment k.
Definition exact_to_degree_within (gps : list (R * R)) (d : nat) (eps : R) : Prop :=
  forall k, (k <= d)%nat -> Rabs (quadR gps (fun x => x ^ k) - moment k) <= eps.

(* C53 -- lemmas, part A (Coquelicot): the Lame closed form solves the boundary value problem; shape functions
   (partition of unity, nodal interpolation, derivative consistency). *)
From Coq Require Import ZArith QArith Reals List Lra Lia.
From Coquelicot Require Import Coquelicot.
From C53 Require Import C53Spec C53Model.
Import ListNotations.
Local Open Scope R_scope.


Section Lame.
  Variables E nu Ri Re Pi Pe s : R.
  Hypothesis HE : 0 < E.
  Hypothesis Hnu : -1 < nu < 1 / 2.
  Hypothesis HR : 0 < Ri < Re.

  Lemma den_pos : 0 < Re * Re - Ri * Ri.
  Proof. nra. Qed.

  Lemma lame_u_derive r : 0 < r ->
    is_derive (lame_u E nu Ri Re Pi Pe s) r
      ((lame_srr Ri Re Pi Pe r - nu * (lame_stt Ri Re Pi Pe r + s)) / E).
  Proof.
    intros Hr. pose proof den_pos as Hd.
    unfold lame_u, lame_srr, lame_stt, lameA, lameB; cbv [lame_u_G lame_srr_G lame_stt_G lame_u_AB lame_srr_AB lame_stt_AB lame_ezz_G lameA_G lameB_G RNum nadd nsub nmul ndiv nZ].
    auto_derive.
    - repeat split; try lra; nra.
    - field. repeat split; lra.
  Qed.

  Lemma lame_hooke r : 0 < r ->
    let du := (lame_srr Ri Re Pi Pe r - nu * (lame_stt Ri Re Pi Pe r + s)) / E in
    let ur := lame_u E nu Ri Re Pi Pe s r / r in
    let ezz := lame_ezz E nu Ri Re Pi Pe s in
    lame_srr Ri Re Pi Pe r = hooke E nu du ur ezz /\
    lame_stt Ri Re Pi Pe r = hooke E nu ur du ezz /\
    s = hooke E nu ezz du ur.
  Proof.
    intros Hr. pose proof den_pos as Hd. cbv zeta.
    unfold hooke, lame_lambda, lame_mu, lame_ezz, lame_u, lame_srr, lame_stt, lameA, lameB; cbv [lame_u_G lame_srr_G lame_stt_G lame_u_AB lame_srr_AB lame_stt_AB lame_ezz_G lameA_G lameB_G RNum nadd nsub nmul ndiv nZ].
    repeat split; field; repeat split; lra.
  Qed.

  Lemma lame_equilibrium r : 0 < r ->
    is_derive (lame_srr Ri Re Pi Pe) r ((lame_stt Ri Re Pi Pe r - lame_srr Ri Re Pi Pe r) / r).
  Proof.
    intros Hr. pose proof den_pos as Hd.
    unfold lame_srr, lame_stt, lameA, lameB; cbv [lame_u_G lame_srr_G lame_stt_G lame_u_AB lame_srr_AB lame_stt_AB lame_ezz_G lameA_G lameB_G RNum nadd nsub nmul ndiv nZ].
    auto_derive.
    - repeat split; try lra; nra.
    - field. repeat split; lra.
  Qed.

  Lemma lame_inner : lame_srr Ri Re Pi Pe Ri = - Pi.
  Proof. pose proof den_pos. unfold lame_srr, lameA, lameB; cbv [lame_u_G lame_srr_G lame_stt_G lame_u_AB lame_srr_AB lame_stt_AB lame_ezz_G lameA_G lameB_G RNum nadd nsub nmul ndiv nZ]. field. split; lra. Qed.
  Lemma lame_outer : lame_srr Ri Re Pi Pe Re = - Pe.
  Proof. pose proof den_pos. unfold lame_srr, lameA, lameB; cbv [lame_u_G lame_srr_G lame_stt_G lame_u_AB lame_srr_AB lame_stt_AB lame_ezz_G lameA_G lameB_G RNum nadd nsub nmul ndiv nZ]. field. split; lra. Qed.

  Lemma lame_axial : exists Fz : R -> R,
    (forall r, Ri <= r <= Re -> is_derive Fz r (2 * PI * r * s)) /\ Fz Re - Fz Ri = PI * (Re * Re - Ri * Ri) * s.
  Proof.
    exists (fun r => PI * r * r * s). split.
    - intros r _. auto_derive; [exact I | ring].
    - ring.
  Qed.

  Theorem lame_solves_bvp :
    pipe_bvp E nu Ri Re Pi Pe (PI * (Re * Re - Ri * Ri) * s)
      (lame_u E nu Ri Re Pi Pe s) (lame_ezz E nu Ri Re Pi Pe s)
      (lame_srr Ri Re Pi Pe) (lame_stt Ri Re Pi Pe) (fun _ => s).
  Proof.
    constructor.
    - intros r Hr. assert (0 < r) by lra.
      eexists. split; [apply lame_u_derive; assumption|]. apply (lame_hooke r); assumption.
    - intros r Hr. apply lame_equilibrium; lra.
    - apply lame_inner.
    - apply lame_outer.
    - apply lame_axial.
  Qed.
End Lame.

Lemma end_cap_force Ri Re Pi Pe : 0 < Ri < Re ->
  PI * (Re * Re - Ri * Ri) * szz_end_cap Ri Re Pi Pe = PI * Ri * Ri * Pi - PI * Re * Re * Pe.
Proof. intros H. assert (0 < Re * Re - Ri * Ri) by nra. unfold szz_end_cap, lameA; cbv [lameA_G RNum nadd nsub nmul ndiv nZ]. field. lra. Qed.


Ltac unf := cbv [lin_elem quad_elem cub_elem sf dsf nodes lin_sf lin_dsf lin_nodes quad_sf quad_dsf quad_nodes
  cub_sf cub_dsf cub_nodes third cste cste2 c q neg RNum nadd nsub nmul ndiv nZ
  map nth length fold_right sumR interp dinterp dot sum zipw at_ elem_radii kronecker Nat.eqb
  partition_of_unity fst snd quadR quad app].

Lemma lin_pu : partition_of_unity (lin_sf RNum).
Proof. intro x. unf. field. Qed.
Lemma quad_pu : partition_of_unity (quad_sf RNum).
Proof. intro x. unf. field. Qed.
Lemma cub_pu : partition_of_unity (cub_sf RNum).
Proof. intro x. unf. field. Qed.


Ltac split_nat i n := lazymatch n with O => exfalso; lia | S ?m => destruct i as [|i]; [| split_nat i m] end.

Lemma lin_nodal : nodal_interpolation (lin_sf RNum) (lin_nodes RNum).
Proof. split; [reflexivity|]. intros i j Hi Hj. simpl in Hi, Hj.
  split_nat i 2%nat; split_nat j 2%nat; unf; field. Qed.
Lemma quad_nodal : nodal_interpolation (quad_sf RNum) (quad_nodes RNum).
Proof. split; [reflexivity|]. intros i j Hi Hj. simpl in Hi, Hj.
  split_nat i 3%nat; split_nat j 3%nat; unf; field. Qed.
Lemma cub_nodal : nodal_interpolation (cub_sf RNum) (cub_nodes RNum).
Proof. split; [reflexivity|]. intros i j Hi Hj. simpl in Hi, Hj.
  split_nat i 4%nat; split_nat j 4%nat; unf; field. Qed.

Lemma lin_deriv : derivative_consistent (lin_sf RNum) (lin_dsf RNum).
Proof. split; [reflexivity|]. intros i x Hi. simpl in Hi.
  split_nat i 2%nat; unf; (auto_derive; [exact I|field]). Qed.
Lemma quad_deriv : derivative_consistent (quad_sf RNum) (quad_dsf RNum).
Proof. split; [reflexivity|]. intros i x Hi. simpl in Hi.
  split_nat i 3%nat; unf; (auto_derive; [exact I|field]). Qed.
Lemma cub_deriv : derivative_consistent (cub_sf RNum) (cub_dsf RNum).
Proof. split; [reflexivity|]. intros i x Hi. simpl in Hi.
  split_nat i 4%nat; unf; (auto_derive; [exact I|field]). Qed.


(* C53 -- property theorems, part 1 (statements only; proofs are in C53ProofsA.v): the oracle and the shape functions.
   Part 2 (one element): Properties_C53_elem.v; part 3 (assembly of the mesh): Properties_C53_asm.v. *)
From Coq Require Import ZArith QArith Reals List.
From Coquelicot Require Import Coquelicot.
From C53 Require Import C53Spec C53Model C53ProofsA.
Import ListNotations.
Local Open Scope R_scope.

(* 1. the oracle is proved: the Lame closed form solves the pipe boundary value problem (compatibility + Hooke,
      radial equilibrium, both pressure boundary conditions, axial resultant) for all moduli, radii, pressures
      and any uniform axial stress s *)
Theorem C53_lame_solves_pipe_problem : forall E nu Ri Re Pi Pe s, 0 < E -> -1 < nu < 1 / 2 -> 0 < Ri < Re ->
  pipe_bvp E nu Ri Re Pi Pe (PI * (Re * Re - Ri * Ri) * s)
    (lame_u E nu Ri Re Pi Pe s) (lame_ezz E nu Ri Re Pi Pe s) (lame_srr Ri Re Pi Pe) (lame_stt Ri Re Pi Pe) (fun _ => s).
Proof. exact lame_solves_bvp. Qed.
Print Assumptions C53_lame_solves_pipe_problem.

(* axial loadings used by the execution stage: 'None' = no axial force, 'EndCapEffect' = pi Ri^2 Pi - pi Re^2 Pe *)
Theorem C53_lame_axial_loadings : forall Ri Re Pi Pe, 0 < Ri < Re ->
  PI * (Re * Re - Ri * Ri) * szz_no_axial_force = 0 /\
  PI * (Re * Re - Ri * Ri) * szz_end_cap Ri Re Pi Pe = PI * Ri * Ri * Pi - PI * Re * Re * Pe.
Proof. intros Ri Re Pi Pe H. split; [unfold szz_no_axial_force; ring | exact (end_cap_force Ri Re Pi Pe H)]. Qed.
Print Assumptions C53_lame_axial_loadings.

(* 2. shape functions of the three elements *)
Theorem C53_partition_of_unity :
  partition_of_unity (lin_sf RNum) /\ partition_of_unity (quad_sf RNum) /\ partition_of_unity (cub_sf RNum).
Proof. exact (conj lin_pu (conj quad_pu cub_pu)). Qed.
Print Assumptions C53_partition_of_unity.

Theorem C53_nodal_interpolation :
  nodal_interpolation (lin_sf RNum) (lin_nodes RNum) /\ nodal_interpolation (quad_sf RNum) (quad_nodes RNum) /\
  nodal_interpolation (cub_sf RNum) (cub_nodes RNum).
Proof. exact (conj lin_nodal (conj quad_nodal cub_nodal)). Qed.
Print Assumptions C53_nodal_interpolation.

Theorem C53_derivative_consistency :
  derivative_consistent (lin_sf RNum) (lin_dsf RNum) /\ derivative_consistent (quad_sf RNum) (quad_dsf RNum) /\
  derivative_consistent (cub_sf RNum) (cub_dsf RNum).
Proof. exact (conj lin_deriv (conj quad_deriv cub_deriv)). Qed.
Print Assumptions C53_derivative_consistency.


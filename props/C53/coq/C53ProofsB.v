(* C53 -- lemmas, part B (real numbers only): isoparametric geometry, Gauss rules (the exact ones, and the constants
   read from the compiled code at this run: C53_gen.v), tangent consistency, patch test of one element. *)
From Coq Require Import ZArith QArith Reals List Lra Lia.
From C53 Require Import C53SpecFE C53Model C53_gen.
Import ListNotations.
Local Open Scope R_scope.

Ltac unf := cbv [lin_elem quad_elem cub_elem sf dsf nodes lin_sf lin_dsf lin_nodes quad_sf quad_dsf quad_nodes
  cub_sf cub_dsf cub_nodes third cste cste2 c q neg RNum nadd nsub nmul ndiv nZ
  map nth length fold_right sumR interp dinterp dot sum zipw at_ elem_radii kronecker Nat.eqb
  partition_of_unity fst snd quadR quad app].

(* isoparametric map of an element with equally spaced nodes: r(x) = r0 + dr (x+1)/2, J = dr/2 *)
Lemma lin_geom r0 dr x : interp RNum (lin_elem RNum) (elem_radii RNum (lin_elem RNum) r0 dr) x = r0 + dr * (x + 1) / 2
  /\ dinterp RNum (lin_elem RNum) (elem_radii RNum (lin_elem RNum) r0 dr) x = dr / 2.
Proof. unf. split; field. Qed.
Lemma quad_geom r0 dr x : interp RNum (quad_elem RNum) (elem_radii RNum (quad_elem RNum) r0 dr) x = r0 + dr * (x + 1) / 2
  /\ dinterp RNum (quad_elem RNum) (elem_radii RNum (quad_elem RNum) r0 dr) x = dr / 2.
Proof. unf. split; field. Qed.
Lemma cub_geom r0 dr x : interp RNum (cub_elem RNum) (elem_radii RNum (cub_elem RNum) r0 dr) x = r0 + dr * (x + 1) / 2
  /\ dinterp RNum (cub_elem RNum) (elem_radii RNum (cub_elem RNum) r0 dr) x = dr / 2.
Proof. unf. split; field. Qed.



Ltac unfq := cbv [lin_elem quad_elem cub_elem sf dsf nodes lin_sf lin_dsf lin_nodes quad_sf quad_dsf quad_nodes
  cub_sf cub_dsf cub_nodes third cste cste2 c q neg RNum nadd nsub nmul ndiv nZ
  map nth length fold_right sumR interp dinterp dot sum zipw at_ elem_radii kronecker Nat.eqb
  partition_of_unity fst snd quadR quad app lin_gps_R quad_gps_R gen_lin_gps gen_quad_gps gen_cub_gps moment Nat.even Nat.add INR pow].
Ltac split_le k n := lazymatch n with O => (destruct k as [|k]; [|exfalso; lia]) | S ?m => destruct k as [|k]; [| split_le k m] end.

Lemma lin_gauss : exact_to_degree lin_gps_R 3.
Proof.
  assert (Hs : sqrt 3 * sqrt 3 = 3) by (apply sqrt_sqrt; lra).
  assert (Hp : sqrt 3 <> 0) by (intro H0; rewrite H0 in Hs; lra).
  intros k Hk. split_le k 3%nat; unfq; (field_simplify_eq; [ring [Hs] | try exact Hp; try lra ..]).
Qed.

Lemma quad_gauss : exact_to_degree quad_gps_R 5.
Proof.
  assert (Hs0 : sqrt (3 / 5) * sqrt (3 / 5) = 3 / 5) by (apply sqrt_sqrt; lra).
  assert (Hs : 5 * (sqrt (3 / 5) * sqrt (3 / 5)) = 3) by lra.
  intros k Hk. split_le k 5%nat; unfq; (field_simplify_eq; [ring [Hs] | try lra ..]).
Qed.

(* the degree is sharp *)
Lemma lin_gauss_sharp : ~ exact_to_degree lin_gps_R 4.
Proof.
  assert (Hs : sqrt 3 * sqrt 3 = 3) by (apply sqrt_sqrt; lra).
  assert (Hp : sqrt 3 <> 0) by (intro H0; rewrite H0 in Hs; lra).
  intro H. specialize (H 4%nat (le_n _)). revert H. unfq. intro H.
  assert (H2 : / sqrt 3 * / sqrt 3 = / 3) by (rewrite <- Rinv_mult, Hs; reflexivity).
  assert (H4 : 1 * (- / sqrt 3 * (- / sqrt 3 * (- / sqrt 3 * (- / sqrt 3 * 1)))) + (1 * (/ sqrt 3 * (/ sqrt 3 * (/ sqrt 3 * (/ sqrt 3 * 1)))) + 0) = 2 * (/ sqrt 3 * / sqrt 3) * (/ sqrt 3 * / sqrt 3)) by ring.
  rewrite H4, H2 in H. lra.
Qed.

(* the rules the compiled code uses (C53_gen.v, regenerated at every run) *)
Lemma gen_lin_gauss : exact_to_degree_within (gen_lin_gps RNum) 3 (1 / 10 ^ 15).
Proof. intros k Hk. split_le k 3%nat; unfq; apply Rabs_le; split; lra. Qed.
Lemma gen_quad_gauss : exact_to_degree_within (gen_quad_gps RNum) 5 (1 / 10 ^ 15).
Proof. intros k Hk. split_le k 5%nat; unfq; apply Rabs_le; split; lra. Qed.
Lemma cub_gauss : exact_to_degree_within (gen_cub_gps RNum) 7 (1 / 10 ^ 14).
Proof.
  intros k Hk. split_le k 7%nat; unfq; apply Rabs_le; split; lra.
Qed.
Ltac list_eq := repeat (lazymatch goal with |- cons _ _ = cons _ _ => apply f_equal2 | |- nil = nil => reflexivity end).
Ltac unfp := cbv [lin_elem quad_elem cub_elem sf dsf nodes lin_sf lin_dsf quad_sf quad_dsf
  cub_sf cub_dsf cub_nodes quad_nodes lin_nodes elem_radii third cste cste2 c q neg RNum nadd nsub nmul ndiv nZ
  map length fold_right dot sum zipw at_ fst snd app vadd zeros repeat quad nth gen_lin_gps gen_quad_gps gen_cub_gps].


Ltac unfg := cbv [sf dsf nodes c q neg RNum nadd nsub nmul ndiv nZ
  map nth length fold_right interp dinterp dot sum zipw at_
  fst snd app gp_forces gp_forces_of_stress gp_stiffness strain stress kx mvec vadd zeros repeat].

(* the stiffness block of a Gauss point is the derivative of its inner forces: forces are linear in (u, ezz) with
   matrix gp_stiffness -- for ANY shape functions (the element's own are an instance) *)
Lemma tangent2 (f0 f1 g0 g1 : R -> R) nd K0 K1 K2 K3 K4 K5 K6 K7 K8 r0 r1 u0 u1 ezz twopi x w :
  let e := mkElem [f0;f1] [g0;g1] nd in
  let K := [K0;K1;K2;K3;K4;K5;K6;K7;K8] in let rs := [r0;r1] in
  dinterp RNum e rs x <> 0 -> interp RNum e rs x <> 0 ->
  gp_forces RNum e false K rs [u0;u1] ezz twopi (x, w)
  = mvec RNum (gp_stiffness RNum e false K rs twopi (x, w)) [u0;u1;ezz].
Proof. cbv zeta. unfg. intros HJ Hr. list_eq; (field; split; intro Hc; [apply HJ | apply Hr]; lra). Qed.

Lemma tangent3 (f0 f1 f2 g0 g1 g2 : R -> R) nd K0 K1 K2 K3 K4 K5 K6 K7 K8 r0 r1 r2 u0 u1 u2 ezz twopi x w :
  let e := mkElem [f0;f1;f2] [g0;g1;g2] nd in
  let K := [K0;K1;K2;K3;K4;K5;K6;K7;K8] in let rs := [r0;r1;r2] in
  dinterp RNum e rs x <> 0 -> interp RNum e rs x <> 0 ->
  gp_forces RNum e false K rs [u0;u1;u2] ezz twopi (x, w)
  = mvec RNum (gp_stiffness RNum e false K rs twopi (x, w)) [u0;u1;u2;ezz].
Proof. cbv zeta. unfg. intros HJ Hr. list_eq; (field; split; intro Hc; [apply HJ | apply Hr]; lra). Qed.

Lemma tangent4 (f0 f1 f2 f3 g0 g1 g2 g3 : R -> R) nd K0 K1 K2 K3 K4 K5 K6 K7 K8 r0 r1 r2 r3 u0 u1 u2 u3 ezz twopi x w :
  let e := mkElem [f0;f1;f2;f3] [g0;g1;g2;g3] nd in
  let K := [K0;K1;K2;K3;K4;K5;K6;K7;K8] in let rs := [r0;r1;r2;r3] in
  dinterp RNum e rs x <> 0 -> interp RNum e rs x <> 0 ->
  gp_forces RNum e false K rs [u0;u1;u2;u3] ezz twopi (x, w)
  = mvec RNum (gp_stiffness RNum e false K rs twopi (x, w)) [u0;u1;u2;u3;ezz].
Proof. cbv zeta. unfg. intros HJ Hr. list_eq; (field; split; intro Hc; [apply HJ | apply Hr]; lra). Qed.

Lemma lin_tangent K0 K1 K2 K3 K4 K5 K6 K7 K8 r0 r1 u0 u1 ezz twopi x w :
  let K := [K0;K1;K2;K3;K4;K5;K6;K7;K8] in let rs := [r0;r1] in
  dinterp RNum (lin_elem RNum) rs x <> 0 -> interp RNum (lin_elem RNum) rs x <> 0 ->
  gp_forces RNum (lin_elem RNum) false K rs [u0;u1] ezz twopi (x, w)
  = mvec RNum (gp_stiffness RNum (lin_elem RNum) false K rs twopi (x, w)) [u0;u1;ezz].
Proof. exact (tangent2 _ _ _ _ _ K0 K1 K2 K3 K4 K5 K6 K7 K8 r0 r1 u0 u1 ezz twopi x w). Qed.

Lemma quad_tangent K0 K1 K2 K3 K4 K5 K6 K7 K8 r0 r1 r2 u0 u1 u2 ezz twopi x w :
  let K := [K0;K1;K2;K3;K4;K5;K6;K7;K8] in let rs := [r0;r1;r2] in
  dinterp RNum (quad_elem RNum) rs x <> 0 -> interp RNum (quad_elem RNum) rs x <> 0 ->
  gp_forces RNum (quad_elem RNum) false K rs [u0;u1;u2] ezz twopi (x, w)
  = mvec RNum (gp_stiffness RNum (quad_elem RNum) false K rs twopi (x, w)) [u0;u1;u2;ezz].
Proof. exact (tangent3 _ _ _ _ _ _ _ K0 K1 K2 K3 K4 K5 K6 K7 K8 r0 r1 r2 u0 u1 u2 ezz twopi x w). Qed.

Lemma cub_tangent K0 K1 K2 K3 K4 K5 K6 K7 K8 r0 r1 r2 r3 u0 u1 u2 u3 ezz twopi x w :
  let K := [K0;K1;K2;K3;K4;K5;K6;K7;K8] in let rs := [r0;r1;r2;r3] in
  dinterp RNum (cub_elem RNum) rs x <> 0 -> interp RNum (cub_elem RNum) rs x <> 0 ->
  gp_forces RNum (cub_elem RNum) false K rs [u0;u1;u2;u3] ezz twopi (x, w)
  = mvec RNum (gp_stiffness RNum (cub_elem RNum) false K rs twopi (x, w)) [u0;u1;u2;u3;ezz].
Proof. exact (tangent4 _ _ _ _ _ _ _ _ _ K0 K1 K2 K3 K4 K5 K6 K7 K8 r0 r1 r2 r3 u0 u1 u2 u3 ezz twopi x w). Qed.


Section CubPatch.
  Variables x0 w0 x1 w1 x2 w2 x3 w3 : R.
  Hypothesis H0 : w0 + w1 + w2 + w3 = 2.
  Hypothesis H1 : w0 * x0 + w1 * x1 + w2 * x2 + w3 * x3 = 0.
  Hypothesis H2 : w0 * (x0 * x0) + w1 * (x1 * x1) + w2 * (x2 * x2) + w3 * (x3 * x3) = 2 / 3.
  Hypothesis H3 : w0 * (x0 * x0 * x0) + w1 * (x1 * x1 * x1) + w2 * (x2 * x2 * x2) + w3 * (x3 * x3 * x3) = 0.
  Let gps := [(x0, w0); (x1, w1); (x2, w2); (x3, w3)].
  Definition alpha (j : nat) := quad RNum gps (nth j (cub_dsf RNum) (fun _ => 0)).
  Definition beta (j : nat) := quad RNum gps (fun x => (x + 1) / 2 * nth j (cub_dsf RNum) (fun _ => 0) x + nth j (cub_sf RNum) (fun _ => 0) x / 2).
  Lemma alpha_v : alpha 0 = -1 /\ alpha 1 = 0 /\ alpha 2 = 0 /\ alpha 3 = 1.
  Proof. unfold alpha, gps. unfp. repeat split; lra. Qed.
  Lemma beta_v : beta 0 = 0 /\ beta 1 = 0 /\ beta 2 = 0 /\ beta 3 = 1.
  Proof. unfold beta, gps. unfp. repeat split; lra. Qed.

  Lemma cub_patch r0 dr s z twopi : dr <> 0 ->
    elem_forces_of_stress RNum (cub_elem RNum) false gps (elem_radii RNum (cub_elem RNum) r0 dr) twopi (s, z, s)
    = [twopi * s * (- r0); 0; 0; twopi * s * (r0 + dr); twopi * z * (r0 * dr + dr * dr / 2)].
  Proof.
    intros Hd. destruct alpha_v as (A0 & A1 & A2 & A3). destruct beta_v as (B0 & B1 & B2 & B3).
    unfold elem_forces_of_stress, gp_forces_of_stress, gps. cbv [fold_right fst snd].
    rewrite !(proj2 (cub_geom r0 dr _)), !(proj1 (cub_geom r0 dr _)).
    transitivity [twopi * s * (r0 * alpha 0 + dr * beta 0); twopi * s * (r0 * alpha 1 + dr * beta 1);
                  twopi * s * (r0 * alpha 2 + dr * beta 2); twopi * s * (r0 * alpha 3 + dr * beta 3);
                  twopi * z * (dr / 2) * (r0 * (w0 + w1 + w2 + w3) + dr / 2 * ((w0 + w1 + w2 + w3) + (w0 * x0 + w1 * x1 + w2 * x2 + w3 * x3)))].
    - unfold alpha, beta, gps. unfp. list_eq; field; assumption.
    - rewrite A0, A1, A2, A3, B0, B1, B2, B3, H0, H1. list_eq; field.
  Qed.
End CubPatch.


Section LinPatch.
  Variables x0 w0 x1 w1 : R.
  Hypothesis H0 : w0 + w1 = 2.
  Hypothesis H1 : w0 * x0 + w1 * x1 = 0.
  Let gps := [(x0, w0); (x1, w1)].
  Lemma lin_patch r0 dr s z twopi : dr <> 0 ->
    elem_forces_of_stress RNum (lin_elem RNum) false gps (elem_radii RNum (lin_elem RNum) r0 dr) twopi (s, z, s)
    = [twopi * s * (- r0); twopi * s * (r0 + dr); twopi * z * (r0 * dr + dr * dr / 2)].
  Proof.
    intros Hd.
    unfold elem_forces_of_stress, gp_forces_of_stress, gps. cbv [fold_right fst snd].
    rewrite !(proj2 (lin_geom r0 dr _)), !(proj1 (lin_geom r0 dr _)).
    transitivity [twopi * s * (r0 * (- (w0 + w1) / 2) + dr * (- (w0 * x0 + w1 * x1) / 2));
                  twopi * s * (r0 * ((w0 + w1) / 2) + dr * ((w0 + w1) / 2 + (w0 * x0 + w1 * x1) / 2));
                  twopi * z * (dr / 2) * (r0 * (w0 + w1) + dr / 2 * ((w0 + w1) + (w0 * x0 + w1 * x1)))].
    - unfp. list_eq; field; assumption.
    - rewrite H0, H1. list_eq; field.
  Qed.
End LinPatch.

Section QuadPatch.
  Variables x0 w0 x1 w1 x2 w2 : R.
  Hypothesis H0 : w0 + w1 + w2 = 2.
  Hypothesis H1 : w0 * x0 + w1 * x1 + w2 * x2 = 0.
  Hypothesis H2 : w0 * (x0 * x0) + w1 * (x1 * x1) + w2 * (x2 * x2) = 2 / 3.
  Let gps := [(x0, w0); (x1, w1); (x2, w2)].
  Definition qalpha (j : nat) := quad RNum gps (nth j (quad_dsf RNum) (fun _ => 0)).
  Definition qbeta (j : nat) := quad RNum gps (fun x => (x + 1) / 2 * nth j (quad_dsf RNum) (fun _ => 0) x + nth j (quad_sf RNum) (fun _ => 0) x / 2).
  Lemma qalpha_v : qalpha 0 = -1 /\ qalpha 1 = 0 /\ qalpha 2 = 1.
  Proof. unfold qalpha, gps. unfp. repeat split; lra. Qed.
  Lemma qbeta_v : qbeta 0 = 0 /\ qbeta 1 = 0 /\ qbeta 2 = 1.
  Proof. unfold qbeta, gps. unfp. repeat split; lra. Qed.
  Lemma quad_patch r0 dr s z twopi : dr <> 0 ->
    elem_forces_of_stress RNum (quad_elem RNum) false gps (elem_radii RNum (quad_elem RNum) r0 dr) twopi (s, z, s)
    = [twopi * s * (- r0); 0; twopi * s * (r0 + dr); twopi * z * (r0 * dr + dr * dr / 2)].
  Proof.
    intros Hd. destruct qalpha_v as (A0 & A1 & A2). destruct qbeta_v as (B0 & B1 & B2).
    unfold elem_forces_of_stress, gp_forces_of_stress, gps. cbv [fold_right fst snd].
    rewrite !(proj2 (quad_geom r0 dr _)), !(proj1 (quad_geom r0 dr _)).
    transitivity [twopi * s * (r0 * qalpha 0 + dr * qbeta 0); twopi * s * (r0 * qalpha 1 + dr * qbeta 1);
                  twopi * s * (r0 * qalpha 2 + dr * qbeta 2);
                  twopi * z * (dr / 2) * (r0 * (w0 + w1 + w2) + dr / 2 * ((w0 + w1 + w2) + (w0 * x0 + w1 * x1 + w2 * x2)))].
    - unfold qalpha, qbeta, gps. unfp. list_eq; field; assumption.
    - rewrite A0, A1, A2, B0, B1, B2, H0, H1. list_eq; field.
  Qed.
End QuadPatch.

(* the decimal 4-point rule of the source: the inner forces under a uniform stress are
   2 pi s (r0 a_j + dr b_j) with a_j, b_j within 1e-14 of the exact values (-1,0,0,1), (0,0,0,1) *)
Definition cub_alpha (j : nat) := quad RNum (gen_cub_gps RNum) (nth j (cub_dsf RNum) (fun _ => 0)).
Definition cub_beta (j : nat) := quad RNum (gen_cub_gps RNum) (fun x => (x + 1) / 2 * nth j (cub_dsf RNum) (fun _ => 0) x + nth j (cub_sf RNum) (fun _ => 0) x / 2).
Definition cub_gamma := quad RNum (gen_cub_gps RNum) (fun _ => 1).
Definition cub_delta := quad RNum (gen_cub_gps RNum) (fun x => x).
Lemma cub_patch_decimal_form r0 dr s z twopi : dr <> 0 ->
    elem_forces_of_stress RNum (cub_elem RNum) false (gen_cub_gps RNum) (elem_radii RNum (cub_elem RNum) r0 dr) twopi (s, z, s)
    = [twopi * s * (r0 * cub_alpha 0 + dr * cub_beta 0); twopi * s * (r0 * cub_alpha 1 + dr * cub_beta 1);
       twopi * s * (r0 * cub_alpha 2 + dr * cub_beta 2); twopi * s * (r0 * cub_alpha 3 + dr * cub_beta 3);
       twopi * z * (dr / 2) * (r0 * cub_gamma + dr / 2 * (cub_gamma + cub_delta))].
Proof.
  intros Hd. unfold elem_forces_of_stress, gp_forces_of_stress. cbv [gen_cub_gps fold_right fst snd].
  rewrite !(proj2 (cub_geom r0 dr _)), !(proj1 (cub_geom r0 dr _)).
  unfold cub_alpha, cub_beta, cub_gamma, cub_delta. unfp. list_eq; field; assumption.
Qed.
Lemma cub_patch_decimal_bounds : let e := 1 / 10 ^ 14 in
  Rabs (cub_alpha 0 - -1) <= e /\ Rabs (cub_alpha 1) <= e /\ Rabs (cub_alpha 2) <= e /\ Rabs (cub_alpha 3 - 1) <= e /\
  Rabs (cub_beta 0) <= e /\ Rabs (cub_beta 1) <= e /\ Rabs (cub_beta 2) <= e /\ Rabs (cub_beta 3 - 1) <= e /\
  Rabs (cub_gamma - 2) <= e /\ Rabs cub_delta <= e.
Proof.
  cbv zeta. unfold cub_alpha, cub_beta, cub_gamma, cub_delta. unfp. repeat split; apply Rabs_le; split; lra.
Qed.

(* the variant model that evaluates the test shape functions at the physical radius (what
   PipeCubicElement::updateStiffnessMatrixAndInnerForces of the pinned tree does) fails the patch test *)
Lemma cub_at_rg_fails_patch :
  exists r0 dr s, dr <> 0 /\
    Rabs (nth 1 (elem_forces_of_stress RNum (cub_elem RNum) true (gen_cub_gps RNum) (elem_radii RNum (cub_elem RNum) r0 dr) 1 (s, 0, s)) 0
          - 0) >= 1 / 2.
Proof.
  exists 1, 1, 1. split; [lra|].
  unfold elem_forces_of_stress, gp_forces_of_stress. cbv [gen_cub_gps fold_right fst snd].
  rewrite !(proj2 (cub_geom 1 1 _)), !(proj1 (cub_geom 1 1 _)).
  unfp. cbv [List.nth]. apply Rle_ge. match goal with |- _ <= Rabs ?a => apply Rle_trans with a; [|apply Rle_abs] end. lra.
Qed.

(* C53 -- property theorems on the ASSEMBLY of the pipe mesh (statements only; proofs are in C53ProofsC.v).
   Model: C53Model.v `assemble` / `pipe_residual` (PipeTest::computeStiffnessMatrixAndResidual, small strain, imposed
   pressures, end cap), any number of elements: induction on the list of elements.
   pipe_elems = [lin_elem; quad_elem; cub_elem], deg e = number of nodes of the element - 1. *)
From Coq Require Import ZArith QArith Reals List.
From C53 Require Import C53SpecFE C53Model C53ProofsB C53ProofsC.
Import ListNotations.
Local Open Scope R_scope.

(* 7. For every mesh (any list of elements (r0, dr)), any constitutive function sig, any nodal values us, any quadrature
      rule: the assembled residual (inner forces - pressure loads) tested against any nodal vector vs and axial value vz is
      the Galerkin weak form: sum over the elements of the virtual work of the stresses sig(strain(u_h)) in the finite
      element function v_h of nodal values vs, by the element quadrature, minus the virtual work of the pressures. *)
Theorem C53_assembled_residual_is_weak_form : forall e, In e pipe_elems ->
  forall gps sig ezz pi Ri Re Pi Pe endcap els us vs vz,
  length us = (deg e * length els + 1)%nat -> length vs = (deg e * length els + 1)%nat ->
  let R := pipe_residual RNum (deg e) (ef_forces RNum e gps sig ezz (2 * pi)) els us Ri Re Pi Pe endcap pi in
  dot RNum (fst R) vs + snd R * vz
  = sum_elems (deg e)
      (fun el ul vl => let rs := elem_radii RNum e (fst el) (snd el) in
         weak_elem gps (2 * pi) (interp RNum e rs) (dinterp RNum e rs) (interp RNum e vl) (dinterp RNum e vl)
                   (fun x => sig (strain RNum e rs ul ezz x)) vz) els us vs
    - weak_ext Ri Re Pi Pe endcap pi (hd 0 vs) (last vs 0) vz.
Proof. exact pipe_residual_is_weak_form. Qed.
Print Assumptions C53_assembled_residual_is_weak_form.

(* ... in particular for the NODAL INTERPOLANT of any field f on a mesh of consecutive elements of widths drs from Ri *)
Theorem C53_interpolant_residual_is_weak_form : forall e, In e pipe_elems ->
  forall (f : R -> R) gps sig ezz pi Pi Pe endcap drs Ri vs vz, length vs = (deg e * length drs + 1)%nat ->
  let Re := Ri + sumR drs in
  let us := map f (mesh_nodes RNum e Ri drs) in
  let R := pipe_residual RNum (deg e) (ef_forces RNum e gps sig ezz (2 * pi)) (chain_els RNum Ri drs) us Ri Re Pi Pe endcap pi in
  dot RNum (fst R) vs + snd R * vz
  = sum_elems (deg e)
      (fun el ul vl => let rs := elem_radii RNum e (fst el) (snd el) in
         weak_elem gps (2 * pi) (interp RNum e rs) (dinterp RNum e rs) (interp RNum e vl) (dinterp RNum e vl)
                   (fun x => sig (strain RNum e rs ul ezz x)) vz) (chain_els RNum Ri drs) us vs
    - weak_ext Ri Re Pi Pe endcap pi (hd 0 vs) (last vs 0) vz.
Proof. exact pipe_interpolant_weak_form. Qed.
Print Assumptions C53_interpolant_residual_is_weak_form.

(* 8. the assembled stiffness matrix (action on a vector) is the tangent of the assembled inner forces of the linear
      behaviour stress = K.strain, for any 3x3 K, any rule, any mesh -- no condition on the jacobian or the radius *)
Theorem C53_assembled_stiffness_is_tangent : forall e, In e pipe_elems ->
  forall gps K twopi uz els us, length us = (deg e * length els + 1)%nat ->
  assemble RNum (deg e) (ef_stiff RNum e gps K twopi uz) els us
  = assemble RNum (deg e) (ef_forces RNum e gps (stress RNum K) uz twopi) els us.
Proof. exact pipe_stiffness_is_tangent. Qed.
Print Assumptions C53_assembled_stiffness_is_tangent.

(* 9. symmetry of the assembled stiffness for a symmetric tangent: u.K v = v.K u for all vectors (nodal values + axial
      strain), any mesh of elements with positive first radius and width, any rule with abscissae in [-1, 1] *)
Theorem C53_assembled_stiffness_symmetric : forall e, In e pipe_elems ->
  forall gps K pi els us uz vs vz,
  sym_tangent K -> (forall xw, In xw gps -> -1 <= fst xw <= 1) -> Forall (fun el : R * R => 0 < fst el /\ 0 < snd el) els ->
  length us = (deg e * length els + 1)%nat -> length vs = (deg e * length els + 1)%nat ->
  let Ku := assemble RNum (deg e) (ef_stiff RNum e gps K (2 * pi) uz) els us in
  let Kv := assemble RNum (deg e) (ef_stiff RNum e gps K (2 * pi) vz) els vs in
  dot RNum (fst Ku) vs + snd Ku * vz = dot RNum (fst Kv) us + snd Kv * uz.
Proof. exact pipe_stiffness_symmetric. Qed.
Print Assumptions C53_assembled_stiffness_symmetric.

(* 10. patch test at mesh level: the exact Lame solution that the element space represents (uniform pressure P inside
       and outside: u = a r, srr = stt = -P), taken at the nodes of PipeTest's mesh of ne equal elements, with Hooke's law and
       either axial loading, makes the whole assembled residual vanish -- for EVERY ne, for every quadrature rule exact to
       the element's degree with abscissae in [-1,1].  (lame_patch_statement is defined in C53ProofsC.v.) *)
Theorem C53_mesh_patch_test_linear : forall x0 w0 x1 w1, w0 + w1 = 2 -> w0 * x0 + w1 * x1 = 0 -> -1 <= x0 <= 1 -> -1 <= x1 <= 1 ->
  forall E nu Ri Re P pi (endcap : bool) ne, 0 < E -> -1 < nu < 1 / 2 -> 0 < Ri < Re -> (0 < ne)%nat ->
  let e := lin_elem RNum in let gps := [(x0, w0); (x1, w1)] in
  let sz := if endcap then szz_end_cap Ri Re P P else szz_no_axial_force in
  let us := map (lame_u E nu Ri Re P P sz) (mesh_nodes RNum e Ri (repeat ((Re - Ri) / INR ne) ne)) in
  let R := pipe_residual RNum 1 (ef_forces RNum e gps (stress RNum (hookeK E nu)) (lame_ezz E nu Ri Re P P sz) (2 * pi))
                         (uniform_els RNum Ri Re ne) us Ri Re P P endcap pi in
  Forall (fun x => x = 0) (fst R) /\ snd R = 0.
Proof. exact lin_lame_patch. Qed.
Print Assumptions C53_mesh_patch_test_linear.

Theorem C53_mesh_patch_test_quadratic : forall x0 w0 x1 w1 x2 w2, w0 + w1 + w2 = 2 -> w0 * x0 + w1 * x1 + w2 * x2 = 0 ->
  w0 * (x0 * x0) + w1 * (x1 * x1) + w2 * (x2 * x2) = 2 / 3 -> -1 <= x0 <= 1 -> -1 <= x1 <= 1 -> -1 <= x2 <= 1 ->
  forall E nu Ri Re P pi (endcap : bool) ne, 0 < E -> -1 < nu < 1 / 2 -> 0 < Ri < Re -> (0 < ne)%nat ->
  let e := quad_elem RNum in let gps := [(x0, w0); (x1, w1); (x2, w2)] in
  let sz := if endcap then szz_end_cap Ri Re P P else szz_no_axial_force in
  let us := map (lame_u E nu Ri Re P P sz) (mesh_nodes RNum e Ri (repeat ((Re - Ri) / INR ne) ne)) in
  let R := pipe_residual RNum 2 (ef_forces RNum e gps (stress RNum (hookeK E nu)) (lame_ezz E nu Ri Re P P sz) (2 * pi))
                         (uniform_els RNum Ri Re ne) us Ri Re P P endcap pi in
  Forall (fun x => x = 0) (fst R) /\ snd R = 0.
Proof. exact quad_lame_patch. Qed.
Print Assumptions C53_mesh_patch_test_quadratic.

Theorem C53_mesh_patch_test_cubic : forall x0 w0 x1 w1 x2 w2 x3 w3, w0 + w1 + w2 + w3 = 2 -> w0 * x0 + w1 * x1 + w2 * x2 + w3 * x3 = 0 ->
  w0 * (x0 * x0) + w1 * (x1 * x1) + w2 * (x2 * x2) + w3 * (x3 * x3) = 2 / 3 ->
  w0 * (x0 * x0 * x0) + w1 * (x1 * x1 * x1) + w2 * (x2 * x2 * x2) + w3 * (x3 * x3 * x3) = 0 ->
  -1 <= x0 <= 1 -> -1 <= x1 <= 1 -> -1 <= x2 <= 1 -> -1 <= x3 <= 1 ->
  forall E nu Ri Re P pi (endcap : bool) ne, 0 < E -> -1 < nu < 1 / 2 -> 0 < Ri < Re -> (0 < ne)%nat ->
  let e := cub_elem RNum in let gps := [(x0, w0); (x1, w1); (x2, w2); (x3, w3)] in
  let sz := if endcap then szz_end_cap Ri Re P P else szz_no_axial_force in
  let us := map (lame_u E nu Ri Re P P sz) (mesh_nodes RNum e Ri (repeat ((Re - Ri) / INR ne) ne)) in
  let R := pipe_residual RNum 3 (ef_forces RNum e gps (stress RNum (hookeK E nu)) (lame_ezz E nu Ri Re P P sz) (2 * pi))
                         (uniform_els RNum Ri Re ne) us Ri Re P P endcap pi in
  Forall (fun x => x = 0) (fst R) /\ snd R = 0.
Proof. exact cub_lame_patch. Qed.
Print Assumptions C53_mesh_patch_test_cubic.

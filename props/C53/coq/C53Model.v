(* C53 -- hand-written executable model (engine H) of the 1D axisymmetric pipe elements of
   mtest/src/Pipe{Linear,Quadratic,Cubic}Element.cxx: shape functions and their derivatives as written in the
   source, Gauss points/weights, strain at a Gauss point, contribution of a Gauss point to the inner forces
   and to the stiffness matrix; and of the assembly of PipeTest::computeStiffnessMatrixAndResidual (small strain,
   imposed inner/outer pressures, end-cap effect).  Definitions only, over an abstract scalar (record Num):
   instantiated with R for the theorems and with Q for the execution against the real code (correspondence).
   The Gauss points and weights are NOT written here: they are read from the compiled element code at every run
   and written to the generated file C53_gen.v (gen_lin_gps, gen_quad_gps, gen_cub_gps). *)
From Coq Require Import ZArith QArith List.
From C53 Require Import C53Num.   (* the scalar record Num / QNum *)
Import ListNotations.

Declare Scope num_scope.
Delimit Scope num_scope with num.

Section Model.
  Context {T : Type} (N : Num T).
  Local Notation "a + b" := (nadd N a b) : num_scope.
  Local Notation "a - b" := (nsub N a b) : num_scope.
  Local Notation "a * b" := (nmul N a b) : num_scope.
  Local Notation "a / b" := (ndiv N a b) : num_scope.
  Local Open Scope num_scope.
  Definition c (z : Z) : T := nZ N z.
  Definition q (a b : Z) : T := c a / c b.
  Definition neg (x : T) : T := c 0 - x.

  Fixpoint zipw {A B C} (f : A -> B -> C) (l1 : list A) (l2 : list B) : list C :=
    match l1, l2 with a :: t1, b :: t2 => f a b :: zipw f t1 t2 | _, _ => [] end.
  Definition sum (l : list T) : T := fold_right (fun a b => a + b) (c 0) l.
  Definition dot (l1 l2 : list T) : T := sum (zipw (fun a b => a * b) l1 l2).
  Definition vadd (l1 l2 : list T) : list T := zipw (fun a b => a + b) l1 l2.

  (* ---- shape functions, as written in the source -------------------------------------------- *)
  (* PipeLinearElement::interpolate : 0.5*((1-x)*v0+(1+x)*v1) ; de10_dur = -/+ 1/dr ; (1 -/+ pg)/2 *)
  Definition lin_sf : list (T -> T) := [fun x => q 1 2 * (c 1 - x); fun x => q 1 2 * (c 1 + x)].
  Definition lin_dsf : list (T -> T) := [fun _ => neg (q 1 2); fun _ => q 1 2].
  Definition lin_nodes : list T := [neg (c 1); c 1].
  (* PipeQuadraticElement : sf = {-0.5*(1-pg)*pg, (1+pg)*(1-pg), 0.5*(1+pg)*pg} ; dsf = {pg-0.5,-2pg,pg+0.5} *)
  Definition quad_sf : list (T -> T) :=
    [fun x => neg (q 1 2) * (c 1 - x) * x; fun x => (c 1 + x) * (c 1 - x); fun x => q 1 2 * (c 1 + x) * x].
  Definition quad_dsf : list (T -> T) := [fun x => x - q 1 2; fun x => neg (c 2) * x; fun x => x + q 1 2].
  Definition quad_nodes : list T := [neg (c 1); c 0; c 1].
  (* PipeCubicElement : cste = 9/16, cste2 = 27/16, one_third *)
  Definition third : T := q 1 3.
  Definition cste : T := q 9 16.
  Definition cste2 : T := q 27 16.
  Definition cub_sf : list (T -> T) :=
    [fun x => cste * (c 1 - x) * (x - third) * (x + third);
     fun x => cste2 * (x - c 1) * (x + c 1) * (x - third);
     fun x => cste2 * (c 1 - x) * (x + c 1) * (x + third);
     fun x => cste * (c 1 + x) * (x - third) * (x + third)].
  Definition cub_dsf : list (T -> T) :=
    [fun x => (cste / c 9) * ((neg (c 27) * x + c 18) * x + c 1);
     fun x => (cste2 / c 3) * ((c 9 * x - c 2) * x - c 3);
     fun x => (cste2 / c 3) * (c 3 - (c 9 * x + c 2) * x);
     fun x => (cste / c 9) * ((c 27 * x + c 18) * x - c 1)].
  Definition cub_nodes : list T := [neg (c 1); neg third; third; c 1].

  Record Elem := mkElem { sf : list (T -> T); dsf : list (T -> T); nodes : list T }.
  Definition lin_elem := mkElem lin_sf lin_dsf lin_nodes.
  Definition quad_elem := mkElem quad_sf quad_dsf quad_nodes.
  Definition cub_elem := mkElem cub_sf cub_dsf cub_nodes.

  Definition at_ (fs : list (T -> T)) (x : T) : list T := map (fun f => f x) fs.
  (* `interpolate` of the three elements *)
  Definition interp (e : Elem) (vs : list T) (x : T) : T := dot (at_ (sf e) x) vs.
  Definition dinterp (e : Elem) (vs : list T) (x : T) : T := dot (at_ (dsf e) x) vs.
  (* radial positions of the nodes of an element starting at r0 of width dr (equally spaced, as the code builds them) *)
  Definition elem_radii (e : Elem) (r0 dr : T) : list T :=
    map (fun xi => r0 + dr * ((xi + c 1) / c 2)) (nodes e).

  (* quadrature of a function on the reference element *)
  Definition quad (gps : list (T * T)) (f : T -> T) : T := sum (map (fun xw => snd xw * f (fst xw)) gps).
  Fixpoint pw (x : T) (n : nat) : T := match n with O => c 1 | S m => x * pw x m end.

  (* ---- element computations ------------------------------------------------------------------ *)
  (* computeStrain: (err, ezz, ett) at reference abscissa x *)
  Definition strain (e : Elem) (rs us : list T) (ezz x : T) : T * T * T :=
    (dinterp e us x / dinterp e rs x, ezz, interp e us x / interp e rs x).
  (* stub behaviour: stress = K . strain, K row-major 3x3, components (rr, zz, tt) *)
  Definition kx (K : list T) (i : nat) : T := nth i K (c 0).
  Definition stress (K : list T) (s : T * T * T) : T * T * T :=
    let '(a, b, d) := s in
    (kx K 0 * a + kx K 1 * b + kx K 2 * d, kx K 3 * a + kx K 4 * b + kx K 5 * d, kx K 6 * a + kx K 7 * b + kx K 8 * d).

  (* contribution of the Gauss point (x, w) to the inner forces given the stress (srr, szz, stt):
     r[j] += wt*(rg*srr*dsf_j/J + stt*sf_j), r[n] += wt*rg*szz, wt = 2 pi w J.
     `sfx` is the abscissa at which the shape functions of the *test* function are evaluated: the reference
     abscissa x in the correct element; the variant `at_rg = true` evaluates them at the physical radius
     (what PipeCubicElement::updateStiffnessMatrixAndInnerForces of the pinned tree does). *)
  Definition gp_forces_of_stress (e : Elem) (at_rg : bool) (rs : list T) (twopi : T) (xw : T * T) (sg : T * T * T)
    : list T :=
    let x := fst xw in let w := snd xw in
    let J := dinterp e rs x in let rg := interp e rs x in
    let sfx := if at_rg then rg else x in
    let '(srr, szz, stt) := sg in
    let wt := twopi * w * J in
    zipw (fun n dn => wt * (rg * srr * dn / J + stt * n)) (at_ (sf e) sfx) (at_ (dsf e) sfx) ++ [wt * rg * szz].

  Definition gp_forces (e : Elem) (at_rg : bool) (K rs us : list T) (ezz twopi : T) (xw : T * T) : list T :=
    gp_forces_of_stress e at_rg rs twopi xw (stress K (strain e rs us ezz (fst xw))).

  Definition zeros (n : nat) : list T := repeat (c 0) n.
  Definition elem_forces (e : Elem) (at_rg : bool) (gps : list (T * T)) (K rs us : list T) (ezz twopi : T) : list T :=
    fold_right (fun xw acc => vadd (gp_forces e at_rg K rs us ezz twopi xw) acc) (zeros (S (length rs))) gps.
  Definition elem_forces_of_stress (e : Elem) (at_rg : bool) (gps : list (T * T)) (rs : list T) (twopi : T) (sg : T * T * T)
    : list T :=
    fold_right (fun xw acc => vadd (gp_forces_of_stress e at_rg rs twopi xw sg) acc) (zeros (S (length rs))) gps.

  (* contribution of a Gauss point to the stiffness matrix, rows l = 0..nn (last row/column: axial strain) *)
  Definition gp_stiffness (e : Elem) (at_rg : bool) (K rs : list T) (twopi : T) (xw : T * T) : list (list T) :=
    let x := fst xw in let w := snd xw in
    let J := dinterp e rs x in let rg := interp e rs x in
    let sfx := if at_rg then rg else x in
    let wt := twopi * w * J in
    let ns := at_ (sf e) sfx in let dns := at_ (dsf e) sfx in
    zipw (fun nl dnl =>
            zipw (fun nj dnj =>
                    wt * (rg * dnl / J * (kx K 0 * (dnj / J) + kx K 2 * (nj / rg))
                          + nl * (kx K 6 * (dnj / J) + kx K 8 * (nj / rg)))) ns dns
            ++ [wt * (rg * dnl / J * kx K 1 + kx K 7 * nl)]) ns dns
    ++ [zipw (fun nj dnj => wt * rg * (kx K 3 * (dnj / J) + kx K 5 * (nj / rg))) ns dns ++ [wt * rg * kx K 4]].

  Definition madd (a b : list (list T)) : list (list T) := zipw vadd a b.
  Definition elem_stiffness (e : Elem) (at_rg : bool) (gps : list (T * T)) (K rs : list T) (twopi : T) : list (list T) :=
    let n := S (length rs) in
    fold_right (fun xw acc => madd (gp_stiffness e at_rg K rs twopi xw) acc) (repeat (zeros n) n) gps.
  Definition mvec (m : list (list T)) (v : list T) : list T := map (fun row => dot row v) m.

  (* ---- the same with an arbitrary constitutive function sig : strain -> stress ------------------------ *)
  Definition elem_forces_sig (e : Elem) (at_rg : bool) (gps : list (T * T)) (sig : T * T * T -> T * T * T)
             (rs us : list T) (ezz twopi : T) : list T :=
    fold_right (fun xw acc => vadd (gp_forces_of_stress e at_rg rs twopi xw (sig (strain e rs us ezz (fst xw)))) acc)
               (zeros (S (length rs))) gps.

  (* ---- assembly: PipeTest::computeStiffnessMatrixAndResidual, small strain ---------------------------- *)
  (* An element is (r0, dr): first node radius and width.  The mesh of the code: ne elements of width (Re-Ri)/ne. *)
  Definition uniform_els (Ri Re : T) (ne : nat) : list (T * T) :=
    let dr := (Re - Ri) / c (Z.of_nat ne) in
    map (fun i => (Ri + dr * c (Z.of_nat i), dr)) (seq 0 ne).
  (* `ef el ul` = (nodal forces (p+1 values), axial force) of element el for the local nodal values ul; the global
     vector has p*ne+1 nodal entries (element i uses entries p*i .. p*i+p, as `r[p*i+j] += ...` in the code) and one
     axial entry (`r[n] += ...`), kept apart.  Induction on the list of elements. *)
  Fixpoint assemble (p : nat) (ef : T * T -> list T -> list T * T) (els : list (T * T)) (us : list T) : list T * T :=
    match els with
    | [] => ([c 0], c 0)
    | el :: rest =>
      let fl := ef el (firstn (S p) us) in
      let ra := assemble p ef rest (skipn p us) in
      (firstn p (fst fl) ++ (nth p (fst fl) (c 0) + hd (c 0) (fst ra)) :: tl (fst ra), snd fl + snd ra)
    end.
  Definition add_hd (x : T) (l : list T) : list T := match l with [] => [] | a :: t => (a + x) :: t end.
  Fixpoint add_last (x : T) (l : list T) : list T :=
    match l with [] => [] | [a] => [a + x] | a :: t => a :: add_last x t end.
  (* external forces of the imposed pressures (hpp branch of impose_inner_pressure and of the outer pressure block):
       r(0) -= 2 pi Pi Ri ;  r(ln) += 2 pi Pe Re ;  end cap: r(n) -= pi Ri Ri Pi ; r(n) += pi Re Re Pe *)
  Definition pipe_residual (p : nat) (ef : T * T -> list T -> list T * T) (els : list (T * T)) (us : list T)
             (Ri Re Pi Pe : T) (endcap : bool) (pi : T) : list T * T :=
    let ra := assemble p ef els us in
    (add_last (c 2 * pi * Pe * Re) (add_hd (neg (c 2 * pi * Pi * Ri)) (fst ra)),
     if endcap then snd ra - pi * Ri * Ri * Pi + pi * Re * Re * Pe else snd ra).

  (* the element contributions as the code computes them *)
  Definition split_axial (n : nat) (l : list T) : list T * T := (firstn n l, nth n l (c 0)).
  Definition ef_forces (e : Elem) (gps : list (T * T)) (sig : T * T * T -> T * T * T) (ezz twopi : T)
             (el : T * T) (ul : list T) : list T * T :=
    split_axial (length (nodes e)) (elem_forces_sig e false gps sig (elem_radii e (fst el) (snd el)) ul ezz twopi).
  (* action of the element stiffness on a local vector (wl, wz): assembled, it is the action of the global matrix *)
  Definition ef_stiff (e : Elem) (gps : list (T * T)) (K : list T) (twopi wz : T) (el : T * T) (wl : list T) : list T * T :=
    split_axial (length (nodes e)) (mvec (elem_stiffness e false gps K (elem_radii e (fst el) (snd el)) twopi) (wl ++ [wz])).
  (* global residual for the linear stub behaviour K, and action of the global stiffness matrix on (ws, wz) *)
  Definition pipe_residual_K (e : Elem) (gps : list (T * T)) (K : list T) (Ri Re : T) (ne : nat) (us : list T) (ezz : T)
             (Pi Pe : T) (endcap : bool) (pi : T) : list T * T :=
    pipe_residual (length (nodes e) - 1) (ef_forces e gps (stress K) ezz (c 2 * pi)) (uniform_els Ri Re ne) us Ri Re Pi Pe endcap pi.
  Definition pipe_stiffness_action (e : Elem) (gps : list (T * T)) (K : list T) (Ri Re : T) (ne : nat) (ws : list T) (wz : T)
             (pi : T) : list T * T :=
    assemble (length (nodes e) - 1) (ef_stiff e gps K (c 2 * pi) wz) (uniform_els Ri Re ne) ws.
  (* nodes of the mesh: element after element, the shared node taken from the next element *)
  Fixpoint chain_els (r0 : T) (drs : list T) : list (T * T) :=
    match drs with [] => [] | dr :: rest => (r0, dr) :: chain_els (r0 + dr) rest end.
  Fixpoint mesh_nodes (e : Elem) (r0 : T) (drs : list T) : list T :=
    match drs with
    | [] => [r0]
    | dr :: rest => firstn (length (nodes e) - 1) (elem_radii e r0 dr) ++ mesh_nodes e (r0 + dr) rest
    end.
End Model.

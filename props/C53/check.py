"""C53 -- PipeTest reproduces the elastic thick-walled cylinder (Lame) solution.
Proof part (Coq): the Lame closed form solves the pipe boundary value problem (oracle proved); shape functions
(partition of unity, nodal interpolation, derivative consistency, affine geometry), Gauss rules (exactness degree),
tangent consistency and patch test of the element model (engine H, hand-written Gallina model over an abstract scalar).
Tie: the real element sources of /repo are compiled into driver.cxx and compared with the model run on Q
(quadrature constants, shape functions, strains, inner forces, stiffness).
Execution (labelled as such): the element routines (driver `fe`) and the real `mtest` binary on generated .ptest files
against the proved oracle evaluated on Q, error decreasing under refinement at the element's order."""
import math, os, re, shutil
from fractions import Fraction
import vlib
from vlib import guarded_main

ENAME = {1: "linear", 2: "quadratic", 3: "cubic"}
PTNAME = {1: "Linear", 2: "Quadratic", 3: "Cubic"}
ELEM = {1: "lin_elem", 2: "quad_elem", 3: "cub_elem"}
MODEL = ["C53Spec.v", "C53Model.v"]
LIBS = ["-lTFELMTest", "-lMFrontLogStream", "-lTFELMaterial", "-lTFELMath", "-lTFELUtilities", "-lTFELException"]
TWOPI = 2 * 3.14159265358979323846
NES = [1, 2, 4, 8, 16]
# error at ne=16 relative to the scale of the solution (displacement, stress), per element order; generous
BOUND_U = {1: 5e-3, 2: 2e-5, 3: 2e-6}
BOUND_S = {1: 0.25, 2: 2e-2, 3: 1.5e-3}
FLOOR = 1e-10


def qlit(x):
    f = Fraction(x)
    return "((%d) # %d)" % (f.numerator, f.denominator)


def qlist(xs):
    return "[" + "; ".join(qlit(x) for x in xs) + "]"


HEADER = ("From Coq Require Import ZArith QArith List.\nFrom C53 Require Import C53Spec C53Model.\nImport ListNotations.\n"
          "Local Open Scope Q_scope.\n"
          "Definition outq (l : list Q) : list (Z * Z) := map (fun q => let r := Qred q in (Qnum r, Zpos (Qden r))) l.\n"
          "Definition s3 (t : Q * Q * Q) : list Q := let '(a, b, d) := t in [a; b; d].\n")


def coq_lists(c, evals, timeout=240):
    """evals: list of Gallina expressions of type list Q -> list of lists of Fractions (exact)"""
    res = []
    for k in range(0, len(evals), 400):
        chunk = evals[k:k + 400]
        txt = HEADER + "".join("Eval vm_compute in (outq (%s)).\n" % e for e in chunk)
        rc, out, err = c.coq_eval([os.path.join(c.work, 'coq', m) for m in MODEL], txt, timeout=timeout)
        if rc != 0:
            raise vlib.BuildError("model evaluation failed: " + err[-2000:])
        blocks = re.split(r"^\s*= ", out, flags=re.M)[1:]
        if len(blocks) != len(chunk):
            raise vlib.BuildError("model evaluation: %d results for %d queries" % (len(blocks), len(chunk)))
        for b in blocks:
            b = re.sub(r"\s+|%Z", "", b.split(":list")[0] if ":list" in b else re.sub(r"\s+", "", b).split(":list")[0])
            res.append([Fraction(int(a), int(d)) for a, d in re.findall(r"\(\(?(-?\d+)\)?,(\d+)\)", b)])
    return res


def close(a, b, scale, tol=1e-9):
    if not (math.isfinite(a)):
        return False
    return abs(a - float(b)) <= tol * max(scale, 1e-300)


def grp_ok(cpp, mod, tol=1e-9):
    if len(cpp) != len(mod):
        return False
    scale = max([abs(float(m)) for m in mod] + [1e-300])
    return all(close(a, m, scale, tol) for a, m in zip(cpp, mod))


# --------------------------------------------------------------------------------------------- stages
def stage_consts(c, drv):
    rc, out, err = c.run([drv, "consts"])
    if rc != 0:
        raise vlib.BuildError("driver consts failed: " + err[-800:])
    gps = {}
    for l in out.splitlines():
        t = l.split()
        v = [float(x) for x in t[1:]]
        gps[int(t[0][1])] = list(zip(v[0::2], v[1::2]))
    # linear: +-1/sqrt(3), weight 1 ; quadratic: +-sqrt(3/5), 0 ; 5/9, 8/9, 5/9   (lin_gps_R / quad_gps_R of the model)
    F = Fraction
    lin_ok = (len(gps[1]) == 2 and gps[1][0][0] < 0 < gps[1][1][0] and all(abs(3 * F(p) ** 2 - 1) < F(1, 10 ** 15) and w == 1.0 for p, w in gps[1]))
    c.count(2, "consts:linear")
    if not lin_ok:
        c.report("consts:linear", "PipeLinearElement::pg_radii/wg = %s are not the 2-point Gauss rule (+-1/sqrt 3, 1) of the model" % (gps[1],),
                 {"observed": gps[1], "how": "props/C53/driver.cxx consts"}, True)
    q = gps[2]
    quad_ok = (len(q) == 3 and q[0][0] < 0 < q[2][0] and q[1][0] == 0.0 and all(abs(5 * F(q[k][0]) ** 2 - 3) < F(1, 10 ** 15) for k in (0, 2))
               and all(abs(9 * F(q[k][1]) - 5) < F(1, 10 ** 15) for k in (0, 2)) and abs(9 * F(q[1][1]) - 8) < F(1, 10 ** 15))
    c.count(3, "consts:quadratic")
    if not quad_ok:
        c.report("consts:quadratic", "PipeQuadraticElement::pg_radii/wg = %s are not the 3-point Gauss rule (+-sqrt(3/5), 0; 5/9, 8/9, 5/9) of the model" % (q,),
                 {"observed": q, "how": "props/C53/driver.cxx consts"}, True)
    m = coq_lists(c, ["flat_map (fun xw => [fst xw; snd xw]) (cub_gps QNum)"])[0]
    mg = list(zip(m[0::2], m[1::2]))
    c.count(4, "consts:cubic")
    cub_ok = len(gps[3]) == 4 and all(abs(F(p) - mp) < F(1, 10 ** 16) and abs(F(w) - mw) < F(1, 10 ** 16) for (p, w), (mp, mw) in zip(gps[3], mg))
    if not cub_ok:
        c.report("consts:cubic", "PipeCubicElement::pg_radii/wg = %s differ from the decimal 4-point rule of the model %s" % (
            gps[3], [(float(a), float(b)) for a, b in mg]), {"observed": gps[3], "how": "props/C53/driver.cxx consts"}, True)
    return gps


def stage_sf(c, drv, gps):
    rng = c.rng
    xs = [-1.0, -1 / 3, 0.0, 1 / 3, 1.0, 0.5, -0.5] + [p for e in (1, 2, 3) for p, _ in gps[e]]
    xs += [rng.randrange(-192, 193) / 128.0 for _ in range(c.pick(10, 200))]
    rc, out, err = c.run([drv, "sf"], input="\n".join("%r" % x for x in xs) + "\n")
    if rc != 0:
        raise vlib.BuildError("driver sf failed: " + err[-800:])
    rows = {}
    for l in out.splitlines():
        t = l.split()
        rows.setdefault(t[0], []).append((float(t[1]), [float(v) for v in t[2:]]))
    unit = {2: ["[1;0]", "[0;1]"], 3: ["[1;0;0]", "[0;1;0]", "[0;0;1]"], 4: ["[1;0;0;0]", "[0;1;0;0]", "[0;0;1;0]", "[0;0;0;1]"]}
    evals, meta = [], []
    for tag, e, fn in (("SF1", 1, "interp"), ("SF2", 2, "interp"), ("SF3", 3, "interp"), ("SFP3", 3, "interp"),
                       ("DSF3", 3, "dinterp"), ("JAC3", 3, "dinterp")):
        for x, vals in rows.get(tag, []):
            evals.append("[" + "; ".join("%s QNum (%s QNum) %s %s" % (fn, ELEM[e], u, qlit(x)) for u in unit[e + 1]) + "]")
            meta.append((tag, e, x, vals))
    mods = coq_lists(c, evals)
    bad = {}
    for (tag, e, x, vals), mod in zip(meta, mods):
        c.count(1, ("sf", tag, x), True)
        ok = len(vals) == len(mod) and all(abs(a - float(m)) <= 1e-12 * max(1.0, abs(float(m))) for a, m in zip(vals, mod))
        if not ok and (tag, e) not in bad:
            bad[(tag, e)] = (x, vals, [float(m) for m in mod])
    for (tag, e), (x, vals, mod) in bad.items():
        what = {"SF1": "interpolate", "SF2": "interpolate", "SF3": "interpolate", "SFP3": "sf0..sf3", "DSF3": "dsf0..dsf3", "JAC3": "jacobian"}[tag]
        c.report("sf:%s:%s" % (ENAME[e], what), "Pipe%sElement::%s at x=%r returns %s for the unit nodal vectors; the model (C53Model.v, shape functions of the source) gives %s" % (
            PTNAME[e], what, x, vals, mod), {"element": ENAME[e], "function": what, "x": x, "observed": vals, "model": mod,
                                             "how": "echo %r | props/C53 driver sf" % x}, True)
    c.sample({"stage": "shape functions", "x": xs[7], "SF3(model)": [float(m) for m in mods[0]] if mods else None})
    return len(meta)


def elem_case_text(et, Ri, Re, ne, i, K, u):
    return " ".join(["%d %r %r %d %d" % (et, Ri, Re, ne, i)] + ["%r" % k for k in K] + ["%r" % v for v in u])


def stage_elem(c, drv, gps):
    rng = c.rng
    cases = []
    for et in (1, 2, 3):
        for _ in range(c.pick(2, 12)):
            Ri = rng.randrange(32, 321) / 64.0
            Re = Ri + rng.randrange(16, 193) / 64.0
            ne = rng.randrange(1, 5)
            i = rng.randrange(0, ne)
            K = [rng.randrange(-64, 65) / 16.0 for _ in range(9)]
            u = [rng.randrange(-256, 257) / 256.0 for _ in range(et * ne + 2)]
            cases.append((et, Ri, Re, ne, i, K, u))
    rc, out, err = c.run([drv, "elem"], input="\n".join(elem_case_text(*k) for k in cases) + "\n")
    if rc != 0:
        raise vlib.BuildError("driver elem failed: " + err[-800:])
    obs = {}
    for l in out.splitlines():
        t = l.split()
        if t[0] == "GP":
            obs.setdefault(int(t[1]), {}).setdefault("gp", []).append([float(v) for v in t[3:]])
        elif t[0] in ("R", "K"):
            obs.setdefault(int(t[1]), {})[t[0]] = [float(v) for v in t[2:]]
    evals, variant = [], []
    for (et, Ri, Re, ne, i, K, u) in cases:
        dr = (Fraction(Re) - Fraction(Ri)) / ne
        r0 = Fraction(Ri) + dr * i
        e = "(%s QNum)" % ELEM[et]
        g = "(cub_gps QNum)" if et == 3 else "[" + "; ".join("(%s, %s)" % (qlit(p), qlit(w)) for p, w in gps[et]) + "]"
        us = qlist(u[et * i: et * i + et + 1])
        ezz = qlit(u[-1])
        rs = "(elem_radii QNum %s %s %s)" % (e, qlit(r0), qlit(dr))
        evals.append("flat_map (fun xw => interp QNum %s %s (fst xw) :: s3 (strain QNum %s %s %s %s (fst xw))) %s" % (e, rs, e, rs, us, ezz, g))
        for flag in ("false", "true"):
            (evals if flag == "false" else variant).append("elem_forces QNum %s %s %s %s %s %s %s 1 ++ concat (elem_stiffness QNum %s %s %s %s %s 1)" % (
                e, flag, g, qlist(K), rs, us, ezz, e, flag, g, qlist(K), rs))
    mods = coq_lists(c, evals)
    tp = Fraction(TWOPI)
    reported = set()
    for k, (et, Ri, Re, ne, i, K, u) in enumerate(cases):
        o = obs.get(k, {})
        nl = et + 1
        n = et * ne + 2
        idx = [et * i + j for j in range(nl)] + [n - 1]
        gp_cpp = [v for row in o.get("gp", []) for v in row]
        r_cpp = o.get("R", [])
        k_cpp = o.get("K", [])
        loc = (len(r_cpp) == n and len(k_cpp) == n * n)
        r_loc = [r_cpp[a] for a in idx] if loc else []
        k_loc = [k_cpp[a * n + b] for a in idx for b in idx] if loc else []
        outside = loc and (any(r_cpp[a] != 0 for a in range(n) if a not in idx) or
                           any(k_cpp[a * n + b] != 0 for a in range(n) for b in range(n) if a not in idx or b not in idx))
        mgp, mok = mods[2 * k], [tp * v for v in mods[2 * k + 1]]
        c.count(1, ("elem", k, et), True)
        if k % 7 == 0:
            c.sample({"stage": "element", "element": ENAME[et], "Ri": Ri, "Re": Re, "ne": ne, "i": i, "K": K, "u": u,
                      "inner_forces(code)": r_loc, "inner_forces(model)": [float(v) for v in mok[:nl + 1]]})
        replay = {"element": ENAME[et], "Ri": Ri, "Re": Re, "number_of_elements": ne, "element_index": i, "K_row_major(rr,zz,tt)": K,
                  "u(nodes..,ezz)": u, "how": "echo '%s' | <driver> elem" % elem_case_text(et, Ri, Re, ne, i, K, u)}
        if not grp_ok(gp_cpp, mgp):
            key = "elem:%s:strain" % ENAME[et]
            if key not in reported:
                reported.add(key)
                replay.update({"observed(pos,err,ezz,ett per Gauss point)": gp_cpp, "model": [float(v) for v in mgp]})
                c.report(key, "Pipe%sElement::computeStrain: Gauss point positions/strains %s differ from the model %s (Ri=%r Re=%r ne=%d i=%d)" % (
                    PTNAME[et], gp_cpp, [float(v) for v in mgp], Ri, Re, ne, i), replay, True)
            continue
        both = r_loc + k_loc
        if loc and not outside and grp_ok(r_loc, mok[:nl + 1]) and grp_ok(k_loc, mok[nl + 1:]):
            continue
        mbug = [tp * v for v in coq_lists(c, [variant[k]])[0]]
        if loc and not outside and grp_ok(r_loc, mbug[:nl + 1]) and grp_ok(k_loc, mbug[nl + 1:]):
            key = "elem:%s:sf-at-radius" % ENAME[et]
            what = ("Pipe%sElement::updateStiffnessMatrixAndInnerForces evaluates the shape functions of the test function at the physical radius "
                    "rg instead of the reference abscissa pg: inner forces %s, correct element (model) %s, variant model at_rg=true %s "
                    "(Ri=%r Re=%r ne=%d i=%d)" % (PTNAME[et], r_loc, [float(v) for v in mok[:nl + 1]], [float(v) for v in mbug[:nl + 1]], Ri, Re, ne, i))
        else:
            key = "elem:%s:forces-or-stiffness" % ENAME[et]
            what = "Pipe%sElement::updateStiffnessMatrixAndInnerForces: inner forces %s (model %s) or stiffness differ from the model (Ri=%r Re=%r ne=%d i=%d)" % (
                PTNAME[et], r_loc, [float(v) for v in mok[:nl + 1]], Ri, Re, ne, i)
        if key not in reported:
            reported.add(key)
            replay.update({"observed_inner_forces": r_loc, "model_inner_forces": [float(v) for v in mok[:nl + 1]],
                           "observed_stiffness": k_loc, "model_stiffness": [float(v) for v in mok[nl + 1:]]})
            c.report(key, what, replay, True)
    return len(cases)


def problems(c):
    rng = c.rng
    P = []
    for k in range(c.pick(2, 8)):
        Ri = rng.randrange(40, 400) / 100.0 * (10 ** rng.choice([-3, 0]))
        ratio = rng.choice([1.12, 1.5, 2.0, 2.5]) if k else 2.0
        Re = Ri * ratio
        E = rng.randrange(50, 251) * 1e9
        nu = rng.randrange(10, 41) / 100.0
        Pi = rng.randrange(1, 51) * 1e6
        Pe = rng.randrange(0, 31) * 1e6
        P.append(dict(Ri=Ri, Re=Re, E=E, nu=nu, Pi=Pi, Pe=Pe, axial=k % 2))
    return P


def parse_fe(out):
    res = {}
    for l in out.splitlines():
        t = l.split()
        if t[0] == "FE":
            res[int(t[1])] = {"ok": t[2] == "1", "res": float(t[3]), "S": []}
        elif t[0] == "U":
            res[int(t[1])]["u"] = [float(v) for v in t[2:]]
        elif t[0] == "S":
            res[int(t[1])]["S"].append([float(v) for v in t[2:]])
    return res


class Oracle:
    """the proved closed form (C53Spec.v, lame_*_G) evaluated on Q by vm_compute"""

    def __init__(self, c, pb):
        self.c, self.pb, self.cache = c, pb, {}
        a = [qlit(pb[k]) for k in ("Ri", "Re", "Pi", "Pe")]
        self.geo = " ".join(a)
        self.mat = "%s %s" % (qlit(pb["E"]), qlit(pb["nu"]))
        # szz_end_cap = lameA / szz_no_axial_force = 0 (C53Spec.v)
        A, e1, e0 = coq_lists(c, ["let A := lameA_G QNumPlain %s in [A; lame_ezz_G QNumPlain %s %s A; lame_ezz_G QNumPlain %s %s 0]" % (
            self.geo, self.mat, self.geo, self.mat, self.geo)])[0]
        self.s = A if pb["axial"] == 1 else Fraction(0)
        self.ezz = e1 if pb["axial"] == 1 else e0

    def at(self, rs):
        todo = [r for r in dict.fromkeys(rs) if r not in self.cache]
        ev = ["[lame_u_G QNumPlain %s %s %s %s; lame_srr_G QNumPlain %s %s; lame_stt_G QNumPlain %s %s]" % (
            self.mat, self.geo, qlit(self.s), qlit(r), self.geo, qlit(r), self.geo, qlit(r)) for r in todo]
        for r, v in zip(todo, coq_lists(self.c, ev)):
            self.cache[r] = [float(x) for x in v]
        return [self.cache[r] for r in rs]


def errors(pb, orc, et, ne, u, S):
    """(displacement error, stress error) of an FE solution relative to the scale of the exact one"""
    Ri, Re = pb["Ri"], pb["Re"]
    nn = et * ne + 1
    rn = [Ri + (Re - Ri) * k / (nn - 1) for k in range(nn)]
    ex = orc.at(rn + [row[0] for row in S])
    un = [e[0] for e in ex[:nn]]
    su = max(abs(v) for v in un)
    ezz = float(orc.ezz)
    eu = max(abs(a - b) for a, b in zip(u[:nn], un)) / su
    eu = max(eu, abs(u[nn] - ezz) / max(abs(ezz), su / Ri))
    ss = max(abs(pb["Pi"]), abs(pb["Pe"]), max(abs(e[2]) for e in ex[nn:]))
    es = 0.0
    for row, e in zip(S, ex[nn:]):
        es = max(es, abs(row[1] - e[1]) / ss, abs(row[2] - e[2]) / ss, abs(row[3] - float(orc.s)) / ss)
    if not all(math.isfinite(v) for v in u) or not all(math.isfinite(v) for row in S for v in row):
        eu = es = float("inf")
    return eu, es


def judge(et, errs):
    """errs: {ne: (eu, es)} -> list of reasons why this is not `converging to Lame at the element's order`"""
    why = []
    eu16, es16 = errs[16]
    if not (eu16 <= BOUND_U[et]):
        why.append("displacement error at 16 elements %.3g > %.3g" % (eu16, BOUND_U[et]))
    if not (es16 <= BOUND_S[et]):
        why.append("stress error at 16 elements %.3g > %.3g" % (es16, BOUND_S[et]))
    for a, b in zip(NES, NES[1:]):
        for j, nm in ((0, "displacement"), (1, "stress")):
            if errs[b][j] > FLOOR and not (errs[b][j] < errs[a][j]):
                why.append("%s error does not decrease from %d to %d elements (%.3g -> %.3g)" % (nm, a, b, errs[a][j], errs[b][j]))
    for j, nm, order in ((0, "displacement", et + 1 - 0.6), (1, "stress", et - 0.45)):
        if errs[16][j] > FLOOR and errs[8][j] > 0 and math.isfinite(errs[8][j]):
            rate = math.log2(errs[8][j] / errs[16][j]) if errs[16][j] > 0 else 99
            if not (rate >= order):
                why.append("%s convergence rate 8->16 elements %.2f < %.2f" % (nm, rate, order))
    return why


def stage_fe(c, drv, pbs, orcs):
    lines, meta = [], []
    for ip, pb in enumerate(pbs):
        for et in (1, 2, 3):
            for ne in NES:
                lines.append("%d %r %r %d %r %r %r %r %d" % (et, pb["Ri"], pb["Re"], ne, pb["E"], pb["nu"], pb["Pi"], pb["Pe"], pb["axial"]))
                meta.append((ip, et, ne))
    rc, out, err = c.run([drv, "fe"], input="\n".join(lines) + "\n")
    if rc != 0:
        raise vlib.BuildError("driver fe failed: " + err[-800:])
    res = parse_fe(out)
    sol = {}
    for k, (ip, et, ne) in enumerate(meta):
        sol[(ip, et, ne)] = res[k]
    for ip, pb in enumerate(pbs):
        pts = []
        for et in (1, 2, 3):
            for ne in NES:
                nn = et * ne + 1
                pts += [pb["Ri"] + (pb["Re"] - pb["Ri"]) * k / (nn - 1) for k in range(nn)] + [row[0] for row in sol[(ip, et, ne)]["S"]]
        orcs[ip].at(pts)   # one batch per problem
        for et in (1, 2, 3):
            errs = {ne: errors(pb, orcs[ip], et, ne, sol[(ip, et, ne)]["u"], sol[(ip, et, ne)]["S"]) for ne in NES}
            c.count(len(NES), ("fe", ip, et), True)
            why = judge(et, errs)
            if ip == 0:
                c.sample({"stage": "element routines + our LU (execution)", "element": ENAME[et], "problem": pb,
                          "errors(ne: displacement, stress)": {ne: ["%.3g" % v for v in errs[ne]] for ne in NES}})
            if why:
                c.report("fe:%s:not-lame" % ENAME[et],
                         "elastic pipe solved with Pipe%sElement::updateStiffnessMatrixAndInnerForces does not converge to the Lame solution: %s; problem %s; errors %s" % (
                             PTNAME[et], "; ".join(why[:3]), pb, {ne: ["%.3g" % v for v in errs[ne]] for ne in NES}),
                         {"problem": pb, "element": ENAME[et], "errors": {str(ne): errs[ne] for ne in NES}, "reasons": why,
                          "how": "echo '%d %r %r 16 %r %r %r %r %d' | <driver> fe" % (et, pb["Ri"], pb["Re"], pb["E"], pb["nu"], pb["Pi"], pb["Pe"], pb["axial"])}, True)
    return sol


def build_behaviour(c):
    """small isotropic elastic behaviour generated by the mfront of /repo/_build (generic interface)"""
    wd = os.path.join(c.work, "mfront")
    os.makedirs(wd, exist_ok=True)
    shutil.copyfile(os.path.join(c.dir, "Elas.mfront"), os.path.join(wd, "Elas.mfront"))
    # vlib.run isolates mfront in a private /dev/shm: the shared semaphore is never touched
    rc, out, err = c.run([os.path.join(vlib.REPO_BUILD, "mfront", "src", "mfront"), "--interface=generic", "Elas.mfront"], cwd=wd, timeout=300)
    if rc != 0:
        raise vlib.BuildError("mfront failed on Elas.mfront: " + (out + err)[-1500:])
    return c.cxx("libVElas.so", [os.path.join(wd, "src", "VElas.cxx"), os.path.join(wd, "src", "VElas-generic.cxx")],
                 flags=["-fPIC", "-I" + os.path.join(wd, "include")], libs=["-shared"])


def stage_mtest(c, pbs, orcs, sol):
    c.repo_build(["mtest", "mfront"])
    lib = build_behaviour(c)
    mtest = os.path.join(vlib.REPO_BUILD, "mtest", "src", "mtest")
    wd = os.path.join(c.work, "ptest")
    os.makedirs(wd, exist_ok=True)
    nruns = 0
    runs = {}
    for ip, pb in enumerate(pbs):
        for et in (1, 2, 3):
            for ne in NES:
                name = "p%d_%s_%d" % (ip, ENAME[et], ne)
                with open(os.path.join(wd, name + ".ptest"), "w") as f:
                    f.write("@InnerRadius %r;\n@OuterRadius %r;\n@NumberOfElements %d;\n@ElementType '%s';\n@AxialLoading '%s';\n"
                            "@PerformSmallStrainAnalysis true;\n@Behaviour<generic> '%s' 'VElas';\n"
                            "@MaterialProperty<constant> 'YoungModulus' %r;\n@MaterialProperty<constant> 'PoissonRatio' %r;\n"
                            "@ExternalStateVariable 'Temperature' 293.15;\n@InnerPressureEvolution %r;\n@OuterPressureEvolution %r;\n"
                            "@Times {0,1};\n@OutputFilePrecision 17;\n@Profile '%s.prof' {'SRR','STT','SZZ'};\n" % (
                                pb["Ri"], pb["Re"], ne, PTNAME[et], "EndCapEffect" if pb["axial"] else "None", lib, pb["E"], pb["nu"],
                                pb["Pi"], pb["Pe"], name))
                rc, out, err = c.run([mtest, name + ".ptest"], cwd=wd, timeout=120)
                nruns += 1
                success = rc == 0 and "SUCCESS" in out
                try:
                    last = [l for l in open(os.path.join(wd, name + ".res")) if not l.startswith("#")][-1].split()
                    S = [[float(v) for v in l.split()] for l in open(os.path.join(wd, name + ".prof")) if l.strip() and not l.startswith("#")]
                    S = S[-(et + 1) * ne:]
                    uin, uout, ezz = float(last[3]), float(last[4]), float(last[5])
                    if len(S) != (et + 1) * ne or any(len(row) != 4 for row in S):
                        raise ValueError("profile")
                    runs[(ip, et, ne)] = (name, success, last, S, uin, uout, ezz)
                except (OSError, IndexError, ValueError):
                    runs[(ip, et, ne)] = (name, success, None, None, None, None, None)
    for ip, pb in enumerate(pbs):
        orcs[ip].at([pb["Ri"], pb["Re"]] + [row[0] for (k, r) in runs.items() if k[0] == ip and r[3] for row in r[3] if math.isfinite(row[0])])
        for et in (1, 2, 3):
            errs, nan_ok, differs = {}, None, None
            for ne in NES:
                name, success, last, S, uin, uout, ezz = runs[(ip, et, ne)]
                if last is None or not all(math.isfinite(row[0]) for row in S):
                    errs[ne] = (float("inf"), float("inf"))
                    continue
                finite = all(math.isfinite(v) for v in (uin, uout, ezz)) and all(math.isfinite(v) for row in S for v in row)
                if success and not finite and nan_ok is None:
                    nan_ok = (name, last)
                # error against the proved oracle: only the two boundary nodes are in the .res output
                Ri, Re = pb["Ri"], pb["Re"]
                ex = orcs[ip].at([Ri, Re] + [row[0] for row in S])
                su = max(abs(ex[0][0]), abs(ex[1][0]))
                ez = float(orcs[ip].ezz)
                eu = max(abs(uin - ex[0][0]) / su, abs(uout - ex[1][0]) / su, abs(ezz - ez) / max(abs(ez), su / Ri)) if finite else float("inf")
                ss = max(abs(pb["Pi"]), abs(pb["Pe"]), max(abs(e[2]) for e in ex[2:]))
                es = max(max(abs(row[1] - e[1]), abs(row[2] - e[2]), abs(row[3] - float(orcs[ip].s))) / ss for row, e in zip(S, ex[2:])) if finite else float("inf")
                errs[ne] = (eu, es)
                # agreement with the element-level driver (ties PipeTest's boundary terms / solver to our replication)
                d = sol[(ip, et, ne)]
                if finite and d["ok"]:
                    nn = et * ne + 1
                    dd = max(abs(uin - d["u"][0]) / su, abs(uout - d["u"][nn - 1]) / su)
                    dd = max([dd] + [abs(a - b) / ss for row, drow in zip(S, d["S"]) for a, b in zip(row[1:4], drow[1:4])])
                    if dd > 1e-7 and differs is None:
                        differs = (name, dd)
            c.count(len(NES), ("mtest", ip, et), True)
            if ip == 0:
                c.sample({"stage": "real mtest binary (execution)", "element": ENAME[et], "problem": pb,
                          "errors(ne: boundary displacement, stress)": {ne: ["%.3g" % v for v in errs[ne]] for ne in NES}})
            if nan_ok:
                c.report("mtest:%s:nan-accepted" % ENAME[et], "mtest reports SUCCESS for %s.ptest although the results are not finite (last line of the .res file: %s): "
                         "PipeTest::checkConvergence takes the max norm with std::max, which drops NaN" % (nan_ok[0], " ".join(nan_ok[1])),
                         {"problem": pb, "element": ENAME[et], "ptest": open(os.path.join(wd, nan_ok[0] + ".ptest")).read()}, True)
            # the displacement error of the two boundary nodes is super-convergent: only bounds and monotony are asked of it
            why = [w for w in judge(et, errs) if not w.startswith("displacement convergence rate")]
            if why:
                c.report("mtest:%s:not-lame" % ENAME[et],
                         "mtest (PipeTest, element %s) does not converge to the Lame solution: %s; problem %s; errors %s" % (
                             PTNAME[et], "; ".join(why[:3]), pb, {ne: ["%.3g" % v for v in errs[ne]] for ne in NES}),
                         {"problem": pb, "element": ENAME[et], "errors": {str(ne): errs[ne] for ne in NES}, "reasons": why,
                          "ptest(16 elements)": open(os.path.join(wd, "p%d_%s_16.ptest" % (ip, ENAME[et]))).read()}, True)
            if differs:
                c.report("mtest:%s:differs-from-element-driver" % ENAME[et],
                         "mtest result of %s.ptest differs from the same problem assembled by props/C53/driver.cxx with the same element routines by %.3g (relative)" % differs,
                         {"problem": pb, "element": ENAME[et], "ptest": open(os.path.join(wd, differs[0] + ".ptest")).read()}, True)
    return nruns


def main(c):
    drv = c.cxx("driver", ["driver.cxx"], libs=LIBS, link_repo_libs=True)
    res = c.coq(["C53Spec.v", "C53Model.v", "C53ProofsA.v", "C53ProofsB.v", "Properties_C53.v"], timeout=900)
    if not res.ok:
        c.coq_failures(res, None)
        if any(f[0] in ("C53Spec.v", "C53Model.v") for f in res.failed):
            return
    c.log('coq done')
    gps = stage_consts(c, drv)
    nsf = stage_sf(c, drv, gps)
    c.log('sf done')
    nel = stage_elem(c, drv, gps)
    c.log('elem done')
    pbs = problems(c)
    orcs = [Oracle(c, pb) for pb in pbs]
    c.log('oracle init done')
    sol = stage_fe(c, drv, pbs, orcs)
    c.log('fe done')
    nm = 0
    if vlib.REPO == "/repo":
        nm = stage_mtest(c, pbs, orcs, sol)
    else:
        c.notes.append("VERIF_REPO is a scratch worktree: the mtest binary of /repo/_build is not built from it, mtest stage skipped")
    c.coverage["traces_validated_against_impl"] = nsf + nel
    c.coverage["rule"] = (
        "correspondence: quadrature constants (3 elements); shape functions at nodes, Gauss points and seeded dyadic abscissae; "
        "computeStrain/updateStiffnessMatrixAndInnerForces on seeded elements (dyadic radii, displacements, non-symmetric 3x3 tangent) "
        "against the Gallina model evaluated on Q, relative tolerance 1e-9..1e-12. "
        "execution: %d seeded elastic pipe problems (radius ratio 1.12..2.5, E, nu, Pi, Pe, axial loading None/EndCapEffect) x 3 elements x "
        "meshes %s through the element routines (driver fe) and through the real mtest binary (%d runs), error against the proved Lame "
        "closed form evaluated on Q; distinct = (stage, problem, element) or (stage, input)" % (len(pbs), NES, nm))
    c.trusted("hand-written Gallina model C53Model.v of the three pipe elements, tied to mtest/src/Pipe*Element.cxx by execution on seeded inputs only",
              "props/C53/driver.cxx: stub linear behaviour, replication of PipeTest's pressure terms, dense LU (element stage); libTFELMTest.so of /repo/_build for CurrentState/StructureCurrentState",
              "Python differ (tolerances), .ptest generator, parsing of mtest's .res/.prof output; g++, mfront-generated elastic behaviour VElas",
              "uniqueness of the solution of the pipe boundary value problem is classical and NOT proved here (the oracle is proved to be a solution)")
    c.assumptions.append("IEEE rounding is not modelled: theorems are over R, code/model agreement is checked to 1e-9 relative")
    c.assumptions.append("convergence under refinement at the element's order is observed by execution, not proved")


guarded_main("C53", main)

"""C53 -- PipeTest reproduces the elastic thick-walled cylinder (Lame) solution.
Proof part (Coq): the Lame closed form solves the pipe boundary value problem (oracle proved); shape functions
(partition of unity, nodal interpolation, derivative consistency, affine geometry), Gauss rules (exactness degree -- of the
exact rules and of the constants READ FROM THE COMPILED CODE AT THIS RUN, generated file C53_gen.v), tangent consistency and
patch test of one element; ASSEMBLY of the mesh for any number of elements (induction on the list of elements): assembled
residual = Galerkin weak form by the element quadrature, assembled stiffness = tangent and symmetric for a symmetric
tangent, patch test at mesh level with the exact Lame field of a uniform pressure (engine H, hand-written Gallina model over
an abstract scalar).
Tie: the real sources of /repo (the three element .cxx files and PipeTest.cxx) are compiled into driver.cxx and compared with
the model run on Q: quadrature constants, shape functions, strains, inner forces, stiffness of one element, and the residual
and stiffness assembled by the REAL PipeTest::computeStiffnessMatrixAndResidual.
Execution (labelled as such): full elastic problems assembled by the real PipeTest (driver `fe`, our LU) and the real `mtest`
binary on generated .ptest files against the proved oracle evaluated on Q; the convergence-rate study is in the thorough tier."""
import hashlib, math, os, re, shutil
from concurrent.futures import ThreadPoolExecutor
from fractions import Fraction
import vlib
from vlib import guarded_main

ENAME = {1: "linear", 2: "quadratic", 3: "cubic"}
PTNAME = {1: "Linear", 2: "Quadratic", 3: "Cubic"}
ELEM = {1: "lin_elem", 2: "quad_elem", 3: "cub_elem"}
GEN = {1: "gen_lin_gps", 2: "gen_quad_gps", 3: "gen_cub_gps"}
LIGHT = ["C53Num.v", "C53Model.v"]          # + the generated C53_gen.v: all the execution harness loads (no real numbers)
LIBS = ["-lTFELMTest", "-lMFrontLogStream", "-lTFELMaterial", "-lTFELMathParser", "-lTFELMath", "-lTFELUtilities", "-lTFELException",
        "-lTFELTests", "-lTFELSystem"]
# PipeTest.cxx of the tree under test + the translation units whose symbols libTFELMTest.so does not export
REPO_SRC = ["mtest/src/PipeTest.cxx", "mtest/src/PipeProfile.cxx", "mtest/src/PipeProfileHandler.cxx", "mtest/src/OxidationStatusEvolution.cxx",
            "mtest/src/GenericSolver.cxx", "mtest/src/Solver.cxx"]
PI = 3.14159265358979323846          # the literal of PipeTest.cxx / Pipe*Element.cxx
TWOPI = 2 * PI
# error relative to the scale of the solution (displacement, stress), per element order and number of elements: 2.5..3 times the
# worst value measured on the family of problems generated below (radius ratio <= 2.5, nu 0.1..0.4, both axial loadings)
BOUND_U = {1: {1: 0.8, 2: 0.35, 4: 0.1, 8: 0.03, 16: 7e-3}, 2: {1: 0.12, 2: 1.6e-2, 4: 1.5e-3, 8: 1e-4, 16: 2e-5},
           3: {1: 1.2e-2, 2: 1.4e-3, 4: 1.4e-4, 8: 1.2e-5, 16: 2e-6}}
BOUND_S = {1: {1: 2.4, 2: 2.1, 4: 1.3, 8: 0.7, 16: 0.4}, 2: {1: 1.0, 2: 0.4, 4: 0.15, 8: 5e-2, 16: 2e-2},
           3: {1: 0.26, 2: 7e-2, 4: 1.6e-2, 8: 3e-3, 16: 1.5e-3}}
FLOOR = 1e-10


def qlit(x):
    f = Fraction(x)
    return "((%d) # %d)" % (f.numerator, f.denominator)


def qlist(xs):
    return "[" + "; ".join(qlit(x) for x in xs) + "]"


HEADER = ("From Coq Require Import ZArith QArith List.\nFrom C53 Require Import C53Num C53Model C53_gen.\nImport ListNotations.\n"
          "Local Open Scope Q_scope.\n"
          "Definition outq (l : list Q) : list (Z * Z) := map (fun q => let r := Qred q in (Qnum r, Zpos (Qden r))) l.\n"
          "Definition s3 (t : Q * Q * Q) : list Q := let '(a, b, d) := t in [a; b; d].\n"
          "Definition pr (t : list Q * Q) : list Q := fst t ++ [snd t].\n")


def parse_lists(out, n):
    blocks = re.split(r"^\s*= ", out, flags=re.M)[1:]
    if len(blocks) != n:
        raise vlib.BuildError("model evaluation: %d results for %d queries" % (len(blocks), n))
    res = []
    for b in blocks:
        b = re.sub(r"\s+|%Z", "", b)
        b = b.split(":list")[0]
        res.append([Fraction(int(a), int(d)) for a, d in re.findall(r"\(\(?(-?\d+)\)?,(\d+)\)", b)])
    return res


def coq_lists(c, evals, prelude="", timeout=600):
    """evals: Gallina expressions of type list Q -> list of lists of Fractions (exact); one coqc call"""
    if not evals:
        return []
    txt = HEADER + prelude + "".join("Eval vm_compute in (outq (%s)).\n" % e for e in evals)
    rc, out, err = c.coq_eval([os.path.join(c.work, 'coq', m) for m in LIGHT + ["C53_gen.v"]], txt, timeout=timeout)
    if rc != 0:
        raise vlib.BuildError("model evaluation failed: " + err[-2000:])
    return parse_lists(out, len(evals))


def close(a, b, scale, tol=1e-9):
    if not (math.isfinite(a)):
        return False
    return abs(a - float(b)) <= tol * max(scale, 1e-300)


def grp_ok(cpp, mod, tol=1e-9):
    if len(cpp) != len(mod):
        return False
    scale = max([abs(float(m)) for m in mod] + [1e-300])
    return all(close(a, m, scale, tol) for a, m in zip(cpp, mod))


# --------------------------------------------------------------------------------------------- constants of the compiled code
def read_consts(c, drv):
    rc, out, err = c.run([drv, "consts"])
    if rc != 0:
        raise vlib.BuildError("driver consts failed: " + err[-800:])
    gps = {}
    for l in out.splitlines():
        t = l.split()
        v = [float(x) for x in t[1:]]
        gps[int(t[0][1])] = list(zip(v[0::2], v[1::2]))
    return gps


def write_gen(c, gps):
    """C53_gen.v: the quadrature constants the compiled element code uses, as exact rationals (regenerated at every run)"""
    def lit(x):
        f = Fraction(x)
        return "(ndiv N (nZ N (%d)) (nZ N %d))" % (f.numerator, f.denominator)
    out = ["(* GENERATED at every run by props/C53/check.py from the values printed by `driver consts`, i.e. the constexpr",
           "   pg_radii / wg of mtest/include/MTest/Pipe{Linear,Quadratic,Cubic}Element.hxx as compiled from the tree under test:",
           "   the exact rational value of each double. *)",
           "From Coq Require Import ZArith QArith List.", "From C53 Require Import C53Num.", "Import ListNotations.",
           "Section Gen.", "  Context {T : Type} (N : Num T)."]
    for e in (1, 2, 3):
        out.append("  Definition %s : list (T * T) :=\n    [%s]." % (GEN[e], ";\n     ".join("(%s, %s)" % (lit(p), lit(w)) for p, w in gps[e])))
    out.append("End Gen.")
    wd = os.path.join(c.work, "coq")
    os.makedirs(wd, exist_ok=True)
    path = os.path.join(wd, "C53_gen.v")
    with open(path, "w") as f:
        f.write("\n".join(out) + "\n")
    return path


def moment_defects(pts, degree, eps):
    """independent statement of `a Gauss rule integrates x^k exactly for k <= degree`, exact rational arithmetic on the doubles"""
    bad = []
    for k in range(degree + 1):
        m = sum(Fraction(w) * Fraction(p) ** k for p, w in pts)
        ex = Fraction(2, k + 1) if k % 2 == 0 else Fraction(0)
        if abs(m - ex) > eps:
            bad.append((k, float(m), float(ex)))
    return bad


def stage_consts(c, gps):
    F = Fraction
    spec = {1: (2, 3, F(1, 10 ** 15)), 2: (3, 5, F(1, 10 ** 15)), 3: (4, 7, F(1, 10 ** 14))}
    for e in (1, 2, 3):
        npts, deg, eps = spec[e]
        c.count(npts, "consts:" + ENAME[e])
        bad = moment_defects(gps[e], deg, eps) if len(gps[e]) == npts else [("count", len(gps[e]), npts)]
        inside = all(-1 <= p <= 1 for p, _ in gps[e])
        if bad or not inside:
            k, got, want = bad[0] if bad else ("abscissa", [p for p, _ in gps[e]], "[-1,1]")
            c.report("consts:%s" % ENAME[e],
                     "Pipe%sElement::pg_radii/wg = %s is not the %d-point Gauss rule: sum_g w_g x_g^%s = %r instead of %r (exactness up to degree %d "
                     "within %.0e is what the element needs and what theorem C53_gauss_* states on these constants)" % (
                         PTNAME[e], gps[e], npts, k, got, want, deg, float(eps)),
                     {"observed": gps[e], "moment": k, "value": got, "expected": want, "how": "props/C53/driver.cxx consts"}, True)
    # the decimal literals of the cubic header, read as text, are the doubles the compiled code uses
    try:
        txt = open(os.path.join(vlib.REPO, "mtest/include/MTest/PipeCubicElement.hxx")).read()
        num = r"[-+]?\d+\.\d+(?:[eE][-+]?\d+)?"
        pg = re.search(r"pg_radii\s*\[4\]\s*=\s*\{([^}]*)\}", txt)
        wg = re.search(r"\bwg\s*\[4\]\s*=\s*\{([^}]*)\}", txt)
        hp = [float(x) for x in re.findall(num, pg.group(1))] if pg else []
        hw = [float(x) for x in re.findall(num, wg.group(1))] if wg else []
        if len(hp) == 4 and len(hw) == 4:
            c.count(4, "consts:cubic:header-text")
            if list(zip(hp, hw)) != gps[3]:
                c.report("consts:cubic:header-text", "the decimal literals of PipeCubicElement.hxx %s are not the values the compiled driver prints %s" % (
                    list(zip(hp, hw)), gps[3]), {"header": list(zip(hp, hw)), "compiled": gps[3]}, False)
        else:
            c.notes.append("PipeCubicElement.hxx: pg_radii/wg are no longer plain decimal literals; only the compiled values are used")
    except OSError:
        pass


def gauss_search(gps):
    """failing-input search for a broken Gauss obligation of C53ProofsB.v: which constant is not a Gauss rule"""
    def search(failure):
        f, line, thm, msg = failure
        for e, deg, eps in ((3, 7, Fraction(1, 10 ** 14)), (2, 5, Fraction(1, 10 ** 15)), (1, 3, Fraction(1, 10 ** 15))):
            bad = moment_defects(gps[e], deg, eps)
            if bad:
                k, got, want = bad[0]
                return ("consts:%s" % ENAME[e],
                        "proof obligation %s (%s) no longer checks on the constants read from the compiled code: Pipe%sElement::pg_radii/wg = %s, "
                        "sum_g w_g x_g^%d = %r instead of %r" % (thm or "?", f, PTNAME[e], gps[e], k, got, want),
                        {"theorem": thm, "file": f, "observed": gps[e], "moment": k, "value": got, "expected": want})
        return None
    return search


# --------------------------------------------------------------------------------------------- stages
def stage_sf(c, drv, gps):
    rng = c.rng
    xs = [-1.0, -1 / 3, 0.0, 1 / 3, 1.0, 0.5, -0.5] + [gps[3][0][0], gps[3][1][0], gps[2][0][0], gps[1][1][0]]
    xs += [rng.randrange(-192, 193) / 128.0 for _ in range(c.pick(5, 200))]
    rc, out, err = c.run([drv, "sf"], input="\n".join("%r" % x for x in xs) + "\n")
    if rc != 0:
        raise vlib.BuildError("driver sf failed: " + err[-800:])
    rows = {}
    for l in out.splitlines():
        t = l.split()
        rows.setdefault(t[0], []).append((float(t[1]), [float(v) for v in t[2:]]))
    unit = {2: ["[1;0]", "[0;1]"], 3: ["[1;0;0]", "[0;1;0]", "[0;0;1]"], 4: ["[1;0;0;0]", "[0;1;0;0]", "[0;0;1;0]", "[0;0;0;1]"]}
    evals, meta = [], []
    for tag, e, fn in (("SF1", 1, "interp"), ("SF2", 2, "interp"), ("SF3", 3, "interp"), ("SFP3", 3, "interp"),
                       ("DSF3", 3, "dinterp"), ("JAC3", 3, "dinterp")):
        for x, vals in rows.get(tag, []):
            evals.append("[" + "; ".join("%s QNum (%s QNum) %s %s" % (fn, ELEM[e], u, qlit(x)) for u in unit[e + 1]) + "]")
            meta.append((tag, e, x, vals))
    return evals, lambda mods: finish_sf(c, xs, meta, mods)


def finish_sf(c, xs, meta, mods):
    bad = {}
    for (tag, e, x, vals), mod in zip(meta, mods):
        c.count(1, ("sf", tag, x), True)
        ok = len(vals) == len(mod) and all(abs(a - float(m)) <= 1e-12 * max(1.0, abs(float(m))) for a, m in zip(vals, mod))
        if not ok and (tag, e) not in bad:
            bad[(tag, e)] = (x, vals, [float(m) for m in mod])
    for (tag, e), (x, vals, mod) in bad.items():
        what = {"SF1": "interpolate", "SF2": "interpolate", "SF3": "interpolate", "SFP3": "sf0..sf3", "DSF3": "dsf0..dsf3", "JAC3": "jacobian"}[tag]
        c.report("sf:%s:%s" % (ENAME[e], what), "Pipe%sElement::%s at x=%r returns %s for the unit nodal vectors; the model (C53Model.v, shape functions of the source) gives %s" % (
            PTNAME[e], what, x, vals, mod), {"element": ENAME[e], "function": what, "x": x, "observed": vals, "model": mod,
                                             "how": "echo %r | props/C53 driver sf" % x}, True)
    c.sample({"stage": "shape functions", "x": meta[0][2], "%s(model)" % meta[0][0]: [float(m) for m in mods[0]] if mods else None})
    return len(meta)


def elem_case_text(et, Ri, Re, ne, i, K, u):
    return " ".join(["%d %r %r %d %d" % (et, Ri, Re, ne, i)] + ["%r" % k for k in K] + ["%r" % v for v in u])


def stage_elem(c, drv):
    rng = c.rng
    cases = []
    for et in (1, 2, 3):
        for _ in range(c.pick(1 if et == 3 else 2, 8)):     # exact evaluation of a cubic element costs ~4 s
            Ri = rng.randrange(32, 321) / 64.0
            Re = Ri + rng.randrange(16, 193) / 64.0
            ne = rng.randrange(1, 5)
            i = rng.randrange(0, ne)
            K = [rng.randrange(-64, 65) / 16.0 for _ in range(9)]
            u = [rng.randrange(-256, 257) / 256.0 for _ in range(et * ne + 2)]
            cases.append((et, Ri, Re, ne, i, K, u))
    rc, out, err = c.run([drv, "elem"], input="\n".join(elem_case_text(*k) for k in cases) + "\n")
    if rc != 0:
        raise vlib.BuildError("driver elem failed: " + err[-800:])
    obs = {}
    for l in out.splitlines():
        t = l.split()
        if t[0] == "GP":
            obs.setdefault(int(t[1]), {}).setdefault("gp", []).append([float(v) for v in t[3:]])
        elif t[0] in ("R", "K"):
            obs.setdefault(int(t[1]), {})[t[0]] = [float(v) for v in t[2:]]
    evals, variant = [], []
    for (et, Ri, Re, ne, i, K, u) in cases:
        dr = (Fraction(Re) - Fraction(Ri)) / ne
        r0 = Fraction(Ri) + dr * i
        e = "(%s QNum)" % ELEM[et]
        g = "(%s QNum)" % GEN[et]
        us = qlist(u[et * i: et * i + et + 1])
        ezz = qlit(u[-1])
        rs = "(elem_radii QNum %s %s %s)" % (e, qlit(r0), qlit(dr))
        evals.append("flat_map (fun xw => interp QNum %s %s (fst xw) :: s3 (strain QNum %s %s %s %s (fst xw))) %s" % (e, rs, e, rs, us, ezz, g))
        for flag in ("false", "true"):
            (evals if flag == "false" else variant).append("elem_forces QNum %s %s %s %s %s %s %s 1 ++ concat (elem_stiffness QNum %s %s %s %s %s 1)" % (
                e, flag, g, qlist(K), rs, us, ezz, e, flag, g, qlist(K), rs))
    return evals, lambda mods: finish_elem(c, cases, obs, variant, mods)


def finish_elem(c, cases, obs, variant, mods):
    tp = Fraction(TWOPI)
    reported = set()
    for k, (et, Ri, Re, ne, i, K, u) in enumerate(cases):
        o = obs.get(k, {})
        nl = et + 1
        n = et * ne + 2
        idx = [et * i + j for j in range(nl)] + [n - 1]
        gp_cpp = [v for row in o.get("gp", []) for v in row]
        r_cpp = o.get("R", [])
        k_cpp = o.get("K", [])
        loc = (len(r_cpp) == n and len(k_cpp) == n * n)
        r_loc = [r_cpp[a] for a in idx] if loc else []
        k_loc = [k_cpp[a * n + b] for a in idx for b in idx] if loc else []
        outside = loc and (any(r_cpp[a] != 0 for a in range(n) if a not in idx) or
                           any(k_cpp[a * n + b] != 0 for a in range(n) for b in range(n) if a not in idx or b not in idx))
        mgp, mok = mods[2 * k], [tp * v for v in mods[2 * k + 1]]
        c.count(1, ("elem", k, et), True)
        if k % 7 == 0:
            c.sample({"stage": "element", "element": ENAME[et], "Ri": Ri, "Re": Re, "ne": ne, "i": i, "K": K, "u": u,
                      "inner_forces(code)": r_loc, "inner_forces(model)": [float(v) for v in mok[:nl + 1]]})
        replay = {"element": ENAME[et], "Ri": Ri, "Re": Re, "number_of_elements": ne, "element_index": i, "K_row_major(rr,zz,tt)": K,
                  "u(nodes..,ezz)": u, "how": "echo '%s' | <driver> elem" % elem_case_text(et, Ri, Re, ne, i, K, u)}
        if not grp_ok(gp_cpp, mgp):
            key = "elem:%s:strain" % ENAME[et]
            if key not in reported:
                reported.add(key)
                replay.update({"observed(pos,err,ezz,ett per Gauss point)": gp_cpp, "model": [float(v) for v in mgp]})
                c.report(key, "Pipe%sElement::computeStrain: Gauss point positions/strains %s differ from the model %s (Ri=%r Re=%r ne=%d i=%d)" % (
                    PTNAME[et], gp_cpp, [float(v) for v in mgp], Ri, Re, ne, i), replay, True)
            continue
        if loc and not outside and grp_ok(r_loc, mok[:nl + 1]) and grp_ok(k_loc, mok[nl + 1:]):
            continue
        mbug = [tp * v for v in coq_lists(c, [variant[k]])[0]]
        if loc and not outside and grp_ok(r_loc, mbug[:nl + 1]) and grp_ok(k_loc, mbug[nl + 1:]):
            key = "elem:%s:sf-at-radius" % ENAME[et]
            what = ("Pipe%sElement::updateStiffnessMatrixAndInnerForces evaluates the shape functions of the test function at the physical radius "
                    "rg instead of the reference abscissa pg: inner forces %s, correct element (model) %s, variant model at_rg=true %s "
                    "(Ri=%r Re=%r ne=%d i=%d)" % (PTNAME[et], r_loc, [float(v) for v in mok[:nl + 1]], [float(v) for v in mbug[:nl + 1]], Ri, Re, ne, i))
        else:
            key = "elem:%s:forces-or-stiffness" % ENAME[et]
            what = "Pipe%sElement::updateStiffnessMatrixAndInnerForces: inner forces %s (model %s) or stiffness differ from the model (Ri=%r Re=%r ne=%d i=%d)" % (
                PTNAME[et], r_loc, [float(v) for v in mok[:nl + 1]], Ri, Re, ne, i)
        if key not in reported:
            reported.add(key)
            replay.update({"observed_inner_forces": r_loc, "model_inner_forces": [float(v) for v in mok[:nl + 1]],
                           "observed_stiffness": k_loc, "model_stiffness": [float(v) for v in mok[nl + 1:]]})
            c.report(key, what, replay, True)
    return len(cases)


def asm_case_text(et, Ri, Re, ne, Pi, Pe, axial, K, u):
    return " ".join(["%d %r %r %d %r %r %d" % (et, Ri, Re, ne, Pi, Pe, axial)] + ["%r" % k for k in K] + ["%r" % v for v in u])


def run_asm(c, drv, cases):
    rc, out, err = c.run([drv, "asm"], input="\n".join(asm_case_text(*k) for k in cases) + "\n")
    if rc != 0:
        raise vlib.BuildError("driver asm failed: " + err[-800:])
    obs = {}
    for l in out.splitlines():
        t = l.split()
        if t[0] == "ASM":
            obs.setdefault(int(t[1]), {})["ok"] = t[2] == "1"
        elif t[0] in ("R", "K"):
            obs.setdefault(int(t[1]), {})[t[0]] = [float(v) for v in t[2:]]
    return obs


def stage_asm(c, drv):
    """the REAL PipeTest::computeStiffnessMatrixAndResidual against the assembly model (C53Model.v pipe_residual_K,
    pipe_stiffness_action) run on Q; symmetry and mesh-level patch test stated independently on the real output"""
    rng = c.rng
    cases = []
    nvec = c.pick(1, 2)
    for et in (1, 2, 3):
        for j in range(c.pick(1 if et == 3 else 2, 6)):     # quick: meshes of 2 or 3 elements (shared nodes), one cubic case
            Ri = rng.randrange(32, 321) / 64.0
            Re = Ri + rng.randrange(16, 193) / 64.0
            ne = (2 if et == 3 else 2 + j) if c.quick() else rng.randrange(1, 5)
            K = [rng.randrange(-64, 65) / 16.0 for _ in range(9)]
            if j % 2 == 1 or (et == 3 and c.quick()):      # symmetric tangent
                K[3], K[6], K[7] = K[1], K[2], K[5]
            u = [rng.randrange(-256, 257) / 256.0 for _ in range(et * ne + 2)]
            cases.append((et, Ri, Re, ne, rng.randrange(-64, 65) / 8.0, rng.randrange(-64, 65) / 8.0, (j + et) % 2, K, u))
    obs = run_asm(c, drv, cases)
    pi = qlit(PI)
    evals, ws = [], []
    for (et, Ri, Re, ne, Pi, Pe, axial, K, u) in cases:
        n = et * ne + 2
        e = "(%s QNum)" % ELEM[et]
        g = "(%s QNum)" % GEN[et]
        geo = "%s %s %d%%nat" % (qlit(Ri), qlit(Re), ne)
        evals.append("pr (pipe_residual_K QNum %s %s %s %s %s %s %s %s %s %s)" % (
            e, g, qlist(K), geo, qlist(u[:-1]), qlit(u[-1]), qlit(Pi), qlit(Pe), "true" if axial else "false", pi))
        w = [[rng.randrange(-8, 9) / 4.0 for _ in range(n)] for _ in range(nvec)]
        ws.append(w)
        for v in w:
            evals.append("pr (pipe_stiffness_action QNum %s %s %s %s %s %s %s)" % (e, g, qlist(K), geo, qlist(v[:-1]), qlit(v[-1]), pi))
    return evals, lambda mods: finish_asm(c, drv, cases, obs, ws, nvec, mods)


def finish_asm(c, drv, cases, obs, ws, nvec, mods):
    rng = c.rng
    reported = set()
    for k, (et, Ri, Re, ne, Pi, Pe, axial, K, u) in enumerate(cases):
        n = et * ne + 2
        o = obs.get(k, {})
        r_cpp, k_cpp = o.get("R", []), o.get("K", [])
        c.count(1, ("asm", k, et), True)
        replay = {"element": ENAME[et], "Ri": Ri, "Re": Re, "number_of_elements": ne, "Pi": Pi, "Pe": Pe, "axial(0 none,1 end cap)": axial,
                  "K_row_major(rr,zz,tt)": K, "u(nodes..,ezz)": u, "how": "echo '%s' | <driver> asm" % asm_case_text(*cases[k])}
        if k % 5 == 0:
            c.sample({"stage": "assembly by the real PipeTest", "element": ENAME[et], "ne": ne, "residual(code)": r_cpp,
                      "residual(model)": [float(v) for v in mods[(1 + nvec) * k]]})
        key = None
        if not o.get("ok") or len(r_cpp) != n or len(k_cpp) != n * n:
            key, what = "asm:%s:failed" % ENAME[et], "PipeTest::computeStiffnessMatrixAndResidual failed or returned the wrong sizes"
        elif not grp_ok(r_cpp, mods[(1 + nvec) * k]):
            key = "asm:%s:residual" % ENAME[et]
            what = ("PipeTest::computeStiffnessMatrixAndResidual (%s elements, ne=%d, Ri=%r Re=%r Pi=%r Pe=%r axial=%d): residual %s differs from the "
                    "assembly model %s" % (ENAME[et], ne, Ri, Re, Pi, Pe, axial, r_cpp, [float(v) for v in mods[(1 + nvec) * k]]))
        else:
            for j, w in enumerate(ws[k]):
                kw = [sum(k_cpp[a * n + b] * w[b] for b in range(n)) for a in range(n)]
                if not grp_ok(kw, mods[(1 + nvec) * k + 1 + j]):
                    key = "asm:%s:stiffness" % ENAME[et]
                    what = ("PipeTest::computeStiffnessMatrixAndResidual (%s elements, ne=%d, Ri=%r Re=%r): stiffness matrix times w=%s is %s, the assembly "
                            "model gives %s" % (ENAME[et], ne, Ri, Re, w, kw, [float(v) for v in mods[(1 + nvec) * k + 1 + j]]))
                    break
            # theorem C53_assembled_stiffness_symmetric stated on the real matrix
            if key is None and K[3] == K[1] and K[6] == K[2] and K[7] == K[5]:
                sc = max(abs(v) for v in k_cpp)
                asym = max(abs(k_cpp[a * n + b] - k_cpp[b * n + a]) for a in range(n) for b in range(n))
                if asym > 1e-11 * sc:
                    key = "asm:%s:not-symmetric" % ENAME[et]
                    what = "the stiffness assembled by PipeTest for a symmetric tangent K=%s is not symmetric (max |k_ab - k_ba| = %.3g, scale %.3g)" % (K, asym, sc)
        if key and key not in reported:
            reported.add(key)
            replay.update({"observed_residual": r_cpp, "model_residual": [float(v) for v in mods[(1 + nvec) * k]], "observed_stiffness": k_cpp})
            c.report(key, what, replay, True)
    # mesh-level patch test (theorem C53_mesh_patch_test_*) on the real code: uniform pressure, exact Lame field u = a r
    pcases, pmeta = [], []
    for et in (1, 2, 3):
        for ne in c.pick((1, 3), (1, 2, 3, 5, 8)):
            for axial in (0, 1):
                Ri = rng.randrange(32, 321) / 64.0
                Re = Ri * rng.choice([1.125, 1.5, 2.5])
                E, nu, P = rng.randrange(50, 251) * 1e9, rng.randrange(10, 41) / 100.0, rng.randrange(1, 51) * 1e6
                lam, mu = nu * E / ((1 + nu) * (1 - 2 * nu)), E / (2 * (1 + nu))
                K = [lam + 2 * mu, lam, lam, lam, lam + 2 * mu, lam, lam, lam, lam + 2 * mu]
                sz = -P if axial else 0.0
                a = (-P - nu * (-P + sz)) / E
                ezz = (sz + 2 * nu * P) / E
                nn = et * ne + 1
                u = [a * (Ri + (Re - Ri) * k / (nn - 1)) for k in range(nn)] + [ezz]
                pcases.append((et, Ri, Re, ne, P, P, axial, K, u))
                pmeta.append((E, nu, P))
    pobs = run_asm(c, drv, pcases)
    for k, (et, Ri, Re, ne, Pi, Pe, axial, K, u) in enumerate(pcases):
        r_cpp = pobs.get(k, {}).get("R", [])
        c.count(1, ("asm-patch", et, ne, axial), True)
        scale = TWOPI * Pi * Re
        if len(r_cpp) != et * ne + 2 or not all(abs(v) <= (2e-9 if et == 3 else 1e-10) * scale for v in r_cpp):
            key = "asm:%s:patch" % ENAME[et]
            if key not in reported:
                reported.add(key)
                c.report(key, "mesh-level patch test: with the exact Lame field of a uniform pressure P=%r (E=%r nu=%r, Ri=%r Re=%r, %d %s elements, axial=%d) the "
                         "residual assembled by PipeTest is %s (scale 2 pi P Re = %.3g): it should vanish" % (
                             Pi, pmeta[k][0], pmeta[k][1], Ri, Re, ne, ENAME[et], axial, r_cpp, scale),
                         {"element": ENAME[et], "how": "echo '%s' | <driver> asm" % asm_case_text(*pcases[k])}, True)
    return len(cases) + len(pcases)


def problems(c):
    rng = c.rng
    P = []
    for k in range(c.pick(2, 8)):
        Ri = rng.randrange(40, 400) / 100.0 * (10 ** rng.choice([-3, 0]))
        ratio = rng.choice([1.12, 1.5, 2.0, 2.5]) if k else 2.0
        Re = Ri * ratio
        E = rng.randrange(50, 251) * 1e9
        nu = rng.randrange(10, 41) / 100.0
        Pi = rng.randrange(1, 51) * 1e6
        Pe = rng.randrange(0, 31) * 1e6
        P.append(dict(Ri=Ri, Re=Re, E=E, nu=nu, Pi=Pi, Pe=Pe, axial=k % 2))
    return P


def parse_fe(out):
    res = {}
    for l in out.splitlines():
        t = l.split()
        if t[0] == "FE":
            res[int(t[1])] = {"ok": t[2] == "1", "res": float(t[3]), "S": []}
        elif t[0] == "U":
            res[int(t[1])]["u"] = [float(v) for v in t[2:]]
        elif t[0] == "S":
            res[int(t[1])]["S"].append([float(v) for v in t[2:]])
    return res


class Oracles:
    """the proved closed form (C53Num.v lame_*_G, theorem C53_lame_solves_pipe_problem) evaluated on Q by vm_compute; one coqc
    call per batch of points, all problems together"""

    def __init__(self, c, pbs):
        self.c, self.pbs = c, pbs
        self.cache = [dict() for _ in pbs]
        self.prelude = ""
        ev = []
        for ip, pb in enumerate(pbs):
            self.prelude += "".join("Definition %s%d := %s.\n" % (k, ip, qlit(pb[k])) for k in ("E", "nu", "Ri", "Re", "Pi", "Pe"))
            geo = "Ri%d Re%d Pi%d Pe%d" % (ip, ip, ip, ip)
            # szz_end_cap = lameA / szz_no_axial_force = 0 (C53SpecFE.v)
            self.prelude += "Definition sz%d := %s.\n" % (ip, ("lameA_G QNum " + geo) if pb["axial"] == 1 else "(0 # 1)")
            # lame_fields_AB ... (lameA_G ..) (lameB_G ..) r = [lame_u_G ..; lame_srr_G ..; lame_stt_G ..] by definition (C53Num.v lame_fields_AB_def);
            # A and B are computed once per problem (Definition + vm_compute of the body at each use would recompute them: they are let-bound
            # outside the map in `prefetch`)
            self.prelude += "Definition f%d (A B r : Q) := lame_fields_AB QNum E%d nu%d sz%d A B r.\n" % (ip, ip, ip, ip)
            self.prelude += "Definition A%d := lameA_G QNum %s.\nDefinition B%d := lameB_G QNum %s.\n" % (ip, geo, ip, geo)
            ev.append("[sz%d; lame_ezz_G QNum E%d nu%d %s sz%d]" % (ip, ip, ip, geo, ip))
        self.head, self.s, self.ezz = ev, None, None

    def prefetch(self, pts):
        """pts: {ip: iterable of radii}"""
        todo = [(ip, [r for r in dict.fromkeys(rs) if r not in self.cache[ip]]) for ip, rs in pts.items()]
        todo = [(ip, rs) for ip, rs in todo if rs]
        if not todo and self.s is not None:
            return
        head = self.head if self.s is None else []
        ev = ["let A := A%d in let B := B%d in flat_map (f%d A B) %s" % (ip, ip, ip, qlist(rs)) for ip, rs in todo]
        vals = coq_lists(self.c, head + ev, self.prelude)
        if head:
            self.s = [v[0] for v in vals[:len(head)]]
            self.ezz = [v[1] for v in vals[:len(head)]]
        for (ip, rs), v in zip(todo, vals[len(head):]):
            for j, r in enumerate(rs):
                self.cache[ip][r] = [float(x) for x in v[3 * j: 3 * j + 3]]

    def at(self, ip, rs):
        self.prefetch({ip: rs})
        return [self.cache[ip][r] for r in rs]


def errors(pb, orc, ip, et, ne, u, S):
    """(displacement error, stress error) of an FE solution relative to the scale of the exact one"""
    Ri, Re = pb["Ri"], pb["Re"]
    nn = et * ne + 1
    rn = [Ri + (Re - Ri) * k / (nn - 1) for k in range(nn)]
    ex = orc.at(ip, rn + [row[0] for row in S])
    un = [e[0] for e in ex[:nn]]
    su = max(abs(v) for v in un)
    ezz = float(orc.ezz[ip])
    eu = max(abs(a - b) for a, b in zip(u[:nn], un)) / su
    eu = max(eu, abs(u[nn] - ezz) / max(abs(ezz), su / Ri))
    ss = max(abs(pb["Pi"]), abs(pb["Pe"]), max(abs(e[2]) for e in ex[nn:]))
    es = 0.0
    for row, e in zip(S, ex[nn:]):
        es = max(es, abs(row[1] - e[1]) / ss, abs(row[2] - e[2]) / ss, abs(row[3] - float(orc.s[ip])) / ss)
    if not all(math.isfinite(v) for v in u) or not all(math.isfinite(v) for row in S for v in row):
        eu = es = float("inf")
    return eu, es


def judge(et, errs, nes, rates):
    """errs: {ne: (eu, es)} -> list of reasons why this is not `converging to Lame at the element's order`"""
    why = []
    for ne in nes:
        eu, es = errs[ne]
        if not (eu <= BOUND_U[et][ne]):
            why.append("displacement error with %d elements %.3g > %.3g" % (ne, eu, BOUND_U[et][ne]))
        if not (es <= BOUND_S[et][ne]):
            why.append("stress error with %d elements %.3g > %.3g" % (ne, es, BOUND_S[et][ne]))
    for a, b in zip(nes, nes[1:]):
        for j, nm in ((0, "displacement"), (1, "stress")):
            if errs[b][j] > FLOOR and not (errs[b][j] < errs[a][j]):
                why.append("%s error does not decrease from %d to %d elements (%.3g -> %.3g)" % (nm, a, b, errs[a][j], errs[b][j]))
    if rates and 8 in errs and 16 in errs:
        for j, nm, order in ((0, "displacement", et + 1 - 0.6), (1, "stress", et - 0.45)):
            if errs[16][j] > FLOOR and errs[8][j] > 0 and math.isfinite(errs[8][j]):
                rate = math.log2(errs[8][j] / errs[16][j]) if errs[16][j] > 0 else 99
                if not (rate >= order):
                    why.append("%s convergence rate 8->16 elements %.2f < %.2f" % (nm, rate, order))
    return why


def stage_fe(c, drv, pbs, orc, nes):
    lines, meta = [], []
    for ip, pb in enumerate(pbs):
        for et in (1, 2, 3):
            for ne in nes:
                lines.append("%d %r %r %d %r %r %r %r %d" % (et, pb["Ri"], pb["Re"], ne, pb["E"], pb["nu"], pb["Pi"], pb["Pe"], pb["axial"]))
                meta.append((ip, et, ne))
    rc, out, err = c.run([drv, "fe"], input="\n".join(lines) + "\n")
    if rc != 0:
        raise vlib.BuildError("driver fe failed: " + err[-800:])
    res = parse_fe(out)
    sol = {}
    for k, (ip, et, ne) in enumerate(meta):
        sol[(ip, et, ne)] = res[k]
    pts = {}
    for ip, pb in enumerate(pbs):
        pts[ip] = [pb["Ri"], pb["Re"]]
        for et in (1, 2, 3):
            for ne in nes:
                nn = et * ne + 1
                pts[ip] += [pb["Ri"] + (pb["Re"] - pb["Ri"]) * k / (nn - 1) for k in range(nn)] + [
                    row[0] for row in sol[(ip, et, ne)]["S"] if math.isfinite(row[0])]
    orc.prefetch(pts)   # one coqc call for all the problems
    for ip, pb in enumerate(pbs):
        for et in (1, 2, 3):
            errs = {ne: errors(pb, orc, ip, et, ne, sol[(ip, et, ne)]["u"], sol[(ip, et, ne)]["S"]) for ne in nes}
            c.count(len(nes), ("fe", ip, et), True)
            why = judge(et, errs, nes, True)
            if ip == 0:
                c.sample({"stage": "real PipeTest assembly + our LU (execution)", "element": ENAME[et], "problem": pb,
                          "errors(ne: displacement, stress)": {ne: ["%.3g" % v for v in errs[ne]] for ne in nes}})
            if why:
                c.report("fe:%s:not-lame" % ENAME[et],
                         "elastic pipe assembled by PipeTest::computeStiffnessMatrixAndResidual with %s elements does not converge to the Lame solution: %s; problem %s; errors %s" % (
                             PTNAME[et], "; ".join(why[:3]), pb, {ne: ["%.3g" % v for v in errs[ne]] for ne in nes}),
                         {"problem": pb, "element": ENAME[et], "errors": {str(ne): errs[ne] for ne in nes}, "reasons": why,
                          "how": "echo '%d %r %r %d %r %r %r %r %d' | <driver> fe" % (et, pb["Ri"], pb["Re"], nes[-1], pb["E"], pb["nu"], pb["Pi"], pb["Pe"], pb["axial"])}, True)
    return sol


def build_behaviour(c):
    """small isotropic elastic behaviour generated by the mfront of /repo/_build (generic interface).  The generated sources are
    cached (key: Elas.mfront and the mfront binary); their objects are cached by vlib (preprocessed-source hash)."""
    mfront = os.path.join(vlib.REPO_BUILD, "mfront", "src", "mfront")
    st = os.stat(mfront)
    key = hashlib.sha256((open(os.path.join(c.dir, "Elas.mfront")).read() + "%d %d" % (st.st_size, st.st_mtime_ns)).encode()).hexdigest()[:20]
    wd = os.path.join(vlib.CACHE, "C53-behaviour", key)
    srcs = [os.path.join(wd, "src", "VElas.cxx"), os.path.join(wd, "src", "VElas-generic.cxx")]
    if not all(os.path.exists(s) for s in srcs):
        tmp = os.path.join(c.work, "mfront")
        os.makedirs(tmp, exist_ok=True)
        shutil.copyfile(os.path.join(c.dir, "Elas.mfront"), os.path.join(tmp, "Elas.mfront"))
        # vlib.run isolates mfront in a private /dev/shm: the shared semaphore is never touched
        rc, out, err = c.run([mfront, "--interface=generic", "Elas.mfront"], cwd=tmp, timeout=300)
        if rc != 0:
            raise vlib.BuildError("mfront failed on Elas.mfront: " + (out + err)[-1500:])
        os.makedirs(os.path.dirname(wd), exist_ok=True)
        stage = wd + ".%d" % os.getpid()
        shutil.copytree(tmp, stage)
        try:
            os.rename(stage, wd)
        except OSError:
            shutil.rmtree(stage, ignore_errors=True)
    return c.cxx("libVElas.so", srcs, flags=["-fPIC", "-I" + os.path.join(wd, "include")], libs=["-shared"])


def stage_mtest(c, pbs, orc, sol, nes):
    c.repo_build(["mtest", "mfront"])
    c.log('mtest and mfront are up to date', cpu())
    lib = build_behaviour(c)
    c.log('behaviour built', cpu())
    mtest = os.path.join(vlib.REPO_BUILD, "mtest", "src", "mtest")
    wd = os.path.join(c.work, "ptest")
    os.makedirs(wd, exist_ok=True)
    jobs = []
    for ip, pb in enumerate(pbs):
        for et in (1, 2, 3):
            for ne in nes:
                name = "p%d_%s_%d" % (ip, ENAME[et], ne)
                with open(os.path.join(wd, name + ".ptest"), "w") as f:
                    f.write("@InnerRadius %r;\n@OuterRadius %r;\n@NumberOfElements %d;\n@ElementType '%s';\n@AxialLoading '%s';\n"
                            "@PerformSmallStrainAnalysis true;\n@Behaviour<generic> '%s' 'VElas';\n"
                            "@MaterialProperty<constant> 'YoungModulus' %r;\n@MaterialProperty<constant> 'PoissonRatio' %r;\n"
                            "@ExternalStateVariable 'Temperature' 293.15;\n@InnerPressureEvolution %r;\n@OuterPressureEvolution %r;\n"
                            "@Times {0,1};\n@OutputFilePrecision 17;\n@Profile '%s.prof' {'SRR','STT','SZZ'};\n" % (
                                pb["Ri"], pb["Re"], ne, PTNAME[et], "EndCapEffect" if pb["axial"] else "None", lib, pb["E"], pb["nu"],
                                pb["Pi"], pb["Pe"], name))
                jobs.append((ip, et, ne, name))

    def one(job):
        ip, et, ne, name = job
        rc, out, err = c.run([mtest, name + ".ptest"], cwd=wd, timeout=120)
        success = rc == 0 and "SUCCESS" in out
        try:
            last = [l for l in open(os.path.join(wd, name + ".res")) if not l.startswith("#")][-1].split()
            S = [[float(v) for v in l.split()] for l in open(os.path.join(wd, name + ".prof")) if l.strip() and not l.startswith("#")]
            S = S[-(et + 1) * ne:]
            uin, uout, ezz = float(last[3]), float(last[4]), float(last[5])
            if len(S) != (et + 1) * ne or any(len(row) != 4 for row in S):
                raise ValueError("profile")
            return (name, success, last, S, uin, uout, ezz)
        except (OSError, IndexError, ValueError):
            return (name, success, None, None, None, None, None)

    with ThreadPoolExecutor(max_workers=2) as ex:
        runs = dict(zip([j[:3] for j in jobs], ex.map(one, jobs)))
    orc.prefetch({ip: [pb["Ri"], pb["Re"]] + [row[0] for (k, r) in runs.items() if k[0] == ip and r[3] for row in r[3] if math.isfinite(row[0])]
                  for ip, pb in enumerate(pbs)})
    for ip, pb in enumerate(pbs):
        for et in (1, 2, 3):
            errs, nan_ok, differs = {}, None, None
            for ne in nes:
                name, success, last, S, uin, uout, ezz = runs[(ip, et, ne)]
                if last is None or not all(math.isfinite(row[0]) for row in S):
                    errs[ne] = (float("inf"), float("inf"))
                    continue
                finite = all(math.isfinite(v) for v in (uin, uout, ezz)) and all(math.isfinite(v) for row in S for v in row)
                if success and not finite and nan_ok is None:
                    nan_ok = (name, last)
                # error against the proved oracle: only the two boundary nodes are in the .res output
                Ri, Re = pb["Ri"], pb["Re"]
                ex = orc.at(ip, [Ri, Re] + [row[0] for row in S])
                su = max(abs(ex[0][0]), abs(ex[1][0]))
                ez = float(orc.ezz[ip])
                eu = max(abs(uin - ex[0][0]) / su, abs(uout - ex[1][0]) / su, abs(ezz - ez) / max(abs(ez), su / Ri)) if finite else float("inf")
                ss = max(abs(pb["Pi"]), abs(pb["Pe"]), max(abs(e[2]) for e in ex[2:]))
                es = max(max(abs(row[1] - e[1]), abs(row[2] - e[2]), abs(row[3] - float(orc.s[ip]))) / ss for row, e in zip(S, ex[2:])) if finite else float("inf")
                errs[ne] = (eu, es)
                # agreement with the driver (same assembly code, our LU instead of PipeTest's Newton loop and output routines)
                d = sol[(ip, et, ne)]
                if finite and d["ok"]:
                    nn = et * ne + 1
                    dd = max(abs(uin - d["u"][0]) / su, abs(uout - d["u"][nn - 1]) / su)
                    dd = max([dd] + [abs(a - b) / ss for row, drow in zip(S, d["S"]) for a, b in zip(row[1:4], drow[1:4])])
                    if dd > 1e-7 and differs is None:
                        differs = (name, dd)
            c.count(len(nes), ("mtest", ip, et), True)
            if ip == 0:
                c.sample({"stage": "real mtest binary (execution)", "element": ENAME[et], "problem": pb,
                          "errors(ne: boundary displacement, stress)": {ne: ["%.3g" % v for v in errs[ne]] for ne in nes}})
            if nan_ok:
                c.report("mtest:%s:nan-accepted" % ENAME[et], "mtest reports SUCCESS for %s.ptest although the results are not finite (last line of the .res file: %s): "
                         "PipeTest::checkConvergence takes the max norm with std::max, which drops NaN" % (nan_ok[0], " ".join(nan_ok[1])),
                         {"problem": pb, "element": ENAME[et], "ptest": open(os.path.join(wd, nan_ok[0] + ".ptest")).read()}, True)
            # the displacement error of the two boundary nodes is super-convergent: only bounds and monotony are asked of it
            why = [w for w in judge(et, errs, nes, True) if not w.startswith("displacement convergence rate")]
            if why:
                c.report("mtest:%s:not-lame" % ENAME[et],
                         "mtest (PipeTest, element %s) does not converge to the Lame solution: %s; problem %s; errors %s" % (
                             PTNAME[et], "; ".join(why[:3]), pb, {ne: ["%.3g" % v for v in errs[ne]] for ne in nes}),
                         {"problem": pb, "element": ENAME[et], "errors": {str(ne): errs[ne] for ne in nes}, "reasons": why,
                          "ptest(finest mesh)": open(os.path.join(wd, "p%d_%s_%d.ptest" % (ip, ENAME[et], nes[-1]))).read()}, True)
            if differs:
                c.report("mtest:%s:differs-from-element-driver" % ENAME[et],
                         "mtest result of %s.ptest differs from the same problem assembled by the same PipeTest code in props/C53/driver.cxx and solved by our LU, by %.3g (relative)" % differs,
                         {"problem": pb, "element": ENAME[et], "ptest": open(os.path.join(wd, differs[0] + ".ptest")).read()}, True)
    return len(jobs)


def cpu():
    t = os.times()
    return "cpu %.0fs" % (t.user + t.system + t.children_user + t.children_system)


def prove(c, results):
    """the proofs, in background threads (at most 3 coqc at a time here + the evaluations of the main thread)"""
    r = c.coq(["C53SpecFE.v"], 900)
    results.append(r)
    if not r.ok:
        return
    pool = ThreadPoolExecutor(max_workers=3)

    def chain_b():
        rb = c.coq(["C53ProofsB.v"], 900)
        if not rb.ok:
            return [rb]
        fc = pool.submit(c.coq, ["C53ProofsC.v", "Properties_C53_asm.v"], 900)
        re_ = c.coq(["Properties_C53_elem.v"], 900)
        return [rb, re_, fc.result()]
    fa = pool.submit(c.coq, ["C53Spec.v", "C53ProofsA.v", "Properties_C53.v"], 900)
    fb = pool.submit(chain_b)
    results.append(fa.result())
    results.extend(fb.result())
    pool.shutdown()


NTHEOREMS = 25      # Properties_C53.v 5 + Properties_C53_elem.v 13 + Properties_C53_asm.v 7


def main(c):
    drv = c.cxx("driver", ["driver.cxx"], repo_sources=REPO_SRC, libs=LIBS, link_repo_libs=True)
    c.log('driver built', cpu())
    gps = read_consts(c, drv)
    gen = write_gen(c, gps)
    stage_consts(c, gps)
    # light files (no real numbers): compiled first, needed by every model evaluation and by the proofs
    res0 = c.coq(LIGHT + [gen], timeout=900)
    if not res0.ok:
        c.coq_failures(res0, None)
        return
    c.log('light files compiled', cpu())
    results = [res0]
    bg = ThreadPoolExecutor(max_workers=1)
    fut = bg.submit(prove, c, results)
    try:
        preps = [stage_sf(c, drv, gps), stage_elem(c, drv), stage_asm(c, drv)]
        mods = coq_lists(c, [e for ev, _ in preps for e in ev])        # one coqc call for the three stages
        counts, k = [], 0
        for ev, finish in preps:
            counts.append(finish(mods[k:k + len(ev)]))
            k += len(ev)
        nsf, nel, nas = counts
        c.log('sf, elem, asm done', cpu())
        nes = c.pick([1, 2, 4], [1, 2, 4, 8, 16])
        pbs = problems(c)
        orc = Oracles(c, pbs)
        sol = stage_fe(c, drv, pbs, orc, nes)
        c.log('fe done', cpu())
        nm = 0
        if vlib.REPO == "/repo":
            nm = stage_mtest(c, pbs, orc, sol, nes)
            c.log('mtest done', cpu())
        else:
            c.notes.append("VERIF_REPO is a scratch worktree: the mtest binary of /repo/_build is not built from it, mtest stage skipped "
                           "(PipeTest.cxx of the worktree is exercised by the driver stages asm and fe)")
    finally:
        fut.result()
        bg.shutdown()
    c.log('coq done', cpu())
    # the counters are updated by concurrent calls: set them from the results
    c.coverage["obligations"] = sum(len(r.theorems) for r in results)
    c.coverage["discharged"] = sum(len(r.discharged) for r in results)
    c.coverage["checker_cmd"] = ("coqc -Q coq/lib VLib -R <scratch> C53 <files: C53Num.v C53Model.v C53_gen.v(generated) C53SpecFE.v C53Spec.v C53ProofsA.v "
                                 "C53ProofsB.v C53ProofsC.v Properties_C53.v Properties_C53_elem.v Properties_C53_asm.v> (Coq 8.16.1, full .vo compilation)")
    # property files that were not compiled because a file they depend on failed still count as obligations
    c.coverage["obligations"] = max(c.coverage["obligations"], NTHEOREMS)
    for r in results:
        if not r.ok:
            c.coq_failures(r, gauss_search(gps))
    c.coverage["traces_validated_against_impl"] = nsf + nel + nas
    c.coverage["rule"] = (
        "correspondence: quadrature constants read from the compiled code (3 elements; moment conditions in exact arithmetic; the generated C53_gen.v is what the "
        "Gauss/patch theorems are proved on); shape functions at nodes, Gauss points and seeded dyadic abscissae; computeStrain/updateStiffnessMatrixAndInnerForces on "
        "seeded elements (dyadic radii, displacements, non-symmetric 3x3 tangent); residual and stiffness assembled by the REAL "
        "PipeTest::computeStiffnessMatrixAndResidual (1..3 elements in quick, 1..5 in thorough; pressures, both axial loadings; stiffness through two seeded vectors, "
        "symmetry for symmetric tangents, mesh-level patch test with the exact uniform-pressure Lame field) against the Gallina model evaluated on Q, relative "
        "tolerance 1e-9..1e-12. execution: %d seeded elastic pipe problems (radius ratio 1.12..2.5, E, nu, Pi, Pe, axial loading None/EndCapEffect) x 3 elements x "
        "meshes %s assembled by the real PipeTest (driver fe, our LU) and through the real mtest binary (%d runs), error against the proved Lame "
        "closed form evaluated on Q: bound at every mesh, monotone decrease%s; distinct = (stage, problem, element) or (stage, input)" % (
            len(pbs), nes, nm, ", observed rate 8->16 elements" if 16 in nes else " (rates: thorough tier only)"))
    c.trusted("hand-written Gallina model C53Model.v of the three pipe elements and of PipeTest's small-strain assembly with imposed pressures, tied to "
              "mtest/src/Pipe*Element.cxx and mtest/src/PipeTest.cxx by execution on seeded inputs only",
              "props/C53/driver.cxx: stub linear behaviour, set-up of the PipeTest object through its public setters (behaviour pointer set directly), dense LU; "
              "libTFELMTest.so of /repo/_build for everything but the sources listed in REPO_SRC and the three element sources",
              "Python differ (tolerances), generator of C53_gen.v (exact rational value of the printed doubles), .ptest generator, parsing of mtest's .res/.prof "
              "output; g++, mfront-generated elastic behaviour VElas",
              "uniqueness of the solution of the pipe boundary value problem is classical and NOT proved here (the oracle is proved to be a solution)")
    c.assumptions.append("IEEE rounding is not modelled: theorems are over R, code/model agreement is checked to 1e-9 relative")
    c.assumptions.append("convergence under refinement at the element's order is observed by execution, not proved")


guarded_main("C53", main)

// C53 driver: runs the REAL pipe element code of /repo (mtest/src/Pipe{Linear,Quadratic,Cubic}Element.cxx are
// #included below, so every run compiles the working tree's text; private members are opened to reach the
// cubic element's sf*/dsf*/jacobian).  The only thing that is ours is the stub behaviour (a linear map
// stress = K.strain with an arbitrary 3x3 matrix K, components ordered rr,zz,tt as in the element code), the
// a dense LU and the set-up of a PipeTest object without its parser (public setters; the behaviour pointer is set
// directly).
//
//   driver consts                       quadrature points and weights of the three elements
//   driver sf      < xs                 shape functions (through `interpolate`) at the given abscissae
//   driver elem    < cases              computeStrain + updateStiffnessMatrixAndInnerForces on one element
//   driver asm     < cases              the REAL PipeTest::computeStiffnessMatrixAndResidual (mtest/src/PipeTest.cxx of the
//                                       tree, compiled with this driver) on a given nodal vector: residual and stiffness
//   driver fe      < cases              full elastic pipe problem: residual/stiffness assembled by the REAL PipeTest,
//                                       linear system solved by our LU
#include <cstdio>
#include <cstdlib>
#include <cmath>
#include <string>
#include <vector>
#include <map>
#include <memory>
#include <iostream>
#include <sstream>
#include <fstream>
#include <ostream>
#include <numbers>
#include <algorithm>
#include <functional>
#include <stdexcept>
#define private public
#define protected public
#include "MTest/Evolution.hxx"
#include "MTest/SolverWorkSpace.hxx"
#include "MTest/StudyCurrentState.hxx"
#include "MTest/PipeTest.hxx"
#include "MTest/Behaviour.hxx"
#include "MTest/BehaviourWorkSpace.hxx"
#include "MTest/CurrentState.hxx"
#include "MTest/StructureCurrentState.hxx"
#include "MTest/PipeLinearElement.hxx"
#include "MTest/PipeQuadraticElement.hxx"
#include "MTest/PipeCubicElement.hxx"
// the element sources of the working tree (found through -I<repo>/mtest/include)
#include "../src/PipeLinearElement.cxx"
#include "../src/PipeQuadraticElement.cxx"
#include "../src/PipeCubicElement.cxx"
#undef private
#undef protected

using mtest::real;

namespace {

  [[noreturn]] void unused(const char* n) {
    throw std::runtime_error(std::string("StubBehaviour::") + n + " is not expected to be called");
  }

  // stress = K . strain, tangent = K   (components rr, zz, tt)
  struct StubBehaviour final : mtest::Behaviour {
    double K[3][3];
    using S = std::string;
    using VS = std::vector<std::string>;
    Hypothesis getHypothesis() const override {
      return ModellingHypothesis::AXISYMMETRICALGENERALISEDPLANESTRAIN;
    }
    S getBehaviourName() const override { return "stub"; }
    BehaviourType getBehaviourType() const override {
      return tfel::material::MechanicalBehaviourBase::STANDARDSTRAINBASEDBEHAVIOUR;
    }
    Kinematic getBehaviourKinematic() const override {
      return tfel::material::MechanicalBehaviourBase::SMALLSTRAINKINEMATIC;
    }
    unsigned short getGradientsSize() const override { return 3; }
    void getGradientsDefaultInitialValues(tfel::math::vector<real>& v) const override {
      std::fill(v.begin(), v.end(), real(0));
    }
    unsigned short getThermodynamicForcesSize() const override { return 3; }
    VS getStensorComponentsSuffixes() const override { return {"RR", "ZZ", "TT"}; }
    VS getVectorComponentsSuffixes() const override { return {"R"}; }
    VS getTensorComponentsSuffixes() const override { return {"RR", "ZZ", "TT"}; }
    VS getGradientsComponents() const override { return {"ERR", "EZZ", "ETT"}; }
    VS getThermodynamicForcesComponents() const override { return {"SRR", "SZZ", "STT"}; }
    unsigned short getGradientComponentPosition(const S&) const override { unused("getGradientComponentPosition"); }
    unsigned short getThermodynamicForceComponentPosition(const S&) const override {
      unused("getThermodynamicForceComponentPosition");
    }
    size_t getTangentOperatorArraySize() const override { return 9; }
    std::vector<std::pair<S, S>> getTangentOperatorBlocks() const override { return {{"Stress", "Strain"}}; }
    unsigned short getSymmetryType() const override { return 0; }
    VS getMaterialPropertiesNames() const override { return {}; }
    size_t getMaterialPropertiesSize() const override { return 0; }
    VS getOptionalMaterialProperties() const override { return {}; }
    void setOptionalMaterialPropertiesDefaultValues(mtest::EvolutionManager&,
                                                    const mtest::EvolutionManager&) const override {}
    VS getInternalStateVariablesNames() const override { return {}; }
    VS expandInternalStateVariablesNames() const override { return {}; }
    size_t getInternalStateVariablesSize() const override { return 0; }
    VS getInternalStateVariablesDescriptions() const override { return {}; }
    unsigned short getInternalStateVariableType(const S&) const override { unused("getInternalStateVariableType"); }
    unsigned short getInternalStateVariablePosition(const S&) const override {
      unused("getInternalStateVariablePosition");
    }
    VS getExternalStateVariablesNames() const override { return {}; }
    size_t getExternalStateVariablesSize() const override { return 0; }
    VS expandExternalStateVariablesNames() const override { return {}; }
    unsigned short getExternalStateVariableType(const S&) const override { unused("getExternalStateVariableType"); }
    unsigned short getExternalStateVariablePosition(const S&) const override {
      unused("getExternalStateVariablePosition");
    }
    VS getParametersNames() const override { return {}; }
    VS getIntegerParametersNames() const override { return {}; }
    VS getUnsignedShortParametersNames() const override { return {}; }
    double getRealParameterDefaultValue(const S&) const override { unused("getRealParameterDefaultValue"); }
    int getIntegerParameterDefaultValue(const S&) const override { unused("getIntegerParameterDefaultValue"); }
    unsigned short getUnsignedShortParameterDefaultValue(const S&) const override {
      unused("getUnsignedShortParameterDefaultValue");
    }
    void setOutOfBoundsPolicy(const tfel::material::OutOfBoundsPolicy) const override {}
    bool hasBounds(const S&) const override { return false; }
    bool hasLowerBound(const S&) const override { return false; }
    bool hasUpperBound(const S&) const override { return false; }
    long double getLowerBound(const S&) const override { unused("getLowerBound"); }
    long double getUpperBound(const S&) const override { unused("getUpperBound"); }
    bool hasPhysicalBounds(const S&) const override { return false; }
    bool hasLowerPhysicalBound(const S&) const override { return false; }
    bool hasUpperPhysicalBound(const S&) const override { return false; }
    long double getLowerPhysicalBound(const S&) const override { unused("getLowerPhysicalBound"); }
    long double getUpperPhysicalBound(const S&) const override { unused("getUpperPhysicalBound"); }
    void setParameter(const S&, const real) const override {}
    void setIntegerParameter(const S&, const int) const override {}
    void setUnsignedIntegerParameter(const S&, const unsigned short) const override {}
    void allocateWorkSpace(mtest::BehaviourWorkSpace& wk) const override {
      wk.kt.resize(3, 3);
      wk.k.resize(3, 3);
      wk.D.resize(3, 3);
    }
    void allocateCurrentState(mtest::CurrentState& s) const override {
      for (auto* v : {&s.s_1, &s.s0, &s.s1, &s.e0, &s.e1, &s.e_th0, &s.e_th1}) {
        v->clear();
        v->resize(3, real(0));
      }
    }
    mtest::StiffnessMatrixType getDefaultStiffnessMatrixType() const override {
      return mtest::StiffnessMatrixType::CONSISTENTTANGENTOPERATOR;
    }
    tfel::math::tmatrix<3u, 3u, real> getRotationMatrix(const tfel::math::vector<real>&,
                                                        const tfel::math::tmatrix<3u, 3u, real>& r) const override {
      return r;
    }
    bool doPackagingStep(mtest::CurrentState&, mtest::BehaviourWorkSpace&) const override { return true; }
    std::pair<bool, real> computePredictionOperator(mtest::BehaviourWorkSpace&,
                                                    const mtest::CurrentState&,
                                                    const mtest::StiffnessMatrixType) const override {
      return {false, 1};
    }
    std::pair<bool, real> integrate(mtest::CurrentState& s,
                                    mtest::BehaviourWorkSpace& wk,
                                    const real,
                                    const mtest::StiffnessMatrixType mt) const override {
      for (int a = 0; a != 3; ++a) {
        s.s1[a] = 0;
        for (int b = 0; b != 3; ++b) s.s1[a] += K[a][b] * s.e1[b];
      }
      if (mt != mtest::StiffnessMatrixType::NOSTIFFNESS) {
        for (int a = 0; a != 3; ++a)
          for (int b = 0; b != 3; ++b) wk.k(a, b) = K[a][b];
      }
      return {true, 1};
    }
  };

  struct Pipe {
    int et = 1;  // 1 linear, 2 quadratic, 3 cubic
    mtest::PipeMesh m;
    std::shared_ptr<StubBehaviour> b = std::make_shared<StubBehaviour>();
    mtest::StructureCurrentState scs;
    size_t nn = 0;   // number of nodes
    size_t ngp = 0;  // Gauss points per element
    void init(int e, double Ri, double Re, int ne) {
      et = e;
      m.inner_radius = Ri;
      m.outer_radius = Re;
      m.number_of_elements = ne;
      m.etype = e == 1 ? mtest::PipeMesh::LINEAR : e == 2 ? mtest::PipeMesh::QUADRATIC : mtest::PipeMesh::CUBIC;
      nn = size_t(e) * size_t(ne) + 1;
      ngp = size_t(e) + 1;
      scs.setBehaviour(b);
      scs.setModellingHypothesis(tfel::material::ModellingHypothesis::AXISYMMETRICALGENERALISEDPLANESTRAIN);
      scs.istates.resize(ngp * size_t(ne));
      for (auto& s : scs.istates) b->allocateCurrentState(s);
      // as PipeTest::initializeCurrentState does
      if (e == 1) mtest::PipeLinearElement::setGaussPointsPositions(scs, m);
      if (e == 2) mtest::PipeQuadraticElement::setGaussPointsPositions(scs, m);
      if (e == 3) mtest::PipeCubicElement::setGaussPointsPositions(scs, m);
    }
    bool update(tfel::math::matrix<real>& k, tfel::math::vector<real>& r, const tfel::math::vector<real>& u, size_t i) {
      const auto mt = mtest::StiffnessMatrixType::CONSISTENTTANGENTOPERATOR;
      std::pair<bool, real> res;
      if (et == 1) res = mtest::PipeLinearElement::updateStiffnessMatrixAndInnerForces(k, r, scs, *b, u, m, 1., mt, i);
      if (et == 2)
        res = mtest::PipeQuadraticElement::updateStiffnessMatrixAndInnerForces(k, r, scs, *b, u, m, 1., mt, i);
      if (et == 3) res = mtest::PipeCubicElement::updateStiffnessMatrixAndInnerForces(k, r, scs, *b, u, m, 1., mt, i);
      return res.first;
    }
  };

  void p(double x) { std::printf(" %.17g", x); }

  int consts() {
    using namespace mtest;
    std::printf("Q1");
    for (int g = 0; g != 2; ++g) {
      p(PipeLinearElement::pg_radii[g]);
      p(PipeLinearElement::wg);
    }
    std::printf("\nQ2");
    for (int g = 0; g != 3; ++g) {
      p(PipeQuadraticElement::pg_radii[g]);
      p(PipeQuadraticElement::wg[g]);
    }
    std::printf("\nQ3");
    for (int g = 0; g != 4; ++g) {
      p(PipeCubicElement::pg_radii[g]);
      p(PipeCubicElement::wg[g]);
    }
    std::printf("\n");
    return 0;
  }

  // shape functions: N_i(x) = interpolate(e_i, x); for the cubic element also the private sf*, dsf*, jacobian
  int sf() {
    using namespace mtest;
    double x;
    while (std::cin >> x) {
      std::printf("SF1 %.17g", x);
      p(PipeLinearElement::interpolate(1, 0, x));
      p(PipeLinearElement::interpolate(0, 1, x));
      std::printf("\nSF2 %.17g", x);
      p(PipeQuadraticElement::interpolate(1, 0, 0, x));
      p(PipeQuadraticElement::interpolate(0, 1, 0, x));
      p(PipeQuadraticElement::interpolate(0, 0, 1, x));
      std::printf("\nSF3 %.17g", x);
      p(PipeCubicElement::interpolate(1, 0, 0, 0, x));
      p(PipeCubicElement::interpolate(0, 1, 0, 0, x));
      p(PipeCubicElement::interpolate(0, 0, 1, 0, x));
      p(PipeCubicElement::interpolate(0, 0, 0, 1, x));
      std::printf("\nSFP3 %.17g", x);
      p(PipeCubicElement::sf0(x));
      p(PipeCubicElement::sf1(x));
      p(PipeCubicElement::sf2(x));
      p(PipeCubicElement::sf3(x));
      std::printf("\nDSF3 %.17g", x);
      p(PipeCubicElement::dsf0(x));
      p(PipeCubicElement::dsf1(x));
      p(PipeCubicElement::dsf2(x));
      p(PipeCubicElement::dsf3(x));
      std::printf("\nJAC3 %.17g", x);
      p(PipeCubicElement::jacobian(1, 0, 0, 0, x));
      p(PipeCubicElement::jacobian(0, 1, 0, 0, x));
      p(PipeCubicElement::jacobian(0, 0, 1, 0, x));
      p(PipeCubicElement::jacobian(0, 0, 0, 1, x));
      std::printf("\n");
    }
    return 0;
  }

  // one element: input  `et Ri Re ne i  K(9, row major)  u(nn+1)`
  // output `ELEM <id> GP g pos e0 e1 e2` per Gauss point, `R <nn+1 values>`, `K <(nn+1)^2 values>`
  int elem() {
    int id = 0;
    int et, ne, i;
    double Ri, Re;
    while (std::cin >> et >> Ri >> Re >> ne >> i) {
      Pipe P;
      for (int a = 0; a != 3; ++a)
        for (int c = 0; c != 3; ++c) std::cin >> P.b->K[a][c];
      P.init(et, Ri, Re, ne);
      const auto n = P.nn + 1;
      tfel::math::vector<real> u(n), r(n, real(0));
      for (auto& v : u) std::cin >> v;
      tfel::math::matrix<real> k(n, n, real(0));
      const bool ok = P.update(k, r, u, size_t(i));
      std::printf("ELEM %d %d\n", id, ok ? 1 : 0);
      for (size_t g = 0; g != P.ngp; ++g) {
        const auto& s = P.scs.istates[P.ngp * size_t(i) + g];
        std::printf("GP %d %zu", id, g);
        p(s.position);
        p(s.e1[0]);
        p(s.e1[1]);
        p(s.e1[2]);
        std::printf("\n");
      }
      std::printf("R %d", id);
      for (size_t a = 0; a != n; ++a) p(r[a]);
      std::printf("\nK %d", id);
      for (size_t a = 0; a != n; ++a)
        for (size_t c = 0; c != n; ++c) p(k(a, c));
      std::printf("\n");
      ++id;
    }
    return 0;
  }

  // dense Gaussian elimination with partial pivoting (ours, not the code under test)
  bool solve(std::vector<std::vector<long double>>& A, std::vector<long double>& b) {
    const size_t n = b.size();
    for (size_t c = 0; c != n; ++c) {
      size_t piv = c;
      for (size_t l = c + 1; l < n; ++l)
        if (std::fabs(A[l][c]) > std::fabs(A[piv][c])) piv = l;
      if (!(std::fabs(A[piv][c]) > 0) || !std::isfinite(double(A[piv][c]))) return false;
      std::swap(A[piv], A[c]);
      std::swap(b[piv], b[c]);
      for (size_t l = c + 1; l < n; ++l) {
        const auto f = A[l][c] / A[c][c];
        for (size_t q = c; q < n; ++q) A[l][q] -= f * A[c][q];
        b[l] -= f * b[c];
      }
    }
    for (size_t c = n; c-- > 0;) {
      for (size_t q = c + 1; q < n; ++q) b[c] -= A[c][q] * b[q];
      b[c] /= A[c][c];
    }
    return true;
  }

  // a PipeTest object of the tree under test, configured as `@PerformSmallStrainAnalysis true`, imposed inner and outer
  // pressures, axial loading None / EndCapEffect, with the stub behaviour
  struct RealPipe {
    mtest::PipeTest t;
    mtest::StudyCurrentState state;
    std::shared_ptr<StubBehaviour> b = std::make_shared<StubBehaviour>();
    size_t nn = 0;
    void init(int et, double Ri, double Re, int ne, double Pi, double Pe, int axial) {
      t.setInnerRadius(Ri);
      t.setOuterRadius(Re);
      t.setNumberOfElements(ne);
      t.setElementType(et == 1 ? mtest::PipeMesh::LINEAR : et == 2 ? mtest::PipeMesh::QUADRATIC : mtest::PipeMesh::CUBIC);
      t.setDefaultModellingHypothesis();
      t.b = b;  // SingleStructureScheme::b (the parser would load a library)
      t.performSmallStrainAnalysis();
      t.setAxialLoading(axial == 1 ? mtest::PipeTest::ENDCAPEFFECT : mtest::PipeTest::NONE);
      t.setInnerPressureEvolution(mtest::make_evolution(Pi));
      t.setOuterPressureEvolution(mtest::make_evolution(Pe));
      t.initializeCurrentState(state);
      nn = size_t(et) * size_t(ne) + 1;
    }
    bool assemble(tfel::math::matrix<real>& k, tfel::math::vector<real>& r, const tfel::math::vector<real>& u) {
      for (size_t a = 0; a != u.size(); ++a) state.u1[a] = u[a];
      const auto res = t.computeStiffnessMatrixAndResidual(state, k, r, 0., 1.,
                                                           mtest::StiffnessMatrixType::CONSISTENTTANGENTOPERATOR);
      return res.first;
    }
  };

  // assembly: input `et Ri Re ne Pi Pe axial  K(9, row major)  u(nn+1)`; output `ASM id ok`, `R id ...`, `K id ...`
  int assembly() {
    int id = 0;
    int et, ne, axial;
    double Ri, Re, Pi, Pe;
    while (std::cin >> et >> Ri >> Re >> ne >> Pi >> Pe >> axial) {
      RealPipe P;
      for (int a = 0; a != 3; ++a)
        for (int c = 0; c != 3; ++c) std::cin >> P.b->K[a][c];
      P.init(et, Ri, Re, ne, Pi, Pe, axial);
      const auto n = P.nn + 1;
      tfel::math::vector<real> u(n), r(n, real(1e300));  // garbage on purpose: the real code must reset r and k
      for (auto& v : u) std::cin >> v;
      tfel::math::matrix<real> k(n, n, real(1e300));
      const bool ok = P.assemble(k, r, u);
      std::printf("ASM %d %d\nR %d", id, ok ? 1 : 0, id);
      for (size_t a = 0; a != n; ++a) p(r[a]);
      std::printf("\nK %d", id);
      for (size_t a = 0; a != n; ++a)
        for (size_t c = 0; c != n; ++c) p(k(a, c));
      std::printf("\n");
      ++id;
    }
    return 0;
  }

  // full problem: input `et Ri Re ne E nu Pi Pe axial` (axial: 0 = no axial force, 1 = end cap effect)
  // residual and stiffness from the REAL PipeTest::computeStiffnessMatrixAndResidual; one Newton step from u = 0 (the
  // problem is linear), residual checked at the solution
  int fe() {
    int id = 0;
    int et, ne, axial;
    double Ri, Re, E, nu, Pi, Pe;
    while (std::cin >> et >> Ri >> Re >> ne >> E >> nu >> Pi >> Pe >> axial) {
      RealPipe P;
      const double l = nu * E / ((1 + nu) * (1 - 2 * nu)), mu = E / (2 * (1 + nu));
      for (int a = 0; a != 3; ++a)
        for (int c = 0; c != 3; ++c) P.b->K[a][c] = l + (a == c ? 2 * mu : 0.);
      P.init(et, Ri, Re, ne, Pi, Pe, axial);
      const auto n = P.nn + 1;
      tfel::math::vector<real> u(n, real(0)), r(n, real(0));
      tfel::math::matrix<real> k(n, n, real(0));
      bool ok = P.assemble(k, r, u);
      std::vector<std::vector<long double>> A(n, std::vector<long double>(n));
      std::vector<long double> rhs(n);
      for (size_t a = 0; a != n; ++a) {
        rhs[a] = -r[a];
        for (size_t c = 0; c != n; ++c) A[a][c] = k(a, c);
      }
      ok = ok && solve(A, rhs);
      for (size_t a = 0; a != n; ++a) u[a] = double(rhs[a]);
      // residual and stresses at the solution
      ok = ok && P.assemble(k, r, u);
      double nr = 0;
      for (size_t a = 0; a != n; ++a) nr = std::fmax(nr, std::fabs(r[a]));  // fmax would hide NaN: test below
      for (size_t a = 0; a != n; ++a)
        if (!std::isfinite(r[a]) || !std::isfinite(u[a])) ok = false;
      std::printf("FE %d %d %.17g\nU %d", id, ok ? 1 : 0, nr, id);
      for (size_t a = 0; a != n; ++a) p(u[a]);
      std::printf("\n");
      const auto& scs = P.state.getStructureCurrentState("");
      for (size_t g = 0; g != scs.istates.size(); ++g) {
        const auto& s = scs.istates[g];
        std::printf("S %d", id);
        p(s.position);
        p(s.s1[0]);
        p(s.s1[2]);
        p(s.s1[1]);
        p(s.e1[0]);
        p(s.e1[2]);
        std::printf("\n");
      }
      ++id;
    }
    return 0;
  }

}  // namespace

int main(int argc, char** argv) {
  try {
    const std::string c = argc > 1 ? argv[1] : "";
    if (c == "consts") return consts();
    if (c == "sf") return sf();
    if (c == "elem") return elem();
    if (c == "asm") return assembly();
    if (c == "fe") return fe();
    std::fprintf(stderr, "usage: driver consts|sf|elem|asm|fe\n");
    return 2;
  } catch (std::exception& e) {
    std::fprintf(stderr, "exception: %s\n", e.what());
    return 3;
  }
}

// C42: execution stage for the finite-strain tangent operators returned through the generic interface by a behaviour
// generated with `@StrainMeasure GreenLagrange` (wrapper mfront/include/MFront/GenericBehaviour/GreenLagrangeStrainIntegrate.hxx).
//   drv_gl <seed> <nsamples>
// For each tangent flavour K[2] (0: dsig/dF, 1: dS/dE_GL, 2: dPK1/dF, 3: dtau/dDF with DF = F1 F0^-1) the returned operator is
// compared with centred finite differences of the conjugate stress measure returned by the SAME entry point, in an elastic
// step from the virgin state (F0 = I) and in a plastic step that starts from a deformed state (F0 != I, F1 != F0).
// Tensor storage of TFEL: F = (xx yy zz xy yx xz zx yz zy), symmetric tensors (xx yy zz sqrt2 xy sqrt2 xz sqrt2 yz).
// stdout: GL <flavour> <step> n=<entries> worst=<max err / max|K|>   and   GL-FAIL ... for the entries above the tolerance.
#include <algorithm>
#include <cmath>
#include <cstdint>
#include <cstdio>
#include <cstdlib>
#include <cstring>
#include <vector>
#include "MFront/GenericBehaviour/BehaviourData.h"

extern "C" int C42GLPlast_Tridimensional(mfront_gb_BehaviourData* const);

struct Rng {
  uint64_t s;
  explicit Rng(uint64_t x) : s(x * 2862933555777941757ULL + 3037000493ULL) {}
  double uni() {
    s = s * 6364136223846793005ULL + 1442695040888963407ULL;
    return static_cast<double>(s >> 11) / 9007199254740992.0;
  }
  double range(double a, double b) { return a + (b - a) * uni(); }
};

struct MState {
  double F[9] = {1, 1, 1, 0, 0, 0, 0, 0, 0};
  double s[9] = {0, 0, 0, 0, 0, 0, 0, 0, 0};  // stress in the measure selected by the caller
  double isvs[7] = {0, 0, 0, 0, 0, 0, 0};     // eel[6], p
};

// one call of the behaviour: from state s0 to the deformation gradient F1; sm: stress measure K[1]; to: operator K[2]
static bool integrate(MState& s1, double* K, const MState& s0, const double* F1, int sm, int to, bool stiffness) {
  double Kb[81] = {0};
  Kb[0] = stiffness ? 4 : 0;
  Kb[1] = sm;
  Kb[2] = to;
  double rdt = 1, T = 293.15, rho = 1, se = 0, de = 0, se1 = 0, de1 = 0, vs = 0;
  char msg[512];
  std::memcpy(s1.F, F1, sizeof(s1.F));
  std::memcpy(s1.isvs, s0.isvs, sizeof(s1.isvs));
  std::memcpy(s1.s, s0.s, sizeof(s1.s));
  mfront_gb_BehaviourData d;
  d.error_message = msg;
  d.dt = 1;
  d.K = Kb;
  d.rdt = &rdt;
  d.speed_of_sound = &vs;
  d.s0 = {const_cast<double*>(s0.F), const_cast<double*>(s0.s), &rho, nullptr, const_cast<double*>(s0.isvs), &se, &de, &T};
  d.s1 = {s1.F, s1.s, &rho, nullptr, s1.isvs, &se1, &de1, &T};
  if (C42GLPlast_Tridimensional(&d) < 0) return false;
  if (K != nullptr) std::memcpy(K, Kb, sizeof(Kb));
  return true;
}

static void to_matrix(double m[3][3], const double* a) {
  const double t[3][3] = {{a[0], a[3], a[5]}, {a[4], a[1], a[7]}, {a[6], a[8], a[2]}};
  std::memcpy(m, t, sizeof(t));
}
static void from_matrix(double* a, const double m[3][3]) {
  a[0] = m[0][0], a[1] = m[1][1], a[2] = m[2][2], a[3] = m[0][1], a[4] = m[1][0], a[5] = m[0][2], a[6] = m[2][0], a[7] = m[1][2], a[8] = m[2][1];
}
static double det3(const double m[3][3]) {
  return m[0][0] * (m[1][1] * m[2][2] - m[1][2] * m[2][1]) - m[0][1] * (m[1][0] * m[2][2] - m[1][2] * m[2][0]) +
         m[0][2] * (m[1][0] * m[2][1] - m[1][1] * m[2][0]);
}
static void inv3(double r[3][3], const double a[3][3]) {
  const double d = det3(a);
  r[0][0] = (a[1][1] * a[2][2] - a[1][2] * a[2][1]) / d, r[0][1] = (a[0][2] * a[2][1] - a[0][1] * a[2][2]) / d;
  r[0][2] = (a[0][1] * a[1][2] - a[0][2] * a[1][1]) / d, r[1][0] = (a[1][2] * a[2][0] - a[1][0] * a[2][2]) / d;
  r[1][1] = (a[0][0] * a[2][2] - a[0][2] * a[2][0]) / d, r[1][2] = (a[0][2] * a[1][0] - a[0][0] * a[1][2]) / d;
  r[2][0] = (a[1][0] * a[2][1] - a[1][1] * a[2][0]) / d, r[2][1] = (a[0][1] * a[2][0] - a[0][0] * a[2][1]) / d;
  r[2][2] = (a[0][0] * a[1][1] - a[0][1] * a[1][0]) / d;
}
static void mul3(double r[3][3], const double a[3][3], const double b[3][3]) {
  for (int i = 0; i < 3; ++i)
    for (int j = 0; j < 3; ++j) {
      r[i][j] = 0;
      for (int k = 0; k < 3; ++k) r[i][j] += a[i][k] * b[k][j];
    }
}
// Green-Lagrange strain (F^T F - I)/2 in symmetric storage
static void green_lagrange(double* e, const double* a) {
  double F[3][3];
  to_matrix(F, a);
  double C[3][3];
  for (int i = 0; i < 3; ++i)
    for (int j = 0; j < 3; ++j) {
      C[i][j] = 0;
      for (int k = 0; k < 3; ++k) C[i][j] += F[k][i] * F[k][j];
    }
  const double c = std::sqrt(2.);
  e[0] = (C[0][0] - 1) / 2, e[1] = (C[1][1] - 1) / 2, e[2] = (C[2][2] - 1) / 2;
  e[3] = C[0][1] / 2 * c, e[4] = C[0][2] / 2 * c, e[5] = C[1][2] / 2 * c;
}

int main(int argc, char** argv) {
  if (argc < 3) {
    std::fprintf(stderr, "usage: drv_gl <seed> <nsamples>\n");
    return 2;
  }
  Rng rng(std::strtoull(argv[1], nullptr, 10) + 4242);
  const int ns = std::atoi(argv[2]);
  const char* const ton[4] = {"dsig_dF", "dS_dEGL", "dPK1_dF", "dtau_dDF"};
  const int smof[4] = {0, 1, 2, 0};        // stress measure whose finite differences are compared with the operator
  const int nrow[4] = {6, 6, 9, 6}, ncol[4] = {9, 6, 9, 9};
  double worst[4][2] = {{0, 0}, {0, 0}, {0, 0}, {0, 0}};
  long nent[4][2] = {{0, 0}, {0, 0}, {0, 0}, {0, 0}}, nfail = 0, nplastic = 0;
  for (int sample = 0; sample < ns; ++sample) {
    double Fa[9], Fb[9];
    for (int i = 0; i < 9; ++i) {
      const double id = i < 3 ? 1. : 0.;
      const double da = 4e-4 * rng.range(-1, 1);
      Fa[i] = id + da;
      Fb[i] = id + da + 2e-2 * rng.range(-1, 1);
    }
    for (int to = 0; to < 4; ++to) {
      const int sm = smof[to];
      MState sI, sA, sB;
      double KA[81], KB[81];
      if (!integrate(sA, KA, sI, Fa, sm, to, true) || !integrate(sB, KB, sA, Fb, sm, to, true)) {
        std::printf("GL-FAIL %s integration failure sample %d\n", ton[to], sample);
        ++nfail;
        continue;
      }
      if (to == 0 && sB.isvs[6] > 1e-3) ++nplastic;
      for (int step = 0; step < 2; ++step) {
        const MState& s0 = step == 0 ? sI : sA;
        const double* F1 = step == 0 ? Fa : Fb;
        const double* K = step == 0 ? KA : KB;
        const int nr = nrow[to], nc = ncol[to];
        double Kmax = 0;
        for (int i = 0; i < nr * nc; ++i) Kmax = std::max(Kmax, std::fabs(K[i]));
        double F0m[3][3], F0i[3][3], F1m[3][3];
        to_matrix(F0m, s0.F);
        inv3(F0i, F0m);
        to_matrix(F1m, F1);
        for (int j = 0; j < 9; ++j) {
          const double h = 1e-6;
          double Fp[9], Fm[9];
          if (to == 3) {
            // perturbation of DF = F1 F0^-1: F1 = (DF +- h e_j) F0
            double DF[3][3], dfa[9], P[3][3], M[3][3], t[3][3];
            mul3(DF, F1m, F0i);
            from_matrix(dfa, DF);
            double ap[9], am[9];
            std::memcpy(ap, dfa, sizeof(ap));
            std::memcpy(am, dfa, sizeof(am));
            ap[j] += h;
            am[j] -= h;
            to_matrix(t, ap);
            mul3(P, t, F0m);
            to_matrix(t, am);
            mul3(M, t, F0m);
            from_matrix(Fp, P);
            from_matrix(Fm, M);
          } else {
            std::memcpy(Fp, F1, sizeof(Fp));
            std::memcpy(Fm, F1, sizeof(Fm));
            Fp[j] += h;
            Fm[j] -= h;
          }
          MState sp, smm;
          if (!integrate(sp, nullptr, s0, Fp, sm, to, false) || !integrate(smm, nullptr, s0, Fm, sm, to, false)) {
            std::printf("GL-FAIL %s integration failure in a perturbed step, sample %d\n", ton[to], sample);
            ++nfail;
            continue;
          }
          double dx[9] = {0, 0, 0, 0, 0, 0, 0, 0, 0};  // variation of the variable conjugated to the operator
          if (to == 1) {
            double ep[6], em[6];
            green_lagrange(ep, Fp);
            green_lagrange(em, Fm);
            for (int k = 0; k < 6; ++k) dx[k] = ep[k] - em[k];
          } else {
            dx[j] = 2 * h;
          }
          double yp[9], ym[9];
          std::memcpy(yp, sp.s, sizeof(yp));
          std::memcpy(ym, smm.s, sizeof(ym));
          if (to == 3) {  // Kirchhoff stress tau = det(F) sig
            double m[3][3];
            to_matrix(m, Fp);
            const double Jp = det3(m);
            to_matrix(m, Fm);
            const double Jm = det3(m);
            for (int i = 0; i < 6; ++i) yp[i] *= Jp, ym[i] *= Jm;
          }
          for (int i = 0; i < nr; ++i) {
            const double fd = yp[i] - ym[i];
            double an = 0;
            for (int k = 0; k < nc; ++k) an += K[i * nc + k] * dx[k];
            const double err = std::fabs(fd - an) / (2 * h * Kmax);
            worst[to][step] = std::max(worst[to][step], err);
            ++nent[to][step];
            if (!(err <= 2e-4)) {
              ++nfail;
              if (nfail <= 40) {
                std::printf("GL-FAIL %s step %s sample %d i %d j %d fd %.9g operator %.9g kmax %.6g F0", ton[to], step ? "plastic" : "elastic", sample,
                            i, j, fd / (2 * h), an / (2 * h), Kmax);
                for (int q = 0; q < 9; ++q) std::printf(" %.17g", s0.F[q]);
                std::printf(" F1");
                for (int q = 0; q < 9; ++q) std::printf(" %.17g", F1[q]);
                std::printf(" p0 %.17g\n", s0.isvs[6]);
              }
            }
          }
        }
      }
    }
  }
  for (int to = 0; to < 4; ++to)
    for (int step = 0; step < 2; ++step)
      std::printf("GL %s %s n=%ld worst=%.3g\n", ton[to], step ? "plastic" : "elastic", nent[to][step], worst[to][step]);
  std::printf("GLSUM samples=%d plastic=%ld fail=%ld\n", ns, nplastic, nfail);
  return 0;
}

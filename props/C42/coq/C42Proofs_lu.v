(* C42, program C41ImplicitNorton: the generated computeConsistentTangentOperator / getPartialJacobianInvert code (LU decomposition
   without pivoting + partial inversion + Hooke * Je), traced on a jacobian whose 16 entries are variables. *)
From Coq Require Import Reals List Lra Lia.
From VLib Require Import RealExtra.
Require Import GBehLib BehSpec GenNorton.
Import ListNotations.
Local Open Scope R_scope.

Section Lu.
  Variables eel0 eel1 eel2 deto0 deto1 deto2 p young nu A E dt theta : R.
  Variables j0 j1 j2 j3 j4 j5 j6 j7 j8 j9 j10 j11 j12 j13 j14 j15 : R.
  Definition JM : list R := [j0;j1;j2;j3;j4;j5;j6;j7;j8;j9;j10;j11;j12;j13;j14;j15].
  Definition TGT : list R := no_tgt_hag eel0 eel1 eel2 deto0 deto1 deto2 p young nu A E dt theta
                                         j0 j1 j2 j3 j4 j5 j6 j7 j8 j9 j10 j11 j12 j13 j14 j15.
  Definition TGTCOND : Prop := no_tgtcond_hag eel0 eel1 eel2 deto0 deto1 deto2 p young nu A E dt theta
                                         j0 j1 j2 j3 j4 j5 j6 j7 j8 j9 j10 j11 j12 j13 j14 j15.
  (* X = [Je ; Jp] (4 x 3): Je = rows 0..2 (entries 9..17 of the trace), Jp = row 3 (entries 18..20) *)
  Definition XM (l c : nat) : R := nthR TGT (9 + 3 * l + c).
  Definition DT (i c : nat) : R := nthR TGT (3 * i + c).

  (* the pivots p1, p2, p3 of the LU decomposition without pivoting (non zero on the traced leaf) as variables: the diagonal
     entries j5, j10, j15 are expressed with them (definition of the Doolittle factorisation, written here independently) *)
  Lemma lu_pivots : TGTCOND -> exists p1 p2 p3,
    j0 <> 0 /\ p1 <> 0 /\ p2 <> 0 /\ p3 <> 0 /\
    j5 = p1 + j4 * j1 / j0 /\
    j10 = p2 + j8 * j2 / j0 + (j9 - j8 * j1 / j0) * (j6 - j4 * j2 / j0) / p1 /\
    j15 = p3 + j12 * j3 / j0 + (j13 - j12 * j1 / j0) * (j7 - j4 * j3 / j0) / p1 +
               (j14 - j12 * j2 / j0 - (j13 - j12 * j1 / j0) * (j6 - j4 * j2 / j0) / p1) *
               (j11 - j8 * j3 / j0 - (j9 - j8 * j1 / j0) * (j7 - j4 * j3 / j0) / p1) / p2.
  Proof.
    unfold TGTCOND, no_tgtcond_hag. cbv zeta. intros (_ & _ & _ & P0 & _ & _ & P1 & _ & P2 & P3).
    apply not_abs_lt_nz in P0; [ | exact tiny_pos ]. apply not_abs_lt_nz in P1; [ | exact tiny_pos ].
    apply not_abs_lt_nz in P2; [ | exact tiny_pos ]. apply not_abs_lt_nz in P3; [ | exact tiny_pos ].
    match type of P1 with ?e <> 0 => set (p1 := e) in * end.
    match type of P2 with ?e <> 0 => set (p2 := e) in * end.
    match type of P3 with ?e <> 0 => set (p3 := e) in * end.
    exists p1, p2, p3. repeat split; try assumption.
    - unfold p1; field; assumption.
    - unfold p2; fold p1; field; split; assumption.
    - unfold p3; fold p2; fold p1; field; repeat split; assumption.
  Qed.

  (* side conditions of [field]: polynomials that are products of the pivots *)
  Ltac pivots_nz := repeat split; try assumption;
    match goal with |- ?e <> 0 => let Hz := fresh "Hz" in let Hm := fresh "Hm" in intro Hz; ring_simplify in Hz;
      match type of Hz with ?m = 0 => assert (Hm : m <> 0); [ | exact (Hm Hz) ] end end;
    repeat first [ assumption | apply pow_nonzero | apply Rmult_integral_contrapositive_currified | exact R1_neq_R0 ].

  (* the partial inverse solves J . X = (I ; 0) *)
  Lemma lu_partial_inverse :
    TGTCOND -> forall i c, (i < 4)%nat -> (c < 3)%nat -> sumn 4 (fun l => mget 4 JM i l * XM l c) = delta i c.
  Proof.
    intros HC. destruct (lu_pivots HC) as (p1 & p2 & p3 & P0 & P1 & P2 & P3 & Hj5 & Hj10 & Hj15). clear HC.
    forall_pairs_tac ltac:(
      lazy beta iota zeta delta [XM TGT JM no_tgt_hag sumn mget delta Nat.eqb nthR nth Nat.mul Nat.add List.seq map fold_right];
      rewrite ?Hj15, ?Hj10, ?Hj5; field; pivots_nz).
  Qed.

  (* the traced tangent operator is Hooke . Je *)
  Lemma dt_is_hooke_je :
    1 + nu <> 0 -> 1 - 2 * nu <> 0 -> TGTCOND ->
    forall i c, (i < 3)%nat -> (c < 3)%nat ->
    DT i c = sumn 3 (fun l => hooke_matrix (lame_lambda young nu) (lame_mu young nu) i l * XM l c).
  Proof.
    intros H1 H2 HC. destruct (lu_pivots HC) as (p1 & p2 & p3 & P0 & P1 & P2 & P3 & Hj5 & Hj10 & Hj15). clear HC.
    forall_pairs_tac ltac:(
      lazy beta iota zeta delta [DT XM TGT JM no_tgt_hag sumn mget delta hooke_matrix lame_lambda lame_mu andb Nat.ltb Nat.leb Nat.eqb
                                 nthR nth Nat.mul Nat.add List.seq map fold_right];
      rewrite ?Hj15, ?Hj10, ?Hj5; field; pivots_nz).
  Qed.
End Lu.

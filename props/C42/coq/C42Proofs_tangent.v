(* C42, program C41ImplicitNorton: the consistent tangent operator computed by the generated code IS the derivative of the
   converged stress with respect to the strain increment (implicit-function step, machine checked):
     - chain rule on the traced residual / jacobian along a differentiable path of converged unknowns (C42Proofs_ift_r*.v),
     - the residual vanishes along that path, hence J . Y' = e_k,
     - the traced LU / partial inversion gives X with J . X = (I ; 0) and the traced Dt is Hooke . Je (C42Proofs_lu.v),
     - J invertible: Y' is the k-th column of X (C42LinAlg.v), and d sig / d deto_k = Hooke . Y'[0..2] = Dt(., k).
   What is assumed and not proved: the existence and differentiability of the path of converged unknowns (the conclusion of
   the implicit function theorem), and that the LU decomposition runs without row exchange (path condition of the trace). *)
From Coq Require Import Reals List Lra Lia.
From Coquelicot Require Import Coquelicot.
From VLib Require Import RealExtra.
Require Import GBehLib BehSpec GenNorton C42LinAlg C42Defs_ift C42Proofs_ift_r0 C42Proofs_ift_r1 C42Proofs_ift_r2 C42Proofs_ift_r3 C42Proofs_lu.
Import ListNotations.
Local Open Scope R_scope.

Lemma chain_rule eel0 eel1 eel2 deto0 deto1 deto2 p young nu A E dt theta y0 y1 y2 y3 t0 yp0 yp1 yp2 yp3 :
  path_derive y0 y1 y2 y3 t0 yp0 yp1 yp2 yp3 -> chain_dom eel0 eel1 eel2 deto0 deto1 deto2 p young nu A E dt theta y0 y1 y2 y3 t0 ->
  forall i k, (i < 4)%nat -> (k < 3)%nat ->
  chain_entry eel0 eel1 eel2 deto0 deto1 deto2 p young nu A E dt theta y0 y1 y2 y3 t0 yp0 yp1 yp2 yp3 i k.
Proof.
  intros Hp Hd i k Hi Hk.
  destruct i as [ | [ | [ | [ | i ] ] ] ]; [ apply chain_row0 | apply chain_row1 | apply chain_row2 | apply chain_row3 | lia ];
    try assumption; lia.
Qed.

Section Tangent.
  Variables eel0 eel1 eel2 deto0 deto1 deto2 p young nu A E dt theta : R.
  Variables y0 y1 y2 y3 : R -> R.
  Variables t0 yp0 yp1 yp2 yp3 : R.
  Variable k : nat.
  Let J : list R := JAC eel0 eel1 eel2 deto0 deto1 deto2 p young nu A E dt theta y0 y1 y2 y3 k t0.
  (* the traced tangent-operator code run on the traced jacobian: (Dt[9], Je[9], Jp[3]) and its path condition *)
  Definition tgt_of (M : list R) : list R :=
    no_tgt_hag eel0 eel1 eel2 deto0 deto1 deto2 p young nu A E dt theta
      (nthR M 0) (nthR M 1) (nthR M 2) (nthR M 3) (nthR M 4) (nthR M 5) (nthR M 6) (nthR M 7)
      (nthR M 8) (nthR M 9) (nthR M 10) (nthR M 11) (nthR M 12) (nthR M 13) (nthR M 14) (nthR M 15).
  Definition tgtcond_of (M : list R) : Prop :=
    no_tgtcond_hag eel0 eel1 eel2 deto0 deto1 deto2 p young nu A E dt theta
      (nthR M 0) (nthR M 1) (nthR M 2) (nthR M 3) (nthR M 4) (nthR M 5) (nthR M 6) (nthR M 7)
      (nthR M 8) (nthR M 9) (nthR M 10) (nthR M 11) (nthR M 12) (nthR M 13) (nthR M 14) (nthR M 15).
  Definition invertible4 (M : list R) : Prop :=
    exists Minv, forall i l, (i < 4)%nat -> (l < 4)%nat -> sumn 4 (fun m => mget 4 Minv i m * mget 4 M m l) = delta i l.

  Hypothesis Hk : (k < 3)%nat.
  Hypothesis Hpath : path_derive y0 y1 y2 y3 t0 yp0 yp1 yp2 yp3.
  Hypothesis Hdom : chain_dom eel0 eel1 eel2 deto0 deto1 deto2 p young nu A E dt theta y0 y1 y2 y3 t0.
  (* the path is made of converged states: the residual vanishes in a neighbourhood of t0 *)
  Hypothesis Hzero : locally t0 (fun t => forall i, (i < 4)%nat ->
                       nthR (FZ eel0 eel1 eel2 deto0 deto1 deto2 p young nu A E dt theta y0 y1 y2 y3 k t) i = 0).
  Hypothesis Hinv : invertible4 J.
  Hypothesis Hcond : tgtcond_of J.

  (* J . Y' = e_k *)
  Lemma linearised_system : forall i, (i < 4)%nat -> sumn 4 (fun j => mget 4 J i j * nthR [yp0;yp1;yp2;yp3] j) = delta i k.
  Proof.
    intros i Hi.
    pose proof (chain_rule _ _ _ _ _ _ _ _ _ _ _ _ _ _ _ _ _ _ _ _ _ _ Hpath Hdom i k Hi Hk) as Hc. unfold chain_entry in Hc. fold J in Hc.
    assert (H0 : is_derive (fun t => nthR (FZ eel0 eel1 eel2 deto0 deto1 deto2 p young nu A E dt theta y0 y1 y2 y3 k t) i) t0 0).
    { apply (is_derive_ext_loc (fun _ => 0)); [ | apply @is_derive_const ].
      generalize Hzero. apply filter_imp. intros t Ht. cbv beta. symmetry. apply Ht. exact Hi. }
    apply is_derive_unique in Hc. apply is_derive_unique in H0. rewrite H0 in Hc. lra.
  Qed.

  (* the k-th column of X = [Je ; Jp] computed by the traced code *)
  Definition Xcol (l : nat) : R := nthR (tgt_of J) (9 + 3 * l + k).

  Lemma traced_system : forall i, (i < 4)%nat -> sumn 4 (fun l => mget 4 J i l * Xcol l) = delta i k.
  Proof.
    intros i Hi.
    pose proof (lu_partial_inverse eel0 eel1 eel2 deto0 deto1 deto2 p young nu A E dt theta
                  (nthR J 0) (nthR J 1) (nthR J 2) (nthR J 3) (nthR J 4) (nthR J 5) (nthR J 6) (nthR J 7)
                  (nthR J 8) (nthR J 9) (nthR J 10) (nthR J 11) (nthR J 12) (nthR J 13) (nthR J 14) (nthR J 15) Hcond i k Hi Hk) as HL.
    rewrite <- HL. apply sumn_ext. intros l Hl. unfold Xcol, XM, TGT, tgt_of. f_equal.
    all: try (unfold mget, JM, nthR;
         destruct i as [ | [ | [ | [ | i ] ] ] ]; [ | | | | lia ];
         (destruct l as [ | [ | [ | [ | l ] ] ] ]; [ reflexivity | reflexivity | reflexivity | reflexivity | lia ])).
  Qed.

  Lemma path_derivative_is_column : forall j, (j < 4)%nat -> nthR [yp0;yp1;yp2;yp3] j = Xcol j.
  Proof.
    destruct Hinv as (Jinv & HJ).
    apply (lin_unique 4 J Jinv); [ exact HJ | ].
    intros i Hi. rewrite linearised_system, traced_system; auto.
  Qed.

  (* derivative of the converged stress along the path: Hooke . Y'[0..2] *)
  Lemma stress_derivative : forall i, (i < 3)%nat ->
    is_derive (fun t => nthR (FIN eel0 eel1 eel2 deto0 deto1 deto2 p young nu A E dt theta y0 y1 y2 y3 k t) (4 + i)) t0
              (sumn 3 (fun l => hooke_matrix (lame_lambda young nu) (lame_mu young nu) i l * nthR [yp0;yp1;yp2;yp3] l)).
  Proof.
    destruct Hpath as (Hy0 & Hy1 & Hy2 & Hy3). destruct Hdom as (H1 & H2 & _).
    assert (E0 : Derive (fun x => y0 x) t0 = yp0) by (apply is_derive_unique; exact Hy0).
    assert (E1 : Derive (fun x => y1 x) t0 = yp1) by (apply is_derive_unique; exact Hy1).
    assert (E2 : Derive (fun x => y2 x) t0 = yp2) by (apply is_derive_unique; exact Hy2).
    assert (X0 : ex_derive (fun x => y0 x) t0) by (exists yp0; exact Hy0).
    assert (X1 : ex_derive (fun x => y1 x) t0) by (exists yp1; exact Hy1).
    assert (X2 : ex_derive (fun x => y2 x) t0) by (exists yp2; exact Hy2).
    intros i Hi. destruct i as [ | [ | [ | i ] ] ]; [ | | | lia ];
      (lazy beta iota zeta delta [FIN Y4 deto_at upd no_fin_hag_l no_fin_hag nthR nth Nat.add sumn hooke_matrix lame_lambda lame_mu
                                  delta andb Nat.ltb Nat.leb Nat.eqb List.seq map fold_right];
       auto_derive; [ repeat split; first [ assumption | exact I ] | rewrite ?E0, ?E1, ?E2; field; split; assumption ]).
  Qed.

  (* the traced consistent tangent operator is the derivative of the converged stress w.r.t. the strain increment *)
  Lemma implicit_tangent : forall i, (i < 3)%nat ->
    is_derive (fun t => nthR (FIN eel0 eel1 eel2 deto0 deto1 deto2 p young nu A E dt theta y0 y1 y2 y3 k t) (4 + i)) t0
              (nthR (tgt_of J) (3 * i + k)).
  Proof.
    intros i Hi. destruct Hdom as (H1 & H2 & _).
    pose proof (dt_is_hooke_je eel0 eel1 eel2 deto0 deto1 deto2 p young nu A E dt theta
                  (nthR J 0) (nthR J 1) (nthR J 2) (nthR J 3) (nthR J 4) (nthR J 5) (nthR J 6) (nthR J 7)
                  (nthR J 8) (nthR J 9) (nthR J 10) (nthR J 11) (nthR J 12) (nthR J 13) (nthR J 14) (nthR J 15) H1 H2 Hcond i k Hi Hk) as HD.
    unfold DT, TGT in HD. fold (tgt_of J) in HD. rewrite HD.
    replace (sumn 3 (fun l => hooke_matrix (lame_lambda young nu) (lame_mu young nu) i l * XM _ _ _ _ _ _ _ _ _ _ _ _ _ _ _ _ _ _ _ _ _ _ _ _ _ _ _ _ _ l k))
      with (sumn 3 (fun l => hooke_matrix (lame_lambda young nu) (lame_mu young nu) i l * nthR [yp0;yp1;yp2;yp3] l)).
    - apply stress_derivative; exact Hi.
    - apply sumn_ext. intros l Hl. rewrite path_derivative_is_column by lia. reflexivity.
  Qed.
End Tangent.

(* C42 -- property theorems, program C41Elasticity (proofs in C42Proofs_el.v); traced definitions regenerated on each run (see props/C41). *)
From Coq Require Import Reals List.
From Coquelicot Require Import Coquelicot.
From VLib Require Import RealExtra.
Require Import GBehLib BehSpec GenEl C42Proofs_el.
Import ListNotations.
Local Open Scope R_scope.

(* Default-DSL elasticity: Dt(i,j) = d sig_i / d deto_j, for every state *)
Theorem C42_elasticity_tangent_3d : forall e0 e1 e2 e3 e4 e5 d0 d1 d2 d3 d4 d5 young nu,
  1 + nu <> 0 -> 1 - 2 * nu <> 0 ->
  let e := [e0;e1;e2;e3;e4;e5] in let de := [d0;d1;d2;d3;d4;d5] in
  forall i j, (i < 6)%nat -> (j < 6)%nat ->
  is_derive (fun x => nthR (el_sig_h3d_l e (upd de j x) young nu) i) (nthR de j) (nthR (el_Dt_h3d_l e de young nu) (6 * i + j)).
Proof. exact el_Dt_h3d_ok. Qed.
Print Assumptions C42_elasticity_tangent_3d.

Theorem C42_elasticity_tangent_1d : forall e0 e1 e2 d0 d1 d2 young nu,
  1 + nu <> 0 -> 1 - 2 * nu <> 0 ->
  let e := [e0;e1;e2] in let de := [d0;d1;d2] in
  forall i j, (i < 3)%nat -> (j < 3)%nat ->
  is_derive (fun x => nthR (el_sig_hag_l e (upd de j x) young nu) i) (nthR de j) (nthR (el_Dt_hag_l e de young nu) (3 * i + j)).
Proof. exact el_Dt_hag_ok. Qed.
Print Assumptions C42_elasticity_tangent_1d.
